(* bzip2: the CRC of the implementation-level model (Impl.v [go_crc_update]: Go's
   common.go crc.update = bit-reverse, hash/crc32 IEEE table update, bit-reverse) is
   libbzip2's CRC of the specification side (Common.v [crc_step]/[crc_final]/[bz_crc]).

   The argument: the reflected register (hash/crc32, polynomial 0xEDB88320, shifts right)
   is the mirror image, bit i <-> bit 31-i, of the MSB-first register (libbzip2, polynomial
   0x04c11db7, shifts left).  One shift step of one is the mirror of one shift step of the
   other ([ieee_bits_mirror]); hence one table-driven byte step of one on the bit-reversed
   byte is the mirror of one table-driven byte step of the other ([crc_byte_mirror]); hence
   the whole update ([go_crc_update_spec]). *)
From V Require Import Base.Prelude Bzip2.Common Prefix.Code Prefix.ReaderImpl Prefix.ReaderThms
  Bzip2.MtfRle2 Bzip2.Impl.
From Coq Require Import ZifyBool ZifyN ZifyNat.
Local Open Scope N_scope.

(* ---- small helpers ------------------------------------------------------------------------ *)

Lemma crc_map_tr_eq {A B} (f : A -> B) l : map_tr f l = map f l.
Proof.
  unfold map_tr. rewrite fast_rev_eq.
  assert (G : forall acc, fold_left (fun acc x => f x :: acc) l acc = rev (map f l) ++ acc).
  { induction l as [|x r IH]; intros acc; cbn [fold_left map rev]; [reflexivity|].
    rewrite IH, <- app_assoc. reflexivity. }
  rewrite G, app_nil_r, rev_involutive. reflexivity.
Qed.

Lemma crc_testbit_above x n i : x < 2 ^ n -> n <= i -> N.testbit x i = false.
Proof.
  intros Hx Hi. rewrite <- (N.mod_small x (2 ^ n)) by exact Hx.
  rewrite testbit_mod_pow2. destruct (N.ltb_spec i n) as [Hlt|Hge]; [lia|reflexivity].
Qed.

Lemma crc_lt_of_bits x n : (forall i, n <= i -> N.testbit x i = false) -> x < 2 ^ n.
Proof.
  intros H. assert (E : x = x mod 2 ^ n).
  { apply N.bits_inj. intros i. rewrite testbit_mod_pow2.
    destruct (N.ltb_spec i n) as [Hlt|Hge]; [reflexivity|]. apply H. exact Hge. }
  rewrite E. apply N.mod_upper_bound. apply N.pow_nonzero. discriminate.
Qed.

Lemma testbit_mask32 i : N.testbit mask32 i = (i <? 32).
Proof.
  change mask32 with (N.ones 32). destruct (N.ltb_spec i 32) as [Hlt|Hge].
  - apply N.ones_spec_low. exact Hlt.
  - apply N.ones_spec_high. exact Hge.
Qed.

Lemma testbit_shiftl_if a n i :
  N.testbit (N.shiftl a n) i = if i <? n then false else N.testbit a (i - n).
Proof.
  destruct (N.ltb_spec i n) as [Hlt|Hge].
  - apply N.shiftl_spec_low. exact Hlt.
  - apply N.shiftl_spec_high'. exact Hge.
Qed.

Lemma mask32_lt : mask32 < 2 ^ 32.
Proof. vm_compute. reflexivity. Qed.

Lemma crc_lxor_lt a b n : a < 2 ^ n -> b < 2 ^ n -> N.lxor a b < 2 ^ n.
Proof.
  intros Ha Hb. apply crc_lt_of_bits. intros i Hi.
  rewrite N.lxor_spec, (crc_testbit_above a n i Ha Hi), (crc_testbit_above b n i Hb Hi).
  reflexivity.
Qed.

Lemma crc_shiftr_lt a n k : a < 2 ^ n -> N.shiftr a k < 2 ^ n.
Proof.
  intros Ha. apply crc_lt_of_bits. intros i Hi.
  rewrite N.shiftr_spec'. apply (crc_testbit_above a n); [exact Ha|lia].
Qed.

Lemma crc_land_mask32_lt a : N.land a mask32 < 2 ^ 32.
Proof.
  apply crc_lt_of_bits. intros i Hi. rewrite N.land_spec, testbit_mask32.
  destruct (N.ltb_spec i 32) as [Hlt|Hge]; [lia|]. apply andb_false_r.
Qed.

(* ---- 1. reverse32 -------------------------------------------------------------------------- *)

Lemma reverse_bits_testbit v n i :
  N.testbit (reverse_bits v n) i = if i <? n then N.testbit v (n - 1 - i) else false.
Proof.
  unfold reverse_bits. rewrite testbit_bits_val, fast_rev_eq.
  destruct (N.ltb_spec i n) as [Hlt|Hge].
  - rewrite rev_nth by (rewrite val_bits_length; lia).
    rewrite val_bits_length, nth_val_bits by lia. f_equal. lia.
  - apply nth_overflow. rewrite rev_length, val_bits_length. lia.
Qed.

Lemma reverse32_spec v i :
  N.testbit (reverse32 v) i = if i <? 32 then N.testbit v (31 - i) else false.
Proof.
  unfold reverse32. rewrite reverse_bits_testbit. change (32 - 1) with 31. reflexivity.
Qed.

Lemma reverse32_lt v : reverse32 v < 2 ^ 32.
Proof.
  apply crc_lt_of_bits. intros i Hi. rewrite reverse32_spec.
  destruct (N.ltb_spec i 32) as [Hlt|Hge]; [lia|reflexivity].
Qed.

Lemma reverse32_involutive v : v < 2 ^ 32 -> reverse32 (reverse32 v) = v.
Proof.
  intros Hv. apply N.bits_inj. intros i. rewrite !reverse32_spec.
  destruct (N.ltb_spec i 32) as [Hlt|Hge].
  - destruct (N.ltb_spec (31 - i) 32) as [Hlt2|Hge2]; [|lia]. f_equal. lia.
  - symmetry. apply (crc_testbit_above v 32); assumption.
Qed.

Lemma reverse32_lxor a b : reverse32 (N.lxor a b) = N.lxor (reverse32 a) (reverse32 b).
Proof.
  apply N.bits_inj. intros i. rewrite N.lxor_spec, !reverse32_spec, N.lxor_spec.
  destruct (i <? 32); reflexivity.
Qed.

Lemma reverse32_mask32 : reverse32 mask32 = mask32.
Proof. vm_compute. reflexivity. Qed.

Lemma reverse32_poly : reverse32 ieee_poly = crc_poly.
Proof. vm_compute. reflexivity. Qed.

Lemma reverse32_inj a b : a < 2 ^ 32 -> b < 2 ^ 32 -> reverse32 a = reverse32 b -> a = b.
Proof.
  intros Ha Hb E. rewrite <- (reverse32_involutive a Ha), <- (reverse32_involutive b Hb), E.
  reflexivity.
Qed.

(* ---- rev8 ---------------------------------------------------------------------------------- *)

Lemma rev8_spec b i : N.testbit (rev8 b) i = if i <? 8 then N.testbit b (7 - i) else false.
Proof.
  change (rev8 b) with (reverse_bits b 8). rewrite reverse_bits_testbit.
  change (8 - 1) with 7. reflexivity.
Qed.

Lemma rev8_lxor a b : rev8 (N.lxor a b) = N.lxor (rev8 a) (rev8 b).
Proof.
  apply N.bits_inj. intros i. rewrite N.lxor_spec, !rev8_spec, N.lxor_spec.
  destruct (i <? 8); reflexivity.
Qed.

(* the low byte of the mirrored register is the mirrored high byte *)
Lemma reverse32_low_byte reg : N.land (reverse32 reg) 255 = rev8 (N.shiftr reg 24).
Proof.
  apply N.bits_inj. intros i. rewrite N.land_spec, reverse32_spec, rev8_spec, N.shiftr_spec'.
  change 255 with (N.ones 8).
  destruct (N.ltb_spec i 8) as [Hlt|Hge].
  - rewrite N.ones_spec_low by exact Hlt.
    destruct (N.ltb_spec i 32) as [Hlt2|Hge2]; [|lia].
    rewrite andb_true_r. f_equal. lia.
  - rewrite N.ones_spec_high by exact Hge. apply andb_false_r.
Qed.

(* a mirrored byte, mirrored as a 32-bit word, sits in the top byte *)
Lemma reverse32_rev8 k : k < 256 -> reverse32 (rev8 k) = N.shiftl k 24.
Proof.
  intros Hk. apply N.bits_inj. intros i.
  rewrite reverse32_spec, rev8_spec, testbit_shiftl_if.
  destruct (N.ltb_spec i 32) as [Hlt|Hge].
  - destruct (N.ltb_spec (31 - i) 8) as [Hlt2|Hge2];
      destruct (N.ltb_spec i 24) as [Hlt3|Hge3]; try lia; try reflexivity.
    f_equal. lia.
  - destruct (N.ltb_spec i 24) as [Hlt3|Hge3]; [reflexivity|].
    symmetry. apply (crc_testbit_above k 8); [exact Hk|lia].
Qed.

(* shifting the mirrored register right = shifting the register left (and truncating) *)
Lemma reverse32_shiftr_mirror reg k :
  reverse32 (N.shiftr (reverse32 reg) k) = N.land (N.shiftl reg k) mask32.
Proof.
  apply N.bits_inj. intros i.
  rewrite reverse32_spec, N.shiftr_spec', reverse32_spec, N.land_spec, testbit_mask32,
    testbit_shiftl_if.
  destruct (N.ltb_spec i 32) as [Hlt|Hge]; [|apply eq_sym, andb_false_r].
  rewrite andb_true_r.
  destruct (N.ltb_spec (31 - i + k) 32) as [Hlt2|Hge2];
    destruct (N.ltb_spec i k) as [Hlt3|Hge3]; try lia; try reflexivity.
  f_equal. lia.
Qed.

Lemma reverse32_shiftr1 x : x < 2 ^ 32 ->
  reverse32 (N.shiftr x 1) = N.land (N.shiftl (reverse32 x) 1) mask32.
Proof.
  intros Hx. rewrite <- (reverse32_involutive x Hx) at 1. apply reverse32_shiftr_mirror.
Qed.

(* ---- 2. the mirror lemma -------------------------------------------------------------------- *)

Definition ieee_step (c : N) : N :=
  if N.odd c then N.lxor (N.shiftr c 1) ieee_poly else N.shiftr c 1.
Definition crc_shift_step (c : N) : N :=
  let c2 := N.land (N.shiftl c 1) mask32 in
  if N.testbit c 31 then N.lxor c2 crc_poly else c2.

Lemma ieee_poly_lt : ieee_poly < 2 ^ 32.
Proof. vm_compute. reflexivity. Qed.

Lemma ieee_step_lt x : x < 2 ^ 32 -> ieee_step x < 2 ^ 32.
Proof.
  intros Hx. unfold ieee_step. destruct (N.odd x).
  - apply crc_lxor_lt; [apply crc_shiftr_lt; exact Hx | exact ieee_poly_lt].
  - apply crc_shiftr_lt. exact Hx.
Qed.

Lemma ieee_bits_lt k : forall x, x < 2 ^ 32 -> ieee_bits k x < 2 ^ 32.
Proof.
  induction k as [|k IH]; intros x Hx; cbn [ieee_bits]; [exact Hx|].
  apply IH. apply (ieee_step_lt x Hx).
Qed.

Lemma ieee_step_mirror x : x < 2 ^ 32 -> reverse32 (ieee_step x) = crc_shift_step (reverse32 x).
Proof.
  intros Hx. unfold ieee_step, crc_shift_step. cbv zeta.
  assert (Hb : N.testbit (reverse32 x) 31 = N.odd x).
  { rewrite reverse32_spec. change (31 <? 32) with true. change (31 - 31) with 0. cbv iota.
    apply N.bit0_odd. }
  rewrite Hb. destruct (N.odd x).
  - rewrite reverse32_lxor, reverse32_poly, (reverse32_shiftr1 x Hx). reflexivity.
  - apply (reverse32_shiftr1 x Hx).
Qed.

Theorem ieee_bits_mirror k : forall x, x < 2 ^ 32 ->
  reverse32 (ieee_bits k x) = crc_shift k (reverse32 x).
Proof.
  induction k as [|k IH]; intros x Hx; cbn [ieee_bits crc_shift]; [reflexivity|].
  fold (ieee_step x). fold (crc_shift_step (reverse32 x)).
  rewrite (IH (ieee_step x) (ieee_step_lt x Hx)), (ieee_step_mirror x Hx). reflexivity.
Qed.

(* ---- 3. the three tables -------------------------------------------------------------------- *)

Lemma ieee_table_get j : j < 256 -> nm_getd ieee_table j 0 = ieee_bits 8 j.
Proof.
  intros Hj.
  assert (C : forallb (fun j => nm_getd ieee_table j 0 =? ieee_bits 8 j) (iota 256) = true)
    by (vm_compute; reflexivity).
  rewrite forallb_forall in C. apply N.eqb_eq. apply C. apply iota_In. exact Hj.
Qed.

Lemma crc_table_get j : j < 256 -> nm_getd crc_table j 0 = crc_shift 8 (N.shiftl j 24).
Proof.
  intros Hj.
  assert (C : forallb (fun j => nm_getd crc_table j 0 =? crc_shift 8 (N.shiftl j 24)) (iota 256)
              = true) by (vm_compute; reflexivity).
  rewrite forallb_forall in C. apply N.eqb_eq. apply C. apply iota_In. exact Hj.
Qed.

Lemma reverse_lut_get j : j < 256 -> nm_getd reverse_lut j 0 = rev8 j.
Proof.
  intros Hj.
  assert (C : forallb (fun j => nm_getd reverse_lut j 0 =? rev8 j) (iota 256) = true)
    by (vm_compute; reflexivity).
  rewrite forallb_forall in C. apply N.eqb_eq. apply C. apply iota_In. exact Hj.
Qed.

(* ---- 4. one byte ---------------------------------------------------------------------------- *)

Lemma crc_index_lt reg b : reg < 2 ^ 32 -> b < 256 -> N.lxor (N.shiftr reg 24) b < 256.
Proof.
  intros Hr Hb. change 256 with (2 ^ 8). apply crc_lxor_lt; [|exact Hb].
  apply crc_lt_of_bits. intros i Hi. rewrite N.shiftr_spec'.
  apply (crc_testbit_above reg 32); [exact Hr|lia].
Qed.

(* the index into the IEEE table is the mirrored index into libbzip2's table *)
Lemma ieee_index_mirror reg b :
  N.lxor (N.land (reverse32 reg) 255) (rev8 b) = rev8 (N.lxor (N.shiftr reg 24) b).
Proof. rewrite reverse32_low_byte, rev8_lxor. reflexivity. Qed.

Theorem crc_byte_mirror reg b : reg < 2 ^ 32 -> b < 256 ->
  reverse32 (ieee_byte (reverse32 reg) (rev8 b)) = crc_step reg b.
Proof.
  intros Hr Hb. unfold ieee_byte, crc_step.
  pose proof (crc_index_lt reg b Hr Hb) as Hk.
  rewrite ieee_index_mirror. set (k := N.lxor (N.shiftr reg 24) b) in *.
  rewrite (ieee_table_get (rev8 k) (rev8_lt k)), (crc_table_get k Hk).
  rewrite reverse32_lxor, reverse32_shiftr_mirror.
  rewrite ieee_bits_mirror
    by (apply N.lt_trans with 256; [apply rev8_lt | vm_compute; reflexivity]).
  rewrite (reverse32_rev8 k Hk). apply N.lxor_comm.
Qed.

Theorem crc_step_lt reg b : reg < 2 ^ 32 -> b < 256 -> crc_step reg b < 2 ^ 32.
Proof.
  intros Hr Hb. rewrite <- (crc_byte_mirror reg b Hr Hb). apply reverse32_lt.
Qed.

Lemma ieee_byte_lt c b : c < 2 ^ 32 -> b < 256 -> ieee_byte c b < 2 ^ 32.
Proof.
  intros Hc Hb. unfold ieee_byte.
  assert (Hj : N.lxor (N.land c 255) b < 256).
  { change 256 with (2 ^ 8). apply crc_lxor_lt; [|exact Hb].
    apply crc_lt_of_bits. intros i Hi. rewrite N.land_spec.
    change 255 with (N.ones 8). rewrite N.ones_spec_high by exact Hi. apply andb_false_r. }
  rewrite (ieee_table_get _ Hj). apply crc_lxor_lt.
  - apply ieee_bits_lt. apply N.lt_trans with 256; [exact Hj | vm_compute; reflexivity].
  - apply crc_shiftr_lt. exact Hc.
Qed.

(* the same, read from the implementation side *)
Corollary ieee_byte_mirror reg b : reg < 2 ^ 32 -> b < 256 ->
  ieee_byte (reverse32 reg) (rev8 b) = reverse32 (crc_step reg b).
Proof.
  intros Hr Hb. rewrite <- (crc_byte_mirror reg b Hr Hb).
  symmetry. apply reverse32_involutive.
  apply ieee_byte_lt; [apply reverse32_lt | apply rev8_lt].
Qed.

(* ---- 5. the whole update -------------------------------------------------------------------- *)

Lemma crc_fold_lt buf : forall reg, reg < 2 ^ 32 -> Forall (fun b => b < 256) buf ->
  fold_left crc_step buf reg < 2 ^ 32.
Proof.
  induction buf as [|b r IH]; intros reg Hr Hbuf; cbn [fold_left]; [exact Hr|].
  inversion Hbuf as [|b' r' Hb Hrest]; subst.
  apply IH; [apply crc_step_lt; assumption | exact Hrest].
Qed.

Lemma ieee_fold_mirror buf : forall reg, reg < 2 ^ 32 -> Forall (fun b => b < 256) buf ->
  fold_left ieee_byte (map (fun b => nm_getd reverse_lut b 0) buf) (reverse32 reg) =
  reverse32 (fold_left crc_step buf reg).
Proof.
  induction buf as [|b r IH]; intros reg Hr Hbuf; cbn [map fold_left]; [reflexivity|].
  inversion Hbuf as [|b' r' Hb Hrest]; subst.
  rewrite (reverse_lut_get b Hb), (ieee_byte_mirror reg b Hr Hb).
  apply IH; [apply crc_step_lt; assumption | exact Hrest].
Qed.

Lemma crc_final_lt reg : reg < 2 ^ 32 -> crc_final reg < 2 ^ 32.
Proof. intros Hr. unfold crc_final. apply crc_lxor_lt; [exact Hr | exact mask32_lt]. Qed.

Lemma crc_final_involutive reg : crc_final (crc_final reg) = reg.
Proof.
  unfold crc_final. rewrite N.lxor_assoc, N.lxor_nilpotent, N.lxor_0_r. reflexivity.
Qed.

Lemma reverse32_crc_final reg : reverse32 (crc_final reg) = crc_final (reverse32 reg).
Proof. unfold crc_final. rewrite reverse32_lxor, reverse32_mask32. reflexivity. Qed.

Theorem go_crc_update_spec reg buf : reg < 2 ^ 32 -> Forall (fun b => b < 256) buf ->
  go_crc_update (crc_final reg) buf = crc_final (fold_left crc_step buf reg).
Proof.
  intros Hr Hbuf. unfold go_crc_update, ieee_update. rewrite crc_map_tr_eq.
  fold (crc_final (reverse32 (crc_final reg))).
  rewrite reverse32_crc_final, crc_final_involutive.
  rewrite (ieee_fold_mirror buf reg Hr Hbuf).
  fold (crc_final (reverse32 (fold_left crc_step buf reg))).
  rewrite <- reverse32_crc_final. apply reverse32_involutive.
  apply crc_final_lt. apply crc_fold_lt; assumption.
Qed.

Corollary go_crc_update_lt val buf : go_crc_update val buf < 2 ^ 32.
Proof. unfold go_crc_update. apply reverse32_lt. Qed.

Corollary go_crc_update_app val a b :
  val < 2 ^ 32 -> Forall (fun x => x < 256) a -> Forall (fun x => x < 256) b ->
  go_crc_update val (a ++ b) = go_crc_update (go_crc_update val a) b.
Proof.
  intros Hv Ha Hb.
  rewrite <- (crc_final_involutive val).
  pose proof (crc_final_lt val Hv) as Hr. set (reg := crc_final val) in *.
  rewrite (go_crc_update_spec reg (a ++ b) Hr) by (apply Forall_app; split; assumption).
  rewrite (go_crc_update_spec reg a Hr Ha).
  rewrite (go_crc_update_spec _ b (crc_fold_lt a reg Hr Ha) Hb).
  rewrite fold_left_app. reflexivity.
Qed.

Corollary go_crc_update_zero buf : Forall (fun b => b < 256) buf ->
  go_crc_update 0 buf = bz_crc buf.
Proof.
  intros Hbuf. change 0 with (crc_final crc_init).
  apply go_crc_update_spec; [exact mask32_lt | exact Hbuf].
Qed.

(* ---- 6. non-vacuity ------------------------------------------------------------------------- *)

(* "hello": the implementation CRC, the specification CRC, and the value itself
   (bzip2's block CRC of "hello") *)
Example go_crc_update_hello :
  go_crc_update 0 [104;101;108;108;111] = bz_crc [104;101;108;108;111] /\
  go_crc_update 0 [104;101;108;108;111] = 0x1931653d.
Proof. vm_compute. split; reflexivity. Qed.

(* the hypotheses of [go_crc_update_spec] hold for it, and the update really is incremental *)
Example go_crc_update_spec_hello :
  crc_init < 2 ^ 32 /\ Forall (fun b => b < 256) [104;101;108;108;111] /\
  go_crc_update (go_crc_update 0 [104;101]) [108;108;111] = 0x1931653d.
Proof.
  split; [exact mask32_lt|]. split.
  - repeat constructor.
  - vm_compute. reflexivity.
Qed.

Example crc_byte_mirror_ex :
  reverse32 (ieee_byte (reverse32 0x12345678) (rev8 0xa5)) = crc_step 0x12345678 0xa5 /\
  crc_step 0x12345678 0xa5 <> 0.
Proof. vm_compute. split; [reflexivity | discriminate]. Qed.

Print Assumptions go_crc_update_spec.
Print Assumptions go_crc_update_app.
Print Assumptions go_crc_update_zero.
Print Assumptions crc_byte_mirror.
Print Assumptions ieee_bits_mirror.
