(* Layer (g), part 1: what a run of bzip2.Reader (Bzip2/Impl.v) has to say about the result of
   the libbzip2 port on the same input ([Final]), and the invariant that ties the Reader's state
   between two Read calls to the part of the specification's run still to come ([Inv]). *)
From V Require Import Base.Prelude Base.Prog Base.ProgThms Base.FuelThms Base.DepthThms
  Bzip2.Common Bzip2.SpecR Bzip2.Safe Bzip2.Rle1 Prefix.ReaderImpl Prefix.ReaderSpec Prefix.ReaderThms
  Prefix.DecTable Prefix.DecReadThms Bzip2.Impl Bzip2.ImplBits Bzip2.ImplRle Bzip2.ImplCrc
  Bzip2.ImplRead Bzip2.ImplSpecRun.

Local Open Scope N_scope.

Section Inv.
Variable data : list byte.
Hypothesis Hd : forall b, In b data -> b < 256.

Notation total := (8 * length data)%nat.
Notation sat := (sat data).
Notation Rep := (Rep data).
Notation d := (spec_depth data).
Notation r_total := (spec_run data).

(* ---- the verdict ----------------------------------------------------------------------------------
   The run of the Reader ended with error e after delivering outs, InputOffset = inOff:
   - never a run-time panic, never out of the model's budget;
   - the specification accepts the input  <->  e = io.EOF; then the same bytes, and InputOffset
     is the number of input bytes the specification has consumed;
   - otherwise the specification fails as well, the bytes delivered are a prefix of its output;
     and either same class and same bytes, or the Reader says io.ErrUnexpectedEOF (near the end
     of the input ReadSymbol may ask for more bits than the code word it would decode). *)
Definition Final (e : err) (outs : list byte) (inOff : Z) : Prop :=
  e <> EPanic /\ e <> EFuel /\
  match res_err r_total with
  | None => e = EEOF /\ outs = res_out r_total /\ inOff = Z.of_N ((res_pos r_total + 7) / 8)
  | Some es => e <> EEOF /\ prefix_of outs (res_out r_total) /\
               ((e = es /\ outs = res_out r_total) \/ e = EUEOF)
  end.

Lemma spec_errs : match res_err r_total with
                  | None => True
                  | Some es => es = EUEOF \/ es = ECorrupted \/ es = EDeprecated
                  end.
Proof. exact (bzip2_decode_total data). Qed.

(* the specification failed exactly where the Reader did *)
Lemma final_fail_exact es s' outs inOff :
  r_total = Fail es s' -> a_out s' = rev outs -> Final es outs inOff.
Proof.
  intros Hr Ho. pose proof spec_errs as He. unfold Final. rewrite Hr in *. cbn [res_err] in *.
  split; [destruct He as [-> | [-> | ->]]; discriminate|].
  split; [destruct He as [-> | [-> | ->]]; discriminate|].
  split; [destruct He as [-> | [-> | ->]]; discriminate|].
  assert (Hout : res_out (@Fail unit es s') = outs).
  { unfold res_out. cbn [res_state]. rewrite fast_rev_eq, Ho, rev_involutive. reflexivity. }
  rewrite Hout. split; [apply prefix_of_refl|]. left. split; reflexivity.
Qed.

(* the specification failed somewhere at or after the point where the Reader said UEOF *)
Lemma final_fail_weak es s' more outs inOff :
  r_total = Fail es s' -> a_out s' = more ++ rev outs -> Final EUEOF outs inOff.
Proof.
  intros Hr Ho. unfold Final. rewrite Hr. cbn [res_err].
  split; [discriminate|]. split; [discriminate|]. split; [discriminate|].
  split; [|right; reflexivity].
  unfold res_out. cbn [res_state]. rewrite fast_rev_eq, Ho, rev_app_distr, rev_involutive.
  apply prefix_of_app.
Qed.

Lemma final_fail_any e es s' outs inOff :
  r_total = Fail es s' -> a_out s' = rev outs -> e = es \/ e = EUEOF -> Final e outs inOff.
Proof.
  intros Hr Ho [-> | ->].
  - apply (final_fail_exact es s'); assumption.
  - apply (final_fail_weak es s' []); assumption.
Qed.

(* the specification accepted the input *)
Lemma final_done outs len :
  r_total = Done tt (sat total (rev outs) len) -> Final EEOF outs (Z.of_nat (length data)).
Proof.
  intros Hr. unfold Final. rewrite Hr. cbn [res_err].
  split; [discriminate|]. split; [discriminate|]. split; [reflexivity|].
  split.
  - unfold res_out. cbn [res_state ImplBits.sat a_out]. rewrite fast_rev_eq, rev_involutive. reflexivity.
  - unfold res_pos. cbn [res_state ImplBits.sat a_pos].
    replace ((N.of_nat total + 7) / 8) with (N.of_nat (length data)); [lia|].
    replace (N.of_nat total + 7) with (7 + N.of_nat (length data) * 8) by lia.
    rewrite N.div_add by lia. reflexivity.
Qed.

(* ---- the invariant between Read calls ------------------------------------------------------------- *)
(* common bookkeeping *)
Record Book (st : bzst) (outs : list byte) : Prop := mkBook {
  bk_off : z_inOff st = p_offset (z_rd st);
  bk_trees : length (z_trees st) = 6%nat;
  bk_out : z_outOff st = Z.of_nat (length outs)
}.

(* nothing is owed by the RLE1 stage and the last block ended properly *)
Definition Idle (st : bzst) : Prop :=
  z_err st = None /\ exists r' reg, Owes st [] r' reg /\ r' <> 4.

(* before the first stream *)
Definition InvStart (st : bzst) (outs : list byte) : Prop :=
  outs = [] /\ z_hdrftr st = 0 /\ z_endCRC st = 0 /\ Idle st /\ Rep 0 st /\
  loops (streams_body d) tt (sat 0 [] 0) r_total.

(* after a stream footer *)
Definition InvBetween (st : bzst) (outs : list byte) : Prop :=
  exists R, z_hdrftr st mod 2 = 0 /\ 0 < z_hdrftr st /\ z_endCRC st = 0 /\ Idle st /\ Rep R st /\
    (R <= total)%nat /\ (R mod 8 = 0)%nat /\
    after_stream d (sat R (rev outs) (N.of_nat (length outs))) r_total.

(* a block has been decoded and is being delivered *)
Definition InvBlock (st : bzst) (outs : list byte) : Prop :=
  exists R lvl c stored block out0 delivered T r' reg,
    z_hdrftr st mod 2 = 1 /\ z_level st = lvl /\ 1 <= lvl <= 9 /\
    z_endCRC st = c /\ c < 2 ^ 32 /\ z_blkCRC st = stored /\ stored < 2 ^ 32 /\
    Owes st T r' reg /\ block_out block = delivered ++ T /\ block_run block = r' /\
    reg = fold_left crc_step delivered crc_init /\ outs = out0 ++ delivered /\
    Rep R st /\ (R <= total)%nat /\
    (z_err st = None \/ (z_err st = Some ECorrupted /\ T = [] /\ r' = 4)) /\
    match run (emit_k stored block) (sat R (rev out0) (N.of_nat (length out0))) with
    | Done blk s2 => in_stream d lvl (crc_combine c blk) s2 r_total
    | Fail e s2 => r_total = Fail e s2
    end.

Definition Inv (st : bzst) (outs : list byte) : Prop :=
  Book st outs /\ (InvStart st outs \/ InvBetween st outs \/ InvBlock st outs).

(* ---- at the beginning ---------------------------------------------------------------------------- *)
Lemma owes_init block : Forall (fun b => b < 256) block ->
  forall st, z_rle st = rle_init block -> z_crc st = 0 ->
  Owes st (block_out block) (block_run block) crc_init.
Proof.
  intros Hb st Hr Hc. constructor.
  - rewrite Hr. cbn [rle_init r_lastCnt]. lia.
  - rewrite Hr. apply rle_rest_init.
  - (* the expansion of bytes consists of bytes *)
    unfold block_out.
    assert (G : forall l rn last, Forall (fun b => b < 256) l -> last < 256 ->
                                  Forall (fun b => b < 256) (fst (fst (expand l rn last)))).
    { induction l as [|b l IH]; intros rn last Hl Hlast; cbn [expand]; [constructor|].
      inversion Hl as [|b' l' Hb' Hl']; subst.
      destruct (rn =? 4).
      - specialize (IH 0 last Hl' Hlast). destruct (expand l 0 last) as [[o r1] ls]. cbn [fst] in *.
        apply Forall_app. split; [|exact IH]. apply Forall_forall. intros x Hx.
        apply repeat_spec in Hx. subst. exact Hlast.
      - destruct ((0 <? rn) && (b =? last)).
        + specialize (IH (rn + 1) last Hl' Hlast). destruct (expand l (rn + 1) last) as [[o r1] ls].
          cbn [fst] in *. constructor; assumption.
        + specialize (IH 1 b Hl' Hb'). destruct (expand l 1 b) as [[o r1] ls].
          cbn [fst] in *. constructor; assumption. }
    apply G; [exact Hb | lia].
  - unfold crc_init, mask32. lia.
  - rewrite Hc. reflexivity.
Qed.

Theorem inv_init buffered fills reads : Inv (bz_new data buffered fills reads) [].
Proof.
  split.
  - constructor; reflexivity.
  - left. unfold InvStart. split; [reflexivity|]. split; [reflexivity|]. split; [reflexivity|].
    split.
    + split; [reflexivity|]. exists (block_run []), crc_init. split.
      * apply (owes_init [] (Forall_nil _)); reflexivity.
      * unfold block_run. cbn. lia.
    + split.
      * unfold ImplBits.Rep, bz_new. cbn [z_rd]. apply Inv_PI. apply Inv_init.
      * apply (spec_run_loops data Hd).
Qed.

End Inv.
