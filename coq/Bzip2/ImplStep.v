(* Layer (g), part 3: one turn of Read's loop against the specification's run.
     tail_step    decodeBlock + rle.Init from a state inside a stream
     round_block  the turn that follows a completely delivered block (block CRC check first)
     round_start  the turn that starts a stream (end-of-input probe, header) *)
From V Require Import Base.Prelude Base.Prog Base.ProgThms Base.FuelThms Base.DepthThms
  Bzip2.Common Bzip2.SpecR Bzip2.Safe Bzip2.Rle1 Bzip2.StreamBits Prefix.ReaderImpl Prefix.ReaderSpec
  Prefix.ReaderThms Prefix.DecTable Prefix.DecReadThms Bzip2.Impl Bzip2.ImplBits Bzip2.ImplSim
  Bzip2.ImplRle Bzip2.ImplCrc Bzip2.ImplRead Bzip2.ImplTables Bzip2.ImplSpecRun Bzip2.ImplNoPut
  Bzip2.ImplHdr Bzip2.ImplBlock Bzip2.ImplBof Bzip2.ImplRound Bzip2.ImplInv.

Local Open Scope N_scope.

Section Step.
Variable data : list byte.
Hypothesis Hd : forall b, In b data -> b < 256.

Notation total := (8 * length data)%nat.
Notation sat := (sat data).
Notation Rep := (Rep data).
Notation PI := (PI true data).
Notation d := (spec_depth data).
Notation r_total := (spec_run data).
Notation Final := (Final data).

Lemma Hdepth : (total < 2 ^ d)%nat.
Proof. apply spec_depth_enough. Qed.

Lemma push_out_sat R out len o :
  push_out (sat R out len) o = sat R (rev o ++ out) (len + N.of_nat (length o)).
Proof. reflexivity. Qed.

Lemma ilen_sat' R out len : ilen (sat R out len) = (total - R)%nat.
Proof. apply (ilen_sat data). Qed.

(* a read-only program leaves a state of the same form *)
Lemma quiet_sat {A} (q : prog A) R out len a s1 : quiet q -> (R <= total)%nat ->
  run q (sat R out len) = Done a s1 -> exists R1, s1 = sat R1 out len /\ (R <= R1 <= total)%nat.
Proof.
  intros Hq HR E. destruct (quiet_done q _ _ _ Hq E) as (Ho & Hl).
  destruct (run_mono q (sat R out len)) as (o & c & _ & Hin & Hpos). rewrite E in Hin, Hpos.
  cbn [res_state ImplBits.sat a_in a_pos a_out Prog.a_len] in *.
  assert (Hc : a_in s1 = skipn (R + length c) (stream_bits true data)).
  { rewrite <- skipn_skipn', Hin, skipn_app, skipn_all, Nat.sub_diag. reflexivity. }
  assert (Hlen : (length c <= total - R)%nat).
  { assert (HL : length (skipn R (stream_bits true data)) = length (c ++ a_in s1)) by (rewrite Hin; reflexivity).
    rewrite skipn_length, (bits_length data), app_length in HL. lia. }
  exists (R + length c)%nat. split; [|lia].
  destruct s1 as [i p o' l']. cbn [a_in a_pos a_out Prog.a_len] in *. subst.
  unfold ImplBits.sat. f_equal. lia.
Qed.

(* fewer than 48 bits left: neither a block nor a footer can be read *)
Lemma bof_short lvl c R out len : (R <= total)%nat -> (total - R < 48)%nat ->
  exists s', run (bof_ro d lvl c) (sat R out len) = Fail EUEOF s' /\ a_out s' = out.
Proof.
  intros HR Hs. unfold bof_ro. rewrite run_bind.
  pose proof (run_rbits_at data Hd R 48 out len HR) as S1.
  replace (R + 48 <=? total)%nat with false in S1 by (symmetry; apply Nat.leb_gt; lia).
  destruct S1 as (s' & -> & Ho & _). exists s'. split; [reflexivity | exact Ho].
Qed.

(* ---- the outcome of the second half of a turn ------------------------------------------------------ *)
(* the specification fails at or after the point where the Reader threw e *)
Definition spec_fails (e : err) (outs : list byte) : Prop :=
  exists es s' more, r_total = Fail es s' /\ a_out s' = more ++ rev outs /\
                     ((e = es /\ more = []) \/ e = EUEOF).

Lemma spec_fails_final e outs inOff : spec_fails e outs -> Final e outs inOff.
Proof.
  intros (es & s' & more & Hr & Ho & [[-> ->]| ->]).
  - apply (final_fail_exact data es s'); [exact Hr | exact Ho].
  - apply (final_fail_weak data es s' more); assumption.
Qed.

Definition tail_go : M unit :=
  mbind decode_block (fun buf => mupd (fun st => set_rle st (rle_init buf))).

Theorem tail_step st outs R lvl c :
  z_level st = lvl -> 1 <= lvl <= 9 -> z_endCRC st = c -> c < 2 ^ 32 ->
  length (z_trees st) = 6%nat -> Rep R st -> (R <= total)%nat ->
  in_stream d lvl c (sat R (rev outs) (N.of_nat (length outs))) r_total ->
  match tail_go st with
  | (RThrow e, st') => spec_fails e outs
  | (ROk _, st') =>
    rest st' = (z_inOff st, z_outOff st, z_err st, lvl, z_hdrftr st + 1, z_blkCRC st, 0, z_crc st, rle_init [])
    /\ length (z_trees st') = 6%nat
    /\ (exists R', Rep R' st' /\ (R + 80 <= R' <= total)%nat /\ (R' mod 8 = 0)%nat /\
                   after_stream d (sat R' (rev outs) (N.of_nat (length outs))) r_total)
    \/
    exists stored block R',
      rest st' = (z_inOff st, z_outOff st, z_err st, lvl, z_hdrftr st, stored, c, 0, rle_init block)
      /\ length (z_trees st') = 6%nat /\ stored < 2 ^ 32 /\ Forall (fun b => b < 256) block
      /\ Rep R' st' /\ (R + 48 <= R' <= total)%nat
      /\ match run (emit_k stored block) (sat R' (rev outs) (N.of_nat (length outs))) with
         | Done blk s2 => in_stream d lvl (crc_combine c blk) s2 r_total
         | Fail e s2 => r_total = Fail e s2
         end
  end.
Proof.
  intros Hlev Hlvl Hec Hc Htr HP HR Hin.
  pose proof (in_stream_inv d lvl c _ _ Hin) as Hinv.
  assert (Hrest : rest st = (z_inOff st, z_outOff st, z_err st, lvl, z_hdrftr st, z_blkCRC st, c,
                             z_crc st, z_rle st)).
  { unfold rest. rewrite Hlev, Hec. reflexivity. }
  pose proof (bof_sim data Hd d _ _ _ lvl _ _ c _ _ R st (rev outs) (N.of_nat (length outs))
                      Hdepth Hlvl Hc Hrest Htr HP HR) as Hb.
  pose proof (quiet_bof_ro d lvl c (sat R (rev outs) (N.of_nat (length outs)))) as Hq.
  unfold tail_go.
  destruct (run (bof_ro d lvl c) (sat R (rev outs) (N.of_nat (length outs)))) as [[[stored block]|] s1|e s1] eqn:Er.
  - (* a block *)
    cbn [res_state] in Hq. destruct Hq as (Hqo & Hql).
    destruct Hb as [(R' & st' & -> & HR' & Eg & Hpost & HP')|(Hw & st' & Eg)].
    + rewrite (mbind_ok _ _ _ _ _ Eg). unfold mupd. right.
      destruct Hpost as (_ & Hr' & Htr' & Hs32 & Hbytes). cbn [fst snd] in *.
      exists stored, block, R'. split.
      { unfold rest in *. cbn [z_inOff z_outOff z_err z_level z_hdrftr z_blkCRC z_endCRC z_crc z_rle set_rle].
        inversion Hr'. reflexivity. }
      split; [exact Htr'|]. split; [exact Hs32|]. split; [exact Hbytes|].
      split; [exact HP'|]. split; [lia|]. exact Hinv.
    + rewrite (mbind_throw _ _ _ _ _ Eg).
      (* the Reader gave up near the end; the specification cannot get through either *)
      destruct (quiet_sat _ R (rev outs) (N.of_nat (length outs)) _ s1 (quiet_bof_ro d lvl c) HR Er)
        as (R1 & Hs1 & HR1).
      subst s1. rewrite ilen_sat' in Hw.
      rewrite run_emit_k in Hinv.
      destruct (expand block 0 0) as [[o r'] ls].
      destruct (r' =? 4).
      * exists ECorrupted, (push_out (sat R1 (rev outs) (N.of_nat (length outs))) o), (rev o).
        split; [exact Hinv|]. split; [reflexivity | right; reflexivity].
      * destruct (crc_final (fold_left crc_step o crc_init) =? stored).
        -- rewrite push_out_sat in Hinv.
           pose proof (in_stream_inv d lvl _ _ _ Hinv) as Hinv2.
           destruct (bof_short lvl (crc_combine c stored) R1 (rev o ++ rev outs)
                               (N.of_nat (length outs) + N.of_nat (length o)) ltac:(lia) ltac:(lia))
             as (s3 & Es3 & Ho3).
           rewrite Es3 in Hinv2.
           exists EUEOF, s3, (rev o). split; [exact Hinv2|]. split; [exact Ho3 | right; reflexivity].
        -- exists ECorrupted, (push_out (sat R1 (rev outs) (N.of_nat (length outs))) o), (rev o).
           split; [exact Hinv|]. split; [reflexivity | right; reflexivity].
  - (* the footer *)
    destruct Hb as (R' & p' & -> & HR' & Hal & Eg & HP').
    rewrite (mbind_ok _ _ _ _ _ Eg). unfold mupd. left.
    split.
    { unfold rest. cbn [z_inOff z_outOff z_err z_level z_hdrftr z_blkCRC z_endCRC z_crc z_rle
                        set_rle set_hdrftr set_endCRC set_rd]. rewrite Hlev. reflexivity. }
    split; [exact Htr|].
    exists R'. split; [exact HP'|]. split; [lia|]. split; [exact Hal | exact Hinv].
  - (* the specification fails *)
    cbn [res_state] in Hq. destruct Hq as (Hqo & _).
    destruct Hb as (st' & [Eg|Eg]); rewrite (mbind_throw _ _ _ _ _ Eg);
      exists e, s1, []; (split; [exact Hinv|]); (split; [exact Hqo|]); [left; split; reflexivity | right; reflexivity].
Qed.

End Step.
