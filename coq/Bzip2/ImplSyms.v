(* Layer (c), part 2: the symbol loop of Reader.decodePrefix (Bzip2/Impl.v [sym_body] under
   [loopM]: groups of 50 symbols, one selector per group, the table decoder of the selected
   Decoder object, end-of-block marker, "invalid prefix symbol", "number of prefix symbols
   exceeds block size") refines the specification's [read_syms] over the libbzip2 tables.

   The Reader uses all the selectors it has read, libbzip2 1.0.8 only the first 18002: a block
   of at most 900000 symbols never reaches the 18003rd group. *)
From V Require Import Base.Prelude Base.Prog Base.ProgThms Base.FuelThms Base.DepthThms
  Bzip2.Common Bzip2.SpecR Bzip2.BitIO Bzip2.Safe Prefix.Code Prefix.ReaderImpl Prefix.ReaderSpec
  Prefix.ReaderThms Prefix.DecTable Prefix.DecTableSpec Prefix.DecTableThms Prefix.DecReadThms
  Bzip2.Impl Bzip2.ImplBits Bzip2.ImplSim Bzip2.ImplSimP Bzip2.ImplSym Bzip2.ImplCodes
  Bzip2.ImplClens Bzip2.ImplTables.
From V Require Bzip2.Degenerate Bzip2.DegenerateSpec.

Local Open Scope N_scope.
Local Transparent eats post.

(* ---- the specification's step, named ------------------------------------------------------------ *)
Definition spec_step (f : nat) (tabs : list htable) (cur : htable) (sels : list N) (gpos : N)
           (eob maxn n : N) (acc : list N) : prog (list N) :=
  bind (read_symbol cur) (fun s =>
    if s =? eob then Ret (fast_rev acc)
    else if eob <? s then corrupt
    else if maxn <=? n then corrupt
    else read_syms f tabs sels (gpos - 1) cur eob maxn (n + 1) (s :: acc)).

Lemma read_syms_S f tabs sels gpos cur eob maxn n acc :
  read_syms (S f) tabs sels gpos cur eob maxn n acc =
  if gpos =? 0 then
    match sels with
    | [] => corrupt
    | sel :: sels' => spec_step f tabs (nth (N.to_nat sel) tabs empty_table) sels' numBlockSyms eob maxn n acc
    end
  else spec_step f tabs cur sels gpos eob maxn n acc.
Proof. reflexivity. Qed.

Lemma eats_read_symbol t : eats (fun _ => True) (read_symbol t).
Proof.
  unfold read_symbol. destruct (t_rows t) as [|r rest]; cbn [hwalk].
  - intros s a s' E. cbn [run] in E. discriminate.
  - apply eats_bit.
Qed.

(* ---- the Reader's step with the symbol check pulled to the front ---------------------------------- *)
Definition sym_group (trees : list dslot) (y : symst) : M (N * list N * option dec) :=
  if y_blkLen y =? 0 then
    match y_sels y with
    | [] => corrupted
    | sel :: r =>
      match nth_error trees (N.to_nat sel) with
      | Some s => ret (numBlockSyms, r, Some (ds_dec s))
      | None => throw EPanic
      end
    end
  else ret (y_blkLen y, y_sels y, y_tree y).

Definition sym_tail (numSyms limit : N) (y : symst) (blkLen : N) (sels : list N) (tree : option dec)
           (sym : N) : M (symst + list N) :=
  if sym =? numSyms - 1 then ret (inr (fast_rev (y_acc y)))
  else if limit <=? y_cnt y then corrupted
  else ret (inl (mkSym (blkLen - 1) sels tree (y_cnt y + 1) (sym :: y_acc y))).

Lemma sym_body_eq trees numSyms limit y st : 1 <= numSyms ->
  sym_body trees numSyms limit y st =
  mbind (sym_group trees y) (fun g =>
    let '(blkLen, sels, tree) := g in
    match tree with
    | None => throw EPanic
    | Some d => mbind (m_sym_checked d numSyms) (sym_tail numSyms limit y blkLen sels tree)
    end) st.
Proof.
  intros Hn. unfold sym_body. fold (sym_group trees y). unfold mbind at 1 3.
  destruct (sym_group trees y st) as [[[[blkLen sels] tree]|e] st1]; [|reflexivity].
  destruct tree as [d|]; [|reflexivity].
  unfold m_sym_checked, mbind. destruct (m_symbol_fast d st1) as [[sym|e] st2]; [|reflexivity].
  unfold sym_tail. destruct (numSyms <=? sym) eqn:E.
  - replace (sym =? numSyms - 1) with false by lia. reflexivity.
  - unfold ret. reflexivity.
Qed.

Lemma forall2_nth {A B} (P : A -> B -> Prop) l l' : Forall2 P l l' ->
  forall j d', (j < length l')%nat -> exists a, nth_error l j = Some a /\ P a (nth j l' d').
Proof.
  induction 1 as [|x y l l' Hxy Hrest IH]; intros j d' Hj; [cbn [length] in Hj; lia|].
  destruct j as [|j]; cbn [nth_error nth].
  - exists x. split; [reflexivity | exact Hxy].
  - apply IH. cbn [length] in Hj. lia.
Qed.

Lemma nth_error_firstn_lt {A} (l : list A) : forall n j, (j < n)%nat ->
  nth_error (firstn n l) j = nth_error l j.
Proof.
  induction l as [|x l IH]; intros n j Hj; [destruct n; destruct j; reflexivity|].
  destruct n as [|n]; [lia|]. destruct j as [|j]; [reflexivity|].
  cbn [firstn nth_error]. apply IH. lia.
Qed.

Section Syms.
Variable data : list byte.
Hypothesis Hd : forall b, In b data -> b < 256.

Notation total := (8 * length data)%nat.
Notation sat := (sat data).
Notation Rep := (Rep data).
Notation PI := (PI true data).

Variable alpha : nat.
Hypothesis Halpha : (3 <= alpha <= 258)%nat.
Variable trees : list dslot.
Variable tabs : list htable.
Hypothesis Htrees : Forall2 (tree_ok alpha) (firstn (length tabs) trees) tabs.
Variable maxn : N.
Hypothesis Hmaxn : maxn <= 900000.

Let numSyms : N := N.of_nat alpha.
Let eob : N := numSyms - 1.
Let g : N := N.of_nat (length tabs).
Let M : nat := N.to_nat maxSelectors.

Lemma tree_at j : (j < length tabs)%nat ->
  exists sl, nth_error trees j = Some sl /\ tree_ok alpha sl (nth j tabs empty_table).
Proof.
  intros Hj. destruct (forall2_nth _ _ _ Htrees j empty_table Hj) as (sl & Hn & Hok).
  exists sl. split; [|exact Hok]. rewrite nth_error_firstn_lt in Hn by exact Hj. exact Hn.
Qed.

(* the loop states correspond *)
Definition LR (y : symst) (sels_s : list N) (gpos : N) (cur : htable) (n : N) (acc : list N) : Prop :=
  y_blkLen y = gpos /\ y_cnt y = n /\ y_acc y = acc /\ gpos <= 50 /\ n <= maxn /\
  (gpos <> 0 -> exists j sl, (j < length tabs)%nat /\ nth_error trees j = Some sl /\
                             y_tree y = Some (ds_dec sl) /\ cur = nth j tabs empty_table) /\
  Forall (fun v => v < g) (y_sels y) /\
  exists c : nat, sels_s = firstn (M - c) (y_sels y) /\ n + gpos = 50 * N.of_nat c.

(* what one run of the loop gives, in the form of [sim] at one starting point *)
Definition loop_at (k : nat) (y : symst) (st : bzst) (q : prog (list N)) (R : nat) out len : Prop :=
  match run q (sat R out len) with
  | Done l s' =>
    (exists R' p', s' = sat R' out len /\ (R <= R' <= total)%nat /\
                   stepsM k (sym_body trees numSyms maxn) y st = (ROk (inr l), set_rd st p') /\
                   PI R' p' /\ p_buffered p' = p_buffered (z_rd st))
    \/ ((ilen s' < 20)%nat /\
        exists p', stepsM k (sym_body trees numSyms maxn) y st = (RThrow EUEOF, set_rd st p'))
  | Fail e s' =>
    exists p', stepsM k (sym_body trees numSyms maxn) y st = (RThrow e, set_rd st p')
               \/ stepsM k (sym_body trees numSyms maxn) y st = (RThrow EUEOF, set_rd st p')
  end.

Lemma ilen_sat R out len : ilen (sat R out len) = (total - R)%nat.
Proof. unfold ilen, ImplBits.sat. cbn [a_in]. rewrite skipn_length, (bits_length data). reflexivity. Qed.

Lemma numSyms_ge : 3 <= numSyms.
Proof. unfold numSyms. lia. Qed.

(* one step from a state whose group is known *)
Lemma step_sim f : forall y sels_s gpos n acc sl j R st out len,
  (forall y' sels' gpos' cur' n' acc' R' st', LR y' sels' gpos' cur' n' acc' -> Rep R' st' ->
      (R < R' <= total)%nat -> (N.to_nat (maxn - n') + 1 < f)%nat ->
      exists k, (k <= total - R' + 1)%nat /\
                loop_at k y' st' (read_syms f tabs sels' gpos' cur' eob maxn n' acc') R' out len) ->
  (j < length tabs)%nat -> nth_error trees j = Some sl ->
  y_cnt y = n -> y_acc y = acc -> n <= maxn -> 1 <= gpos <= 50 ->
  Forall (fun v => v < g) (y_sels y) ->
  (exists c : nat, sels_s = firstn (M - c) (y_sels y) /\ n + gpos = 50 * N.of_nat c) ->
  Rep R st -> (R <= total)%nat -> (N.to_nat (maxn - n) + 1 < S f)%nat ->
  exists k, (k <= total - R)%nat /\
    match run (spec_step f tabs (nth j tabs empty_table) sels_s gpos eob maxn n acc) (sat R out len) with
    | Done l s' =>
      (exists R' p', s' = sat R' out len /\ (R <= R' <= total)%nat /\
         match mbind (m_sym_checked (ds_dec sl) numSyms)
                     (sym_tail numSyms maxn y gpos (y_sels y) (Some (ds_dec sl))) st with
         | (ROk (inl y'), st') => stepsM k (sym_body trees numSyms maxn) y' st' = (ROk (inr l), set_rd st p')
         | (ROk (inr l'), st') => k = 0%nat /\ l' = l /\ st' = set_rd st p'
         | (RThrow _, _) => False
         end /\ PI R' p' /\ p_buffered p' = p_buffered (z_rd st))
      \/ ((ilen s' < 20)%nat /\ exists p',
          match mbind (m_sym_checked (ds_dec sl) numSyms)
                      (sym_tail numSyms maxn y gpos (y_sels y) (Some (ds_dec sl))) st with
          | (ROk (inl y'), st') => stepsM k (sym_body trees numSyms maxn) y' st' = (RThrow EUEOF, set_rd st p')
          | (ROk (inr _), _) => False
          | (RThrow e, st') => e = EUEOF /\ st' = set_rd st p'
          end)
    | Fail e s' =>
      exists p',
        match mbind (m_sym_checked (ds_dec sl) numSyms)
                    (sym_tail numSyms maxn y gpos (y_sels y) (Some (ds_dec sl))) st with
        | (ROk (inl y'), st') => stepsM k (sym_body trees numSyms maxn) y' st' = (RThrow e, set_rd st p')
                                 \/ stepsM k (sym_body trees numSyms maxn) y' st' = (RThrow EUEOF, set_rd st p')
        | (ROk (inr _), _) => False
        | (RThrow e', st') => (e' = e \/ e' = EUEOF) /\ st' = set_rd st p'
        end
    end.
Proof.
  intros y sels_s gpos n acc sl j R st out len IH Hj Hsl Hcnt Hacc Hn Hg Hsels Hc HP HR Hf.
  destruct (tree_at j Hj) as (sl' & Hsl' & Htok). rewrite Hsl in Hsl'. inversion Hsl'; subst sl'. clear Hsl'.
  destruct Htok as (lens & codes & Ht & Hok & Hlen & Hbc & Htab).
  pose proof (sym_sim data Hd lens codes (ds_dec sl) Hok Hbc Htab) as Hsym.
  rewrite Hlen in Hsym. fold numSyms in Hsym. rewrite <- Ht in Hsym.
  specialize (Hsym R st out len HP HR).
  unfold spec_step. rewrite run_bind.
  pose proof (eats_read_symbol (nth j tabs empty_table) (sat R out len)) as Heat.
  destruct (run (read_symbol (nth j tabs empty_table)) (sat R out len)) as [s s1|e s1] eqn:Er.
  - specialize (Heat s s1 eq_refl I).
    destruct Hsym as [(R1 & a & p1 & -> & HR1 & Em & <- & HP1 & Hb1)|(Hw & p1 & Em)].
    + rewrite ilen_sat in Heat. rewrite ilen_sat in Heat.
      assert (HR1' : (R < R1 <= total)%nat) by lia.
      rewrite (mbind_ok _ _ _ _ _ Em). unfold sym_tail. fold eob.
      destruct (a =? eob) eqn:Eeob.
      * (* end of block *)
        cbn [run]. exists 0%nat. split; [lia|]. left. exists R1, p1.
        split; [reflexivity|]. split; [lia|]. rewrite Hacc.
        split; [split; [reflexivity|]; split; reflexivity|]. split; [exact HP1 | exact Hb1].
      * destruct (eob <? a) eqn:Egt.
        { (* cannot happen: the checked symbol is below numSyms; both sides corrupt anyway *)
          cbn [run]. exists 0%nat. split; [lia|]. exists p1.
          destruct (maxn <=? y_cnt y); cbn [corrupted throw ret].
          - split; [left; reflexivity | reflexivity].
          - exfalso.
            (* a < numSyms from m_sym_checked *)
            unfold m_sym_checked, mbind in Em. destruct (m_symbol_fast (ds_dec sl) st) as [[s0|e0] st0]; [|discriminate].
            destruct (numSyms <=? s0) eqn:En; [discriminate|]. inversion Em; subst. unfold eob in *. lia. }
        rewrite Hcnt. destruct (maxn <=? n) eqn:Emax.
        { cbn [run]. exists 0%nat. split; [lia|]. exists p1. split; [left; reflexivity | reflexivity]. }
        (* the loop goes on *)
        set (y' := mkSym (gpos - 1) (y_sels y) (Some (ds_dec sl)) (n + 1) (a :: y_acc y)).
        destruct Hc as (c & Hc1 & Hc2).
        assert (HLR : LR y' sels_s (gpos - 1) (nth j tabs empty_table) (n + 1) (a :: acc)).
        { unfold LR, y'. cbn [y_blkLen y_cnt y_acc y_tree y_sels]. rewrite Hacc.
          split; [reflexivity|]. split; [reflexivity|]. split; [reflexivity|]. split; [lia|].
          split; [lia|]. split.
          - intros _. exists j, sl. repeat split; assumption.
          - split; [exact Hsels|]. exists c. split; [exact Hc1 | lia]. }
        destruct (IH y' sels_s (gpos - 1) (nth j tabs empty_table) (n + 1) (a :: acc) R1 (set_rd st p1)
                     HLR HP1 HR1' ltac:(lia)) as (k & Hk & Hloop).
        exists k. split; [lia|]. unfold loop_at in Hloop. cbn [ret].
        destruct (run (read_syms f tabs sels_s (gpos - 1) (nth j tabs empty_table) eob maxn (n + 1) (a :: acc))
                      (sat R1 out len)) as [l s2|e s2].
        -- destruct Hloop as [(R2 & p2 & -> & HR2 & Es & HP2 & Hb2)|(Hw & p2 & Es)].
           ++ left. exists R2, p2. split; [reflexivity|]. split; [lia|].
              rewrite set_rd_set_rd in Es. split; [exact Es|]. split; [exact HP2|].
              rewrite z_rd_set_rd in Hb2. congruence.
           ++ right. split; [exact Hw|]. exists p2. rewrite set_rd_set_rd in Es. exact Es.
        -- destruct Hloop as (p2 & Es). exists p2. rewrite !set_rd_set_rd in Es. exact Es.
    + (* the Reader has thrown EUEOF near the end although the symbol was there *)
      rewrite (mbind_throw _ _ _ _ _ Em). exists 0%nat. split; [lia|].
      set (q := if s =? eob then Ret (fast_rev acc) else if eob <? s then corrupt
                else if maxn <=? n then corrupt
                else read_syms f tabs sels_s (gpos - 1) (nth j tabs empty_table) eob maxn (n + 1) (s :: acc)).
      pose proof (run_ilen_le q s1) as Hmono.
      destruct (run q s1) as [l s2|e s2]; cbn [res_state] in Hmono.
      * right. split; [lia|]. exists p1. split; reflexivity.
      * exists p1. split; [right; reflexivity | reflexivity].
  - destruct Hsym as (p1 & Em). exists 0%nat. split; [lia|]. exists p1.
    destruct Em as [Em|Em]; rewrite (mbind_throw _ _ _ _ _ Em); (split; [|reflexivity]); [left|right]; reflexivity.
Qed.

Lemma steps_via_group k y st blkLen sels d :
  sym_group trees y st = (ROk (blkLen, sels, Some d), st) ->
  stepsM (S k) (sym_body trees numSyms maxn) y st =
  match mbind (m_sym_checked d numSyms) (sym_tail numSyms maxn y blkLen sels (Some d)) st with
  | (ROk (inl y'), st') => stepsM k (sym_body trees numSyms maxn) y' st'
  | (ROk (inr l'), st') => (ROk (inr l'), st')
  | (RThrow e, st') => (RThrow e, st')
  end.
Proof.
  intros Hg. pose proof numSyms_ge as HnS. rewrite stepsM_S, sym_body_eq by lia.
  unfold mbind at 1. rewrite Hg. reflexivity.
Qed.

Lemma syms_steps : forall f y sels_s gpos cur n acc R st out len,
  LR y sels_s gpos cur n acc -> Rep R st -> (R <= total)%nat ->
  (N.to_nat (maxn - n) + 1 < f)%nat ->
  exists k, (k <= total - R + 1)%nat /\
            loop_at k y st (read_syms f tabs sels_s gpos cur eob maxn n acc) R out len.
Proof.
  induction f as [|f IHf]; intros y sels_s gpos cur n acc R st out len HLR HP HR Hf; [lia|].
  destruct HLR as (Hblk & Hcnt & Hacc & Hg50 & Hn & Htree & Hsels & c & Hc1 & Hc2).
  rewrite read_syms_S. unfold loop_at.
  assert (HnS := numSyms_ge).
  assert (IH' : forall y' sels' gpos' cur' n' acc' R' st', LR y' sels' gpos' cur' n' acc' -> Rep R' st' ->
      (R < R' <= total)%nat -> (N.to_nat (maxn - n') + 1 < f)%nat ->
      exists k, (k <= total - R' + 1)%nat /\
                loop_at k y' st' (read_syms f tabs sels' gpos' cur' eob maxn n' acc') R' out len).
  { intros y' sels' gpos' cur' n' acc' R' st' H1 H2 H3 H4. apply IHf; [exact H1 | exact H2 | lia | exact H4]. }
  destruct (gpos =? 0) eqn:Eg.
  - (* a new group *)
    apply N.eqb_eq in Eg. rewrite Eg in *. clear Eg.
    destruct sels_s as [|sel sels'].
    + (* the specification has no selector left *)
      cbn [run]. exists 1%nat. split; [lia|].
      destruct (y_sels y) as [|sel r] eqn:Ey.
      * exists (z_rd st). left. rewrite set_rd_id. rewrite stepsM_S, sym_body_eq by lia.
        unfold mbind at 1, sym_group. rewrite Hblk. change (0 =? 0) with true. cbv iota. rewrite Ey. reflexivity.
      * exfalso. (* the Reader still has one: then more than 18002 groups have been read *)
        assert (Hm : (M - c = 0)%nat).
        { destruct (M - c)%nat eqn:E; [reflexivity|]. cbn [firstn] in Hc1. discriminate. }
        assert (HM : N.of_nat M = 18002) by (unfold M; rewrite N2Nat.id; reflexivity). lia.
    + assert (Hys : exists r, y_sels y = sel :: r /\ sels' = firstn (M - S c) r).
      { destruct (M - c)%nat as [|m] eqn:E; [cbn [firstn] in Hc1; discriminate|].
        destruct (y_sels y) as [|x r]; [cbn [firstn] in Hc1; discriminate|].
        cbn [firstn] in Hc1. inversion Hc1; subst. exists r. split; [reflexivity|]. f_equal. lia. }
      destruct Hys as (r & Hy & Hs').
      assert (Hselg : sel < g) by (rewrite Hy in Hsels; inversion Hsels; assumption).
      assert (Hj : (N.to_nat sel < length tabs)%nat) by (unfold g in Hselg; lia).
      destruct (tree_at _ Hj) as (sl & Hsl & _).
      set (y1 := mkSym (y_blkLen y) r (y_tree y) (y_cnt y) (y_acc y)).
      destruct (step_sim f y1 sels' numBlockSyms n acc sl (N.to_nat sel) R st out len IH' Hj Hsl
                  Hcnt Hacc Hn ltac:(unfold numBlockSyms; lia)
                  ltac:(rewrite Hy in Hsels; inversion Hsels; assumption)
                  ltac:(exists (S c); split; [exact Hs' | unfold numBlockSyms; lia]) HP HR ltac:(lia))
        as (k & Hk & Hstep).
      exists (S k). split; [lia|].
      assert (Hgrp : sym_group trees y st = (ROk (numBlockSyms, r, Some (ds_dec sl)), st)).
      { unfold sym_group. rewrite Hblk. change (0 =? 0) with true. cbv iota. rewrite Hy, Hsl. reflexivity. }
      rewrite (steps_via_group k y st _ _ _ Hgrp).
      change (sym_tail numSyms maxn y numBlockSyms r (Some (ds_dec sl)))
        with (sym_tail numSyms maxn y1 numBlockSyms (y_sels y1) (Some (ds_dec sl))).
      destruct (run (spec_step f tabs (nth (N.to_nat sel) tabs empty_table) sels' numBlockSyms eob maxn n acc)
                    (sat R out len)) as [l s'|e s'].
      * destruct Hstep as [(R' & p' & -> & HR' & Hm & HP' & Hb')|(Hw & p' & Hm)].
        -- left. exists R', p'. split; [reflexivity|]. split; [exact HR'|].
           destruct (mbind (m_sym_checked (ds_dec sl) numSyms)
                           (sym_tail numSyms maxn y1 numBlockSyms (y_sels y1) (Some (ds_dec sl))) st)
             as [[[y'|l']|e'] st'].
           ++ split; [exact Hm|]. split; assumption.
           ++ destruct Hm as (-> & -> & ->). split; [reflexivity|]. split; assumption.
           ++ destruct Hm.
        -- right. split; [exact Hw|]. exists p'.
           destruct (mbind (m_sym_checked (ds_dec sl) numSyms)
                           (sym_tail numSyms maxn y1 numBlockSyms (y_sels y1) (Some (ds_dec sl))) st)
             as [[[y'|l']|e'] st'].
           ++ exact Hm.
           ++ destruct Hm.
           ++ destruct Hm as (-> & ->). reflexivity.
      * destruct Hstep as (p' & Hm). exists p'.
        destruct (mbind (m_sym_checked (ds_dec sl) numSyms)
                        (sym_tail numSyms maxn y1 numBlockSyms (y_sels y1) (Some (ds_dec sl))) st)
          as [[[y'|l']|e'] st'].
        -- exact Hm.
        -- destruct Hm.
        -- destruct Hm as ([-> | ->] & ->); [left|right]; reflexivity.
  - (* inside a group *)
    apply N.eqb_neq in Eg.
    destruct (Htree Eg) as (j & sl & Hj & Hsl & Hyt & ->).
    destruct (step_sim f y sels_s gpos n acc sl j R st out len IH' Hj Hsl
                Hcnt Hacc Hn ltac:(lia) Hsels ltac:(exists c; split; [exact Hc1 | exact Hc2]) HP HR ltac:(lia))
      as (k & Hk & Hstep).
    exists (S k). split; [lia|].
    assert (Hgrp : sym_group trees y st = (ROk (gpos, y_sels y, Some (ds_dec sl)), st)).
    { unfold sym_group. rewrite Hblk. replace (gpos =? 0) with false by lia. rewrite Hyt. reflexivity. }
    rewrite (steps_via_group k y st _ _ _ Hgrp).
    destruct (run (spec_step f tabs (nth j tabs empty_table) sels_s gpos eob maxn n acc) (sat R out len))
      as [l s'|e s'].
    + destruct Hstep as [(R' & p' & -> & HR' & Hm & HP' & Hb')|(Hw & p' & Hm)].
      * left. exists R', p'. split; [reflexivity|]. split; [exact HR'|].
        destruct (mbind (m_sym_checked (ds_dec sl) numSyms)
                        (sym_tail numSyms maxn y gpos (y_sels y) (Some (ds_dec sl))) st)
          as [[[y'|l']|e'] st'].
        -- split; [exact Hm|]. split; assumption.
        -- destruct Hm as (-> & -> & ->). split; [reflexivity|]. split; assumption.
        -- destruct Hm.
      * right. split; [exact Hw|]. exists p'.
        destruct (mbind (m_sym_checked (ds_dec sl) numSyms)
                        (sym_tail numSyms maxn y gpos (y_sels y) (Some (ds_dec sl))) st)
          as [[[y'|l']|e'] st'].
        -- exact Hm.
        -- destruct Hm.
        -- destruct Hm as (-> & ->). reflexivity.
    + destruct Hstep as (p' & Hm). exists p'.
      destruct (mbind (m_sym_checked (ds_dec sl) numSyms)
                      (sym_tail numSyms maxn y gpos (y_sels y) (Some (ds_dec sl))) st)
        as [[[y'|l']|e'] st'].
      * exact Hm.
      * destruct Hm.
      * destruct Hm as ([-> | ->] & ->); [left|right]; reflexivity.
Qed.

(* THE SYMBOL LOOP *)
Theorem syms_sim d sels_g sels_s :
  (total < 2 ^ d)%nat ->
  Forall (fun v => v < g) sels_g -> sels_s = firstn M sels_g ->
  sim data (loopM d (sym_body trees numSyms maxn) (mkSym 0 sels_g None 0 []))
           (read_syms (S (S (nat_of maxn))) tabs sels_s 0 empty_table eob maxn 0 [])
           eq.
Proof.
  intros Hd2 Hsels Hs R st out len HP HR.
  assert (HLR : LR (mkSym 0 sels_g None 0 []) sels_s 0 empty_table 0 []).
  { unfold LR. cbn [y_blkLen y_cnt y_acc y_tree y_sels].
    split; [reflexivity|]. split; [reflexivity|]. split; [reflexivity|]. split; [lia|]. split; [lia|].
    split; [intros H; exfalso; apply H; reflexivity|]. split; [exact Hsels|].
    exists 0%nat. split; [rewrite Nat.sub_0_r; exact Hs | reflexivity]. }
  destruct (syms_steps (S (S (nat_of maxn))) _ _ _ _ _ _ R st out len HLR HP HR) as (k & Hk & Hloop).
  { rewrite nat_of_eq. lia. }
  unfold loop_at in Hloop.
  assert (Hk2 : (k <= 2 ^ d)%nat) by lia.
  destruct (run (read_syms (S (S (nat_of maxn))) tabs sels_s 0 empty_table eob maxn 0 []) (sat R out len))
    as [l s'|e s'].
  - destruct Hloop as [(R' & p' & -> & HR' & Es & HP' & Hb')|(Hw & p' & Es)].
    + left. exists R', l, p'. split; [reflexivity|]. split; [exact HR'|].
      rewrite (loopM_steps _ d k _ st Hk2) by (rewrite Es; exact I). rewrite Es.
      split; [reflexivity|]. split; [reflexivity|]. split; assumption.
    + right. split; [exact Hw|]. exists p'.
      rewrite (loopM_steps _ d k _ st Hk2) by (rewrite Es; exact I). rewrite Es. reflexivity.
  - destruct Hloop as (p' & [Es|Es]); exists p'; [left|right];
      rewrite (loopM_steps _ d k _ st Hk2) by (rewrite Es; exact I); rewrite Es; reflexivity.
Qed.

End Syms.

(* the symbols the specification returns are below the end-of-block symbol *)
Lemma spec_read_syms_range : forall f tabs sels gpos cur eob maxn n acc s l s',
  run (read_syms f tabs sels gpos cur eob maxn n acc) s = Done l s' ->
  Forall (fun x => x < eob) acc -> Forall (fun x => x < eob) l.
Proof.
  induction f as [|f IH]; intros tabs sels gpos cur eob maxn n acc s l s' E Hacc; [discriminate|].
  rewrite read_syms_S in E.
  assert (Hstep : forall cur' sels' gpos',
            run (spec_step f tabs cur' sels' gpos' eob maxn n acc) s = Done l s' ->
            Forall (fun x => x < eob) l).
  { intros cur' sels' gpos' E'. unfold spec_step in E'. rewrite run_bind in E'.
    destruct (run (read_symbol cur') s) as [x s1|e s1]; [|discriminate].
    destruct (x =? eob) eqn:E1.
    - cbn [run] in E'. inversion E'; subst. rewrite fast_rev_eq. apply Forall_rev. exact Hacc.
    - destruct (eob <? x) eqn:E2; [discriminate|]. destruct (maxn <=? n); [discriminate|].
      apply (IH _ _ _ _ _ _ _ _ _ _ _ E'). constructor; [lia | exact Hacc]. }
  destruct (gpos =? 0).
  - destruct sels as [|sel sels']; [discriminate|]. apply (Hstep _ _ _ E).
  - apply (Hstep _ _ _ E).
Qed.
