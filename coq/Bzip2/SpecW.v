(* bzip2 encoder of /repo/bzip2 (writer.go, rle1.go, bwt.go, mtf_rle2.go,
   prefix.go and internal/prefix/prefix.go GenerateLengths/GeneratePrefixes)
   as a pure function of (level, data).

   Unlike the decoder model this one MIRRORS THE GO CODE: the property it
   serves is that the bytes written depend only on the input and the level,
   so every choice the Go code makes (block-full rules of the first run
   length stage, order of equal rotations, number of trees, round-robin
   selectors, Huffman tie-breaking, length limiting) is reproduced.
   The only component given by specification is the suffix sort
   (internal/sais): "sort the rotations of the block; equal rotations by
   descending start index" (what a suffix array of the block doubled gives).

   Validated byte for byte against bzip2.Writer by /verif/harness/cmd/bztest. *)
From Coq Require Import FMapPositive.
From V Require Import Base.Prelude Bzip2.Common.

(* ---- bit output: the list is kept most recent bit first ---------------------- *)
(* n low bits of v, most significant first (prefixWriter.WriteBitsBE64) *)
Fixpoint wbits (n : nat) (v : N) (acc : list bool) : list bool :=
  match n with
  | O => acc
  | S n' => wbits n' v (N.testbit v (N.of_nat n') :: acc)
  end.

Definition byte_of_bits (b7 b6 b5 b4 b3 b2 b1 b0 : bool) : byte :=
  128 * N.b2n b7 + 64 * N.b2n b6 + 32 * N.b2n b5 + 16 * N.b2n b4 +
  8 * N.b2n b3 + 4 * N.b2n b2 + 2 * N.b2n b1 + N.b2n b0.

(* bits in stream order to bytes, first bit = most significant; a final
   partial byte is filled with zeros (WritePads(0)) *)
Fixpoint pack_msb (fuel : nat) (bits : list bool) (acc : list byte) : list byte :=
  match fuel with
  | O => fast_rev acc
  | S f =>
    match bits with
    | [] => fast_rev acc
    | b7 :: b6 :: b5 :: b4 :: b3 :: b2 :: b1 :: b0 :: r =>
      pack_msb f r (byte_of_bits b7 b6 b5 b4 b3 b2 b1 b0 :: acc)
    | _ => pack_msb f (bits ++ [false]) acc
    end
  end.

(* ---- generic merge sort, constant stack ---------------------------------------
   Used only with strict total orders, so the result does not depend on the
   sorting algorithm (sort.Sort in Go is not stable). *)
Section Sort.
  Variable A : Type.
  Variable leb : A -> A -> bool.

  Fixpoint merge_acc (fuel : nat) (a b acc : list A) : list A :=
    match fuel with
    | O => rev_append acc (app_tr a b)
    | S f =>
      match a, b with
      | [], _ => rev_append acc b
      | _, [] => rev_append acc a
      | x :: a', y :: b' =>
        if leb x y then merge_acc f a' b (x :: acc) else merge_acc f a b' (y :: acc)
      end
    end.

  Fixpoint merge_pairs (fuel : nat) (runs acc : list (list A)) : list (list A) :=
    match runs with
    | a :: b :: r => merge_pairs fuel r (merge_acc fuel a b [] :: acc)
    | [a] => a :: acc
    | [] => acc
    end.

  Fixpoint merge_passes (passes : nat) (fuel : nat) (runs : list (list A)) : list A :=
    match runs with
    | [] => []
    | [a] => a
    | _ =>
      match passes with
      | O => []
      | S p => merge_passes p fuel (merge_pairs fuel runs [])
      end
    end.

  (* fuel: at least the length of the list *)
  Definition msort (fuel : nat) (l : list A) : list A :=
    merge_passes 64 fuel (map_tr (fun x => [x]) l).
End Sort.
Arguments msort {A} leb fuel l.

(* ---- stage 1: run-length encoding 1 with the block-full rules ----------------
   rle1.go runLengthEncoding.Write, buffer of L = level*100000 bytes.
     run length 1..3 : the byte is stored; needs one free slot
     run length 4    : the byte and a zero count are stored; needs TWO free
                       slots (else the block ends after three equal bytes and
                       the fourth starts the next block as a fresh run)
     run length 5..255: the count (last slot) is incremented
     run length 256  : starts a new run with this byte; needs one free slot
   When a slot is missing the block is complete and the byte is left for
   the next block, where the run state starts afresh (rle.Init).
   [buf] is the block reversed; returns the block, the CRC register over the
   consumed input bytes and the unconsumed input. *)
Definition bump_head (l : list byte) : list byte :=
  match l with
  | [] => []
  | c :: r => (c + 1) :: r
  end.

Fixpoint rle1_fill (L : N) (data : list byte) (buf : list byte) (idx lastVal lastCnt crc : N)
  : list byte * N * list byte :=
  match data with
  | [] => (fast_rev buf, crc, [])
  | b :: r =>
    let cnt := (if lastVal =? b then lastCnt else 0) + 1 in
    let crc' := crc_step crc b in
    if cnt <? 4 then
      if L <=? idx then (fast_rev buf, crc, b :: r)
      else rle1_fill L r (b :: buf) (idx + 1) b cnt crc'
    else if cnt =? 4 then
      if L <=? idx + 1 then (fast_rev buf, crc, b :: r)
      else rle1_fill L r (0 :: b :: buf) (idx + 2) b cnt crc'
    else if cnt <? 256 then
      rle1_fill L r (bump_head buf) idx b cnt crc'
    else
      if L <=? idx then (fast_rev buf, crc, b :: r)
      else rle1_fill L r (b :: buf) (idx + 1) b 1 crc'
  end.

(* ---- stage 2: Burrows-Wheeler transform ------------------------------------------
   bwt.go Encode: suffix array of the block concatenated with itself, keeping
   the suffixes that start in the first copy.  Two such suffixes compare as
   the rotations do on their first n bytes; if the rotations are equal the
   suffix with the LARGER start is a proper prefix of the other and sorts
   first.  Output byte = the byte before the rotation start; the origin
   pointer is the rank of rotation 0. *)
Fixpoint cmp_rot (fuel : nat) (t : nmap byte) (i j : N) : comparison :=
  match fuel with
  | O => Eq
  | S f =>
    match N.compare (nm_getd t i 0) (nm_getd t j 0) with
    | Eq => cmp_rot f t (i + 1) (j + 1)
    | c => c
    end
  end.

Definition rot_leb (fuel : nat) (t : nmap byte) (i j : N) : bool :=
  match cmp_rot fuel t i j with
  | Lt => true
  | Gt => false
  | Eq => j <=? i
  end.

Definition bwt_encode (block : list byte) : list byte * N :=
  let n := len_n block in
  let fuel := nat_of n in
  let t := nm_of_list (app_tr block block) in
  let order := msort (rot_leb fuel t) (S fuel) (iota n) in
  let out := map_tr (fun i => nm_getd t (i + n - 1) 0) order in
  (out, mtf_index N.eqb 0 order 0).

(* ---- symbol map ---------------------------------------------------------------------- *)
Definition used_map (block : list byte) : nmap bool :=
  fold_left (fun m b => nm_set m b true) block nm_empty.
Definition is_used (m : nmap bool) (b : byte) : bool := nm_getd m b false.

Definition write_symbol_map (used : nmap bool) (acc : list bool) : list bool :=
  let rows := iota 16 in
  let row_used r := existsb (fun j => is_used used (16 * r + j)) (iota 16) in
  let acc := fold_left (fun a r => row_used r :: a) rows acc in
  fold_left (fun a r =>
               if row_used r
               then fold_left (fun a2 j => is_used used (16 * r + j) :: a2) (iota 16) a
               else a)
            rows acc.

(* ---- stage 3: move-to-front + run-length encoding 2 ---------------------------------
   mtf_rle2.go Encode. A run of k front hits is written as the binary digits
   of k+1, least significant first, without its leading one: 0 = RUNA,
   1 = RUNB.  Any other MTF index idx is the symbol idx+1. *)
Fixpoint run_syms_pos (p : positive) (acc : list N) : list N :=
  match p with
  | xH => acc
  | xO q => run_syms_pos q (0 :: acc)
  | xI q => run_syms_pos q (1 :: acc)
  end.
Definition run_syms (lastNum : N) (acc : list N) : list N :=
  match lastNum with
  | N0 => acc
  | _ => match lastNum + 1 with Npos p => run_syms_pos p acc | N0 => acc end
  end.

Fixpoint mtf_rle2_encode (vals : list byte) (dict : list byte) (lastNum : N) (acc : list N)
  : list N :=
  match vals with
  | [] => fast_rev (run_syms lastNum acc)
  | v :: r =>
    let idx := mtf_index N.eqb v dict 0 in
    if idx =? 0 then mtf_rle2_encode r dict (lastNum + 1) acc
    else
      let (x, rest) := mtf_pick (N.to_nat idx) dict 0 in
      mtf_rle2_encode r (x :: rest) 0 ((idx + 1) :: run_syms lastNum acc)
  end.

(* ---- code lengths: internal/prefix GenerateLengths ------------------------------------
   Input: (count, symbol) pairs sorted by (count, symbol).  Two-queue
   Huffman construction: leaves are taken from the sorted list, internal
   nodes from a FIFO; a leaf is preferred when its count is <= the count of
   the oldest internal node.  The depth of a leaf is its code length. *)
Inductive hnode := HLeaf (sym : N) | HNode (l r : hnode).

Definition take_min (freqs : list (N * N)) (queue : list (N * hnode))
  : option (N * hnode * list (N * N) * list (N * hnode)) :=
  match freqs, queue with
  | (c, s) :: f', [] => Some (c, HLeaf s, f', [])
  | (c, s) :: f', (qc, qn) :: q' =>
    if c <=? qc then Some (c, HLeaf s, f', queue) else Some (qc, qn, freqs, q')
  | [], (qc, qn) :: q' => Some (qc, qn, [], q')
  | [], [] => None
  end.

Fixpoint huff_build (fuel : nat) (freqs : list (N * N)) (queue : list (N * hnode)) : option hnode :=
  match fuel with
  | O => None
  | S f =>
    match freqs, queue with
    | [], [(_, root)] => Some root
    | _, _ =>
      match take_min freqs queue with
      | None => None
      | Some (c0, n0, freqs1, queue1) =>
        match take_min freqs1 queue1 with
        | None => None
        | Some (c1, n1, freqs2, queue2) =>
          huff_build f freqs2 (queue2 ++ [(c0 + c1, HNode n0 n1)])
        end
      end
    end
  end.

(* (symbol, depth) of every leaf; children of the root are at depth 1 *)
Fixpoint huff_depths (t : hnode) (level : N) (acc : list (N * N)) : list (N * N) :=
  match t with
  | HLeaf s => (s, level) :: acc
  | HNode l r => huff_depths r (level + 1) (huff_depths l (level + 1) acc)
  end.

(* Length limiting ("treeRotate").  symBits[nb] = number of codes of length
   nb, on uint32 (a transient wrap-around of symBits[nb] inside the recursion
   is undone by the +3 that follows, so arithmetic is kept modulo 2^32). *)
Definition u32 (x : N) : N := N.land x mask32.
Definition sb_get (sb : nmap N) (i : N) : N := nm_getd sb i 0.
Definition sb_add (sb : nmap N) (i : N) (d : N) : nmap N := nm_set sb i (u32 (sb_get sb i + d)).
Definition sb_sub (sb : nmap N) (i : N) (d : N) : nmap N :=
  nm_set sb i (u32 (sb_get sb i + 4294967296 - d)).

Fixpoint tree_rotate (nb : nat) (sb : nmap N) : nmap N :=
  match nb with
  | O => sb   (* Go: index -1, run-time panic; needs 2^20 codes, unreachable *)
  | S nb1 =>
    let sb := if sb_get sb (N.of_nat nb1) =? 0 then tree_rotate nb1 sb else sb in
    let sb := sb_sub sb (N.of_nat nb1) 1 in
    let sb := sb_add sb (N.of_nat nb) 3 in
    sb_sub sb (N.of_nat nb + 1) 2
  end.

Fixpoint rotate_level (fuel : nat) (i : nat) (sb : nmap N) : nmap N :=
  match fuel with
  | O => sb
  | S f => if 0 <? sb_get sb (N.of_nat i) then rotate_level f i (tree_rotate (i - 1) sb) else sb
  end.

(* for i := top; i > maxBits; i-- { for symBits[i] > 0 { treeRotate(i-1) } } *)
Fixpoint rotate_all (levels : nat) (ncodes : nat) (sb : nmap N) : nmap N :=
  match levels with
  | O => sb
  | S l =>
    let i := (N.to_nat maxPrefixBits + levels)%nat in
    rotate_all l ncodes (rotate_level ncodes i sb)
  end.

(* lengths in ascending order, each repeated symBits[nb] times *)
Definition lens_of_hist (sb : nmap N) (top : N) : list N :=
  flat_map (fun nb => repeat nb (N.to_nat (sb_get sb nb))) (iota (top + 1)).

(* result: (symbol, length), in the order of [codes] *)
Definition generate_lengths (codes : list (N * N)) : list (N * N) :=
  match codes with
  | [] => []
  | [(c, s)] => [(s, 0)]
  | _ =>
    let ncodes := length codes in
    match huff_build (S ncodes) codes [] with
    | None => []
    | Some root =>
      let depths := huff_depths root 0 [] in
      let dm := fold_left (fun m sd => nm_set m (fst sd) (snd sd)) depths nm_empty in
      let maxd := fold_left (fun m sd => N.max m (snd sd)) depths 0 in
      if maxd <=? maxPrefixBits then map (fun cs => (snd cs, nm_getd dm (snd cs) 0)) codes
      else
        (* histogram; the array has at least valueBits+1 = 28 entries *)
        let top := N.max 27 maxd in
        let sb := fold_left (fun m sd => sb_add m (snd sd) 1) depths nm_empty in
        let sb := rotate_all (N.to_nat (top - maxPrefixBits)) (S ncodes) sb in
        (* most frequent codes (end of the list) get the shortest lengths *)
        let lens := lens_of_hist sb top in
        fast_rev (combine (map snd (fast_rev codes)) lens)
    end
  end.

(* canonical code values (GeneratePrefixes): lens indexed by symbol, all
   non-zero; result symbol -> (length, value), value written MSB first *)
Definition canonical_codes (lens : list N) : nmap (N * N) :=
  let maxl := fold_left N.max lens 0 in
  let cnt l := fold_left (fun n x => if x =? l then n + 1 else n) lens 0 in
  (* nextCodes *)
  let next := snd (fold_left
                (fun (st : N * nmap N) l =>
                   let code := 2 * fst st in (code + cnt l, nm_set (snd st) l code))
                (map (fun i => i + 1) (iota maxl)) (0, nm_empty)) in
  fst (fst (fold_left
    (fun (st : nmap (N * N) * nmap N * N) l =>
       let '(m, nx, sym) := st in
       let c := nm_getd nx l 0 in
       (nm_set m sym (l, c), nm_set nx l (c + 1), sym + 1))
    lens (nm_empty, next, 0))).

(* ---- stage 4: prefix encoding of a block (writer.go encodePrefix) -------------------- *)
Definition count_leb (a b : N * N) : bool :=            (* (count, symbol) order *)
  (fst a <? fst b) || ((fst a =? fst b) && (snd a <=? snd b)).
Definition sym_leb (a b : N * N) : bool := fst a <=? fst b.   (* (symbol, _) order *)

Definition num_trees (nsyms : N) : N :=
  if nsyms <? 200 then 2 else if nsyms <? 600 then 3
  else if nsyms <? 1200 then 4 else if nsyms <? 2400 then 5 else 6.

(* per (tree, symbol) counts; selectors are round robin: group g uses tree
   g mod numTrees *)
Definition count_key (tree sym : N) : N := tree * 512 + sym.

Definition tree_counts (syms : list N) (numTrees : N) : nmap N :=
  fst (fold_left
    (fun (st : nmap N * N) s =>
       let tree := (snd st / numBlockSyms) mod numTrees in
       let k := count_key tree s in
       (nm_set (fst st) k (nm_getd (fst st) k 0 + 1), snd st + 1))
    syms (nm_empty, 0)).

(* code lengths for the symbols 0..n-1 given their counts:
   SortByCount; GenerateLengths(20); SortBySymbol *)
Definition lengths_of_counts (cnts : list N) : list N :=
  let codes := combine cnts (iota (len_n cnts)) in
  let sorted := msort count_leb (S (length codes)) codes in
  let lens := generate_lengths sorted in
  map snd (msort sym_leb (S (length lens)) lens).

(* code lengths of one tree, indexed by symbol *)
Definition tree_lens (counts : nmap N) (numSyms tree : N) : list N :=
  lengths_of_counts (map (fun s => nm_getd counts (count_key tree s) 0) (iota numSyms)).

(* MTF of the selectors (internal.MoveToFront.Encode, identity start) *)
Definition mtf_encode_sels (sels : list N) : list N :=
  fast_rev (snd (fold_left
    (fun (st : list N * list N) v =>
       let idx := mtf_index N.eqb v (fst st) 0 in
       let (x, rest) := mtf_pick (N.to_nat idx) (fst st) 0 in
       (x :: rest, idx :: snd st))
    sels (iota 6, []))).

(* j ones and a zero (encSel; j <= 5) *)
Definition write_unary (j : N) (acc : list bool) : list bool :=
  false :: repeat_acc (N.to_nat j) true acc.

(* delta coding of one tree's lengths (prefix.go WritePrefixCodes) *)
Definition write_lens (lens : list N) (acc : list bool) : list bool :=
  let start := hd 0 lens in
  let acc := wbits 5 start acc in
  snd (fold_left
    (fun (st : N * list bool) l =>
       let clen := fst st in
       let a := snd st in
       let a := if l <? clen then N.iter (clen - l) (fun x => true :: true :: x) a     (* 11: down *)
                else N.iter (l - clen) (fun x => false :: true :: x) a in              (* 10: up   *)
       (l, false :: a))
    lens (start, acc)).

Definition write_code (codes : nmap (N * N)) (s : N) (acc : list bool) : list bool :=
  let (l, c) := nm_getd codes s (0, 0) in wbits (N.to_nat l) c acc.

Definition encode_prefix (syms0 : list N) (nDict : N) (acc : list bool) : list bool :=
  let numSyms := nDict + 2 in
  let syms := app_tr syms0 [numSyms - 1] in              (* end-of-block symbol *)
  let n := len_n syms in
  let numTrees := num_trees n in
  let numSels := (n + numBlockSyms - 1) / numBlockSyms in
  let sels := map_tr (fun i => i mod numTrees) (iota numSels) in
  let counts := tree_counts syms numTrees in
  let lens := map (tree_lens counts numSyms) (iota numTrees) in
  let codes := nm_of_list (map canonical_codes lens) in
  let acc := wbits 3 numTrees acc in
  let acc := wbits 15 numSels acc in
  let acc := fold_left (fun a j => write_unary j a) (mtf_encode_sels sels) acc in
  let acc := fold_left (fun a l => write_lens l a) lens acc in
  snd (fold_left
    (fun (st : N * list bool) s =>
       let tree := (fst st / numBlockSyms) mod numTrees in
       (fst st + 1, write_code (nm_getd codes tree nm_empty) s (snd st)))
    syms (0, acc)).

(* ---- one block (writer.go encodeBlock) ---------------------------------------------------- *)
Definition encode_block (block : list byte) (blkCRC : N) (acc : list bool) : list bool :=
  let acc := wbits 48 blkMagic acc in
  let acc := wbits 32 blkCRC acc in
  let acc := wbits 1 0 acc in                              (* not randomised *)
  let (bwt, ptr) := bwt_encode block in
  let acc := wbits 24 ptr acc in
  let used := used_map block in
  let acc := write_symbol_map used acc in
  let dict := filter (is_used used) (iota 256) in
  let syms := mtf_rle2_encode bwt dict 0 [] in
  encode_prefix syms (len_n dict) acc.

(* ---- the stream: header, blocks, footer (Write* / flush / Close) --------------------------
   The split of the input into Write calls is irrelevant: the RLE1 state and
   the CRC are carried across calls and a block is only emitted when the
   buffer is full or at Close. *)
Fixpoint encode_blocks (fuel : nat) (L : N) (data : list byte) (combined : N) (acc : list bool)
  : N * list bool :=
  match fuel with
  | O => (combined, acc)
  | S f =>
    match data with
    | [] => (combined, acc)
    | _ =>
      let '(block, crc, rest) := rle1_fill L data [] 0 0 0 crc_init in
      let blkCRC := crc_final crc in
      encode_blocks f L rest (crc_combine combined blkCRC) (encode_block block blkCRC acc)
    end
  end.

Definition bzip2_encode (level : N) (data : list byte) : list byte :=
  let acc := wbits 16 hdrMagic [] in
  let acc := wbits 8 104 acc in                            (* 'h' *)
  let acc := wbits 8 (48 + level) acc in
  let (combined, acc) := encode_blocks (S (nat_of (len_n data))) (level * blockSize) data 0 acc in
  let acc := wbits 48 endMagic acc in
  let acc := wbits 32 combined acc in
  let bits := fast_rev acc in
  pack_msb (S (S (nat_of (len_n bits)))) bits [].
