(* Layer (c), part 1: one symbol.  TryReadSymbol / ReadSymbol of the Reader (Bzip2/Impl.v
   [m_symbol_fast], over the table decoder of Prefix/DecTable.v) on ANY valid, possibly
   non-canonical code set, started in a PI state (Prefix/DecReadThms.v), against the meaning of
   the code list on the remaining input bits ([Degenerate.decode_with_codes]):

   - the input continues with the code word of c, entirely present: the symbol of c is
     returned and exactly the code word consumed -- or, when fewer than [max_bits codes] bits
     are left, io.ErrUnexpectedEOF may be raised instead (the table walk asks for more bits than
     the code word has, [witness_over_request]);
   - no code word is entirely present: io.ErrUnexpectedEOF;
   - never a run-time panic, never "decode with empty prefix tree", never out of budget. *)
From V Require Import Base.Prelude Base.Prog Base.ProgThms Base.FuelThms Bzip2.Common Bzip2.SpecR
  Prefix.Code Prefix.ReaderImpl Prefix.ReaderSpec Prefix.ReaderThms Prefix.DecTable
  Prefix.DecTableSpec Prefix.DecTableThms Prefix.DecReadThms Bzip2.Impl Bzip2.ImplBits Bzip2.ImplSim.
From V Require Bzip2.Degenerate.

Local Open Scope N_scope.

(* ---- code words as bit lists ------------------------------------------------------------------ *)
Lemma is_prefix_b_spec (a b : list bool) :
  is_prefix_b a b = true <-> exists t, b = a ++ t.
Proof.
  revert b; induction a as [|x a IH]; intros b; cbn [is_prefix_b].
  - split; [intros _; exists b; reflexivity | reflexivity].
  - destruct b as [|y b]; [split; [discriminate | intros [t Ht]; discriminate]|].
    rewrite andb_true_iff, IH. split.
    + intros [Hxy [t Ht]]. apply Bool.eqb_prop in Hxy. subst. exists t. reflexivity.
    + intros [t Ht]. inversion Ht; subst. split; [apply Bool.eqb_reflx | exists t; reflexivity].
Qed.

Section Sym.
Variable data : list byte.
Hypothesis Hd : forall b, In b data -> b < 256.

Notation bits := (stream_bits true data).
Notation PI := (PI true data).
Notation total := (8 * length data)%nat.
Notation window := (window true data).

(* "the code word of c is what the input continues with at R, and it is entirely present" *)
Definition present (c : pcode) (R : nat) : Prop :=
  matches c (window R) /\ (R + N.to_nat (c_len c) <= total)%nat.

Lemma window_field R n : n <= 64 -> (R + N.to_nat n <= total)%nat ->
  window R mod 2 ^ n = bits_val (field data R (N.to_nat n)).
Proof.
  intros Hn _. rewrite (window_low true data Hd R n Hn). reflexivity.
Qed.

(* val_bits of the first k stream bits *)
Lemma val_bits_field R k : (R + k <= total)%nat ->
  val_bits k (bits_val (field data R k)) = field data R k.
Proof.
  intros H. pose proof (field_length data R k H) as L. rewrite <- L at 1. apply val_bits_bits_val.
Qed.

Lemma present_prefix c R : 1 <= c_len c <= 64 -> c_val c < 2 ^ c_len c ->
  present c R <->
  is_prefix_b (Degenerate.code_bits c) (skipn R bits) = true.
Proof.
  intros [H1 H64] Hv. unfold present, matches, Degenerate.code_bits.
  change (Degenerate.c_len c) with (c_len c). change (Degenerate.c_val c) with (c_val c).
  rewrite is_prefix_b_spec. split.
  - intros [Hm Hin]. exists (skipn (R + N.to_nat (c_len c)) bits).
    rewrite <- Hm, (window_field R (c_len c) H64 Hin), (val_bits_field R _ Hin).
    apply (skipn_field data R (N.to_nat (c_len c)) Hin).
  - intros [t Ht].
    assert (Hlen : length (val_bits (N.to_nat (c_len c)) (c_val c)) = N.to_nat (c_len c))
      by apply val_bits_length.
    assert (Hin : (R + N.to_nat (c_len c) <= total)%nat).
    { assert (HL : length (skipn R bits) = length (val_bits (N.to_nat (c_len c)) (c_val c) ++ t))
        by (rewrite Ht; reflexivity).
      rewrite skipn_length, (bits_length data), app_length, Hlen in HL.
      destruct (Nat.le_gt_cases R total) as [HR|HR]; [lia|].
      rewrite skipn_all2 in Ht by (rewrite (bits_length data); lia).
      destruct (val_bits (N.to_nat (c_len c)) (c_val c)) eqn:E; [|discriminate].
      cbn [length] in Hlen. lia. }
    split; [|exact Hin].
    rewrite (window_field R (c_len c) H64 Hin). unfold field. rewrite Ht.
    rewrite firstn_app, Hlen, Nat.sub_diag, firstn_O, app_nil_r.
    rewrite firstn_all2 by (rewrite Hlen; lia).
    rewrite bits_val_val_bits, N2Nat.id. apply N.mod_small. exact Hv.
Qed.

Variable L : N.
Variable codes : list pcode.
Hypothesis HL : L <= 20.
Hypothesis HV : dec_valid L codes.
Variable d : dec.
Hypothesis HT : tables_ok codes d.

Let HL31 : L <= 31. Proof. lia. Qed.

Lemma len_le_L c : In c codes -> 1 <= c_len c <= L.
Proof. intros Hc. apply (wf_len L codes (dv_wf _ _ HV) c Hc). Qed.

Lemma max_bits_le_L : max_bits codes <= L.
Proof.
  pose proof (v_M L codes HL31 HV) as HM. exact (proj2 HM).
Qed.

(* TryReadSymbol from a PI state *)
Lemma try_read_symbol_pi R p : PI R p ->
  match try_read_symbol d p with
  | (None, _) => False
  | (Some None, p') => p' = p
  | (Some (Some s), p') =>
      exists c, In c codes /\ present c R /\ s = c_sym c mod 2 ^ 27 /\
                PI (R + N.to_nat (c_len c)) p' /\ p_buffered p' = p_buffered p
  end.
Proof.
  intros HP. unfold try_read_symbol.
  destruct ((p_numBits p <? d_minBits d) || (a_len (d_chunks d) =? 0)); [reflexivity|].
  pose proof (v_cb L codes HL31 HV) as Hcb.
  destruct (lookup_state true data Hd L codes HL31 HV d HT R p HP) as (c' & Hc' & Hm' & _ & Hreal).
  assert (H31 : c_len c' <= 31) by (pose proof (v_len L codes HV c' Hc'); lia).
  rewrite (to_mask _ _ HT), land_mask, w32_mod by lia. rewrite (to_cb _ _ HT).
  destruct (N.le_gt_cases (c_len c') (chunk_bits codes)) as [Hs|Hl].
  - rewrite (to_short _ _ HT _ c' Hc' Hm' Hs). unfold chunk_of.
    rewrite mk_chunk_len, mk_chunk_sym by lia.
    destruct (p_numBits p <? c_len c') eqn:E1; [reflexivity|]. apply N.ltb_ge in E1.
    replace (chunk_bits codes <? c_len c') with false by (symmetry; apply N.ltb_ge; exact Hs).
    cbn [orb]. exists c'. split; [exact Hc'|].
    destruct (take_ok true data Hd R p (c_len c') HP E1) as (T1 & T2 & _).
    destruct (PI_numBits true data Hd R p HP) as (_ & Hin & _).
    split; [split; [apply Hreal; exact E1 | lia]|].
    split; [reflexivity|]. split; [exact T1 | exact T2].
  - destruct (to_long _ _ HT _ c' Hc' Hm' Hl) as (_ & _ & Hg & _). rewrite Hg.
    rewrite link_chunk_len by lia.
    replace (chunk_bits codes <? chunk_bits codes + 1) with true by (symmetry; apply N.ltb_lt; lia).
    rewrite orb_true_r. reflexivity.
Qed.

(* the loop of ReadSymbol from a PI state: a present code word, or io.ErrUnexpectedEOF with
   fewer than max_bits bits left; nothing else *)
Lemma read_symbol_loop_pi R : forall fuel p nb, PI R p -> nb <= 31 -> 31 < nb + N.of_nat fuel ->
  (exists c p', read_symbol_loop fuel d p nb = (RSym (c_sym c mod 2 ^ 27), p') /\
                In c codes /\ present c R /\ PI (R + N.to_nat (c_len c)) p' /\
                p_buffered p' = p_buffered p)
  \/ (exists p', read_symbol_loop fuel d p nb = (RUEOF, p') /\
                 (total < R + N.to_nat (N.max nb (max_bits codes)))%nat /\
                 (nb <= max_bits codes ->
                  forall c, In c codes -> present c R -> (total < R + N.to_nat (max_bits codes))%nat)).
Proof.
  induction fuel as [|fuel IH]; intros p nb HP Hnb Hfuel; [lia|].
  cbn [read_symbol_loop].
  pose proof (pull_any data Hd R p nb HP ltac:(lia)) as Hpull.
  destruct (pull_bits p nb) as [[|] p1] eqn:Ep.
  - right. exists p1. split; [reflexivity|]. split; [lia|]. intros Hle c Hc Hpr. lia.
  - destruct Hpull as (HP1 & Hn1 & Hb1).
    destruct (lookup_state true data Hd L codes HL31 HV d HT R p1 HP1) as (c' & Hc' & Hm' & El & Hreal).
    rewrite El. destruct (c_len c' <=? p_numBits p1) eqn:Ele.
    + apply N.leb_le in Ele. left.
      destruct (take_ok true data Hd R p1 (c_len c') HP1 Ele) as (T1 & T2 & _).
      destruct (PI_numBits true data Hd R p1 HP1) as (_ & Hin & _).
      exists c', (snd (take_bits p1 (c_len c'))). split; [reflexivity|]. split; [exact Hc'|].
      split; [split; [apply Hreal; exact Ele | lia]|]. split; [exact T1 | congruence].
    + apply N.leb_gt in Ele.
      assert (H31 : c_len c' <= 31) by (pose proof (v_len L codes HV c' Hc'); lia).
      pose proof (max_bits_ge codes c' Hc') as Hmx.
      destruct (IH p1 (c_len c') HP1 H31 ltac:(lia)) as [(c & p' & E & Hc & Hpr & HP' & Hb')|(p' & E & Hshort & Hall)].
      * left. exists c, p'. split; [exact E|]. split; [exact Hc|]. split; [exact Hpr|].
        split; [exact HP' | congruence].
      * right. exists p'. split; [exact E|].
        rewrite N.max_r in Hshort by exact Hmx. split; [lia|].
        intros _ c Hc Hpr. exact Hshort.
Qed.

Lemma chunks_nonempty' : (a_len (d_chunks d) =? 0) = false.
Proof. apply (chunks_nonempty codes d HT). Qed.

Lemma min_le_max : d_minBits d <= max_bits codes.
Proof.
  destruct (dv_complete _ _ HV 0) as (c & Hc & _).
  eapply N.le_trans; [apply (min_bits_request codes d c HT Hc) | apply (max_bits_ge codes c Hc)].
Qed.

(* sym, ok := TryReadSymbol(pd); if !ok { sym = ReadSymbol(pd) }, as a step of the Reader *)
Theorem m_symbol_fast_pi R st : Rep data R st ->
  (exists c p', m_symbol_fast d st = (ROk (c_sym c mod 2 ^ 27), set_rd st p') /\
                In c codes /\ present c R /\ PI (R + N.to_nat (c_len c)) p' /\
                p_buffered p' = p_buffered (z_rd st))
  \/ (exists p', m_symbol_fast d st = (RThrow EUEOF, set_rd st p') /\
                 (total < R + N.to_nat (max_bits codes))%nat).
Proof.
  intros HP. unfold m_symbol_fast.
  pose proof (try_read_symbol_pi R (z_rd st) HP) as Ht.
  destruct (try_read_symbol d (z_rd st)) as [[[s|]|] p1]; [| |destruct Ht].
  - destruct Ht as (c & Hc & Hpr & -> & HP1 & Hb1). left. exists c, p1.
    split; [reflexivity|]. tauto.
  - subst p1. rewrite set_rd_id. unfold m_read_symbol, dt_read_symbol. rewrite chunks_nonempty'.
    pose proof min_le_max as Hmm. pose proof max_bits_le_L as HmL.
    destruct (read_symbol_loop_pi R 34%nat (z_rd st) (d_minBits d) HP ltac:(lia) ltac:(lia))
      as [(c & p' & E & Hc & Hpr & HP' & Hb')|(p' & E & Hshort & _)].
    + rewrite E. left. exists c, p'. split; [reflexivity|]. tauto.
    + rewrite E. right. exists p'. split; [reflexivity|].
      rewrite N.max_r in Hshort by exact Hmm. exact Hshort.
Qed.

End Sym.
