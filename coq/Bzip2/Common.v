(* bzip2: pieces shared by the decoder model (SpecR.v) and the encoder model
   (SpecW.v): N-keyed maps, stack-safe list helpers, the bzip2 CRC, the
   format constants and move-to-front on lists.

   Everything here is executable and written so that the extracted OCaml
   runs in constant stack on block-sized lists (up to 900 000 elements):
   accumulators + [fast_rev] instead of non-tail recursion. *)
From Coq Require Import FMapPositive.
From V Require Import Base.Prelude.

(* ---- maps keyed by N (binary tries of the stdlib) ---------------------- *)
Definition nmap (A : Type) : Type := PositiveMap.t A.
Definition nm_empty {A : Type} : nmap A := PositiveMap.empty A.
Definition nm_get {A : Type} (m : nmap A) (k : N) : option A :=
  PositiveMap.find (N.succ_pos k) m.
Definition nm_set {A : Type} (m : nmap A) (k : N) (v : A) : nmap A :=
  PositiveMap.add (N.succ_pos k) v m.
Definition nm_getd {A : Type} (m : nmap A) (k : N) (d : A) : A :=
  match nm_get m k with Some v => v | None => d end.

(* map index -> element of a list, indices from [i0] *)
Definition nm_of_list {A : Type} (l : list A) : nmap A :=
  fst (fold_left (fun (st : nmap A * N) x => (nm_set (fst st) (snd st) x, snd st + 1))
                 l (nm_empty, 0)).

(* ---- stack-safe helpers -------------------------------------------------- *)
(* unary number with logarithmic recursion depth (N.to_nat recurses n deep) *)
Definition nat_of (n : N) : nat := N.iter n S O.

Definition len_n {A : Type} (l : list A) : N := fold_left (fun n _ => n + 1) l 0.

Definition map_tr {A B : Type} (f : A -> B) (l : list A) : list B :=
  fast_rev (fold_left (fun acc x => f x :: acc) l []).

Definition app_tr {A : Type} (a b : list A) : list A := rev_append (fast_rev a) b.

Fixpoint repeat_acc {A : Type} (n : nat) (x : A) (acc : list A) : list A :=
  match n with
  | O => acc
  | S n' => repeat_acc n' x (x :: acc)
  end.

(* 0, 1, ..., n-1 *)
Fixpoint iota_acc (n : nat) (k : N) (acc : list N) : list N :=
  match n with
  | O => acc
  | S n' => iota_acc n' (k - 1) ((k - 1) :: acc)
  end.
Definition iota (n : N) : list N := iota_acc (nat_of n) n [].

(* input bytes to bits, most significant bit of each byte first; equal to
   [bytes_to_bits_msb] of the Prelude (lemma below), tail recursive *)
Definition bits_of_bytes_msb (l : list byte) : list bool :=
  fold_left (fun acc b => bits_msb b ++ acc) (fast_rev l) [].

Lemma bits_of_bytes_msb_eq l : bits_of_bytes_msb l = bytes_to_bits_msb l.
Proof.
  unfold bits_of_bytes_msb, bytes_to_bits_msb. rewrite fast_rev_eq.
  rewrite <- (app_nil_r (flat_map bits_msb l)). generalize (@nil bool).
  induction l as [|b r IH]; intros acc.
  - reflexivity.
  - cbn [rev flat_map]. rewrite fold_left_app. cbn [fold_left].
    rewrite IH. rewrite <- app_assoc. reflexivity.
Qed.

(* ---- format constants ---------------------------------------------------- *)
Definition hdrMagic : N := 0x425a.            (* "BZ" *)
Definition blkMagic : N := 0x314159265359.    (* BCD of pi *)
Definition endMagic : N := 0x177245385090.    (* BCD of sqrt(pi) *)
Definition blockSize : N := 100000.
Definition numBlockSyms : N := 50.            (* BZ_G_SIZE *)
Definition maxPrefixBits : N := 20.           (* longest code *)
Definition maxSelectors : N := 18002.         (* BZ_MAX_SELECTORS = 2 + 900000/50 *)

Definition mask32 : N := 0xffffffff.

(* ---- CRC: CRC-32, polynomial 0x04c11db7, bits of a byte taken most
   significant first, register initialised to all ones and complemented at
   the end (bzlib_private.h BZ_INITIALISE_CRC / BZ_UPDATE_CRC /
   BZ_FINALISE_CRC; /repo/bzip2/common.go [crc.update] computes the same
   value through hash/crc32 on bit-reversed data). ------------------------- *)
Definition crc_poly : N := 0x04c11db7.

Fixpoint crc_shift (k : nat) (c : N) : N :=
  match k with
  | O => c
  | S k' =>
    let c2 := N.land (N.shiftl c 1) mask32 in
    crc_shift k' (if N.testbit c 31 then N.lxor c2 crc_poly else c2)
  end.

(* BZ2_crc32Table *)
Definition crc_table : nmap N :=
  nm_of_list (map (fun i => crc_shift 8 (N.shiftl (N.of_nat i) 24)) (seq 0 256)).

Definition crc_init : N := mask32.
Definition crc_step (crc : N) (b : byte) : N :=
  N.lxor (N.land (N.shiftl crc 8) mask32)
         (nm_getd crc_table (N.lxor (N.shiftr crc 24) b) 0).
Definition crc_final (crc : N) : N := N.lxor crc mask32.

Definition bz_crc (l : list byte) : N := crc_final (fold_left crc_step l crc_init).

(* combined CRC of a stream: rotate left by one, xor the block CRC *)
Definition rotl1 (c : N) : N :=
  N.lor (N.land (N.shiftl c 1) mask32) (N.shiftr c 31).
Definition crc_combine (combined blk : N) : N := N.lxor (rotl1 combined) blk.

(* ---- move-to-front on lists ----------------------------------------------
   [mtf_pick i l d] = (element at index i, l without it). *)
Fixpoint mtf_pick {A : Type} (i : nat) (l : list A) (d : A) : A * list A :=
  match l with
  | [] => (d, [])
  | x :: r =>
    match i with
    | O => (x, r)
    | S i' => let (y, r') := mtf_pick i' r d in (y, x :: r')
    end
  end.

(* index of the first occurrence of v (0 if absent, as the Go loops do) *)
Fixpoint mtf_index (eqb : N -> N -> bool) (v : N) (l : list N) (i : N) : N :=
  match l with
  | [] => 0
  | x :: r => if eqb x v then i else mtf_index eqb v r (i + 1)
  end.
