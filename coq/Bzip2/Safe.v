(* Totality of the bzip2 decoder model (libbzip2 port, Bzip2/SpecR.v): on EVERY input
   it ends in success, UnexpectedEOF, Corrupted or Deprecated (bzip1 header / block
   randomisation). No other error class, and no loop budget is ever exhausted: every
   continuing iteration of the code-length, block and stream loops consumes input bits,
   and the symbol loop is bounded by the block size. *)
From V Require Import Base.Prelude Base.Prog Base.ProgThms Base.OkThms Base.FuelThms
  Bzip2.Common Bzip2.SpecR.

Definition bz_errs (e : err) : Prop := e = EUEOF \/ e = ECorrupted \/ e = EDeprecated \/ e = EFuel.
Local Ltac fe := unfold bz_errs; auto.

(* ---- error classes -------------------------------------------------------------- *)
Lemma ok_bits_msbf_acc n acc : only bz_errs (bits_msbf_acc n acc).
Proof.
  revert acc; induction n as [|n IH]; intros acc; cbn [bits_msbf_acc]; [apply only_ret|].
  apply only_bit; [fe|]. intros b. apply IH.
Qed.
Lemma ok_rbits n : only bz_errs (rbits n).
Proof. apply ok_bits_msbf_acc. Qed.
Lemma ok_corrupt {A} : only bz_errs (@corrupt A).
Proof. apply only_throw. fe. Qed.
Global Hint Resolve ok_rbits ok_corrupt : bzdb.

Local Ltac okb := repeat first [ solve [auto with bzdb] | solve [fe] | only_step bz_errs ].

Lemma ok_read_map_rows hi base : only bz_errs (read_map_rows hi base).
Proof. revert base; induction hi as [|h r IH]; intros base; cbn [read_map_rows]; okb. Qed.
Global Hint Resolve ok_read_map_rows : bzdb.
Lemma ok_read_symbol_map : only bz_errs read_symbol_map.
Proof. unfold read_symbol_map. okb. Qed.
Lemma ok_read_unary m acc : only bz_errs (read_unary m acc).
Proof. revert acc; induction m as [|m IH]; intros acc; cbn [read_unary]; okb. Qed.
Global Hint Resolve ok_read_symbol_map ok_read_unary : bzdb.
Lemma ok_read_sel g : only bz_errs (read_sel g).
Proof. unfold read_sel. okb. Qed.
Global Hint Resolve ok_read_sel : bzdb.
Lemma ok_read_sels n g acc : only bz_errs (read_sels n g acc).
Proof. revert acc; induction n as [|n IH]; intros acc; cbn [read_sels]; okb. Qed.
Lemma ok_clen_body c : only bz_errs (clen_body c).
Proof. unfold clen_body. okb. Qed.
Global Hint Resolve ok_read_sels ok_clen_body : bzdb.
Lemma ok_read_lens d n c acc : only bz_errs (read_lens d n c acc).
Proof. revert c acc; induction n as [|n IH]; intros c acc; cbn [read_lens]; okb. Qed.
Global Hint Resolve ok_read_lens : bzdb.
Lemma ok_hwalk rows perm z : only bz_errs (hwalk rows perm z).
Proof. revert z; induction rows as [|r rest IH]; intros z; cbn [hwalk]; okb. Qed.
Lemma ok_read_symbol t : only bz_errs (read_symbol t).
Proof. apply ok_hwalk. Qed.
Global Hint Resolve ok_hwalk ok_read_symbol : bzdb.
Lemma ok_read_tables d g a acc : only bz_errs (read_tables d g a acc).
Proof. revert acc; induction g as [|g IH]; intros acc; cbn [read_tables]; okb. Qed.
Global Hint Resolve ok_read_tables : bzdb.
Lemma ok_read_syms fuel : forall tabs sels gpos cur eob maxn n acc,
  only bz_errs (read_syms fuel tabs sels gpos cur eob maxn n acc).
Proof. induction fuel as [|f IH]; intros; cbn [read_syms]; okb. Qed.
Global Hint Resolve ok_read_syms : bzdb.
Lemma ok_put_rep n b crc k : (forall c, only bz_errs (k c)) -> only bz_errs (put_rep n b crc k).
Proof. revert crc; induction n as [|n IH]; intros crc Hk; cbn [put_rep]; [apply Hk|]. apply only_put. apply IH. exact Hk. Qed.
Lemma ok_rle1_emit l : forall run last crc, only bz_errs (rle1_emit l run last crc).
Proof.
  induction l as [|b l IH]; intros run last crc; cbn [rle1_emit]; [okb|].
  unfold delay. apply only_pos. intros _.
  destruct (run =? 4); [apply ok_put_rep; intros; apply IH|].
  destruct ((0 <? run) && (b =? last)); apply only_put; apply IH.
Qed.
Global Hint Resolve ok_rle1_emit : bzdb.
Lemma ok_decode_block d lvl : only bz_errs (decode_block d lvl).
Proof. unfold decode_block. okb. Qed.
Global Hint Resolve ok_decode_block : bzdb.
Lemma ok_blocks_body d lvl c : only bz_errs (blocks_body d lvl c).
Proof. unfold blocks_body. okb. Qed.
Global Hint Resolve ok_blocks_body : bzdb.
Lemma ok_one_stream d : only bz_errs (one_stream d).
Proof. unfold one_stream. okb. Qed.
Global Hint Resolve ok_one_stream : bzdb.
Theorem bzip2_prog_only_expected_errors d : only bz_errs (bzip2_prog d).
Proof. unfold bzip2_prog, streams_body. okb. Qed.

(* ---- loop budgets ---------------------------------------------------------------- *)
Lemma nat_of_eq k : nat_of k = N.to_nat k.
Proof.
  unfold nat_of. induction k as [|k IH] using N.peano_ind; [reflexivity|].
  rewrite N.iter_succ, IH, N2Nat.inj_succ. reflexivity.
Qed.

Lemma len_n_eq {A} (l : list A) : len_n l = N.of_nat (length l).
Proof.
  unfold len_n. assert (H : forall a, fold_left (fun n (_ : A) => n + 1) l a = a + N.of_nat (length l)).
  { induction l as [|x l IH]; intros a; cbn [fold_left length]; [lia|]. rewrite IH. lia. }
  rewrite H. lia.
Qed.

Section Fuel.
Variable n : nat.

Lemma nf_bits_msbf_acc m acc : nofuel n (bits_msbf_acc m acc).
Proof.
  revert acc; induction m as [|m IH]; intros acc; cbn [bits_msbf_acc]; [apply nofuel_ret|].
  apply nofuel_bit. intros b. apply IH.
Qed.
Lemma nf_rbits m : nofuel n (rbits m).
Proof. apply nf_bits_msbf_acc. Qed.
Lemma nf_corrupt {A} : nofuel n (@corrupt A).
Proof. apply nofuel_throw. discriminate. Qed.

Local Ltac nfs :=
  repeat first
  [ apply nf_rbits | apply nf_corrupt | apply nofuel_ret
  | apply nofuel_assert; discriminate
  | apply nofuel_throw; discriminate
  | assumption
  | apply nofuel_bind; [| intros ]
  | apply nofuel_bit; intros
  | apply nofuel_align; intros
  | apply nofuel_iseof; intros
  | apply nofuel_pos; intros
  | apply nofuel_put
  | match goal with |- nofuel _ (if ?c then _ else _) => destruct c end
  | match goal with |- nofuel _ (match ?x with _ => _ end) => destruct x end ].

Lemma nf_read_map_rows hi base : nofuel n (read_map_rows hi base).
Proof. revert base; induction hi as [|h r IH]; intros base; cbn [read_map_rows]; nfs; apply IH. Qed.
Lemma nf_read_unary m acc : nofuel n (read_unary m acc).
Proof. revert acc; induction m as [|m IH]; intros acc; cbn [read_unary]; nfs; apply IH. Qed.
Lemma nf_read_sels k g acc : nofuel n (read_sels k g acc).
Proof.
  revert acc; induction k as [|k IH]; intros acc; cbn [read_sels]; [apply nofuel_ret|].
  apply nofuel_bind; [|intros; apply IH].
  unfold read_sel. apply nofuel_bind; [apply nf_read_unary|]. intros j.
  apply nofuel_bind; [apply nofuel_assert; discriminate|]. intros _. apply nofuel_ret.
Qed.
Lemma nf_clen_body c : nofuel n (clen_body c).
Proof. unfold clen_body. nfs. Qed.

Lemma eats_clen_body c : eats (fun r => exists st', r = inl st') (clen_body c).
Proof. unfold clen_body. apply eats_bind_second. intros _. apply eats_bit. Qed.

Lemma nf_read_lens d k c acc : (n <= 2 ^ d)%nat -> nofuel n (read_lens d k c acc).
Proof.
  intros Hd. revert c acc; induction k as [|k IH]; intros c acc; cbn [read_lens]; [apply nofuel_ret|].
  apply nofuel_bind; [|intros; apply IH].
  apply nofuel_loop; [intros; apply nf_clen_body | intros; apply eats_clen_body | exact Hd].
Qed.

Lemma nf_hwalk rows perm z : nofuel n (hwalk rows perm z).
Proof. revert z; induction rows as [|r rest IH]; intros z; cbn [hwalk]; nfs. apply IH. Qed.

Lemma nf_read_tables d g a acc : (n <= 2 ^ d)%nat -> nofuel n (read_tables d g a acc).
Proof.
  intros Hd. revert acc; induction g as [|g IH]; intros acc; cbn [read_tables]; [apply nofuel_ret|].
  apply nofuel_bind; [apply nf_rbits|]. intros start.
  apply nofuel_bind; [apply nf_read_lens; exact Hd|]. intros lens. apply IH.
Qed.

(* the symbol loop stops after maxn symbols at the latest *)
Lemma nf_read_syms fuel : forall tabs sels gpos cur eob maxn k acc,
  (N.to_nat maxn + 2 <= fuel + N.to_nat k)%nat -> k <= maxn ->
  nofuel n (read_syms fuel tabs sels gpos cur eob maxn k acc).
Proof.
  induction fuel as [|f IH]; intros tabs sels gpos cur eob maxn k acc Hf Hk; [lia|].
  cbn [read_syms].
  assert (Hstep : forall cur' sels' gpos',
             nofuel n (s <- read_symbol cur' ;;
                       if s =? eob then Ret (fast_rev acc)
                       else if eob <? s then corrupt
                       else if maxn <=? k then corrupt
                       else read_syms f tabs sels' (gpos' - 1) cur' eob maxn (k + 1) (s :: acc))).
  { intros cur' sels' gpos'. apply nofuel_bind; [apply nf_hwalk|]. intros s.
    destruct (s =? eob); [apply nofuel_ret|].
    destruct (eob <? s); [apply nf_corrupt|].
    destruct (maxn <=? k) eqn:E; [apply nf_corrupt|]. apply N.leb_gt in E.
    apply IH; lia. }
  destruct (gpos =? 0); [|apply Hstep].
  destruct sels as [|sel sels']; [apply nf_corrupt | apply Hstep].
Qed.

Lemma nf_put_rep k b crc cont : (forall c, nofuel n (cont c)) -> nofuel n (put_rep k b crc cont).
Proof. revert crc; induction k as [|k IH]; intros crc Hk; cbn [put_rep]; [apply Hk|]. apply nofuel_put. apply IH. exact Hk. Qed.

Lemma nf_rle1_emit l : forall run last crc, nofuel n (rle1_emit l run last crc).
Proof.
  induction l as [|b l IH]; intros run last crc; cbn [rle1_emit].
  - destruct (run =? 4); [apply nf_corrupt | apply nofuel_ret].
  - unfold delay. apply nofuel_pos. intros _.
    destruct (run =? 4); [apply nf_put_rep; intros; apply IH|].
    destruct ((0 <? run) && (b =? last)); apply nofuel_put; apply IH.
Qed.

Lemma nf_decode_block d lvl : (n <= 2 ^ d)%nat -> nofuel n (decode_block d lvl).
Proof.
  intros Hd. unfold decode_block.
  apply nofuel_bind; [apply nf_rbits|]. intros stored.
  apply nofuel_bind; [apply nf_rbits|]. intros rand.
  apply nofuel_bind; [apply nofuel_assert; discriminate|]. intros _.
  apply nofuel_bind; [apply nf_rbits|]. intros origPtr.
  apply nofuel_bind.
  { unfold read_symbol_map. apply nofuel_bind; [apply nf_rbits|]. intros hi. apply nf_read_map_rows. }
  intros used. cbv zeta.
  apply nofuel_bind; [apply nofuel_assert; discriminate|]. intros _.
  apply nofuel_bind; [apply nf_rbits|]. intros nGroups.
  apply nofuel_bind; [apply nofuel_assert; discriminate|]. intros _.
  apply nofuel_bind; [apply nf_rbits|]. intros nSelectors.
  apply nofuel_bind; [apply nf_read_sels|]. intros selsMtf.
  apply nofuel_bind; [apply nf_read_tables; exact Hd|]. intros tabs.
  apply nofuel_bind.
  { apply nf_read_syms; [rewrite nat_of_eq; lia | lia]. }
  intros syms.
  destruct (mtf_rle2_decode _ _ _ _ _ _ _) as [[nblock tt_rev]|]; [|apply nf_corrupt].
  apply nofuel_bind; [apply nofuel_assert; discriminate|]. intros _.
  apply nofuel_bind; [apply nf_rle1_emit|]. intros crc.
  apply nofuel_bind; [apply nofuel_assert; discriminate|]. intros _. apply nofuel_ret.
Qed.

Lemma nf_blocks_body d lvl c : (n <= 2 ^ d)%nat -> nofuel n (blocks_body d lvl c).
Proof.
  intros Hd. unfold blocks_body. apply nofuel_bind; [apply nf_rbits|]. intros magic.
  destruct (magic =? blkMagic).
  - apply nofuel_bind; [apply nf_decode_block; exact Hd|]. intros; apply nofuel_ret.
  - destruct (magic =? endMagic); [|apply nf_corrupt].
    apply nofuel_bind; [apply nf_rbits|]. intros c0.
    apply nofuel_bind; [apply nofuel_assert; discriminate|]. intros _.
    apply nofuel_align. intros; apply nofuel_ret.
Qed.

Lemma eats_bits_msbf_acc m acc (c : N -> Prop) : (0 < m)%nat -> eats c (bits_msbf_acc m acc).
Proof. intros Hm. destruct m as [|m]; [lia|]. cbn [bits_msbf_acc]. apply eats_bit. Qed.

Lemma eats_blocks_body d lvl c : eats (fun r => exists st', r = inl st') (blocks_body d lvl c).
Proof. unfold blocks_body. apply eats_bind_first. apply eats_bits_msbf_acc. lia. Qed.

Lemma nf_one_stream d : (n <= 2 ^ d)%nat -> nofuel n (one_stream d).
Proof.
  intros Hd. unfold one_stream.
  apply nofuel_bind; [apply nf_rbits|]. intros m.
  apply nofuel_bind; [apply nofuel_assert; discriminate|]. intros _.
  apply nofuel_bind; [apply nf_rbits|]. intros ver.
  apply nofuel_bind.
  { destruct (ver =? 104); [apply nofuel_ret|].
    destruct (ver =? 48); [apply nofuel_throw; discriminate | apply nf_corrupt]. }
  intros _.
  apply nofuel_bind; [apply nf_rbits|]. intros lvl.
  apply nofuel_bind; [apply nofuel_assert; discriminate|]. intros _.
  apply nofuel_loop; [intros; apply nf_blocks_body; exact Hd | intros; apply eats_blocks_body | exact Hd].
Qed.

Lemma eats_one_stream d : eats (fun _ => True) (one_stream d).
Proof. unfold one_stream. apply eats_bind_first. apply eats_bits_msbf_acc. lia. Qed.

Theorem bzip2_prog_nofuel d : (n <= 2 ^ d)%nat -> nofuel n (bzip2_prog d).
Proof.
  intros Hd. unfold bzip2_prog.
  apply nofuel_loop; [| | exact Hd].
  - intros st. unfold streams_body. apply nofuel_bind; [apply nf_one_stream; exact Hd|].
    intros _. apply nofuel_iseof. intros []; apply nofuel_ret.
  - intros st. unfold streams_body. apply eats_bind_first. apply eats_one_stream.
Qed.
End Fuel.

(* ---- the decoder as [bzip2_decode] runs it ----------------------------------------- *)
Lemma bits_of_bytes_msb_length l : length (bits_of_bytes_msb l) = (8 * length l)%nat.
Proof.
  rewrite bits_of_bytes_msb_eq. unfold bytes_to_bits_msb. induction l as [|b l IH]; [reflexivity|].
  cbn [flat_map length]. rewrite app_length, IH, bits_msb_len. lia.
Qed.

Lemma depth_for_n_enough k : (8 * N.to_nat k < 2 ^ depth_for_n k)%nat.
Proof.
  unfold depth_for_n. set (x := 8 * k + 64).
  assert (Hx : 0 < x) by (unfold x; lia).
  pose proof (N.log2_spec x Hx) as [_ H2].
  rewrite <- N2Nat.inj_succ.
  replace (2 ^ N.to_nat (N.succ (N.log2 x)))%nat with (N.to_nat (2 ^ N.succ (N.log2 x))).
  - set (p := 2 ^ N.succ (N.log2 x)) in *. unfold x in H2. lia.
  - rewrite N2Nat.inj_pow. reflexivity.
Qed.

Theorem bzip2_decode_total input :
  match bz_err (bzip2_decode input) with
  | None => True
  | Some e => e = EUEOF \/ e = ECorrupted \/ e = EDeprecated
  end.
Proof.
  unfold bzip2_decode. cbn [bz_err].
  set (d := depth_for_n (len_n input)). set (s := ast_init (bits_of_bytes_msb input)).
  assert (Hw : wf_ast s) by reflexivity.
  pose proof (only_elim bz_errs _ s (bzip2_prog_only_expected_errors d) Hw) as H1.
  assert (Hs : (ilen s < 8 * length input + 1)%nat).
  { unfold ilen, s. cbn [ast_init a_in]. rewrite bits_of_bytes_msb_length. lia. }
  assert (Hd : (8 * length input + 1 <= 2 ^ d)%nat).
  { pose proof (depth_for_n_enough (len_n input)) as H. unfold d. rewrite len_n_eq in *. rewrite Nat2N.id in H. lia. }
  pose proof (nofuel_elim _ _ s (bzip2_prog_nofuel _ d Hd) Hs) as H2.
  unfold res_err. destruct (run (bzip2_prog d) s) as [a s'|e s']; [exact I|].
  destruct H1 as [H1|[H1|[H1|H1]]]; auto. contradiction.
Qed.
