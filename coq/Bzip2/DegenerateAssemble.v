(* Layer 2c: the code list handleDegenerateCodes returns, from the explored words.

   exploreCode stores a valid code at pcodes[sym] and appends an invalid marker
   with the next free symbol number; step 3 keeps the entries of non-zero
   length.  For a list E of explored words (bits, Some sym | None) whose
   symbols are below 258 and pairwise distinct and whose bit strings are
   non-empty and pairwise distinct:

     final_in        the entries of the result are exactly the words of E
                     (valid: their symbol; marker: some symbol >= 258)
     final_sorted    the symbols are strictly increasing
     final_inj       an entry is determined by its (length, value)
     final_kraft     the Kraft sum of the result is the Kraft sum of E *)
From Coq Require Import Sorted.
From V Require Import Base.Prelude Base.Prog Flate.Spec Flate.Canon Prefix.GenPrefixesThms
  Bzip2.Common Bzip2.SpecR Prefix.Code Bzip2.Degenerate Bzip2.DegenerateSpec
  Bzip2.DegenerateWalk Bzip2.DegenerateTables Bzip2.DegenerateRefine.

Local Open Scope N_scope.

Definition zero_code : pcode := (0, 0, 0).
Definition code_of (s : N) (bits : list bool) : pcode := (s, N.of_nat (length bits), bits_val bits).

(* the markers, numbered from [base] *)
Fixpoint marks (base : N) (es : list emit) : list pcode :=
  match es with
  | [] => []
  | (bits, None) :: r => code_of base bits :: marks (base + 1) r
  | (_, Some _) :: r => marks base r
  end.

(* the valid codes, each stored at the index of its symbol *)
Definition some_step (H : list pcode) (e : emit) : list pcode :=
  match snd e with
  | Some s => match aset H s (code_of s (fst e)) with Some H' => H' | None => H end
  | None => H
  end.
Definition somes (H : list pcode) (es : list emit) : list pcode := fold_left some_step es H.

Lemma some_step_length H e : length (some_step H e) = length H.
Proof.
  unfold some_step. destruct (snd e) as [s|]; [|reflexivity].
  rewrite aset_spec. destruct (N.to_nat s <? length H)%nat eqn:E; [|reflexivity].
  apply Nat.ltb_lt in E. rewrite app_length, firstn_length. cbn [length]. rewrite skipn_length. lia.
Qed.

Lemma somes_length es : forall H, length (somes H es) = length H.
Proof.
  induction es as [|e es IH]; intros H; [reflexivity|]. cbn [somes fold_left].
  fold (somes (some_step H e) es). rewrite IH. apply some_step_length.
Qed.

Lemma aset_app_l {A} (H M : list A) i v : (N.to_nat i < length H)%nat ->
  aset (H ++ M) i v = match aset H i v with Some H' => Some (H' ++ M) | None => None end.
Proof.
  intros Hi. rewrite !aset_spec. rewrite app_length.
  assert (E1 : (N.to_nat i <? length H + length M)%nat = true) by (apply Nat.ltb_lt; lia).
  assert (E2 : (N.to_nat i <? length H)%nat = true) by (apply Nat.ltb_lt; lia).
  rewrite E1, E2. f_equal.
  rewrite firstn_app. replace (N.to_nat i - length H)%nat with 0%nat by lia.
  cbn [firstn]. rewrite app_nil_r. rewrite <- app_assoc. cbn [app]. f_equal. f_equal.
  rewrite skipn_app. replace (S (N.to_nat i) - length H)%nat with 0%nat by lia. reflexivity.
Qed.

Lemma aset_inv {A} (H : list A) s c H' : aset H s c = Some H' ->
  (N.to_nat s < length H)%nat /\ length H' = length H /\ aget H' s = Some c /\
  forall j, j <> s -> aget H' j = aget H j.
Proof.
  intros Ha. assert (Hlt : (N.to_nat s < length H)%nat).
  { rewrite aset_spec in Ha. destruct (N.to_nat s <? length H)%nat eqn:E; [|discriminate].
    apply Nat.ltb_lt in E. exact E. }
  destruct (aset_some H s c Hlt) as (H'' & HH & Hl & Hg1 & Hg2). rewrite Ha in HH.
  inversion HH; subst H''. auto.
Qed.

(* exploreCode's array = valid part ++ markers *)
Lemma apply_emits_split es : forall H M,
  (forall bits s, In (bits, Some s) es -> (N.to_nat s < length H)%nat) ->
  apply_emits (H ++ M) es = somes H es ++ M ++ marks (N.of_nat (length H + length M)) es.
Proof.
  induction es as [|[bits o] es IH]; intros H M Hs.
  - cbn [apply_emits somes fold_left marks]. rewrite app_nil_r. reflexivity.
  - cbn [apply_emits fold_left somes]. fold (apply_emits (apply_emit (H ++ M) (bits, o)) es).
    fold (somes (some_step H (bits, o)) es).
    assert (Hs' : forall bits' s, In (bits', Some s) es -> (N.to_nat s < length H)%nat).
    { intros b' s' Hin. apply (Hs b'). right. exact Hin. }
    destruct o as [s|].
    + unfold apply_emit, some_step. cbn [fst snd].
      assert (Hlt : (N.to_nat s < length H)%nat) by (apply (Hs bits); left; reflexivity).
      rewrite (aset_app_l H M s _ Hlt). fold (code_of s bits).
      destruct (aset_some H s (code_of s bits) Hlt) as (H' & HH' & Hl' & _). rewrite HH'.
      rewrite IH by (rewrite Hl'; exact Hs'). rewrite Hl'. reflexivity.
    + unfold apply_emit, some_step. cbn [fst snd]. unfold push_invalid.
      rewrite <- app_assoc. rewrite IH by exact Hs'.
      rewrite <- app_assoc. cbn [marks]. f_equal. f_equal.
      rewrite !app_length. cbn [length app]. unfold code_of.
      replace (N.of_nat (length H + (length M + 1))) with (N.of_nat (length H + length M) + 1) by lia.
      reflexivity.
Qed.

(* ---- hypotheses on the explored words -------------------------------------------------------- *)
Definition some_syms (es : list emit) : list N :=
  flat_map (fun e => match snd e with Some s => [s] | None => [] end) es.

Record emits_ok (es : list emit) : Prop := {
  eo_lt : forall bits s, In (bits, Some s) es -> s < 258;
  eo_bits : NoDup (map fst es);
  eo_syms : NoDup (some_syms es);
  eo_ne : forall bits o, In (bits, o) es -> bits <> []
}.

Lemma emits_ok_tail e es : emits_ok (e :: es) -> emits_ok es.
Proof.
  intros [H1 H2 H3 H4]. constructor.
  - intros b s Hin. apply (H1 b). right. exact Hin.
  - cbn [map] in H2. inversion H2; assumption.
  - unfold some_syms in *. cbn [flat_map] in H3. destruct (snd e); [|exact H3].
    cbn [app] in H3. inversion H3; assumption.
  - intros b o Hin. apply (H4 b o). right. exact Hin.
Qed.

Lemma some_syms_in es bits s : In (bits, Some s) es -> In s (some_syms es).
Proof.
  intros H. unfold some_syms. apply in_flat_map. exists (bits, Some s). split; [exact H|]. left. reflexivity.
Qed.

(* ---- the valid part ------------------------------------------------------------------------------ *)
Lemma somes_other es : forall H i, ~ In i (some_syms es) -> aget (somes H es) i = aget H i.
Proof.
  induction es as [|[bits o] es IH]; intros H i Hni; [reflexivity|].
  cbn [somes fold_left]. fold (somes (some_step H (bits, o)) es).
  unfold some_syms in Hni. cbn [flat_map snd] in Hni. fold (some_syms es) in Hni.
  rewrite IH by (intros Hin; apply Hni; apply in_or_app; right; exact Hin).
  unfold some_step. cbn [snd fst]. destruct o as [s|]; [|reflexivity].
  destruct (aset H s (code_of s bits)) as [H'|] eqn:Ea; [|reflexivity].
  destruct (aset_inv H s _ H' Ea) as (_ & _ & _ & Hg). apply Hg.
  intros ->. apply Hni. left. reflexivity.
Qed.

Lemma somes_written es : forall H bits s, NoDup (some_syms es) ->
  (forall b' s', In (b', Some s') es -> (N.to_nat s' < length H)%nat) ->
  In (bits, Some s) es -> aget (somes H es) s = Some (code_of s bits).
Proof.
  induction es as [|[bits0 o] es IH]; intros H bits s Hnd Hlt Hin; [contradiction|].
  cbn [somes fold_left]. fold (somes (some_step H (bits0, o)) es).
  unfold some_syms in Hnd. cbn [flat_map snd] in Hnd. fold (some_syms es) in Hnd.
  destruct Hin as [Hin|Hin].
  - inversion Hin; subst bits0 o. cbn [app] in Hnd. inversion Hnd as [|? ? Hnin Hnd']; subst.
    rewrite somes_other by exact Hnin.
    unfold some_step. cbn [snd fst].
    assert (E : (N.to_nat s < length H)%nat) by (apply (Hlt bits); left; reflexivity).
    destruct (aset_some H s (code_of s bits) E) as (H' & HH' & _ & Hg & _). rewrite HH'. exact Hg.
  - apply IH.
    + destruct o; [cbn [app] in Hnd; inversion Hnd; assumption | exact Hnd].
    + intros b' s' Hin'. rewrite some_step_length. apply (Hlt b'). right. exact Hin'.
    + exact Hin.
Qed.

(* a slot holds the zero code or a code with the slot's number as symbol *)
Lemma somes_slot es : forall H i c,
  (forall i c, aget H i = Some c -> c = zero_code) ->
  aget (somes H es) i = Some c ->
  c = zero_code \/ exists bits, In (bits, Some i) es /\ c = code_of i bits.
Proof.
  induction es as [|[bits0 o] es IH] using rev_ind; intros H i c Hz Hget.
  - left. apply (Hz i). exact Hget.
  - unfold somes in Hget. rewrite fold_left_app in Hget. cbn [fold_left] in Hget.
    fold (somes H es) in Hget. unfold some_step in Hget. cbn [snd fst] in Hget.
    destruct o as [s|].
    + destruct (aset (somes H es) s (code_of s bits0)) as [H'|] eqn:Ea.
      * destruct (aset_inv _ s _ H' Ea) as (_ & _ & Hg1 & Hg2).
        destruct (N.eq_dec i s) as [->|Hne].
        -- rewrite Hg1 in Hget. inversion Hget. right. exists bits0. split; [|reflexivity].
           apply in_or_app. right. left. reflexivity.
        -- rewrite (Hg2 i Hne) in Hget. destruct (IH H i c Hz Hget) as [Hc|(b & Hin & Hc)].
           ++ left; exact Hc.
           ++ right. exists b. split; [apply in_or_app; left; exact Hin | exact Hc].
      * destruct (IH H i c Hz Hget) as [Hc|(b & Hin & Hc)].
        -- left; exact Hc.
        -- right. exists b. split; [apply in_or_app; left; exact Hin | exact Hc].
    + destruct (IH H i c Hz Hget) as [Hc|(b & Hin & Hc)].
      * left; exact Hc.
      * right. exists b. split; [apply in_or_app; left; exact Hin | exact Hc].
Qed.

(* ---- the markers ------------------------------------------------------------------------------------ *)
Lemma marks_in es : forall base c, In c (marks base es) ->
  exists bits, In (bits, None) es /\ c_len c = N.of_nat (length bits) /\ c_val c = bits_val bits /\
               base <= c_sym c.
Proof.
  induction es as [|[bits o] es IH]; intros base c Hin; [contradiction|].
  destruct o as [s|]; cbn [marks] in Hin.
  - destruct (IH base c Hin) as (b & H1 & H2). exists b. split; [right; exact H1 | exact H2].
  - destruct Hin as [<-|Hin].
    + exists bits. split; [left; reflexivity|]. unfold code_of, c_len, c_val, c_sym. cbn. repeat split. lia.
    + destruct (IH (base + 1) c Hin) as (b & H1 & H2 & H3 & H4). exists b.
      split; [right; exact H1|]. repeat split; try assumption. lia.
Qed.

Lemma marks_has es : forall base bits, In (bits, None) es ->
  exists s, In (code_of s bits) (marks base es) /\ base <= s.
Proof.
  induction es as [|[bits0 o] es IH]; intros base bits Hin; [contradiction|].
  destruct Hin as [Hin|Hin].
  - inversion Hin; subst. exists base. cbn [marks]. split; [left; reflexivity | lia].
  - destruct o as [s0|]; cbn [marks].
    + apply IH. exact Hin.
    + destruct (IH (base + 1) bits Hin) as (s & H1 & H2). exists s. split; [right; exact H1 | lia].
Qed.

Lemma marks_sorted es : forall base, StronglySorted N.lt (map c_sym (marks base es)).
Proof.
  induction es as [|[bits o] es IH]; intros base; [constructor|].
  destruct o as [s|]; cbn [marks]; [apply IH|].
  cbn [map]. constructor; [apply IH|].
  apply Forall_forall. intros x Hx. apply in_map_iff in Hx. destruct Hx as (c & <- & Hc).
  apply marks_in in Hc. destruct Hc as (_ & _ & _ & _ & Hc). unfold code_of, c_sym in *. cbn [fst] in *. lia.
Qed.

Lemma marks_inj es : forall base c1 c2, NoDup (map fst es) ->
  In c1 (marks base es) -> In c2 (marks base es) ->
  c_len c1 = c_len c2 -> c_val c1 = c_val c2 -> c1 = c2.
Proof.
  induction es as [|[bits o] es IH]; intros base c1 c2 Hnd H1 H2 Hl Hv; [contradiction|].
  cbn [map fst] in Hnd. inversion Hnd as [|? ? Hnin Hnd']; subst.
  destruct o as [s|]; cbn [marks] in H1, H2; [apply (IH base); assumption|].
  assert (Hkey : forall c, In c (marks (base + 1) es) ->
                 c_len c = N.of_nat (length bits) -> c_val c = bits_val bits -> False).
  { intros c Hc Hcl Hcv. apply marks_in in Hc. destruct Hc as (b & Hb & Hbl & Hbv & _).
    apply Hnin. apply in_map_iff. exists (b, None). split; [|exact Hb]. cbn [fst].
    apply bits_val_inj; [lia | congruence]. }
  destruct H1 as [<-|H1], H2 as [<-|H2].
  - reflexivity.
  - exfalso. apply (Hkey c2 H2); unfold code_of, c_len, c_val in *; cbn [fst snd] in *; congruence.
  - exfalso. apply (Hkey c1 H1); unfold code_of, c_len, c_val in *; cbn [fst snd] in *; congruence.
  - apply (IH (base + 1)); assumption.
Qed.

(* ---- the result ------------------------------------------------------------------------------------------ *)
Definition keep (c : pcode) : bool := 0 <? c_len c.

Definition final (es : list emit) : list pcode :=
  filter keep (apply_emits (repeat zero_code 258) es).

Lemma final_split es : emits_ok es ->
  final es = filter keep (somes (repeat zero_code 258) es) ++ filter keep (marks 258 es).
Proof.
  intros Hok. unfold final.
  rewrite <- (app_nil_r (repeat zero_code 258)) at 1.
  rewrite apply_emits_split.
  - cbn [app length]. rewrite repeat_length, Nat.add_0_r. rewrite filter_app. reflexivity.
  - intros bits s Hin. rewrite repeat_length. pose proof (eo_lt es Hok bits s Hin). lia.
Qed.

Lemma repeat_zero_get i c : aget (repeat zero_code 258) i = Some c -> c = zero_code.
Proof. rewrite aget_nth. intros H. apply nth_error_In in H. apply repeat_spec in H. exact H. Qed.

Lemma keep_code_of s bits : bits <> [] -> keep (code_of s bits) = true.
Proof. intros H. unfold keep, code_of, c_len. cbn [fst snd]. destruct bits; [contradiction|]. cbn [length]. lia. Qed.

(* membership: every entry is an explored word ... *)
Definition matches (c : pcode) (e : emit) : Prop :=
  c_len c = N.of_nat (length (fst e)) /\ c_val c = bits_val (fst e) /\
  match snd e with Some s => c_sym c = s | None => 258 <= c_sym c end.

Theorem final_sound es c : emits_ok es -> In c (final es) -> exists e, In e es /\ matches c e.
Proof.
  intros Hok. rewrite (final_split es Hok), in_app_iff, !filter_In.
  intros [[Hin Hk]|[Hin Hk]].
  - apply In_nth_error in Hin. destruct Hin as [i Hi].
    assert (Hget : aget (somes (repeat zero_code 258) es) (N.of_nat i) = Some c)
      by (rewrite aget_nth, Nat2N.id; exact Hi).
    destruct (somes_slot es _ _ c repeat_zero_get Hget) as [->|(bits & Hb & ->)]; [discriminate Hk|].
    exists (bits, Some (N.of_nat i)). split; [exact Hb|]. unfold matches, code_of, c_len, c_val, c_sym.
    cbn [fst snd]. repeat split.
  - apply marks_in in Hin. destruct Hin as (bits & H1 & H2 & H3 & H4).
    exists (bits, None). split; [exact H1|]. unfold matches. cbn [fst snd]. repeat split; assumption.
Qed.

(* ... and every explored word has its entry *)
Theorem final_has es e : emits_ok es -> In e es -> exists c, In c (final es) /\ matches c e.
Proof.
  intros Hok Hin. destruct e as [bits o]. pose proof (eo_ne es Hok bits o Hin) as Hne.
  rewrite (final_split es Hok). destruct o as [s|].
  - exists (code_of s bits). split.
    + apply in_or_app. left. apply filter_In. split; [|apply keep_code_of, Hne].
      pose proof (somes_written es (repeat zero_code 258) bits s (eo_syms es Hok)) as Hw.
      rewrite aget_nth in Hw. apply (nth_error_In _ (N.to_nat s)). apply Hw; [|exact Hin].
      intros b' s' Hin'. rewrite repeat_length. pose proof (eo_lt es Hok b' s' Hin'). lia.
    + unfold matches, code_of, c_len, c_val, c_sym. cbn [fst snd]. repeat split.
  - destruct (marks_has es 258 bits Hin) as (s & Hs & Hge). exists (code_of s bits). split.
    + apply in_or_app. right. apply filter_In. split; [exact Hs | apply keep_code_of, Hne].
    + unfold matches, code_of, c_len, c_val, c_sym. cbn [fst snd]. repeat split. exact Hge.
Qed.

(* the bits of an entry are the bits of its word *)
Lemma matches_bits c e : matches c e -> code_bits c = fst e.
Proof.
  intros (Hl & Hv & _). unfold code_bits. rewrite Hl, Hv, Nat2N.id. apply val_bits_bits_val.
Qed.

(* an entry is determined by its length and value *)
Theorem final_inj es c1 c2 : emits_ok es -> In c1 (final es) -> In c2 (final es) ->
  c_len c1 = c_len c2 -> c_val c1 = c_val c2 -> c1 = c2.
Proof.
  intros Hok H1 H2 Hl Hv.
  assert (Hsame : forall b1 b2 : list bool, c_len c1 = N.of_nat (length b1) -> c_val c1 = bits_val b1 ->
            c_len c2 = N.of_nat (length b2) -> c_val c2 = bits_val b2 -> b1 = b2).
  { intros b1 b2 A1 A2 B1 B2. apply bits_val_inj; [lia | congruence]. }
  assert (Hfst : forall b o o', In (b, o) es -> In (b, o') es -> o = o').
  { intros b o o' Ha Hb. pose proof (eo_bits es Hok) as Hnd. clear -Ha Hb Hnd.
    induction es as [|[b0 o0] es IH]; [contradiction|]. cbn [map fst] in Hnd.
    inversion Hnd as [|? ? Hnin Hnd']; subst.
    destruct Ha as [Ha|Ha], Hb as [Hb|Hb].
    - congruence.
    - inversion Ha; subst. exfalso. apply Hnin. apply in_map_iff. exists (b, o'). auto.
    - inversion Hb; subst. exfalso. apply Hnin. apply in_map_iff. exists (b, o). auto.
    - apply IH; assumption. }
  rewrite (final_split es Hok) in H1, H2. apply in_app_or in H1. apply in_app_or in H2.
  rewrite !filter_In in H1, H2.
  assert (Hslot : forall c, In c (somes (repeat zero_code 258) es) -> keep c = true ->
            exists bits s, In (bits, Some s) es /\ c = code_of s bits).
  { intros c Hin Hk. apply In_nth_error in Hin. destruct Hin as [i Hi].
    assert (Hget : aget (somes (repeat zero_code 258) es) (N.of_nat i) = Some c)
      by (rewrite aget_nth, Nat2N.id; exact Hi).
    destruct (somes_slot es _ _ c repeat_zero_get Hget) as [->|(bits & Hb & ->)]; [discriminate Hk|].
    exists bits, (N.of_nat i). split; [exact Hb | reflexivity]. }
  destruct H1 as [[H1 K1]|[H1 K1]], H2 as [[H2 K2]|[H2 K2]].
  - destruct (Hslot c1 H1 K1) as (b1 & s1 & I1 & ->). destruct (Hslot c2 H2 K2) as (b2 & s2 & I2 & ->).
    unfold code_of, c_len, c_val in Hl, Hv. cbn [fst snd] in Hl, Hv.
    assert (b1 = b2) by (apply bits_val_inj; [lia | exact Hv]). subst b2.
    pose proof (Hfst b1 _ _ I1 I2) as E. inversion E. reflexivity.
  - exfalso. destruct (Hslot c1 H1 K1) as (b1 & s1 & I1 & ->).
    apply marks_in in H2. destruct H2 as (b2 & I2 & L2 & V2 & _).
    unfold code_of, c_len, c_val in Hl, Hv, L2, V2 |- *. cbn [fst snd] in *.
    assert (b1 = b2) by (apply bits_val_inj; [lia | congruence]). subst b2.
    pose proof (Hfst b1 _ _ I1 I2). discriminate.
  - exfalso. destruct (Hslot c2 H2 K2) as (b2 & s2 & I2 & ->).
    apply marks_in in H1. destruct H1 as (b1 & I1 & L1 & V1 & _).
    unfold code_of, c_len, c_val in Hl, Hv, L1, V1 |- *. cbn [fst snd] in *.
    assert (b1 = b2) by (apply bits_val_inj; [lia | congruence]). subst b2.
    pose proof (Hfst b1 _ _ I1 I2). discriminate.
  - apply (marks_inj es 258); try assumption. apply (eo_bits es Hok).
Qed.

(* ---- sortedness -------------------------------------------------------------------------------------------- *)
Lemma slots_sorted H : forall base,
  (forall k c, nth_error H k = Some c -> c = zero_code \/ c_sym c = base + N.of_nat k) ->
  StronglySorted N.lt (map c_sym (filter keep H)) /\
  Forall (fun x => base <= x < base + N.of_nat (length H)) (map c_sym (filter keep H)).
Proof.
  induction H as [|c H IH]; intros base Hs.
  - cbn. split; constructor.
  - destruct (IH (base + 1)) as [IH1 IH2].
    { intros k c' Hk. destruct (Hs (S k) c' Hk) as [E|E]; [left; exact E | right; lia]. }
    assert (IH2' : Forall (fun x => base + 1 <= x < base + N.of_nat (length (c :: H)))
                          (map c_sym (filter keep H))).
    { eapply Forall_impl; [|exact IH2]. cbn beta. intros x Hx. cbn [length]. lia. }
    cbn [filter]. destruct (keep c) eqn:Ek.
    + destruct (Hs 0%nat c eq_refl) as [->|Hc]; [discriminate Ek|].
      cbn [map]. split.
      * constructor; [exact IH1|]. eapply Forall_impl; [|exact IH2']. cbn beta. intros x Hx. lia.
      * constructor; [cbn [length]; lia|]. eapply Forall_impl; [|exact IH2']. cbn beta. intros x Hx. lia.
    + split; [exact IH1|]. eapply Forall_impl; [|exact IH2']. cbn beta. intros x Hx. lia.
Qed.

Lemma sorted_app (a b : list N) m :
  StronglySorted N.lt a -> StronglySorted N.lt b ->
  Forall (fun x => x < m) a -> Forall (fun x => m <= x) b -> StronglySorted N.lt (a ++ b).
Proof.
  intros Ha Hb Fa Fb. induction Ha as [|x a Ha IH Hx]; [exact Hb|].
  cbn [app]. inversion Fa as [|? ? Hxm Fa']; subst. constructor; [apply IH, Fa'|].
  apply Forall_app. split; [exact Hx|]. eapply Forall_impl; [|exact Fb]. cbn beta. intros y Hy. lia.
Qed.

Theorem final_sorted es : emits_ok es -> StronglySorted N.lt (map c_sym (final es)).
Proof.
  intros Hok. rewrite (final_split es Hok), map_app.
  destruct (slots_sorted (somes (repeat zero_code 258) es) 0) as [S1 S2].
  { intros k c Hk.
    assert (Hget : aget (somes (repeat zero_code 258) es) (N.of_nat k) = Some c)
      by (rewrite aget_nth, Nat2N.id; exact Hk).
    destruct (somes_slot es _ _ c repeat_zero_get Hget) as [->|(bits & _ & ->)]; [left; reflexivity|].
    right. reflexivity. }
  rewrite somes_length, repeat_length in S2.
  apply (sorted_app _ _ 258).
  - exact S1.
  - assert (Hm : StronglySorted N.lt (map c_sym (marks 258 es))) by apply marks_sorted.
    clear -Hm. induction (marks 258 es) as [|c l IH]; [constructor|].
    cbn [map] in Hm. apply StronglySorted_inv in Hm. destruct Hm as [Hm1 Hm2].
    cbn [filter]. destruct (keep c); [|apply IH, Hm1]. cbn [map]. constructor; [apply IH, Hm1|].
    rewrite Forall_forall in *. intros x Hx. apply Hm2. apply in_map_iff in Hx.
    destruct Hx as (c' & <- & Hc'). apply filter_In in Hc'. apply in_map. apply Hc'.
  - eapply Forall_impl; [|exact S2]. cbn beta. intros x Hx. lia.
  - apply Forall_forall. intros x Hx. apply in_map_iff in Hx. destruct Hx as (c & <- & Hc).
    apply filter_In in Hc. destruct Hc as [Hc _]. apply marks_in in Hc.
    destruct Hc as (_ & _ & _ & _ & Hc). exact Hc.
Qed.

(* ---- Kraft sum ------------------------------------------------------------------------------------------------ *)
Definition wsum (m : N) (cs : list pcode) : N :=
  fold_right (fun c acc => (if keep c then 2 ^ (m - c_len c) else 0) + acc) 0 cs.

Lemma wsum_app m a b : wsum m (a ++ b) = wsum m a + wsum m b.
Proof. induction a as [|x a IH]; cbn [wsum app fold_right] in *; [reflexivity|]. fold (wsum m (a ++ b)). fold (wsum m a). rewrite IH. lia. Qed.

Lemma wsum_cons m c cs : wsum m (c :: cs) = (if keep c then 2 ^ (m - c_len c) else 0) + wsum m cs.
Proof. reflexivity. Qed.

Lemma wsum_filter m cs : wsum m (filter keep cs) = wsum m cs.
Proof.
  induction cs as [|c cs IH]; [reflexivity|]. cbn [filter]. destruct (keep c) eqn:E.
  - cbn [wsum fold_right]. fold (wsum m (filter keep cs)). fold (wsum m cs). rewrite IH. reflexivity.
  - cbn [wsum fold_right]. fold (wsum m cs). rewrite E, IH. lia.
Qed.

Lemma wsum_kraft m cs : (forall c, In c cs -> keep c = true) -> wsum m cs = kraft m (map fst cs).
Proof.
  induction cs as [|c cs IH]; intros Hk; [reflexivity|].
  cbn [wsum fold_right map]. fold (wsum m cs). rewrite IH by (intros c' Hc'; apply Hk; right; exact Hc').
  rewrite (Hk c) by (left; reflexivity). destruct c as [[s l] v]. reflexivity.
Qed.

Definition ksum_some (m : N) (es : list emit) : N :=
  fold_right (fun e acc => match snd e with Some _ => 2 ^ (m - N.of_nat (length (fst e))) | None => 0 end + acc) 0 es.
Definition ksum_none (m : N) (es : list emit) : N :=
  fold_right (fun e acc => match snd e with None => 2 ^ (m - N.of_nat (length (fst e))) | Some _ => 0 end + acc) 0 es.

Lemma ksum_parts m es : ksum m es = ksum_some m es + ksum_none m es.
Proof.
  induction es as [|[bits o] es IH]; [reflexivity|].
  cbn [ksum ksum_some ksum_none fold_right fst snd].
  fold (ksum m es). fold (ksum_some m es). fold (ksum_none m es). rewrite IH. destruct o; lia.
Qed.

Lemma wsum_marks m es : (forall bits o, In (bits, o) es -> bits <> []) ->
  forall base, wsum m (marks base es) = ksum_none m es.
Proof.
  induction es as [|[bits o] es IH]; intros Hne base; [reflexivity|].
  assert (Hne' : forall b o', In (b, o') es -> b <> []) by (intros b o' H; apply (Hne b o'); right; exact H).
  destruct o as [s|]; cbn [marks ksum_none fold_right fst snd]; fold (ksum_none m es).
  - rewrite IH by exact Hne'. lia.
  - cbn [wsum fold_right]. fold (wsum m (marks (base + 1) es)). rewrite IH by exact Hne'.
    rewrite keep_code_of by (apply (Hne bits None); left; reflexivity).
    unfold code_of, c_len. cbn [fst snd]. reflexivity.
Qed.

(* writing a kept code over a zero slot adds its weight *)
Lemma wsum_aset m H s c : aget H s = Some zero_code ->
  forall H', aset H s c = Some H' -> wsum m H' = wsum m H + (if keep c then 2 ^ (m - c_len c) else 0).
Proof.
  intros Hz H' Hs. pose proof (aget_some_lt _ _ _ Hz) as Hlt.
  rewrite aget_nth in Hz.
  assert (HH : H = firstn (N.to_nat s) H ++ zero_code :: skipn (S (N.to_nat s)) H).
  { rewrite <- (firstn_skipn (N.to_nat s) H) at 1. f_equal.
    rewrite (skipn_nth_cons H zero_code (N.to_nat s) Hlt).
    rewrite (nth_error_nth _ _ zero_code Hz). reflexivity. }
  assert (EH : Some H' = Some (firstn (N.to_nat s) H ++ c :: skipn (S (N.to_nat s)) H)).
  { rewrite <- Hs, aset_spec. apply Nat.ltb_lt in Hlt. rewrite Hlt. reflexivity. }
  set (A := firstn (N.to_nat s) H) in *. set (B := skipn (S (N.to_nat s)) H) in *.
  assert (EH' : H' = A ++ c :: B) by congruence.
  assert (E : wsum m H = wsum m A + wsum m B).
  { rewrite HH at 1. rewrite wsum_app, wsum_cons. change (keep zero_code) with false. cbv iota. lia. }
  rewrite E, EH', wsum_app, wsum_cons. lia.
Qed.

Lemma wsum_somes m es : forall H,
  (forall bits s, In (bits, Some s) es -> aget H s = Some zero_code) ->
  NoDup (some_syms es) -> (forall bits o, In (bits, o) es -> bits <> []) ->
  wsum m (somes H es) = wsum m H + ksum_some m es.
Proof.
  induction es as [|[bits o] es IH]; intros H Hz Hnd Hne; [unfold somes, ksum_some; cbn [fold_left fold_right]; lia|].
  cbn [somes fold_left]. fold (somes (some_step H (bits, o)) es).
  assert (Hne' : forall b o', In (b, o') es -> b <> []) by (intros b o' Hi; apply (Hne b o'); right; exact Hi).
  cbn [ksum_some fold_right fst snd]. fold (ksum_some m es).
  unfold some_syms in Hnd. cbn [flat_map snd] in Hnd. fold (some_syms es) in Hnd.
  destruct o as [s|].
  - cbn [app] in Hnd. inversion Hnd as [|? ? Hnin Hnd']; subst.
    unfold some_step. cbn [snd fst].
    assert (Hzs : aget H s = Some zero_code) by (apply (Hz bits); left; reflexivity).
    destruct (aset_some H s (code_of s bits) (aget_some_lt _ _ _ Hzs)) as (H' & HH' & _ & _ & Hg2).
    rewrite HH'. rewrite IH; [| |exact Hnd'|exact Hne'].
    + rewrite (wsum_aset m H s (code_of s bits) Hzs H' HH').
      rewrite keep_code_of by (apply (Hne bits (Some s)); left; reflexivity).
      unfold code_of, c_len. cbn [fst snd]. lia.
    + intros b' s' Hin'. rewrite Hg2.
      * apply (Hz b'). right. exact Hin'.
      * intros ->. apply Hnin. apply (some_syms_in es b'). exact Hin'.
  - unfold some_step. cbn [snd]. rewrite IH; [lia | | exact Hnd | exact Hne'].
    intros b' s' Hin'. apply (Hz b'). right. exact Hin'.
Qed.

Lemma wsum_zero m n : wsum m (repeat zero_code n) = 0.
Proof. induction n as [|n IH]; [reflexivity|]. cbn [repeat wsum fold_right]. fold (wsum m (repeat zero_code n)). rewrite IH. reflexivity. Qed.

Theorem final_kraft m es : emits_ok es -> kraft m (map fst (final es)) = ksum m es.
Proof.
  intros Hok. rewrite <- wsum_kraft.
  - rewrite (final_split es Hok), wsum_app, !wsum_filter.
    rewrite (wsum_marks m es (eo_ne es Hok)).
    rewrite wsum_somes; [| | apply (eo_syms es Hok) | apply (eo_ne es Hok)].
    + rewrite wsum_zero, ksum_parts. lia.
    + intros bits s Hin. apply aget_repeat. pose proof (eo_lt es Hok bits s Hin). lia.
  - intros c Hc. unfold final in Hc. apply filter_In in Hc. apply Hc.
Qed.
