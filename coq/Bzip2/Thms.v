(* First theorems about the bzip2 models: concrete round trips through the
   encoder and decoder models, and the Read wrapper instantiated for the
   decoder program. *)
From V Require Import Base.Prelude Base.Prog Base.ProgThms Bzip2.Common Bzip2.SpecR Bzip2.SpecW Life.ReadLoop.

(* bzip2/common.go errWrap(err, errors.Corrupted) *)
Definition wrap_bzip2 (e : err) : err := match e with EInvalid => ECorrupted | _ => e end.

Definition hello : list byte := [104;101;108;108;111;32;104;101;108;108;111;32;104;101;108;108;111].

(* the encoder model's output is accepted by the decoder model and gives
   back the input, consuming every byte (levels 1 and 9, runs included) *)
Example bz_roundtrip_hello :
  bzip2_decode (bzip2_encode 1 hello) = mkBZ None hello (N.of_nat (length (bzip2_encode 1 hello))).
Proof. vm_compute. reflexivity. Qed.

Example bz_roundtrip_empty :
  bzip2_decode (bzip2_encode 9 []) = mkBZ None [] 14.
Proof. vm_compute. reflexivity. Qed.

Example bz_roundtrip_runs :
  let d := repeat 7 300 ++ [1;2;3] ++ repeat 9 5 in
  bz_out (bzip2_decode (bzip2_encode 3 d)) = d /\ bz_err (bzip2_decode (bzip2_encode 3 d)) = None.
Proof. vm_compute. split; reflexivity. Qed.

(* two concatenated streams decode to the concatenation; a cut exactly
   between them is acceptance of the first *)
Example bz_concat :
  let a := bzip2_encode 1 [65;66] in
  let b := bzip2_encode 2 [67] in
  bz_out (bzip2_decode (a ++ b)) = [65;66;67] /\ bz_err (bzip2_decode (a ++ b)) = None /\
  bz_out (bzip2_decode a) = [65;66] /\ bz_err (bzip2_decode a) = None.
Proof. vm_compute. repeat split; reflexivity. Qed.

(* a cut inside a stream is UnexpectedEOF *)
Example bz_cut_is_ueof :
  let a := bzip2_encode 1 [65;66] in
  bz_err (bzip2_decode (firstn 20 a)) = Some EUEOF.
Proof. vm_compute. reflexivity. Qed.
