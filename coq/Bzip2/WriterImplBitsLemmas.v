(* Lemmas for Bzip2/WriterImplBits.v (the bits of the abstract bzip2 Writer are
   SpecW.bzip2_encode):

   A. bit fields: [fields_app] of FBits/FSym-only lists is concatenation of [field_bits];
   B. every writer function of SpecW is linear in its accumulator and its bits (reversed)
      are the bits of the corresponding field list of Bzip2/WriterImpl.v;
   C. the incremental RLE1 stage [rle_write] against [rle1_fill]; append lemmas;
   D. [pack_msb] against [pack true]. *)
From V Require Import Base.Prelude Bzip2.Common Bzip2.SpecW Bzip2.Rle1 Prefix.ReaderImpl Prefix.ReaderSpec
  Prefix.WriterImpl Prefix.WriterSpec Prefix.WriterFields Bzip2.WriterImpl Bzip2.WriterImplSpec
  Bzip2.SortLemmas.

Local Open Scope N_scope.

(* ======================================================================================= *)
(* A. fields                                                                                *)
(* ======================================================================================= *)
Definition bits_of (fs : list field) : list bool := concat (map field_bits fs).

Definition is_bits (f : field) : Prop := match f with FPads => False | _ => True end.
Definition nopads (fs : list field) : Prop := Forall is_bits fs.

Lemma fields_app_app bits a b : fields_app bits (a ++ b) = fields_app (fields_app bits a) b.
Proof. unfold fields_app. apply fold_left_app. Qed.

Lemma fields_app_nil bits : fields_app bits [] = bits.
Proof. reflexivity. Qed.

Lemma fields_app_cons bits f fs : fields_app bits (f :: fs) = fields_app (field_app bits f) fs.
Proof. reflexivity. Qed.

Lemma field_app_bits bits f : is_bits f -> field_app bits f = bits ++ field_bits f.
Proof. destruct f; cbn [is_bits field_app field_bits]; intros H; [reflexivity | reflexivity | contradiction]. Qed.

Lemma bits_of_nil : bits_of [] = [].
Proof. reflexivity. Qed.

Lemma bits_of_cons f fs : bits_of (f :: fs) = field_bits f ++ bits_of fs.
Proof. reflexivity. Qed.

Lemma bits_of_app a b : bits_of (a ++ b) = bits_of a ++ bits_of b.
Proof. unfold bits_of. rewrite map_app, concat_app. reflexivity. Qed.

Lemma fields_app_nopads fs : nopads fs -> forall bits, fields_app bits fs = bits ++ bits_of fs.
Proof.
  induction fs as [|f fs IH]; intros Hn bits.
  - cbn. rewrite app_nil_r. reflexivity.
  - inversion Hn as [|f' fs' Hf Hfs]; subst f' fs'.
    rewrite fields_app_cons, (IH Hfs), bits_of_cons, (field_app_bits _ _ Hf), <- app_assoc. reflexivity.
Qed.

Lemma field_bits_fbits l : field_bits (fbits l) = l.
Proof. unfold fbits. cbn [field_bits]. rewrite Nat2N.id. apply val_bits_bits_val. Qed.

Lemma field_bits_fsym l : field_bits (fsym l) = l.
Proof. unfold fsym. cbn [field_bits]. rewrite Nat2N.id. apply val_bits_bits_val. Qed.

Lemma field_app_fbits bits l : field_app bits (fbits l) = bits ++ l.
Proof. rewrite field_app_bits by exact I. rewrite field_bits_fbits. reflexivity. Qed.

Lemma field_app_fsym bits l : field_app bits (fsym l) = bits ++ l.
Proof. rewrite field_app_bits by exact I. rewrite field_bits_fsym. reflexivity. Qed.

Lemma nopads_nil : nopads [].
Proof. constructor. Qed.

Lemma nopads_cons f fs : is_bits f -> nopads fs -> nopads (f :: fs).
Proof. intros H1 H2. constructor; assumption. Qed.

Lemma nopads_app a b : nopads a -> nopads b -> nopads (a ++ b).
Proof. intros H1 H2. apply Forall_app. split; assumption. Qed.

Lemma nopads_repeat f n : is_bits f -> nopads (repeat f n).
Proof. intros H. induction n as [|n IH]; cbn [repeat]; constructor; assumption. Qed.

Lemma nopads_rev fs : nopads fs -> nopads (rev fs).
Proof. intros H. apply Forall_rev. exact H. Qed.

Lemma nopads_flat_map {A} (g : A -> list field) l : (forall x, nopads (g x)) -> nopads (flat_map g l).
Proof.
  intros H. induction l as [|x l IH]; cbn [flat_map]; [constructor|]. apply nopads_app; [apply H | exact IH].
Qed.

Lemma nopads_map {A} (g : A -> field) l : (forall x, is_bits (g x)) -> nopads (map g l).
Proof. intros H. induction l as [|x l IH]; cbn [map]; constructor; [apply H | exact IH]. Qed.

(* ======================================================================================= *)
(* B. the writers of SpecW and the field lists                                              *)
(* ======================================================================================= *)
Lemma wbits_acc n v : forall acc, wbits n v acc = wbits n v [] ++ acc.
Proof.
  induction n as [|n IH]; intros acc; cbn [wbits]; [reflexivity|].
  rewrite (IH (N.testbit v (N.of_nat n) :: acc)), (IH [N.testbit v (N.of_nat n)]), <- app_assoc.
  reflexivity.
Qed.

Lemma wbits_length n v : length (wbits n v []) = n.
Proof.
  induction n as [|n IH]; cbn [wbits]; [reflexivity|].
  rewrite wbits_acc, app_length, IH. cbn [length]. lia.
Qed.

Lemma msb_bits_rev n v : msb_bits n v = rev (wbits n v []).
Proof. unfold msb_bits. apply fast_rev_eq. Qed.

Lemma msb_bits_length n v : length (msb_bits n v) = n.
Proof. rewrite msb_bits_rev, rev_length. apply wbits_length. Qed.

Lemma nopads_be_fields v nb : nopads (be_fields v nb).
Proof. unfold be_fields. destruct (nb <=? 32); repeat constructor. Qed.

Lemma be_fields_small v nb : nb <= 32 -> be_fields v nb = [fbits (msb_bits (N.to_nat nb) v)].
Proof. intros H. unfold be_fields. apply N.leb_le in H. rewrite H. reflexivity. Qed.

Lemma bits_of_be_small v nb n :
  nb <= 32 -> N.to_nat nb = n -> bits_of (be_fields v nb) = rev (wbits n v []).
Proof.
  intros H E. subst n. rewrite (be_fields_small _ _ H). unfold bits_of. cbn [map concat].
  rewrite app_nil_r, field_bits_fbits. apply msb_bits_rev.
Qed.

(* the two 48-bit constants: 32 + 16 bits *)
Lemma bits_of_be_blkMagic : bits_of (be_fields blkMagic 48) = rev (wbits 48 blkMagic []).
Proof. vm_compute. reflexivity. Qed.

Lemma bits_of_be_endMagic : bits_of (be_fields endMagic 48) = rev (wbits 48 endMagic []).
Proof. vm_compute. reflexivity. Qed.

(* ---- header, block head, footer ------------------------------------------------------- *)
Lemma nopads_hdr_fields level : nopads (hdr_fields level).
Proof. unfold hdr_fields. repeat apply nopads_app; apply nopads_be_fields. Qed.

Lemma bits_of_hdr_fields level :
  bits_of (hdr_fields level) = rev (wbits 8 (48 + level) (wbits 8 104 (wbits 16 hdrMagic []))).
Proof.
  unfold hdr_fields. rewrite !bits_of_app.
  rewrite (bits_of_be_small hdrMagic 16 16), (bits_of_be_small 104 8 8), (bits_of_be_small (48 + level) 8 8)
    by (first [reflexivity | lia]).
  rewrite (wbits_acc 8 (48 + level)), (wbits_acc 8 104), !rev_app_distr, <- !app_assoc. reflexivity.
Qed.

Lemma nopads_block_head_fields crc : nopads (block_head_fields crc).
Proof. unfold block_head_fields. repeat apply nopads_app; apply nopads_be_fields. Qed.

Lemma bits_of_block_head_fields crc :
  bits_of (block_head_fields crc) = rev (wbits 1 0 (wbits 32 crc (wbits 48 blkMagic []))).
Proof.
  unfold block_head_fields. rewrite !bits_of_app, bits_of_be_blkMagic.
  rewrite (bits_of_be_small crc 32 32), (bits_of_be_small 0 1 1) by (first [reflexivity | lia]).
  rewrite (wbits_acc 1 0), (wbits_acc 32 crc), !rev_app_distr, <- !app_assoc. reflexivity.
Qed.

(* the footer without its final FPads *)
Definition footer_head (endCRC : N) : list field := be_fields endMagic 48 ++ be_fields endCRC 32.

Lemma footer_fields_split endCRC : footer_fields endCRC = footer_head endCRC ++ [FPads].
Proof. unfold footer_fields, footer_head. rewrite <- app_assoc. reflexivity. Qed.

Lemma nopads_footer_head c : nopads (footer_head c).
Proof. unfold footer_head. apply nopads_app; apply nopads_be_fields. Qed.

Lemma bits_of_footer_head c :
  bits_of (footer_head c) = rev (wbits 32 c (wbits 48 endMagic [])).
Proof.
  unfold footer_head. rewrite bits_of_app, bits_of_be_endMagic.
  rewrite (bits_of_be_small c 32 32) by (first [reflexivity | lia]).
  rewrite (wbits_acc 32 c), rev_app_distr. reflexivity.
Qed.

(* ---- symbol map -------------------------------------------------------------------------- *)
Lemma fold_push {A} (g : A -> bool) l : forall acc,
  fold_left (fun a r => g r :: a) l acc = rev (map g l) ++ acc.
Proof.
  induction l as [|x l IH]; intros acc; cbn [fold_left map rev]; [reflexivity|].
  rewrite IH, <- app_assoc. reflexivity.
Qed.

Lemma symrows_bits (g : N -> bool) (h : N -> N -> bool) cols rows : forall acc,
  fold_left (fun a r => if g r then fold_left (fun a2 j => h r j :: a2) cols a else a) rows acc =
  rev (bits_of (flat_map (fun r => if g r then [fbits (map (h r) cols)] else []) rows)) ++ acc.
Proof.
  induction rows as [|r rows IH]; intros acc; cbn [fold_left flat_map]; [reflexivity|].
  rewrite IH, bits_of_app, rev_app_distr, <- app_assoc. f_equal.
  destruct (g r).
  - rewrite fold_push. unfold bits_of. cbn [map concat]. rewrite app_nil_r, field_bits_fbits. reflexivity.
  - reflexivity.
Qed.

Lemma nopads_symmap_fields used : nopads (symmap_fields used).
Proof.
  unfold symmap_fields. apply nopads_cons; [exact I|].
  apply nopads_flat_map. intros r. destruct (row_used used r); repeat constructor.
Qed.

Lemma write_symbol_map_bits used acc :
  write_symbol_map used acc = rev (bits_of (symmap_fields used)) ++ acc.
Proof.
  unfold write_symbol_map, symmap_fields. cbv zeta.
  rewrite fold_push.
  rewrite (symrows_bits (fun r => existsb (fun j => is_used used (16 * r + j)) (iota 16))
                        (fun r j => is_used used (16 * r + j)) (iota 16) (iota 16)).
  rewrite bits_of_cons, field_bits_fbits, rev_app_distr, <- app_assoc. reflexivity.
Qed.

(* ---- selectors ------------------------------------------------------------------------------ *)
Lemma repeat_acc_app {A} n (x : A) : forall acc, repeat_acc n x acc = repeat x n ++ acc.
Proof.
  induction n as [|n IH]; intros acc; cbn [repeat_acc repeat app]; [reflexivity|].
  rewrite IH. change (x :: acc) with ([x] ++ acc). rewrite app_assoc, <- repeat_cons. reflexivity.
Qed.

Lemma write_unary_acc j acc : write_unary j acc = write_unary j [] ++ acc.
Proof.
  unfold write_unary. rewrite (repeat_acc_app _ _ acc), (repeat_acc_app _ _ []), app_nil_r. reflexivity.
Qed.

Lemma field_bits_sel_field j : field_bits (sel_field j) = rev (write_unary j []).
Proof. unfold sel_field. rewrite field_bits_fbits. apply fast_rev_eq. Qed.

Lemma sels_bits l : forall acc,
  fold_left (fun a j => write_unary j a) l acc = rev (bits_of (map sel_field l)) ++ acc.
Proof.
  induction l as [|j l IH]; intros acc; cbn [fold_left map]; [reflexivity|].
  rewrite IH, bits_of_cons, field_bits_sel_field, rev_app_distr, rev_involutive, <- app_assoc.
  rewrite <- write_unary_acc. reflexivity.
Qed.

(* ---- code lengths ------------------------------------------------------------------------------ *)
Lemma iter_pair (p q : bool) n : forall a,
  Nat.iter n (fun x => p :: q :: x) a = concat (repeat [p; q] n) ++ a.
Proof.
  induction n as [|n IH]; intros a; [reflexivity|].
  change (Nat.iter (S n) (fun x => p :: q :: x) a) with (p :: q :: Nat.iter n (fun x => p :: q :: x) a).
  rewrite IH. reflexivity.
Qed.

Lemma concat_repeat_snoc {A} (l : list A) n : concat (repeat l n) ++ l = l ++ concat (repeat l n).
Proof.
  induction n as [|n IH]; cbn [repeat concat]; [rewrite app_nil_r; reflexivity|].
  rewrite <- app_assoc, IH. reflexivity.
Qed.

Lemma rev_concat_repeat2 (p q : bool) n : rev (concat (repeat [p; q] n)) = concat (repeat [q; p] n).
Proof.
  induction n as [|n IH]; cbn [repeat concat]; [reflexivity|].
  rewrite rev_app_distr, IH. cbn [rev app]. exact (concat_repeat_snoc [q; p] n).
Qed.

Lemma bits_of_repeat f n : bits_of (repeat f n) = concat (repeat (field_bits f) n).
Proof. unfold bits_of. induction n as [|n IH]; cbn [repeat map concat]; [reflexivity | rewrite IH; reflexivity]. Qed.

Lemma nopads_lens_moves lens : forall clen, nopads (lens_moves clen lens).
Proof.
  induction lens as [|l r IH]; intros clen; cbn [lens_moves]; [constructor|].
  apply nopads_app.
  - destruct (l <? clen); apply nopads_repeat; exact I.
  - apply nopads_cons; [exact I | apply IH].
Qed.

Lemma lens_moves_bits lens : forall clen a,
  snd (fold_left
    (fun (st : N * list bool) l =>
       let clen := fst st in
       let a := snd st in
       let a := if l <? clen then N.iter (clen - l) (fun x => true :: true :: x) a
                else N.iter (l - clen) (fun x => false :: true :: x) a in
       (l, false :: a))
    lens (clen, a)) = rev (bits_of (lens_moves clen lens)) ++ a.
Proof.
  induction lens as [|l r IH]; intros clen a; cbn [fold_left lens_moves]; [reflexivity|].
  cbv zeta. cbn [fst snd]. rewrite IH, bits_of_app, bits_of_cons, !rev_app_distr, <- !app_assoc.
  f_equal. change (field_bits (FBits 0 1)) with [false]. cbn [rev app]. f_equal.
  destruct (l <? clen).
  - rewrite bits_of_repeat, N2Nat.inj_iter, iter_pair. change (field_bits (FBits 3 2)) with [true; true].
    rewrite rev_concat_repeat2. reflexivity.
  - rewrite bits_of_repeat, N2Nat.inj_iter, iter_pair. change (field_bits (FBits 1 2)) with [true; false].
    rewrite rev_concat_repeat2. reflexivity.
Qed.

Lemma nopads_lens_fields lens : nopads (lens_fields lens).
Proof. unfold lens_fields. cbv zeta. apply nopads_app; [apply nopads_be_fields | apply nopads_lens_moves]. Qed.

Lemma write_lens_bits lens acc : write_lens lens acc = rev (bits_of (lens_fields lens)) ++ acc.
Proof.
  unfold write_lens, lens_fields. cbv zeta. rewrite lens_moves_bits, bits_of_app, rev_app_distr, <- app_assoc.
  rewrite (bits_of_be_small (hd 0 lens) 5 5) by (first [reflexivity | lia]).
  rewrite rev_involutive, <- wbits_acc. reflexivity.
Qed.

Lemma all_lens_bits ll : forall acc,
  fold_left (fun a l => write_lens l a) ll acc = rev (bits_of (flat_map lens_fields ll)) ++ acc.
Proof.
  induction ll as [|l ll IH]; intros acc; cbn [fold_left flat_map]; [reflexivity|].
  rewrite IH, bits_of_app, rev_app_distr, <- app_assoc, <- write_lens_bits. reflexivity.
Qed.

(* ---- data symbols --------------------------------------------------------------------------------- *)
Lemma is_bits_code_field codes s : is_bits (code_field codes s).
Proof. unfold code_field. destruct (nm_getd codes s (0, 0)) as [l c]. exact I. Qed.

Lemma write_code_bits codes s acc :
  write_code codes s acc = rev (field_bits (code_field codes s)) ++ acc.
Proof.
  unfold write_code, code_field. destruct (nm_getd codes s (0, 0)) as [l c].
  rewrite field_bits_fsym, msb_bits_rev, rev_involutive. apply wbits_acc.
Qed.

Section Codes.
  Variable numTrees : N.
  Variable codes : nmap (nmap (N * N)).

  Fixpoint code_fields (i : N) (syms : list N) : list field :=
    match syms with
    | [] => []
    | s :: r => code_field (nm_getd codes ((i / numBlockSyms) mod numTrees) nm_empty) s :: code_fields (i + 1) r
    end.

  Lemma nopads_code_fields syms : forall i, nopads (code_fields i syms).
  Proof.
    induction syms as [|s r IH]; intros i; cbn [code_fields]; [constructor|].
    apply nopads_cons; [apply is_bits_code_field | apply IH].
  Qed.

  Lemma code_fields_fold syms : forall i fa,
    snd (fold_left
      (fun (st : N * list field) s =>
         let tree := (fst st / numBlockSyms) mod numTrees in
         (fst st + 1, code_field (nm_getd codes tree nm_empty) s :: snd st))
      syms (i, fa)) = rev (code_fields i syms) ++ fa.
  Proof.
    induction syms as [|s r IH]; intros i fa; cbn [fold_left code_fields]; [reflexivity|].
    cbv zeta. cbn [fst snd]. rewrite IH. cbn [rev]. rewrite <- app_assoc. reflexivity.
  Qed.

  Lemma code_bits_fold syms : forall i acc,
    snd (fold_left
      (fun (st : N * list bool) s =>
         let tree := (fst st / numBlockSyms) mod numTrees in
         (fst st + 1, write_code (nm_getd codes tree nm_empty) s (snd st)))
      syms (i, acc)) = rev (bits_of (code_fields i syms)) ++ acc.
  Proof.
    induction syms as [|s r IH]; intros i acc; cbn [fold_left code_fields]; [reflexivity|].
    cbv zeta. cbn [fst snd]. rewrite IH, bits_of_cons, rev_app_distr, <- app_assoc, <- write_code_bits.
    reflexivity.
  Qed.
End Codes.

(* ---- encodePrefix -------------------------------------------------------------------------------------- *)
Lemma prefix_fields_eq syms0 nDict :
  prefix_fields syms0 nDict =
  let numSyms := nDict + 2 in
  let syms := app_tr syms0 [numSyms - 1] in
  let n := len_n syms in
  let numTrees := num_trees n in
  let numSels := (n + numBlockSyms - 1) / numBlockSyms in
  let sels := map_tr (fun i => i mod numTrees) (iota numSels) in
  let counts := tree_counts syms numTrees in
  let lens := map (tree_lens counts numSyms) (iota numTrees) in
  let codes := nm_of_list (map canonical_codes lens) in
  be_fields numTrees 3 ++ be_fields numSels 15 ++
  map sel_field (mtf_encode_sels sels) ++
  flat_map lens_fields lens ++ code_fields numTrees codes 0 syms.
Proof.
  unfold prefix_fields. cbv zeta. rewrite fast_rev_eq, code_fields_fold, app_nil_r, rev_involutive.
  reflexivity.
Qed.

Lemma nopads_prefix_fields syms0 nDict : nopads (prefix_fields syms0 nDict).
Proof.
  rewrite prefix_fields_eq. cbv zeta.
  repeat apply nopads_app; try apply nopads_be_fields.
  - apply nopads_map. intros x. exact I.
  - apply nopads_flat_map. apply nopads_lens_fields.
  - apply nopads_code_fields.
Qed.

Lemma encode_prefix_bits syms0 nDict acc :
  encode_prefix syms0 nDict acc = rev (bits_of (prefix_fields syms0 nDict)) ++ acc.
Proof.
  rewrite prefix_fields_eq. unfold encode_prefix. cbv zeta.
  rewrite code_bits_fold, all_lens_bits, sels_bits.
  rewrite !bits_of_app, !rev_app_distr, <- !app_assoc.
  do 3 f_equal.
  rewrite (bits_of_be_small _ 15 15), (bits_of_be_small _ 3 3) by (first [reflexivity | lia]).
  rewrite !rev_involutive, <- !wbits_acc. reflexivity.
Qed.

(* ---- one block ---------------------------------------------------------------------------------------------- *)
Lemma nopads_block_body_fields blk : nopads (block_body_fields blk).
Proof.
  unfold block_body_fields. destruct (bwt_encode blk) as [bwt ptr]. cbv zeta.
  apply nopads_app; [apply nopads_be_fields|].
  apply nopads_app; [apply nopads_symmap_fields | apply nopads_prefix_fields].
Qed.

Lemma encode_block_bits blk crc acc :
  encode_block blk crc acc =
  rev (bits_of (block_head_fields crc ++ block_body_fields blk)) ++ acc.
Proof.
  unfold encode_block, block_body_fields. destruct (bwt_encode blk) as [bwt ptr]. cbv zeta.
  rewrite encode_prefix_bits, write_symbol_map_bits.
  rewrite !bits_of_app, !rev_app_distr, <- !app_assoc. do 2 f_equal.
  rewrite (bits_of_be_small ptr 24 24) by (first [reflexivity | lia]).
  rewrite rev_involutive, bits_of_block_head_fields, rev_involutive.
  rewrite (wbits_acc 24 ptr), (wbits_acc 1 0 (wbits 32 crc (wbits 48 blkMagic acc))),
    (wbits_acc 32 crc (wbits 48 blkMagic acc)), (wbits_acc 48 blkMagic acc),
    (wbits_acc 1 0 (wbits 32 crc (wbits 48 blkMagic []))), (wbits_acc 32 crc (wbits 48 blkMagic [])).
  rewrite <- !app_assoc. reflexivity.
Qed.

Lemma encode_block_acc blk crc acc : encode_block blk crc acc = encode_block blk crc [] ++ acc.
Proof. rewrite (encode_block_bits blk crc acc), (encode_block_bits blk crc []), app_nil_r. reflexivity. Qed.

Lemma encode_block_fields blk crc :
  rev (encode_block blk crc []) = concat (map field_bits (block_head_fields crc ++ block_body_fields blk)).
Proof. rewrite encode_block_bits, app_nil_r, rev_involutive. reflexivity. Qed.

(* accumulator linearity of the remaining writers, as corollaries *)
Lemma write_symbol_map_acc used acc : write_symbol_map used acc = write_symbol_map used [] ++ acc.
Proof. rewrite (write_symbol_map_bits used acc), (write_symbol_map_bits used []), app_nil_r. reflexivity. Qed.

Lemma write_lens_acc lens acc : write_lens lens acc = write_lens lens [] ++ acc.
Proof. rewrite (write_lens_bits lens acc), (write_lens_bits lens []), app_nil_r. reflexivity. Qed.

Lemma write_code_acc codes s acc : write_code codes s acc = write_code codes s [] ++ acc.
Proof. rewrite (write_code_bits codes s acc), (write_code_bits codes s []), app_nil_r. reflexivity. Qed.

Lemma encode_prefix_acc syms0 nDict acc : encode_prefix syms0 nDict acc = encode_prefix syms0 nDict [] ++ acc.
Proof. rewrite (encode_prefix_bits syms0 nDict acc), (encode_prefix_bits syms0 nDict []), app_nil_r. reflexivity. Qed.


(* ======================================================================================= *)
(* C. the incremental RLE1 stage                                                            *)
(* ======================================================================================= *)
Ltac rle_split H :=
  repeat match type of H with
         | context [if ?c then _ else _] => destruct c eqn:?
         end.

Lemma rle_write_fill L : forall data s s' rest,
  rle_write L data s = (s', rest) ->
  rle1_fill L data (r_buf s) (r_idx s) (r_lastVal s) (r_lastCnt s) (r_crc s) =
  (fast_rev (r_buf s'), r_crc s', rest).
Proof.
  induction data as [|b r IH]; intros s s' rest H; cbn [rle_write rle1_fill] in H |- *.
  - inversion H; subst s' rest. reflexivity.
  - cbv zeta in H |- *.
    set (cnt := (if r_lastVal s =? b then r_lastCnt s else 0) + 1) in *.
    rle_split H; try (inversion H; subst s' rest; reflexivity); apply IH in H; exact H.
Qed.

Lemma rle_write_app_nil L : forall d1 d2 s s',
  rle_write L d1 s = (s', []) -> rle_write L (d1 ++ d2) s = rle_write L d2 s'.
Proof.
  induction d1 as [|b r IH]; intros d2 s s' H; cbn [rle_write app] in H |- *.
  - inversion H; subst s'. reflexivity.
  - cbv zeta in H |- *.
    set (cnt := (if r_lastVal s =? b then r_lastCnt s else 0) + 1) in *.
    rle_split H; try discriminate H; apply IH; exact H.
Qed.

Lemma rle_write_app_cons L : forall d1 d2 s s' b0 r0,
  rle_write L d1 s = (s', b0 :: r0) -> rle_write L (d1 ++ d2) s = (s', (b0 :: r0) ++ d2).
Proof.
  induction d1 as [|b r IH]; intros d2 s s' b0 r0 H; cbn [rle_write app] in H |- *.
  - discriminate H.
  - cbv zeta in H |- *.
    set (cnt := (if r_lastVal s =? b then r_lastCnt s else 0) + 1) in *.
    rle_split H; try (inversion H; subst s' b0 r0; reflexivity); apply IH; exact H.
Qed.

Lemma rle_write_consumed L : forall data s s' rest,
  rle_write L data s = (s', rest) -> exists consumed, data = consumed ++ rest.
Proof.
  induction data as [|b r IH]; intros s s' rest H; cbn [rle_write] in H.
  - inversion H; subst s' rest. exists []. reflexivity.
  - cbv zeta in H.
    set (cnt := (if r_lastVal s =? b then r_lastCnt s else 0) + 1) in *.
    rle_split H; try (inversion H; subst s' rest; exists []; reflexivity);
      (apply IH in H; destruct H as [c Hc]; exists (b :: c); rewrite Hc at 1; reflexivity).
Qed.

Lemma rle_write_rest_length L data s s' rest :
  rle_write L data s = (s', rest) -> (length rest <= length data)%nat.
Proof.
  intros H. destruct (rle_write_consumed L data s s' rest H) as [c Hc].
  rewrite Hc, app_length. lia.
Qed.

Lemma bump_head_nonempty l : l <> [] -> bump_head l <> [].
Proof. destruct l; [intros H; contradiction | intros _; discriminate]. Qed.

Lemma rle_write_buf_nonempty L : forall data s s' rest,
  rle_write L data s = (s', rest) -> r_buf s <> [] -> r_buf s' <> [].
Proof.
  induction data as [|b r IH]; intros s s' rest H Hne; cbn [rle_write] in H.
  - inversion H; subst s' rest. exact Hne.
  - cbv zeta in H.
    set (cnt := (if r_lastVal s =? b then r_lastCnt s else 0) + 1) in *.
    rle_split H; try (inversion H; subst s' rest; exact Hne);
      (apply IH in H; [exact H | cbn [r_buf]; first [discriminate | apply bump_head_nonempty; exact Hne]]).
Qed.

Lemma rle_write_init_first L b r :
  1 <= L -> rle_write L (b :: r) rle_init = rle_write L r (mkRle [b] 1 b 1 (crc_step crc_init b)).
Proof.
  intros HL. cbn [rle_write]. cbv zeta. unfold rle_init. cbn [r_buf r_idx r_lastVal r_lastCnt r_crc].
  replace ((if 0 =? b then 0 else 0) + 1) with 1 by (destruct (0 =? b); reflexivity).
  change (1 <? 4) with true. cbv iota.
  replace (L <=? 0) with false by (symmetry; apply N.leb_gt; lia).
  reflexivity.
Qed.

(* from the initial state (block size at least 1) a non-empty input stores something *)
Lemma rle_write_init_nonempty L data s' rest :
  1 <= L -> data <> [] -> rle_write L data rle_init = (s', rest) ->
  r_buf s' <> [] /\ (length rest < length data)%nat.
Proof.
  intros HL Hne H. destruct data as [|b r]; [contradiction|].
  rewrite (rle_write_init_first L b r HL) in H. split.
  - apply (rle_write_buf_nonempty L _ _ _ _ H). cbn [r_buf]. discriminate.
  - apply rle_write_rest_length in H. cbn [length]. lia.
Qed.

(* ======================================================================================= *)
(* D. packing                                                                               *)
(* ======================================================================================= *)
Lemma byte_of_bits_ord x0 x1 x2 x3 x4 x5 x6 x7 :
  byte_of_bits x0 x1 x2 x3 x4 x5 x6 x7 = ord true (bits_val [x0; x1; x2; x3; x4; x5; x6; x7]).
Proof. destruct x0, x1, x2, x3, x4, x5, x6, x7; vm_compute; reflexivity. Qed.

(* number of rounds of pack_msb: one per pad bit, one per byte *)
Definition pack_cost (n : nat) : nat := ((n + pads_at n) / 8 + pads_at n)%nat.

Lemma pads_at_8 n : pads_at (S (S (S (S (S (S (S (S n)))))))) = pads_at n.
Proof. unfold pads_at. lia. Qed.

Lemma pack_cost_8 n : pack_cost (S (S (S (S (S (S (S (S n)))))))) = S (pack_cost n).
Proof. unfold pack_cost. rewrite pads_at_8. generalize (pads_at n). intros p. lia. Qed.

Lemma pack_cost_pos n : (1 <= pack_cost (S n))%nat.
Proof. unfold pack_cost, pads_at. lia. Qed.

Lemma pack_cost_bound n : (6 <= n)%nat -> (pack_cost n <= S (S n))%nat.
Proof. unfold pack_cost, pads_at. lia. Qed.

Lemma pack_msb_pack : forall fuel bits acc,
  (pack_cost (length bits) <= fuel)%nat ->
  pack_msb fuel bits acc = rev acc ++ pack true (bits ++ repeat false (pads_at (length bits))).
Proof.
  induction fuel as [|f IH]; intros bits acc Hc.
  - destruct bits as [|x r].
    + cbn [pack_msb]. rewrite fast_rev_eq. change (pads_at (length (@nil bool))) with 0%nat.
      cbn [repeat app pack]. rewrite app_nil_r. reflexivity.
    + cbn [length] in Hc. pose proof (pack_cost_pos (length r)). lia.
  - destruct bits as [|x0 [|x1 [|x2 [|x3 [|x4 [|x5 [|x6 [|x7 r]]]]]]]].
    + cbn [pack_msb]. rewrite fast_rev_eq. change (pads_at (length (@nil bool))) with 0%nat.
      cbn [repeat app pack]. rewrite app_nil_r. reflexivity.
    + cbn [pack_msb]. rewrite IH by (vm_compute in Hc |- *; lia). reflexivity.
    + cbn [pack_msb]. rewrite IH by (vm_compute in Hc |- *; lia). reflexivity.
    + cbn [pack_msb]. rewrite IH by (vm_compute in Hc |- *; lia). reflexivity.
    + cbn [pack_msb]. rewrite IH by (vm_compute in Hc |- *; lia). reflexivity.
    + cbn [pack_msb]. rewrite IH by (vm_compute in Hc |- *; lia). reflexivity.
    + cbn [pack_msb]. rewrite IH by (vm_compute in Hc |- *; lia). reflexivity.
    + cbn [pack_msb]. rewrite IH by (vm_compute in Hc |- *; lia). reflexivity.
    + cbn [pack_msb]. cbn [length] in Hc. rewrite pack_cost_8 in Hc.
      rewrite IH by lia. cbn [rev length]. rewrite pads_at_8, <- app_assoc. cbn [app pack].
      rewrite byte_of_bits_ord. reflexivity.
Qed.

Lemma nat_of_len_n {A} (l : list A) : nat_of (len_n l) = length l.
Proof. rewrite nat_of_nat, len_n_length. apply Nat2N.id. Qed.

Lemma pack_msb_encode bits :
  (6 <= length bits)%nat ->
  pack_msb (S (S (nat_of (len_n bits)))) bits [] =
  pack true (bits ++ repeat false (pads_at (length bits))).
Proof.
  intros H. rewrite nat_of_len_n, pack_msb_pack by (apply pack_cost_bound; exact H). reflexivity.
Qed.
