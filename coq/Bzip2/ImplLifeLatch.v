(* The latch of bzip2.Reader (Bzip2/Impl.v + Bzip2/ImplLife.v): when is an error "latched" so
   that nothing can ever come out of the Reader again?  The Go code has no separate flag: Read
   first asks the RLE1 stage for bytes and looks at zr.err only when the stage delivers nothing.
   So the error is latched when zr.err != nil AND the RLE1 stage is exhausted ([stuck]).

     stuck / latched             the definitions
     bz_read_latched             Read on a latched Reader: (0, err), the state does not change
     bz_close_eq                 what Close returns and does, for every state
     rle_read_short              rle.Read fills the buffer or leaves the stage exhausted
     keepsR ...                  frame: nothing of a turn of Read's loop touches zr.rle, zr.err,
                                 InputOffset, OutputOffset before the final rle.Init(buf)
     one_round_cases             what one turn of the loop leaves behind when it fails
     bz_read_err_cases           a Read that returns an error has latched it - or was called with
                                 an empty buffer on a Reader whose error hides pending output, or
                                 (BufferedReader only) Discard came back short after a block had
                                 been decoded *)
From V Require Import Base.Prelude Bzip2.Common Prefix.Code Prefix.ReaderImpl Prefix.DecTable.
From V Require Import Bzip2.Impl Bzip2.ImplLife.
From V Require Bzip2.Degenerate.
From Coq Require Import ZifyBool ZifyN ZifyNat.

Local Open Scope N_scope.
Local Open Scope bz_scope.

(* ---- the RLE1 stage has nothing more to give ------------------------------------------------------- *)
Definition stuck (r : rlest) : Prop := r_buf r = [] /\ (r_lastCnt r <= 0)%Z.

Definition stuck_b (r : rlest) : bool :=
  match r_buf r with [] => (r_lastCnt r <=? 0)%Z | _ => false end.

Lemma stuck_b_spec r : stuck_b r = true <-> stuck r.
Proof.
  unfold stuck_b, stuck. destruct (r_buf r); split.
  - intros H. split; [reflexivity | lia].
  - intros [_ H]. lia.
  - discriminate.
  - intros [H _]. discriminate.
Qed.

Lemma stuck_init_nil : stuck (rle_init []).
Proof. split; [reflexivity | cbn; lia]. Qed.

(* zr.err = e and nothing pending in the RLE1 stage *)
Definition latched (st : bzst) (e : err) : Prop := z_err st = Some e /\ stuck (z_rle st).

(* what rle.Read says on an exhausted stage *)
Definition stuck_res (n : nat) (lastCnt : Z) : rleres :=
  match n with O => RNil | S _ => if (lastCnt =? -4)%Z then RCorrupt else RDone end.

Lemma rle_read_stuck n lastVal lastCnt acc : (lastCnt <= 0)%Z ->
  rle_read n [] lastVal lastCnt acc = ((fast_rev acc, stuck_res n lastCnt), mkRle [] lastVal lastCnt).
Proof.
  intros H. destruct n as [|n]; cbn [rle_read stuck_res]; [reflexivity|].
  destruct (lastCnt =? -4)%Z; [reflexivity|].
  replace (lastCnt <=? 0)%Z with true by lia. reflexivity.
Qed.

(* rle.Read either fills the buffer (nil) or stops on an exhausted stage (rleDone / the missing count) *)
Lemma rle_read_short : forall n buf lastVal lastCnt acc out e r',
  rle_read n buf lastVal lastCnt acc = ((out, e), r') ->
  ((length out = length acc + n)%nat /\ e = RNil) \/ (stuck r' /\ e <> RNil).
Proof.
  induction n as [|n IH]; intros buf lastVal lastCnt acc out e r' H; cbn [rle_read] in H.
  - inversion H; subst. left. rewrite fast_rev_eq, rev_length. split; [lia | reflexivity].
  - assert (Hstop : forall rr ee, (fast_rev acc, ee, rr) = (out, e, r') -> stuck rr -> ee <> RNil ->
              ((length out = length acc + S n)%nat /\ e = RNil) \/ (stuck r' /\ e <> RNil)).
    { intros rr ee Heq Hs Hne. inversion Heq; subst. right. split; assumption. }
    assert (Hrec : forall b' lv lc x, rle_read n b' lv lc (x :: acc) = (out, e, r') ->
              ((length out = length acc + S n)%nat /\ e = RNil) \/ (stuck r' /\ e <> RNil)).
    { intros b' lv lc x Hr. destruct (IH _ _ _ _ _ _ _ Hr) as [[Hl He]|Hs].
      - left. cbn [length] in Hl. split; [lia | exact He].
      - right. exact Hs. }
    destruct (lastCnt =? -4)%Z eqn:E4.
    + destruct buf as [|c r].
      * apply (Hstop _ _ H); [split; [reflexivity | cbn; lia] | discriminate].
      * destruct (0 <? c); [apply (Hrec _ _ _ _ H)|].
        destruct r as [|b r2].
        -- apply (Hstop _ _ H); [split; [reflexivity | cbn; lia] | discriminate].
        -- destruct (b =? lastVal); apply (Hrec _ _ _ _ H).
    + destruct (lastCnt <=? 0)%Z eqn:E0.
      * destruct buf as [|b r].
        -- apply (Hstop _ _ H); [split; [reflexivity | cbn; lia] | discriminate].
        -- destruct (b =? lastVal); apply (Hrec _ _ _ _ H).
      * apply (Hrec _ _ _ _ H).
Qed.

(* a non-empty buffer that comes back empty: the stage is exhausted *)
Lemma rle_read_nothing n buf lastVal lastCnt e r' :
  rle_read (S n) buf lastVal lastCnt [] = (([], e), r') -> stuck r' /\ e <> RNil.
Proof.
  intros H. destruct (rle_read_short _ _ _ _ _ _ _ _ H) as [[Hl _]|Hs].
  - cbn [length] in Hl. lia.
  - exact Hs.
Qed.

Lemma bzst_eta st :
  mkBz (z_inOff st) (z_outOff st) (z_rd st) (z_err st) (z_level st) (z_hdrftr st) (z_blkCRC st)
       (z_endCRC st) (z_crc st) (z_rle st) (z_trees st) = st.
Proof. destruct st; reflexivity. Qed.

Lemma set_rle_same st : set_rle st (z_rle st) = st.
Proof. destruct st; reflexivity. Qed.

Lemma set_err_same st e : z_err st = e -> set_err st e = st.
Proof. intros <-. destruct st; reflexivity. Qed.

Lemma rlest_eta r : mkRle (r_buf r) (r_lastVal r) (r_lastCnt r) = r.
Proof. destruct r; reflexivity. Qed.

(* ---- Read on a latched Reader ------------------------------------------------------------------------ *)
Lemma drain_latched st n e : latched st e -> drain st n = inl (([], Some e), st).
Proof.
  intros [He [Hb Hc]]. unfold drain. rewrite Hb, (rle_read_stuck n _ _ [] Hc).
  cbn [fast_rev rev_append].
  assert (Hs : set_rle st (mkRle [] (r_lastVal (z_rle st)) (r_lastCnt (z_rle st))) = st).
  { rewrite <- Hb, rlest_eta. apply set_rle_same. }
  rewrite Hs, He. destruct (stuck_res n _); rewrite ?He; reflexivity.
Qed.

Lemma bz_read_latched st n e : latched st e -> bz_read st n = (([], Some e), st).
Proof. intros H. unfold bz_read. rewrite (drain_latched st n e H). reflexivity. Qed.

(* ---- Close ---------------------------------------------------------------------------------------------- *)
(* what Close makes of the latched error, and what it returns *)
Definition closed_class (e : err) : err := match e with EEOF => EClosed | EClosed => EClosed | _ => e end.
Definition close_ret (e : err) : option err := match e with EEOF => None | EClosed => None | _ => Some e end.
(* io.EOF or the closed error: the two errors Close treats as "done" *)
Definition is_done (e : err) : bool := match e with EEOF => true | EClosed => true | _ => false end.

Lemma closed_class_idem e : closed_class (closed_class e) = closed_class e.
Proof. destruct e; reflexivity. Qed.

Lemma close_ret_closed e : close_ret (closed_class e) = close_ret e.
Proof. destruct e; reflexivity. Qed.

Lemma bz_close_none st : z_err st = None -> bz_close st = (None, st).
Proof. intros H. unfold bz_close. rewrite H. reflexivity. Qed.

Lemma bz_close_eq st e : z_err st = Some e ->
  bz_close st = (close_ret e,
                 if is_done e then set_err (set_rle st (rle_init [])) (Some EClosed) else st).
Proof. intros H. unfold bz_close. rewrite H. destruct e; reflexivity. Qed.

Lemma bz_close_latched st e : latched st e ->
  fst (bz_close st) = close_ret e /\ latched (snd (bz_close st)) (closed_class e).
Proof.
  intros [He Hs]. rewrite (bz_close_eq st e He). cbn [fst snd]. split; [reflexivity|].
  destruct e; cbn [is_done closed_class]; try (split; [exact He | exact Hs]);
    (split; [reflexivity | exact stuck_init_nil]).
Qed.

(* after Close on io.EOF / closed the Reader is latched on the closed error whatever the RLE1
   stage held *)
Lemma bz_close_done_latched st e : z_err st = Some e -> is_done e = true ->
  latched (snd (bz_close st)) EClosed.
Proof.
  intros He Hd. rewrite (bz_close_eq st e He), Hd. cbn [snd]. split; [reflexivity | exact stuck_init_nil].
Qed.

(* ---- frame: what a turn of Read's loop cannot touch --------------------------------------------------- *)
Definition frameR (st st' : bzst) : Prop :=
  z_rle st' = z_rle st /\ z_err st' = z_err st /\ z_inOff st' = z_inOff st /\ z_outOff st' = z_outOff st.

Lemma frameR_refl st : frameR st st.
Proof. repeat split. Qed.

Lemma frameR_trans a b c : frameR a b -> frameR b c -> frameR a c.
Proof. intros (A1 & A2 & A3 & A4) (B1 & B2 & B3 & B4). repeat split; congruence. Qed.

Definition keepsR {A} (m : M A) : Prop := forall st r st', m st = (r, st') -> frameR st st'.

Lemma keepsR_ret {A} (a : A) : keepsR (ret a).
Proof. intros st r st' H. unfold ret in H. inversion H; subst. apply frameR_refl. Qed.

Lemma keepsR_throw {A} (e : err) : keepsR (@throw A e).
Proof. intros st r st' H. unfold throw in H. inversion H; subst. apply frameR_refl. Qed.

Lemma keepsR_corrupted {A} : keepsR (@corrupted A).
Proof. unfold corrupted. apply keepsR_throw. Qed.

Lemma keepsR_mget : keepsR mget.
Proof. intros st r st' H. unfold mget in H. inversion H; subst. apply frameR_refl. Qed.

Lemma keepsR_lift {A} (x : res A) : keepsR (lift x).
Proof. intros st r st' H. unfold lift in H. inversion H; subst. apply frameR_refl. Qed.

Lemma keepsR_mupd (u : bzst -> bzst) : (forall st, frameR st (u st)) -> keepsR (mupd u).
Proof. intros Hu st r st' H. unfold mupd in H. inversion H; subst. apply Hu. Qed.

Lemma keepsR_bind {A B} (m : M A) (f : A -> M B) :
  keepsR m -> (forall a, keepsR (f a)) -> keepsR (mbind m f).
Proof.
  intros Hm Hf st r st' H. unfold mbind in H.
  destruct (m st) as [[a|e] st1] eqn:Em.
  - apply Hf in H. apply Hm in Em. eapply frameR_trans; eassumption.
  - inversion H; subst. eapply Hm. exact Em.
Qed.

Lemma keepsR_iterM {S R} (d : nat) (body : S -> M (S + R)) :
  (forall s, keepsR (body s)) -> forall s, keepsR (iterM d body s).
Proof.
  intros Hb. induction d as [|d IH]; intros s; cbn [iterM]; [apply Hb|].
  apply keepsR_bind; [apply IH|]. intros [s'|x]; [apply IH | apply keepsR_ret].
Qed.

Lemma keepsR_loopM {S R} (d : nat) (body : S -> M (S + R)) :
  (forall s, keepsR (body s)) -> forall s, keepsR (loopM d body s).
Proof.
  intros Hb s. unfold loopM. apply keepsR_bind; [apply keepsR_iterM; exact Hb|].
  intros [s'|x]; [apply keepsR_throw | apply keepsR_ret].
Qed.

Lemma frameR_set_rd st p : frameR st (set_rd st p).
Proof. repeat split. Qed.

Lemma keepsR_read_bits nb : keepsR (m_read_bits nb).
Proof.
  intros st r st' H. unfold m_read_bits in H.
  destruct (read_bits (z_rd st) nb) as [o p']. destruct o as [v|]; inversion H; subst; apply frameR_set_rd.
Qed.

Lemma keepsR_bits_fast nb : keepsR (m_bits_fast nb).
Proof.
  intros st r st' H. unfold m_bits_fast in H.
  destruct (try_read_bits (z_rd st) nb) as [o p']. destruct o as [v|].
  - inversion H; subst; apply frameR_set_rd.
  - apply keepsR_read_bits in H. eapply frameR_trans; [apply (frameR_set_rd st p') | exact H].
Qed.

Lemma keepsR_read_pads : keepsR m_read_pads.
Proof.
  intros st r st' H. unfold m_read_pads in H.
  destruct (read_pads (z_rd st)) as [v p']. inversion H; subst; apply frameR_set_rd.
Qed.

Lemma keepsR_read_symbol d : keepsR (m_read_symbol d).
Proof.
  intros st r st' H. unfold m_read_symbol in H.
  destruct (dt_read_symbol d (z_rd st)) as [x p']. inversion H; subst; apply frameR_set_rd.
Qed.

Lemma keepsR_symbol_fast d : keepsR (m_symbol_fast d).
Proof.
  intros st r st' H. unfold m_symbol_fast in H.
  destruct (try_read_symbol d (z_rd st)) as [x p']. destruct x as [[s|]|].
  - inversion H; subst; apply frameR_set_rd.
  - apply keepsR_read_symbol in H. eapply frameR_trans; [apply (frameR_set_rd st p') | exact H].
  - inversion H; subst; apply frameR_set_rd.
Qed.

Lemma keepsR_pull_first : keepsR m_pull_first.
Proof.
  intros st r st' H. unfold m_pull_first in H.
  destruct (pull_bits (z_rd st) 1) as [e p']. destruct e; inversion H; subst; apply frameR_set_rd.
Qed.

Ltac kstepR :=
  first
  [ apply keepsR_ret | apply keepsR_throw | apply keepsR_corrupted | apply keepsR_mget
  | apply keepsR_lift | apply keepsR_read_bits | apply keepsR_bits_fast | apply keepsR_read_pads
  | apply keepsR_read_symbol | apply keepsR_symbol_fast | apply keepsR_pull_first
  | apply keepsR_mupd; intro; repeat split
  | apply keepsR_bind; [|intro]
  | progress cbv zeta
  | match goal with |- keepsR (match ?x with _ => _ end) => destruct x end ].
Ltac kpR := repeat kstepR.

Lemma keepsR_read_be64 nb : keepsR (m_read_be64 nb).
Proof. unfold m_read_be64. kpR. Qed.

Lemma keepsR_clen_body clen : keepsR (clen_body clen).
Proof. unfold clen_body. kpR. Qed.

Lemma keepsR_read_clens d n : forall clen acc, keepsR (read_clens d n clen acc).
Proof.
  induction n as [|n IH]; intros clen acc; cbn [read_clens]; [apply keepsR_ret|].
  apply keepsR_bind; [apply keepsR_loopM; exact keepsR_clen_body|]. intro c. apply IH.
Qed.

Lemma keepsR_build_tree lens s : keepsR (build_tree lens s).
Proof. unfold build_tree. kpR. Qed.

Lemma keepsR_read_prefix_codes d numSyms k : forall i, keepsR (read_prefix_codes d numSyms k i).
Proof.
  induction k as [|k IH]; intros i; cbn [read_prefix_codes]; [apply keepsR_ret|].
  apply keepsR_bind; [apply keepsR_read_be64|]. intro clen.
  apply keepsR_bind; [apply keepsR_read_clens|]. intro lens.
  apply keepsR_bind; [apply keepsR_mget|]. intro st.
  destruct (nth_error (z_trees st) i) as [s|]; [|apply keepsR_throw].
  apply keepsR_bind; [apply keepsR_build_tree|]. intro s'.
  apply keepsR_bind; [apply keepsR_mupd; intro; repeat split|]. intros _. apply IH.
Qed.

Lemma keepsR_read_sels n dsel numTrees : forall acc, keepsR (read_sels n dsel numTrees acc).
Proof.
  induction n as [|n IH]; intros acc; cbn [read_sels]; [apply keepsR_ret|].
  apply keepsR_bind; [apply keepsR_symbol_fast|]. intro sym.
  destruct (numTrees <=? sym); [apply keepsR_corrupted | apply IH].
Qed.

Lemma keepsR_sym_body trees numSyms limit y : keepsR (sym_body trees numSyms limit y).
Proof. unfold sym_body. kpR. Qed.

Lemma keepsR_decode_prefix dictLen : keepsR (decode_prefix dictLen).
Proof.
  unfold decode_prefix. cbv zeta.
  destruct (dictLen + 2 <? 3); [apply keepsR_corrupted|].
  apply keepsR_bind; [apply keepsR_read_be64|]. intro numTrees.
  destruct ((numTrees <? minNumTrees) || (maxNumTrees <? numTrees)); [apply keepsR_corrupted|].
  apply keepsR_bind; [apply keepsR_read_be64|]. intro numSels.
  destruct decSel as [dsel| |]; [|apply keepsR_throw|apply keepsR_throw].
  apply keepsR_bind; [apply keepsR_read_sels|]. intro idxs.
  apply keepsR_bind; [apply keepsR_lift|]. intro sels.
  apply keepsR_bind; [apply keepsR_mget|]. intro st.
  apply keepsR_bind; [apply keepsR_read_prefix_codes|]. intros _.
  apply keepsR_bind; [apply keepsR_mget|]. intro st2.
  apply keepsR_loopM. intro y. apply keepsR_sym_body.
Qed.

Lemma keepsR_read_dict k : forall i bmapHi acc, keepsR (read_dict k i bmapHi acc).
Proof.
  induction k as [|k IH]; intros i bmapHi acc; cbn [read_dict]; [apply keepsR_ret|].
  destruct (N.odd bmapHi); [|apply IH].
  apply keepsR_bind; [apply keepsR_read_bits|]. intro bmapLo. apply IH.
Qed.

Lemma keepsR_decode_block : keepsR decode_block.
Proof.
  unfold decode_block.
  apply keepsR_bind; [apply keepsR_read_be64|]. intro magic.
  destruct (negb (magic =? blkMagic)).
  - destruct (magic =? endMagic); [|apply keepsR_corrupted].
    apply keepsR_bind; [apply keepsR_read_be64|]. intro endCRC.
    apply keepsR_bind; [apply keepsR_mget|]. intro st.
    destruct (negb (z_endCRC st =? w32 endCRC)); [apply keepsR_corrupted|].
    apply keepsR_bind; [apply keepsR_mupd; intro; repeat split|]. intros _.
    apply keepsR_bind; [apply keepsR_read_pads|]. intros _.
    apply keepsR_bind; [apply keepsR_mupd; intro; repeat split|]. intros _.
    apply keepsR_ret.
  - apply keepsR_bind; [apply keepsR_mupd; intro; repeat split|]. intros _.
    apply keepsR_bind; [apply keepsR_read_be64|]. intro blkCRC.
    apply keepsR_bind; [apply keepsR_mupd; intro; repeat split|]. intros _.
    apply keepsR_bind; [apply keepsR_read_be64|]. intro rnd.
    destruct (negb (rnd =? 0)); [apply keepsR_throw|].
    apply keepsR_bind; [apply keepsR_read_be64|]. intro ptr.
    apply keepsR_bind; [apply keepsR_read_bits|]. intro bmapHi.
    apply keepsR_bind; [apply keepsR_read_dict|]. intro dict.
    apply keepsR_bind; [apply keepsR_decode_prefix|]. intro syms.
    apply keepsR_bind; [apply keepsR_mget|]. intro st.
    apply keepsR_bind; [apply keepsR_lift|]. intro buf.
    destruct (len_n buf <=? ptr); [apply keepsR_corrupted|].
    destruct (go_bwt_decode buf ptr) as [out|]; [apply keepsR_ret | apply keepsR_throw].
Qed.

(* the closure under errors.Recover up to (not including) the final rle.Init(buf) *)
Definition round_pre : M (list byte) :=
  st <- mget ;;
  (if z_hdrftr st mod 2 =? 0 then
     m_pull_first ;;;
     magic <- m_read_be64 16 ;;
     if negb (magic =? hdrMagic) then corrupted else
     ver <- m_read_be64 8 ;;
     if negb (ver =? 104) then
       if ver =? 48 then throw EDeprecated else corrupted
     else
     lvl <- m_read_be64 8 ;;
     if (lvl <? 49) || (57 <? lvl) then corrupted else
     mupd (fun st => set_hdrftr (set_level st (lvl - 48)) (z_hdrftr st + 1))
   else
     if negb (z_blkCRC st =? z_crc st) then corrupted else
     mupd (fun st => set_endCRC st (N.lxor (rotl1 (z_endCRC st)) (z_blkCRC st)))) ;;;
  decode_block.

Lemma keepsR_round_pre : keepsR round_pre.
Proof.
  unfold round_pre.
  apply keepsR_bind; [apply keepsR_mget|]. intro st.
  apply keepsR_bind; [|intros _; apply keepsR_decode_block].
  destruct (z_hdrftr st mod 2 =? 0).
  - apply keepsR_bind; [apply keepsR_pull_first|]. intros _.
    apply keepsR_bind; [apply keepsR_read_be64|]. intro magic.
    destruct (negb (magic =? hdrMagic)); [apply keepsR_corrupted|].
    apply keepsR_bind; [apply keepsR_read_be64|]. intro ver.
    destruct (negb (ver =? 104)).
    + destruct (ver =? 48); [apply keepsR_throw | apply keepsR_corrupted].
    + apply keepsR_bind; [apply keepsR_read_be64|]. intro lvl.
      destruct ((lvl <? 49) || (57 <? lvl)); [apply keepsR_corrupted|].
      apply keepsR_mupd; intro; repeat split.
  - destruct (negb (z_blkCRC st =? z_crc st)); [apply keepsR_corrupted|].
    apply keepsR_mupd; intro; repeat split.
Qed.

Lemma mbind_assoc {A B C} (m : M A) (f : A -> M B) (g : B -> M C) st :
  mbind (mbind m f) g st = mbind m (fun a => mbind (f a) g) st.
Proof. unfold mbind. destruct (m st) as [[a|e] s]; reflexivity. Qed.

Lemma mbind_mget {B} (f : bzst -> M B) st : mbind mget f st = f st st.
Proof. reflexivity. Qed.

Lemma round_body_pre st :
  round_body st = mbind round_pre (fun buf => mupd (fun st => set_rle st (rle_init buf))) st.
Proof.
  unfold round_pre. rewrite mbind_assoc. unfold round_body. rewrite !mbind_mget.
  rewrite mbind_assoc. reflexivity.
Qed.

(* the closure: either it throws and zr.rle, zr.err, the offsets are as before, or it ends with
   rle.Init(buf) and zr.err, the offsets are as before *)
Lemma round_body_cases st :
  match round_body st with
  | (RThrow e, st1) => frameR st st1
  | (ROk _, st1) => z_err st1 = z_err st /\ z_inOff st1 = z_inOff st /\ z_outOff st1 = z_outOff st
  end.
Proof.
  rewrite round_body_pre. unfold mbind.
  destruct (round_pre st) as [[buf|e] st1] eqn:E; apply keepsR_round_pre in E.
  - unfold mupd. destruct E as (_ & E2 & E3 & E4). repeat split; assumption.
  - exact E.
Qed.

(* ---- one turn of Read's loop -------------------------------------------------------------------------- *)
(* zr.rd.Offset = zr.InputOffset *)
Definition round_start (st : bzst) : bzst :=
  set_rd st (let p := z_rd st in
             mkPrd (p_src p) (p_buffered p) (p_big p) (p_bufBits p) (p_numBits p)
                   (p_peek p) (p_discard p) (p_fed p) (z_inOff st)).

(* the closure decoded a block (or a stream footer) and THEN Flush failed: Discard came back
   short.  The Reader then holds io.EOF in zr.err in front of an RLE1 stage that has a whole
   block to deliver.  (Impossible for a Reader made by NewReader / Reset over a source that
   keeps the api.go contract: Bzip2/ImplLifeInv.v.) *)
Definition short_flush_after_block (st : bzst) : Prop :=
  exists st1, round_body (round_start st) = (ROk tt, st1) /\ fst (flush (z_rd st1)) = true.

Lemma one_round_err st e : z_err st = None -> z_err (one_round st) = Some e ->
  (z_rle (one_round st) = z_rle st /\ z_outOff (one_round st) = z_outOff st) \/
  short_flush_after_block st.
Proof.
  intros He0. unfold one_round. fold (round_start st). cbv zeta.
  pose proof (round_body_cases (round_start st)) as Hc.
  destruct (round_body (round_start st)) as [[u|e1] st1] eqn:Er.
  - destruct Hc as (Hc1 & _ & Hc3). cbn [round_start z_err set_rd] in Hc1. rewrite He0 in Hc1.
    destruct (flush (z_rd st1)) as [short p'] eqn:Ef.
    cbn [z_err set_inOff set_rd]. rewrite Hc1.
    destruct short.
    + intros _. right. destruct u. exists st1. split; [exact Er|]. rewrite Ef. reflexivity.
    + cbn [z_err set_inOff set_rd]. rewrite Hc1. cbn [z_err set_inOff set_rd]. rewrite Hc1. intros C; discriminate C.
  - destruct Hc as (Hc1 & _ & _ & Hc4). cbn [round_start z_rle z_outOff set_rd] in Hc1, Hc4.
    intros _. left.
    destruct e1; cbn [z_rd set_err]; try (split; cbn [z_rle z_outOff set_err]; assumption);
      destruct (flush (z_rd st1)) as [short p'];
      cbn [z_err set_inOff set_rd set_err z_rle z_outOff]; split; assumption.
Qed.

Lemma one_round_outOff st : z_outOff (one_round st) = z_outOff st.
Proof.
  unfold one_round. fold (round_start st). cbv zeta.
  pose proof (round_body_cases (round_start st)) as Hc.
  destruct (round_body (round_start st)) as [[u|e1] st1] eqn:Er.
  - destruct Hc as (_ & _ & Hc3). cbn [round_start z_outOff set_rd] in Hc3.
    destruct (flush (z_rd st1)) as [short p'].
    destruct (z_err st1) eqn:E; destruct short;
      repeat (cbn [z_err set_inOff set_rd set_err z_outOff]; rewrite ?E); exact Hc3.
  - destruct Hc as (_ & _ & _ & Hc4). cbn [round_start z_outOff set_rd] in Hc4.
    destruct e1; cbn [z_rd set_err]; try (cbn [z_outOff set_err]; assumption);
      destruct (flush (z_rd st1)) as [short p'];
      cbn [z_err set_inOff set_rd set_err z_outOff]; assumption.
Qed.

(* ---- the top of the loop ---------------------------------------------------------------------------------- *)
Lemma drain_cases st n :
  match drain st n with
  | inl ((bs, None), st') => (bs <> [] \/ n = 0%nat) /\ z_inOff st' = z_inOff st /\ z_rd st' = z_rd st
  | inl ((bs, Some e), st') =>
    bs = [] /\ z_err st' = Some e /\ z_inOff st' = z_inOff st /\ z_outOff st' = z_outOff st /\
    z_rd st' = z_rd st /\
    (stuck (z_rle st') \/ (n = 0%nat /\ st' = st))
  | inr st' => n <> 0%nat /\ z_err st' = None /\ stuck (z_rle st') /\ z_err st = None /\
               z_outOff st' = z_outOff st
  end.
Proof.
  unfold drain.
  destruct (rle_read n (r_buf (z_rle st)) (r_lastVal (z_rle st)) (r_lastCnt (z_rle st)) [])
    as [[out e] r'] eqn:Er.
  set (st1 := set_rle st r').
  set (st2 := match e, z_err st1 with RCorrupt, None => set_err st1 (Some ECorrupted) | _, _ => st1 end).
  assert (H2 : z_rle st2 = r' /\ z_inOff st2 = z_inOff st /\ z_outOff st2 = z_outOff st /\ z_rd st2 = z_rd st).
  { unfold st2, st1. destruct e; destruct (z_err (set_rle st r')); repeat split. }
  destruct H2 as (H2a & H2b & H2c & H2d).
  destruct out as [|x out'].
  - destruct (z_err st2) as [e2|] eqn:Ee2.
    + split; [reflexivity|]. split; [exact Ee2|]. split; [exact H2b|]. split; [exact H2c|].
      split; [exact H2d|].
      destruct n as [|n].
      * right. split; [reflexivity|]. cbn [rle_read] in Er.
        assert (He' : e = RNil) by (inversion Er; reflexivity).
        assert (Hr' : r' = z_rle st) by (inversion Er; apply rlest_eta).
        unfold st2, st1. rewrite He', Hr', set_rle_same. reflexivity.
      * left. rewrite H2a. apply (rle_read_nothing _ _ _ _ _ _ Er).
    + destruct n as [|n]; cbn [Nat.eqb].
      * split; [right; reflexivity|]. split; assumption.
      * split; [discriminate|]. split; [exact Ee2|]. rewrite H2a.
        destruct (rle_read_nothing _ _ _ _ _ _ Er) as [Hs Hne]. split; [exact Hs|].
        split; [|exact H2c].
        unfold st2, st1 in Ee2.
        destruct (z_err st) as [e0|] eqn:E0; [|reflexivity].
        destruct e; cbn [z_err set_rle] in Ee2; rewrite ?E0 in Ee2; cbn [z_err set_rle] in Ee2;
          rewrite ?E0 in Ee2; discriminate Ee2.
  - split; [left; discriminate|].
    cbn [z_inOff z_rd set_outOff set_crc]. split; assumption.
Qed.

(* the turns of the loop until Read returns *)
Lemma read_rounds_cases : forall fuel st n bs e st',
  n <> 0%nat -> z_err st = None -> stuck (z_rle st) ->
  read_rounds fuel st n = ((bs, Some e), st') ->
  bs = [] /\ z_err st' = Some e /\ z_outOff st' = z_outOff st /\
  (stuck (z_rle st') \/ exists s, z_err s = None /\ stuck (z_rle s) /\ short_flush_after_block s).
Proof.
  induction fuel as [|f IH]; intros st n bs e st' Hn He Hs H; cbn [read_rounds] in H.
  - inversion H; subst. split; [reflexivity|]. split; [reflexivity|]. split; [reflexivity|].
    left. exact Hs.
  - cbv zeta in H. destruct (z_err (one_round st)) as [e1|] eqn:E1.
    + inversion H; subst. split; [reflexivity|]. split; [exact E1|].
      split; [apply one_round_outOff|].
      destruct (one_round_err st e He E1) as [[Hr _]|Hx].
      * left. rewrite Hr. exact Hs.
      * right. exists st. split; [exact He|]. split; assumption.
    + pose proof (drain_cases (one_round st) n) as Hd.
      destruct (drain (one_round st) n) as [[[bs1 [e2|]] st2]|st2].
      * inversion H; subst. destruct Hd as (Hb & He2 & _ & Ho & _ & Hcase).
        split; [exact Hb|]. split; [exact He2|].
        split; [rewrite Ho; apply one_round_outOff|].
        destruct Hcase as [Hst|[Hn0 _]]; [left; exact Hst | contradiction].
      * inversion H.
      * destruct Hd as (_ & He2 & Hs2 & _ & Ho).
        destruct (IH st2 n bs e st' Hn He2 Hs2 H) as (A & B & C & D).
        split; [exact A|]. split; [exact B|]. split; [|exact D].
        rewrite C, Ho. apply one_round_outOff.
Qed.

(* A Read that returns an error: no bytes, the error is in zr.err, OutputOffset has not moved,
   and the error is latched (the RLE1 stage is exhausted) - except
   (a) Read(empty buffer) on a Reader that already held an error in front of pending output:
       nothing has changed;
   (b) a short Discard after a decoded block. *)
Theorem bz_read_err_cases st n bs e st' :
  bz_read st n = ((bs, Some e), st') ->
  bs = [] /\ z_err st' = Some e /\ z_outOff st' = z_outOff st /\
  (stuck (z_rle st') \/
   (n = 0%nat /\ st' = st) \/
   exists s, z_err s = None /\ stuck (z_rle s) /\ short_flush_after_block s).
Proof.
  unfold bz_read. pose proof (drain_cases st n) as Hd.
  destruct (drain st n) as [[[bs1 [e1|]] st1]|st1]; intros H.
  - inversion H; subst. destruct Hd as (Hb & He & _ & Ho & _ & Hc).
    split; [exact Hb|]. split; [exact He|]. split; [exact Ho|].
    destruct Hc as [Hs|Hz]; [left; exact Hs | right; left; exact Hz].
  - inversion H.
  - destruct Hd as (Hn & He & Hs & _ & Ho).
    destruct (read_rounds_cases _ st1 n bs e st' Hn He Hs H) as (A & B & C & D).
    split; [exact A|]. split; [exact B|]. split; [congruence|].
    destruct D as [D|D]; [left; exact D | right; right; exact D].
Qed.

(* a Read that returns no error and no bytes was called with an empty buffer *)
Lemma read_rounds_ok : forall fuel st n bs st',
  n <> 0%nat -> read_rounds fuel st n = ((bs, None), st') -> bs <> [].
Proof.
  induction fuel as [|f IH]; intros st n bs st' Hn H; cbn [read_rounds] in H; [inversion H|].
  cbv zeta in H. destruct (z_err (one_round st)) as [e1|]; [inversion H|].
  pose proof (drain_cases (one_round st) n) as Hd.
  destruct (drain (one_round st) n) as [[[bs1 [e2|]] st2]|st2].
  - inversion H.
  - inversion H; subst. destruct Hd as ([Hb|Hz] & _); [exact Hb | contradiction].
  - apply (IH st2 n bs st' Hn H).
Qed.

Theorem bz_read_progress st n bs st' : n <> 0%nat -> bz_read st n = ((bs, None), st') -> bs <> [].
Proof.
  intros Hn. unfold bz_read. pose proof (drain_cases st n) as Hd.
  destruct (drain st n) as [[[bs1 [e1|]] st1]|st1]; intros H.
  - inversion H.
  - inversion H; subst. destruct Hd as ([Hb|Hz] & _); [exact Hb | contradiction].
  - apply (read_rounds_ok _ st1 n bs st' Hn H).
Qed.
