(* C04, stage 5: one block.  The bits [encode_block block crc] appends after the 48-bit block
   magic are read back by [decode_block]: it returns the stored CRC, consumes exactly these
   bits and outputs the RLE1 expansion of the block.  Composition of
     BitIO (fields), HuffSels (symbol map, selectors), HuffLens (code length tables),
     Huffman (decoding tables = canonical code, symbol loop), LengthsOfCounts (the lengths are
     in 1..20 with Kraft sum one), StreamBits (symbol count, CRC width),
     Bwt.bwt_mtf_roundtrip (stages 2+3) and the RLE1 expansion of Rle1.v (hypothesis [Hemit],
     as delivered by Rle1.rle1_block_roundtrip). *)
From Coq Require Import FMapPositive.
From V Require Import Base.Prelude Base.Prog Base.ProgThms Bzip2.Common Bzip2.SpecR Bzip2.SpecW
                      Bzip2.SortLemmas Bzip2.MtfRle2 Bzip2.Rle1 Bzip2.Bwt Bzip2.BitIO Bzip2.HuffSels
                      Bzip2.HuffLens Bzip2.StreamBits Bzip2.Huffman Bzip2.LengthsOfCounts.
Local Open Scope N_scope.

Lemma run_reads_bind {A B} (p : prog A) (f : A -> prog B) bits a rest pos out len :
  reads p bits a ->
  run (bind p f) (mkAst (bits ++ rest) pos out len) =
  run (f a) (mkAst rest (pos + N.of_nat (length bits)) out len).
Proof. intros H. rewrite run_bind, H. reflexivity. Qed.

Lemma run_assert_bind {A} c e (q : prog A) s : c = true -> run (assert_p c e ;;; q) s = run q s.
Proof. intros ->. reflexivity. Qed.

Lemma ksum20_lsumN lens : ksum20 lens = Prefix.GenLengthsThms.lsumN (fun l => 2 ^ (20 - l)) lens.
Proof. reflexivity. Qed.

(* ---- the prefix-coded part of a block (encode_prefix) ----------------------------------------- *)
Section Prefix.
  Variable syms0 : list N.
  Variable nDict : N.

  Definition p_syms : list N := syms0 ++ [(nDict + 2) - 1].
  Definition p_n : N := N.of_nat (length p_syms).
  Definition p_numTrees : N := num_trees p_n.
  Definition p_numSels : N := (p_n + numBlockSyms - 1) / numBlockSyms.
  Definition p_sels : list N := map (fun i => i mod p_numTrees) (iota p_numSels).
  Definition p_lenss : list (list N) :=
    map (tree_lens (tree_counts p_syms p_numTrees) (nDict + 2)) (iota p_numTrees).
  Definition p_treeof (j : N) : N := (j / numBlockSyms) mod p_numTrees.

  Definition prefix_bits : list bool :=
    mbits 3 p_numTrees ++ mbits 15 p_numSels ++ sels_bits p_sels ++ flat_map lens_bits p_lenss ++
    sym_bits_gen p_lenss p_treeof 0 p_syms.

  Lemma p_numTrees_range : 2 <= p_numTrees <= 6.
  Proof.
    unfold p_numTrees, num_trees.
    destruct (p_n <? 200); [lia|]. destruct (p_n <? 600); [lia|].
    destruct (p_n <? 1200); [lia|]. destruct (p_n <? 2400); lia.
  Qed.

  Lemma p_lenss_length : length p_lenss = N.to_nat p_numTrees.
  Proof. unfold p_lenss. rewrite map_length, iota_length. reflexivity. Qed.

  Lemma p_sels_length : length p_sels = N.to_nat p_numSels.
  Proof. unfold p_sels. rewrite map_length, iota_length. reflexivity. Qed.

  Lemma p_sels_lt x : In x p_sels -> x < p_numTrees.
  Proof.
    unfold p_sels. rewrite in_map_iff. intros (i & <- & _). pose proof p_numTrees_range.
    apply N.mod_lt. lia.
  Qed.

  Lemma encode_prefix_eq acc : encode_prefix syms0 nDict acc = rev prefix_bits ++ acc.
  Proof.
    unfold encode_prefix. cbv zeta. rewrite app_tr_eq, len_n_length, map_tr_eq.
    fold p_syms. fold p_n. fold p_numTrees. fold p_numSels. fold p_sels. fold p_lenss.
    rewrite write_syms_appends.
    - pose proof (appends_fold (fun a l => write_lens l a) lens_bits p_lenss
                               (fun x _ => write_lens_appends x)) as Hl.
      unfold appends in Hl. cbv beta in Hl. rewrite Hl.
      pose proof (write_sels_appends p_sels) as Hs. unfold appends in Hs. cbv beta in Hs. rewrite Hs.
      rewrite !wbits_eq. unfold prefix_bits, p_treeof.
      rewrite !rev_app_distr, <- !app_assoc. reflexivity.
    - intros j _. rewrite p_lenss_length, N2Nat.id. pose proof p_numTrees_range.
      apply N.mod_lt. lia.
  Qed.

  (* every tree's length vector: one length per symbol, in 1..20, Kraft sum one *)
  Hypothesis HnDict : 1 <= nDict <= 256.

  Lemma p_lenss_ok lens : In lens p_lenss ->
    length lens = N.to_nat (nDict + 2) /\ lens <> [] /\ (forall l, In l lens -> 1 <= l <= 20) /\ lens_ok lens.
  Proof.
    unfold p_lenss. rewrite in_map_iff. intros (t & <- & _). unfold tree_lens.
    set (cnts := map (fun s => nm_getd (tree_counts p_syms p_numTrees) (count_key t s) 0) (iota (nDict + 2))).
    assert (Lc : length cnts = N.to_nat (nDict + 2)) by (unfold cnts; rewrite map_length, iota_length; reflexivity).
    assert (H2 : (2 <= length cnts)%nat) by (rewrite Lc; lia).
    assert (H20 : N.of_nat (length cnts) <= 2 ^ 20).
    { rewrite Lc. change (2 ^ 20) with 1048576. lia. }
    destruct (lengths_of_counts_correct cnts H2 H20) as (Hlen & Hrange & Hkraft & _).
    rewrite Hlen, Lc. split; [reflexivity|]. split.
    - intros E. rewrite E in Hlen. cbn [length] in Hlen. lia.
    - split; [exact Hrange|]. split; [exact Hrange|].
      rewrite ksum20_lsumN, Hkraft. lia.
  Qed.
End Prefix.

(* ---- the bits of a block after its magic number --------------------------------------------- *)
Definition block_bits (block : list byte) (crc : N) : list bool :=
  let (bwt, ptr) := bwt_encode block in
  let dict := block_dict block in
  mbits 32 crc ++ mbits 1 0 ++ mbits 24 ptr ++ symbol_map_bits (used_map block) ++
  prefix_bits (mtf_rle2_encode bwt dict 0 []) (len_n dict).

Lemma block_dict_unfold block : filter (is_used (used_map block)) (iota 256) = block_dict block.
Proof. unfold block_dict. reflexivity. Qed.

Theorem encode_block_eq block crc acc :
  encode_block block crc acc = rev (mbits 48 blkMagic ++ block_bits block crc) ++ acc.
Proof.
  unfold encode_block, block_bits. destruct (bwt_encode block) as [bwt ptr]. cbv zeta.
  rewrite (block_dict_unfold block). rewrite encode_prefix_eq.
  pose proof (write_symbol_map_appends (used_map block)) as Hm. unfold appends in Hm. rewrite Hm.
  rewrite !wbits_eq, !rev_app_distr, <- !app_assoc. reflexivity.
Qed.

Lemma nth_map_iota {X} (f : N -> X) m k d : k < m -> nth (N.to_nat k) (map f (iota m)) d = f k.
Proof.
  intros Hk. rewrite iota_eq, map_map.
  rewrite (nth_indep _ d (f (N.of_nat 0))) by (rewrite map_length, seq_length; lia).
  rewrite (map_nth (fun x => f (N.of_nat x))), seq_nth by lia. f_equal. lia.
Qed.

Theorem decode_block_correct depth level block crcreg consumed :
  (5 <= depth)%nat -> 1 <= level <= 9 ->
  block <> [] -> bytes_ok block -> N.of_nat (length block) <= level * blockSize ->
  crcreg < 2 ^ 32 ->
  (forall s, run (rle1_emit block 0 0 crc_init) s = Done crcreg (push_out s consumed)) ->
  forall rest pos out len,
    run (decode_block depth level) (mkAst (block_bits block (crc_final crcreg) ++ rest) pos out len) =
    Done (crc_final crcreg)
         (push_out (mkAst rest (pos + N.of_nat (length (block_bits block (crc_final crcreg)))) out len)
                   consumed).
Proof.
  intros Hdepth Hlevel Hne Hok Hsize Hcrcreg Hemit rest pos out len.
  remember (crc_final crcreg) as crc eqn:Ecrc.
  assert (Hcrc : crc < 2 ^ 32) by (subst crc; apply crc_final_lt; exact Hcrcreg).
  remember (level * blockSize) as maxn eqn:Emaxn.
  assert (Hmaxn : maxn <= 900000) by (subst maxn; unfold blockSize; lia).
  assert (Hlen_n : len_n block <= maxn) by (rewrite len_n_length; exact Hsize).
  assert (Hb256 : forall b, In b block -> b < 256).
  { intros b Hb. unfold bytes_ok in Hok. rewrite Forall_forall in Hok. apply Hok, Hb. }
  assert (H64 : N.of_nat (length block) <= 2 ^ 64).
  { change (2 ^ 64) with 18446744073709551616. lia. }
  pose proof (bwt_mtf_roundtrip block maxn Hne Hok Hlen_n Hmaxn) as Hrt.
  pose proof (bwt_roundtrip block Hne Hb256 H64) as Hbw.
  pose proof (bwt_encode_In block Hne Hb256 H64) as Hin.
  unfold block_bits. destruct (bwt_encode block) as [bwt ptr]. cbv zeta in *. cbn [fst] in Hin.
  destruct Hbw as (Hbl & Hptr & _).
  destruct Hrt as (nblock & tt_rev & Hdec & Hptr2 & Hbwd).
  destruct (block_dict_ok block Hok) as (_ & Hdin & Hdlen & Hd1). cbv zeta in Hdin, Hdlen, Hd1.
  specialize (Hd1 Hne).
  remember (block_dict block) as dict eqn:Edict.
  remember (len_n dict) as nDict eqn:EnDict.
  assert (HnDict : 1 <= nDict <= 256) by (subst nDict; rewrite len_n_length; lia).
  assert (Hsub : forall v, In v bwt -> In v dict) by (intros v Hv; apply Hdin, Hin, Hv).
  pose proof (mtf_rle2_syms_le bwt dict Hsub) as Hsle.
  pose proof (mtf_rle2_encode_length bwt dict Hsub) as Hslen.
  remember (mtf_rle2_encode bwt dict 0 []) as syms0 eqn:Esyms0.
  rewrite Hbl in Hslen.
  (* sizes *)
  assert (Hpn : p_n syms0 nDict = N.of_nat (length syms0) + 1).
  { unfold p_n, p_syms. rewrite app_length. cbn [length]. lia. }
  assert (HnumSels : p_numSels syms0 nDict = (N.of_nat (length syms0) + 50) / 50).
  { unfold p_numSels, numBlockSyms. rewrite Hpn. f_equal. lia. }
  pose proof (p_numTrees_range syms0 nDict) as HnT.
  (* the fields *)
  unfold decode_block, prefix_bits. rewrite <- !app_assoc.
  rewrite (run_reads_bind _ _ _ _ _ _ _ _ (reads_rbits 32 crc Hcrc)).
  rewrite (run_reads_bind _ _ _ _ _ _ _ _ (reads_rbits 1 0 ltac:(cbn; lia))).
  rewrite run_assert_bind by reflexivity.
  assert (Hptr24 : ptr < 2 ^ N.of_nat 24).
  { change (2 ^ N.of_nat 24) with 16777216. rewrite len_n_length in Hptr. lia. }
  rewrite (run_reads_bind _ _ _ _ _ _ _ _ (reads_rbits 24 ptr Hptr24)).
  rewrite (run_reads_bind _ _ _ _ _ _ _ _ (read_symbol_map_correct (used_map block))).
  rewrite (block_dict_unfold block), <- Edict. cbv zeta. rewrite <- EnDict.
  rewrite run_assert_bind by (apply N.ltb_lt; lia).
  assert (HnT3 : p_numTrees syms0 nDict < 2 ^ N.of_nat 3) by (change (2 ^ N.of_nat 3) with 8; lia).
  rewrite (run_reads_bind _ _ _ _ _ _ _ _ (reads_rbits 3 _ HnT3)).
  rewrite run_assert_bind
    by (apply andb_true_iff; split; apply N.leb_le; lia).
  assert (HnS15 : p_numSels syms0 nDict < 2 ^ N.of_nat 15).
  { change (2 ^ N.of_nat 15) with 32768. rewrite HnumSels. lia. }
  rewrite (run_reads_bind _ _ _ _ _ _ _ _ (reads_rbits 15 _ HnS15)).
  (* selectors *)
  replace (nat_of (p_numSels syms0 nDict)) with (length (p_sels syms0 nDict))
    by (rewrite p_sels_length, nat_of_nat; reflexivity).
  rewrite (run_reads_bind _ _ _ _ _ _ _ _
             (read_sels_correct _ _ HnT (p_sels_lt syms0 nDict))).
  rewrite firstn_all2
    by (rewrite mtf_encode_sels_length, p_sels_length, HnumSels; unfold maxSelectors; lia).
  rewrite (mtf_sels_roundtrip _ _ HnT (p_sels_lt syms0 nDict)).
  (* code length tables *)
  replace (N.to_nat (p_numTrees syms0 nDict)) with (length (p_lenss syms0 nDict))
    by (apply p_lenss_length).
  assert (Htabs : forall lens, In lens (p_lenss syms0 nDict) ->
            length lens = N.to_nat (nDict + 2) /\ lens <> [] /\ forall l, In l lens -> 1 <= l <= 20).
  { intros lens Hl. destruct (p_lenss_ok syms0 nDict HnDict lens Hl) as (H1 & H2 & H3 & _).
    split; [exact H1|]. split; [exact H2 | exact H3]. }
  rewrite (run_reads_bind _ _ _ _ _ _ _ _
             (read_tables_correct depth _ (p_lenss syms0 nDict) [] Hdepth Htabs)).
  cbn [rev app].
  (* the symbols *)
  rewrite <- Emaxn.
  assert (Hsyms : reads (read_syms (S (S (nat_of maxn))) (map mk_table (p_lenss syms0 nDict))
                                   (p_sels syms0 nDict) 0 empty_table (nDict + 1) maxn 0 [])
                        (sym_bits_gen (p_lenss syms0 nDict) (p_treeof syms0 nDict) 0 (p_syms syms0 nDict))
                        syms0).
  { assert (HL : forall lens, In lens (p_lenss syms0 nDict) -> lens_ok lens /\ nDict + 1 < N.of_nat (length lens)).
    { intros lens Hl. destruct (p_lenss_ok syms0 nDict HnDict lens Hl) as (H1 & _ & _ & H4).
      split; [exact H4|]. rewrite H1. lia. }
    assert (HS : forall x, In x (p_sels syms0 nDict) -> (N.to_nat x < length (p_lenss syms0 nDict))%nat).
    { intros x Hx. rewrite p_lenss_length. apply p_sels_lt in Hx. lia. }
    eapply reads_eq;
      [apply (read_syms_correct (p_lenss syms0 nDict) (p_sels syms0 nDict) (nDict + 1) maxn HL HS syms0 0) | |].
    - left. split; [reflexivity|]. split; reflexivity.
    - rewrite nat_of_nat. lia.
    - intros s Hs. rewrite Forall_forall in Hsle. specialize (Hsle s Hs).
      rewrite EnDict, len_n_length. lia.
    - lia.
    - rewrite p_sels_length, HnumSels, N.add_0_l.
      assert (N.of_nat (length syms0) / 50 < (N.of_nat (length syms0) + 50) / 50) by lia. lia.
    - unfold p_syms. replace (nDict + 2 - 1) with (nDict + 1) by lia.
      apply sym_bits_gen_ext. intros j Hj. unfold sel_tree, p_treeof, p_sels, numBlockSyms.
      rewrite app_length in Hj. cbn [length] in Hj.
      assert (Hjs : j / 50 < p_numSels syms0 nDict).
      { rewrite HnumSels. assert (j / 50 <= N.of_nat (length syms0) / 50) by (apply N.div_le_mono; lia). lia. }
      rewrite nth_map_iota by exact Hjs. reflexivity.
    - reflexivity. }
  rewrite (run_reads_bind _ _ _ _ _ _ _ _ Hsyms).
  (* stages 3, 2, 1 *)
  rewrite Hdec. rewrite run_assert_bind by exact Hptr2. rewrite Hbwd.
  rewrite run_bind, Hemit. rewrite <- Ecrc. rewrite run_assert_bind by apply N.eqb_refl.
  cbn [run]. f_equal. unfold push_out. cbn [a_in a_pos a_out a_len]. f_equal.
  rewrite !app_length. lia.
Qed.

(* non-vacuity: a concrete block satisfies every hypothesis (the emit hypothesis through
   Rle1.run_rle1_emit), and the conclusion agrees with running the two models *)
Example decode_block_correct_ex :
  let block := [97; 98; 97; 98; 97] in
  let crcreg := fold_left crc_step block crc_init in
  block <> [] /\ bytes_ok block /\ N.of_nat (length block) <= 1 * blockSize /\ crcreg < 2 ^ 32 /\
  (forall s, run (rle1_emit block 0 0 crc_init) s = Done crcreg (push_out s block)) /\
  res_out (run (decode_block 5 1) (ast_init (block_bits block (crc_final crcreg) ++ [true]))) = block.
Proof.
  cbv zeta. split; [discriminate|]. split.
  - repeat constructor.
  - split; [vm_compute; discriminate|]. split; [apply crc_fold_lt|]. split.
    + intros s. rewrite run_rle1_emit. reflexivity.
    + vm_compute. reflexivity.
Qed.

Print Assumptions encode_block_eq.
Print Assumptions decode_block_correct.
