(* The read-only pieces of the libbzip2 port never touch the output.

   [quiet p]: on every machine state, whatever [p] does (success or failure), the output
   history ([a_out], [a_len]) of the state it ends in is the one it started from.
   Composition lemmas for every constructor of [prog] except [Put]/[Copy], for [bind],
   [iter2], [loop], [assert_p]; then every piece of Bzip2/SpecR.v that only reads, and the
   three pieces Bzip2/ImplSpecRun.v cuts the decoder into before the RLE1 expansion:
   [hdr_ro], [block_ro], [bof_ro].  [quiet_done]/[quiet_fail] are the forms a caller uses.
   [noput] is the structural (syntactic) version; [noput_quiet] relates the two. *)
From V Require Import Base.Prelude Base.Prog Base.ProgThms Base.FuelThms
  Bzip2.Common Bzip2.SpecR Bzip2.Safe Bzip2.ImplSpecRun.

Local Open Scope N_scope.

Definition quiet {A} (p : prog A) : Prop :=
  forall s, a_out (res_state (run p s)) = a_out s /\
            Prog.a_len (res_state (run p s)) = Prog.a_len s.

(* ---- the forms a caller uses ------------------------------------------------------------ *)
Lemma quiet_done {A} (p : prog A) s a s' :
  quiet p -> run p s = Done a s' -> a_out s' = a_out s /\ Prog.a_len s' = Prog.a_len s.
Proof. intros Hq E. specialize (Hq s). rewrite E in Hq. exact Hq. Qed.

Lemma quiet_fail {A} (p : prog A) s e s' :
  quiet p -> run p s = Fail e s' -> a_out s' = a_out s /\ Prog.a_len s' = Prog.a_len s.
Proof. intros Hq E. specialize (Hq s). rewrite E in Hq. exact Hq. Qed.

(* ---- composition ------------------------------------------------------------------------ *)
Lemma quiet_ret {A} (a : A) : quiet (Ret a).
Proof. intros s. split; reflexivity. Qed.

Lemma quiet_throw {A} e : quiet (@Throw A e).
Proof. intros s. split; reflexivity. Qed.

Lemma quiet_bit {A} (k : bool -> prog A) : (forall b, quiet (k b)) -> quiet (Bit k).
Proof.
  intros Hk s. cbn [run]. destruct (a_in s) as [|b r]; [split; reflexivity|].
  exact (Hk b (mkAst r (a_pos s + 1) (a_out s) (Prog.a_len s))).
Qed.

Lemma quiet_alignp {A} (k : N -> prog A) : (forall v, quiet (k v)) -> quiet (AlignP k).
Proof.
  intros Hk s. cbn [run]. destruct (Nat.leb _ _); [|split; reflexivity].
  match goal with |- context[run (k ?v) ?s'] => exact (Hk v s') end.
Qed.

Lemma quiet_iseof {A} (k : bool -> prog A) : (forall b, quiet (k b)) -> quiet (IsEof k).
Proof. intros Hk s. cbn [run]. apply Hk. Qed.

Lemma quiet_pos {A} (k : N -> prog A) : (forall v, quiet (k v)) -> quiet (Pos k).
Proof. intros Hk s. cbn [run]. apply Hk. Qed.

Lemma quiet_hist {A} (k : N -> prog A) : (forall v, quiet (k v)) -> quiet (Hist k).
Proof. intros Hk s. cbn [run]. apply Hk. Qed.

Lemma quiet_histb {A} d (k : byte -> prog A) : (forall v, quiet (k v)) -> quiet (HistB d k).
Proof. intros Hk s. cbn [run]. apply Hk. Qed.

Lemma quiet_yield {A} (k : prog A) : quiet k -> quiet (Yield k).
Proof. intros Hk s. cbn [run]. apply Hk. Qed.

Lemma quiet_delay {A} (p : unit -> prog A) : quiet (p tt) -> quiet (delay p).
Proof. intros Hp. unfold delay. apply quiet_pos. intros _. exact Hp. Qed.

Lemma quiet_bind {A B} (p : prog A) (f : A -> prog B) :
  quiet p -> (forall a, quiet (f a)) -> quiet (bind p f).
Proof.
  intros Hp Hf s. rewrite run_bind. specialize (Hp s).
  destruct (run p s) as [a s1|e s1]; cbn [res_state] in Hp; [|exact Hp].
  destruct Hp as [Ho Hl]. destruct (Hf a s1) as [Ho2 Hl2].
  split; [rewrite Ho2; exact Ho | rewrite Hl2; exact Hl].
Qed.

Lemma quiet_assert c e : quiet (assert_p c e).
Proof. unfold assert_p. destruct c; [apply quiet_ret | apply quiet_throw]. Qed.

Lemma quiet_iter2 {St R} d (body : St -> prog (St + R)) st :
  (forall st', quiet (body st')) -> quiet (iter2 d body st).
Proof.
  intros Hb. revert st; induction d as [|d IH]; intros st; cbn [iter2]; [apply Hb|].
  apply quiet_bind; [apply IH|]. intros [st'|r]; [apply IH | apply quiet_ret].
Qed.

Lemma quiet_loop {St R} d (body : St -> prog (St + R)) st :
  (forall st', quiet (body st')) -> quiet (loop d body st).
Proof.
  intros Hb. unfold loop. apply quiet_bind; [apply quiet_iter2; exact Hb|].
  intros [st'|r]; [apply quiet_throw | apply quiet_ret].
Qed.

(* [Put] and [Copy] are exactly what [quiet] excludes *)
Lemma put_not_quiet {A} b (k : prog A) : quiet k -> ~ quiet (Put b k).
Proof.
  intros Hk Hq. specialize (Hq (ast_init [])). cbn [run] in Hq.
  destruct Hq as [_ Hl].
  destruct (Hk (mkAst (a_in (ast_init [])) (a_pos (ast_init [])) (b :: a_out (ast_init []))
                      (Prog.a_len (ast_init []) + 1))) as [_ Hl2].
  rewrite Hl2 in Hl. cbn in Hl. discriminate Hl.
Qed.

(* ---- the structural version ---------------------------------------------------------------- *)
Inductive noput {A} : prog A -> Prop :=
| np_ret a : noput (Ret a)
| np_throw e : noput (Throw e)
| np_bit k : (forall b, noput (k b)) -> noput (Bit k)
| np_align k : (forall v, noput (k v)) -> noput (AlignP k)
| np_iseof k : (forall b, noput (k b)) -> noput (IsEof k)
| np_pos k : (forall v, noput (k v)) -> noput (Pos k)
| np_hist k : (forall v, noput (k v)) -> noput (Hist k)
| np_histb d k : (forall v, noput (k v)) -> noput (HistB d k)
| np_yield k : noput k -> noput (Yield k).

Lemma noput_quiet {A} (p : prog A) : noput p -> quiet p.
Proof.
  intros Hp.
  induction Hp as [a|e|k Hk IH|k Hk IH|k Hk IH|k Hk IH|k Hk IH|d k Hk IH|k Hk IH].
  - apply quiet_ret.
  - apply quiet_throw.
  - apply quiet_bit; exact IH.
  - apply quiet_alignp; exact IH.
  - apply quiet_iseof; exact IH.
  - apply quiet_pos; exact IH.
  - apply quiet_hist; exact IH.
  - apply quiet_histb; exact IH.
  - apply quiet_yield; exact IH.
Qed.

Lemma noput_bind {A B} (p : prog A) (f : A -> prog B) :
  noput p -> (forall a, noput (f a)) -> noput (bind p f).
Proof.
  intros Hp Hf.
  induction Hp as [a|e|k Hk IH|k Hk IH|k Hk IH|k Hk IH|k Hk IH|d k Hk IH|k Hk IH];
    cbn [bind]; try constructor; auto.
Qed.

(* ---- the reading pieces of SpecR ------------------------------------------------------------ *)
Lemma quiet_bits_msbf_acc n acc : quiet (bits_msbf_acc n acc).
Proof.
  revert acc; induction n as [|n IH]; intros acc; cbn [bits_msbf_acc]; [apply quiet_ret|].
  apply quiet_bit. intros b. apply IH.
Qed.

Lemma quiet_rbits n : quiet (rbits n).
Proof. apply quiet_bits_msbf_acc. Qed.

Lemma quiet_corrupt {A} : quiet (@corrupt A).
Proof. apply quiet_throw. Qed.

Create HintDb quietdb.
Global Hint Resolve quiet_rbits quiet_corrupt quiet_ret quiet_throw quiet_assert : quietdb.

Local Ltac qs :=
  repeat first
  [ solve [auto with quietdb]
  | apply quiet_loop; intros
  | apply quiet_bind; [|intros]
  | apply quiet_bit; intros
  | apply quiet_alignp; intros
  | apply quiet_iseof; intros
  | apply quiet_pos; intros
  | match goal with |- quiet (if ?c then _ else _) => destruct c end
  | match goal with |- quiet (match ?x with _ => _ end) => destruct x end ].

Lemma quiet_read_map_rows hi base : quiet (read_map_rows hi base).
Proof. revert base; induction hi as [|h r IH]; intros base; cbn [read_map_rows]; qs. Qed.
Global Hint Resolve quiet_read_map_rows : quietdb.

Lemma quiet_read_symbol_map : quiet read_symbol_map.
Proof. unfold read_symbol_map. qs. Qed.
Global Hint Resolve quiet_read_symbol_map : quietdb.

Lemma quiet_read_unary m acc : quiet (read_unary m acc).
Proof. revert acc; induction m as [|m IH]; intros acc; cbn [read_unary]; qs. Qed.
Global Hint Resolve quiet_read_unary : quietdb.

Lemma quiet_read_sel g : quiet (read_sel g).
Proof. unfold read_sel. qs. Qed.
Global Hint Resolve quiet_read_sel : quietdb.

Lemma quiet_read_sels n g acc : quiet (SpecR.read_sels n g acc).
Proof. revert acc; induction n as [|n IH]; intros acc; cbn [SpecR.read_sels]; qs. Qed.
Global Hint Resolve quiet_read_sels : quietdb.

Lemma quiet_clen_body c : quiet (clen_body c).
Proof. unfold clen_body. qs. Qed.
Global Hint Resolve quiet_clen_body : quietdb.

Lemma quiet_read_lens depth n c acc : quiet (read_lens depth n c acc).
Proof. revert c acc; induction n as [|n IH]; intros c acc; cbn [read_lens]; qs. Qed.
Global Hint Resolve quiet_read_lens : quietdb.

Lemma quiet_hwalk rows perm z : quiet (hwalk rows perm z).
Proof. revert z; induction rows as [|r rest IH]; intros z; cbn [hwalk]; qs. Qed.

Lemma quiet_read_symbol t : quiet (read_symbol t).
Proof. apply quiet_hwalk. Qed.
Global Hint Resolve quiet_hwalk quiet_read_symbol : quietdb.

Lemma quiet_read_tables depth g a acc : quiet (read_tables depth g a acc).
Proof. revert acc; induction g as [|g IH]; intros acc; cbn [read_tables]; qs. Qed.
Global Hint Resolve quiet_read_tables : quietdb.

Lemma quiet_read_syms fuel : forall tabs sels gpos cur eob maxn n acc,
  quiet (read_syms fuel tabs sels gpos cur eob maxn n acc).
Proof.
  induction fuel as [|f IH]; intros tabs sels gpos cur eob maxn n acc; cbn [read_syms]; cbv zeta; qs.
Qed.
Global Hint Resolve quiet_read_syms : quietdb.

(* ---- the pieces of ImplSpecRun --------------------------------------------------------------- *)
Theorem quiet_hdr_ro : quiet hdr_ro.
Proof. unfold hdr_ro. qs. Qed.

(* one block up to the inverse BWT, under any quiet continuation *)
Lemma quiet_block_k {A} depth level (k : N -> list byte -> prog A) :
  (forall stored block, quiet (k stored block)) -> quiet (block_k depth level k).
Proof. intros Hk. unfold block_k. cbv zeta. qs. Qed.

Theorem quiet_block_ro depth level : quiet (block_ro depth level).
Proof. unfold block_ro. apply quiet_block_k. intros stored block. apply quiet_ret. Qed.
Global Hint Resolve quiet_hdr_ro quiet_block_ro : quietdb.

Theorem quiet_bof_ro depth level combined : quiet (bof_ro depth level combined).
Proof. unfold bof_ro. qs. Qed.

(* ---- non-vacuity ------------------------------------------------------------------------------- *)
(* "BZh9" on a state that already holds two bytes of output: level 9, 32 bits consumed, the
   output untouched *)
Example hdr_ro_run_witness :
  let s := mkAst (bits_of_bytes_msb [66; 90; 104; 57; 49]) 0 [7; 5] 2 in
  run hdr_ro s = Done 9 (mkAst (bits_of_bytes_msb [49]) 32 [7; 5] 2) /\
  a_out (res_state (run hdr_ro s)) = [7; 5] /\ Prog.a_len (res_state (run hdr_ro s)) = 2.
Proof. vm_compute. repeat split. Qed.

(* the same through [quiet_done] *)
Example quiet_done_hdr_witness :
  let s := mkAst (bits_of_bytes_msb [66; 90; 104; 57; 49]) 0 [7; 5] 2 in
  forall a s', run hdr_ro s = Done a s' -> a_out s' = [7; 5] /\ Prog.a_len s' = 2.
Proof. intros s a s' E. exact (quiet_done hdr_ro s a s' quiet_hdr_ro E). Qed.

(* a failing run (bad magic) on a state holding output: [quiet_fail] applies to a real failure *)
Example bof_ro_fail_witness :
  let s := mkAst (bits_of_bytes_msb [1; 2; 3; 4; 5; 6; 7]) 64 [9] 1 in
  run (bof_ro 10 9 0) s = Fail ECorrupted (mkAst (bits_of_bytes_msb [7]) 112 [9] 1).
Proof. vm_compute. reflexivity. Qed.

(* the footer branch of [bof_ro] (end magic, combined CRC 0, already byte aligned) *)
Example bof_ro_footer_witness :
  let s := mkAst (bits_of_bytes_msb [23; 114; 69; 56; 80; 144; 0; 0; 0; 0]) 32 [9; 8] 2 in
  run (bof_ro 10 9 0) s = Done None (mkAst [] 112 [9; 8] 2).
Proof. vm_compute. reflexivity. Qed.

(* the predicate is not trivially true: the emitting constructor is not quiet *)
Example put_is_not_quiet : ~ quiet (Put 1 (Ret tt)).
Proof. apply put_not_quiet. apply quiet_ret. Qed.

Print Assumptions quiet_hdr_ro.
Print Assumptions quiet_block_ro.
Print Assumptions quiet_bof_ro.
Print Assumptions quiet_done.
Print Assumptions quiet_fail.
Print Assumptions noput_quiet.
