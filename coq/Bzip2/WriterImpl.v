(* Implementation-level model of bzip2.Writer (bzip2/writer.go) OVER the implementation-level
   model of the bit writer (Prefix/WriterImpl.v) and a scripted, possibly failing sink.

   WHAT is written is the content model of Bzip2/SpecW.v (rle1_fill, bwt_encode,
   mtf_rle2_encode, tree_counts / tree_lens / canonical_codes, ...): those functions are reused
   for the values. What this file adds is the CALL STRUCTURE of writer.go:

   * the sequence of bit FIELDS handed to prefix.Writer, one [field] per WriteBits /
     WriteSymbol / "TryWriteSymbol, else WriteSymbol" / WritePads call, in the order of
     flush / Close / encodeBlock / encodePrefix / prefixWriter.WriteBitsBE64 /
     prefixWriter.WritePrefixCodes. Every field is executed by the bit writer model
     (write_bits / try_write_bits / write_pads = bwstep of WriterImpl.v), so the sink sees
     exactly the calls the real one sees: PushBits hands the 512-byte staging buffer to the
     sink when cntBuf >= 504, Flush hands over what is staged;
   * errors.Panic / errors.Recover: a sink error inside WriteBits / WriteSymbol unwinds to
     the deferred Recover of the func literal in flush / Close, which stores it in zw.err;
     the wr.Flush() that FOLLOWS the func literal is executed nevertheless;
   * the error latch zw.err (errClosed after a successful Close), errWrap;
   * InputOffset / OutputOffset (OutputOffset is what wr.Flush returns; wr.Offset is set to
     OutputOffset before every batch of fields);
   * the RLE1 stage as an incremental state (buffer, idx, lastVal, lastCnt) and the CRC
     register carried across Write calls; a block is encoded when a byte does not fit
     (inside Write) or at Close;
   * Reset: every field of the Writer re-initialised, prefix.Writer.Init on the old bit
     writer value ([pw_init]: all fields replaced), rle.Init.

   A run-time panic of the bit writer (EPanic: slice bounds) is not caught by
   errors.Recover: it unwinds through Write / Close to the caller and ends the history
   (outcome [ZOPanic]; proved unreachable in WriterImplThms.v).

   Not modelled: the compression level check of NewWriter (the level is a parameter,
   1..9), prefix.GenerateLengths failing (SpecW's generate_lengths is total; the Go error is
   unreachable with at most 258 symbols and 20 bits), the "unable to encode EOB marker"
   panic (numSyms >= 3 for a non-empty block). *)
From V Require Import Base.Prelude Bzip2.Common Bzip2.SpecW Prefix.ReaderImpl Prefix.WriterImpl Prefix.WriterFields.

(* the n low bits of v, most significant first *)
Definition msb_bits (n : nat) (v : N) : list bool := fast_rev (wbits n v []).

(* prefixWriter.WriteBitsBE64(v, nb): one WriteBits of the reversed value for nb <= 32,
   else WriteBits(reverse(top 32 bits), 32); WriteBits(reverse(low nb-32 bits), nb-32) *)
Definition be_fields (v : N) (nb : N) : list field :=
  if nb <=? 32 then [fbits (msb_bits (N.to_nat nb) v)]
  else [fbits (msb_bits 32 (N.shiftr v (nb - 32))); fbits (msb_bits (N.to_nat (nb - 32)) v)].

(* ---- bit fields: Prefix/WriterFields.v ([field], [fstep], [frun], [fbits], [fsym]) ---- *)

(* ---- the fields of the stream --------------------------------------------------------- *)
Definition hdr_fields (level : N) : list field :=
  be_fields hdrMagic 16 ++ be_fields 104 8 ++ be_fields (48 + level) 8.

Definition footer_fields (endCRC : N) : list field :=
  be_fields endMagic 48 ++ be_fields endCRC 32 ++ [FPads].

(* encodeBlock up to "zw.crc.val = 0" *)
Definition block_head_fields (blkCRC : N) : list field :=
  be_fields blkMagic 48 ++ be_fields blkCRC 32 ++ be_fields 0 1.

(* WriteBits(bmapHi, 16); WriteBits(bmapLo[r], 16) for the rows in use *)
Definition row_used (used : nmap bool) (r : N) : bool :=
  existsb (fun j => is_used used (16 * r + j)) (iota 16).
Definition symmap_fields (used : nmap bool) : list field :=
  fbits (map (row_used used) (iota 16)) ::
  flat_map (fun r => if row_used used r
                     then [fbits (map (fun j => is_used used (16 * r + j)) (iota 16))]
                     else []) (iota 16).

(* WriteSymbol(sym, &encSel): sym ones and a zero *)
Definition sel_field (j : N) : field := fbits (fast_rev (write_unary j [])).

(* prefixWriter.WritePrefixCodes for one tree: 5 bits, then per symbol "11" (WriteBits(3,2))
   while the length is below, "10" (WriteBits(1,2)) while above, "0" (WriteBits(0,1)) *)
Fixpoint lens_moves (clen : N) (lens : list N) : list field :=
  match lens with
  | [] => []
  | l :: r =>
    (if l <? clen then repeat (FBits 3 2) (N.to_nat (clen - l))
     else repeat (FBits 1 2) (N.to_nat (l - clen)))
    ++ FBits 0 1 :: lens_moves l r
  end.
Definition lens_fields (lens : list N) : list field :=
  let start := hd 0 lens in be_fields start 5 ++ lens_moves start lens.

(* one data symbol with its tree's code: (length, value), value most significant bit first *)
Definition code_field (codes : nmap (N * N)) (s : N) : field :=
  let (l, c) := nm_getd codes s (0, 0) in fsym (msb_bits (N.to_nat l) c).

(* encodePrefix *)
Definition prefix_fields (syms0 : list N) (nDict : N) : list field :=
  let numSyms := nDict + 2 in
  let syms := app_tr syms0 [numSyms - 1] in
  let n := len_n syms in
  let numTrees := num_trees n in
  let numSels := (n + numBlockSyms - 1) / numBlockSyms in
  let sels := map_tr (fun i => i mod numTrees) (iota numSels) in
  let counts := tree_counts syms numTrees in
  let lens := map (tree_lens counts numSyms) (iota numTrees) in
  let codes := nm_of_list (map canonical_codes lens) in
  be_fields numTrees 3 ++ be_fields numSels 15 ++
  map sel_field (mtf_encode_sels sels) ++
  flat_map lens_fields lens ++
  fast_rev (snd (fold_left
    (fun (st : N * list field) s =>
       let tree := (fst st / numBlockSyms) mod numTrees in
       (fst st + 1, code_field (nm_getd codes tree nm_empty) s :: snd st))
    syms (0, []))).

(* encodeBlock after "zw.crc.val = 0" *)
Definition block_body_fields (block : list byte) : list field :=
  let (bwt, ptr) := bwt_encode block in
  let used := used_map block in
  let dict := filter (is_used used) (iota 256) in
  let syms := mtf_rle2_encode bwt dict 0 [] in
  be_fields ptr 24 ++ symmap_fields used ++ prefix_fields syms (len_n dict).

(* ---- RLE1 stage, incremental (rle1.go runLengthEncoding.Write) --------------------------
   As SpecW.rle1_fill, but the run state is returned so that the next Write continues it.
   [r_buf] is rle.buf[:idx] reversed. When the byte does not fit (rleDone) Go has already
   updated lastCnt but not lastVal. *)
Record rlest := mkRle { r_buf : list byte; r_idx : N; r_lastVal : N; r_lastCnt : N; r_crc : N }.

Definition rle_init : rlest := mkRle [] 0 0 0 crc_init.

Fixpoint rle_write (L : N) (data : list byte) (s : rlest) : rlest * list byte :=
  match data with
  | [] => (s, [])
  | b :: r =>
    let cnt := (if r_lastVal s =? b then r_lastCnt s else 0) + 1 in
    let crc' := crc_step (r_crc s) b in
    let full := (mkRle (r_buf s) (r_idx s) (r_lastVal s) cnt (r_crc s), b :: r) in
    if cnt <? 4 then
      if L <=? r_idx s then full
      else rle_write L r (mkRle (b :: r_buf s) (r_idx s + 1) b cnt crc')
    else if cnt =? 4 then
      if L <=? r_idx s + 1 then full
      else rle_write L r (mkRle (0 :: b :: r_buf s) (r_idx s + 2) b cnt crc')
    else if cnt <? 256 then
      rle_write L r (mkRle (bump_head (r_buf s)) (r_idx s) b cnt crc')
    else
      if L <=? r_idx s then full
      else rle_write L r (mkRle (b :: r_buf s) (r_idx s + 1) b 1 crc')
  end.

(* ---- the Writer ----------------------------------------------------------------------- *)
Record bzw := mkBzw {
  z_in : Z;                 (* InputOffset *)
  z_out : Z;                (* OutputOffset *)
  z_wr : pwr;               (* wr (the sink is inside) *)
  z_err : option err;       (* err; Some EClosed = errClosed *)
  z_level : N;
  z_wrHdr : bool;
  z_blkCRC : N;
  z_endCRC : N;
  z_rle : rlest             (* rle and crc.val (as the CRC register) *)
}.

(* Reset(w) on any Writer value *)
Definition zreset (st : bzw) (s : wsink) : bzw :=
  mkBzw 0 0 (pw_init (z_wr st) s true) None (z_level st) false 0 0 rle_init.

(* NewWriter: new(Writer); level; Reset(w) *)
Definition znew (level : N) (s : wsink) : bzw :=
  zreset (mkBzw 0 0 zero_pwr None level false 0 0 rle_init) s.

(* errWrap(err, errors.Internal): an errors.Error with code Invalid becomes Internal;
   the sink's error is not an errors.Error and is returned as it is *)
Definition errwrap_w (e : err) : err := match e with EInvalid => EInternal | _ => e end.

Definition is_rt_panic (e : option err) : bool :=
  match e with Some EPanic => true | _ => false end.

(* the header, if it has not been written: (panic value, bit writer, wrHdr) *)
Definition write_hdr (st : bzw) (p : pwr) : option err * pwr * bool :=
  if z_wrHdr st then (None, p, true)
  else let '(e, p1) := frun p (hdr_fields (z_level st)) in
       (e, p1, match e with None => true | Some _ => false end).

(* the tail shared by flush and Close: "zw.OutputOffset, err = zw.wr.Flush()" after the func
   literal whose recovered panic value is [e]; returns (error to return, OutputOffset, wr).
   Some EPanic = a run-time panic that unwinds to the caller *)
Definition flush_tail (e : option err) (p : pwr) (out : Z) : option err * Z * pwr :=
  if is_rt_panic e then (e, out, p) else
  let '((off, fe), p1) := wflush p in
  if is_rt_panic fe then (fe, out, p1) else
  let err := match e with Some _ => e | None => fe end in
  (option_map errwrap_w err, off, p1).

(* flush(): (returned error, state). Some EPanic = run-time panic *)
Definition zflush (st : bzw) : option err * bzw :=
  let vals := fast_rev (r_buf (z_rle st)) in
  match vals with
  | [] => (None, st)
  | _ =>
    let p0 := set_offset (z_wr st) (z_out st) in
    let '(e1, p1, hdr1) := write_hdr st p0 in
    (* encodeBlock *)
    let blkCRC := crc_final (r_crc (z_rle st)) in
    let '(e2, p2, blk2, rle2) :=
      match e1 with
      | Some _ => (e1, p1, z_blkCRC st, z_rle st)
      | None =>
        let '(e, p) := frun p1 (block_head_fields blkCRC) in
        match e with
        | Some _ => (e, p, blkCRC, z_rle st)
        | None =>
          let rle' := mkRle (r_buf (z_rle st)) (r_idx (z_rle st)) (r_lastVal (z_rle st))
                            (r_lastCnt (z_rle st)) crc_init in          (* zw.crc.val = 0 *)
          let '(e', p') := frun p (block_body_fields vals) in (e', p', blkCRC, rle')
        end
      end in
    let '(err, out, p3) := flush_tail e2 p2 (z_out st) in
    match err with
    | Some e => (err, mkBzw (z_in st) out p3 err (z_level st) hdr1 blk2 (z_endCRC st) rle2)
    | None =>
      (None, mkBzw (z_in st) out p3 None (z_level st) hdr1 0
                   (crc_combine (z_endCRC st) blk2) rle_init)
    end
  end.

(* ---- the API ---------------------------------------------------------------------------- *)
Inductive zret :=
| ZRWrite (n : nat) (e : option err)
| ZRClose (e : option err)
| ZRReset
| ZRPanic.              (* a run-time panic reached the caller *)

(* the loop of Write; [cnt] = len(buf) of the call. Out of fuel is reported as EFuel
   (unreachable: every round after a flush stores at least one byte) *)
Fixpoint zwrite_loop (fuel : nat) (cnt : nat) (st : bzw) (data : list byte) : zret * bzw :=
  match fuel with
  | O => (ZRWrite 0 (Some EFuel), st)
  | S f =>
    let '(rle', rest) := rle_write (z_level st * blockSize) data (z_rle st) in
    let st1 := mkBzw (z_in st) (z_out st) (z_wr st) (z_err st) (z_level st) (z_wrHdr st)
                     (z_blkCRC st) (z_endCRC st) rle' in
    match rest with
    | [] => (ZRWrite cnt None,
             mkBzw (z_in st1 + Z.of_nat cnt) (z_out st1) (z_wr st1) (z_err st1) (z_level st1)
                   (z_wrHdr st1) (z_blkCRC st1) (z_endCRC st1) (z_rle st1))
    | _ =>
      let '(e, st2) := zflush st1 in
      match e with
      | Some EPanic => (ZRPanic, st2)
      | Some e' => (ZRWrite 0 (Some e'), st2)
      | None => zwrite_loop f cnt st2 rest
      end
    end
  end.

Definition zwrite (st : bzw) (data : list byte) : zret * bzw :=
  match z_err st with
  | Some e => (ZRWrite 0 (Some e), st)
  | None => zwrite_loop (S (length data)) (length data) st data
  end.

Definition zclose (st : bzw) : zret * bzw :=
  match z_err st with
  | Some EClosed => (ZRClose None, st)
  | Some e => (ZRClose (Some e), st)
  | None =>
    let '(e, st1) := zflush st in
    match e with
    | Some EPanic => (ZRPanic, st1)
    | Some e' => (ZRClose (Some e'), st1)
    | None =>
      let p0 := set_offset (z_wr st1) (z_out st1) in
      let '(e1, p1, hdr1) := write_hdr st1 p0 in
      let '(e2, p2) :=
        match e1 with
        | Some _ => (e1, p1)
        | None => frun p1 (footer_fields (z_endCRC st1))
        end in
      let '(err, out, p3) := flush_tail e2 p2 (z_out st1) in
      match err with
      | Some EPanic => (ZRPanic, st1)
      | Some _ =>
        (ZRClose err, mkBzw (z_in st1) out p3 err (z_level st1) hdr1 (z_blkCRC st1)
                            (z_endCRC st1) (z_rle st1))
      | None =>
        (ZRClose None, mkBzw (z_in st1) out p3 (Some EClosed) (z_level st1) hdr1 (z_blkCRC st1)
                             (z_endCRC st1) (z_rle st1))
      end
    end
  end.

(* ---- histories -------------------------------------------------------------------------- *)
Inductive zop :=
| ZWrite (data : list byte)
| ZClose
| ZReset (script : list sbeh) (rest : sbeh).       (* Reset(a new scripted sink) *)

(* what is observed after a call: the return values, the offsets, the sink in use *)
Record zobs := mkZobs { o_ret : zret; o_in : Z; o_out : Z; o_sink : wsink }.

Definition zstep (st : bzw) (o : zop) : zret * bzw :=
  match o with
  | ZWrite data => zwrite st data
  | ZClose => zclose st
  | ZReset script rest => (ZRReset, zreset st (new_sink script rest))
  end.

Definition zobserve (r : zret) (st : bzw) : zobs :=
  mkZobs r (z_in st) (z_out st) (bw_sink (z_wr st)).

(* a history ends at a run-time panic *)
Fixpoint zrun (st : bzw) (ops : list zop) : list zobs * bzw :=
  match ops with
  | [] => ([], st)
  | o :: r =>
    let '(ret, st') := zstep st o in
    match ret with
    | ZRPanic => ([zobserve ret st'], st')
    | _ => let '(obs, st'') := zrun st' r in (zobserve ret st' :: obs, st'')
    end
  end.

(* entry point for the extracted driver *)
Definition zrun_new (level : N) (script : list sbeh) (rest : sbeh) (ops : list zop) : list zobs :=
  fst (zrun (znew level (new_sink script rest)) ops).
