(* Layers (a)-(e) composed: Reader.decodeBlock (Bzip2/Impl.v [decode_block]), on the branch of a
   block, refines the read-only part of the specification's block ([block_ro] of
   Bzip2/ImplSpecRun.v): stored CRC, randomisation bit, origin pointer, symbol map, trees,
   selectors, symbols, MTF/RLE2, inverse BWT. *)
From V Require Import Base.Prelude Base.Prog Base.ProgThms Base.FuelThms Base.DepthThms
  Bzip2.Common Bzip2.SpecR Bzip2.BitIO Bzip2.Safe Prefix.Code Prefix.ReaderImpl Prefix.ReaderSpec
  Prefix.ReaderThms Prefix.DecTable Prefix.DecTableSpec Prefix.DecTableThms Prefix.DecReadThms
  Bzip2.Bwt Bzip2.Impl Bzip2.ImplBits Bzip2.ImplSim Bzip2.ImplSimP Bzip2.ImplSym Bzip2.ImplCodes
  Bzip2.ImplClens Bzip2.ImplTables Bzip2.ImplSyms Bzip2.ImplDict Bzip2.ImplSels Bzip2.ImplMtf
  Bzip2.ImplBwt Bzip2.ImplSpecRun Bzip2.ImplHdr.

Local Open Scope N_scope.
Local Transparent post.

(* ---- the Reader's block branch, named ---------------------------------------------------------- *)
Definition go_prefix_tail (numSyms numTrees : N) (dsel : dec) (numSels : N) : M (list N) :=
  mbind (Impl.read_sels (nat_of numSels) dsel numTrees []) (fun idxs =>
  mbind (lift (go_sels_mtf idxs)) (fun sels =>
  mbind mget (fun st =>
  let d := depth_of st in
  mbind (read_prefix_codes d (N.to_nat numSyms) (N.to_nat numTrees) 0) (fun _ =>
  mbind mget (fun st =>
  loopM d (sym_body (z_trees st) numSyms (z_level st * blockSize)) (mkSym 0 sels None 0 [])))))).

Definition go_block_tail (ptr : N) (dict : list byte) (syms : list N) : M (list byte) :=
  mbind mget (fun st =>
  mbind (lift (go_mtf_decode syms dict (z_level st * blockSize) 0 0 0 [])) (fun buf =>
  if len_n buf <=? ptr then corrupted else
  match go_bwt_decode buf ptr with
  | Some out => ret out
  | None => throw EPanic
  end)).

Definition go_block : M (list byte) :=
  mbind (mupd (fun st => set_crc st 0)) (fun _ =>
  mbind (m_read_be64 32) (fun blkCRC =>
  mbind (mupd (fun st => set_blkCRC st (w32 blkCRC))) (fun _ =>
  mbind (m_read_be64 1) (fun rnd =>
  if negb (rnd =? 0) then throw EDeprecated else
  mbind (m_read_be64 24) (fun ptr =>
  mbind (m_read_bits 16) (fun bmapHi =>
  mbind (read_dict 16 0 (bmapHi mod 65536) []) (fun dict =>
  mbind (decode_prefix (len_n dict)) (fun syms =>
  go_block_tail ptr dict syms)))))))).

Lemma decode_block_unfold :
  decode_block =
  mbind (m_read_be64 48) (fun magic =>
    if negb (magic =? blkMagic) then
      if magic =? endMagic then go_footer else corrupted
    else go_block).
Proof. reflexivity. Qed.

Lemma decode_prefix_unfold dictLen :
  decode_prefix dictLen =
  (let numSyms := dictLen + 2 in
   if numSyms <? 3 then corrupted else
   mbind (m_read_be64 3) (fun numTrees =>
   if (numTrees <? minNumTrees) || (maxNumTrees <? numTrees) then corrupted else
   mbind (m_read_be64 15) (fun numSels =>
   match decSel with
   | IOk dsel => go_prefix_tail numSyms numTrees dsel numSels
   | _ => throw EPanic
   end))).
Proof. reflexivity. Qed.

(* ---- helpers --------------------------------------------------------------------------------------- *)
Lemma mbind_assoc {A B C} (m : M A) (f : A -> M B) (g : B -> M C) st :
  mbind (mbind m f) g st = mbind m (fun a => mbind (f a) g) st.
Proof.
  unfold mbind. destruct (m st) as [[a|e] st1]; reflexivity.
Qed.

Section Block.
Variable data : list byte.
Hypothesis Hd : forall b, In b data -> b < 256.

Notation total := (8 * length data)%nat.
Notation simP := (simP data).
Notation Rep := (Rep data).
Notation sat := (sat data).
Notation PI := (PI true data).

Lemma depth_of_data R st : Rep R st -> (total < 2 ^ depth_of st)%nat.
Proof.
  intros (HC & _ & _). destruct HC as [_ C2 _ _ _ _].
  pose proof (depth_of_enough st) as H. rewrite C2 in H. lia.
Qed.

(* bytes stay bytes through the inverse BWT *)
Lemma bwt_decode_bytes buf ptr : Forall (fun b => b < 256) buf -> ptr < len_n buf ->
  Forall (fun b => b < 256) (bwt_decode buf (len_n buf) ptr).
Proof.
  intros Hb Hp. rewrite (bwt_decode_awalk buf ptr Hb Hp).
  generalize (N.to_nat ptr) as pos. generalize (length buf) as fuel.
  intros fuel.  induction fuel as [|fuel IH]; intros pos; cbn [awalk]; constructor.
  - destruct (Nat.lt_ge_cases (nth pos (bwt_perm buf) 0%nat) (length buf)) as [Hlt|Hge].
    + rewrite Forall_forall in Hb. apply Hb. apply nth_In. exact Hlt.
    + rewrite nth_overflow by exact Hge. lia.
  - apply IH.
Qed.

Definition block_post (io oo : Z) (e : option err) (lvl h ec : N) (rle : rlest)
           (a : list byte) (b : N * list byte) (st' : bzst) : Prop :=
  a = snd b /\ rest st' = (io, oo, e, lvl, h, fst b, ec, 0, rle) /\ length (z_trees st') = 6%nat /\
  fst b < 2 ^ 32 /\ Forall (fun x => x < 256) (snd b).

(* the symbols, from the selectors on *)
Lemma prefix_tail_sim depth v0 lvl numSyms numTrees dsel numSels :
  (total < 2 ^ depth)%nat -> decSel = IOk dsel ->
  3 <= numSyms <= 258 -> 2 <= numTrees <= 6 -> 1 <= lvl <= 9 ->
  simP (fun st => rest st = v0 /\ z_level st = lvl /\ length (z_trees st) = 6%nat)
       (go_prefix_tail numSyms numTrees dsel numSels)
       (bind (SpecR.read_sels (nat_of numSels) numTrees []) (fun selsMtf =>
        bind (read_tables depth (N.to_nat numTrees) (N.to_nat numSyms) []) (fun tabs =>
        read_syms (S (S (nat_of (lvl * blockSize)))) tabs
                  (mtf_decode_sels numTrees (firstn (N.to_nat maxSelectors) selsMtf))
                  0 empty_table (numSyms - 1) (lvl * blockSize) 0 [])))
       (fun a b st' => a = b /\ Forall (fun x => x < numSyms - 1) b /\
                       rest st' = v0 /\ z_level st' = lvl /\ length (z_trees st') = 6%nat).
Proof.
  intros Hdepth Hdsel HnS HnT Hlvl. unfold go_prefix_tail.
  set (P := fun st => rest st = v0 /\ z_level st = lvl /\ length (z_trees st) = 6%nat).
  assert (HPi : rd_indep P) by (intros st p HP; exact HP).
  apply (simP_bind_sim data Hd P _ _ eq (fun l => Forall (fun j => j < numTrees) l) _ _ _ HPi
           (sels_sim data Hd dsel (nat_of numSels) numTrees [] Hdsel HnT)).
  { intros s l s' E. destruct (spec_read_sels_range _ _ _ _ _ _ E (Forall_nil _)) as [H _]. exact H. }
  intros idxs selsMtf -> Hrange.
  destruct (sels_mtf_eq selsMtf numTrees HnT Hrange) as (sels & Hgo & Hlen & Hsr & Hfirst).
  apply (simP_ext data P (fun st =>
           mbind (read_prefix_codes (depth_of st) (N.to_nat numSyms) (N.to_nat numTrees) 0) (fun _ =>
           mbind mget (fun st1 =>
           loopM (depth_of st) (sym_body (z_trees st1) numSyms (z_level st1 * blockSize))
                 (mkSym 0 sels None 0 []))) st)).
  { intros st. symmetry. unfold mbind at 1. unfold lift. rewrite Hgo. reflexivity. }
  intros R st out len HP HR Hle. cbv beta.
  pose proof (depth_of_data R st HR) as Hd2. set (d := depth_of st) in *. clearbody d.
  assert (Halpha : (3 <= N.to_nat numSyms <= 258)%nat) by lia.
  pose proof (tables_sim data Hd d depth (N.to_nat numSyms) v0 Hd2 Hdepth Halpha (N.to_nat numTrees) 0 []
                         ltac:(lia)) as Htab.
  assert (Hbind : simP P
                    (mbind (read_prefix_codes d (N.to_nat numSyms) (N.to_nat numTrees) 0) (fun _ =>
                     mbind mget (fun st1 =>
                     loopM d (sym_body (z_trees st1) numSyms (z_level st1 * blockSize)) (mkSym 0 sels None 0 []))))
                    (bind (read_tables depth (N.to_nat numTrees) (N.to_nat numSyms) []) (fun tabs =>
                     read_syms (S (S (nat_of (lvl * blockSize)))) tabs
                       (mtf_decode_sels numTrees (firstn (N.to_nat maxSelectors) selsMtf))
                       0 empty_table (numSyms - 1) (lvl * blockSize) 0 []))
                    (fun a b st' => a = b /\ Forall (fun x => x < numSyms - 1) b /\
                                    rest st' = v0 /\ z_level st' = lvl /\ length (z_trees st') = 6%nat)).
  { intros R0 st0 out0 len0 HP0 HR0 Hle0.
    assert (Hlev0 : z_level st0 = lvl) by (destruct HP0 as (_ & H & _); exact H).
    assert (Hv0 : forall st', rest st' = v0 -> z_level st' = lvl).
    { intros st' Hr'. destruct HP0 as (Hr0 & _). unfold rest in Hr0, Hr'. rewrite <- Hr0 in Hr'.
      inversion Hr'. congruence. }
    revert R0 st0 out0 len0 HP0 HR0 Hle0 Hlev0.
    intros R0 st0 out0 len0 HP0. revert R0 st0 out0 len0 HP0.
    assert (Hsim : simP (fun st => rest st = v0 /\ length (z_trees st) = 6%nat)
              (mbind (read_prefix_codes d (N.to_nat numSyms) (N.to_nat numTrees) 0) (fun _ =>
               mbind mget (fun st1 =>
               loopM d (sym_body (z_trees st1) numSyms (z_level st1 * blockSize)) (mkSym 0 sels None 0 []))))
              (bind (read_tables depth (N.to_nat numTrees) (N.to_nat numSyms) []) (fun tabs =>
               read_syms (S (S (nat_of (lvl * blockSize)))) tabs
                 (mtf_decode_sels numTrees (firstn (N.to_nat maxSelectors) selsMtf))
                 0 empty_table (numSyms - 1) (lvl * blockSize) 0 []))
              (fun a b st' => a = b /\ Forall (fun x => x < numSyms - 1) b /\
                              rest st' = v0 /\ z_level st' = lvl /\ length (z_trees st') = 6%nat)).
    { eapply (simP_bind data Hd).
      - eapply simP_weaken; [exact Htab| |intros a b st1 H; exact H].
        intros st1 (H1 & H3). split; [exact H1|]. split; [exact H3|]. split; [reflexivity|].
        cbn [firstn rev]. constructor.
      - intros u tabs. cbn beta. apply simP_get. intros st1.
        intros R1 st1' out1 len1 [(Hr1 & Hl1 & Hlt & HF) ->] HR1 Hle1.
        rewrite (Hv0 st1 Hr1).
        assert (HF' : Forall2 (tree_ok (N.to_nat numSyms)) (firstn (length tabs) (z_trees st1)) tabs).
        { rewrite Hlt. cbn [Nat.add]. exact HF. }
        pose proof (syms_sim data Hd (N.to_nat numSyms) Halpha (z_trees st1) tabs HF' (lvl * blockSize)
                             ltac:(unfold blockSize; lia) d sels
                             (mtf_decode_sels numTrees (firstn (N.to_nat maxSelectors) selsMtf)) Hd2) as Hsy.
        rewrite N2Nat.id in Hsy.
        assert (Hg : N.of_nat (length tabs) = numTrees) by lia.
        rewrite Hg in Hsy. specialize (Hsy Hsr (eq_sym Hfirst)).
        specialize (Hsy R1 st1 out1 len1 HR1 Hle1).
        destruct (run (read_syms (S (S (nat_of (lvl * blockSize)))) tabs
                        (mtf_decode_sels numTrees (firstn (N.to_nat maxSelectors) selsMtf))
                        0 empty_table (numSyms - 1) (lvl * blockSize) 0 []) (sat R1 out1 len1))
          as [l s'|e s'] eqn:Er.
        + destruct Hsy as [(R' & a & p' & -> & HR' & Em & <- & HP' & _)|(Hw & p' & Em)].
          * left. exists R', a, (set_rd st1 p'). split; [reflexivity|]. split; [exact HR'|].
            split; [exact Em|]. split; [|exact HP'].
            split; [reflexivity|]. split; [|split; [exact Hr1 | split; [exact (Hv0 st1 Hr1) | exact Hl1]]].
            apply (spec_read_syms_range _ _ _ _ _ _ _ _ _ _ _ _ Er). constructor.
          * right. split; [exact Hw|]. exists (set_rd st1 p'). exact Em.
        + destruct Hsy as (p' & Em). exists (set_rd st1 p'). exact Em. }
    intros R0 st0 out0 len0 HP0 HR0 Hle0 _.
    apply (Hsim R0 st0 out0 len0); [|exact HR0 | exact Hle0].
    destruct HP0 as (H1 & _ & H3). split; assumption. }
  exact (Hbind R st out len HP HR Hle).
Qed.

(* decodePrefix after the symbol map *)
Definition prefix_spec (depth : nat) (lvl dictLen : N) : prog (list N) :=
  bind (assert_p (0 <? dictLen) ECorrupted) (fun _ =>
  bind (rbits 3) (fun nGroups =>
  bind (assert_p ((2 <=? nGroups) && (nGroups <=? 6)) ECorrupted) (fun _ =>
  bind (rbits 15) (fun nSelectors =>
  bind (SpecR.read_sels (nat_of nSelectors) nGroups []) (fun selsMtf =>
  bind (read_tables depth (N.to_nat nGroups) (N.to_nat (dictLen + 2)) []) (fun tabs =>
  read_syms (S (S (nat_of (lvl * blockSize)))) tabs
            (mtf_decode_sels nGroups (firstn (N.to_nat maxSelectors) selsMtf))
            0 empty_table (dictLen + 1) (lvl * blockSize) 0 [])))))).

Lemma decode_prefix_sim depth v0 lvl dictLen :
  (total < 2 ^ depth)%nat -> 1 <= lvl <= 9 -> dictLen <= 256 ->
  simP (fun st => rest st = v0 /\ z_level st = lvl /\ length (z_trees st) = 6%nat)
       (decode_prefix dictLen) (prefix_spec depth lvl dictLen)
       (fun a b st' => a = b /\ Forall (fun x => x < dictLen + 1) b /\
                       rest st' = v0 /\ z_level st' = lvl /\ length (z_trees st') = 6%nat /\
                       0 < dictLen).
Proof.
  intros Hdepth Hlvl Hdl. rewrite decode_prefix_unfold. cbv zeta. unfold prefix_spec.
  set (P := fun st => rest st = v0 /\ z_level st = lvl /\ length (z_trees st) = 6%nat).
  assert (HPi : rd_indep P) by (intros st p HP; exact HP).
  destruct (0 <? dictLen) eqn:E0.
  2:{ replace (dictLen + 2 <? 3) with true by lia. cbn [assert_p bind]. apply simP_throw. }
  replace (dictLen + 2 <? 3) with false by lia. cbn [assert_p bind].
  apply (simP_bind_sim data Hd P _ _ eq (fun _ => True) _ _ _ HPi
           (sim_read_be64 data Hd 3 ltac:(lia)) (post_true _)).
  intros numTrees nGroups -> _. unfold minNumTrees, maxNumTrees.
  destruct ((2 <=? nGroups) && (nGroups <=? 6)) eqn:Eg.
  2:{ replace ((nGroups <? 2) || (6 <? nGroups)) with true by lia. cbn [assert_p bind]. apply simP_throw. }
  replace ((nGroups <? 2) || (6 <? nGroups)) with false by lia. cbn [assert_p bind].
  apply (simP_bind_sim data Hd P _ _ eq (fun _ => True) _ _ _ HPi
           (sim_read_be64 data Hd 15 ltac:(lia)) (post_true _)).
  intros numSels nSelectors -> _.
  destruct decSel_ok as (dsel & codes & Hdsel & _).
  rewrite Hdsel.
  pose proof (prefix_tail_sim depth v0 lvl (dictLen + 2) nGroups dsel nSelectors Hdepth Hdsel
                ltac:(lia) ltac:(lia) Hlvl) as Ht.
  replace (dictLen + 2 - 1) with (dictLen + 1) in Ht by lia.
  eapply simP_weaken; [exact Ht | intros st H; exact H |].
  intros a b st (H1 & H2 & H3 & H4 & H5). repeat split; try assumption. lia.
Qed.

(* the inverse transforms *)
Lemma block_tail_ok lvl ptr dict syms st :
  z_level st = lvl -> 1 <= lvl <= 9 -> dict <> [] -> Forall (fun b => b < 256) dict ->
  Forall (fun x => x < N.of_nat (length dict) + 1) syms ->
  go_block_tail ptr dict syms st =
  match mtf_rle2_decode syms dict (lvl * blockSize) 1 0 0 [] with
  | None => (RThrow ECorrupted, st)
  | Some (nblock, tt_rev) =>
    if ptr <? nblock then (ROk (bwt_decode (fast_rev tt_rev) nblock ptr), st)
    else (RThrow ECorrupted, st)
  end.
Proof.
  intros Hlev Hlvl Hdict Hbytes Hsyms. unfold go_block_tail, mbind at 1, mget. rewrite Hlev.
  assert (Hblk : lvl * blockSize <= 4194302) by (unfold blockSize; lia).
  assert (Hrange : syms_in_range (length dict) syms).
  { eapply Forall_impl; [|exact Hsyms]. cbn beta. intros x Hx. lia. }
  unfold mbind at 1, lift. rewrite (go_mtf_decode_eq syms dict _ Hdict Hblk Hrange).
  destruct (mtf_rle2_decode syms dict (lvl * blockSize) 1 0 0 []) as [[nblock tt_rev]|] eqn:Em; [|reflexivity].
  pose proof (mtf_rle2_decode_bytes syms dict _ _ _ Hbytes Em) as Hb.
  assert (Hgo : go_mtf_decode syms dict (lvl * blockSize) 0 0 0 [] = ROk (rev tt_rev)).
  { rewrite (go_mtf_decode_eq syms dict _ Hdict Hblk Hrange), Em. reflexivity. }
  destruct (go_mtf_decode_length syms dict _ (rev tt_rev) Hdict Hblk Hrange Hgo) as (_ & Em2).
  rewrite Em in Em2.
  assert (Hn : nblock = N.of_nat (length tt_rev)).
  { injection Em2 as Hn _. rewrite rev_length in Hn. exact Hn. }
  clear Em2. rewrite fast_rev_eq. rewrite len_n_eq, rev_length, <- Hn.
  destruct (ptr <? nblock) eqn:Ep.
  - replace (nblock <=? ptr) with false by lia.
    assert (Hbr : Forall (fun b => b < 256) (rev tt_rev)) by (apply Forall_rev; exact Hb).
    rewrite (go_bwt_decode_eq (rev tt_rev) ptr Hbr) by (rewrite len_n_eq, rev_length; lia).
    rewrite len_n_eq, rev_length, <- Hn. reflexivity.
  - replace (nblock <=? ptr) with true by lia. reflexivity.
Qed.

Lemma post_msbf_acc n : forall acc, post (fun v => v < (acc + 1) * 2 ^ N.of_nat n) (bits_msbf_acc n acc).
Proof.
  induction n as [|n IH]; intros acc s v s' E; cbn [bits_msbf_acc] in E.
  - cbn [run] in E. inversion E; subst. cbn. lia.
  - cbn [run] in E. destruct (a_in s) as [|b r]; [discriminate|].
    apply IH in E. rewrite Nat2N.inj_succ, N.pow_succ_r'. destruct b; cbn [N.b2n] in E; lia.
Qed.

Lemma post_rbits n : post (fun v => v < 2 ^ N.of_nat n) (rbits n).
Proof.
  intros s v s' E. pose proof (post_msbf_acc n 0 s v s' E) as H. cbn beta in H. lia.
Qed.

(* the specification's block after the symbol map, regrouped *)
Lemma block_after_map_eq depth lvl (stored : N) origPtr used s :
  run (let nInUse := len_n used in
       bind (assert_p (0 <? nInUse) ECorrupted) (fun _ =>
       let alphaSize := nInUse + 2 in
       let eob := nInUse + 1 in
       bind (rbits 3) (fun nGroups =>
       bind (assert_p ((2 <=? nGroups) && (nGroups <=? 6)) ECorrupted) (fun _ =>
       bind (rbits 15) (fun nSelectors =>
       bind (SpecR.read_sels (nat_of nSelectors) nGroups []) (fun selsMtf =>
       let sels := mtf_decode_sels nGroups (firstn (N.to_nat maxSelectors) selsMtf) in
       bind (read_tables depth (N.to_nat nGroups) (N.to_nat alphaSize) []) (fun tabs =>
       let maxn := lvl * blockSize in
       bind (read_syms (S (S (nat_of maxn))) tabs sels 0 empty_table eob maxn 0 []) (fun syms =>
       match mtf_rle2_decode syms used maxn 1 0 0 [] with
       | None => corrupt
       | Some (nblock, tt_rev) =>
         bind (assert_p (origPtr <? nblock) ECorrupted) (fun _ =>
         Ret (stored, bwt_decode (fast_rev tt_rev) nblock origPtr))
       end)))))))) s
  = run (bind (prefix_spec depth lvl (len_n used)) (fun syms =>
         match mtf_rle2_decode syms used (lvl * blockSize) 1 0 0 [] with
         | None => corrupt
         | Some (nblock, tt_rev) =>
           bind (assert_p (origPtr <? nblock) ECorrupted) (fun _ =>
           Ret (stored, bwt_decode (fast_rev tt_rev) nblock origPtr))
         end)) s.
Proof.
  symmetry. revert s. cbv zeta. unfold prefix_spec.
  match goal with |- forall s, run ?a s = run ?b s => change (peq a b) end.
  apply peq_assoc_bind; intros _.
  apply peq_assoc_bind; intros nGroups.
  apply peq_assoc_bind; intros _.
  apply peq_assoc_bind; intros nSelectors.
  apply peq_assoc_bind; intros selsMtf.
  apply peq_assoc_bind; intros tabs.
  apply peq_refl.
Qed.

Theorem block_sim depth io oo e lvl h bc ec c rle :
  (total < 2 ^ depth)%nat -> 1 <= lvl <= 9 ->
  simP (fun st => rest st = (io, oo, e, lvl, h, bc, ec, c, rle) /\ length (z_trees st) = 6%nat)
       go_block (block_ro depth lvl) (block_post io oo e lvl h ec rle).
Proof.
  intros Hdepth Hlvl. unfold go_block, block_ro, block_k.
  (* crc.val = 0 *)
  set (P1 := fun st => rest st = (io, oo, e, lvl, h, bc, ec, 0, rle) /\ length (z_trees st) = 6%nat).
  apply (simP_pre data _ _ (fun _ st => P1 st)).
  { intros st (Hr & Hl). exists tt, (set_crc st 0). split; [reflexivity|]. split; [reflexivity|].
    split; [|exact Hl]. unfold rest in *.
    cbn [z_inOff z_outOff z_err z_level z_hdrftr z_blkCRC z_endCRC z_crc z_rle set_crc].
    inversion Hr. reflexivity. }
  intros _.
  assert (HP1i : rd_indep P1) by (intros st p HP; exact HP).
  apply (simP_bind_sim data Hd P1 _ _ eq (fun v => v < 2 ^ 32) _ _ _ HP1i
           (sim_read_be64 data Hd 32 ltac:(lia)) (post_rbits 32)).
  intros blkCRC stored -> Hst32.
  set (P2 := fun st => rest st = (io, oo, e, lvl, h, stored, ec, 0, rle) /\ length (z_trees st) = 6%nat).
  assert (HP2i : rd_indep P2) by (intros st p HP; exact HP).
  apply (simP_pre data _ _ (fun _ st => P2 st)).
  { intros st (Hr & Hl). exists tt, (set_blkCRC st (w32 stored)). split; [reflexivity|]. split; [reflexivity|].
    split; [|exact Hl]. unfold rest in *.
    cbn [z_inOff z_outOff z_err z_level z_hdrftr z_blkCRC z_endCRC z_crc z_rle set_blkCRC].
    unfold w32. rewrite N.mod_small by exact Hst32. inversion Hr. reflexivity. }
  intros _.
  apply (simP_bind_sim data Hd P2 _ _ eq (fun _ => True) _ _ _ HP2i
           (sim_read_be64 data Hd 1 ltac:(lia)) (post_true _)).
  intros rnd rand -> _.
  destruct (rand =? 0); cbn [negb assert_p bind]; [|apply simP_throw].
  apply (simP_bind_sim data Hd P2 _ _ eq (fun _ => True) _ _ _ HP2i
           (sim_read_be64 data Hd 24 ltac:(lia)) (post_true _)).
  intros ptr origPtr -> _.
  (* the symbol map *)
  apply (simP_ext data P2 (mbind (mbind (m_read_bits 16) (fun hi => read_dict 16 0 (hi mod 65536) []))
                                 (fun dict => mbind (decode_prefix (len_n dict))
                                                    (fun syms => go_block_tail origPtr dict syms)))).
  { intros st. apply mbind_assoc. }
  apply (simP_bind_sim data Hd P2 _ _ eq
           (fun used => Forall (fun b => b < 256) used /\ (length used <= 256)%nat) _ _ _ HP2i
           (dict_sim data Hd)).
  { intros s used s' E. destruct (read_symbol_map_sorted s used s' E) as (H1 & H2 & _). split; assumption. }
  intros dict used -> (Hub & Hul).
  (* decodePrefix *)
  eapply simP_run_eq; [intros s; apply block_after_map_eq|].
  assert (Hdl : len_n used <= 256) by (rewrite len_n_eq; lia).
  eapply (simP_bind data Hd).
  { eapply simP_weaken;
      [exact (decode_prefix_sim depth (io, oo, e, lvl, h, stored, ec, 0, rle) lvl (len_n used) Hdepth Hlvl Hdl)
      | | intros a b st H; exact H].
    intros st (Hr & Hl). split; [exact Hr|]. split; [|exact Hl].
    unfold rest in Hr. inversion Hr. reflexivity. }
  intros syms_g syms. cbn beta.
  (* the inverse transforms: pure on both sides *)
  intros R st out len (-> & Hsr & Hr & Hlev & Hl & Hpos) HR Hle.
  assert (Hdict : used <> []).
  { intros ->. rewrite len_n_eq in Hpos. cbn [length] in Hpos. lia. }
  assert (Hsyms : Forall (fun x => x < N.of_nat (length used) + 1) syms).
  { rewrite len_n_eq in Hsr. exact Hsr. }
  rewrite (block_tail_ok lvl origPtr used syms st Hlev Hlvl Hdict Hub Hsyms).
  destruct (mtf_rle2_decode syms used (lvl * blockSize) 1 0 0 []) as [[nblock tt_rev]|] eqn:Em.
  - destruct (origPtr <? nblock) eqn:Ep; cbn [assert_p bind run].
    + left. exists R, (bwt_decode (fast_rev tt_rev) nblock origPtr), st.
      split; [reflexivity|]. split; [lia|]. split; [reflexivity|]. split; [|exact HR].
      unfold block_post. cbn [fst snd]. split; [reflexivity|]. split; [exact Hr|]. split; [exact Hl|].
      split; [exact Hst32|].
      (* bytes *)
      pose proof (mtf_rle2_decode_bytes syms used _ _ _ Hub Em) as Hb.
      assert (Hn : nblock = len_n (fast_rev tt_rev)).
      { assert (Hblk : lvl * blockSize <= 4194302) by (unfold blockSize; lia).
        assert (Hrange : syms_in_range (length used) syms).
        { eapply Forall_impl; [|exact Hsyms]. cbn beta. intros x Hx. lia. }
        assert (Hgo : go_mtf_decode syms used (lvl * blockSize) 0 0 0 [] = ROk (rev tt_rev)).
        { rewrite (go_mtf_decode_eq syms used _ Hdict Hblk Hrange), Em. reflexivity. }
        destruct (go_mtf_decode_length syms used _ (rev tt_rev) Hdict Hblk Hrange Hgo) as (_ & Em2).
        rewrite Em in Em2. injection Em2 as Hn _. rewrite rev_length in Hn.
        rewrite fast_rev_eq, len_n_eq, rev_length. exact Hn. }
      rewrite Hn. apply bwt_decode_bytes.
      * rewrite fast_rev_eq. apply Forall_rev. exact Hb.
      * rewrite <- Hn. lia.
    + exists st. left. reflexivity.
  - cbn [run]. exists st. left. reflexivity.
Qed.

End Block.
