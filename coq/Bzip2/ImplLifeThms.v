(* LIFECYCLE THEOREMS for the implementation-level model of bzip2.Reader
   (Bzip2/Impl.v + Bzip2/ImplLife.v):

     bz_error_sticky     C09  an error returned by Read (io.EOF included) is returned by every
                              later Read, with no bytes and nothing moving; Close surfaces it.
                              For every Reader state that NewReader / Reset / Read / Close can
                              produce ([good], Bzip2/ImplLifeInv.v) and - with the two exotic
                              cases spelled out - for every state whatsoever
                              (bz_error_sticky_any_state; the cases are real:
                              bz_error_sticky_unconditional_refuted)
     bz_close_frame      C18  Close never touches source, bit reader, offsets, CRCs, Decoder
                              objects - from ANY state; with zr.err == nil it does NOTHING
     bz_closed_inert     C18  after Close on a Reader with a latched error: Read / Close in any
                              order return the closed error / nil (or the latched error), deliver
                              nothing, move nothing.
                              A Close with NO latched error (middle of a stream, or before the
                              first Read) closes nothing: bz_close_closes_refuted
     bz_reset_as_new     C14  Reset of ANY state with six Decoder objects = NewReader, call by
                              call, for every later history (further Resets / Closes included).
                              No recycled capacity is observable (unlike flate.Reader). *)
From V Require Import Base.Prelude Prefix.ReaderImpl Prefix.DecTable.
From V Require Import Bzip2.Impl Bzip2.ImplLife Bzip2.ImplLifeLatch Bzip2.ImplLifeSim Bzip2.ImplLifeInv.
From V Require Bzip2.SpecR Bzip2.ImplThms Bzip2.ImplReset.
From Coq Require Import ZifyBool ZifyN ZifyNat.

Local Open Scope N_scope.

Definition is_read (o : bzop) : Prop := match o with BRead _ => True | _ => False end.
Definition no_reset (o : bzop) : Prop := match o with BReset _ _ _ _ => False | _ => True end.

(* ---- C09: the error is sticky ---------------------------------------------------------------------------- *)
(* on a latched Reader every Read returns (0, e) and changes nothing; Close returns nil for
   io.EOF / closed (the error becomes the closed error) and e otherwise *)
Theorem bz_latched_sticky st e : latched st e ->
  (forall ops, Forall is_read ops ->
     bz_ops st ops = (map (fun _ => bzlobs_of BkRead [] (Some e) st) ops, st)) /\
  fst (bz_close st) = close_ret e /\ latched (snd (bz_close st)) (closed_class e).
Proof.
  intros HL. split; [|apply bz_close_latched; exact HL].
  induction ops as [|o r IH]; intros Hall; [reflexivity|].
  inversion Hall as [|? ? Ho Hr]; subst. destruct o as [k| |]; try contradiction.
  cbn [bz_ops bz_op map]. rewrite (bz_read_latched st k e HL). rewrite (IH Hr). reflexivity.
Qed.

(* Once a Read has returned a non-nil error e - io.EOF and the closed error included - the Reader
   is latched: every later Read returns (0, e): no byte, the same error, InputOffset /
   OutputOffset / the source position unchanged (the state does not change at all), however many
   Reads follow and with whatever buffer sizes.  Close then returns nil if e is io.EOF (or the
   closed error) and e otherwise, and leaves the Reader latched.
   [good st]: st is a state of a Reader made by NewReader / Reset over a source of bytes and
   driven by any calls (Bzip2/ImplLifeInv.v good_new, good_reset, good_op). *)
Theorem bz_error_sticky st n bs e st' :
  good st -> bz_read st n = ((bs, Some e), st') ->
  bs = [] /\ z_outOff st' = z_outOff st /\ latched st' e /\
  (forall ops, Forall is_read ops ->
     bz_ops st' ops = (map (fun _ => bzlobs_of BkRead [] (Some e) st') ops, st')) /\
  fst (bz_close st') = close_ret e /\ latched (snd (bz_close st')) (closed_class e).
Proof.
  intros HG H. destruct (bz_read_err_cases st n bs e st' H) as (Hb & He & Ho & _).
  pose proof (good_read st n HG) as HG'. rewrite H in HG'. cbn [snd] in HG'.
  assert (HL : latched st' e) by (split; [exact He | apply (good_latch st' HG'); rewrite He; discriminate]).
  split; [exact Hb|]. split; [exact Ho|]. split; [exact HL|]. apply bz_latched_sticky. exact HL.
Qed.

(* The same for EVERY state, reachable or not: the error is latched except in two cases the code
   does not exclude by itself -
   (a) Read(empty buffer) on a Reader whose zr.err already stood in front of pending output;
   (b) Discard came back short after the closure had decoded a block. *)
Theorem bz_error_sticky_any_state st n bs e st' :
  bz_read st n = ((bs, Some e), st') ->
  bs = [] /\ z_err st' = Some e /\ z_outOff st' = z_outOff st /\
  (latched st' e \/
   (n = 0%nat /\ st' = st) \/
   exists s, z_err s = None /\ stuck (z_rle s) /\ short_flush_after_block s).
Proof.
  intros H. destruct (bz_read_err_cases st n bs e st' H) as (Hb & He & Ho & Hc).
  split; [exact Hb|]. split; [exact He|]. split; [exact Ho|].
  destruct Hc as [Hs|[Hz|Hx]]; [left; split; assumption | right; left; exact Hz | right; right; exact Hx].
Qed.

(* "sticky from ANY state" is not what the code does *)
Definition bz_error_sticky_unconditional_statement : Prop :=
  forall st n bs e st' k, bz_read st n = ((bs, Some e), st') -> fst (fst (bz_read st' k)) = [].

(* ---- C18: closed means closed ----------------------------------------------------------------------------- *)
(* Close, from ANY state: the source, the bit reader, both offsets, level, counters, CRCs and the
   Decoder objects are untouched; the result is nil or the error in zr.err; with zr.err == nil
   Close changes NOTHING (not even the pending output of the RLE1 stage), with an error other
   than io.EOF / closed it changes nothing either *)
Theorem bz_close_frame st :
  let st1 := snd (bz_close st) in
  z_rd st1 = z_rd st /\ z_inOff st1 = z_inOff st /\ z_outOff st1 = z_outOff st /\
  z_level st1 = z_level st /\ z_hdrftr st1 = z_hdrftr st /\ z_blkCRC st1 = z_blkCRC st /\
  z_endCRC st1 = z_endCRC st /\ z_crc st1 = z_crc st /\ z_trees st1 = z_trees st /\
  (z_err st = None -> bz_close st = (None, st)) /\
  (forall e, z_err st = Some e -> is_done e = false -> bz_close st = (Some e, st)) /\
  (forall e, z_err st = Some e -> is_done e = true ->
     bz_close st = (None, set_err (set_rle st (rle_init [])) (Some EClosed))).
Proof.
  unfold bz_close. cbv zeta.
  destruct (z_err st) as [e|] eqn:E.
  - destruct e; cbn [snd]; repeat (split; [reflexivity|]);
      (split; [intros C; discriminate C|]);
      (split; intros e' He' Hd; inversion He'; subst e'; try discriminate Hd; reflexivity).
  - cbn [snd]. repeat split; try reflexivity; intros e' He'; discriminate He'.
Qed.

(* After Close on a Reader whose error is latched (any error: io.EOF, a decoding error, the
   closed error itself) - or, for io.EOF / the closed error, on any Reader holding that error
   whatever its RLE1 stage holds -: Close returned nil for io.EOF / closed and the error
   otherwise; every later Read returns no byte and the closed error (resp. that error), every
   later Close nil (resp. that error), in any order and number; the state never changes again,
   so offsets and source position stay where they were. *)
Theorem bz_closed_inert st e :
  z_err st = Some e -> (is_done e = true \/ stuck (z_rle st)) ->
  let st1 := snd (bz_close st) in
  let e' := closed_class e in
  fst (bz_close st) = close_ret e /\ latched st1 e' /\
  (z_rd st1 = z_rd st /\ z_inOff st1 = z_inOff st /\ z_outOff st1 = z_outOff st) /\
  forall ops, Forall no_reset ops ->
    bz_ops st1 ops =
    (map (fun o => match o with
                   | BRead _ => bzlobs_of BkRead [] (Some e') st1
                   | _ => bzlobs_of BkClose [] (close_ret e') st1
                   end) ops, st1).
Proof.
  intros He Hcase. cbv zeta.
  pose proof (bz_close_eq st e He) as Hc.
  set (st1 := snd (bz_close st)).
  assert (HL : latched st1 (closed_class e)).
  { destruct (is_done e) eqn:Hd.
    - assert (E : closed_class e = EClosed) by (destruct e; try discriminate Hd; reflexivity).
      rewrite E. apply (bz_close_done_latched st e He Hd).
    - destruct Hcase as [C|Hs]; [discriminate C|].
      unfold st1. apply (bz_close_latched st e). split; assumption. }
  (* Close on st1 changes nothing *)
  assert (Hfix : bz_close st1 = (close_ret (closed_class e), st1)).
  { rewrite (bz_close_eq st1 _ (proj1 HL)). unfold st1. rewrite Hc. cbn [snd].
    destruct e; cbn [is_done closed_class close_ret]; reflexivity. }
  split; [rewrite Hc; reflexivity|]. split; [exact HL|].
  split.
  { pose proof (bz_close_frame st) as HF. cbv zeta in HF. fold st1 in HF.
    destruct HF as (F1 & F2 & F3 & _). repeat split; assumption. }
  induction ops as [|o r IH]; intros Hall; [reflexivity|].
  inversion Hall as [|? ? Ho Hr]; subst. destruct o as [k| |]; try contradiction.
  - cbn [bz_ops bz_op map]. rewrite (bz_read_latched st1 k _ HL). rewrite (IH Hr). reflexivity.
  - cbn [bz_ops bz_op map]. rewrite Hfix. rewrite (IH Hr). reflexivity.
Qed.

(* for the states a Reader reaches the side condition holds by itself: whenever zr.err is set the
   RLE1 stage is exhausted ([good], Bzip2/ImplLifeInv.v) *)
Corollary bz_closed_inert_good st e :
  good st -> z_err st = Some e ->
  let st1 := snd (bz_close st) in
  let e' := closed_class e in
  fst (bz_close st) = close_ret e /\ latched st1 e' /\
  (z_rd st1 = z_rd st /\ z_inOff st1 = z_inOff st /\ z_outOff st1 = z_outOff st) /\
  forall ops, Forall no_reset ops ->
    bz_ops st1 ops =
    (map (fun o => match o with
                   | BRead _ => bzlobs_of BkRead [] (Some e') st1
                   | _ => bzlobs_of BkClose [] (close_ret e') st1
                   end) ops, st1).
Proof.
  intros HG He. apply bz_closed_inert; [exact He|]. right. apply (good_latch st HG). rewrite He. discriminate.
Qed.

(* "closed means closed from ANY state" is NOT what the code does: with zr.err == nil Close does
   nothing; the next Read goes on delivering. *)
Definition bz_close_closes_statement : Prop :=
  forall st n, fst (fst (bz_read (snd (bz_close st)) n)) = [].

(* what it does instead, from any state without an error *)
Theorem bz_close_midstream_noop st ops : z_err st = None ->
  bz_ops st (BClose :: ops) =
  (bzlobs_of BkClose [] None st :: fst (bz_ops st ops), snd (bz_ops st ops)).
Proof.
  intros He. cbn [bz_ops bz_op]. rewrite (bz_close_none st He).
  destruct (bz_ops st ops) as [l fin]. reflexivity.
Qed.

(* ---- C14: Reset ------------------------------------------------------------------------------------------------ *)
(* For EVERY state st with its six Decoder objects - in the middle of a block, in the middle of a
   run of the RLE1 stage, failed, closed, after io.EOF; the tables of the Decoder objects and
   their recycled arrays arbitrary - Reset(r) followed by any history of calls (Reads of any
   size, Closes, further Resets) is observed exactly like NewReader(r) followed by the same
   history: the same bytes, errors, offsets and source positions, call by call; the two Readers
   stay equal up to the recycled storage. *)
Theorem bz_reset_as_new st data bf fills reads ops :
  length (z_trees st) = 6%nat ->
  fst (bz_ops (bz_reset st data bf fills reads) ops) = fst (bz_ops (bz_new data bf fills reads) ops) /\
  W0 (snd (bz_ops (bz_reset st data bf fills reads) ops)) (snd (bz_ops (bz_new data bf fills reads) ops)).
Proof.
  intros H6. apply bz_ops_sim. constructor; cbn; try reflexivity. exact H6.
Qed.

(* two Readers with the same number of Decoder objects are indistinguishable after Reset *)
Theorem bz_reset_any_two st st' data bf fills reads ops :
  length (z_trees st) = length (z_trees st') ->
  fst (bz_ops (bz_reset st data bf fills reads) ops) = fst (bz_ops (bz_reset st' data bf fills reads) ops).
Proof. intros H. apply bz_ops_sim. apply bz_reset_sim. exact H. Qed.

(* more generally: Readers equal up to the contents of their Decoder objects are observed alike *)
Theorem bz_recycled_storage_unobservable s1 s2 ops : W0 s1 s2 ->
  fst (bz_ops s1 ops) = fst (bz_ops s2 ops).
Proof. intros H. apply bz_ops_sim. exact H. Qed.

(* states reachable from NewReader by calls *)
Definition reachable (st : bzst) : Prop :=
  exists data bf fills reads ops, snd (bz_ops (bz_new data bf fills reads) ops) = st.

Lemma bz_op_trees st o : length (z_trees (snd (bz_op st o))) = length (z_trees st).
Proof.
  destruct o as [n| |data bf fills reads]; cbn [bz_op].
  - pose proof (Bzip2.ImplFrame.bz_read_trees st n) as H.
    destruct (bz_read st n) as [[bs e] st']. exact H.
  - pose proof (bz_close_frame st) as HF. cbv zeta in HF.
    destruct (bz_close st) as [e st']. cbn [snd] in *.
    destruct HF as (_ & _ & _ & _ & _ & _ & _ & _ & F & _). rewrite F. reflexivity.
  - reflexivity.
Qed.

Lemma bz_ops_trees : forall ops st, length (z_trees (snd (bz_ops st ops))) = length (z_trees st).
Proof.
  induction ops as [|o r IH]; intros st; cbn [bz_ops]; [reflexivity|].
  pose proof (bz_op_trees st o) as H1. destruct (bz_op st o) as [ob st1]. cbn [snd] in H1.
  specialize (IH st1). destruct (bz_ops st1 r) as [l fin]. cbn [snd] in *. congruence.
Qed.

Theorem reachable_six st : reachable st -> length (z_trees st) = 6%nat.
Proof. intros (data & bf & fills & reads & ops & <-). rewrite bz_ops_trees. reflexivity. Qed.

Corollary bz_reset_as_new_reachable st data bf fills reads ops : reachable st ->
  fst (bz_ops (bz_reset st data bf fills reads) ops) = fst (bz_ops (bz_new data bf fills reads) ops).
Proof. intros Hr. apply bz_reset_as_new. apply reachable_six. exact Hr. Qed.

(* ... and what the Reader then decodes is what libbzip2 decodes (Bzip2/ImplReset.v), whatever
   calls - Reads, Closes, Resets - came before the Reset *)
Corollary bz_reset_after_any_history_refines_libbzip2 :
  forall data0 bf0 fills0 reads0 ops0 (data : list byte) (buffered : bool) (fills reads : list nat)
         (sched : list nat) (obs : list bzobs) (fin : bzst) (pre : list bzobs) (o : bzobs) (e : err),
    (forall b, In b data -> b < 256) ->
    bz_run (bz_reset (snd (bz_ops (bz_new data0 bf0 fills0 reads0) ops0)) data buffered fills reads) sched
      = (obs, fin) ->
    obs = pre ++ [o] -> bo_err o = Some e ->
    let spec := SpecR.bzip2_decode data in
    e <> EPanic /\ e <> EFuel /\
    match SpecR.bz_err spec with
    | None => e = EEOF /\ ImplThms.obs_out obs = SpecR.bz_out spec /\ bo_inOff o = Z.of_N (SpecR.bz_used spec)
    | Some es => e <> EEOF /\ prefix_of (ImplThms.obs_out obs) (SpecR.bz_out spec) /\
                 ((e = es /\ ImplThms.obs_out obs = SpecR.bz_out spec) \/ e = EUEOF)
    end.
Proof.
  intros data0 bf0 fills0 reads0 ops0 data buffered fills reads sched obs fin pre o e Hd.
  apply ImplReset.bzip2_reset_refines_libbzip2; [|exact Hd].
  rewrite bz_ops_trees. reflexivity.
Qed.

(* the hypothesis on the number of Decoder objects cannot be dropped from the statement about
   arbitrary states (a model artefact: the Go array has six elements by its type) *)
Definition bz_reset_as_new_any_slots_statement : Prop :=
  forall st data bf fills reads ops,
    fst (bz_ops (bz_reset st data bf fills reads) ops) = fst (bz_ops (bz_new data bf fills reads) ops).

(* every state reachable over sources of bytes is [good] *)
Theorem reachable_good data bf fills reads ops :
  bytes_ok data -> Forall op_ok ops -> good (snd (bz_ops (bz_new data bf fills reads) ops)).
Proof. intros Hd Hops. apply good_ops; [apply good_new; exact Hd | exact Hops]. Qed.

(* ================================================================================================== *)
(* Non-vacuity: concrete states                                                                        *)
(* ================================================================================================== *)
(* "hello, world; " x 40, bzip2 -9: 560 bytes from 67 (one block, two trees) *)
Definition ex_hello40 : list byte :=
  [66; 90; 104; 57; 49; 65; 89; 38; 83; 89; 10; 106; 237; 163; 0; 0; 139; 153; 128; 64; 4; 0; 8; 6; 68; 144;
   128; 32; 0; 80; 128; 24; 5; 42; 154; 104; 244; 141; 9; 161; 48; 77; 137; 130; 96; 158; 137; 193; 56; 38;
   194; 124; 38; 9; 224; 159; 139; 185; 34; 156; 40; 72; 5; 53; 118; 209; 128].

(* "xyz" followed by 300 times 'a', bzip2 -1: the RLE1 form of the block is xyz aaaa 251 aaaa 41 *)
Definition ex_runs : list byte :=
  [66; 90; 104; 49; 49; 65; 89; 38; 83; 89; 133; 43; 143; 129; 0; 0; 4; 145; 128; 128; 32; 32; 0; 0; 112; 0;
   8; 32; 0; 48; 192; 6; 76; 106; 114; 65; 29; 197; 241; 119; 36; 83; 133; 9; 8; 82; 184; 248; 16].

(* a block whose RLE1 form is "xyzaaaa" WITHOUT the count byte (harness generator
   gen.BzTargeted): the seven bytes are delivered, then "missing terminating run-length repeater" *)
Definition ex_norep : list byte :=
  [66; 90; 104; 49; 49; 65; 89; 38; 83; 89; 158; 149; 82; 114; 0; 0; 2; 1; 128; 32; 0; 0; 112; 48; 0; 38;
   255; 255; 254; 131; 12; 211; 65; 166; 155; 222; 134; 232; 187; 146; 41; 194; 132; 132; 244; 170; 147; 144].

Lemma bytes_ok_check data : forallb (fun x => x <? 256) data = true -> bytes_ok data.
Proof. intros H b Hb. rewrite forallb_forall in H. apply N.ltb_lt. apply H. exact Hb. Qed.

Definition K1000 : nat := Z.to_nat 1000.

(* the Reader after the given calls on a new Reader over [data] *)
Definition after (data : list byte) (bf : bool) (ops : list bzop) : bzst :=
  snd (bz_ops (bz_new data bf [] []) ops).

Definition show (l : list bzlobs) :=
  map (fun o => (bl_kind o, length (bl_bytes o), bl_err o, bl_inOff o, bl_outOff o, bl_srcPos o)) l.

(* bz_error_sticky: a complete stream followed by a second one that ends in the middle of its
   block (89 bytes of input).  The first Read delivers the 303 bytes of the first stream; the
   state is [good]; the next Read fails ... *)
Definition ex_two : list byte := ex_runs ++ firstn 40 ex_hello40.

Example bz_error_sticky_example :
  let st := after ex_two true [BRead K1000] in
  good st /\ fst (bz_read st K1000) = ([], Some EUEOF) /\
  (* ... and the conclusion, computed: more Reads, Close, Read, Close *)
  show (fst (bz_ops (snd (bz_read st K1000)) [BRead K1000; BRead 0; BRead 7; BClose; BRead 1; BClose]))
  = [(BkRead, 0%nat, Some EUEOF, 89%Z, 303%Z, 89%nat); (BkRead, 0%nat, Some EUEOF, 89%Z, 303%Z, 89%nat);
     (BkRead, 0%nat, Some EUEOF, 89%Z, 303%Z, 89%nat); (BkClose, 0%nat, Some EUEOF, 89%Z, 303%Z, 89%nat);
     (BkRead, 0%nat, Some EUEOF, 89%Z, 303%Z, 89%nat); (BkClose, 0%nat, Some EUEOF, 89%Z, 303%Z, 89%nat)].
Proof.
  cbv zeta. split.
  - apply reachable_good; [apply bytes_ok_check; vm_compute; reflexivity | repeat constructor].
  - vm_compute. split; reflexivity.
Qed.

(* bz_closed_inert on an error latched BEHIND delivered output: Read(100) of ex_norep returns
   the seven bytes and nil; zr.err already holds the error; Close surfaces it *)
Example bz_closed_inert_example :
  let st := after ex_norep true [BRead 100] in
  z_outOff st = 7%Z /\ latched st ECorrupted /\ fst (bz_close st) = Some ECorrupted /\
  show (fst (bz_ops st [BClose; BRead 100; BClose; BRead 1]))
  = [(BkClose, 0%nat, Some ECorrupted, 38%Z, 7%Z, 38%nat); (BkRead, 0%nat, Some ECorrupted, 38%Z, 7%Z, 38%nat);
     (BkClose, 0%nat, Some ECorrupted, 38%Z, 7%Z, 38%nat); (BkRead, 0%nat, Some ECorrupted, 38%Z, 7%Z, 38%nat)].
Proof.
  cbv zeta. split; [vm_compute; reflexivity|]. split.
  - split; [vm_compute; reflexivity|]. apply stuck_b_spec. vm_compute. reflexivity.
  - vm_compute. split; reflexivity.
Qed.

(* ... and on a Reader that has reached io.EOF: Close returns nil, then Read returns the closed
   error, Close nil again *)
Example bz_closed_inert_example_eof :
  let st := after ex_hello40 false [BRead K1000; BRead K1000] in
  z_err st = Some EEOF /\ z_outOff st = 560%Z /\
  map (fun o => (bl_bytes o, bl_err o)) (fst (bz_ops st [BClose; BRead 5; BClose; BRead 0]))
  = [([], None); ([], Some EClosed); ([], None); ([], Some EClosed)].
Proof. vm_compute. repeat split; reflexivity. Qed.

(* Close in the middle of a stream - here even in the middle of a RUN of the RLE1 stage (three
   bytes "xyz" and seven of the 300 'a' delivered, lastCnt = 248): nil, nothing changes, the
   following Reads deliver the remaining 293 bytes; nothing is lost, nothing is closed *)
Example bz_close_midstream_witness :
  let st := after ex_runs false [BRead 10] in
  z_err st = None /\ r_lastCnt (z_rle st) = 248%Z /\ bz_close st = (None, st) /\
  show (fst (bz_ops st [BClose; BRead 10; BRead 0; BClose; BRead K1000; BRead K1000; BClose; BRead 3]))
  = [(BkClose, 0%nat, None, 39%Z, 10%Z, 39%nat); (BkRead, 10%nat, None, 39%Z, 20%Z, 39%nat);
     (BkRead, 0%nat, None, 39%Z, 20%Z, 39%nat); (BkClose, 0%nat, None, 39%Z, 20%Z, 39%nat);
     (BkRead, 283%nat, None, 39%Z, 303%Z, 39%nat); (BkRead, 0%nat, Some EEOF, 49%Z, 303%Z, 49%nat);
     (BkClose, 0%nat, None, 49%Z, 303%Z, 49%nat); (BkRead, 0%nat, Some EClosed, 49%Z, 303%Z, 49%nat)].
Proof.
  cbv zeta. split; [vm_compute; reflexivity|]. split; [vm_compute; reflexivity|].
  split; [apply bz_close_none; vm_compute; reflexivity|]. vm_compute. reflexivity.
Qed.

Theorem bz_close_closes_refuted : ~ bz_close_closes_statement.
Proof.
  intros H.
  assert (Hn : length (fst (fst (bz_read (snd (bz_close (after ex_runs false [BRead 10]))) 10))) = 10%nat)
    by (vm_compute; reflexivity).
  rewrite (H (after ex_runs false [BRead 10]) 10%nat) in Hn. discriminate Hn.
Qed.

(* Close before the first Read does not close either *)
Example bz_close_first_witness :
  show (bz_life ex_hello40 true [] [] [BClose; BClose; BRead K1000; BRead 1; BClose; BRead 1])
  = [(BkClose, 0%nat, None, 0%Z, 0%Z, 0%nat); (BkClose, 0%nat, None, 0%Z, 0%Z, 0%nat);
     (BkRead, 560%nat, None, 57%Z, 560%Z, 57%nat); (BkRead, 0%nat, Some EEOF, 67%Z, 560%Z, 67%nat);
     (BkClose, 0%nat, None, 67%Z, 560%Z, 67%nat); (BkRead, 0%nat, Some EClosed, 67%Z, 560%Z, 67%nat)].
Proof. vm_compute. reflexivity. Qed.

(* the two exotic cases of bz_error_sticky_any_state are real for states no Reader reaches: a
   Reader in the middle of a block (555 bytes pending) into whose zr.err io.EOF has been put:
   Read(empty buffer) returns io.EOF, the next Read delivers a byte *)
Definition ex_unreachable : bzst := set_err (after ex_hello40 true [BRead 5]) (Some EEOF).

Example ex_unreachable_behaviour :
  fst (bz_read ex_unreachable 0) = ([], Some EEOF) /\
  fst (bz_read (snd (bz_read ex_unreachable 0)) 1) = ([44], None) /\
  ~ good ex_unreachable.
Proof.
  split; [vm_compute; reflexivity|]. split; [vm_compute; reflexivity|].
  intros [_ HL _].
  assert (Hs : stuck_b (z_rle ex_unreachable) = true) by (apply stuck_b_spec; apply HL; discriminate).
  vm_compute in Hs. discriminate Hs.
Qed.

Theorem bz_error_sticky_unconditional_refuted : ~ bz_error_sticky_unconditional_statement.
Proof.
  intros H.
  assert (H0 : bz_read ex_unreachable 0 = (([], Some EEOF), snd (bz_read ex_unreachable 0)))
    by (vm_compute; reflexivity).
  assert (Hn : length (fst (fst (bz_read (snd (bz_read ex_unreachable 0)) 1))) = 1%nat)
    by (vm_compute; reflexivity).
  rewrite (H _ _ _ _ _ 1%nat H0) in Hn. discriminate Hn.
Qed.

(* bz_reset_as_new on a non-trivial state: the Reader in the middle of the block of ex_hello40
   (555 bytes pending in the RLE1 stage, the first two Decoder objects hold that block's tables
   of 16 and 64 chunks) is Reset onto ex_runs; the history that follows - Reads, a Close, a second
   Reset onto the truncated two-stream input - is observed exactly as on a new Reader *)
Definition ex_history : list bzop :=
  [BRead 10; BClose; BRead 0; BRead K1000; BRead 1; BClose; BRead 1;
   BReset ex_two true [3%nat; 0%nat] []; BRead 100; BRead K1000; BRead 5; BClose].

Example bz_reset_as_new_example :
  let st := after ex_hello40 false [BRead 5] in
  length (z_trees st) = 6%nat /\ length (r_buf (z_rle st)) = 555%nat /\
  map (fun s => a_len (d_chunks (ds_dec s))) (z_trees st) = [16; 64; 0; 0; 0; 0] /\
  show (fst (bz_ops (bz_reset st ex_runs true [] []) ex_history))
  = show (fst (bz_ops (bz_new ex_runs true [] []) ex_history)) /\
  show (fst (bz_ops (bz_reset st ex_runs true [] []) ex_history))
  = [(BkRead, 10%nat, None, 39%Z, 10%Z, 39%nat); (BkClose, 0%nat, None, 39%Z, 10%Z, 39%nat);
     (BkRead, 0%nat, None, 39%Z, 10%Z, 39%nat); (BkRead, 293%nat, None, 39%Z, 303%Z, 39%nat);
     (BkRead, 0%nat, Some EEOF, 49%Z, 303%Z, 49%nat); (BkClose, 0%nat, None, 49%Z, 303%Z, 49%nat);
     (BkRead, 0%nat, Some EClosed, 49%Z, 303%Z, 49%nat); (BkReset, 0%nat, None, 0%Z, 0%Z, 0%nat);
     (BkRead, 100%nat, None, 39%Z, 100%Z, 39%nat); (BkRead, 203%nat, None, 39%Z, 303%Z, 39%nat);
     (BkRead, 0%nat, Some EUEOF, 89%Z, 303%Z, 89%nat); (BkClose, 0%nat, Some EUEOF, 89%Z, 303%Z, 89%nat)].
Proof. vm_compute. repeat split; reflexivity. Qed.

(* the number of Decoder objects matters in the model (in Go it is fixed by the array type): a
   state with none panics on the first block after Reset *)
Theorem bz_reset_as_new_any_slots_refuted : ~ bz_reset_as_new_any_slots_statement.
Proof.
  intros H.
  assert (Hn : map bl_err (fst (bz_ops (bz_reset (set_trees (bz_new [] true [] []) []) ex_runs true [] []) [BRead 10]))
               = [Some EPanic] /\
               map bl_err (fst (bz_ops (bz_new ex_runs true [] []) [BRead 10])) = [None])
    by (vm_compute; split; reflexivity).
  destruct Hn as [H1 H2]. rewrite (H _ ex_runs true [] [] [BRead 10%nat]) in H1. rewrite H1 in H2. discriminate H2.
Qed.

Print Assumptions bz_latched_sticky.
Print Assumptions bz_error_sticky.
Print Assumptions bz_error_sticky_any_state.
Print Assumptions bz_error_sticky_unconditional_refuted.
Print Assumptions bz_close_frame.
Print Assumptions bz_closed_inert.
Print Assumptions bz_closed_inert_good.
Print Assumptions bz_reset_after_any_history_refines_libbzip2.
Print Assumptions bz_close_midstream_noop.
Print Assumptions bz_close_closes_refuted.
Print Assumptions bz_reset_as_new.
Print Assumptions bz_reset_any_two.
Print Assumptions bz_recycled_storage_unobservable.
Print Assumptions reachable_six.
Print Assumptions bz_reset_as_new_reachable.
Print Assumptions bz_reset_as_new_any_slots_refuted.
Print Assumptions reachable_good.
Print Assumptions bz_error_sticky_example.
Print Assumptions bz_closed_inert_example.
Print Assumptions bz_closed_inert_example_eof.
Print Assumptions bz_close_midstream_witness.
Print Assumptions bz_close_first_witness.
Print Assumptions ex_unreachable_behaviour.
Print Assumptions bz_reset_as_new_example.
