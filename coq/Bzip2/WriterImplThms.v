(* Theorems about the implementation-level model of bzip2.Writer (Bzip2/WriterImpl.v) over the
   implementation-level bit writer and a scripted sink, for EVERY history and EVERY sink script.
   The abstract Writer is Bzip2/WriterImplSpec.v. See the summary at the end of the file. *)
From V Require Import Base.Prelude Bzip2.Common Bzip2.SpecW Prefix.ReaderImpl Prefix.ReaderSpec
  Prefix.WriterImpl Prefix.WriterSpec Prefix.WriterThms Prefix.WriterFields Prefix.WriterFieldsThms
  Bzip2.WriterImpl Bzip2.WriterImplFieldsOk Bzip2.WriterImplSpec Bzip2.WriterImplBits.

Local Open Scope N_scope.

(* ------------------------------------------------------------------------- *)
(* (0) small facts                                                            *)
(* ------------------------------------------------------------------------- *)
Lemma frun_app a : forall p b,
  frun p (a ++ b) =
  let '(e, p1) := frun p a in
  match e with Some _ => (e, p1) | None => frun p1 b end.
Proof.
  induction a as [|f a IH]; intros p b; cbn [app frun]; [reflexivity|].
  destruct (fstep p f) as [[e|] p1]; [reflexivity | apply IH].
Qed.

Lemma calls_split s l1 : forall l2 s', calls s (l1 ++ l2) s' ->
  exists sm, calls s l1 sm /\ calls sm l2 s'.
Proof.
  revert s. induction l1 as [|b l1 IH]; intros s l2 s' H; cbn [app] in H.
  - exists s. split; [apply calls_nil | exact H].
  - inversion H as [|s0 d l0 s0' H0]; subst.
    destruct (IH _ _ _ H0) as (sm & H1 & H2). exists sm. split; [|exact H2].
    apply (calls_cons s d). exact H1.
Qed.

(* the sink in use *)
Definition zsink (st : bzw) : wsink := bw_sink (z_wr st).

(* what holds in every state a history can reach, healthy or not: the bit writer within its
   bounds, Offset = bytes the sink accepted, OutputOffset = Offset *)
Definition ZG (st : bzw) : Prop :=
  Wk (z_wr st) /\ OffInv (z_wr st) /\ z_out st = w_offset (z_wr st).

(* a state in which nothing has failed: consistent with the abstract Writer [a]; between two
   calls the bit writer is flushed, so the sink holds exactly the whole bytes of a_bits *)
Definition Healthy (level : N) (st : bzw) (a : abz) : Prop :=
  z_err st = (if a_closed a then Some EClosed else None) /\
  Inv true (a_bits a) (z_wr st) /\ Flushed (z_wr st) /\
  z_out st = w_offset (z_wr st) /\
  z_rle st = a_rle a /\ z_wrHdr st = a_hdr a /\ z_endCRC st = a_endCRC a /\
  z_in st = a_in a /\ z_level st = level.

(* the latch is set with a failure *)
Definition Failed (level : N) (st : bzw) (e : err) : Prop :=
  z_err st = Some e /\ e <> EClosed /\ z_level st = level /\ ZG st.

Lemma Healthy_intro level st a :
  z_err st = (if a_closed a then Some EClosed else None) ->
  Inv true (a_bits a) (z_wr st) -> Flushed (z_wr st) -> z_out st = w_offset (z_wr st) ->
  z_rle st = a_rle a -> z_wrHdr st = a_hdr a -> z_endCRC st = a_endCRC a ->
  z_in st = a_in a -> z_level st = level -> Healthy level st a.
Proof. intros. unfold Healthy. tauto. Qed.

Lemma Healthy_ZG level st a : Healthy level st a -> ZG st.
Proof.
  intros (_ & HI & _ & Ho & _). split; [eapply Inv_Wk; exact HI|].
  split; [eapply Inv_OffInv; exact HI | exact Ho].
Qed.

Lemma Healthy_sink level st a : Healthy level st a -> wsink_data (zsink st) = pack true (a_bits a).
Proof.
  intros (_ & HI & (Hc & Hn) & _). apply Inv_flushed; assumption.
Qed.

(* [FailAt s l t s' target]: the calls l took the sink from s to s'; the first failed one
   returned error #t; [sf] is the sink right after it: it holds a prefix of [target]; at most
   two calls follow it *)
Definition FailAt (s : wsink) (l : list sbeh) (t : N) (s' : wsink) (target : list byte) : Prop :=
  exists l1 k l2 sf,
    l = l1 ++ SFail k t :: l2 /\ Forall beh_accepts l1 /\ (length l2 <= 2)%nat /\
    calls s (l1 ++ [SFail k t]) sf /\ calls sf l2 s' /\
    prefix_of (wsink_data sf) target.

Lemma FailAt_weaken s l t s' a b : FailAt s l t s' a -> prefix_of a b -> FailAt s l t s' b.
Proof.
  intros (l1 & k & l2 & sf & H1 & H2 & H3 & H4 & H5 & H6) Hp.
  exists l1, k, l2, sf. repeat split; try assumption. eapply prefix_of_trans; eassumption.
Qed.

(* more accepted calls before *)
Lemma FailAt_prepend s0 l0 s l t s' target :
  calls s0 l0 s -> Forall beh_accepts l0 -> FailAt s l t s' target ->
  FailAt s0 (l0 ++ l) t s' target.
Proof.
  intros Hc Ha (l1 & k & l2 & sf & H1 & H2 & H3 & H4 & H5 & H6).
  exists (l0 ++ l1), k, l2, sf. subst l. rewrite <- app_assoc. split; [reflexivity|].
  split; [apply Forall_app; split; assumption|]. split; [exact H3|].
  split; [rewrite <- app_assoc; eapply calls_app; eassumption|]. split; assumption.
Qed.

(* ------------------------------------------------------------------------- *)
(* (1) the tail of flush / Close: wr.Flush() after the recovered func literal *)
(* ------------------------------------------------------------------------- *)
(* any state: bounds and offsets survive; the first sink error is the one returned *)
Lemma flush_tail_any e p out0 :
  Wk p -> OffInv p -> e <> Some EPanic ->
  let '(err, out, p') := flush_tail e p out0 in
  Wk p' /\ OffInv p' /\ out = w_offset p' /\ err <> Some EPanic /\
  (forall x, e = Some x -> err = Some (errwrap_w x)) /\
  exists l fe, calls (bw_sink p) l (bw_sink p') /\ reported l fe /\ (length l <= 2)%nat /\
               (e = None -> err = option_map errwrap_w fe).
Proof.
  intros HW HO He. unfold flush_tail.
  replace (is_rt_panic e) with false
    by (destruct e as [x|]; [destruct x; try reflexivity; exfalso; apply He; reflexivity | reflexivity]).
  pose proof (wflush_wk p HW) as Hk. pose proof (wflush_calls p) as Hc.
  destruct (wflush p) as [[off fe] p1]. destruct Hk as (Hk1 & Hk2 & Hk3).
  replace (is_rt_panic fe) with false
    by (destruct fe as [x|]; [destruct x; try reflexivity; exfalso; apply Hk2; reflexivity | reflexivity]).
  destruct Hc as (l & Hl1 & Hl2 & Hl3 & Hl4).
  split; [exact Hk1|]. split; [apply Hl4; exact HO|]. split; [exact Hk3|].
  split.
  { destruct e as [x|]; cbn [option_map].
    - destruct x; cbn [errwrap_w]; try discriminate. exfalso; apply He; reflexivity.
    - destruct fe as [x|]; cbn [option_map]; [|discriminate].
      destruct x; cbn [errwrap_w]; try discriminate. exfalso; apply Hk2; reflexivity. }
  split; [intros x ->; reflexivity|].
  exists l, fe. repeat split; try assumption. intros ->. reflexivity.
Qed.

(* ------------------------------------------------------------------------- *)
(* (2) flush() and the tail of Close as ONE batch of fields                    *)
(* ------------------------------------------------------------------------- *)
Lemma flush_tail_none_inv e p out0 err out p' :
  flush_tail e p out0 = (err, out, p') -> err = None -> e = None.
Proof.
  unfold flush_tail. destruct e as [x|]; [|reflexivity]. intros H Hn. exfalso. subst err.
  destruct (is_rt_panic (Some x)); [discriminate H|].
  destruct (wflush p) as [[off fe] p1].
  destruct (is_rt_panic fe) eqn:Ep; [|discriminate H].
  injection H as H _ _. subst fe. discriminate Ep.
Qed.

Lemma zflush_unfold st : fast_rev (r_buf (z_rle st)) <> [] ->
  let p0 := set_offset (z_wr st) (z_out st) in
  let '(e, p) := frun p0 (flush_fields (z_level st) (z_wrHdr st) (z_rle st)) in
  let '(err, out, p3) := flush_tail e p (z_out st) in
  match err with
  | Some _ => exists hdr1 blk2 rle2,
      zflush st = (err, mkBzw (z_in st) out p3 err (z_level st) hdr1 blk2 (z_endCRC st) rle2)
  | None =>
      zflush st = (None, mkBzw (z_in st) out p3 None (z_level st) true 0
                               (crc_combine (z_endCRC st) (crc_final (r_crc (z_rle st)))) rle_init)
  end.
Proof.
  intros Hne. cbv zeta. unfold zflush, flush_fields, write_hdr, hdr_if.
  destruct (fast_rev (r_buf (z_rle st))) as [|v0 vals] eqn:Ev; [contradiction|].
  set (p0 := set_offset (z_wr st) (z_out st)).
  destruct (z_wrHdr st).
  - (* header already written *)
    cbn [app]. rewrite frun_app.
    destruct (frun p0 (block_head_fields (crc_final (r_crc (z_rle st))))) as [[e|] p1].
    + destruct (flush_tail (Some e) p1 (z_out st)) as [[err out] p3] eqn:Et.
      destruct err as [x|]; [eexists _, _, _; reflexivity|].
      pose proof (flush_tail_none_inv _ _ _ _ _ _ Et eq_refl). discriminate.
    + destruct (frun p1 (block_body_fields (v0 :: vals))) as [e2 p2].
      destruct (flush_tail e2 p2 (z_out st)) as [[err out] p3] eqn:Et.
      destruct err as [x|]; [eexists _, _, _; reflexivity | reflexivity].
  - rewrite frun_app.
    destruct (frun p0 (hdr_fields (z_level st))) as [[e|] p1].
    + destruct (flush_tail (Some e) p1 (z_out st)) as [[err out] p3] eqn:Et.
      destruct err as [x|]; [eexists _, _, _; reflexivity|].
      pose proof (flush_tail_none_inv _ _ _ _ _ _ Et eq_refl). discriminate.
    + rewrite frun_app.
      destruct (frun p1 (block_head_fields (crc_final (r_crc (z_rle st))))) as [[e|] p2].
      * destruct (flush_tail (Some e) p2 (z_out st)) as [[err out] p3] eqn:Et.
        destruct err as [x|]; [eexists _, _, _; reflexivity|].
        pose proof (flush_tail_none_inv _ _ _ _ _ _ Et eq_refl). discriminate.
      * destruct (frun p2 (block_body_fields (v0 :: vals))) as [e2 p3'].
        destruct (flush_tail e2 p3' (z_out st)) as [[err out] p3] eqn:Et.
        destruct err as [x|]; [eexists _, _, _; reflexivity | reflexivity].
Qed.

(* Close: its flush(), then ONE batch of fields and the tail *)
Lemma zclose_unfold st : z_err st = None ->
  let '(e, st1) := zflush st in
  match e with
  | Some EPanic => zclose st = (ZRPanic, st1)
  | Some e' => zclose st = (ZRClose (Some e'), st1)
  | None =>
    let p0 := set_offset (z_wr st1) (z_out st1) in
    let '(e2, p) := frun p0 (close_fields (z_level st1) (z_wrHdr st1) (z_endCRC st1)) in
    let '(err, out, p3) := flush_tail e2 p (z_out st1) in
    match err with
    | Some EPanic => zclose st = (ZRPanic, st1)
    | Some _ => exists hdr1,
        zclose st = (ZRClose err, mkBzw (z_in st1) out p3 err (z_level st1) hdr1 (z_blkCRC st1)
                                        (z_endCRC st1) (z_rle st1))
    | None =>
        zclose st = (ZRClose None, mkBzw (z_in st1) out p3 (Some EClosed) (z_level st1) true
                                         (z_blkCRC st1) (z_endCRC st1) (z_rle st1))
    end
  end.
Proof.
  intros He. unfold zclose. rewrite He.
  destruct (zflush st) as [[e|] st1]; [destruct e; reflexivity|].
  cbv zeta. unfold close_fields, write_hdr, hdr_if.
  set (p0 := set_offset (z_wr st1) (z_out st1)).
  destruct (z_wrHdr st1).
  - cbn [app]. destruct (frun p0 (footer_fields (z_endCRC st1))) as [e2 p2].
    destruct (flush_tail e2 p2 (z_out st1)) as [[err out] p3] eqn:Et.
    destruct err as [x|]; [|reflexivity].
    destruct x; first [reflexivity | eexists; reflexivity].
  - rewrite frun_app. destruct (frun p0 (hdr_fields (z_level st1))) as [[e1|] p1].
    + destruct (flush_tail (Some e1) p1 (z_out st1)) as [[err out] p3] eqn:Et.
      destruct err as [x|].
      * destruct x; first [reflexivity | eexists; reflexivity].
      * pose proof (flush_tail_none_inv _ _ _ _ _ _ Et eq_refl). discriminate.
    + destruct (frun p1 (footer_fields (z_endCRC st1))) as [e2 p2].
      destruct (flush_tail e2 p2 (z_out st1)) as [[err out] p3] eqn:Et.
      destruct err as [x|]; [|reflexivity].
      destruct x; first [reflexivity | eexists; reflexivity].
Qed.

(* ------------------------------------------------------------------------- *)
(* (3) the RLE1 stage: progress                                                *)
(* ------------------------------------------------------------------------- *)
Definition rle_wf (s : rlest) : Prop := r_idx s = N.of_nat (length (r_buf s)).

Lemma rle_init_wf : rle_wf rle_init.
Proof. reflexivity. Qed.

Ltac rle_cases :=
  repeat match goal with
         | |- context [if ?c then _ else _] => destruct c eqn:?
         end.

Lemma rle_write_length L data : forall s s' rest,
  rle_write L data s = (s', rest) -> (length rest <= length data)%nat.
Proof.
  induction data as [|b data IH]; intros s s' rest H; cbn [rle_write] in H.
  - injection H as _ <-. cbn [length]. lia.
  - revert H. rle_cases; intros H;
      try (injection H as _ <-; cbn [length]; lia);
      (apply IH in H; cbn [length]; lia).
Qed.

Lemma rle_write_wf L data : forall s s' rest,
  rle_write L data s = (s', rest) -> rle_wf s -> rle_wf s'.
Proof.
  induction data as [|b data IH]; intros s s' rest H Hwf; cbn [rle_write] in H.
  - injection H as <- _. exact Hwf.
  - unfold rle_wf in *. revert H. rle_cases; intros H;
      try (injection H as <- _; cbn [r_idx r_buf]; exact Hwf);
      (apply IH in H; [exact H|]; cbn [r_idx r_buf length]; try lia).
    rewrite Hwf. destruct (r_buf s); reflexivity.
Qed.

(* a byte is left over only when the buffer is full (one or two slots short) *)
Lemma rle_write_full L data : forall s s' rest,
  rle_write L data s = (s', rest) -> rest <> [] -> L <= r_idx s' + 1.
Proof.
  induction data as [|b data IH]; intros s s' rest H Hne; cbn [rle_write] in H.
  - injection H as _ <-. contradiction.
  - revert H. rle_cases; intros H;
      try (injection H as <- _; cbn [r_idx]; lia);
      (eapply IH; eassumption).
Qed.

(* from a fresh state the first byte is stored *)
Lemma rle_write_fresh L b data s' rest : 1 <= L ->
  rle_write L (b :: data) rle_init = (s', rest) -> (length rest <= length data)%nat.
Proof.
  intros HL H. cbn [rle_write rle_init r_lastVal r_lastCnt r_idx r_buf r_crc] in H.
  replace ((if 0 =? b then 0 else 0) + 1) with 1 in H by (destruct (0 =? b); reflexivity).
  change (1 <? 4) with true in H. cbv iota in H.
  replace (L <=? 0) with false in H by lia.
  apply rle_write_length in H. exact H.
Qed.

(* ------------------------------------------------------------------------- *)
(* (4) the abstract Writer only appends bits                                   *)
(* ------------------------------------------------------------------------- *)
Definition a_add_in (a : abz) (n : Z) : abz :=
  mkAbz (a_bits a) (a_rle a) (a_hdr a) (a_endCRC a) (a_in a + n) (a_closed a).

Lemma awrite_eq level a data :
  awrite level a data = a_add_in (awrite_loop (S (length data)) level a data) (Z.of_nat (length data)).
Proof. reflexivity. Qed.

Lemma aflush_empty level a : fast_rev (r_buf (a_rle a)) = [] -> aflush level a = a.
Proof. intros H. unfold aflush. rewrite H. reflexivity. Qed.

Lemma aflush_nonempty level a : fast_rev (r_buf (a_rle a)) <> [] ->
  aflush level a =
  mkAbz (fields_app (a_bits a) (flush_fields level (a_hdr a) (a_rle a))) rle_init true
        (crc_combine (a_endCRC a) (crc_final (r_crc (a_rle a)))) (a_in a) (a_closed a).
Proof.
  intros H. unfold aflush. destruct (fast_rev (r_buf (a_rle a))); [contradiction | reflexivity].
Qed.

Lemma aflush_mono level a : prefix_of (a_bits a) (a_bits (aflush level a)).
Proof.
  unfold aflush. destruct (fast_rev (r_buf (a_rle a))); [apply prefix_of_refl|].
  cbn [a_bits]. apply fields_app_prefix.
Qed.

Lemma aflush_closed level a : a_closed (aflush level a) = a_closed a.
Proof. unfold aflush. destruct (fast_rev (r_buf (a_rle a))); reflexivity. Qed.

Lemma awrite_loop_mono level fuel : forall a data,
  prefix_of (a_bits a) (a_bits (awrite_loop fuel level a data)).
Proof.
  induction fuel as [|f IH]; intros a data; cbn [awrite_loop]; [apply prefix_of_refl|].
  destruct (rle_write (level * blockSize) data (a_rle a)) as [rle' rest].
  destruct rest as [|b r]; [apply prefix_of_refl|].
  eapply prefix_of_trans; [|apply IH].
  apply (aflush_mono level (a_with_rle a rle')).
Qed.

Lemma awrite_loop_closed level fuel : forall a data,
  a_closed (awrite_loop fuel level a data) = a_closed a.
Proof.
  induction fuel as [|f IH]; intros a data; cbn [awrite_loop]; [reflexivity|].
  destruct (rle_write (level * blockSize) data (a_rle a)) as [rle' rest].
  destruct rest as [|b r]; [reflexivity|]. rewrite IH, aflush_closed. reflexivity.
Qed.

Lemma aflush_in level a : a_in (aflush level a) = a_in a.
Proof. unfold aflush. destruct (fast_rev (r_buf (a_rle a))); reflexivity. Qed.

Lemma awrite_loop_in level fuel : forall a data, a_in (awrite_loop fuel level a data) = a_in a.
Proof.
  induction fuel as [|f IH]; intros a data; cbn [awrite_loop]; [reflexivity|].
  destruct (rle_write (level * blockSize) data (a_rle a)) as [rle' rest].
  destruct rest as [|b r]; [reflexivity|]. rewrite IH, aflush_in. reflexivity.
Qed.

Lemma awrite_in level a data : a_in (awrite level a data) = (a_in a + Z.of_nat (length data))%Z.
Proof. rewrite awrite_eq. cbn [a_add_in a_in]. rewrite awrite_loop_in. reflexivity. Qed.

Lemma aclose_mono level a : prefix_of (a_bits a) (a_bits (aclose level a)).
Proof.
  unfold aclose. cbn [a_bits]. eapply prefix_of_trans; [apply aflush_mono | apply fields_app_prefix].
Qed.

Lemma astep_mono level a o : (forall sc rs, o <> ZReset sc rs) ->
  prefix_of (a_bits a) (a_bits (astep level a o)).
Proof.
  intros Hno. destruct o as [data| |sc rs]; cbn [astep].
  - destruct (a_closed a); [apply prefix_of_refl|]. rewrite awrite_eq. apply awrite_loop_mono.
  - destruct (a_closed a); [apply prefix_of_refl | apply aclose_mono].
  - exfalso. eapply Hno. reflexivity.
Qed.

(* ------------------------------------------------------------------------- *)
(* (5) one batch of fields and the tail, from a consistent bit writer          *)
(* ------------------------------------------------------------------------- *)
Lemma flush_fields_ok level hdr rle : Forall field_ok (flush_fields level hdr rle).
Proof.
  unfold flush_fields, hdr_if. apply Forall_app. split.
  - destruct hdr; [constructor | apply hdr_fields_ok].
  - apply Forall_app. split; [apply block_head_fields_ok | apply block_body_fields_ok].
Qed.

Lemma close_fields_ok level hdr e : Forall field_ok (close_fields level hdr e).
Proof.
  unfold close_fields, hdr_if. apply Forall_app. split.
  - destruct hdr; [constructor | apply hdr_fields_ok].
  - apply footer_fields_ok.
Qed.

Lemma errwrap_src t : errwrap_w (ESrc t) = ESrc t.
Proof. reflexivity. Qed.

Lemma batch_spec bits p fs out0 : Inv true bits p -> Forall field_ok fs ->
  let '(e, p1) := frun p fs in
  let '(err, out, p3) := flush_tail e p1 out0 in
  exists l, calls (bw_sink p) l (bw_sink p3) /\ out = w_offset p3 /\
  match err with
  | None => Inv true (fields_app bits fs) p3 /\ Flushed p3 /\ Forall beh_accepts l
  | Some (ESrc t) =>
    Wk p3 /\ OffInv p3 /\ FailAt (bw_sink p) l t (bw_sink p3) (pack true (fields_app bits fs))
  | Some _ => False
  end.
Proof.
  intros HI Hok.
  pose proof (frun_inv true fs bits p HI Hok) as Hinv.
  pose proof (frun_step fs p) as Hstep.
  pose proof (frun_wk fs p (Inv_Wk _ _ _ HI) Hok) as Hwk.
  destruct (frun p fs) as [e p1]. destruct Hwk as [HW1 Hnp1].
  destruct Hstep as (l1 & Hc1 & Hr1 & Ho1). specialize (Ho1 (Inv_OffInv _ _ _ HI)).
  destruct e as [x|].
  - (* the sink failed inside a field *)
    destruct x; try contradiction. destruct Hinv as (bits1 & Hb1 & Hb2 & HP).
    destruct (reported_src_inv _ _ Hr1) as (l1a & k & -> & Hacc).
    pose proof (flush_tail_any (Some (ESrc tag)) p1 out0 HW1 Ho1 ltac:(discriminate)) as Ht.
    destruct (flush_tail (Some (ESrc tag)) p1 out0) as [[err out] p3].
    destruct Ht as (Hk & Ho & Hout & _ & Herr & l2 & fe & Hc2 & _ & Hlen & _).
    rewrite (Herr _ eq_refl), errwrap_src.
    exists ((l1a ++ [SFail k tag]) ++ l2). split; [eapply calls_app; eassumption|].
    split; [exact Hout|]. split; [exact Hk|]. split; [exact Ho|].
    exists l1a, k, l2, (bw_sink p1). rewrite <- app_assoc. split; [reflexivity|].
    repeat split; try assumption.
    eapply prefix_of_trans; [apply (Pfx_prefix _ _ _ HP) | apply pack_prefix; exact Hb2].
  - (* every field went through: wr.Flush() *)
    apply reported_None_inv in Hr1.
    unfold flush_tail. cbn [is_rt_panic].
    pose proof (wflush_inv true _ p1 Hinv) as Hf. pose proof (wflush_calls p1) as Hc.
    pose proof (wflush_wk p1 HW1) as Hk.
    destruct (wflush p1) as [[off fe] p2]. destruct Hf as [Hoff Hf].
    destruct Hc as (l2 & Hc2 & Hr2 & Hlen & _). destruct Hk as (Hk & _ & _).
    destruct fe as [x|].
    + destruct x; try contradiction. cbn [is_rt_panic option_map errwrap_w].
      destruct Hf as [HP _].
      destruct (reported_src_inv _ _ Hr2) as (l2a & k & -> & Hacc).
      exists (l1 ++ l2a ++ [SFail k tag]). split; [eapply calls_app; eassumption|].
      split; [exact Hoff|]. split; [exact Hk|]. split; [destruct HP; assumption|].
      exists (l1 ++ l2a), k, [], (bw_sink p2). rewrite <- app_assoc. split; [reflexivity|].
      split; [apply Forall_app; split; assumption|]. split; [cbn [length]; lia|].
      split; [eapply calls_app; eassumption|].
      split; [apply calls_nil | apply (Pfx_prefix _ _ _ HP)].
    + cbn [is_rt_panic option_map]. destruct Hf as (HI2 & Hc0 & Hn0).
      exists (l1 ++ l2). split; [eapply calls_app; eassumption|]. split; [exact Hoff|].
      split; [exact HI2|]. split; [split; assumption|].
      apply Forall_app. split; [exact Hr1 | apply reported_None_inv; exact Hr2].
Qed.

(* ------------------------------------------------------------------------- *)
(* (6) flush(), Close and Write from a healthy state                           *)
(* ------------------------------------------------------------------------- *)
Lemma Healthy_p0 level st a : Healthy level st a -> set_offset (z_wr st) (z_out st) = z_wr st.
Proof. intros (_ & _ & _ & Ho & _). rewrite Ho. apply set_offset_same. Qed.

Lemma zflush_spec level st a : Healthy level st a -> a_closed a = false ->
  let '(e, st') := zflush st in
  exists l, calls (zsink st) l (zsink st') /\ z_in st' = z_in st /\
  match e with
  | None => Healthy level st' (aflush level a) /\ Forall beh_accepts l
  | Some (ESrc t) =>
    Failed level st' (ESrc t) /\ FailAt (zsink st) l t (zsink st') (pack true (a_bits (aflush level a)))
  | Some _ => False
  end.
Proof.
  intros HH Hcl. pose proof (Healthy_p0 _ _ _ HH) as Hp0.
  destruct HH as (Herr & HI & HF & Hout & Hrle & Hhdr & Hcrc & Hin & Hlvl).
  destruct (fast_rev (r_buf (z_rle st))) as [|v0 vals] eqn:Ev.
  - (* nothing buffered *)
    unfold zflush. rewrite Ev. exists []. split; [apply calls_nil|]. split; [reflexivity|].
    rewrite aflush_empty by (rewrite <- Hrle; exact Ev).
    split; [apply Healthy_intro; assumption | constructor].
  - assert (Hne : fast_rev (r_buf (z_rle st)) <> []) by (rewrite Ev; discriminate).
    pose proof (zflush_unfold st Hne) as Hu. cbv zeta in Hu. rewrite Hp0 in Hu.
    pose proof (batch_spec (a_bits a) (z_wr st) (flush_fields (z_level st) (z_wrHdr st) (z_rle st))
                           (z_out st) HI (flush_fields_ok _ _ _)) as Hb.
    destruct (frun (z_wr st) (flush_fields (z_level st) (z_wrHdr st) (z_rle st))) as [e p].
    destruct (flush_tail e p (z_out st)) as [[err out] p3].
    destruct Hb as (l & Hc & Ho & Hb).
    assert (Ha : aflush level a =
      mkAbz (fields_app (a_bits a) (flush_fields (z_level st) (z_wrHdr st) (z_rle st))) rle_init true
            (crc_combine (z_endCRC st) (crc_final (r_crc (z_rle st)))) (z_in st) false).
    { rewrite aflush_nonempty by (rewrite <- Hrle; exact Hne).
      rewrite Hlvl, Hhdr, Hrle, Hcrc, Hin, Hcl. reflexivity. }
    destruct err as [x|].
    + destruct Hu as (hdr1 & blk2 & rle2 & ->). exists l. unfold zsink. cbn [z_wr z_in].
      split; [exact Hc|]. split; [reflexivity|].
      destruct x; try contradiction. destruct Hb as (Hk & Hoi & Hfa).
      split.
      * split; [reflexivity|]. split; [discriminate|]. split; [exact Hlvl|].
        unfold ZG. cbn [z_wr z_out]. exact (conj Hk (conj Hoi Ho)).
      * rewrite Ha. cbn [a_bits]. exact Hfa.
    + rewrite Hu. exists l. unfold zsink. cbn [z_wr z_in].
      split; [exact Hc|]. split; [reflexivity|]. destruct Hb as (HI3 & HF3 & Hacc).
      split; [|exact Hacc]. rewrite Ha. apply Healthy_intro;
        cbn [z_err z_wr z_out z_rle z_wrHdr z_endCRC z_in z_level a_closed a_bits a_rle a_hdr a_endCRC a_in];
        try assumption; reflexivity.
Qed.

Lemma zclose_spec level st a : Healthy level st a -> a_closed a = false ->
  let '(ret, st') := zclose st in
  exists l, calls (zsink st) l (zsink st') /\ z_in st' = z_in st /\
  match ret with
  | ZRClose None => Healthy level st' (aclose level a) /\ Forall beh_accepts l
  | ZRClose (Some (ESrc t)) =>
    Failed level st' (ESrc t) /\ FailAt (zsink st) l t (zsink st') (pack true (a_bits (aclose level a)))
  | _ => False
  end.
Proof.
  intros HH Hcl.
  assert (He : z_err st = None) by (destruct HH as (He & _); rewrite Hcl in He; exact He).
  pose proof (zclose_unfold st He) as Hu. pose proof (zflush_spec level st a HH Hcl) as Hf.
  destruct (zflush st) as [e st1]. destruct Hf as (l1 & Hc1 & Hin1 & Hf).
  destruct e as [x|].
  - (* flush() failed *)
    destruct x; try contradiction. rewrite Hu. exists l1. split; [exact Hc1|]. split; [exact Hin1|].
    destruct Hf as [Hfl Hfa]. split; [exact Hfl|].
    eapply FailAt_weaken; [exact Hfa|]. apply pack_prefix.
    unfold aclose. cbn [a_bits]. apply fields_app_prefix.
  - destruct Hf as [HH1 Hacc1]. cbv zeta in Hu. rewrite (Healthy_p0 _ _ _ HH1) in Hu.
    destruct HH1 as (Herr1 & HI1 & HF1 & Hout1 & Hrle1 & Hhdr1 & Hcrc1 & Hin1' & Hlvl1).
    pose proof (batch_spec (a_bits (aflush level a)) (z_wr st1)
                  (close_fields (z_level st1) (z_wrHdr st1) (z_endCRC st1)) (z_out st1) HI1
                  (close_fields_ok _ _ _)) as Hb.
    destruct (frun (z_wr st1) (close_fields (z_level st1) (z_wrHdr st1) (z_endCRC st1))) as [e2 p].
    destruct (flush_tail e2 p (z_out st1)) as [[err out] p3].
    destruct Hb as (l2 & Hc2 & Ho & Hb).
    assert (Ha : a_bits (aclose level a) =
                 fields_app (a_bits (aflush level a))
                            (close_fields (z_level st1) (z_wrHdr st1) (z_endCRC st1))).
    { unfold aclose. cbn [a_bits]. rewrite Hlvl1, Hhdr1, Hcrc1. reflexivity. }
    destruct err as [x|].
    + destruct x; try contradiction. destruct Hu as (hdr1 & ->).
      exists (l1 ++ l2). unfold zsink in *. cbn [z_wr z_in].
      split; [eapply calls_app; eassumption|]. split; [exact Hin1|].
      destruct Hb as (Hk & Hoi & Hfa). split.
      * split; [reflexivity|]. split; [discriminate|]. split; [exact Hlvl1|].
        unfold ZG. cbn [z_wr z_out]. exact (conj Hk (conj Hoi Ho)).
      * rewrite Ha. eapply FailAt_prepend; eassumption.
    + rewrite Hu. exists (l1 ++ l2). unfold zsink in *. cbn [z_wr z_in].
      split; [eapply calls_app; eassumption|]. split; [exact Hin1|].
      destruct Hb as (HI3 & HF3 & Hacc2).
      split; [|apply Forall_app; split; assumption].
      apply Healthy_intro; unfold aclose;
        cbn [z_err z_wr z_out z_rle z_wrHdr z_endCRC z_in z_level a_closed a_bits a_rle a_hdr a_endCRC a_in];
        try assumption; try reflexivity.
      rewrite Hlvl1, Hhdr1, Hcrc1 in HI3. exact HI3.
Qed.

Lemma fast_rev_nonempty {A} (l : list A) : l <> [] -> fast_rev l <> [].
Proof.
  intros H E. apply H. rewrite fast_rev_eq in E. apply (f_equal (@length A)) in E.
  rewrite rev_length in E. destruct l; [reflexivity | discriminate].
Qed.

Lemma level_L level : 1 <= level -> 100000 <= level * blockSize.
Proof. unfold blockSize. lia. Qed.

Lemma aflush_wf level a : rle_wf (a_rle a) -> rle_wf (a_rle (aflush level a)).
Proof.
  intros H. unfold aflush. destruct (fast_rev (r_buf (a_rle a))); [exact H | apply rle_init_wf].
Qed.

Lemma awrite_loop_wf level fuel : forall a data,
  rle_wf (a_rle a) -> rle_wf (a_rle (awrite_loop fuel level a data)).
Proof.
  induction fuel as [|f IH]; intros a data Hwf; cbn [awrite_loop]; [exact Hwf|].
  destruct (rle_write (level * blockSize) data (a_rle a)) as [rle' rest] eqn:Er.
  pose proof (rle_write_wf _ _ _ _ _ Er Hwf) as Hwf'.
  destruct rest as [|b r]; [exact Hwf'|]. apply IH. apply aflush_wf. exact Hwf'.
Qed.

Lemma zwrite_loop_spec level : 1 <= level -> forall fuel cnt st a data,
  Healthy level st a -> a_closed a = false -> rle_wf (a_rle a) ->
  ((length data < fuel)%nat \/ (a_rle a = rle_init /\ (length data <= fuel)%nat /\ data <> [])) ->
  let '(ret, st') := zwrite_loop fuel cnt st data in
  let a' := awrite_loop fuel level a data in
  exists l, calls (zsink st) l (zsink st') /\ rle_wf (a_rle a') /\
  match ret with
  | ZRWrite n None =>
    n = cnt /\ Healthy level st' (a_add_in a' (Z.of_nat cnt)) /\ Forall beh_accepts l
  | ZRWrite n (Some (ESrc t)) =>
    n = O /\ z_in st' = z_in st /\ Failed level st' (ESrc t) /\
    FailAt (zsink st) l t (zsink st') (pack true (a_bits a'))
  | _ => False
  end.
Proof.
  intros Hlvl. pose proof (level_L level Hlvl) as HL.
  induction fuel as [|f IH]; intros cnt st a data HH Hcl Hwf Hm.
  - exfalso. destruct Hm as [Hm | (_ & Hm & Hne)]; [lia|]. destruct data; [contradiction | cbn [length] in Hm; lia].
  - cbn [zwrite_loop awrite_loop].
    pose proof HH as (Herr & HI & HF & Hout & Hrle & Hhdr & Hcrc & Hin & Hlv).
    rewrite Hlv, Hrle.
    destruct (rle_write (level * blockSize) data (a_rle a)) as [rle' rest] eqn:Er.
    pose proof (rle_write_wf _ _ _ _ _ Er Hwf) as Hwf'.
    destruct rest as [|b r].
    + (* everything stored *)
      exists []. split; [apply calls_nil|]. split; [exact Hwf'|].
      split; [reflexivity|]. split; [|constructor].
      apply Healthy_intro;
        cbn [z_err z_wr z_out z_rle z_wrHdr z_endCRC z_in z_level a_add_in a_with_rle
             a_closed a_bits a_rle a_hdr a_endCRC a_in]; try assumption; try reflexivity.
      rewrite Hin. reflexivity.
    + (* a byte did not fit: flush() *)
      set (st1 := mkBzw (z_in st) (z_out st) (z_wr st) (z_err st) level (z_wrHdr st)
                        (z_blkCRC st) (z_endCRC st) rle').
      assert (HH1 : Healthy level st1 (a_with_rle a rle')).
      { apply Healthy_intro; unfold st1;
          cbn [z_err z_wr z_out z_rle z_wrHdr z_endCRC z_in z_level a_with_rle
               a_closed a_bits a_rle a_hdr a_endCRC a_in]; try assumption; reflexivity. }
      pose proof (zflush_spec level st1 _ HH1 Hcl) as Hf.
      destruct (zflush st1) as [e st2]. destruct Hf as (l1 & Hc1 & Hin1 & Hf).
      (* the buffer was not empty: the flush re-initialised the RLE1 stage *)
      assert (Hfresh : a_rle (aflush level (a_with_rle a rle')) = rle_init).
      { pose proof (rle_write_full _ _ _ _ _ Er ltac:(discriminate)) as Hfull.
        rewrite aflush_nonempty; [reflexivity|]. cbn [a_with_rle a_rle].
        apply fast_rev_nonempty. unfold rle_wf in Hwf'. destruct (r_buf rle'); [|discriminate].
        cbn [length] in Hwf'. lia. }
      assert (Hlen : (length (b :: r) <= f)%nat).
      { destruct Hm as [Hm | (Hi & Hm & Hne)].
        - pose proof (rle_write_length _ _ _ _ _ Er). lia.
        - destruct data as [|d0 ds]; [contradiction|]. rewrite Hi in Er.
          assert (H1L : 1 <= level * blockSize) by lia.
          pose proof (rle_write_fresh _ _ _ _ _ H1L Er). cbn [length] in *. lia. }
      destruct e as [x|].
      * destruct x; try contradiction. destruct Hf as [Hfl Hfa].
        exists l1. split; [exact Hc1|].
        split.
        { apply awrite_loop_wf. apply (aflush_wf level (a_with_rle a rle')). exact Hwf'. }
        split; [reflexivity|]. split; [exact Hin1|]. split; [exact Hfl|].
        eapply FailAt_weaken; [exact Hfa|]. apply pack_prefix. apply awrite_loop_mono.
      * destruct Hf as [HH2 Hacc1].
        specialize (IH cnt st2 (aflush level (a_with_rle a rle')) (b :: r) HH2).
        rewrite aflush_closed in IH. specialize (IH Hcl (aflush_wf level (a_with_rle a rle') Hwf')).
        assert (Hm2 : (length (b :: r) < f)%nat \/
                      (a_rle (aflush level (a_with_rle a rle')) = rle_init /\
                       (length (b :: r) <= f)%nat /\ b :: r <> [])).
        { right. split; [exact Hfresh|]. split; [exact Hlen | discriminate]. }
        specialize (IH Hm2).
        destruct (zwrite_loop f cnt st2 (b :: r)) as [ret st'].
        destruct IH as (l2 & Hc2 & Hwf2 & IH).
        exists (l1 ++ l2). split; [eapply calls_app; eassumption|]. split; [exact Hwf2|].
        destruct ret as [n [x|]| | |]; try contradiction.
        -- destruct x; try contradiction. destruct IH as (Hn & Hin2 & Hfl2 & Hfa2).
           split; [exact Hn|]. split; [rewrite Hin2; exact Hin1|]. split; [exact Hfl2|].
           eapply FailAt_prepend; eassumption.
        -- destruct IH as (Hn & HH3 & Hacc2). split; [exact Hn|]. split; [exact HH3|].
           apply Forall_app. split; assumption.
Qed.

Lemma zwrite_spec level : 1 <= level -> forall st a data,
  Healthy level st a -> a_closed a = false -> rle_wf (a_rle a) ->
  let '(ret, st') := zwrite st data in
  let a' := awrite level a data in
  exists l, calls (zsink st) l (zsink st') /\ rle_wf (a_rle a') /\
  match ret with
  | ZRWrite n None => n = length data /\ Healthy level st' a' /\ Forall beh_accepts l
  | ZRWrite n (Some (ESrc t)) =>
    n = O /\ z_in st' = z_in st /\ Failed level st' (ESrc t) /\
    FailAt (zsink st) l t (zsink st') (pack true (a_bits a'))
  | _ => False
  end.
Proof.
  intros Hlvl st a data HH Hcl Hwf. unfold zwrite.
  assert (He : z_err st = None) by (destruct HH as (He & _); rewrite Hcl in He; exact He).
  rewrite He. rewrite awrite_eq.
  apply (zwrite_loop_spec level Hlvl (S (length data)) (length data) st a data HH Hcl Hwf).
  left. lia.
Qed.

(* ------------------------------------------------------------------------- *)
(* (7) the latch                                                               *)
(* ------------------------------------------------------------------------- *)
Definition ret_err (r : zret) : option err :=
  match r with ZRWrite _ e | ZRClose e => e | _ => None end.
Definition ret_n (r : zret) : nat := match r with ZRWrite n _ => n | _ => O end.
Definition no_reset (o : zop) : Prop := match o with ZReset _ _ => False | _ => True end.

(* THEOREM 1a (any state whatsoever): once the latch holds a failure, Write and Close return
   it, make no sink call and change nothing *)
Theorem zstep_latched st o e : z_err st = Some e -> e <> EClosed -> no_reset o ->
  zstep st o = (match o with ZWrite _ => ZRWrite 0 (Some e) | _ => ZRClose (Some e) end, st).
Proof.
  intros He Hne Ho. destruct o as [data| |sc rs]; cbn [zstep]; [| |contradiction].
  - unfold zwrite. rewrite He. reflexivity.
  - unfold zclose. rewrite He. destruct e; try reflexivity. contradiction.
Qed.

(* after a successful Close: Write returns errClosed, Close returns nil, nothing changes *)
Theorem zstep_closed st o : z_err st = Some EClosed -> no_reset o ->
  zstep st o = (match o with ZWrite _ => ZRWrite 0 (Some EClosed) | _ => ZRClose None end, st).
Proof.
  intros He Ho. destruct o as [data| |sc rs]; cbn [zstep]; [| |contradiction].
  - unfold zwrite. rewrite He. reflexivity.
  - unfold zclose. rewrite He. reflexivity.
Qed.

(* ------------------------------------------------------------------------- *)
(* (8) the states a history reaches                                            *)
(* ------------------------------------------------------------------------- *)
(* since the last Reset (or NewWriter): s0 is the sink installed then, l the behaviours its
   calls met, a the abstract Writer of the calls made *)
Definition ZReach (level : N) (s0 : wsink) (st : bzw) (a : abz) (l : list sbeh) : Prop :=
  calls s0 l (zsink st) /\
  ((Healthy level st a /\ rle_wf (a_rle a) /\ Forall beh_accepts l) \/
   (exists t, Failed level st (ESrc t) /\ FailAt s0 l t (zsink st) (pack true (a_bits a)))).

Lemma ZReach_ZG level s0 st a l : ZReach level s0 st a l -> ZG st.
Proof.
  intros (_ & [(HH & _) | (t & (_ & _ & _ & HG) & _)]); [eapply Healthy_ZG; exact HH | exact HG].
Qed.

(* what one call reports about the sink calls it made, from a state whose latch is clear *)
Definition StepRep (ret : zret) (st' : bzw) (l' : list sbeh) : Prop :=
  (Forall beh_accepts l' /\ ret_err ret = None /\
   (z_err st' = None \/ z_err st' = Some EClosed)) \/
  (exists l1 k t l2, l' = l1 ++ SFail k t :: l2 /\ Forall beh_accepts l1 /\ (length l2 <= 2)%nat /\
                     ret_err ret = Some (ESrc t) /\ z_err st' = Some (ESrc t)).

Lemma FailAt_rep s l t s' target : FailAt s l t s' target ->
  exists l1 k l2, l = l1 ++ SFail k t :: l2 /\ Forall beh_accepts l1 /\ (length l2 <= 2)%nat.
Proof. intros (l1 & k & l2 & sf & H1 & H2 & H3 & _). exists l1, k, l2. repeat split; assumption. Qed.

Lemma zstep_reach level : 1 <= level -> forall s0 st a l o,
  ZReach level s0 st a l -> no_reset o ->
  let '(ret, st') := zstep st o in
  exists l', ZReach level s0 st' (astep level a o) (l ++ l') /\
    calls (zsink st) l' (zsink st') /\ ret <> ZRPanic /\
    z_in st' = (z_in st + Z.of_nat (ret_n ret))%Z /\
    (z_err st = None -> StepRep ret st' l').
Proof.
  intros Hlvl s0 st a l o (Hc0 & HR) Ho.
  destruct HR as [(HH & Hwf & Hacc) | (t & Hfl & Hfa)].
  - destruct (a_closed a) eqn:Hcl.
    + (* closed *)
      assert (He : z_err st = Some EClosed) by (destruct HH as (He & _); rewrite Hcl in He; exact He).
      rewrite (zstep_closed st o He Ho). exists []. rewrite app_nil_r.
      assert (Ha : astep level a o = a)
        by (destruct o; cbn [astep]; try rewrite Hcl; try reflexivity; contradiction).
      rewrite Ha. split; [split; [exact Hc0|]; left; exact (conj HH (conj Hwf Hacc))|].
      split; [apply calls_nil|]. split; [destruct o; discriminate|].
      split; [destruct o; cbn [ret_n]; lia|]. intros E. rewrite E in He. discriminate.
    + assert (He : z_err st = None) by (destruct HH as (He & _); rewrite Hcl in He; exact He).
      destruct o as [data| |sc rs]; cbn [zstep astep]; [| |contradiction]; rewrite Hcl.
      * (* Write *)
        pose proof (zwrite_spec level Hlvl st a data HH Hcl Hwf) as Hw.
        destruct (zwrite st data) as [ret st']. destruct Hw as (l' & Hc & Hwf' & Hw).
        exists l'. destruct ret as [n [x|]| | |]; try contradiction.
        -- destruct x; try contradiction. destruct Hw as (-> & Hin & Hfl & Hfa).
           split; [split; [eapply calls_app; eassumption|]; right; exists tag; split; [exact Hfl|];
                   eapply FailAt_prepend; eassumption|].
           split; [exact Hc|]. split; [discriminate|]. split; [cbn [ret_n]; lia|].
           intros _. right. destruct (FailAt_rep _ _ _ _ _ Hfa) as (l1 & k & l2 & E1 & E2 & E3).
           exists l1, k, tag, l2. repeat split; try assumption. apply Hfl.
        -- destruct Hw as (-> & HH' & Hacc').
           split; [split; [eapply calls_app; eassumption|]; left; split; [exact HH'|]; split;
                   [exact Hwf' | apply Forall_app; split; assumption]|].
           split; [exact Hc|]. split; [discriminate|].
           split.
           { cbn [ret_n]. destruct HH as (_ & _ & _ & _ & _ & _ & _ & Hin & _).
             destruct HH' as (_ & _ & _ & _ & _ & _ & _ & Hin' & _).
             rewrite Hin, Hin'. apply awrite_in. }
           intros _. left. split; [exact Hacc'|]. split; [reflexivity|]. left.
           destruct HH' as (He' & _). rewrite awrite_eq in He'. cbn [a_add_in a_closed] in He'.
           rewrite awrite_loop_closed, Hcl in He'. exact He'.
      * (* Close *)
        pose proof (zclose_spec level st a HH Hcl) as Hw.
        destruct (zclose st) as [ret st']. destruct Hw as (l' & Hc & Hin & Hw).
        exists l'. destruct ret as [|[x|]| |]; try contradiction.
        -- destruct x; try contradiction. destruct Hw as (Hfl & Hfa).
           split; [split; [eapply calls_app; eassumption|]; right; exists tag; split; [exact Hfl|];
                   eapply FailAt_prepend; eassumption|].
           split; [exact Hc|]. split; [discriminate|]. split; [cbn [ret_n]; lia|].
           intros _. right. destruct (FailAt_rep _ _ _ _ _ Hfa) as (l1 & k & l2 & E1 & E2 & E3).
           exists l1, k, tag, l2. repeat split; try assumption. apply Hfl.
        -- destruct Hw as (HH' & Hacc').
           split; [split; [eapply calls_app; eassumption|]; left; split; [exact HH'|]; split;
                   [apply (aflush_wf level a); exact Hwf | apply Forall_app; split; assumption]|].
           split; [exact Hc|]. split; [discriminate|]. split; [cbn [ret_n]; lia|].
           intros _. left. split; [exact Hacc'|]. split; [reflexivity|]. right.
           destruct HH' as (He' & _). exact He'.
  - (* the latch is set *)
    destruct Hfl as (He & Hne & Hlv & HG).
    rewrite (zstep_latched st o (ESrc t) He Hne Ho). exists []. rewrite app_nil_r.
    split.
    { split; [exact Hc0|]. right. exists t. split; [exact (conj He (conj Hne (conj Hlv HG)))|].
      eapply FailAt_weaken; [exact Hfa|]. apply pack_prefix. apply astep_mono.
      intros sc rs E. subst o. contradiction. }
    split; [apply calls_nil|]. split; [destruct o; discriminate|].
    split; [destruct o; cbn [ret_n]; lia|]. intros E. rewrite E in He. discriminate.
Qed.

(* ------------------------------------------------------------------------- *)
(* (9) NewWriter, Reset, whole histories                                       *)
(* ------------------------------------------------------------------------- *)
Lemma ZReach_new level script rest :
  ZReach level (new_sink script rest) (znew level (new_sink script rest)) anew [].
Proof.
  split; [apply calls_nil|]. left. split; [|split; [apply rle_init_wf | constructor]].
  apply Healthy_intro; try reflexivity.
  - apply Inv_pw_init.
  - split; [reflexivity | cbn; lia].
Qed.

(* THEOREM 6: Reset on ANY Writer value (failed, closed, mid-stream, with bytes staged and
   bits pending in the bit writer) gives exactly the state NewWriter gives: every later call
   behaves as on a new Writer. (With a prefix.Writer.Init that kept cntBuf, [pw_init] would
   keep w_cnt and this equation would be false: see WriterImplExamples.v.) *)
Theorem reset_is_new st script rest :
  zreset st (new_sink script rest) = znew (z_level st) (new_sink script rest).
Proof. reflexivity. Qed.

Theorem reset_behaves_as_new st script rest ops :
  zrun (zreset st (new_sink script rest)) ops = zrun (znew (z_level st) (new_sink script rest)) ops.
Proof. rewrite reset_is_new. reflexivity. Qed.

(* every state of every history *)
Definition Reach (level : N) (st : bzw) : Prop := exists s0 a l, ZReach level s0 st a l.

Lemma ZReach_level level s0 st a l : ZReach level s0 st a l -> z_level st = level.
Proof.
  intros (_ & [(HH & _) | (t & (_ & _ & Hl & _) & _)]); [|exact Hl].
  destruct HH as (_ & _ & _ & _ & _ & _ & _ & _ & Hl). exact Hl.
Qed.

Lemma Reach_new level script rest : Reach level (znew level (new_sink script rest)).
Proof. exists (new_sink script rest), anew, []. apply ZReach_new. Qed.

Lemma zstep_Reach level : 1 <= level -> forall st o, Reach level st ->
  Reach level (snd (zstep st o)) /\ fst (zstep st o) <> ZRPanic /\
  z_in (snd (zstep st o)) =
    (match o with ZReset _ _ => 0 | _ => z_in st + Z.of_nat (ret_n (fst (zstep st o))) end)%Z.
Proof.
  intros Hlvl st o (s0 & a & l & HR). destruct o as [data| |sc rs].
  - pose proof (zstep_reach level Hlvl s0 st a l (ZWrite data) HR I) as H.
    destruct (zstep st (ZWrite data)) as [ret st']. destruct H as (l' & H1 & _ & H3 & H4 & _).
    cbn [fst snd]. split; [eexists s0, _, _; exact H1|]. split; assumption.
  - pose proof (zstep_reach level Hlvl s0 st a l ZClose HR I) as H.
    destruct (zstep st ZClose) as [ret st']. destruct H as (l' & H1 & _ & H3 & H4 & _).
    cbn [fst snd]. split; [eexists s0, _, _; exact H1|]. split; assumption.
  - cbn [zstep fst snd]. rewrite reset_is_new, (ZReach_level _ _ _ _ _ HR).
    split; [apply Reach_new|]. split; [discriminate | reflexivity].
Qed.

(* InputOffset along a history: 0 after Reset, else increased by the count Write returned *)
Fixpoint in_ok (z0 : Z) (ops : list zop) (obs : list zobs) : Prop :=
  match ops, obs with
  | o :: ops', ob :: obs' =>
    o_in ob = (match o with ZReset _ _ => 0 | _ => z0 + Z.of_nat (ret_n (o_ret ob)) end)%Z /\
    in_ok (o_in ob) ops' obs'
  | _, _ => True
  end.

Lemma ZG_out st : ZG st -> z_out st = Z.of_nat (length (wsink_data (zsink st))).
Proof. intros (_ & Ho & ->). exact Ho. Qed.

Lemma Reach_ZG level st : Reach level st -> ZG st.
Proof. intros (s0 & a & l & HR). eapply ZReach_ZG; exact HR. Qed.

(* THEOREM 0 / 5 (every history, every sink script, Resets included): no call ends in a
   run-time panic; after EVERY call OutputOffset is the number of bytes the sink in use
   has accepted and InputOffset is the sum of the counts Write returned since the last
   Reset *)
Theorem zrun_offsets level : 1 <= level -> forall ops st, Reach level st ->
  let '(obs, st') := zrun st ops in
  Reach level st' /\ length obs = length ops /\
  Forall (fun ob => o_ret ob <> ZRPanic /\
                    o_out ob = Z.of_nat (length (wsink_data (o_sink ob)))) obs /\
  in_ok (z_in st) ops obs.
Proof.
  intros Hlvl. induction ops as [|o ops IH]; intros st HR; cbn [zrun].
  - split; [exact HR|]. split; [reflexivity|]. split; [constructor | exact I].
  - pose proof (zstep_Reach level Hlvl st o HR) as (H1 & H2 & H3).
    destruct (zstep st o) as [ret st1]. cbn [fst snd] in *.
    specialize (IH st1 H1). destruct (zrun st1 ops) as [obs st2].
    destruct IH as (I1 & I2 & I3 & I4).
    assert (G : (let '(obs0, st'') := (zobserve ret st1 :: obs, st2) in
             Reach level st'' /\ length obs0 = length (o :: ops) /\
             Forall (fun ob => o_ret ob <> ZRPanic /\
                               o_out ob = Z.of_nat (length (wsink_data (o_sink ob)))) obs0 /\
             in_ok (z_in st) (o :: ops) obs0)).
    { split; [exact I1|]. split; [cbn [length]; lia|]. split.
      - constructor; [|exact I3]. cbn [zobserve o_ret o_out o_sink]. split; [exact H2|].
        apply (ZG_out st1). eapply Reach_ZG; exact H1.
      - cbn [in_ok zobserve o_in o_ret]. split; [exact H3 | exact I4]. }
    destruct ret; try exact G. exfalso. apply H2. reflexivity.
Qed.

(* ------------------------------------------------------------------------- *)
(* (10) histories without Reset: the abstract Writer alongside                 *)
(* ------------------------------------------------------------------------- *)
Lemma zrun_reach level : 1 <= level -> forall ops s0 st a l,
  ZReach level s0 st a l -> Forall no_reset ops ->
  exists l', ZReach level s0 (snd (zrun st ops)) (arun level a ops) (l ++ l').
Proof.
  intros Hlvl. induction ops as [|o ops IH]; intros s0 st a l HR Hno; cbn [zrun arun fold_left].
  - exists []. rewrite app_nil_r. exact HR.
  - inversion Hno as [|o' ops' Ho Hno']; subst.
    pose proof (zstep_reach level Hlvl s0 st a l o HR Ho) as H.
    destruct (zstep st o) as [ret st1]. destruct H as (l1 & H1 & _ & H3 & _).
    destruct (IH s0 st1 _ _ H1 Hno') as (l2 & H2).
    exists (l1 ++ l2). rewrite app_assoc.
    destruct ret; try (destruct (zrun st1 ops) as [obs st2]; exact H2).
    exfalso. apply H3. reflexivity.
Qed.

(* THEOREM 1b: a call that returns an error other than errClosed sets the latch to that
   error (so, by zstep_latched, every later Write / Close returns it, no sink call is made,
   no offset changes, until Reset) *)
Theorem error_sets_latch level : 1 <= level -> forall st o e, Reach level st -> no_reset o ->
  ret_err (fst (zstep st o)) = Some e -> e <> EClosed -> z_err (snd (zstep st o)) = Some e.
Proof.
  intros Hlvl st o e (s0 & a & l & HR) Ho He Hne.
  destruct (z_err st) as [e0|] eqn:E0.
  - destruct (err_eqb e0 EClosed) eqn:Ec.
    + apply err_eqb_eq in Ec. subst e0. rewrite (zstep_closed st o E0 Ho) in *.
      cbn [fst snd] in *. destruct o; cbn [ret_err] in He; try discriminate.
      injection He as <-. contradiction.
    + assert (Hn0 : e0 <> EClosed) by (intros ->; cbn in Ec; discriminate).
      rewrite (zstep_latched st o e0 E0 Hn0 Ho) in *. cbn [fst snd] in *.
      destruct o; cbn [ret_err] in He; try contradiction; rewrite <- He; exact E0.
  - pose proof (zstep_reach level Hlvl s0 st a l o HR Ho) as H.
    destruct (zstep st o) as [ret st']. destruct H as (l' & _ & _ & _ & _ & Hrep).
    cbn [fst snd] in *. destruct (Hrep E0) as [(_ & Hr & _) | (l1 & k & t & l2 & _ & _ & _ & Hr & Hz)].
    + rewrite Hr in He. discriminate.
    + rewrite Hr in He. injection He as <-. exact Hz.
Qed.

Theorem latched_history st ops e : z_err st = Some e -> e <> EClosed -> Forall no_reset ops ->
  zrun st ops =
  (map (fun o => zobserve (match o with ZWrite _ => ZRWrite 0 (Some e) | _ => ZRClose (Some e) end) st) ops,
   st).
Proof.
  intros He Hne. induction ops as [|o ops IH]; intros Hno; cbn [zrun map]; [reflexivity|].
  inversion Hno as [|o' ops' Ho Hno']; subst.
  rewrite (zstep_latched st o e He Hne Ho). rewrite (IH Hno').
  destruct o; reflexivity.
Qed.

(* THEOREM 2: from a state whose latch is clear, the call during which the sink fails
   returns the error of the FIRST failed sink call; at most two more sink calls are made
   after it (by the wr.Flush() that follows the recovered panic) and the latch is set; a
   call whose sink calls all succeed returns nil *)
Theorem sink_error_reported level : 1 <= level -> forall st o, Reach level st -> no_reset o ->
  z_err st = None ->
  exists l', calls (zsink st) l' (zsink (snd (zstep st o))) /\
             StepRep (fst (zstep st o)) (snd (zstep st o)) l'.
Proof.
  intros Hlvl st o (s0 & a & l & HR) Ho E0.
  pose proof (zstep_reach level Hlvl s0 st a l o HR Ho) as H.
  destruct (zstep st o) as [ret st']. destruct H as (l' & _ & Hc & _ & _ & Hrep).
  exists l'. split; [exact Hc | exact (Hrep E0)].
Qed.

(* ------------------------------------------------------------------------- *)
(* (11) what the sink holds                                                    *)
(* ------------------------------------------------------------------------- *)
(* the bytes accepted by the first n calls of a sink *)
Definition accepted_upto (s : wsink) (n : nat) : list byte := concat (firstn n (rev (k_chunks s))).

Lemma wsink_write_chunks s d : exists c, k_chunks (snd (wsink_write s d)) = c :: k_chunks s.
Proof.
  unfold wsink_write. destruct (match k_script s with [] => _ | _ => _ end) as [b script'].
  destruct b; eexists; reflexivity.
Qed.

Lemma calls_chunks s l s' : calls s l s' ->
  exists cs, k_chunks s' = cs ++ k_chunks s /\ length cs = length l.
Proof.
  induction 1 as [s|s d l s' H IH]; [exists []; split; reflexivity|].
  destruct IH as (cs & E & Hl). destruct (wsink_write_chunks s d) as (c & Ec).
  exists (cs ++ [c]). rewrite E, Ec, <- app_assoc. split; [reflexivity|].
  rewrite app_length. cbn [length]. lia.
Qed.

Lemma accepted_upto_calls s0 l1 sf l2 s' : k_chunks s0 = [] ->
  calls s0 l1 sf -> calls sf l2 s' -> wsink_data sf = accepted_upto s' (length l1).
Proof.
  intros H0 H1 H2. destruct (calls_chunks _ _ _ H1) as (c1 & E1 & L1).
  destruct (calls_chunks _ _ _ H2) as (c2 & E2 & L2).
  rewrite H0, app_nil_r in E1. unfold accepted_upto, wsink_data.
  rewrite E2, E1, rev_app_distr, <- L1, <- (rev_length c1).
  rewrite firstn_app, Nat.sub_diag, firstn_all. cbn [firstn]. rewrite app_nil_r. reflexivity.
Qed.

Lemma FailAt_not_ff s l t s' target : FailAt s l t s' target -> Forall beh_accepts l -> False.
Proof.
  intros (l1 & k & l2 & sf & -> & _) H. apply Forall_app in H as [_ H].
  inversion H as [|b r Hb Hr]; subst. discriminate Hb.
Qed.

(* the abstract Writer along Write ... Write, Close, anything *)
Lemma awrite_closed level a d : a_closed (awrite level a d) = a_closed a.
Proof. rewrite awrite_eq. cbn [a_add_in a_closed]. apply awrite_loop_closed. Qed.

Lemma arun_writes level ds : forall a, a_closed a = false ->
  arun level a (map ZWrite ds) = fold_left (awrite level) ds a /\
  a_closed (fold_left (awrite level) ds a) = false.
Proof.
  unfold arun. induction ds as [|d ds IH]; intros a Hc; cbn [map fold_left]; [split; [reflexivity | exact Hc]|].
  cbn [astep]. rewrite Hc. apply IH. rewrite awrite_closed. exact Hc.
Qed.

Lemma arun_closed level ops : forall a, a_closed a = true -> Forall no_reset ops -> arun level a ops = a.
Proof.
  unfold arun. induction ops as [|o ops IH]; intros a Hc Hno; cbn [fold_left]; [reflexivity|].
  inversion Hno as [|o' ops' Ho Hno']; subst.
  destruct o; cbn [astep]; try rewrite Hc; try (apply IH; assumption). contradiction.
Qed.

Lemma arun_app level a x y : arun level a (x ++ y) = arun level (arun level a x) y.
Proof. unfold arun. apply fold_left_app. Qed.

Lemma arun_stream level ds tail : Forall no_reset tail ->
  a_bits (arun level anew (map ZWrite ds ++ ZClose :: tail)) = astream level ds /\
  a_closed (arun level anew (map ZWrite ds ++ ZClose :: tail)) = true.
Proof.
  intros Hno. rewrite arun_app. destruct (arun_writes level ds anew eq_refl) as [-> Hc].
  change (arun level ?a (ZClose :: tail)) with (arun level (astep level a ZClose) tail).
  cbn [astep]. rewrite Hc. rewrite arun_closed by (try reflexivity; exact Hno).
  split; reflexivity.
Qed.

(* the output of the same history over a sink that never fails *)
Theorem faultfree_output level : 1 <= level -> forall ops, Forall no_reset ops ->
  wsink_data (zsink (snd (zrun (znew level (new_sink [] SAccept)) ops))) =
  pack true (a_bits (arun level anew ops)).
Proof.
  intros Hlvl ops Hno.
  destruct (zrun_reach level Hlvl ops _ _ _ _ (ZReach_new level [] SAccept) Hno) as (l' & Hc & HR).
  cbn [app] in *.
  assert (Hff : Forall beh_accepts l').
  { eapply calls_ff; [exact Hc|]. split; [constructor | reflexivity]. }
  destruct HR as [(HH & _) | (t & _ & Hfa)]; [apply (Healthy_sink _ _ _ HH)|].
  exfalso. eapply FailAt_not_ff; eassumption.
Qed.

(* THEOREM 4 (and the general form of 3). For every history without Reset and every sink
   script, with [good] the output of the same history over a sink that never fails:
   - as long as no sink call has failed the sink holds exactly [good] (all its whole bytes);
   - once a sink call has failed (the Writer is latched with the error #t of the FIRST failed
     call): the bytes the sink accepted up to and INCLUDING that call are a prefix of
     [good]. Nothing is claimed about the at most two calls that follow it inside the same
     Write / Close (they may deliver bytes that are NOT a continuation: see
     WriterImplExamples.v); no call is made after that Write / Close has returned. *)
Theorem prefix_at_failure level : 1 <= level -> forall script rest ops, Forall no_reset ops ->
  let s0 := new_sink script rest in
  let st' := snd (zrun (znew level s0) ops) in
  let good := wsink_data (zsink (snd (zrun (znew level (new_sink [] SAccept)) ops))) in
  (forall t, z_err st' = Some (ESrc t) ->
     exists l1 k l2,
       calls s0 (l1 ++ SFail k t :: l2) (zsink st') /\ Forall beh_accepts l1 /\ (length l2 <= 2)%nat /\
       prefix_of (accepted_upto (zsink st') (S (length l1))) good) /\
  (z_err st' = None \/ z_err st' = Some EClosed ->
     wsink_data (zsink st') = good /\
     exists l, calls s0 l (zsink st') /\ Forall beh_accepts l).
Proof.
  intros Hlvl script rest ops Hno. cbv zeta. rewrite (faultfree_output level Hlvl ops Hno).
  destruct (zrun_reach level Hlvl ops _ _ _ _ (ZReach_new level script rest) Hno) as (l' & Hc & HR).
  cbn [app] in *. split.
  - intros t Ht. destruct HR as [(HH & _) | (t' & Hfl & Hfa)].
    + destruct HH as (He & _). rewrite Ht in He. destruct (a_closed _); discriminate.
    + destruct Hfl as (He & _). rewrite Ht in He. injection He as <-.
      destruct Hfa as (l1 & k & l2 & sf & -> & Hacc & Hlen & Hc1 & Hc2 & Hp).
      exists l1, k, l2. split; [exact Hc|]. split; [exact Hacc|]. split; [exact Hlen|].
      replace (S (length l1)) with (length (l1 ++ [SFail k t])) by (rewrite app_length; cbn [length]; lia).
      rewrite <- (accepted_upto_calls (new_sink script rest) (l1 ++ [SFail k t]) sf l2 _ eq_refl Hc1 Hc2).
      exact Hp.
  - intros He. destruct HR as [(HH & _ & Hacc) | (t' & (He' & _) & _)].
    + split; [apply (Healthy_sink _ _ _ HH)|]. exists l'. split; assumption.
    + rewrite He' in He. destruct He; discriminate.
Qed.

(* THEOREM 3. Write(d1) ... Write(dn), Close, then any calls: if the Writer ends up closed
   (which is the case exactly when that Close returned nil: close_nil_closes below) then no
   sink call ever failed and the sink holds exactly SpecW.bzip2_encode level (d1 ++ ... ++ dn) *)
Theorem closed_stream_is_bzip2_encode level : 1 <= level -> forall script rest ds tail,
  Forall no_reset tail ->
  let s0 := new_sink script rest in
  let st' := snd (zrun (znew level s0) (map ZWrite ds ++ ZClose :: tail)) in
  z_err st' = Some EClosed ->
  wsink_data (zsink st') = bzip2_encode level (concat ds) /\
  exists l, calls s0 l (zsink st') /\ Forall beh_accepts l.
Proof.
  intros Hlvl script rest ds tail Hno. cbv zeta. intros He.
  assert (Hno' : Forall no_reset (map ZWrite ds ++ ZClose :: tail)).
  { apply Forall_app. split; [apply Forall_forall; intros o Ho; apply in_map_iff in Ho as (d & <- & _); exact I|].
    constructor; [exact I | exact Hno]. }
  destruct (prefix_at_failure level Hlvl script rest _ Hno') as [_ H]. cbv zeta in H.
  destruct (H (or_intror He)) as (Hd & Hl). split; [|exact Hl].
  rewrite Hd, (faultfree_output level Hlvl _ Hno').
  destruct (arun_stream level ds tail Hno) as [-> _].
  apply astream_is_bzip2_encode. exact Hlvl.
Qed.

(* Close returns nil only by closing (or on a closed Writer): so, with the theorem above,
   only if no sink call ever failed *)
Theorem close_nil_closes level : 1 <= level -> forall st, Reach level st ->
  fst (zstep st ZClose) = ZRClose None -> z_err (snd (zstep st ZClose)) = Some EClosed.
Proof.
  intros Hlvl st (s0 & a & l & HR) Hret.
  destruct (z_err st) as [e0|] eqn:E0.
  - destruct (err_eqb e0 EClosed) eqn:Ec.
    + apply err_eqb_eq in Ec. subst e0. rewrite (zstep_closed st ZClose E0 I). exact E0.
    + assert (Hn0 : e0 <> EClosed) by (intros ->; cbn in Ec; discriminate).
      rewrite (zstep_latched st ZClose e0 E0 Hn0 I) in Hret. discriminate.
  - pose proof (zstep_reach level Hlvl s0 st a l ZClose HR I) as H.
    destruct (zstep st ZClose) as [ret st']. destruct H as (l' & HR' & _ & _ & _ & Hrep).
    cbn [fst snd] in *. subst ret.
    destruct HR' as (_ & [(HH & _) | (t & (He & _) & _)]).
    + destruct HH as (He & _). cbn [astep] in He.
      assert (Hcl : a_closed a = false).
      { destruct HR as (_ & [(HH0 & _) | (t & (He0 & _) & _)]).
        - destruct HH0 as (He0 & _). rewrite E0 in He0. destruct (a_closed a); [discriminate | reflexivity].
        - rewrite E0 in He0. discriminate. }
      rewrite Hcl in He. exact He.
    + destruct (Hrep E0) as [(_ & _ & [Hz | Hz]) | (l1 & k & t' & l2 & _ & _ & _ & Hr & _)].
      * rewrite Hz in He. discriminate.
      * rewrite Hz in He. discriminate.
      * discriminate Hr.
Qed.

Print Assumptions zstep_latched.
Print Assumptions error_sets_latch.
Print Assumptions sink_error_reported.
Print Assumptions closed_stream_is_bzip2_encode.
Print Assumptions close_nil_closes.
Print Assumptions prefix_at_failure.
Print Assumptions zrun_offsets.
Print Assumptions reset_behaves_as_new.
