(* Layer (a), part 1 of the refinement of bzip2.Reader (Bzip2/Impl.v) to the libbzip2 port
   (Bzip2/SpecR.v): the bit fields.

   The Reader's bit reader is the implementation-level model of Prefix/ReaderImpl.v in
   big-endian mode; its invariant at abstract bit position R is [PI true data R]
   (Prefix/DecReadThms.v: the state between operations, where a ByteReader may hold whole
   look-ahead bytes that an earlier ReadSymbol has pulled).  The specification reads its input
   as the list [stream_bits true data] = the bits of every byte, most significant first.

     pull_any          PullBits from any PI state
     read_bits_pi      ReadBits(nb) = the next nb stream bits (least significant first), or
                       io.ErrUnexpectedEOF exactly when fewer than nb bits are left
     try_read_bits_pi  TryReadBits
     read_be64_pi      ReadBitsBE64(nb) = the value the specification's [rbits nb] reads
     run_rbits_at      [rbits n] on the specification side, at position R
     read_pads_pi      ReadPads = the specification's AlignP *)
From V Require Import Base.Prelude Base.Prog Base.ProgThms Bzip2.Common Bzip2.SpecR Bzip2.BitIO
  Prefix.Code Prefix.ReaderImpl Prefix.ReaderSpec Prefix.ReaderThms Prefix.DecTable
  Prefix.DecReadThms Bzip2.Impl Bzip2.ImplCrc.

Local Open Scope N_scope.

(* ---- values: most significant bit first = reversed least significant first -------------- *)
Lemma mval_acc_snoc l b acc : mval_acc (l ++ [b]) acc = 2 * mval_acc l acc + N.b2n b.
Proof. unfold mval_acc. rewrite fold_left_app. reflexivity. Qed.

Lemma mval_rev l : mval l = bits_val (rev l).
Proof.
  induction l as [|b l IH] using rev_ind; [reflexivity|].
  unfold mval. rewrite mval_acc_snoc, rev_app_distr. cbn [rev app bits_val].
  fold (mval l). rewrite IH. lia.
Qed.

Lemma bits_val_lt l : bits_val l < 2 ^ N.of_nat (length l).
Proof. apply bits_val_bound. Qed.

Lemma reverse_bits_list l : reverse_bits (bits_val l) (N.of_nat (length l)) = mval l.
Proof.
  unfold reverse_bits. rewrite Nat2N.id, val_bits_bits_val, fast_rev_eq, mval_rev. reflexivity.
Qed.

(* ReverseUint32N on a value of nb <= 32 bits *)
Lemma reverse32N_spec v nb : nb <= 32 -> v < 2 ^ nb -> reverse32N (w32 v) nb = reverse_bits v nb.
Proof.
  intros Hnb Hv. unfold reverse32N, shl32, w32.
  assert (Hv32 : v < 2 ^ 32).
  { eapply N.lt_le_trans; [exact Hv|]. apply N.pow_le_mono_r; lia. }
  rewrite (N.mod_small v) by exact Hv32.
  destruct (32 <=? 32 - nb) eqn:E.
  - assert (nb = 0) by lia. subst nb. assert (v = 0) by (change (2 ^ 0) with 1 in Hv; lia). subst v.
    reflexivity.
  - apply N.bits_inj. intros i. rewrite reverse32_spec, reverse_bits_testbit.
    destruct (i <? 32) eqn:E32.
    + rewrite testbit_mod_pow2. replace (31 - i <? 32) with true by lia.
      destruct (i <? nb) eqn:En.
      * rewrite N.shiftl_spec_high' by lia. f_equal. lia.
      * rewrite N.shiftl_spec_low by lia. reflexivity.
    + replace (i <? nb) with false by lia. reflexivity.
Qed.

Section Bits.
Variable data : list byte.
Hypothesis Hd : forall b, In b data -> b < 256.

Notation bits := (stream_bits true data).
Notation PI := (PI true data).
Notation total := (8 * length data)%nat.

Definition field (R n : nat) : list bool := firstn n (skipn R bits).

Lemma bits_length : length bits = total.
Proof. apply stream_bits_length. Qed.

Lemma field_length R n : (R + n <= total)%nat -> length (field R n) = n.
Proof.
  intros H. unfold field. rewrite firstn_length, skipn_length, bits_length. lia.
Qed.

Lemma bits_at_field R n : bits_at bits R n = bits_val (field R n).
Proof. reflexivity. Qed.

Lemma field_app R n m : field R (n + m) = field R n ++ field (R + n) m.
Proof. unfold field. rewrite firstn_plus, skipn_skipn'. reflexivity. Qed.

(* ---- the specification side: state at bit position R ------------------------------------- *)
Definition sat (R : nat) (out : list byte) (len : N) : ast :=
  mkAst (skipn R bits) (N.of_nat R) out len.

Lemma skipn_field R n : (R + n <= total)%nat -> skipn R bits = field R n ++ skipn (R + n) bits.
Proof.
  intros _. unfold field. rewrite <- skipn_skipn'. symmetry. apply firstn_skipn.
Qed.

(* a program that only reads, on a state of this form *)
Lemma reads_at {A} (p : prog A) R n a out len :
  (R + n <= total)%nat -> reads p (field R n) a ->
  run p (sat R out len) = Done a (sat (R + n) out len).
Proof.
  intros Hn Hr. unfold sat. rewrite (skipn_field R n Hn). rewrite Hr.
  rewrite field_length by exact Hn. do 2 f_equal. lia.
Qed.

(* failure by running out of input leaves the output alone *)
Definition fails_ueof {A} (r : result A) (out : list byte) (len : N) : Prop :=
  exists s', r = Fail EUEOF s' /\ a_out s' = out /\ Prog.a_len s' = len.

Lemma msbf_acc_short n : forall acc (l : list bool) pos out len, (length l < n)%nat ->
  fails_ueof (run (bits_msbf_acc n acc) (mkAst l pos out len)) out len.
Proof.
  induction n as [|n IH]; intros acc l pos out len Hl; [lia|].
  cbn [bits_msbf_acc run a_in a_pos a_out Prog.a_len]. destruct l as [|b l].
  - eexists. split; [reflexivity|]. split; reflexivity.
  - apply IH. cbn [length] in Hl. lia.
Qed.

Lemma run_rbits_at R n out len : (R <= total)%nat ->
  if (R + n <=? total)%nat
  then run (rbits n) (sat R out len) = Done (mval (field R n)) (sat (R + n) out len)
  else fails_ueof (run (rbits n) (sat R out len)) out len.
Proof.
  intros HR. destruct (R + n <=? total)%nat eqn:E.
  - apply Nat.leb_le in E. apply reads_at; [exact E|].
    pose proof (reads_rbits_list (field R n)) as H. rewrite field_length in H by exact E. exact H.
  - apply Nat.leb_gt in E. unfold rbits, bits_msbf, sat. apply msbf_acc_short.
    rewrite skipn_length, bits_length. lia.
Qed.

(* ---- PullBits / ReadBits / TryReadBits from a PI state ------------------------------------- *)
Lemma pull_any R p nb : PI R p -> nb <= 57 ->
  match pull_bits p nb with
  | (false, p') => PI R p' /\ nb <= p_numBits p' /\ p_buffered p' = p_buffered p
  | (true, _) => (total < R + N.to_nat nb)%nat
  end.
Proof.
  intros HP Hnb. destruct (p_buffered p) eqn:Hb.
  - pose proof (pull_ok true data Hd R p nb HP Hnb) as H.
    destruct (pull_bits p nb) as [[|] p']; [apply H; rewrite Hb; discriminate|].
    destruct H as (H1 & H2 & H3 & _); [rewrite Hb; discriminate|]. rewrite Hb in H3. tauto.
  - destruct (nb <=? p_numBits p) eqn:E.
    + assert (Hpb : forall f, pull_bytes (S f) p nb = (false, p)).
      { intros f. cbn [pull_bytes]. rewrite E. reflexivity. }
      unfold pull_bits. rewrite Hb. rewrite (Hpb 8%nat).
      apply N.leb_le in E. split; [exact HP|]. split; [exact E | exact Hb].
    + apply N.leb_gt in E.
      pose proof (pull_ok true data Hd R p nb HP Hnb) as H.
      destruct (pull_bits p nb) as [[|] p']; [apply H; intros _; lia|].
      destruct H as (H1 & H2 & H3 & _); [intros _; lia|]. rewrite Hb in H3. tauto.
Qed.

Lemma take_value R p nb : PI R p -> nb <= p_numBits p ->
  fst (take_bits p nb) = bits_at bits R (N.to_nat nb).
Proof.
  intros HP Hnb. destruct (PI_numBits true data Hd R p HP) as (H64 & _ & Ew).
  unfold take_bits. cbn [fst].
  rewrite <- (window_low true data Hd R nb) by lia.
  assert (Hm : forall x, x mod 2 ^ nb = (x mod 2 ^ p_numBits p) mod 2 ^ nb).
  { intros x. apply N.bits_inj. intros i. rewrite !testbit_mod_pow2.
    destruct (i <? nb) eqn:E1; [|reflexivity]. replace (i <? p_numBits p) with true by lia.
    reflexivity. }
  rewrite (Hm (p_bufBits p)), (Hm (window true data R)), Ew. reflexivity.
Qed.

Theorem read_bits_pi R p nb : PI R p -> nb <= 57 ->
  if (R + N.to_nat nb <=? total)%nat
  then exists p', read_bits p nb = (Some (bits_at bits R (N.to_nat nb)), p') /\
                  PI (R + N.to_nat nb) p' /\ p_buffered p' = p_buffered p
  else exists p', read_bits p nb = (None, p').
Proof.
  intros HP Hnb. unfold read_bits. pose proof (pull_any R p nb HP Hnb) as Hpull.
  destruct (pull_bits p nb) as [[|] p1] eqn:Ep.
  - replace (R + N.to_nat nb <=? total)%nat with false by (symmetry; apply Nat.leb_gt; lia).
    exists p1. reflexivity.
  - destruct Hpull as (HP1 & Hn1 & Hb1).
    destruct (PI_numBits true data Hd R p1 HP1) as (_ & Hin & _).
    replace (R + N.to_nat nb <=? total)%nat with true by (symmetry; apply Nat.leb_le; lia).
    destruct (take_ok true data Hd R p1 nb HP1 Hn1) as (T1 & T2 & _).
    pose proof (take_value R p1 nb HP1 Hn1) as Tv.
    destruct (take_bits p1 nb) as [v p2]. cbn [fst snd] in *.
    exists p2. split; [rewrite Tv; reflexivity|]. split; [exact T1 | congruence].
Qed.

Theorem try_read_bits_pi R p nb : PI R p ->
  match try_read_bits p nb with
  | (None, p') => p' = p /\ p_numBits p < nb
  | (Some v, p') => v = bits_at bits R (N.to_nat nb) /\ PI (R + N.to_nat nb) p' /\
                    p_buffered p' = p_buffered p /\ (R + N.to_nat nb <= total)%nat
  end.
Proof.
  intros HP. unfold try_read_bits. destruct (p_numBits p <? nb) eqn:E.
  - split; [reflexivity | lia].
  - apply N.ltb_ge in E.
    destruct (take_ok true data Hd R p nb HP E) as (T1 & T2 & _).
    pose proof (take_value R p nb HP E) as Tv.
    destruct (PI_numBits true data Hd R p HP) as (_ & Hin & _).
    destruct (take_bits p nb) as [v p2]. cbn [fst snd] in *.
    split; [exact Tv|]. split; [exact T1|]. split; [exact T2 | lia].
Qed.

(* ---- the Reader's monadic wrappers --------------------------------------------------------- *)
Definition Rep (R : nat) (st : bzst) : Prop := PI R (z_rd st).

Lemma Rep_set_rd R st p : PI R p -> Rep R (set_rd st p).
Proof. intros H. exact H. Qed.

Theorem m_read_bits_sim R st nb : Rep R st -> nb <= 57 ->
  if (R + N.to_nat nb <=? total)%nat
  then exists p', m_read_bits nb st = (ROk (bits_val (field R (N.to_nat nb))), set_rd st p') /\
                  PI (R + N.to_nat nb) p' /\ p_buffered p' = p_buffered (z_rd st)
  else exists p', m_read_bits nb st = (RThrow EUEOF, set_rd st p').
Proof.
  intros HP Hnb. unfold m_read_bits. pose proof (read_bits_pi R (z_rd st) nb HP Hnb) as H.
  destruct (R + N.to_nat nb <=? total)%nat.
  - destruct H as (p' & E & H1 & H2). exists p'. rewrite E. split; [reflexivity|]. split; assumption.
  - destruct H as (p' & E). exists p'. rewrite E. reflexivity.
Qed.

(* val, ok := TryReadBits(nb); if !ok { val = ReadBits(nb) } *)
Theorem m_bits_fast_sim R st nb : Rep R st -> nb <= 57 ->
  if (R + N.to_nat nb <=? total)%nat
  then exists p', m_bits_fast nb st = (ROk (bits_val (field R (N.to_nat nb))), set_rd st p') /\
                  PI (R + N.to_nat nb) p' /\ p_buffered p' = p_buffered (z_rd st)
  else exists p', m_bits_fast nb st = (RThrow EUEOF, set_rd st p').
Proof.
  intros HP Hnb. unfold m_bits_fast.
  pose proof (try_read_bits_pi R (z_rd st) nb HP) as Ht.
  destruct (try_read_bits (z_rd st) nb) as [[v|] p1].
  - destruct Ht as (-> & H1 & H2 & H3).
    replace (R + N.to_nat nb <=? total)%nat with true by (symmetry; apply Nat.leb_le; lia).
    exists p1. split; [reflexivity|]. split; assumption.
  - destruct Ht as (-> & _).
    assert (Hs : set_rd st (z_rd st) = st) by (destruct st; reflexivity).
    rewrite Hs. apply m_read_bits_sim; assumption.
Qed.

(* ReadBitsBE64(nb), nb <= 32: the value of the next nb bits, first bit most significant *)
Theorem m_read_be64_small R st nb : Rep R st -> nb <= 32 ->
  if (R + N.to_nat nb <=? total)%nat
  then exists p', m_read_be64 nb st = (ROk (mval (field R (N.to_nat nb))), set_rd st p') /\
                  PI (R + N.to_nat nb) p' /\ p_buffered p' = p_buffered (z_rd st)
  else exists p', m_read_be64 nb st = (RThrow EUEOF, set_rd st p').
Proof.
  intros HP Hnb. unfold m_read_be64. replace (nb <=? 32) with true by lia.
  unfold mbind. pose proof (m_read_bits_sim R st nb HP ltac:(lia)) as H.
  destruct (R + N.to_nat nb <=? total)%nat eqn:E.
  - destruct H as (p' & Em & H1 & H2). rewrite Em. exists p'. split; [|split; assumption].
    unfold ret. f_equal. f_equal. apply Nat.leb_le in E.
    pose proof (field_length R (N.to_nat nb) E) as Hl.
    rewrite reverse32N_spec; [|exact Hnb|].
    + pose proof (reverse_bits_list (field R (N.to_nat nb))) as Hr.
      rewrite Hl, N2Nat.id in Hr. exact Hr.
    + pose proof (bits_val_lt (field R (N.to_nat nb))) as Hb. rewrite Hl, N2Nat.id in Hb. exact Hb.
  - destruct H as (p' & Em). rewrite Em. exists p'. reflexivity.
Qed.

(* ReadBitsBE64(48): two fields of 32 and 16 bits *)
Theorem m_read_be64_48 R st : Rep R st ->
  if (R + 48 <=? total)%nat
  then exists p', m_read_be64 48 st = (ROk (mval (field R 48)), set_rd st p') /\
                  PI (R + 48) p' /\ p_buffered p' = p_buffered (z_rd st)
  else exists e p', m_read_be64 48 st = (RThrow EUEOF, set_rd st p') /\ e = EUEOF.
Proof.
  intros HP. unfold m_read_be64. change (48 <=? 32) with false. cbv iota.
  change (48 - 32) with 16. change (64 - 48) with 16. unfold mbind.
  pose proof (m_read_bits_sim R st 32 HP ltac:(lia)) as H1.
  change (N.to_nat 32) with 32%nat in H1.
  destruct (R + 32 <=? total)%nat eqn:E1.
  - destruct H1 as (p1 & Em1 & HP1 & Hb1). rewrite Em1.
    pose proof (m_read_bits_sim (R + 32) (set_rd st p1) 16 HP1 ltac:(lia)) as H2.
    change (N.to_nat 16) with 16%nat in H2.
    replace (R + 32 + 16)%nat with (R + 48)%nat in H2 by lia.
    destruct (R + 48 <=? total)%nat eqn:E2.
    + destruct H2 as (p2 & Em2 & HP2 & Hb2). rewrite Em2. exists p2.
      assert (Hs : set_rd (set_rd st p1) p2 = set_rd st p2) by reflexivity. rewrite Hs.
      split; [|split; [exact HP2 | cbn [set_rd z_rd] in Hb2; congruence]].
      unfold ret. f_equal. f_equal.
      apply Nat.leb_le in E1, E2.
      pose proof (field_length R 32 E1) as L1.
      assert (L2 : length (field (R + 32) 16) = 16%nat) by (apply field_length; lia).
      pose proof (bits_val_lt (field R 32)) as B1. rewrite L1 in B1. change (N.of_nat 32) with 32 in B1.
      pose proof (bits_val_lt (field (R + 32) 16)) as B2. rewrite L2 in B2. change (N.of_nat 16) with 16 in B2.
      set (a := bits_val (field R 32)) in *. set (b := bits_val (field (R + 32) 16)) in *.
      assert (Ha : reverse32 (w32 a) = mval (field R 32)).
      { unfold w32. rewrite N.mod_small by exact B1. unfold reverse32.
        pose proof (reverse_bits_list (field R 32)) as Hr. rewrite L1 in Hr. exact Hr. }
      assert (Hb : reverse32 (w32 b) = mval (field (R + 32) 16) * 2 ^ 16).
      { assert (Hb32 : b < 2 ^ 32) by (eapply N.lt_le_trans; [exact B2 | apply N.pow_le_mono_r; lia]).
        unfold w32. rewrite N.mod_small by exact Hb32.
        rewrite <- (reverse_bits_list (field (R + 32) 16)), L2. change (N.of_nat 16) with 16. fold b.
        rewrite <- N.shiftl_mul_pow2.
        apply N.bits_inj. intros i. rewrite reverse32_spec.
        destruct (i <? 16) eqn:E16.
        - rewrite N.shiftl_spec_low by lia. replace (i <? 32) with true by lia.
          apply N.ltb_lt in E16.
          destruct (N.testbit b (31 - i)) eqn:Et; [|reflexivity].
          exfalso. assert (Hlow : b mod 2 ^ 16 = b) by (apply N.mod_small; exact B2).
          rewrite <- Hlow in Et. rewrite N.mod_pow2_bits_high in Et by lia. discriminate.
        - rewrite N.shiftl_spec_high' by lia. rewrite reverse_bits_testbit.
          destruct (i <? 32) eqn:E32.
          + replace (i - 16 <? 16) with true by lia. f_equal. lia.
          + replace (i - 16 <? 16) with false by lia. reflexivity. }
      rewrite Ha, Hb. replace 48%nat with (32 + 16)%nat by reflexivity. rewrite field_app.
      unfold mval at 3. unfold mval_acc. rewrite fold_left_app. fold (mval_acc (field R 32) 0).
      fold (mval (field R 32)). fold (mval_acc (field (R + 32) 16) (mval (field R 32))).
      rewrite mval_acc_split, L2. change (N.of_nat 16) with 16.
      pose proof (mval_bound (field R 32)) as M1. rewrite L1 in M1. change (N.of_nat 32) with 32 in M1.
      pose proof (mval_bound (field (R + 32) 16)) as M2. rewrite L2 in M2. change (N.of_nat 16) with 16 in M2.
      set (x := mval (field R 32)) in *. set (y := mval (field (R + 32) 16)) in *.
      rewrite N.shiftl_mul_pow2.
      assert (Hor : N.lor (x * 2 ^ 32) (y * 2 ^ 16) = x * 2 ^ 32 + y * 2 ^ 16).
      { apply N.bits_inj. intros i. rewrite <- !N.shiftl_mul_pow2.
        assert (Hdisj : N.land (N.shiftl x 32) (N.shiftl y 16) = 0).
        { apply N.bits_inj. intros j. rewrite N.land_spec, N.bits_0.
          destruct (j <? 32) eqn:Ej.
          - rewrite (N.shiftl_spec_low x) by lia. reflexivity.
          - rewrite (N.shiftl_spec_high' y) by lia.
            assert (Hy : N.testbit y (j - 16) = false).
            { rewrite <- (N.mod_small y (2 ^ 16)) by exact M2. apply N.mod_pow2_bits_high. lia. }
            rewrite Hy. apply andb_false_r. }
        rewrite <- N.lxor_lor by exact Hdisj. rewrite <- N.add_nocarry_lxor by exact Hdisj. reflexivity. }
      rewrite Hor. rewrite N.shiftr_div_pow2.
      replace (x * 2 ^ 32 + y * 2 ^ 16) with ((x * 2 ^ 16 + y) * 2 ^ 16).
      * rewrite N.div_mul by (apply N.pow_nonzero; lia). reflexivity.
      * change (2 ^ 32) with (2 ^ 16 * 2 ^ 16). lia.
    + destruct H2 as (p2 & Em2). rewrite Em2. exists EUEOF, p2. split; reflexivity.
  - destruct H1 as (p1 & Em1). rewrite Em1.
    replace (R + 48 <=? total)%nat with false by (symmetry; apply Nat.leb_gt; apply Nat.leb_gt in E1; lia).
    exists EUEOF, p1. split; reflexivity.
Qed.

(* ReadPads: skip to the byte boundary *)
Theorem m_read_pads_sim R st : Rep R st ->
  let n := ((8 - R mod 8) mod 8)%nat in
  exists v p', m_read_pads st = (ROk v, set_rd st p') /\ PI (R + n) p' /\
               p_buffered p' = p_buffered (z_rd st) /\ (R + n <= total)%nat /\
               (p_buffered p' = false -> p_numBits p' <= p_numBits (z_rd st)).
Proof.
  intros HP n. unfold m_read_pads, read_pads.
  destruct HP as (HC & Hd7 & Hpk). pose proof HC as HC'. destruct HC' as [C1 C2 C3 C4 [W1 W2 W3 W4 W5] C6].
  assert (Hn : N.to_nat (p_numBits (z_rd st) mod 8) = n).
  { subst n. rewrite N2Nat.inj_mod by lia. change (N.to_nat 8) with 8%nat.
    assert (Hx : ((R + N.to_nat (p_numBits (z_rd st))) mod 8 = 0)%nat) by exact W2.
    rewrite Nat.add_mod in Hx by lia.
    pose proof (Nat.mod_upper_bound R 8 ltac:(lia)).
    pose proof (Nat.mod_upper_bound (N.to_nat (p_numBits (z_rd st))) 8 ltac:(lia)).
    set (a := (R mod 8)%nat) in *. set (b := (N.to_nat (p_numBits (z_rd st)) mod 8)%nat) in *.
    assert (Hab : (a + b = 0 \/ a + b = 8)%nat).
    { destruct (Nat.eq_dec (a + b) 0); [left; assumption|right].
      destruct (Nat.lt_ge_cases (a + b) 8) as [Hlt|Hge].
      - rewrite Nat.mod_small in Hx by exact Hlt. lia.
      - assert (Hlt16 : (a + b < 16)%nat) by lia.
        replace (a + b)%nat with (8 + (a + b - 8))%nat in Hx by lia.
        rewrite <- Nat.add_mod_idemp_l in Hx by lia. rewrite Nat.mod_same in Hx by lia.
        cbn [Nat.add] in Hx. rewrite Nat.mod_small in Hx by lia. lia. }
    destruct Hab as [Hab|Hab].
    - replace a with 0%nat by lia. replace b with 0%nat by lia. reflexivity.
    - replace b with (8 - a)%nat by lia.
      destruct (Nat.eq_dec a 0) as [->|Hne]; [lia|]. rewrite Nat.mod_small by lia. reflexivity. }
  assert (Hle : p_numBits (z_rd st) mod 8 <= p_numBits (z_rd st)) by (apply N.mod_le; lia).
  destruct (take_ok true data Hd R (z_rd st) _ (conj HC (conj Hd7 Hpk)) Hle) as (T1 & T2 & T3).
  destruct (take_bits (z_rd st) (p_numBits (z_rd st) mod 8)) as [v p2]. cbn [fst snd] in *.
  exists v, p2. split; [reflexivity|]. rewrite Hn in T1. split; [exact T1|]. split; [exact T2|].
  split; [lia|]. intros _. lia.
Qed.

End Bits.

(* the bits the specification reads are the bits of the big-endian Reader *)
Lemma val_bits_rev8 b : b < 256 -> val_bits 8 (rev8 b) = bits_msb b.
Proof.
  intros Hb. unfold rev8, bits_msb. rewrite fast_rev_eq.
  assert (L : length (rev (val_bits 8 b)) = 8%nat) by (rewrite rev_length, val_bits_length; reflexivity).
  rewrite <- L at 1. rewrite val_bits_bits_val. f_equal.
  unfold bits_lsb. cbn [val_bits].
  rewrite <- !N.bit0_odd. rewrite !N.div2_spec. rewrite !N.shiftr_spec'. reflexivity.
Qed.

Lemma stream_bits_msb data : (forall b, In b data -> b < 256) ->
  stream_bits true data = bits_of_bytes_msb data.
Proof.
  intros Hd. rewrite bits_of_bytes_msb_eq. unfold stream_bits, bytes_to_bits_msb.
  induction data as [|b data IH]; [reflexivity|]. cbn [flat_map ord].
  rewrite val_bits_rev8 by (apply Hd; left; reflexivity). f_equal.
  apply IH. intros c Hc. apply Hd. right. exact Hc.
Qed.
