(* LIFECYCLE of bzip2.Reader at the implementation level (bzip2/reader.go): Close, the sticky
   error, Reset, as histories of calls over the model of Bzip2/Impl.v.

     Reader.Close      -> [bz_close]
     one call          -> [bz_op]      (Read(buf) / Close() / Reset(r))
     a history         -> [bz_ops]     one observation per call, never cut short
     NewReader + calls -> [bz_life]

   An observation is what the correspondence harness (harness/cmd/vh/wbzlife.go, WBZLIFE)
   records after every call: the kind of call, the bytes delivered (Read only), the class of
   the error returned, InputOffset, OutputOffset and the position of the CURRENT source.

   As in Bzip2/Impl.v a crash of the real code (Go run-time panic; the model's loop budget) is
   the latched pseudo error [EPanic] / [EFuel]; the real call does not return, the harness stops
   the history there and the driver cuts the model's observation list at the same place.
   [bz_ops] itself never stops: that keeps the statements about histories simple.

   No proofs here (the file is extracted); the theorems are in Bzip2/ImplLifeThms.v. *)
From V Require Import Base.Prelude Prefix.ReaderImpl Prefix.DecTable.
From V Require Import Bzip2.Impl.

Local Open Scope N_scope.

(* func (zr *Reader) Close() error {
     if zr.err == io.EOF || zr.err == errClosed {
       zr.rle.Init(nil) // Make sure future reads fail
       zr.err = errClosed
       return nil
     }
     return zr.err // Return the persistent error
   }
   Nothing else is touched: not the source, not the offsets, not the CRC, not the Decoder
   objects.  With zr.err == nil (Close in the middle of a stream, or before the first Read)
   Close does NOTHING AT ALL: it returns nil, the pending output of the RLE1 stage stays where
   it is and the next Read goes on delivering and decoding. *)
Definition bz_close (st : bzst) : option err * bzst :=
  match z_err st with
  | Some EEOF => (None, set_err (set_rle st (rle_init [])) (Some EClosed))
  | Some EClosed => (None, set_err (set_rle st (rle_init [])) (Some EClosed))
  | e => (e, st)
  end.

(* ---- calls and what is observed of them ---------------------------------------------------- *)
Inductive bzop :=
| BRead (n : nat)                                                   (* Read(make([]byte, n)) *)
| BClose                                                            (* Close() *)
| BReset (data : list byte) (buffered : bool) (fills reads : list nat).  (* Reset(scripted source) *)

Inductive bzkind := BkRead | BkClose | BkReset.

Record bzlobs := mkBzlobs {
  bl_kind : bzkind;
  bl_bytes : list byte;       (* Read: the bytes stored into the buffer; otherwise [] *)
  bl_err : option err;        (* the error returned (Reset: always nil) *)
  bl_inOff : Z;               (* InputOffset after the call *)
  bl_outOff : Z;              (* OutputOffset after the call *)
  bl_srcPos : nat             (* bytes the current source has handed out *)
}.

Definition bz_src_pos (st : bzst) : nat := s_pos (p_src (z_rd st)).

Definition bzlobs_of (k : bzkind) (bs : list byte) (e : option err) (st : bzst) : bzlobs :=
  mkBzlobs k bs e (z_inOff st) (z_outOff st) (bz_src_pos st).

Definition bz_op (st : bzst) (o : bzop) : bzlobs * bzst :=
  match o with
  | BRead n => let '((bs, e), st') := bz_read st n in (bzlobs_of BkRead bs e st', st')
  | BClose => let '(e, st') := bz_close st in (bzlobs_of BkClose [] e st', st')
  | BReset data buffered fills reads =>
    let st' := bz_reset st data buffered fills reads in (bzlobs_of BkReset [] None st', st')
  end.

Fixpoint bz_ops (st : bzst) (ops : list bzop) : list bzlobs * bzst :=
  match ops with
  | [] => ([], st)
  | o :: r =>
    let '(ob, st') := bz_op st o in
    let '(l, fin) := bz_ops st' r in (ob :: l, fin)
  end.

(* NewReader(scripted source), then the calls *)
Definition bz_life (data : list byte) (buffered : bool) (fills reads : list nat) (ops : list bzop)
  : list bzlobs :=
  fst (bz_ops (bz_new data buffered fills reads) ops).
