(* Layer 2a: createTables of the Go code (Bzip2/Degenerate.v [create_tables]) builds
   the same numbers as BZ2_hbCreateDecodeTables in the libbzip2 port
   (Bzip2/SpecR.v [mk_table]), for every length vector of at most 258 lengths
   in 1..20:

     create_tables_ok   it does not panic, and limits/bases/perms agree with
                        the rows of mk_table ([tab_ok])
   (the loop invariants also show which numbers the int32 variables hold:
   see create_tables_int32 in DegenerateCheck.v) *)
From Coq Require Import FMapPositive.
From V Require Import Base.Prelude Base.Prog Bzip2.Common Bzip2.SpecR Bzip2.SortLemmas
  Bzip2.MtfRle2 Prefix.Code Bzip2.Degenerate Bzip2.DegenerateSpec.

Local Open Scope N_scope.

(* ---- checked arrays ---------------------------------------------------------------- *)
Lemma aget_nth {A} (a : list A) : forall i, aget a i = nth_error a (N.to_nat i).
Proof.
  induction a as [|x a IH]; intros i; cbn [aget].
  - destruct (N.to_nat i); reflexivity.
  - destruct i as [|p]; [reflexivity|]. rewrite IH.
    replace (N.to_nat (N.pos p)) with (S (N.to_nat (N.pred (N.pos p)))) by lia. reflexivity.
Qed.

Lemma aset_spec {A} (a : list A) v : forall i,
  aset a i v = if (N.to_nat i <? length a)%nat
               then Some (firstn (N.to_nat i) a ++ v :: skipn (S (N.to_nat i)) a) else None.
Proof.
  induction a as [|x a IH]; intros i; cbn [aset].
  - destruct (N.to_nat i); reflexivity.
  - destruct i as [|p]; [reflexivity|]. rewrite IH.
    replace (N.to_nat (N.pos p)) with (S (N.to_nat (N.pred (N.pos p)))) by lia.
    cbn [length firstn skipn app]. change (S ?a <? S ?b)%nat with (a <? b)%nat.
    destruct (N.to_nat (N.pred (N.pos p)) <? length a)%nat; reflexivity.
Qed.

Lemma nth_error_firstn_lt {A} (l : list A) : forall n i, (i < n)%nat ->
  nth_error (firstn n l) i = nth_error l i.
Proof.
  induction l as [|x l IH]; intros n i H.
  - rewrite firstn_nil. reflexivity.
  - destruct n as [|n]; [lia|]. destruct i as [|i]; [reflexivity|]. cbn [firstn nth_error].
    apply IH. lia.
Qed.

Lemma nth_error_skipn' {A} (l : list A) : forall n i,
  nth_error (skipn n l) i = nth_error l (n + i).
Proof.
  induction l as [|x l IH]; intros n i.
  - rewrite skipn_nil. destruct i, (n + 0)%nat, n; reflexivity.
  - destruct n as [|n]; [reflexivity|]. cbn [skipn Nat.add nth_error]. apply IH.
Qed.

Lemma aset_some {A} (a : list A) i v : (N.to_nat i < length a)%nat ->
  exists a', aset a i v = Some a' /\ length a' = length a /\
             aget a' i = Some v /\ forall j, j <> i -> aget a' j = aget a j.
Proof.
  intros H. rewrite aset_spec. apply Nat.ltb_lt in H. rewrite H. apply Nat.ltb_lt in H.
  eexists. split; [reflexivity|]. split; [|split].
  - rewrite app_length, firstn_length. cbn [length]. rewrite skipn_length. lia.
  - rewrite aget_nth, nth_error_app2; rewrite firstn_length; [|lia].
    replace (N.to_nat i - Nat.min (N.to_nat i) (length a))%nat with 0%nat by lia. reflexivity.
  - intros j Hj. rewrite !aget_nth.
    destruct (Nat.ltb_spec (N.to_nat j) (N.to_nat i)) as [Hlt|Hge].
    + rewrite nth_error_app1 by (rewrite firstn_length; lia).
      rewrite nth_error_firstn_lt by lia. reflexivity.
    + rewrite nth_error_app2 by (rewrite firstn_length; lia). rewrite firstn_length.
      replace (N.to_nat j - Nat.min (N.to_nat i) (length a))%nat
        with (S (N.to_nat j - S (N.to_nat i))) by lia.
      cbn [nth_error]. rewrite nth_error_skipn'. f_equal. lia.
Qed.

Lemma aget_some_lt {A} (a : list A) i x : aget a i = Some x -> (N.to_nat i < length a)%nat.
Proof. rewrite aget_nth. intros H. apply nth_error_Some. congruence. Qed.

Lemma aget_lt {A} (a : list A) i : (N.to_nat i < length a)%nat -> exists x, aget a i = Some x.
Proof.
  intros H. rewrite aget_nth. destruct (nth_error a (N.to_nat i)) eqn:E; [eexists; reflexivity|].
  apply nth_error_None in E. lia.
Qed.

Lemma aget_repeat {A} (x : A) n i : (N.to_nat i < n)%nat -> aget (repeat x n) i = Some x.
Proof.
  intros H. rewrite aget_nth. rewrite (nth_error_nth' _ x) by (rewrite repeat_length; lia).
  rewrite nth_repeat. reflexivity.
Qed.

(* ---- loops ------------------------------------------------------------------------------ *)
Lemma range_n_nil lo hi : hi < lo -> range_n lo hi = [].
Proof. intros H. unfold range_n. destruct (lo <=? hi) eqn:E; [lia | reflexivity]. Qed.

Lemma range_n_eq lo hi : lo <= hi ->
  range_n lo hi = map (fun i => lo + N.of_nat i) (seq 0 (N.to_nat (hi - lo + 1))).
Proof.
  intros H. unfold range_n. destruct (lo <=? hi) eqn:E; [|lia].
  rewrite iota_eq, map_map. reflexivity.
Qed.

Lemma range_n_cons lo hi : lo <= hi -> range_n lo hi = lo :: range_n (lo + 1) hi.
Proof.
  intros H. rewrite range_n_eq by exact H.
  replace (N.to_nat (hi - lo + 1)) with (S (N.to_nat (hi - lo))) by lia.
  cbn [seq map]. rewrite N.add_0_r. f_equal.
  destruct (N.eq_dec lo hi) as [->|Hne].
  - rewrite N.sub_diag. cbn [N.to_nat seq map]. rewrite range_n_nil by lia. reflexivity.
  - rewrite range_n_eq by lia. replace (hi - (lo + 1) + 1) with (hi - lo) by lia.
    rewrite <- seq_shift, map_map. apply map_ext. intros a. lia.
Qed.

Lemma range_n_In lo hi x : In x (range_n lo hi) <-> lo <= x <= hi.
Proof.
  destruct (N.le_gt_cases lo hi) as [H|H].
  - rewrite range_n_eq by exact H. rewrite in_map_iff. split.
    + intros (y & <- & Hy). apply in_seq in Hy. lia.
    + intros Hx. exists (N.to_nat (x - lo)). split; [lia|]. apply in_seq. lia.
  - rewrite range_n_nil by exact H. cbn [In]. lia.
Qed.

(* invariant rule for "for i := lo; i <= hi; i++" *)
Lemma ofold_range_inv {S : Type} (f : S -> N -> option S) (P : N -> S -> Prop) hi :
  forall n lo s0, n = N.to_nat (hi + 1 - lo) -> lo <= hi + 1 -> P lo s0 ->
  (forall i s, lo <= i <= hi -> P i s -> exists s', f s i = Some s' /\ P (i + 1) s') ->
  exists s', ofold f (range_n lo hi) s0 = Some s' /\ P (hi + 1) s'.
Proof.
  induction n as [|n IH]; intros lo s0 Hn Hlo HP Hstep.
  - assert (lo = hi + 1) by lia. subst lo. rewrite range_n_nil by lia.
    exists s0. split; [reflexivity | exact HP].
  - assert (Hle : lo <= hi) by lia. rewrite range_n_cons by exact Hle. cbn [ofold].
    destruct (Hstep lo s0 ltac:(lia) HP) as (s1 & Hf & HP1). rewrite Hf.
    apply IH; [lia | lia | exact HP1 |].
    intros i s Hi. apply Hstep. lia.
Qed.

(* invariant rule for "for _, x := range l" *)
Lemma ofold_inv {S A : Type} (f : S -> A -> option S) (P : list A -> S -> Prop) :
  forall l pre s0, P pre s0 ->
  (forall done x s, (exists post, pre ++ l = done ++ x :: post) -> P done s ->
                    exists s', f s x = Some s' /\ P (done ++ [x]) s') ->
  exists s', ofold f l s0 = Some s' /\ P (pre ++ l) s'.
Proof.
  induction l as [|x l IH]; intros pre s0 HP Hstep.
  - exists s0. rewrite app_nil_r. split; [reflexivity | exact HP].
  - cbn [ofold]. destruct (Hstep pre x s0) as (s1 & Hf & HP1); [exists l; reflexivity | exact HP |].
    rewrite Hf. replace (pre ++ x :: l) with ((pre ++ [x]) ++ l) by (rewrite <- app_assoc; reflexivity).
    apply IH; [exact HP1|].
    intros done y s [post Hpost] HPd. apply Hstep; [|exact HPd].
    exists post. rewrite <- Hpost, <- app_assoc. reflexivity.
Qed.

(* ---- the numbers of BZ2_hbCreateDecodeTables in closed form ------------------------------ *)
Lemma count_len_acc lens d : forall a,
  fold_left (fun n x => if x =? d then n + 1 else n) lens a = a + count_len lens d.
Proof.
  unfold count_len. induction lens as [|x lens IH]; intros a; cbn [fold_left]; [lia|].
  rewrite IH. rewrite (IH (if x =? d then 0 + 1 else 0)). destruct (x =? d); lia.
Qed.

Lemma count_len_cons x lens d :
  count_len (x :: lens) d = (if x =? d then 1 else 0) + count_len lens d.
Proof. unfold count_len at 1. cbn [fold_left]. rewrite count_len_acc. destruct (x =? d); lia. Qed.

Lemma count_len_nil d : count_len [] d = 0.
Proof. reflexivity. Qed.

Lemma count_len_app a b d : count_len (a ++ b) d = count_len a d + count_len b d.
Proof.
  induction a as [|x a IH]; cbn [app]; [rewrite count_len_nil; lia|].
  rewrite !count_len_cons, IH. lia.
Qed.

Lemma count_len_zero lens d : (forall l, In l lens -> l <> d) -> count_len lens d = 0.
Proof.
  induction lens as [|x lens IH]; intros H; [reflexivity|]. rewrite count_len_cons, IH.
  - destruct (x =? d) eqn:E; [|reflexivity]. apply N.eqb_eq in E. exfalso. apply (H x); [left; reflexivity | exact E].
  - intros l Hl. apply H. right. exact Hl.
Qed.

Lemma count_len_le lens d : count_len lens d <= N.of_nat (length lens).
Proof.
  induction lens as [|x lens IH]; [cbn; lia|]. rewrite count_len_cons. cbn [length].
  destruct (x =? d); lia.
Qed.

(* limit+1 of length k, and the number of codes shorter than k *)
Fixpoint L1n (lens : list N) (k : nat) : N :=
  match k with
  | O => 0
  | S j => 2 * L1n lens j + count_len lens (N.of_nat (S j))
  end.

Fixpoint Cn (lens : list N) (k : nat) : N :=
  match k with
  | O => 0
  | S j => Cn lens j + count_len lens (N.of_nat j)
  end.

Definition L1 (lens : list N) (k : N) : N := L1n lens (N.to_nat k).
Definition Cm (lens : list N) (k : N) : N := Cn lens (N.to_nat k).

Lemma L1_0 lens : L1 lens 0 = 0.
Proof. reflexivity. Qed.

Lemma L1_succ lens k : L1 lens (k + 1) = 2 * L1 lens k + count_len lens (k + 1).
Proof.
  unfold L1. replace (N.to_nat (k + 1)) with (S (N.to_nat k)) by lia. cbn [L1n].
  f_equal. f_equal. lia.
Qed.

Lemma Cm_0 lens : Cm lens 0 = 0.
Proof. reflexivity. Qed.

Lemma Cm_succ lens k : Cm lens (k + 1) = Cm lens k + count_len lens k.
Proof.
  unfold Cm. replace (N.to_nat (k + 1)) with (S (N.to_nat k)) by lia. cbn [Cn].
  f_equal. f_equal. lia.
Qed.

Lemma L1_below lens mn k : (forall l, In l lens -> mn <= l) -> k < mn -> L1 lens k = 0.
Proof.
  intros Hmn. induction k as [|k IH] using N.peano_ind; intros Hk; [reflexivity|].
  rewrite <- N.add_1_r, L1_succ, IH by lia. rewrite count_len_zero; [lia|].
  intros l Hl. specialize (Hmn l Hl). lia.
Qed.

Lemma Cm_below lens mn k : (forall l, In l lens -> mn <= l) -> k <= mn -> Cm lens k = 0.
Proof.
  intros Hmn. induction k as [|k IH] using N.peano_ind; intros Hk; [reflexivity|].
  rewrite <- N.add_1_r, Cm_succ, IH by lia. rewrite count_len_zero; [lia|].
  intros l Hl. specialize (Hmn l Hl). lia.
Qed.

Lemma Cm_le lens k : Cm lens k <= N.of_nat (length lens).
Proof.
  (* the counts of distinct lengths add up to at most the number of lengths *)
  assert (H : forall j, Cn lens j = N.of_nat (length (filter (fun l => l <? N.of_nat j) lens))).
  { induction j as [|j IH]; cbn [Cn].
    - induction lens as [|x lens IHl]; [reflexivity|]. cbn [filter].
      change (N.of_nat 0) with 0. destruct (x <? 0) eqn:E; [lia | exact IHl].
    - rewrite IH. clear IH. induction lens as [|x lens IHl]; [reflexivity|].
      rewrite count_len_cons. cbn [filter].
      destruct (x <? N.of_nat j) eqn:E1, (x <? N.of_nat (S j)) eqn:E2, (x =? N.of_nat j) eqn:E3;
        cbn [length]; lia. }
  unfold Cm. rewrite H.
  assert (Hf : forall (f : N -> bool) (l : list N), (length (filter f l) <= length l)%nat).
  { intros f l. induction l as [|x l IHl]; cbn [filter length]; [lia|].
    destruct (f x); cbn [length]; lia. }
  pose proof (Hf (fun l => l <? N.of_nat (N.to_nat k)) lens). lia.
Qed.

Lemma L1_le lens k : L1 lens k <= Cm lens (k + 1) * 2 ^ k.
Proof.
  induction k as [|k IH] using N.peano_ind.
  - rewrite L1_0. lia.
  - rewrite <- N.add_1_r. rewrite L1_succ, (Cm_succ lens (k + 1)).
    rewrite N.pow_add_r. change (2 ^ 1) with 2.
    assert (H1 : 2 ^ k <> 0) by (apply N.pow_nonzero; lia).
    nia.
Qed.

(* ---- the rows of mk_table --------------------------------------------------------------------- *)
Lemma mk_rows_spec lens m : forall a,
  mk_rows (map N.of_nat (seq (S a) m)) lens (L1n lens a) (Cn lens (S a)) =
  map (fun k => (L1n lens k, 2 * L1n lens (k - 1), Cn lens k)) (seq (S a) m).
Proof.
  induction m as [|m IH]; intros a; [reflexivity|].
  cbn [seq map mk_rows]. cbv zeta. f_equal.
  - cbn [L1n Nat.sub]. rewrite Nat.sub_0_r. reflexivity.
  - specialize (IH (S a)). cbn [L1n Cn] in IH. cbn [Cn]. exact IH.
Qed.

Lemma with_dead_fields raw :
  map (fun r => (r_limit1 r, r_first r, r_cum r)) (fst (with_dead raw)) = raw.
Proof.
  induction raw as [|[[l1 first] cum] r IH]; cbn [with_dead]; [reflexivity|].
  destruct (with_dead r) as [rr tnext]. cbn [fst map r_limit1 r_first r_cum] in *.
  rewrite IH. reflexivity.
Qed.

(* the row of length k is at index k-1 *)
Definition rows_ok (lens : list N) (rows : list hrow) : Prop :=
  length rows = N.to_nat (max_of lens) /\
  forall j r, nth_error rows j = Some r ->
    r_limit1 r = L1n lens (S j) /\ r_first r = 2 * L1n lens j /\ r_cum r = Cn lens (S j).

Lemma mk_table_rows_ok lens :
  (forall l, In l lens -> 1 <= l) -> rows_ok lens (t_rows (mk_table lens)).
Proof.
  intros Hpos. unfold mk_table. cbn [t_rows].
  set (raw := mk_rows _ lens 0 0).
  assert (Hraw : raw = map (fun k => (L1n lens k, 2 * L1n lens (k - 1), Cn lens k))
                           (seq 1 (N.to_nat (max_of lens)))).
  { unfold raw. rewrite iota_eq, map_map.
    replace (map (fun x => N.of_nat x + 1) (seq 0 (N.to_nat (max_of lens))))
      with (map N.of_nat (seq 1 (N.to_nat (max_of lens)))).
    - rewrite <- (mk_rows_spec lens _ 0). cbn [L1n Cn]. rewrite count_len_zero; [reflexivity|].
      intros l Hl. specialize (Hpos l Hl). change (N.of_nat 0) with 0. lia.
    - rewrite <- seq_shift, map_map. apply map_ext. intros a. lia. }
  pose proof (with_dead_fields raw) as Hf. split.
  - rewrite <- (map_length (fun r => (r_limit1 r, r_first r, r_cum r))), Hf, Hraw.
    rewrite map_length, seq_length. reflexivity.
  - intros j r Hj.
    assert (Hj' : nth_error raw j = Some (r_limit1 r, r_first r, r_cum r)).
    { rewrite <- Hf. rewrite nth_error_map, Hj. reflexivity. }
    rewrite Hraw in Hj'. rewrite nth_error_map in Hj'.
    destruct (nth_error (seq 1 (N.to_nat (max_of lens))) j) as [k|] eqn:Ek; [|discriminate].
    assert (Hk : k = S j).
    { pose proof Ek as Ek'. apply nth_error_nth with (d := 0%nat) in Ek'.
      assert (Hlt : (j < length (seq 1 (N.to_nat (max_of lens))))%nat).
      { apply nth_error_Some. rewrite Ek. discriminate. }
      rewrite seq_length in Hlt. rewrite seq_nth in Ek' by exact Hlt. lia. }
    subst k. cbn [option_map] in Hj'. inversion Hj' as [[H1 H2 H3]].
    cbn [Nat.sub]. rewrite Nat.sub_0_r. repeat split; reflexivity.
Qed.

(* ---- the loops of createTables ------------------------------------------------------------------ *)
Definition len20 (lens : list N) : Prop := forall l, In l lens -> 1 <= l <= 20.

(* minLen, maxLen *)
Lemma scan_minmax_acc lens : forall a b,
  fold_left (fun (st : N * N) l =>
               let mx := if snd st <? l then l else snd st in
               let mn := if l <? fst st then l else fst st in (mn, mx)) lens (a, b)
  = (fold_left N.min lens a, fold_left N.max lens b).
Proof.
  induction lens as [|x lens IH]; intros a b; cbn [fold_left fst snd]; [reflexivity|].
  cbv zeta. rewrite IH. f_equal; f_equal.
  - destruct (x <? a) eqn:E; lia.
  - destruct (b <? x) eqn:E; lia.
Qed.

Lemma fold_min_spec lens : forall a,
  fold_left N.min lens a <= a /\ (forall x, In x lens -> fold_left N.min lens a <= x) /\
  (fold_left N.min lens a = a \/ In (fold_left N.min lens a) lens).
Proof.
  induction lens as [|x lens IH]; intros a; cbn [fold_left].
  - split; [lia|]. split; [intros x []|]. left; reflexivity.
  - destruct (IH (N.min a x)) as (H1 & H2 & H3). split; [lia|]. split.
    + intros y [<-|Hy]; [lia | apply H2, Hy].
    + destruct H3 as [H3|H3]; [|right; right; exact H3].
      destruct (N.min_spec a x) as [[_ E]|[_ E]]; rewrite E in *.
      * left; exact H3.
      * right; left; symmetry; exact H3.
Qed.

Lemma fold_max_spec lens : forall a,
  a <= fold_left N.max lens a /\ (forall x, In x lens -> x <= fold_left N.max lens a) /\
  (fold_left N.max lens a = a \/ In (fold_left N.max lens a) lens).
Proof.
  induction lens as [|x lens IH]; intros a; cbn [fold_left].
  - split; [lia|]. split; [intros x []|]. left; reflexivity.
  - destruct (IH (N.max a x)) as (H1 & H2 & H3). split; [lia|]. split.
    + intros y [<-|Hy]; [lia | apply H2, Hy].
    + destruct H3 as [H3|H3]; [|right; right; exact H3].
      destruct (N.max_spec a x) as [[_ E]|[_ E]]; rewrite E in *.
      * right; left; symmetry; exact H3.
      * left; exact H3.
Qed.

Lemma scan_minmax_ok lens : lens <> [] -> len20 lens ->
  exists mn, scan_minmax lens = (mn, max_of lens) /\
    1 <= mn <= max_of lens /\ max_of lens <= 20 /\ In mn lens /\
    forall l, In l lens -> mn <= l <= max_of lens.
Proof.
  intros Hne H20. unfold scan_minmax. rewrite scan_minmax_acc.
  exists (fold_left N.min lens maxPrefixBits). fold (max_of lens).
  split; [reflexivity|].
  destruct (fold_min_spec lens maxPrefixBits) as (A1 & A2 & A3).
  destruct (fold_max_spec lens 0) as (B1 & B2 & B3). fold (max_of lens) in *.
  destruct lens as [|x0 lens]; [contradiction|].
  assert (Hx0 : In x0 (x0 :: lens)) by (left; reflexivity).
  assert (Hin : In (fold_left N.min (x0 :: lens) maxPrefixBits) (x0 :: lens)).
  { destruct A3 as [A3|A3]; [|exact A3].
    pose proof (A2 x0 Hx0). pose proof (H20 x0 Hx0). unfold maxPrefixBits in *.
    assert (x0 = 20) by lia. subst x0. rewrite A3. exact Hx0. }
  assert (Hmx : In (max_of (x0 :: lens)) (x0 :: lens)).
  { destruct B3 as [B3|B3]; [|exact B3]. pose proof (B2 x0 Hx0). pose proof (H20 x0 Hx0). lia. }
  pose proof (H20 _ Hin). pose proof (H20 _ Hmx). pose proof (A2 _ Hmx).
  repeat split; try lia; try assumption.
  - apply A2. assumption.
  - apply B2. assumption.
Qed.

(* bases[c.Len+1]++ *)
Definition cnt1 (lens : list N) (k : N) : N := if k =? 0 then 0 else count_len lens (k - 1).

Lemma count_bases_ok lens : (forall l, In l lens -> l <= 20) ->
  exists b, count_bases lens (repeat 0%Z 22) = Some b /\ length b = 22%nat /\
    forall k, k < 22 -> aget b k = Some (Z.of_N (cnt1 lens k)).
Proof.
  intros H20. unfold count_bases.
  destruct (ofold_inv (fun b l => match aget b (l + 1) with
                                  | Some x => aset b (l + 1) (x + 1)%Z | None => None end)
              (fun done b => length b = 22%nat /\
                             forall k, k < 22 -> aget b k = Some (Z.of_N (cnt1 done k)))
              lens [] (repeat 0%Z 22)) as (b & Hb & HP).
  - split; [apply repeat_length|]. intros k Hk. rewrite aget_repeat by lia.
    unfold cnt1. rewrite count_len_nil. destruct (k =? 0); reflexivity.
  - intros done x b [post Hpost] [Hlen Hget].
    assert (Hx : x <= 20).
    { apply H20. cbn [app] in Hpost. rewrite Hpost. apply in_or_app. right. left. reflexivity. }
    rewrite (Hget (x + 1)) by lia.
    destruct (aset_some b (x + 1) (Z.of_N (cnt1 done (x + 1)) + 1)%Z) as (b' & Hs & Hl & Hg1 & Hg2);
      [lia|].
    exists b'. split; [exact Hs|]. split; [lia|].
    intros k Hk. unfold cnt1. destruct (N.eq_dec k (x + 1)) as [->|Hne].
    + rewrite Hg1. f_equal. unfold cnt1. replace (x + 1 =? 0) with false by lia.
      rewrite count_len_app, count_len_cons, count_len_nil.
      replace (x + 1 - 1) with x by lia. rewrite N.eqb_refl. lia.
    + rewrite (Hg2 k Hne), (Hget k Hk). f_equal. f_equal. unfold cnt1.
      destruct (k =? 0) eqn:E; [reflexivity|].
      rewrite count_len_app, count_len_cons, count_len_nil.
      replace (x =? k - 1) with false by lia. lia.
  - exists b. cbn [app] in HP. split; [exact Hb | exact HP].
Qed.

(* bases[i] += bases[i-1] *)
Lemma sum_bases_ok lens b0 : length b0 = 22%nat ->
  (forall k, k < 22 -> aget b0 k = Some (Z.of_N (cnt1 lens k))) ->
  exists b, sum_bases b0 = Some b /\ length b = 22%nat /\
    forall k, k < 22 -> aget b k = Some (Z.of_N (Cm lens k)).
Proof.
  intros Hlen Hget. unfold sum_bases. rewrite Hlen.
  change (N.of_nat 22 - 1) with 21.
  destruct (ofold_range_inv
              (fun b i => match aget b i, aget b (i - 1) with
                          | Some x, Some y => aset b i (x + y)%Z | _, _ => None end)
              (fun i b => length b = 22%nat /\
                          (forall k, k < i -> aget b k = Some (Z.of_N (Cm lens k))) /\
                          (forall k, i <= k < 22 -> aget b k = Some (Z.of_N (cnt1 lens k))))
              21 _ 1 b0 eq_refl ltac:(lia)) as (b & Hb & HP).
  - split; [exact Hlen|]. split.
    + intros k Hk. assert (k = 0) by lia. subst k. rewrite Hget by lia. reflexivity.
    + intros k Hk. apply Hget. lia.
  - intros i b Hi (Hl & Hlo & Hhi).
    rewrite (Hhi i) by lia. rewrite (Hlo (i - 1)) by lia.
    destruct (aset_some b i (Z.of_N (cnt1 lens i) + Z.of_N (Cm lens (i - 1)))%Z)
      as (b' & Hs & Hl' & Hg1 & Hg2); [lia|].
    exists b'. split; [exact Hs|]. split; [lia|]. split.
    + intros k Hk. destruct (N.eq_dec k i) as [->|Hne].
      * rewrite Hg1. f_equal. pose proof (Cm_succ lens (i - 1)) as HC.
        replace (i - 1 + 1) with i in HC by lia. rewrite HC.
        unfold cnt1. replace (i =? 0) with false by lia. lia.
      * rewrite (Hg2 k Hne). apply Hlo. lia.
    + intros k Hk. rewrite (Hg2 k) by lia. apply Hhi. lia.
  - exists b. split; [exact Hb|]. destruct HP as (Hl & Hlo & _). split; [exact Hl|].
    intros k Hk. apply Hlo. lia.
Qed.

(* vec += bases[i+1]-bases[i]; limits[i] = vec-1; vec <<= 1 *)
Lemma fill_limits_ok lens b1 mn mx : length b1 = 22%nat ->
  (forall k, k < 22 -> aget b1 k = Some (Z.of_N (Cm lens k))) ->
  (forall l, In l lens -> mn <= l) -> 1 <= mn -> mn <= mx -> mx <= 20 ->
  exists lim, fill_limits b1 mn mx (repeat 0%Z 22) = Some lim /\ length lim = 22%nat /\
    forall k, mn <= k <= mx -> aget lim k = Some (Z.of_N (L1 lens k) - 1)%Z.
Proof.
  intros Hlen Hget Hmn H1 Hle H20. unfold fill_limits.
  match goal with |- context[ofold ?f _ _] =>
    destruct (ofold_range_inv f
              (fun i st => length (snd st) = 22%nat /\
                           fst st = (2 * Z.of_N (L1 lens (i - 1)))%Z /\
                           forall k, mn <= k < i -> aget (snd st) k = Some (Z.of_N (L1 lens k) - 1)%Z)
              mx _ mn (0%Z, repeat 0%Z 22) eq_refl ltac:(lia)) as (st & Hst & HP) end.
  - cbn [fst snd]. split; [apply repeat_length|]. split.
    + rewrite (L1_below lens mn) by (assumption || lia). reflexivity.
    + intros k Hk. lia.
  - intros i [vec lim] Hi (Hl & Hv & Hk). cbn [fst snd] in *.
    rewrite (Hget (i + 1)), (Hget i) by lia.
    assert (Hvec : (vec + (Z.of_N (Cm lens (i + 1)) - Z.of_N (Cm lens i)))%Z = Z.of_N (L1 lens i)).
    { pose proof (L1_succ lens (i - 1)) as HL. replace (i - 1 + 1) with i in HL by lia.
      rewrite Hv, Cm_succ, HL. lia. }
    rewrite Hvec.
    destruct (aset_some lim i (Z.of_N (L1 lens i) - 1)%Z) as (lim' & Hs & Hl' & Hg1 & Hg2); [lia|].
    rewrite Hs. eexists. split; [reflexivity|]. cbn [fst snd]. split; [lia|]. split.
    + replace (i + 1 - 1) with i by lia. lia.
    + intros k Hk'. destruct (N.eq_dec k i) as [->|Hne]; [exact Hg1|].
      rewrite (Hg2 k Hne). apply Hk. lia.
  - rewrite Hst. exists (snd st). split; [reflexivity|]. destruct HP as (Hl & _ & Hk).
    split; [exact Hl|]. intros k Hk'. apply Hk. lia.
Qed.

(* bases[i] = ((limits[i-1]+1)<<1) - bases[i] *)
Lemma fix_bases_ok lens lim b1 mn mx : length b1 = 22%nat ->
  (forall k, k < 22 -> aget b1 k = Some (Z.of_N (Cm lens k))) ->
  (forall k, mn <= k <= mx -> aget lim k = Some (Z.of_N (L1 lens k) - 1)%Z) ->
  (forall l, In l lens -> mn <= l) -> 1 <= mn -> mn <= mx -> mx <= 20 ->
  exists b, fix_bases lim mn mx b1 = Some b /\ length b = 22%nat /\
    forall k, mn <= k <= mx ->
      aget b k = Some (2 * Z.of_N (L1 lens (k - 1)) - Z.of_N (Cm lens k))%Z.
Proof.
  intros Hlen Hget Hlim Hmn H1 Hle H20. unfold fix_bases.
  match goal with |- context[ofold ?f _ _] =>
    destruct (ofold_range_inv f
              (fun i b => length b = 22%nat /\
                 (forall k, mn + 1 <= k < i ->
                    aget b k = Some (2 * Z.of_N (L1 lens (k - 1)) - Z.of_N (Cm lens k))%Z) /\
                 (forall k, k < 22 -> k <= mn \/ i <= k -> aget b k = Some (Z.of_N (Cm lens k))))
              mx _ (mn + 1) b1 eq_refl ltac:(lia)) as (b & Hb & HP) end.
  - split; [exact Hlen|]. split; [intros k Hk; lia|]. intros k Hk _. apply Hget, Hk.
  - intros i b Hi (Hl & Hdone & Hrest).
    rewrite (Hlim (i - 1)) by lia. rewrite (Hrest i) by lia.
    destruct (aset_some b i ((Z.of_N (L1 lens (i - 1)) - 1 + 1) * 2 - Z.of_N (Cm lens i))%Z)
      as (b' & Hs & Hl' & Hg1 & Hg2); [lia|].
    exists b'. split; [exact Hs|]. split; [lia|]. split.
    + intros k Hk. destruct (N.eq_dec k i) as [->|Hne].
      * rewrite Hg1. f_equal. lia.
      * rewrite (Hg2 k Hne). apply Hdone. lia.
    + intros k Hk Hor. rewrite (Hg2 k) by lia. apply Hrest; [exact Hk | lia].
  - exists b. split; [exact Hb|]. destruct HP as (Hl & Hdone & Hrest). split; [exact Hl|].
    intros k Hk. destruct (N.eq_dec k mn) as [->|Hne].
    + rewrite (Hrest mn) by lia. rewrite (Cm_below lens mn mn) by (assumption || lia).
      rewrite (L1_below lens mn (mn - 1)) by (assumption || lia). reflexivity.
    + apply Hdone. lia.
Qed.

(* ---- perms: the symbols in (length, symbol) order ---------------------------------------------------- *)
Definition sel (indexed : list (N * N)) (i : N) : list N :=
  map fst (filter (fun jl => snd jl =? i) indexed).

Lemma sel_cons x xs i : sel (x :: xs) i = (if snd x =? i then [fst x] else []) ++ sel xs i.
Proof. unfold sel. cbn [filter]. destruct (snd x =? i); reflexivity. Qed.

Lemma flat_map_sel_length x xs ls :
  length (flat_map (sel (x :: xs)) ls) =
  (length (filter (fun l => (snd x =? l)%N) ls) + length (flat_map (sel xs) ls))%nat.
Proof.
  induction ls as [|l ls IH]; [reflexivity|]. cbn [flat_map filter].
  rewrite !app_length, IH, sel_cons, app_length.
  destruct (snd x =? l); cbn [length]; lia.
Qed.

Lemma filter_eqb_NoDup (v : N) ls : NoDup ls -> (length (filter (fun l => (v =? l)%N) ls) <= 1)%nat.
Proof.
  induction 1 as [|l ls Hnin Hnd IH]; cbn [filter length]; [lia|].
  destruct (v =? l) eqn:E; [|exact IH]. apply N.eqb_eq in E. subst l.
  assert (Hz : filter (fun l => v =? l) ls = []).
  { clear -Hnin. induction ls as [|y ls IH]; [reflexivity|]. cbn [filter].
    destruct (v =? y) eqn:E.
    - apply N.eqb_eq in E. subst y. exfalso. apply Hnin. left. reflexivity.
    - apply IH. intros H. apply Hnin. right. exact H. }
  rewrite Hz. cbn [length]. lia.
Qed.

Lemma flat_map_sel_le indexed ls : NoDup ls ->
  (length (flat_map (sel indexed) ls) <= length indexed)%nat.
Proof.
  intros Hnd. induction indexed as [|x xs IH].
  - assert (H : flat_map (sel []) ls = []).
    { clear Hnd. induction ls as [|l ls IHl]; [reflexivity|]. cbn [flat_map]. rewrite IHl. reflexivity. }
    rewrite H. cbn [length]. lia.
  - rewrite flat_map_sel_length. pose proof (filter_eqb_NoDup (snd x) ls Hnd). cbn [length]. lia.
Qed.

Lemma aset_push (perms : list Z) (done : list Z) v :
  (length done < length perms)%nat -> firstn (length done) perms = done ->
  exists perms', aset perms (N.of_nat (length done)) v = Some perms' /\
    length perms' = length perms /\ firstn (S (length done)) perms' = done ++ [v].
Proof.
  intros Hlt Hf. rewrite aset_spec. rewrite Nat2N.id.
  apply Nat.ltb_lt in Hlt. rewrite Hlt. apply Nat.ltb_lt in Hlt.
  eexists. split; [reflexivity|]. split.
  - rewrite app_length, firstn_length. cbn [length]. rewrite skipn_length. lia.
  - rewrite Hf. rewrite firstn_app. rewrite (firstn_all2 (n := S (length done)) done) by lia.
    replace (S (length done) - length done)%nat with 1%nat by lia. reflexivity.
Qed.

Lemma perms_inner_ok i indexed : forall perms done,
  length perms = 258%nat -> firstn (length done) perms = map Z.of_N done ->
  (length done + length (sel indexed i) <= 258)%nat ->
  exists perms',
    ofold (perms_inner i) indexed (perms, N.of_nat (length done)) =
      Some (perms', N.of_nat (length (done ++ sel indexed i))) /\
    length perms' = 258%nat /\
    firstn (length (done ++ sel indexed i)) perms' = map Z.of_N (done ++ sel indexed i).
Proof.
  induction indexed as [|[j l] xs IH]; intros perms done Hlen Hf Hle.
  - cbn [ofold]. unfold sel. cbn [filter map]. rewrite app_nil_r. exists perms. auto.
  - cbn [ofold]. unfold perms_inner at 1. cbn [fst snd]. rewrite sel_cons in *. cbn [fst snd] in *.
    destruct (l =? i).
    + cbn [app length] in Hle.
      destruct (aset_push perms (map Z.of_N done) (Z.of_N j)) as (p' & Hs & Hl & Hf').
      * rewrite map_length. lia.
      * rewrite map_length. exact Hf.
      * rewrite map_length in Hs, Hf'. rewrite Hs.
        destruct (IH p' (done ++ [j])) as (p'' & Ho & Hl'' & Hf'').
        -- lia.
        -- rewrite app_length. cbn [length]. replace (length done + 1)%nat with (S (length done)) by lia.
           rewrite Hf', map_app. reflexivity.
        -- rewrite app_length. cbn [length]. lia.
        -- exists p''. rewrite <- app_assoc in Ho, Hf''. cbn [app] in Ho, Hf'' |- *.
           replace (N.of_nat (length done) + 1) with (N.of_nat (length (done ++ [j])))
             by (rewrite app_length; cbn [length]; lia).
           auto.
    + cbn [app] in *. apply IH; assumption.
Qed.

Lemma fill_perms_ok lens mn mx : (length lens <= 258)%nat ->
  exists perms, fill_perms lens mn mx (repeat 0%Z 258) = Some perms /\ length perms = 258%nat /\
    let P := flat_map (sel (combine (iota (len_n lens)) lens)) (range_n mn mx) in
    firstn (length P) perms = map Z.of_N P.
Proof.
  intros Hn. unfold fill_perms. set (indexed := combine (iota (len_n lens)) lens).
  assert (Hil : (length indexed <= 258)%nat).
  { unfold indexed. rewrite combine_length. lia. }
  assert (Hnd : NoDup (range_n mn mx)).
  { destruct (N.le_gt_cases mn mx) as [H|H].
    - rewrite range_n_eq by exact H. apply FinFun.Injective_map_NoDup; [|apply seq_NoDup].
      intros a b Hab. lia.
    - rewrite range_n_nil by exact H. constructor. }
  destruct (ofold_inv (fun st i => ofold (perms_inner i) indexed st)
              (fun done st => length (fst st) = 258%nat /\
                 snd st = N.of_nat (length (flat_map (sel indexed) done)) /\
                 firstn (length (flat_map (sel indexed) done)) (fst st) =
                   map Z.of_N (flat_map (sel indexed) done))
              (range_n mn mx) [] (repeat 0%Z 258, 0)) as (st & Hst & HP).
  - cbn [fst snd flat_map length firstn map]. split; [apply repeat_length|]. auto.
  - intros done x [perms pp] [post Hpost] (Hl & Hpp & Hf). cbn [fst snd app] in *. subst pp.
    assert (Hnd' : NoDup (done ++ [x])).
    { rewrite Hpost in Hnd. clear -Hnd. revert Hnd. induction done as [|d done IH]; intros Hnd.
      - constructor; [intros []|constructor].
      - cbn [app] in *. inversion Hnd as [|? ? Hnin Hnd']; subst. constructor.
        + intros Hin. apply Hnin. apply in_app_or in Hin. apply in_or_app.
          destruct Hin as [Hin|[<-|[]]]; [left; exact Hin | right; left; reflexivity].
        + apply IH, Hnd'. }
    pose proof (flat_map_sel_le indexed (done ++ [x]) Hnd') as Hle.
    rewrite flat_map_app in Hle. cbn [flat_map] in Hle. rewrite app_nil_r, app_length in Hle.
    destruct (perms_inner_ok x indexed perms (flat_map (sel indexed) done) Hl Hf ltac:(lia))
      as (perms' & Ho & Hl' & Hf').
    exists (perms', N.of_nat (length (flat_map (sel indexed) done ++ sel indexed x))).
    split; [exact Ho|]. cbn [fst snd]. rewrite flat_map_app. cbn [flat_map]. rewrite app_nil_r.
    auto.
  - cbn [app] in HP. rewrite Hst. exists (fst st). split; [reflexivity|].
    destruct HP as (Hl & _ & Hf). split; [exact Hl | exact Hf].
Qed.

(* the Go loop starts at minLen, libbzip2's perm_list at length 1: the same list *)
Lemma flat_map_sel_from indexed mn mx : (forall j l, In (j, l) indexed -> mn <= l) ->
  forall n k, n = N.to_nat (mn - k) -> k <= mn ->
  flat_map (sel indexed) (range_n k mx) = flat_map (sel indexed) (range_n mn mx).
Proof.
  intros Hmn. induction n as [|n IH]; intros k Hn Hk.
  - replace k with mn by lia. reflexivity.
  - destruct (N.le_gt_cases k mx) as [Hle|Hgt].
    + rewrite range_n_cons by exact Hle. cbn [flat_map].
      assert (Hs : sel indexed k = []).
      { unfold sel. clear -Hmn Hn. induction indexed as [|[j l] xs IHx]; [reflexivity|].
        cbn [filter snd]. destruct (l =? k) eqn:E.
        - apply N.eqb_eq in E. subst l. specialize (Hmn j k (or_introl eq_refl)). lia.
        - apply IHx. intros j' l' H. apply (Hmn j'). right. exact H. }
      rewrite Hs. cbn [app]. apply IH; lia.
    + rewrite !range_n_nil by lia. reflexivity.
Qed.

Lemma perm_list_eq lens mn : (forall l, In l lens -> mn <= l) -> 1 <= mn ->
  perm_list lens = flat_map (sel (combine (iota (len_n lens)) lens)) (range_n mn (max_of lens)).
Proof.
  intros Hmn H1. unfold perm_list. cbv zeta.
  set (indexed := combine (iota (len_n lens)) lens).
  assert (E : map (fun i => i + 1) (iota (max_of lens)) = range_n 1 (max_of lens)).
  { destruct (N.eq_dec (max_of lens) 0) as [Hz|Hnz].
    - rewrite Hz. reflexivity.
    - rewrite range_n_eq by lia. rewrite iota_eq, map_map.
      replace (N.to_nat (max_of lens - 1 + 1)) with (N.to_nat (max_of lens)) by lia.
      apply map_ext. intros a. lia. }
  rewrite E. change (flat_map (sel indexed) (range_n 1 (max_of lens)) =
                     flat_map (sel indexed) (range_n mn (max_of lens))).
  apply (flat_map_sel_from indexed mn (max_of lens)) with (n := N.to_nat (mn - 1)); [|reflexivity|exact H1].
  intros j l Hin. apply Hmn. unfold indexed in Hin. apply in_combine_r in Hin. exact Hin.
Qed.

(* ---- perm_list: length, position of the symbols of one length, distinctness ------------------------- *)
Lemma sel_length (lens : list N) l : forall a : list N, length a = length lens ->
  length (sel (combine a lens) l) = N.to_nat (count_len lens l).
Proof.
  unfold sel. induction lens as [|x lens IH]; intros a Ha.
  - destruct a; reflexivity.
  - destruct a as [|y a]; [discriminate|]. cbn [combine filter snd]. rewrite count_len_cons.
    cbn [length] in Ha. destruct (x =? l); cbn [map length]; rewrite IH by lia; lia.
Qed.

Lemma Cm_mono lens a b : a <= b -> Cm lens a <= Cm lens b.
Proof.
  intros H. replace b with (a + (b - a)) by lia. generalize (b - a). clear H b.
  intros d. induction d as [|d IH] using N.peano_ind; [rewrite N.add_0_r; lia|].
  replace (a + N.succ d) with (a + d + 1) by lia. rewrite Cm_succ. lia.
Qed.

Definition indexed_of (lens : list N) : list (N * N) := combine (iota (len_n lens)) lens.

Lemma indexed_len (lens : list N) : length (iota (len_n lens)) = length lens.
Proof. rewrite iota_length, len_n_length. lia. Qed.

Lemma flat_sel_nth lens k mx t : k <= mx -> t < count_len lens k ->
  forall n lo, n = N.to_nat (k - lo) -> lo <= k ->
  nth_error (flat_map (sel (indexed_of lens)) (range_n lo mx)) (N.to_nat (Cm lens k - Cm lens lo + t))
  = nth_error (sel (indexed_of lens) k) (N.to_nat t).
Proof.
  intros Hk Ht. induction n as [|n IH]; intros lo Hn Hlo.
  - assert (lo = k) by lia. subst lo. rewrite range_n_cons by exact Hk. cbn [flat_map].
    rewrite N.sub_diag, N.add_0_l. apply nth_error_app1.
    unfold indexed_of. rewrite sel_length by apply indexed_len. lia.
  - rewrite range_n_cons by lia. cbn [flat_map].
    pose proof (Cm_succ lens lo) as Hs. pose proof (Cm_mono lens (lo + 1) k ltac:(lia)) as Hm.
    assert (Hlen : length (sel (indexed_of lens) lo) = N.to_nat (count_len lens lo)).
    { unfold indexed_of. apply sel_length, indexed_len. }
    rewrite nth_error_app2; rewrite Hlen; [|lia].
    replace (N.to_nat (Cm lens k - Cm lens lo + t) - N.to_nat (count_len lens lo))%nat
      with (N.to_nat (Cm lens k - Cm lens (lo + 1) + t)) by lia.
    apply IH; lia.
Qed.

Lemma perm_list_nth lens k t : (forall l, In l lens -> 1 <= l) ->
  1 <= k <= max_of lens -> t < count_len lens k ->
  nth_error (perm_list lens) (N.to_nat (Cm lens k + t)) = nth_error (sel (indexed_of lens) k) (N.to_nat t).
Proof.
  intros Hpos Hk Ht. rewrite (perm_list_eq lens 1 Hpos ltac:(lia)).
  rewrite <- (flat_sel_nth lens k (max_of lens) t ltac:(lia) Ht _ 1 eq_refl ltac:(lia)).
  rewrite (Cm_below lens 1 1) by (assumption || lia). rewrite N.sub_0_r. reflexivity.
Qed.

Lemma sel_In indexed l s : In s (sel indexed l) <-> In (s, l) indexed.
Proof.
  unfold sel. rewrite in_map_iff. split.
  - intros ([j l'] & <- & Hin). apply filter_In in Hin. destruct Hin as [Hin E]. cbn [fst snd] in *.
    apply N.eqb_eq in E. subst l'. exact Hin.
  - intros H. exists (s, l). split; [reflexivity|]. apply filter_In. split; [exact H|]. cbn [snd].
    apply N.eqb_refl.
Qed.

Lemma perm_list_In lens s : In s (perm_list lens) -> s < N.of_nat (length lens).
Proof.
  unfold perm_list. cbv zeta. intros H. apply in_flat_map in H. destruct H as (l & _ & H).
  apply in_map_iff in H. destruct H as ([j l'] & <- & Hin). apply filter_In in Hin.
  destruct Hin as [Hin _]. apply in_combine_l in Hin. apply iota_In in Hin.
  rewrite len_n_length in Hin. exact Hin.
Qed.

Lemma NoDup_app_intro {A} (a b : list A) :
  NoDup a -> NoDup b -> (forall x, In x a -> In x b -> False) -> NoDup (a ++ b).
Proof.
  intros Ha Hb Hd. induction Ha as [|x a Hnin Ha IH]; [exact Hb|].
  cbn [app]. constructor.
  - intros Hin. apply in_app_or in Hin. destruct Hin as [Hin|Hin]; [exact (Hnin Hin)|].
    apply (Hd x); [left; reflexivity | exact Hin].
  - apply IH. intros y Hy. apply Hd. right. exact Hy.
Qed.

Lemma combine_fst_unique {A B} (a : list A) (b : list B) x y y' :
  NoDup a -> In (x, y) (combine a b) -> In (x, y') (combine a b) -> y = y'.
Proof.
  intros Hnd. revert b. induction Hnd as [|x0 a Hnin Hnd IH]; intros b H1 H2; [contradiction|].
  destruct b as [|y0 b]; [contradiction|]. cbn [combine] in H1, H2.
  destruct H1 as [H1|H1], H2 as [H2|H2].
  - congruence.
  - inversion H1; subst. apply in_combine_l in H2. contradiction.
  - inversion H2; subst. apply in_combine_l in H1. contradiction.
  - apply (IH b H1 H2).
Qed.

Lemma sel_NoDup (a : list N) (b : list N) l : NoDup a -> NoDup (sel (combine a b) l).
Proof.
  intros Hnd. revert b. induction Hnd as [|x0 a Hnin Hnd IH]; intros b; [constructor|].
  destruct b as [|y0 b]; [constructor|]. cbn [combine]. rewrite sel_cons. cbn [fst snd].
  destruct (y0 =? l); cbn [app]; [|apply IH]. constructor; [|apply IH].
  intros Hin. apply sel_In in Hin. apply in_combine_l in Hin. contradiction.
Qed.

Lemma perm_list_NoDup lens : NoDup (perm_list lens).
Proof.
  unfold perm_list. cbv zeta. fold (indexed_of lens).
  change (NoDup (flat_map (sel (indexed_of lens)) (map (fun i => i + 1) (iota (max_of lens))))).
  assert (Hnd : NoDup (map (fun i => i + 1) (iota (max_of lens)))).
  { apply FinFun.Injective_map_NoDup; [|apply iota_NoDup]. intros a b H. lia. }
  induction Hnd as [|l ls Hnin Hnd IH]; [constructor|]. cbn [flat_map].
  apply NoDup_app_intro; [apply sel_NoDup, iota_NoDup | exact IH |].
  intros s H1 H2. apply sel_In in H1. apply in_flat_map in H2. destruct H2 as (l' & Hl' & H2).
  apply sel_In in H2.
  assert (l = l') by (apply (combine_fst_unique _ _ s l l' (iota_NoDup _) H1 H2)).
  subst l'. contradiction.
Qed.

(* ---- createTables = the rows of mk_table ----------------------------------------------------------------- *)
Record tab_ok (lens : list N) (T : dtab) : Prop := {
  to_min_pos : 1 <= d_min T;
  to_min_max : d_min T <= d_max T;
  to_max : d_max T = max_of lens;
  to_max20 : d_max T <= 20;
  to_min_lb : forall l, In l lens -> d_min T <= l;
  to_lim : forall k, d_min T <= k <= d_max T ->
           aget (d_limits T) k = Some (Z.of_N (L1 lens k) - 1)%Z;
  to_base : forall k, d_min T <= k <= d_max T ->
            aget (d_bases T) k = Some (2 * Z.of_N (L1 lens (k - 1)) - Z.of_N (Cm lens k))%Z;
  to_perm_len : length (d_perms T) = 258%nat;
  to_perm : firstn (length (perm_list lens)) (d_perms T) = map Z.of_N (perm_list lens)
}.

Theorem create_tables_ok lens :
  lens <> [] -> (length lens <= 258)%nat -> len20 lens ->
  exists T, create_tables lens = Some T /\ tab_ok lens T.
Proof.
  intros Hne Hn H20. unfold create_tables.
  destruct (scan_minmax_ok lens Hne H20) as (mn & Hscan & Hmn & Hmx & Hin & Hall).
  rewrite Hscan. replace (21 <=? max_of lens) with false by lia.
  assert (Hlb : forall l, In l lens -> mn <= l) by (intros l Hl; apply Hall, Hl).
  destruct (fill_perms_ok lens mn (max_of lens) Hn) as (perms & Hp & Hpl & Hpf). rewrite Hp.
  destruct (count_bases_ok lens) as (b0 & Hb0 & Hb0l & Hb0g).
  { intros l Hl. apply H20 in Hl. lia. }
  rewrite Hb0.
  destruct (sum_bases_ok lens b0 Hb0l Hb0g) as (b1 & Hb1 & Hb1l & Hb1g). rewrite Hb1.
  destruct (fill_limits_ok lens b1 mn (max_of lens) Hb1l Hb1g Hlb) as (lim & Hlim & Hliml & Hlimg);
    try lia.
  rewrite Hlim.
  destruct (fix_bases_ok lens lim b1 mn (max_of lens) Hb1l Hb1g Hlimg Hlb) as (b & Hb & Hbl & Hbg);
    try lia.
  rewrite Hb. eexists. split; [reflexivity|].
  constructor; cbn [d_min d_max d_limits d_bases d_perms].
  - lia.
  - lia.
  - reflexivity.
  - lia.
  - exact Hlb.
  - exact Hlimg.
  - exact Hbg.
  - exact Hpl.
  - cbv zeta in Hpf. rewrite (perm_list_eq lens mn Hlb) by lia. exact Hpf.
Qed.
