(* Layer (a), part 2: the pieces of Read's loop around a block that must be EXACT (no
   "unexpected EOF near the end" freedom): Flush, the end-of-input probe PullBits(1), the stream
   header in the Go order of checks, and the stream footer. *)
From V Require Import Base.Prelude Base.Prog Base.ProgThms Base.FuelThms Bzip2.Common Bzip2.SpecR
  Bzip2.BitIO Bzip2.Safe Prefix.Code Prefix.ReaderImpl Prefix.ReaderSpec Prefix.ReaderThms
  Prefix.DecTable Prefix.DecReadThms Bzip2.Impl Bzip2.ImplBits Bzip2.ImplSim Bzip2.ImplSpecRun.

Local Open Scope N_scope.

Section Hdr.
Variable data : list byte.
Hypothesis Hd : forall b, In b data -> b < 256.

Notation bits := (stream_bits true data).
Notation PI := (PI true data).
Notation total := (8 * length data)%nat.
Notation sat := (sat data).
Notation Rep := (Rep data).

(* ---- Flush from a PI state ------------------------------------------------------------------ *)
Lemma flush_pi R p : PI R p ->
  exists p', flush p = (false, p') /\ PI R p' /\
    p_offset p' = Z.of_nat (s_pos (p_src p')) /\
    (R = total -> p_offset p' = Z.of_nat (length data)).
Proof.
  intros HP. destruct (p_buffered p) eqn:Hb.
  - assert (HI : Inv true data R p) by (apply PI_Inv; [exact HP | rewrite Hb; discriminate]).
    destruct (flush_ok true data R p HI) as (p' & E & HI' & _ & Hoff & Hpos & _).
    exists p'. split; [exact E|]. split; [apply Inv_PI; exact HI'|].
    split; [rewrite Hoff, Hpos; reflexivity|]. intros ->. rewrite Hoff. f_equal.
    replace (8 * length data + 7)%nat with (7 + length data * 8)%nat by lia.
    rewrite Nat.div_add by lia. reflexivity.
  - exists p. unfold flush. rewrite Hb. cbn [negb]. split; [reflexivity|]. split; [exact HP|].
    destruct HP as ([C1 C2 C3 C4 [W1 W2 W3 W4 W5] C6] & _ & _).
    split; [exact C3|]. intros ->. unfold effd in C4. rewrite Hb in C4. lia.
Qed.

(* ---- "are we already at EOF": PullBits(1) ------------------------------------------------------ *)
Lemma pull_first_more R st : Rep R st -> (R < total)%nat ->
  exists p', m_pull_first st = (ROk tt, set_rd st p') /\ PI R p'.
Proof.
  intros HP Hlt. unfold m_pull_first.
  pose proof (pull_any data Hd R (z_rd st) 1 HP ltac:(lia)) as H.
  destruct (pull_bits (z_rd st) 1) as [[|] p1]; [lia|].
  destruct H as (H1 & _ & _). exists p1. split; [reflexivity | exact H1].
Qed.

Lemma pull_first_end R st : Rep R st -> R = total ->
  exists p', m_pull_first st =
             (RThrow (if 0 <? z_hdrftr st then EEOF else EUEOF), set_rd st p').
Proof.
  intros HP ->. unfold m_pull_first.
  pose proof (pull_any data Hd _ (z_rd st) 1 HP ltac:(lia)) as H.
  destruct (pull_bits (z_rd st) 1) as [[|] p1]; [exists p1; reflexivity|].
  destruct H as (H1 & H2 & _). destruct (PI_numBits true data Hd _ p1 H1) as (_ & Hin & _). lia.
Qed.

(* ---- the stream header ------------------------------------------------------------------------- *)
Definition go_header : M unit :=
  mbind (m_read_be64 16) (fun magic =>
  if negb (magic =? hdrMagic) then corrupted else
  mbind (m_read_be64 8) (fun ver =>
  if negb (ver =? 104) then
    if ver =? 48 then throw EDeprecated else corrupted
  else
  mbind (m_read_be64 8) (fun lvl =>
  if (lvl <? 49) || (57 <? lvl) then corrupted else
  mupd (fun st => set_hdrftr (set_level st (lvl - 48)) (z_hdrftr st + 1))))).

Theorem header_exact R st out len : Rep R st -> (R <= total)%nat ->
  match run hdr_ro (sat R out len) with
  | Done lvl s' =>
    exists p', s' = sat (R + 32) out len /\ (R + 32 <= total)%nat /\ 1 <= lvl <= 9 /\
      go_header st = (ROk tt, set_hdrftr (set_level (set_rd st p') lvl) (z_hdrftr st + 1)) /\
      PI (R + 32) p'
  | Fail e s' =>
    a_out s' = out /\ Prog.a_len s' = len /\ exists st', go_header st = (RThrow e, st')
  end.
Proof.
  intros HP HR. unfold hdr_ro, go_header. rewrite run_bind.
  pose proof (run_rbits_at data Hd R 16 out len HR) as S1.
  pose proof (m_read_be64_small data Hd R st 16 HP ltac:(lia)) as G1.
  change (N.to_nat 16) with 16%nat in G1.
  destruct (R + 16 <=? total)%nat eqn:E1.
  2:{ destruct S1 as (s' & -> & Ho & Hl). destruct G1 as (p' & G1).
      split; [exact Ho|]. split; [exact Hl|]. eexists. apply mbind_throw. exact G1. }
  apply Nat.leb_le in E1. rewrite S1. destruct G1 as (p1 & G1 & HP1 & _).
  rewrite (mbind_ok _ _ _ _ _ G1). set (magic := mval (field data R 16)).
  rewrite run_bind. destruct (magic =? hdrMagic); cbn [negb assert_p run].
  2:{ split; [reflexivity|]. split; [reflexivity|]. eexists. reflexivity. }
  rewrite run_bind.
  pose proof (run_rbits_at data Hd (R + 16) 8 out len ltac:(lia)) as S2.
  pose proof (m_read_be64_small data Hd (R + 16) (set_rd st p1) 8 HP1 ltac:(lia)) as G2.
  change (N.to_nat 8) with 8%nat in G2.
  destruct (R + 16 + 8 <=? total)%nat eqn:E2.
  2:{ destruct S2 as (s' & -> & Ho & Hl). destruct G2 as (p' & G2).
      split; [exact Ho|]. split; [exact Hl|]. eexists. apply mbind_throw. exact G2. }
  apply Nat.leb_le in E2. rewrite S2. destruct G2 as (p2 & G2 & HP2 & _).
  rewrite (mbind_ok _ _ _ _ _ G2). set (ver := mval (field data (R + 16) 8)).
  rewrite set_rd_set_rd. rewrite run_bind.
  destruct (ver =? 104); cbn [negb].
  2:{ destruct (ver =? 48); cbn [run]; (split; [reflexivity|]; split; [reflexivity|]; eexists; reflexivity). }
  cbn [run]. rewrite run_bind.
  pose proof (run_rbits_at data Hd (R + 16 + 8) 8 out len ltac:(lia)) as S3.
  pose proof (m_read_be64_small data Hd (R + 16 + 8) (set_rd st p2) 8 HP2 ltac:(lia)) as G3.
  change (N.to_nat 8) with 8%nat in G3.
  destruct (R + 16 + 8 + 8 <=? total)%nat eqn:E3.
  2:{ destruct S3 as (s' & -> & Ho & Hl). destruct G3 as (p' & G3).
      split; [exact Ho|]. split; [exact Hl|]. eexists. apply mbind_throw. exact G3. }
  apply Nat.leb_le in E3. rewrite S3. destruct G3 as (p3 & G3 & HP3 & _).
  rewrite (mbind_ok _ _ _ _ _ G3). set (lvl := mval (field data (R + 16 + 8) 8)).
  rewrite set_rd_set_rd. rewrite run_bind.
  destruct ((49 <=? lvl) && (lvl <=? 57)) eqn:El; cbn [assert_p run].
  - replace ((lvl <? 49) || (57 <? lvl)) with false by lia.
    replace (R + 16 + 8 + 8)%nat with (R + 32)%nat in * by lia.
    exists p3. split; [reflexivity|]. split; [lia|]. split; [lia|]. split; [reflexivity | exact HP3].
  - replace ((lvl <? 49) || (57 <? lvl)) with true by lia.
    split; [reflexivity|]. split; [reflexivity|]. eexists. reflexivity.
Qed.

(* ---- the stream footer, after its magic number -------------------------------------------------- *)
Definition go_footer : M (list byte) :=
  mbind (m_read_be64 32) (fun endCRC =>
  mbind mget (fun st =>
  if negb (z_endCRC st =? w32 endCRC) then corrupted else
  mbind (mupd (fun st => set_endCRC st 0)) (fun _ =>
  mbind m_read_pads (fun _ =>
  mbind (mupd (fun st => set_hdrftr st (z_hdrftr st + 1))) (fun _ =>
  ret []))))).

Definition footer_ro (combined : N) : prog (option (N * list byte)) :=
  bind (rbits 32) (fun c =>
  bind (assert_p (c =? combined) ECorrupted) (fun _ =>
  AlignP (fun _ => Ret None))).

Lemma pad_count_nat R : N.to_nat (pad_count (N.of_nat R)) = ((8 - R mod 8) mod 8)%nat.
Proof.
  unfold pad_count. rewrite !N2Nat.inj_mod, N2Nat.inj_sub, N2Nat.inj_mod, Nat2N.id by lia.
  reflexivity.
Qed.

Definition footer_tail : M (list byte) :=
  mbind m_read_pads (fun _ =>
  mbind (mupd (fun st => set_hdrftr st (z_hdrftr st + 1))) (fun _ =>
  ret [])).

Lemma go_footer_step st c p1 : m_read_be64 32 st = (ROk c, set_rd st p1) -> c < 2 ^ 32 ->
  go_footer st = if c =? z_endCRC st then footer_tail (set_endCRC (set_rd st p1) 0)
                 else (RThrow ECorrupted, set_rd st p1).
Proof.
  intros G1 Hc. unfold go_footer. rewrite (mbind_ok _ _ _ _ _ G1).
  unfold mbind at 1, mget. cbv beta iota. change (z_endCRC (set_rd st p1)) with (z_endCRC st).
  unfold w32. rewrite (N.mod_small c) by exact Hc. rewrite (N.eqb_sym (z_endCRC st) c).
  destruct (c =? z_endCRC st); cbn [negb]; reflexivity.
Qed.

Theorem footer_exact R st out len : Rep R st -> (R <= total)%nat -> z_endCRC st < 2 ^ 32 ->
  match run (footer_ro (z_endCRC st)) (sat R out len) with
  | Done r s' =>
    exists R' p', r = None /\ s' = sat R' out len /\ (R + 32 <= R' <= total)%nat /\ (R' mod 8 = 0)%nat /\
      go_footer st = (ROk [], set_hdrftr (set_endCRC (set_rd st p') 0) (z_hdrftr st + 1)) /\
      PI R' p'
  | Fail e s' =>
    a_out s' = out /\ Prog.a_len s' = len /\ exists st', go_footer st = (RThrow e, st')
  end.
Proof.
  intros HP HR Hcrc. unfold footer_ro. rewrite run_bind.
  pose proof (run_rbits_at data Hd R 32 out len HR) as S1.
  pose proof (m_read_be64_small data Hd R st 32 HP ltac:(lia)) as G1.
  change (N.to_nat 32) with 32%nat in G1.
  destruct (R + 32 <=? total)%nat eqn:E1.
  2:{ destruct S1 as (s' & -> & Ho & Hl). destruct G1 as (p' & G1).
      split; [exact Ho|]. split; [exact Hl|]. eexists. unfold go_footer. apply mbind_throw. exact G1. }
  apply Nat.leb_le in E1. rewrite S1. destruct G1 as (p1 & G1 & HP1 & _).
  set (c := mval (field data R 32)) in *.
  assert (Hc32 : c < 2 ^ 32).
  { pose proof (mval_bound (field data R 32)) as Hb. rewrite field_length in Hb by exact E1. exact Hb. }
  rewrite (go_footer_step st c p1 G1 Hc32). rewrite run_bind.
  destruct (c =? z_endCRC st); cbn [assert_p run].
  2:{ split; [reflexivity|]. split; [reflexivity|]. eexists. reflexivity. }
  set (st2 := set_endCRC (set_rd st p1) 0).
  assert (HP2 : Rep (R + 32) st2) by exact HP1.
  destruct (m_read_pads_sim data Hd (R + 32) st2 HP2) as (v & p3 & G3 & HP3 & _ & Hin & _).
  unfold footer_tail. rewrite (mbind_ok _ _ _ _ _ G3). unfold mbind at 1, mupd, ret.
  cbn [a_pos a_in ImplBits.sat]. rewrite pad_count_nat.
  set (n := ((8 - (R + 32) mod 8) mod 8)%nat) in *.
  assert (Hleb : Nat.leb n (length (skipn (R + 32) bits)) = true).
  { apply Nat.leb_le. rewrite skipn_length, (bits_length data). lia. }
  rewrite Hleb. cbn [run].
  exists (R + 32 + n)%nat, p3. split; [reflexivity|]. split.
  { unfold ImplBits.sat. f_equal; [rewrite skipn_skipn'; reflexivity | lia]. }
  split; [lia|]. split.
  { subst n. pose proof (Nat.mod_upper_bound (R + 32) 8 ltac:(lia)) as Hm.
    rewrite Nat.add_mod by lia.
    destruct (Nat.eq_dec ((R + 32) mod 8) 0) as [E0|E0].
    - rewrite E0. reflexivity.
    - rewrite (Nat.mod_small (8 - (R + 32) mod 8) 8) by lia.
      rewrite (Nat.mod_small (8 - (R + 32) mod 8) 8) by lia.
      replace ((R + 32) mod 8 + (8 - (R + 32) mod 8))%nat with 8%nat by lia. reflexivity. }
  split; [reflexivity | exact HP3].
Qed.

End Hdr.
