(* Two bzip2 Readers that differ only in RECYCLED STORAGE - the six Decoder objects zr.trees1D
   with whatever tables earlier blocks, streams and inputs have left in them - are
   indistinguishable: every call returns the same results and leaves them related.

     W0                 the relation: every field equal but z_trees; the same number of slots
     fsim               relational simulation of two monadic steps
     build_tree_sim     GeneratePrefixes / handleDegenerateCodes + Decoder.Init give the same
                        live table entries whatever the storage held before
                        (Prefix/DecTableThms.v dec_init_independent on [complete_code])
     decode_prefix_sim  every tree a block uses has been initialised by that block: the
                        selectors are below numTrees (Bzip2/ImplSels.v sels_mtf_eq)
     one_round_sim, drain_sim, bz_read_sim, bz_close_sim, bz_op_sim, bz_ops_sim *)
From V Require Import Base.Prelude Bzip2.Common Prefix.Code Prefix.ReaderImpl Prefix.DecTable
  Prefix.DecTableSpec Prefix.DecTableThms.
From V Require Bzip2.Degenerate Bzip2.DegenerateSpec Bzip2.DegenerateCanon Flate.ImplLifeSim.
From V Require Import Bzip2.Impl Bzip2.ImplLife Bzip2.ImplCodes Bzip2.ImplSels Bzip2.ImplTables
  Bzip2.Safe Bzip2.MtfRle2.
From Coq Require Import ZifyBool ZifyN ZifyNat.

Local Open Scope N_scope.
Local Open Scope bz_scope.

Notation dec_eq := Flate.ImplLifeSim.dec_eq.

(* ---- the relation on Reader states ------------------------------------------------------------------ *)
Record W0 (s1 s2 : bzst) : Prop := mkW0 {
  w_inOff : z_inOff s1 = z_inOff s2;
  w_outOff : z_outOff s1 = z_outOff s2;
  w_rd : z_rd s1 = z_rd s2;
  w_err : z_err s1 = z_err s2;
  w_level : z_level s1 = z_level s2;
  w_hdrftr : z_hdrftr s1 = z_hdrftr s2;
  w_blkCRC : z_blkCRC s1 = z_blkCRC s2;
  w_endCRC : z_endCRC s1 = z_endCRC s2;
  w_crc : z_crc s1 = z_crc s2;
  w_rle : z_rle s1 = z_rle s2;
  w_ntrees : length (z_trees s1) = length (z_trees s2)
}.

Lemma W0_refl s : W0 s s.
Proof. constructor; reflexivity. Qed.

Lemma W0_sym s1 s2 : W0 s1 s2 -> W0 s2 s1.
Proof. intros [H1 H2 H3 H4 H5 H6 H7 H8 H9 H10 H11]. constructor; symmetry; assumption. Qed.

Lemma W0_trans s1 s2 s3 : W0 s1 s2 -> W0 s2 s3 -> W0 s1 s3.
Proof.
  intros [H1 H2 H3 H4 H5 H6 H7 H8 H9 H10 H11] [G1 G2 G3 G4 G5 G6 G7 G8 G9 G10 G11].
  constructor; congruence.
Qed.

Ltac bz_simpl :=
  cbn [z_inOff z_outOff z_rd z_err z_level z_hdrftr z_blkCRC z_endCRC z_crc z_rle z_trees
       set_rd set_err set_level set_hdrftr set_blkCRC set_endCRC set_crc set_rle set_trees
       set_inOff set_outOff] in *.

(* W0 of two states built from related ones by the same field updates *)
Ltac w0_solve HW :=
  let H1 := fresh in let H2 := fresh in let H3 := fresh in let H4 := fresh in let H5 := fresh in
  let H6 := fresh in let H7 := fresh in let H8 := fresh in let H9 := fresh in let H10 := fresh in
  let H11 := fresh in
  pose proof HW as [H1 H2 H3 H4 H5 H6 H7 H8 H9 H10 H11];
  constructor; bz_simpl; try assumption; try reflexivity; try congruence.

Definition srel := bzst -> bzst -> Prop.

(* a relation that only looks at the Decoder objects *)
Definition slot_only (Q : srel) : Prop :=
  forall s1 s2 t1 t2, z_trees t1 = z_trees s1 -> z_trees t2 = z_trees s2 -> Q s1 s2 -> Q t1 t2.

(* both computations return related values / throw the same error, and leave related states *)
Definition fsim {A B} (Q Q' : srel) (RA : A -> B -> Prop) (m1 : M A) (m2 : M B) : Prop :=
  forall s1 s2, W0 s1 s2 -> Q s1 s2 ->
    match m1 s1, m2 s2 with
    | (ROk a, t1), (ROk b, t2) => RA a b /\ W0 t1 t2 /\ Q' t1 t2
    | (RThrow e1, t1), (RThrow e2, t2) => e1 = e2 /\ W0 t1 t2
    | _, _ => False
    end.

Lemma fsim_bind {A B A' B'} (Q Q' Q'' : srel) (RA : A -> B -> Prop) (RB : A' -> B' -> Prop)
    (m1 : M A) (m2 : M B) (f : A -> M A') (g : B -> M B') :
  fsim Q Q' RA m1 m2 -> (forall a b, RA a b -> fsim Q' Q'' RB (f a) (g b)) ->
  fsim Q Q'' RB (mbind m1 f) (mbind m2 g).
Proof.
  intros Hm Hf s1 s2 HW HQ. unfold mbind. specialize (Hm s1 s2 HW HQ).
  destruct (m1 s1) as [[a|e1] t1]; destruct (m2 s2) as [[b|e2] t2]; try contradiction.
  - destruct Hm as (Hab & HW' & HQ'). exact (Hf a b Hab t1 t2 HW' HQ').
  - exact Hm.
Qed.

Lemma fsim_ret {A B} (Q : srel) (RA : A -> B -> Prop) a b : RA a b -> fsim Q Q RA (ret a) (ret b).
Proof. intros H s1 s2 HW HQ. unfold ret. split; [exact H|]. split; assumption. Qed.

Lemma fsim_throw {A B} (Q Q' : srel) (RA : A -> B -> Prop) e : fsim Q Q' RA (@throw A e) (@throw B e).
Proof. intros s1 s2 HW HQ. unfold throw. split; [reflexivity | exact HW]. Qed.

Lemma fsim_corrupted {A B} (Q Q' : srel) (RA : A -> B -> Prop) : fsim Q Q' RA (@corrupted A) (@corrupted B).
Proof. apply fsim_throw. Qed.

Lemma fsim_mget (Q : srel) : fsim Q Q (fun a b => W0 a b /\ Q a b) mget mget.
Proof. intros s1 s2 HW HQ. unfold mget. split; [split; assumption|]. split; assumption. Qed.

(* mget, keeping the connection between the value and the current state *)
Lemma fsim_mget_at {A B} (Q Q' : srel) (RB : A -> B -> Prop) (f : bzst -> M A) (g : bzst -> M B) :
  (forall s1 s2, W0 s1 s2 -> Q s1 s2 ->
     match f s1 s1, g s2 s2 with
     | (ROk a, t1), (ROk b, t2) => RB a b /\ W0 t1 t2 /\ Q' t1 t2
     | (RThrow e1, t1), (RThrow e2, t2) => e1 = e2 /\ W0 t1 t2
     | _, _ => False
     end) ->
  fsim Q Q' RB (mbind mget f) (mbind mget g).
Proof. intros H s1 s2 HW HQ. exact (H s1 s2 HW HQ). Qed.

Lemma mbind_mupd {B} (u : bzst -> bzst) (f : unit -> M B) st : mbind (mupd u) f st = f tt (u st).
Proof. reflexivity. Qed.

Lemma mbind_ok' {A B} (m : M A) (f : A -> M B) st a st' :
  m st = (ROk a, st') -> mbind m f st = f a st'.
Proof. intros H. unfold mbind. rewrite H. reflexivity. Qed.

Lemma fsim_lift {A} (Q : srel) (x : res A) : fsim Q Q eq (lift x) (lift x).
Proof.
  intros s1 s2 HW HQ. unfold lift. destruct x as [a|e].
  - split; [reflexivity|]. split; assumption.
  - split; [reflexivity | exact HW].
Qed.

Lemma fsim_weaken {A B} (Q Q' Q2 : srel) (RA RA' : A -> B -> Prop) m1 m2 :
  fsim Q Q' RA m1 m2 -> (forall a b, RA a b -> RA' a b) -> (forall s1 s2, Q' s1 s2 -> Q2 s1 s2) ->
  fsim Q Q2 RA' m1 m2.
Proof.
  intros H HR HQ' s1 s2 HW HQ. specialize (H s1 s2 HW HQ).
  destruct (m1 s1) as [[a|e1] t1]; destruct (m2 s2) as [[b|e2] t2]; try contradiction; [|exact H].
  destruct H as (H1 & H2 & H3). split; [apply HR; exact H1|]. split; [exact H2 | apply HQ'; exact H3].
Qed.

Lemma fsim_pre {A B} (Q0 Q Q' : srel) (RA : A -> B -> Prop) m1 m2 :
  fsim Q Q' RA m1 m2 -> (forall s1 s2, Q0 s1 s2 -> Q s1 s2) -> fsim Q0 Q' RA m1 m2.
Proof. intros H HQ s1 s2 HW HQ0. apply H; [exact HW | apply HQ; exact HQ0]. Qed.

(* a pure update of fields other than the Decoder objects *)
Lemma fsim_mupd (Q : srel) (f : bzst -> bzst) : slot_only Q ->
  (forall s1 s2, W0 s1 s2 -> W0 (f s1) (f s2)) -> (forall s, z_trees (f s) = z_trees s) ->
  fsim Q Q (fun _ _ => True) (mupd f) (mupd f).
Proof.
  intros HQ Hw Hs s1 s2 HW Hq. unfold mupd. split; [exact I|]. split; [apply Hw; exact HW|].
  apply (HQ s1 s2); [apply Hs | apply Hs | exact Hq].
Qed.

Definition QT : srel := fun _ _ => True.
Lemma QT_slot : slot_only QT.
Proof. intros s1 s2 t1 t2 _ _ _. exact I. Qed.

(* ---- loops -------------------------------------------------------------------------------------------- *)
Definition sum_rel {S1 S2 R1 R2} (SR : S1 -> S2 -> Prop) (RR : R1 -> R2 -> Prop)
  (x : S1 + R1) (y : S2 + R2) : Prop :=
  match x, y with
  | inl a, inl b => SR a b
  | inr a, inr b => RR a b
  | _, _ => False
  end.

Lemma fsim_iterM {S1 S2 R1 R2} (Q : srel) (SR : S1 -> S2 -> Prop) (RR : R1 -> R2 -> Prop)
    (body1 : S1 -> M (S1 + R1)) (body2 : S2 -> M (S2 + R2)) :
  (forall a b, SR a b -> fsim Q Q (sum_rel SR RR) (body1 a) (body2 b)) ->
  forall d a b, SR a b -> fsim Q Q (sum_rel SR RR) (iterM d body1 a) (iterM d body2 b).
Proof.
  intros Hb. induction d as [|d IH]; intros a b Hab; cbn [iterM]; [apply Hb; exact Hab|].
  eapply fsim_bind; [apply IH; exact Hab|].
  intros [a'|x] [b'|y] Hr; cbn [sum_rel] in Hr; try contradiction.
  - apply IH. exact Hr.
  - apply fsim_ret. exact Hr.
Qed.

Lemma fsim_loopM {S1 S2 R1 R2} (Q : srel) (SR : S1 -> S2 -> Prop) (RR : R1 -> R2 -> Prop)
    (body1 : S1 -> M (S1 + R1)) (body2 : S2 -> M (S2 + R2)) :
  (forall a b, SR a b -> fsim Q Q (sum_rel SR RR) (body1 a) (body2 b)) ->
  forall d a b, SR a b -> fsim Q Q RR (loopM d body1 a) (loopM d body2 b).
Proof.
  intros Hb d a b Hab. unfold loopM.
  eapply fsim_bind; [apply (fsim_iterM Q SR RR body1 body2 Hb d a b Hab)|].
  intros [a'|x] [b'|y] Hr; cbn [sum_rel] in Hr; try contradiction.
  - apply fsim_throw.
  - apply fsim_ret. exact Hr.
Qed.

(* ---- the bit reader ---------------------------------------------------------------------------------------- *)
Lemma sim_set_rd (Q : srel) s1 s2 p : slot_only Q -> W0 s1 s2 -> Q s1 s2 ->
  W0 (set_rd s1 p) (set_rd s2 p) /\ Q (set_rd s1 p) (set_rd s2 p).
Proof.
  intros HQ HW Hq. split; [w0_solve HW|].
  apply (HQ s1 s2); [reflexivity | reflexivity | exact Hq].
Qed.

Lemma m_read_bits_sim (Q : srel) nb : slot_only Q -> fsim Q Q eq (m_read_bits nb) (m_read_bits nb).
Proof.
  intros HQ s1 s2 HW Hq. unfold m_read_bits. rewrite <- (w_rd _ _ HW).
  destruct (read_bits (z_rd s1) nb) as [[v|] p'];
    destruct (sim_set_rd Q s1 s2 p' HQ HW Hq) as (H1 & H2).
  - split; [reflexivity|]. split; assumption.
  - split; [reflexivity | exact H1].
Qed.

Lemma m_bits_fast_sim (Q : srel) nb : slot_only Q -> fsim Q Q eq (m_bits_fast nb) (m_bits_fast nb).
Proof.
  intros HQ s1 s2 HW Hq. unfold m_bits_fast. rewrite <- (w_rd _ _ HW).
  destruct (try_read_bits (z_rd s1) nb) as [[v|] p'];
    destruct (sim_set_rd Q s1 s2 p' HQ HW Hq) as (H1 & H2).
  - split; [reflexivity|]. split; assumption.
  - exact (m_read_bits_sim Q nb HQ _ _ H1 H2).
Qed.

Lemma m_read_pads_sim (Q : srel) : slot_only Q -> fsim Q Q eq m_read_pads m_read_pads.
Proof.
  intros HQ s1 s2 HW Hq. unfold m_read_pads. rewrite <- (w_rd _ _ HW).
  destruct (read_pads (z_rd s1)) as [v p'].
  destruct (sim_set_rd Q s1 s2 p' HQ HW Hq) as (H1 & H2).
  split; [reflexivity|]. split; assumption.
Qed.

Lemma m_read_symbol_sim (Q : srel) d d' : slot_only Q -> dec_eq d d' ->
  fsim Q Q eq (m_read_symbol d) (m_read_symbol d').
Proof.
  intros HQ HD s1 s2 HW Hq. unfold m_read_symbol.
  rewrite <- (w_rd _ _ HW), <- (Flate.ImplLifeSim.dt_read_symbol_eq d d' _ HD).
  destruct (dt_read_symbol d (z_rd s1)) as [r p'].
  destruct (sim_set_rd Q s1 s2 p' HQ HW Hq) as (H1 & H2).
  destruct r; (split; [reflexivity|]); try exact H1; (split; assumption).
Qed.

Lemma m_symbol_fast_sim (Q : srel) d d' : slot_only Q -> dec_eq d d' ->
  fsim Q Q eq (m_symbol_fast d) (m_symbol_fast d').
Proof.
  intros HQ HD s1 s2 HW Hq. unfold m_symbol_fast.
  rewrite <- (w_rd _ _ HW), <- (Flate.ImplLifeSim.try_read_symbol_eq d d' _ HD).
  destruct (try_read_symbol d (z_rd s1)) as [r p'].
  destruct (sim_set_rd Q s1 s2 p' HQ HW Hq) as (H1 & H2).
  destruct r as [[s|]|].
  - split; [reflexivity|]. split; assumption.
  - exact (m_read_symbol_sim Q d d' HQ HD _ _ H1 H2).
  - split; [reflexivity | exact H1].
Qed.

Lemma m_pull_first_sim (Q : srel) : slot_only Q -> fsim Q Q (fun _ _ => True) m_pull_first m_pull_first.
Proof.
  intros HQ s1 s2 HW Hq. unfold m_pull_first. rewrite <- (w_rd _ _ HW), <- (w_hdrftr _ _ HW).
  destruct (pull_bits (z_rd s1) 1) as [e p'].
  destruct (sim_set_rd Q s1 s2 p' HQ HW Hq) as (H1 & H2).
  destruct e.
  - split; [reflexivity | exact H1].
  - split; [exact I|]. split; assumption.
Qed.

Lemma m_read_be64_sim (Q : srel) nb : slot_only Q -> fsim Q Q eq (m_read_be64 nb) (m_read_be64 nb).
Proof.
  intros HQ. unfold m_read_be64. destruct (nb <=? 32).
  - eapply fsim_bind; [apply m_read_bits_sim; exact HQ|]. intros v ? <-. apply fsim_ret. reflexivity.
  - eapply fsim_bind; [apply m_read_bits_sim; exact HQ|]. intros a ? <-.
    eapply fsim_bind; [apply m_read_bits_sim; exact HQ|]. intros b ? <-. apply fsim_ret. reflexivity.
Qed.

(* ---- ReadPrefixCodes: the code lengths ------------------------------------------------------------------- *)
Definition clen_ok (c : Z) : Prop := (1 <= c <= 20)%Z.

Lemma clen_body_sim (Q : srel) clen : slot_only Q ->
  fsim Q Q (sum_rel eq (fun a b => a = b /\ clen_ok a)) (clen_body clen) (clen_body clen).
Proof.
  intros HQ. unfold clen_body.
  destruct ((clen <? 1) || (20 <? clen))%Z eqn:E; [apply fsim_corrupted|].
  eapply fsim_bind; [apply m_bits_fast_sim; exact HQ|]. intros b ? <-.
  destruct (b =? 0).
  - apply fsim_ret. cbn [sum_rel]. split; [reflexivity|]. unfold clen_ok. lia.
  - eapply fsim_bind; [apply m_bits_fast_sim; exact HQ|]. intros b2 ? <-.
    apply fsim_ret. reflexivity.
Qed.

Lemma read_clens_sim (Q : srel) d : slot_only Q -> forall n clen acc,
  fsim Q Q (fun a b => a = b /\ (Forall (fun l => 1 <= l <= 20) acc ->
                                 Forall (fun l => 1 <= l <= 20) a /\ length a = (length acc + n)%nat))
       (read_clens d n clen acc) (read_clens d n clen acc).
Proof.
  intros HQ. induction n as [|n IH]; intros clen acc; cbn [read_clens].
  - apply fsim_ret. split; [reflexivity|]. intros Hacc. rewrite fast_rev_eq. split.
    + apply Forall_rev. exact Hacc.
    + rewrite rev_length. lia.
  - eapply fsim_bind.
    { apply (fsim_loopM Q eq (fun a b : Z => a = b /\ clen_ok a) clen_body clen_body).
      - intros a ? <-. apply clen_body_sim. exact HQ.
      - reflexivity. }
    intros c ? [<- Hc].
    eapply fsim_weaken; [apply (IH c (Z.to_N c :: acc)) | | auto].
    intros a b [<- Hab]. split; [reflexivity|]. intros Hacc.
    destruct Hab as [H1 H2].
    { constructor; [unfold clen_ok in Hc; lia | exact Hacc]. }
    split; [exact H1|]. rewrite H2. cbn [length]. lia.
Qed.

(* ---- GeneratePrefixes / handleDegenerateCodes + Decoder.Init ---------------------------------------- *)
Lemma build_tree_sim lens sl1 sl2 : DegenerateSpec.lens_ok lens ->
  exists t1 t2, (forall st, build_tree lens sl1 st = (ROk t1, st)) /\
                (forall st, build_tree lens sl2 st = (ROk t2, st)) /\
                dec_eq (ds_dec t1) (ds_dec t2).
Proof.
  intros Hok.
  destruct (DegenerateCanon.build_codes_ok lens Hok) as (out & Hb & Hcc & _).
  pose proof (complete_code_dec_valid out Hcc) as HV.
  destruct (dec_init_independent 20 out (ds_cmem sl1) (ds_lmem sl1) (ds_cmem sl2) (ds_lmem sl2)
              ltac:(lia) HV)
    as (d & d' & Ed & Ed' & E3 & E4 & E5 & E6 & E7 & E1 & E2 & Hc & Hf).
  eexists; eexists. split; [|split].
  - intros st. unfold build_tree, slot_init. rewrite Hb, Ed. reflexivity.
  - intros st. unfold build_tree, slot_init. rewrite Hb, Ed'. reflexivity.
  - cbn [ds_dec]. constructor; try assumption; split; try assumption;
      apply Flate.ImplLifeSim.arr_get_len; assumption.
Qed.

(* the first k Decoder objects hold the same live tables *)
Definition TQ (k : nat) : srel := fun s1 s2 =>
  forall i, (i < k)%nat ->
    match nth_error (z_trees s1) i, nth_error (z_trees s2) i with
    | Some a, Some b => dec_eq (ds_dec a) (ds_dec b)
    | None, None => True
    | _, _ => False
    end.

Lemma TQ_slot k : slot_only (TQ k).
Proof. intros s1 s2 t1 t2 E1 E2 H. unfold TQ in *. rewrite E1, E2. exact H. Qed.

Lemma TQ_0 s1 s2 : TQ 0 s1 s2.
Proof. intros i Hi. lia. Qed.

Lemma nth_error_set_nth_eq {A} (l : list A) : forall i x, (i < length l)%nat ->
  nth_error (set_nth i l x) i = Some x.
Proof.
  induction l as [|y l IH]; intros i x Hi; cbn [length] in Hi; [lia|].
  destruct i; cbn [set_nth nth_error]; [reflexivity | apply IH; lia].
Qed.

Lemma nth_error_set_nth_neq {A} (l : list A) : forall i j x, i <> j ->
  nth_error (set_nth i l x) j = nth_error l j.
Proof.
  induction l as [|y l IH]; intros i j x Hij; [destruct i; reflexivity|].
  destruct i; destruct j; cbn [set_nth nth_error]; try reflexivity; [contradiction | apply IH; lia].
Qed.

Lemma read_prefix_codes_sim d numSyms : (2 <= numSyms <= 258)%nat -> forall k i,
  fsim (TQ i) (TQ (i + k)) (fun _ _ => True)
       (read_prefix_codes d numSyms k i) (read_prefix_codes d numSyms k i).
Proof.
  intros Hn. induction k as [|k IH]; intros i; cbn [read_prefix_codes].
  - rewrite Nat.add_0_r. apply fsim_ret. exact I.
  - eapply fsim_bind; [apply m_read_be64_sim; apply TQ_slot|]. intros clen ? <-.
    eapply fsim_bind; [apply read_clens_sim; apply TQ_slot|]. intros lens ? [<- Hlens].
    destruct (Hlens (Forall_nil _)) as [Hr Hl]. cbn [length] in Hl.
    assert (Hok : DegenerateSpec.lens_ok lens).
    { split; [lia|]. eapply Forall_impl; [|exact Hr]. cbn beta. unfold maxPrefixBits. intros l H. exact H. }
    apply fsim_mget_at. intros s1 s2 HW HQ.
    pose proof (w_ntrees _ _ HW) as Hlen.
    destruct (nth_error (z_trees s1) i) as [sa|] eqn:Ea; destruct (nth_error (z_trees s2) i) as [sb|] eqn:Eb.
    + destruct (build_tree_sim lens sa sb Hok) as (t1 & t2 & B1 & B2 & HD).
      rewrite (mbind_ok' _ _ _ _ _ (B1 s1)), (mbind_ok' _ _ _ _ _ (B2 s2)), !mbind_mupd.
      replace (i + S k)%nat with (S i + k)%nat by lia.
      apply IH.
      * w0_solve HW. rewrite !set_nth_length. assumption.
      * intros j Hj. bz_simpl.
        assert (Hi1 : (i < length (z_trees s1))%nat) by (apply nth_error_Some; rewrite Ea; discriminate).
        assert (Hi2 : (i < length (z_trees s2))%nat) by lia.
        destruct (Nat.eq_dec j i) as [->|Hji].
        -- rewrite !nth_error_set_nth_eq by assumption. exact HD.
        -- rewrite !nth_error_set_nth_neq by lia. apply HQ. lia.
    + exfalso. apply nth_error_None in Eb.
      assert (H : (i < length (z_trees s1))%nat) by (apply nth_error_Some; rewrite Ea; discriminate). lia.
    + exfalso. apply nth_error_None in Ea.
      assert (H : (i < length (z_trees s2))%nat) by (apply nth_error_Some; rewrite Eb; discriminate). lia.
    + split; [reflexivity | exact HW].
Qed.

(* ---- decodePrefix -------------------------------------------------------------------------------------------- *)
Lemma read_sels_sim (Q : srel) dsel numTrees : slot_only Q -> numTrees <= 256 -> forall n acc,
  fsim Q Q (fun a b => a = b /\ (Forall (fun v => v < numTrees) acc -> Forall (fun v => v < numTrees) a))
       (read_sels n dsel numTrees acc) (read_sels n dsel numTrees acc).
Proof.
  intros HQ Hg. induction n as [|n IH]; intros acc; cbn [read_sels].
  - apply fsim_ret. split; [reflexivity|]. intros H. rewrite fast_rev_eq. apply Forall_rev. exact H.
  - eapply fsim_bind; [apply m_symbol_fast_sim; [exact HQ | apply Flate.ImplLifeSim.dec_eq_refl]|].
    intros sym ? <-. destruct (numTrees <=? sym) eqn:E; [apply fsim_corrupted|].
    eapply fsim_weaken; [apply (IH (sym mod 256 :: acc)) | | auto].
    intros a b [<- H]. split; [reflexivity|]. intros Hacc. apply H.
    constructor; [|exact Hacc]. rewrite N.mod_small by lia. lia.
Qed.

Definition opt_dec_eq (t1 t2 : option dec) : Prop :=
  match t1, t2 with
  | Some d, Some d' => dec_eq d d'
  | None, None => True
  | _, _ => False
  end.

(* the state of the symbol loop, on both sides *)
Definition SR (g : N) (y1 y2 : symst) : Prop :=
  y_blkLen y1 = y_blkLen y2 /\ y_sels y1 = y_sels y2 /\ Forall (fun v => v < g) (y_sels y1) /\
  opt_dec_eq (y_tree y1) (y_tree y2) /\ y_cnt y1 = y_cnt y2 /\ y_acc y1 = y_acc y2.

Definition trees_eq (k : nat) (tr1 tr2 : list dslot) : Prop :=
  forall i, (i < k)%nat ->
    match nth_error tr1 i, nth_error tr2 i with
    | Some a, Some b => dec_eq (ds_dec a) (ds_dec b)
    | None, None => True
    | _, _ => False
    end.

Lemma sym_body_sim (Q : srel) tr1 tr2 g numSyms limit : slot_only Q ->
  trees_eq (N.to_nat g) tr1 tr2 -> forall y1 y2, SR g y1 y2 ->
  fsim Q Q (sum_rel (SR g) eq) (sym_body tr1 numSyms limit y1) (sym_body tr2 numSyms limit y2).
Proof.
  intros HQ Htr y1 y2 (E1 & E2 & HF & E4 & E5 & E6). unfold sym_body.
  eapply fsim_bind with
    (RA := fun (a b : N * list N * option dec) =>
             fst (fst a) = fst (fst b) /\ snd (fst a) = snd (fst b) /\
             Forall (fun v => v < g) (snd (fst a)) /\ opt_dec_eq (snd a) (snd b)).
  - rewrite <- E1, <- E2. destruct (y_blkLen y1 =? 0).
    + destruct (y_sels y1) as [|sel r]; [apply fsim_corrupted|].
      inversion HF as [|? ? Hsel Hr]; subst.
      specialize (Htr (N.to_nat sel) ltac:(lia)).
      destruct (nth_error tr1 (N.to_nat sel)) as [sa|]; destruct (nth_error tr2 (N.to_nat sel)) as [sb|];
        try contradiction.
      * apply fsim_ret. cbn [fst snd]. split; [reflexivity|]. split; [reflexivity|]. split; [exact Hr | exact Htr].
      * apply fsim_throw.
    + apply fsim_ret. cbn [fst snd]. split; [reflexivity|]. split; [reflexivity|]. split; [exact HF | exact E4].
  - intros [[bl1 sl1] t1] [[bl2 sl2] t2] (G1 & G2 & G3 & G4). cbn [fst snd] in *. subst bl2 sl2.
    destruct t1 as [d1|]; destruct t2 as [d2|]; cbn [opt_dec_eq] in G4; try contradiction; [|apply fsim_throw].
    eapply fsim_bind; [apply m_symbol_fast_sim; [exact HQ | exact G4]|]. intros sym ? <-.
    destruct (sym =? numSyms - 1); [apply fsim_ret; cbn [sum_rel]; rewrite E6; reflexivity|].
    destruct (numSyms <=? sym); [apply fsim_corrupted|].
    rewrite <- E5. destruct (limit <=? y_cnt y1); [apply fsim_corrupted|].
    apply fsim_ret. cbn [sum_rel]. unfold SR. cbn [y_blkLen y_sels y_tree y_cnt y_acc opt_dec_eq].
    rewrite E6. split; [reflexivity|]. split; [reflexivity|]. split; [exact G3|]. split; [exact G4|].
    split; reflexivity.
Qed.

Lemma depth_of_eq s1 s2 : W0 s1 s2 -> depth_of s1 = depth_of s2.
Proof. intros HW. unfold depth_of. rewrite (w_rd _ _ HW). reflexivity. Qed.

Lemma decode_prefix_sim dictLen : dictLen <= 256 ->
  fsim QT QT eq (decode_prefix dictLen) (decode_prefix dictLen).
Proof.
  intros Hdl. unfold decode_prefix. cbv zeta.
  destruct (dictLen + 2 <? 3) eqn:E3; [apply fsim_corrupted|].
  eapply fsim_bind; [apply m_read_be64_sim; exact QT_slot|]. intros numTrees ? <-.
  destruct ((numTrees <? minNumTrees) || (maxNumTrees <? numTrees)) eqn:Eg; [apply fsim_corrupted|].
  assert (Hg : 2 <= numTrees <= 6) by (unfold minNumTrees, maxNumTrees in Eg; lia).
  eapply fsim_bind; [apply m_read_be64_sim; exact QT_slot|]. intros numSels ? <-.
  destruct decSel as [dsel| |]; [|apply fsim_throw|apply fsim_throw].
  eapply fsim_bind; [apply (read_sels_sim QT dsel numTrees QT_slot ltac:(lia))|]. intros idxs ? [<- Hidx].
  specialize (Hidx (Forall_nil _)).
  destruct (sels_mtf_eq idxs numTrees Hg Hidx) as (sels & Es & _ & Hsels & _).
  rewrite Es.
  eapply fsim_bind with (RA := fun a b : list N => a = sels /\ b = sels) (Q' := QT);
    [apply (fsim_ret QT _ sels sels); split; reflexivity|]. intros ? ? [-> ->].
  apply fsim_mget_at. intros s1 s2 HW _.
  rewrite <- (depth_of_eq s1 s2 HW).
  refine ((_ : fsim QT QT eq _ _) s1 s2 HW I).
  eapply fsim_bind.
  { eapply fsim_pre; [apply (read_prefix_codes_sim (depth_of s1) (N.to_nat (dictLen + 2)) ltac:(lia)
                               (N.to_nat numTrees) 0)|].
    intros; apply TQ_0. }
  intros _ _ _. cbn [Nat.add].
  apply fsim_mget_at. intros t1 t2 HWt HQt.
  rewrite <- (w_level _ _ HWt).
  refine ((_ : fsim (TQ (N.to_nat numTrees)) QT eq _ _) t1 t2 HWt HQt).
  eapply fsim_weaken with (Q' := TQ (N.to_nat numTrees)) (RA := eq); [|auto|intros; exact I].
  apply (fsim_loopM (TQ (N.to_nat numTrees)) (SR numTrees) eq).
  - intros y1 y2 Hy. apply sym_body_sim; [apply TQ_slot | exact HQt | exact Hy].
  - unfold SR. cbn [y_blkLen y_sels y_tree y_cnt y_acc opt_dec_eq]. repeat split. exact Hsels.
Qed.

(* ---- decodeBlock ---------------------------------------------------------------------------------------------- *)
Lemma filter_length_le' {A} (f : A -> bool) l : (length (filter f l) <= length l)%nat.
Proof. induction l as [|x l IH]; cbn [filter length]; [lia|]. destruct (f x); cbn [length]; lia. Qed.

Lemma row_values_length base bmap : (length (row_values base bmap) <= 16)%nat.
Proof.
  unfold row_values. rewrite map_length.
  etransitivity; [apply filter_length_le'|]. rewrite iota_length. cbn. lia.
Qed.

Lemma read_dict_sim (Q : srel) : slot_only Q -> forall k i bmapHi acc,
  fsim Q Q (fun a b => a = b /\ (length a <= length acc + 16 * k)%nat)
       (read_dict k i bmapHi acc) (read_dict k i bmapHi acc).
Proof.
  intros HQ. induction k as [|k IH]; intros i bmapHi acc; cbn [read_dict].
  - apply fsim_ret. split; [reflexivity | lia].
  - destruct (N.odd bmapHi).
    + eapply fsim_bind; [apply m_read_bits_sim; exact HQ|]. intros bmapLo ? <-.
      eapply fsim_weaken; [apply IH | | auto]. intros a b [<- H]. split; [reflexivity|].
      rewrite app_length in H. pose proof (row_values_length i (bmapLo mod 65536)). lia.
    + eapply fsim_weaken; [apply IH | | auto]. intros a b [<- H]. split; [reflexivity | lia].
Qed.

Lemma decode_block_sim : fsim QT QT eq decode_block decode_block.
Proof.
  unfold decode_block.
  eapply fsim_bind; [apply m_read_be64_sim; exact QT_slot|]. intros magic ? <-.
  destruct (negb (magic =? blkMagic)).
  - destruct (magic =? endMagic); [|apply fsim_corrupted].
    eapply fsim_bind; [apply m_read_be64_sim; exact QT_slot|]. intros endCRC ? <-.
    apply fsim_mget_at. intros s1 s2 HW _. rewrite <- (w_endCRC _ _ HW).
    refine ((_ : fsim QT QT eq _ _) s1 s2 HW I).
    destruct (negb (z_endCRC s1 =? w32 endCRC)); [apply fsim_corrupted|].
    eapply fsim_bind.
    { apply (fsim_mupd QT); [exact QT_slot | intros a b H; w0_solve H | reflexivity]. }
    intros _ _ _.
    eapply fsim_bind; [apply m_read_pads_sim; exact QT_slot|]. intros _ _ _.
    eapply fsim_bind.
    { apply (fsim_mupd QT); [exact QT_slot | intros a b H; w0_solve H | reflexivity]. }
    intros _ _ _. apply fsim_ret. reflexivity.
  - eapply fsim_bind.
    { apply (fsim_mupd QT); [exact QT_slot | intros a b H; w0_solve H | reflexivity]. }
    intros _ _ _.
    eapply fsim_bind; [apply m_read_be64_sim; exact QT_slot|]. intros blkCRC ? <-.
    eapply fsim_bind.
    { apply (fsim_mupd QT); [exact QT_slot | intros a b H; w0_solve H | reflexivity]. }
    intros _ _ _.
    eapply fsim_bind; [apply m_read_be64_sim; exact QT_slot|]. intros rnd ? <-.
    destruct (negb (rnd =? 0)); [apply fsim_throw|].
    eapply fsim_bind; [apply m_read_be64_sim; exact QT_slot|]. intros ptr ? <-.
    eapply fsim_bind; [apply m_read_bits_sim; exact QT_slot|]. intros bmapHi ? <-.
    eapply fsim_bind; [apply (read_dict_sim QT QT_slot)|]. intros dict ? [<- Hdict].
    cbn [length] in Hdict.
    eapply fsim_bind; [apply decode_prefix_sim; rewrite len_n_eq; lia|]. intros syms ? <-.
    apply fsim_mget_at. intros s1 s2 HW _. rewrite <- (w_level _ _ HW).
    refine ((_ : fsim QT QT eq _ _) s1 s2 HW I).
    eapply fsim_bind; [apply fsim_lift|]. intros buf ? <-.
    destruct (len_n buf <=? ptr); [apply fsim_corrupted|].
    destruct (go_bwt_decode buf ptr); [apply fsim_ret; reflexivity | apply fsim_throw].
Qed.

(* ---- the closure under errors.Recover ----------------------------------------------------------------------- *)
Lemma round_body_sim : fsim QT QT (fun _ _ => True) round_body round_body.
Proof.
  unfold round_body.
  apply fsim_mget_at. intros s1 s2 HW _.
  rewrite <- (w_hdrftr _ _ HW), <- (w_blkCRC _ _ HW), <- (w_crc _ _ HW).
  refine ((_ : fsim QT QT (fun _ _ => True) _ _) s1 s2 HW I).
  eapply fsim_bind with (RA := fun _ _ => True) (Q' := QT).
  - destruct (z_hdrftr s1 mod 2 =? 0).
    + eapply fsim_bind; [apply m_pull_first_sim; exact QT_slot|]. intros _ _ _.
      eapply fsim_bind; [apply m_read_be64_sim; exact QT_slot|]. intros magic ? <-.
      destruct (negb (magic =? hdrMagic)); [apply fsim_corrupted|].
      eapply fsim_bind; [apply m_read_be64_sim; exact QT_slot|]. intros ver ? <-.
      destruct (negb (ver =? 104)).
      * destruct (ver =? 48); [apply fsim_throw | apply fsim_corrupted].
      * eapply fsim_bind; [apply m_read_be64_sim; exact QT_slot|]. intros lvl ? <-.
        destruct ((lvl <? 49) || (57 <? lvl)); [apply fsim_corrupted|].
        apply (fsim_mupd QT); [exact QT_slot | intros a b H; w0_solve H | reflexivity].
    + destruct (negb (z_blkCRC s1 =? z_crc s1)); [apply fsim_corrupted|].
      apply (fsim_mupd QT); [exact QT_slot | intros a b H; w0_solve H | reflexivity].
  - intros _ _ _.
    eapply fsim_bind; [apply decode_block_sim|]. intros buf ? <-.
    apply (fsim_mupd QT); [exact QT_slot | intros a b H; w0_solve H | reflexivity].
Qed.

(* ---- Read ---------------------------------------------------------------------------------------------------------- *)
Lemma one_round_sim s1 s2 : W0 s1 s2 -> W0 (one_round s1) (one_round s2).
Proof.
  intros HW. unfold one_round. cbv zeta. rewrite <- (w_rd _ _ HW), <- (w_inOff _ _ HW).
  set (p0 := mkPrd _ _ _ _ _ _ _ _ _).
  assert (HW0 : W0 (set_rd s1 p0) (set_rd s2 p0)) by w0_solve HW.
  pose proof (round_body_sim _ _ HW0 I) as H.
  destruct (round_body (set_rd s1 p0)) as [[u1|e1] t1]; destruct (round_body (set_rd s2 p0)) as [[u2|e2] t2];
    try contradiction.
  - destruct H as (_ & HWt & _). rewrite <- (w_rd _ _ HWt).
    destruct (flush (z_rd t1)) as [short p'].
    assert (H3 : W0 (set_inOff (set_rd t1 p') (p_offset p')) (set_inOff (set_rd t2 p') (p_offset p')))
      by w0_solve HWt.
    pose proof (w_err _ _ H3) as He3. rewrite <- He3.
    destruct (z_err (set_inOff (set_rd t1 p') (p_offset p'))) as [e|] eqn:E3.
    + rewrite <- He3, E3. w0_solve H3.
    + destruct short.
      * cbn [z_err set_err]. w0_solve H3.
      * rewrite <- He3, E3. exact H3.
  - destruct H as (<- & HWt).
    assert (HE : forall e, W0 (set_err t1 (Some e)) (set_err t2 (Some e))) by (intros e; w0_solve HWt).
    destruct e1;
      first [ apply HE
            | cbn [z_rd set_err]; rewrite <- (w_rd _ _ HWt);
              destruct (flush (z_rd t1)) as [short p']; cbn [z_err set_inOff set_rd set_err]; w0_solve HWt ].
Qed.

Definition drain_rel (x y : (list byte * option err) * bzst + bzst) : Prop :=
  match x, y with
  | inl (r1, t1), inl (r2, t2) => r1 = r2 /\ W0 t1 t2
  | inr t1, inr t2 => W0 t1 t2
  | _, _ => False
  end.

Lemma drain_sim s1 s2 n : W0 s1 s2 -> drain_rel (drain s1 n) (drain s2 n).
Proof.
  intros HW. unfold drain. rewrite <- (w_rle _ _ HW).
  destruct (rle_read n _ _ _ []) as [[out e] r'].
  assert (H1 : W0 (set_rle s1 r') (set_rle s2 r')) by w0_solve HW.
  set (a1 := match e, z_err (set_rle s1 r') with
             | RCorrupt, None => set_err (set_rle s1 r') (Some ECorrupted) | _, _ => set_rle s1 r' end).
  set (a2 := match e, z_err (set_rle s2 r') with
             | RCorrupt, None => set_err (set_rle s2 r') (Some ECorrupted) | _, _ => set_rle s2 r' end).
  assert (H2 : W0 a1 a2).
  { unfold a1, a2. rewrite <- (w_err _ _ H1).
    destruct e; try exact H1. destruct (z_err (set_rle s1 r')); [exact H1 | w0_solve H1]. }
  destruct out as [|x out'].
  - rewrite <- (w_err _ _ H2). destruct (z_err a1) as [e0|].
    + cbn [drain_rel]. split; [reflexivity | exact H2].
    + destruct (Nat.eqb n 0); cbn [drain_rel]; [split; [reflexivity | exact H2] | exact H2].
  - cbn [drain_rel]. split; [reflexivity|]. rewrite <- (w_crc _ _ H2), <- (w_outOff _ _ H2). w0_solve H2.
Qed.

Lemma read_rounds_sim : forall fuel s1 s2 n, W0 s1 s2 ->
  fst (read_rounds fuel s1 n) = fst (read_rounds fuel s2 n) /\
  W0 (snd (read_rounds fuel s1 n)) (snd (read_rounds fuel s2 n)).
Proof.
  induction fuel as [|f IH]; intros s1 s2 n HW; cbn [read_rounds].
  - cbn [fst snd]. split; [reflexivity | w0_solve HW].
  - cbv zeta. pose proof (one_round_sim s1 s2 HW) as H1. rewrite <- (w_err _ _ H1).
    destruct (z_err (one_round s1)) as [e|].
    + cbn [fst snd]. split; [reflexivity | exact H1].
    + pose proof (drain_sim _ _ n H1) as Hd.
      destruct (drain (one_round s1) n) as [[r1 t1]|t1]; destruct (drain (one_round s2) n) as [[r2 t2]|t2];
        cbn [drain_rel] in Hd; try contradiction.
      * destruct Hd as [<- Hd]. cbn [fst snd]. split; [reflexivity | exact Hd].
      * apply IH. exact Hd.
Qed.

Theorem bz_read_sim s1 s2 n : W0 s1 s2 ->
  fst (bz_read s1 n) = fst (bz_read s2 n) /\ W0 (snd (bz_read s1 n)) (snd (bz_read s2 n)).
Proof.
  intros HW. unfold bz_read. pose proof (drain_sim _ _ n HW) as Hd.
  destruct (drain s1 n) as [[r1 t1]|t1]; destruct (drain s2 n) as [[r2 t2]|t2];
    cbn [drain_rel] in Hd; try contradiction.
  - destruct Hd as [<- Hd]. cbn [fst snd]. split; [reflexivity | exact Hd].
  - rewrite <- (w_rd _ _ Hd). apply read_rounds_sim. exact Hd.
Qed.

(* ---- Close, Reset, histories ------------------------------------------------------------------------------------ *)
Theorem bz_close_sim s1 s2 : W0 s1 s2 ->
  fst (bz_close s1) = fst (bz_close s2) /\ W0 (snd (bz_close s1)) (snd (bz_close s2)).
Proof.
  intros HW. unfold bz_close. rewrite <- (w_err _ _ HW).
  destruct (z_err s1) as [e|]; [destruct e|]; cbn [fst snd]; (split; [reflexivity|]);
    try exact HW; w0_solve HW.
Qed.

Theorem bz_reset_sim s1 s2 data bf fills reads : length (z_trees s1) = length (z_trees s2) ->
  W0 (bz_reset s1 data bf fills reads) (bz_reset s2 data bf fills reads).
Proof. intros H. constructor; cbn; try reflexivity. exact H. Qed.

Lemma bzlobs_of_eq k bs e s1 s2 : W0 s1 s2 -> bzlobs_of k bs e s1 = bzlobs_of k bs e s2.
Proof.
  intros HW. unfold bzlobs_of, bz_src_pos.
  rewrite (w_inOff _ _ HW), (w_outOff _ _ HW), (w_rd _ _ HW). reflexivity.
Qed.

Theorem bz_op_sim s1 s2 o : W0 s1 s2 ->
  fst (bz_op s1 o) = fst (bz_op s2 o) /\ W0 (snd (bz_op s1 o)) (snd (bz_op s2 o)).
Proof.
  intros HW. destruct o as [n| |data bf fills reads]; cbn [bz_op].
  - destruct (bz_read_sim s1 s2 n HW) as [Hr HW'].
    destruct (bz_read s1 n) as [[bs1 e1] t1]; destruct (bz_read s2 n) as [[bs2 e2] t2]. cbn [fst snd] in *.
    inversion Hr; subst. split; [apply bzlobs_of_eq; exact HW' | exact HW'].
  - destruct (bz_close_sim s1 s2 HW) as [Hr HW'].
    destruct (bz_close s1) as [e1 t1]; destruct (bz_close s2) as [e2 t2]. cbn [fst snd] in *. subst e2.
    split; [apply bzlobs_of_eq; exact HW' | exact HW'].
  - pose proof (bz_reset_sim s1 s2 data bf fills reads (w_ntrees _ _ HW)) as HW'.
    cbn [fst snd]. split; [apply bzlobs_of_eq; exact HW' | exact HW'].
Qed.

Theorem bz_ops_sim : forall ops s1 s2, W0 s1 s2 ->
  fst (bz_ops s1 ops) = fst (bz_ops s2 ops) /\ W0 (snd (bz_ops s1 ops)) (snd (bz_ops s2 ops)).
Proof.
  induction ops as [|o r IH]; intros s1 s2 HW; cbn [bz_ops]; [split; [reflexivity | exact HW]|].
  destruct (bz_op_sim s1 s2 o HW) as [Ho HW'].
  destruct (bz_op s1 o) as [ob1 t1]; destruct (bz_op s2 o) as [ob2 t2]. cbn [fst snd] in *. subst ob2.
  destruct (IH t1 t2 HW') as [Hr HW2].
  destruct (bz_ops t1 r) as [l1 f1]; destruct (bz_ops t2 r) as [l2 f2]. cbn [fst snd] in *. subst l2.
  split; [reflexivity | exact HW2].
Qed.

Print Assumptions bz_ops_sim.
