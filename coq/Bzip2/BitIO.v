(* C04, stage 4a: bit-field plumbing between the bzip2 encoder model (SpecW: fields are
   pushed MSB first with [wbits] onto a REVERSED accumulator, the whole stream is packed
   with [pack_msb]) and the decoder model (SpecR: a [prog] reading [rbits n] from the
   bits of the bytes, most significant bit of each byte first).

   [mbits n v]     the n low bits of v, most significant first: what [wbits n v] appends
   [reads p l a]   the parser p, started anywhere in any stream whose next bits are l,
                   consumes exactly l, produces no output and returns a
   with the composition rules for [bind], and the field round trips. *)
From V Require Import Base.Prelude Base.Prog Base.ProgThms Bzip2.Common Bzip2.SpecR Bzip2.SpecW.
Local Open Scope N_scope.

(* ---- what the encoder appends ---------------------------------------------------- *)
Fixpoint mbits (n : nat) (v : N) : list bool :=
  match n with
  | O => []
  | S n' => N.testbit v (N.of_nat n') :: mbits n' v
  end.

Lemma mbits_length n v : length (mbits n v) = n.
Proof. induction n as [|n IH]; cbn [mbits length]; [reflexivity | rewrite IH; reflexivity]. Qed.

Lemma wbits_eq n v acc : wbits n v acc = rev (mbits n v) ++ acc.
Proof.
  revert acc; induction n as [|n IH]; intros acc; cbn [wbits mbits rev app]; [reflexivity|].
  rewrite IH, <- app_assoc. reflexivity.
Qed.

(* value of a bit list read most significant bit first *)
Definition mval_acc (l : list bool) (acc : N) : N := fold_left (fun a b => 2 * a + N.b2n b) l acc.
Definition mval (l : list bool) : N := mval_acc l 0.

Lemma mval_acc_split l : forall acc, mval_acc l acc = acc * 2 ^ N.of_nat (length l) + mval l.
Proof.
  unfold mval. induction l as [|b l IH]; intros acc; cbn [mval_acc fold_left length].
  - cbn. lia.
  - unfold mval_acc in IH. rewrite (IH (2 * acc + N.b2n b)), (IH (2 * 0 + N.b2n b)).
    rewrite Nat2N.inj_succ, N.pow_succ_r'. lia.
Qed.

Lemma mval_bound l : mval l < 2 ^ N.of_nat (length l).
Proof.
  induction l as [|b l IH].
  - cbn. lia.
  - unfold mval. cbn [mval_acc fold_left length]. fold (mval_acc l (2 * 0 + N.b2n b)).
    rewrite mval_acc_split, Nat2N.inj_succ, N.pow_succ_r'. destruct b; cbn [N.b2n]; lia.
Qed.

Lemma mod_pow2_succ v n : v mod 2 ^ N.succ n = N.b2n (N.testbit v n) * 2 ^ n + v mod 2 ^ n.
Proof.
  rewrite N.pow_succ_r', (N.mul_comm 2).
  assert (H2 : 2 ^ n <> 0) by (apply N.pow_nonzero; lia).
  rewrite N.mod_mul_r by lia. rewrite N.testbit_spec'. lia.
Qed.

Lemma testbit_high a k m : m < 2 ^ k -> N.testbit (a * 2 ^ k + m) k = N.odd a.
Proof.
  intros Hm. assert (H2 : 2 ^ k <> 0) by (apply N.pow_nonzero; lia).
  assert (E : N.b2n (N.testbit (a * 2 ^ k + m) k) = N.b2n (N.odd a)).
  { rewrite N.testbit_spec'. rewrite N.div_add_l by exact H2. rewrite N.div_small by exact Hm.
    rewrite N.add_0_r. rewrite <- N.bit0_odd, N.bit0_mod. reflexivity. }
  destruct (N.testbit _ k), (N.odd a); cbn in E; congruence.
Qed.

Lemma mbits_mval_acc l : forall acc, mbits (length l) (mval_acc l acc) = l.
Proof.
  induction l as [|b l IH]; intros acc; cbn [length mbits]; [reflexivity|].
  cbn [mval_acc fold_left]. fold (mval_acc l (2 * acc + N.b2n b)). rewrite IH. f_equal.
  rewrite mval_acc_split. rewrite testbit_high by apply mval_bound.
  rewrite N.add_comm, N.odd_add_mul_2. destruct b; reflexivity.
Qed.

Lemma mbits_mval l : mbits (length l) (mval l) = l.
Proof. apply mbits_mval_acc. Qed.

Lemma mbits_mod n v : mbits n (v mod 2 ^ N.of_nat n) = mbits n v.
Proof.
  assert (G : forall k, (k <= n)%nat -> mbits k (v mod 2 ^ N.of_nat n) = mbits k v).
  { induction k as [|k IH]; intros Hk; cbn [mbits]; [reflexivity|].
    rewrite IH by lia. f_equal. apply N.mod_pow2_bits_low. lia. }
  apply G. lia.
Qed.

Lemma mbits_S_mod n v : mbits n (v mod 2 ^ N.of_nat n) = mbits n v.
Proof. apply mbits_mod. Qed.

(* ---- parsers that only read -------------------------------------------------------- *)
Definition reads {A} (p : prog A) (bits : list bool) (a : A) : Prop :=
  forall rest pos out len,
    run p (mkAst (bits ++ rest) pos out len) =
    Done a (mkAst rest (pos + N.of_nat (length bits)) out len).

Lemma reads_ret {A} (a : A) : reads (Ret a) [] a.
Proof. intros rest pos out len. cbn [run app length]. rewrite N.add_0_r. reflexivity. Qed.

Lemma reads_bind {A B} (p : prog A) (f : A -> prog B) b1 b2 a c :
  reads p b1 a -> reads (f a) b2 c -> reads (bind p f) (b1 ++ b2) c.
Proof.
  intros H1 H2 rest pos out len. rewrite run_bind, <- app_assoc, H1, H2, app_length.
  do 2 f_equal. lia.
Qed.

(* the same with the concatenation given up front *)
Lemma reads_bind_eq {A B} (p : prog A) (f : A -> prog B) bits b1 b2 a c :
  bits = b1 ++ b2 -> reads p b1 a -> reads (f a) b2 c -> reads (bind p f) bits c.
Proof. intros ->. apply reads_bind. Qed.

Lemma reads_bit {A} (k : bool -> prog A) b bits a : reads (k b) bits a -> reads (Bit k) (b :: bits) a.
Proof.
  intros H rest pos out len. cbn [run app a_in a_pos a_out a_len]. rewrite H. cbn [length].
  do 2 f_equal. lia.
Qed.

Lemma reads_assert_bind {A} c e (q : prog A) bits a :
  c = true -> reads q bits a -> reads (assert_p c e ;;; q) bits a.
Proof. intros -> H. exact H. Qed.

Lemma reads_eq {A} (p : prog A) b1 b2 a1 a2 : reads p b1 a1 -> b1 = b2 -> a1 = a2 -> reads p b2 a2.
Proof. intros H -> ->. exact H. Qed.

(* ---- fields ---------------------------------------------------------------------------- *)
Lemma reads_msbf_acc n : forall v acc,
  reads (bits_msbf_acc n acc) (mbits n v) (acc * 2 ^ N.of_nat n + v mod 2 ^ N.of_nat n).
Proof.
  induction n as [|n IH]; intros v acc; cbn [bits_msbf_acc mbits].
  - eapply reads_eq; [apply reads_ret | reflexivity|]. cbn. rewrite N.mod_1_r. lia.
  - apply reads_bit. eapply reads_eq; [apply IH | reflexivity|].
    rewrite Nat2N.inj_succ, mod_pow2_succ, N.pow_succ_r'. lia.
Qed.

(* a field of n bits holding v < 2^n is read back as v *)
Theorem reads_rbits n v : v < 2 ^ N.of_nat n -> reads (rbits n) (mbits n v) v.
Proof.
  intros Hv. unfold rbits, bits_msbf. eapply reads_eq; [apply reads_msbf_acc | reflexivity|].
  rewrite N.mod_small by exact Hv. lia.
Qed.

(* n arbitrary bits are read as their value, which has exactly these bits *)
Theorem reads_rbits_list l : reads (rbits (length l)) l (mval l).
Proof.
  pose proof (reads_rbits (length l) (mval l) (mval_bound l)) as H.
  rewrite mbits_mval in H. exact H.
Qed.

(* in the form of the task statement (cf. bit_field_roundtrip for LSB-first streams) *)
Corollary bit_field_roundtrip_msb n v rest pos out len :
  v < 2 ^ N.of_nat n ->
  run (rbits n) (mkAst (mbits n v ++ rest) pos out len) = Done v (mkAst rest (pos + N.of_nat n) out len).
Proof. intros Hv. rewrite (reads_rbits n v Hv). rewrite mbits_length. reflexivity. Qed.

(* ---- writers: a writer appends a bit list to the reversed accumulator ------------------- *)
Definition appends (w : list bool -> list bool) (bits : list bool) : Prop :=
  forall acc, w acc = rev bits ++ acc.

Lemma appends_wbits n v : appends (wbits n v) (mbits n v).
Proof. intros acc. apply wbits_eq. Qed.

Lemma appends_comp w1 w2 b1 b2 :
  appends w1 b1 -> appends w2 b2 -> appends (fun acc => w2 (w1 acc)) (b1 ++ b2).
Proof. intros H1 H2 acc. rewrite H2, H1, rev_app_distr, app_assoc. reflexivity. Qed.

Lemma appends_fold {X} (f : list bool -> X -> list bool) (g : X -> list bool) l :
  (forall x, In x l -> appends (fun acc => f acc x) (g x)) ->
  appends (fun acc => fold_left f l acc) (flat_map g l).
Proof.
  induction l as [|x l IH]; intros H acc; cbn [fold_left flat_map]; [reflexivity|].
  rewrite IH by (intros y Hy; apply H; right; exact Hy).
  rewrite (H x (or_introl eq_refl)), rev_app_distr, app_assoc. reflexivity.
Qed.
