(* Refinement of bzip2.Reader (Bzip2/Impl.v) to the libbzip2 port (Bzip2/SpecR.v):
   the code lengths of one prefix tree (prefix.go ReadPrefixCodes, after the 5-bit start value).

     for sym := range codes {
       for { if clen < 1 || clen > 20 { Corrupted }
             b := bits(1); if b == 0 { break }
             b = bits(1); clen -= int(b*2) - 1 }
       codes[sym].Len = clen }

   Contents:
     loop_sim_upto / loop_sim   a GENERIC rule: a Go loop ([loopM d], budget 2^d) whose body
                                refines the body of a specification loop ([loop depth]) refines
                                that loop, provided every continuing turn of the specification
                                eats at least one input bit (so 2^d > number of input bits is a
                                sufficient budget)
     clen_body_sim              one turn of the inner "for"
     clen_loop_sim              one symbol
     clens_sim                  all symbols
     spec_read_lens_range       what the specification delivers: n lengths in 1..20 *)
From V Require Import Base.Prelude Base.Prog Base.ProgThms Base.FuelThms Base.DepthThms Base.OkThms
  Bzip2.Common Bzip2.SpecR Bzip2.BitIO Bzip2.Safe
  Prefix.Code Prefix.ReaderImpl Prefix.ReaderSpec Prefix.ReaderThms Prefix.DecTable
  Prefix.DecReadThms Bzip2.Impl Bzip2.ImplBits Bzip2.ImplSim.

Local Open Scope N_scope.

(* ---- budget-free loops: two general facts -------------------------------------------------- *)
Lemma loops_ilen_le {St R} (body : St -> prog (St + R)) st s r :
  loops body st s r -> (ilen (res_state r) <= ilen s)%nat.
Proof.
  intros H. induction H as [st s e s' E|st s x s' E|st s st1 s1 r E H IH].
  - pose proof (run_ilen_le (body st) s) as G. rewrite E in G. exact G.
  - pose proof (run_ilen_le (body st) s) as G. rewrite E in G. exact G.
  - pose proof (run_ilen_le (body st) s) as G. rewrite E in G. cbn [res_state] in G. lia.
Qed.

Lemma loops_post {St R} (body : St -> prog (St + R)) (I : St -> Prop) (Q : R -> Prop) :
  (forall st s st' s', I st -> run (body st) s = Done (inl st') s' -> I st') ->
  (forall st s x s', I st -> run (body st) s = Done (inr x) s' -> Q x) ->
  forall st s x s', loops body st s (Done x s') -> I st -> Q x.
Proof.
  intros Hstep Hend st s x s' H. remember (Done x s') as r eqn:Er.
  induction H as [st s e s1 E|st s y s1 E|st s st1 s1 r E H IH]; intros Hi.
  - discriminate.
  - inversion Er; subst. exact (Hend st s x s' Hi E).
  - apply (IH Er). exact (Hstep st s st1 s1 Hi E).
Qed.

(* the value relation of a loop body: loop states on the left, results on the right *)
Definition sum_rel {GS GR SS SR} (LR : GS -> SS -> Prop) (RR : GR -> SR -> Prop)
    (a : GS + GR) (b : SS + SR) : Prop :=
  match a, b with
  | inl x, inl y => LR x y
  | inr x, inr y => RR x y
  | _, _ => False
  end.

Section Clens.
Variable data : list byte.
Hypothesis Hd : forall b, In b data -> b < 256.

Notation bits := (stream_bits true data).
Notation PI := (PI true data).
Notation total := (8 * length data)%nat.
Notation sat := (ImplBits.sat data).
Notation Rep := (ImplBits.Rep data).
Notation sim := (ImplSim.sim data).

Lemma ilen_sat R out len : ilen (sat R out len) = (total - R)%nat.
Proof.
  unfold ilen, ImplBits.sat. cbn [a_in]. rewrite skipn_length, (bits_length data). reflexivity.
Qed.

(* [sim] at one starting point: [sim m q rel] is [sim_at m q rel R st out len] for every
   R <= total and every Reader state st that represents R *)
Definition sim_at {A B} (m : M A) (q : prog B) (rel : A -> B -> Prop)
    (R : nat) (st : bzst) (out : list byte) (len : N) : Prop :=
  match run q (sat R out len) with
  | Done b s' =>
    (exists R' a p', s' = sat R' out len /\ (R <= R' <= total)%nat /\
                     m st = (ROk a, set_rd st p') /\ rel a b /\ PI R' p' /\
                     p_buffered p' = p_buffered (z_rd st))
    \/ ((ilen s' < 20)%nat /\ exists p', m st = (RThrow EUEOF, set_rd st p'))
  | Fail e s' =>
    exists p', m st = (RThrow e, set_rd st p') \/ m st = (RThrow EUEOF, set_rd st p')
  end.

Lemma sim_sim_at {A B} (m : M A) (q : prog B) (rel : A -> B -> Prop) :
  sim m q rel <->
  forall R st out len, Rep R st -> (R <= total)%nat -> sim_at m q rel R st out len.
Proof. split; intros H; exact H. Qed.

(* ---- the generic loop rule ------------------------------------------------------------------- *)
Section Loop.
Variables GS GR SS SR : Type.
Variable gb : GS -> M (GS + GR).          (* body of the Go loop *)
Variable sb : SS -> prog (SS + SR).       (* body of the specification loop *)
Variable LR : GS -> SS -> Prop.           (* loop states *)
Variable RR : GR -> SR -> Prop.           (* loop results *)
Hypothesis Hbody : forall gs ss, LR gs ss -> sim (gb gs) (sb ss) (sum_rel LR RR).
Hypothesis Heats : forall ss, eats (fun r => exists st', r = inl st') (sb ss).

Lemma sb_eats ss s ss' s' : run (sb ss) s = Done (inl ss') s' -> (ilen s' < ilen s)%nat.
Proof.
  intros E. pose proof (iter2_eats 0 sb Heats ss s ss' s' E) as H. cbn [Nat.pow] in H. lia.
Qed.

(* a budget-free run of the specification loop from bit R is matched by at most
   (total - R) + 1 turns of the Go body *)
Lemma loops_steps out len ss s r :
  loops sb ss s r ->
  forall R st gs, s = sat R out len -> Rep R st -> (R <= total)%nat -> LR gs ss ->
  exists k, (k <= total - R + 1)%nat /\
    match r with
    | Done b s' =>
      (exists R' a p', s' = sat R' out len /\ (R <= R' <= total)%nat /\
                       stepsM k gb gs st = (ROk (inr a), set_rd st p') /\ RR a b /\ PI R' p' /\
                       p_buffered p' = p_buffered (z_rd st))
      \/ ((ilen s' < 20)%nat /\ exists p', stepsM k gb gs st = (RThrow EUEOF, set_rd st p'))
    | Fail e s' =>
      exists p', stepsM k gb gs st = (RThrow e, set_rd st p') \/
                 stepsM k gb gs st = (RThrow EUEOF, set_rd st p')
    end.
Proof.
  intros H. induction H as [ss s e s' E|ss s x s' E|ss s ss1 s1 r E H IH];
    intros R st gs Es HP HR HL; subst s;
    pose proof (Hbody gs ss HL R st out len HP HR) as Hb; rewrite E in Hb.
  - (* the body fails *)
    destruct Hb as (p' & Eg). exists 1%nat. split; [lia|]. exists p'.
    rewrite stepsM_S. destruct Eg as [Eg|Eg]; rewrite Eg; [left|right]; reflexivity.
  - (* the body ends the loop *)
    exists 1%nat. split; [lia|].
    destruct Hb as [(R1 & a & p1 & Es1 & HR1 & Eg & Hrel & HP1 & Hb1)|(Hw & p1 & Eg)].
    + destruct a as [g|a]; [destruct Hrel|]. cbn [sum_rel] in Hrel.
      left. exists R1, a, p1. rewrite stepsM_S, Eg.
      split; [exact Es1|]. split; [exact HR1|]. split; [reflexivity|]. split; [exact Hrel|].
      split; [exact HP1 | exact Hb1].
    + right. split; [exact Hw|]. exists p1. rewrite stepsM_S, Eg. reflexivity.
  - (* the body continues *)
    destruct Hb as [(R1 & a & p1 & Es1 & HR1 & Eg & Hrel & HP1 & Hb1)|(Hw & p1 & Eg)].
    + destruct a as [gs1|a]; [|destruct Hrel]. cbn [sum_rel] in Hrel.
      pose proof (sb_eats _ _ _ _ E) as Hlt. rewrite Es1, !ilen_sat in Hlt.
      destruct (IH R1 (set_rd st p1) gs1 Es1 HP1 ltac:(lia) Hrel) as (k & Hk & Hres).
      exists (S k). split; [lia|]. rewrite stepsM_S, Eg.
      destruct r as [b s'|e s'].
      * destruct Hres as [(R2 & a2 & p2 & Es2 & HR2 & Ek & Hrel2 & HP2 & Hb2)|(Hw & p2 & Ek)].
        -- left. exists R2, a2, p2. rewrite set_rd_set_rd in Ek. rewrite z_rd_set_rd in Hb2.
           split; [exact Es2|]. split; [lia|]. split; [exact Ek|]. split; [exact Hrel2|].
           split; [exact HP2 | congruence].
        -- right. split; [exact Hw|]. exists p2. rewrite set_rd_set_rd in Ek. exact Ek.
      * destruct Hres as (p2 & Ek). exists p2. rewrite !set_rd_set_rd in Ek. exact Ek.
    + (* the Go body has thrown io.ErrUnexpectedEOF near the end of the input: whatever the
         specification does from here, it has fewer than 20 bits left *)
      exists 1%nat. split; [lia|]. rewrite stepsM_S, Eg.
      pose proof (loops_ilen_le sb ss1 s1 r H) as Hl.
      destruct r as [b s'|e s']; cbn [res_state] in Hl.
      * right. split; [lia|]. exists p1. reflexivity.
      * exists p1. right. reflexivity.
Qed.

(* THE GENERIC RULE, first form: against every run of the specification loop that does not
   exhaust the specification's own budget *)
Theorem loop_sim_upto d depth gs ss :
  (total < 2 ^ d)%nat -> LR gs ss ->
  forall R st out len, Rep R st -> (R <= total)%nat ->
    ~ is_efuel (run (loop depth sb ss) (sat R out len)) ->
    sim_at (loopM d gb gs) (loop depth sb ss) RR R st out len.
Proof.
  intros Hdd HL R st out len HP HR Hne.
  pose proof (loop_loops depth sb ss (sat R out len) Hne) as Hl.
  destruct (loops_steps out len ss _ _ Hl R st gs eq_refl HP HR HL) as (k & Hk & Hres).
  assert (Hk2 : (k <= 2 ^ d)%nat) by lia.
  unfold sim_at. destruct (run (loop depth sb ss) (sat R out len)) as [b s'|e s'].
  - destruct Hres as [(R' & a & p' & Es & HR' & Ek & Hrel & HP' & Hb)|(Hw & p' & Ek)].
    + left. exists R', a, p'. split; [exact Es|]. split; [exact HR'|].
      split; [|split; [exact Hrel|split; [exact HP' | exact Hb]]].
      rewrite (loopM_steps gb d k gs st Hk2); [rewrite Ek; reflexivity|].
      unfold finalM. rewrite Ek. exact I.
    + right. split; [exact Hw|]. exists p'.
      rewrite (loopM_steps gb d k gs st Hk2); [rewrite Ek; reflexivity|].
      unfold finalM. rewrite Ek. exact I.
  - destruct Hres as (p' & Ek). exists p'.
    destruct Ek as [Ek|Ek]; [left|right];
      (rewrite (loopM_steps gb d k gs st Hk2); [rewrite Ek; reflexivity|]);
      unfold finalM; rewrite Ek; exact I.
Qed.

(* second form: when the specification's budget is sufficient too *)
Theorem loop_sim d depth gs ss :
  (forall ss, nofuel (S total) (sb ss)) ->
  (total < 2 ^ d)%nat -> (total < 2 ^ depth)%nat -> LR gs ss ->
  sim (loopM d gb gs) (loop depth sb ss) RR.
Proof.
  intros Hnf Hd1 Hd2 HL R st out len HP HR.
  change (sim_at (loopM d gb gs) (loop depth sb ss) RR R st out len).
  apply loop_sim_upto; try assumption.
  pose proof (nofuel_loop (S total) depth sb ss Hnf Heats ltac:(lia)) as Hn.
  assert (Hlen : (ilen (sat R out len) < S total)%nat) by (rewrite ilen_sat; lia).
  pose proof (nofuel_elim _ _ (sat R out len) Hn Hlen) as Hx.
  intros C. destruct (run (loop depth sb ss) (sat R out len)) as [b s'|e s']; [exact C|].
  destruct e; try exact C. apply Hx. reflexivity.
Qed.
End Loop.

(* ---- one bit ----------------------------------------------------------------------------------- *)
Lemma sim_bit1 : sim (m_bits_fast 1) (Bit (fun b => Ret b)) (fun a b => a = N.b2n b).
Proof.
  intros R st out len HP HR.
  pose proof (sim_bits_fast data Hd 1 ltac:(lia) R st out len HP HR) as H.
  change (N.to_nat 1) with 1%nat in H.
  unfold rbits, bits_msbf in H. cbn [bits_msbf_acc run] in H |- *.
  destruct (a_in (sat R out len)) as [|b r]; [exact H|].
  destruct H as [(R' & a & p' & Es & HR' & Eg & Hrel & HP' & Hb)|Hw]; [left|right; exact Hw].
  exists R', a, p'. split; [exact Es|]. split; [exact HR'|]. split; [exact Eg|].
  split; [|split; [exact HP' | exact Hb]].
  apply same_field_1 in Hrel. destruct Hrel as [-> _]. destruct b; reflexivity.
Qed.

Lemma sim_bit_bind {A' B'} (f : N -> M A') (g : bool -> prog B') (rel' : A' -> B' -> Prop) :
  (forall b, sim (f (N.b2n b)) (g b) rel') -> sim (mbind (m_bits_fast 1) f) (Bit g) rel'.
Proof.
  intros H. change (Bit g) with (bind (Bit (fun b => Ret b)) g).
  apply (sim_bind data Hd (m_bits_fast 1) (Bit (fun b => Ret b)) (fun a b => a = N.b2n b) f g rel' sim_bit1).
  intros a b ->. apply H.
Qed.

(* ---- one turn of the inner loop --------------------------------------------------------------- *)
Definition len_ok (x : Z) (y : N) : Prop := x = Z.of_N y /\ 1 <= y <= 20.

Lemma clen_body_sim_range c :
  sim (Impl.clen_body (Z.of_N c)) (SpecR.clen_body c) (sum_rel (fun x y => x = Z.of_N y) len_ok).
Proof.
  unfold Impl.clen_body, SpecR.clen_body.
  destruct ((1 <=? c) && (c <=? maxPrefixBits)) eqn:E; unfold maxPrefixBits in E.
  - replace ((Z.of_N c <? 1) || (20 <? Z.of_N c))%Z with false by lia.
    cbn [assert_p bind].
    apply sim_bit_bind. intros more. destruct more; cbn [N.b2n negb].
    + change (1 =? 0) with false. cbv iota.
      apply sim_bit_bind. intros down. apply (sim_ret data Hd). cbn [sum_rel].
      destruct down; cbn [N.b2n]; lia.
    + change (0 =? 0) with true. cbv iota.
      apply (sim_ret data Hd). cbn [sum_rel]. split; [reflexivity | lia].
  - replace ((Z.of_N c <? 1) || (20 <? Z.of_N c))%Z with true by lia.
    cbn [assert_p bind]. unfold corrupted. apply sim_throw.
Qed.

Lemma clen_body_sim c :
  sim (Impl.clen_body (Z.of_N c)) (SpecR.clen_body c)
      (fun a b => match a, b with
                  | inl x, inl y => x = Z.of_N y
                  | inr x, inr y => x = Z.of_N y
                  | _, _ => False
                  end).
Proof.
  eapply sim_weaken; [apply clen_body_sim_range|].
  intros [x|x] [y|y] H; cbn [sum_rel] in H; try exact H. destruct H as [H _]. exact H.
Qed.

(* ---- one symbol ---------------------------------------------------------------------------------- *)
Theorem clen_loop_sim d depth c :
  (total < 2 ^ d)%nat -> (total < 2 ^ depth)%nat ->
  sim (loopM d Impl.clen_body (Z.of_N c)) (loop depth SpecR.clen_body c)
      (fun a b => a = Z.of_N b /\ 1 <= b <= 20).
Proof.
  intros Hd1 Hd2.
  apply (loop_sim Z Z N N Impl.clen_body SpecR.clen_body (fun x y => x = Z.of_N y) len_ok).
  - intros gs ss ->. apply clen_body_sim_range.
  - intros ss. apply eats_clen_body.
  - intros ss. apply nf_clen_body.
  - exact Hd1.
  - exact Hd2.
  - reflexivity.
Qed.

(* ---- all symbols ----------------------------------------------------------------------------------- *)
Theorem clens_sim d depth n c acc :
  (total < 2 ^ d)%nat -> (total < 2 ^ depth)%nat ->
  sim (Impl.read_clens d n (Z.of_N c) acc) (SpecR.read_lens depth n c acc) eq.
Proof.
  intros Hd1 Hd2. revert c acc. induction n as [|n IH]; intros c acc.
  - cbn [Impl.read_clens SpecR.read_lens]. apply (sim_ret data Hd). reflexivity.
  - cbn [Impl.read_clens SpecR.read_lens].
    eapply (sim_bind data Hd); [apply (clen_loop_sim d depth c Hd1 Hd2)|].
    intros a b [-> _]. cbv beta. rewrite N2Z.id. apply IH.
Qed.

End Clens.

(* ---- the specification side: n lengths, each in 1..20 ------------------------------------------- *)
Lemma spec_clen_body_range c s r s' :
  run (SpecR.clen_body c) s = Done (inr r) s' -> 1 <= r <= 20.
Proof.
  unfold SpecR.clen_body.
  destruct ((1 <=? c) && (c <=? maxPrefixBits)) eqn:E; unfold maxPrefixBits in E;
    cbn [assert_p bind run]; [|discriminate].
  destruct (a_in s) as [|more rest]; [discriminate|]. destruct more; cbn [negb run a_in].
  - destruct rest as [|down rest]; discriminate.
  - intros H. inversion H; subst. lia.
Qed.

Lemma spec_clen_loop_range depth c s r s' :
  run (loop depth SpecR.clen_body c) s = Done r s' -> 1 <= r <= 20.
Proof.
  intros E. pose proof (loop_loops depth SpecR.clen_body c s) as H. rewrite E in H.
  specialize (H (fun C => C)).
  apply (loops_post SpecR.clen_body (fun _ => True) (fun x => 1 <= x <= 20)) with (3 := H).
  - intros; exact I.
  - intros st s0 x s0' _ Er. exact (spec_clen_body_range st s0 x s0' Er).
  - exact I.
Qed.

Lemma spec_read_lens_range depth n c acc s lens s' :
  run (SpecR.read_lens depth n c acc) s = Done lens s' ->
  Forall (fun l => 1 <= l <= 20) acc ->
  Forall (fun l => 1 <= l <= 20) lens /\ length lens = (n + length acc)%nat.
Proof.
  revert c acc s. induction n as [|n IH]; intros c acc s E Hacc; cbn [SpecR.read_lens] in E.
  - cbn [run] in E. inversion E; subst. rewrite fast_rev_eq. split.
    + apply Forall_rev. exact Hacc.
    + rewrite rev_length. reflexivity.
  - rewrite run_bind in E.
    destruct (run (loop depth SpecR.clen_body c) s) as [c1 s1|e s1] eqn:E1; [|discriminate].
    pose proof (spec_clen_loop_range depth c s c1 s1 E1) as Hc1.
    destruct (IH c1 (c1 :: acc) s1 E (Forall_cons c1 Hc1 Hacc)) as [H1 H2].
    split; [exact H1|]. rewrite H2. cbn [length]. lia.
Qed.

(* ---- non-vacuity ------------------------------------------------------------------------------------ *)
(* two symbols from the start value 3: "10" (up to 4) "0" (length 4), "11" (down to 3) "0"
   (length 3): the byte 1001 1000, followed by enough input to be far from the end *)
Definition ex_data : list byte := [152; 0; 0; 0].

Lemma ex_data_bytes : forall b, In b ex_data -> b < 256.
Proof.
  intros b H. unfold ex_data in H. cbn [In] in H.
  destruct H as [H|[H|[H|[H|H]]]]; try (subst b; lia). destruct H.
Qed.

Example clens_sim_ex st :
  ImplBits.Rep ex_data 0 st ->
  run (SpecR.read_lens 6 2 3 []) (ImplBits.sat ex_data 0 [] 0)
    = Done [4; 3] (ImplBits.sat ex_data 6 [] 0) /\
  exists p', Impl.read_clens 6 2 3%Z [] st = (ROk [4; 3], set_rd st p') /\
             DecReadThms.PI true ex_data 6 p'.
Proof.
  intros HP.
  assert (E : run (SpecR.read_lens 6 2 3 []) (ImplBits.sat ex_data 0 [] 0)
              = Done [4; 3] (ImplBits.sat ex_data 6 [] 0)) by (vm_compute; reflexivity).
  split; [exact E|].
  assert (H1 : (8 * length ex_data < 2 ^ 6)%nat) by (vm_compute; lia).
  pose proof (clens_sim ex_data ex_data_bytes 6 6 2 3 [] H1 H1 0%nat st [] 0 HP ltac:(lia)) as H.
  rewrite E in H. change (Z.of_N 3) with 3%Z in H.
  destruct H as [(R' & a & p' & Es & HR' & Eg & Hrel & HP' & Hb)|(Hw & _)].
  - subst a. exists p'. split; [exact Eg|].
    assert (HR6 : R' = 6%nat).
    { apply (f_equal a_pos) in Es. unfold ImplBits.sat in Es. cbn [a_pos] in Es. lia. }
    subst R'. exact HP'.
  - exfalso. rewrite ilen_sat in Hw. vm_compute in Hw. lia.
Qed.

(* the generic rule [loop_sim] is not vacuous: its hypotheses are met by the two code-length
   bodies (that is [clen_loop_sim]).  The range lemma on the same run: *)
Example spec_read_lens_range_ex :
  Forall (fun l => 1 <= l <= 20) [4; 3] /\ length [4; 3] = (2 + length (@nil N))%nat.
Proof.
  apply (spec_read_lens_range 6 2 3 [] (ImplBits.sat ex_data 0 [] 0) [4; 3]
           (ImplBits.sat ex_data 6 [] 0)); [vm_compute; reflexivity | constructor].
Qed.

Print Assumptions loop_sim_upto.
Print Assumptions loop_sim.
Print Assumptions clen_body_sim.
Print Assumptions clen_loop_sim.
Print Assumptions clens_sim.
Print Assumptions spec_read_lens_range.
Print Assumptions clens_sim_ex.
