(* handleDegenerateCodes: non-vacuity examples for the theorems of
   Bzip2/DegenerateThms.v and DegenerateCanon.v, the int32 bounds of createTables,
   a kernel-checked sweep over small vectors (supporting evidence only: the
   theorems are proved for every vector), and the assumptions of the theorems. *)
From V Require Import Base.Prelude Base.Prog Flate.Spec Bzip2.Common Bzip2.SpecR Prefix.Code
  Bzip2.Degenerate Bzip2.DegenerateSpec Bzip2.DegenerateTables Bzip2.DegenerateRefine
  Bzip2.DegenerateThms Bzip2.DegenerateCanon.

Local Open Scope N_scope.

(* ---- the int32 arithmetic of createTables / getSymbol never overflows ------------------------
   By the loop invariants of DegenerateTables.v every number createTables computes is
   one of  count <= Cm k,  Cm k,  L1 k - 1 (limits),  2 * L1 k (vec after "<<= 1"),
   2 * L1 (k-1) - Cm k (bases)  for k <= 21;  getSymbol's zvec is the value of at most
   21 code bits, and zvec - bases[zn] is bounded by the two. *)
Theorem create_tables_int32 lens k : (length lens <= 258)%nat -> k <= 21 ->
  Cm lens k <= 258 /\ 2 * L1 lens k <= 1082130432 /\ (1082130432 < 2 ^ 31).
Proof.
  intros Hn Hk. pose proof (Cm_le lens k) as Hc. pose proof (Cm_le lens (k + 1)) as Hc1.
  pose proof (L1_le lens k) as Hl.
  assert (Hp : 2 ^ k <= 2 ^ 21) by (apply N.pow_le_mono_r; lia).
  change (2 ^ 21) with 2097152 in Hp. split; [lia|]. split; [nia | reflexivity].
Qed.

(* ---- non-vacuity ---------------------------------------------------------------------------------- *)
Example ex_under : list N := [3; 4; 3].          (* the under-subscribed example of prefix.go *)
Example ex_over : list N := [1; 3; 4; 3; 2].     (* the over-subscribed example of prefix.go *)
Example ex_complete : list N := [1; 2; 3; 3].

Lemma ex_under_ok : lens_ok ex_under.
Proof. split; [cbn; lia|]. repeat constructor; unfold maxPrefixBits; lia. Qed.
Lemma ex_over_ok : lens_ok ex_over.
Proof. split; [cbn; lia|]. repeat constructor; unfold maxPrefixBits; lia. Qed.
Lemma ex_complete_ok : lens_ok ex_complete.
Proof. split; [cbn; lia|]. repeat constructor; unfold maxPrefixBits; lia. Qed.

(* the two examples in the comment of handleDegenerateCodes *)
Example ex_under_run : handle_degenerate ex_under =
  DOk [(0, 3, 0); (1, 4, 2); (2, 3, 4); (258, 4, 10); (259, 3, 6); (260, 1, 1)].
Proof. vm_compute. reflexivity. Qed.

Example ex_over_run : handle_degenerate ex_over = DOk [(0, 1, 0); (1, 3, 3); (3, 3, 7); (4, 2, 1)].
Proof. vm_compute. reflexivity. Qed.

(* (a) and (b) instantiated: a valid symbol, an invalid marker, the end of input *)
Example ex_under_complete :
  complete_code [(0, 3, 0); (1, 4, 2); (2, 3, 4); (258, 4, 10); (259, 3, 6); (260, 1, 1)].
Proof.
  destruct (handle_degenerate_complete ex_under ex_under_ok) as (out & Ho & Hc).
  rewrite ex_under_run in Ho. inversion Ho; subst out. exact Hc.
Qed.

Example ex_under_sym :       (* 0 1 0 0: symbol 1 after 4 bits, in both decoders *)
  c_outcome ex_under (ast_init [false; true; false; false; true]) =
  Done 1 (adv (ast_init [false; true; false; false; true]) 4).
Proof.
  rewrite <- (handle_degenerate_equiv ex_under ex_under_ok _ ex_under_run). reflexivity.
Qed.

Example ex_under_bad :       (* 1: no code word of libbzip2 starts with 1; both fail after ONE bit *)
  c_outcome ex_under (ast_init [true; true; false]) = Fail ECorrupted (adv (ast_init [true; true; false]) 1).
Proof.
  rewrite <- (handle_degenerate_equiv ex_under ex_under_ok _ ex_under_run). reflexivity.
Qed.

Example ex_under_eof :       (* 0 1: a proper prefix of 0100 / 0101 *)
  c_outcome ex_under (ast_init [false; true]) = Fail EUEOF (adv (ast_init [false; true]) 2).
Proof.
  rewrite <- (handle_degenerate_equiv ex_under ex_under_ok _ ex_under_run). reflexivity.
Qed.

(* (c) and the dispatch instantiated *)
Example ex_complete_run :
  build_codes ex_complete = BOk [(0, 1, 0); (1, 2, 1); (2, 3, 3); (3, 3, 7)].
Proof. vm_compute. reflexivity. Qed.

Example ex_complete_hyp : complete (indexed_of ex_complete) = true.
Proof. vm_compute. reflexivity. Qed.

Example ex_complete_sym :
  c_outcome ex_complete (ast_init [true; true; false; true]) =
  Done 2 (adv (ast_init [true; true; false; true]) 3).
Proof.
  destruct (build_codes_ok ex_complete ex_complete_ok) as (out & Ho & _ & He).
  rewrite ex_complete_run in Ho. inversion Ho; subst out. rewrite <- He. reflexivity.
Qed.

Example ex_over_build : build_codes ex_over = BOk [(0, 1, 0); (1, 3, 3); (3, 3, 7); (4, 2, 1)].
Proof. vm_compute. reflexivity. Qed.

(* ---- sweep (evidence only) ---------------------------------------------------------------------------
   every vector of 2..3 lengths in 1..4 and every bit string of at most maxLen+1 bits:
   the code list of the model and the libbzip2 port give the same outcome. *)
Definition res_eqb (a b : result N) : bool :=
  match a, b with
  | Done x s, Done y t => (x =? y) && (a_pos s =? a_pos t) && list_eqb Bool.eqb (a_in s) (a_in t)
  | Fail e s, Fail f t => err_eqb e f && (a_pos s =? a_pos t) && list_eqb Bool.eqb (a_in s) (a_in t)
  | _, _ => false
  end.

Fixpoint all_bits (n : nat) : list (list bool) :=
  match n with
  | O => [[]]
  | S m => [] :: flat_map (fun l => [false :: l; true :: l]) (all_bits m)
  end.

Fixpoint all_vecs (n : nat) (maxl : N) : list (list N) :=
  match n with
  | O => [[]]
  | S m => flat_map (fun v => map (fun l => (l + 1) :: v) (iota maxl)) (all_vecs m maxl)
  end.

Definition sweep_vec (lens : list N) : bool :=
  match build_codes lens, handle_degenerate lens with
  | BOk c1, DOk c2 =>
    forallb (fun bs =>
               let st := ast_init bs in
               res_eqb (go_outcome (len_n lens) c1 st) (c_outcome lens st) &&
               res_eqb (go_outcome (len_n lens) c2 st) (c_outcome lens st))
            (all_bits (S (N.to_nat (max_of lens))))
  | _, _ => false
  end.

Example sweep_small : forallb sweep_vec (all_vecs 2 4 ++ all_vecs 3 4) = true.
Proof. vm_compute. reflexivity. Qed.

(* ---- assumptions ------------------------------------------------------------------------------------------ *)
Print Assumptions handle_degenerate_complete.
Print Assumptions handle_degenerate_equiv.
Print Assumptions gen_prefixes_equiv.
Print Assumptions build_codes_ok.
Print Assumptions create_tables_ok.
Print Assumptions get_symbol_spec.
Print Assumptions explore_spec.
Print Assumptions create_tables_int32.
