(* The code lengths of the bzip2 encoder model: [Bzip2.SpecW.generate_lengths]
   (GenerateLengths with the limit fixed at 20 bits, node weights on N, a
   total [tree_rotate]) satisfies the specification [gl_correct 20] proved for
   [Prefix.Code.gen_lengths] in Prefix/GenLengthsThms.v: same symbols in the
   same order, every length in 1..20, Kraft sum exactly one, lengths
   non-increasing along the (count) order.  The proof reuses the weight-
   independent analysis of the Huffman construction and of treeRotate. *)
From Coq Require Import Sorting.Permutation Sorting.Sorted.
From V Require Import Base.Prelude Base.Prog Flate.Spec Flate.Canon.
From V Require Import Bzip2.Common Bzip2.SpecW Bzip2.MtfRle2 Prefix.Code Prefix.GenLengthsThms.
Local Open Scope N_scope.

Lemma tree_rotate_of_g : forall nb sb sb',
  tree_rotate_g nb sb = Some sb' -> tree_rotate nb sb = sb'.
Proof.
  induction nb as [|nb1 IH]; intros sb sb' H; [discriminate|].
  cbn [tree_rotate_g] in H. cbn [tree_rotate].
  destruct (sb_get sb (N.of_nat nb1) =? 0).
  - destruct nb1 as [|nb2]; [discriminate|].
    destruct (tree_rotate_g (S nb2) sb) as [sb1|] eqn:E; [|discriminate].
    rewrite (IH _ _ E). inversion H; reflexivity.
  - inversion H; reflexivity.
Qed.

Lemma rotate_level_ok' : forall fuel i n mb sb,
  sinv i n sb -> n < 4294967296 -> (mb < i)%nat -> n <= 2 ^ N.of_nat mb ->
  sb_get sb (N.of_nat i) < 2 * N.of_nat fuel ->
  sinv i n (rotate_level fuel i sb) /\ sb_get (rotate_level fuel i sb) (N.of_nat i) = 0.
Proof.
  induction fuel as [|fu IH]; intros i n mb sb Hs Hn Hmb Hcap Hfu; [lia|].
  cbn [rotate_level]. destruct (N.ltb_spec 0 (sb_get sb (N.of_nat i))) as [Hpos|Hz].
  - destruct (rotate_step i n mb sb Hs Hn Hmb Hcap Hpos) as (sb1 & T & Hs1 & Hd).
    rewrite (tree_rotate_of_g _ _ _ T). apply (IH i n mb sb1 Hs1 Hn Hmb Hcap). lia.
  - split; [exact Hs | lia].
Qed.

Lemma rotate_all_ok' : forall levels fuel n sb,
  sinv (20 + levels) n sb -> n < 4294967296 -> n <= 2 ^ 20 -> n < 2 * N.of_nat fuel ->
  sinv 20 n (rotate_all levels fuel sb).
Proof.
  induction levels as [|l IH]; intros fuel n sb Hs Hn Hcap Hfu.
  - cbn [rotate_all]. rewrite Nat.add_0_r in Hs. exact Hs.
  - cbn [rotate_all]. change (N.to_nat maxPrefixBits) with 20%nat.
    destruct (rotate_level_ok' fuel (20 + S l) n 20 sb Hs Hn) as [Hs1 Hz];
      [lia | exact Hcap | pose proof (sinv_le _ _ _ (N.of_nat (20 + S l)) Hs) as Hle; lia |].
    apply IH; try assumption.
    rewrite Nat.add_succ_r in Hs1, Hz. apply sinv_down; assumption.
Qed.

Definition gl20_body (codes : list (N * N)) : list (N * N) :=
  let ncodes := length codes in
  match huff_build (S ncodes) codes [] with
  | None => []
  | Some root =>
    let depths := huff_depths root 0 [] in
    let dm := fold_left (fun m sd => nm_set m (fst sd) (snd sd)) depths nm_empty in
    let maxd := fold_left (fun m sd => N.max m (snd sd)) depths 0 in
    if maxd <=? maxPrefixBits then map (fun cs => (snd cs, nm_getd dm (snd cs) 0)) codes
    else
      let top := N.max 27 maxd in
      let sb := fold_left (fun m sd => sb_add m (snd sd) 1) depths nm_empty in
      let sb := rotate_all (N.to_nat (top - maxPrefixBits)) (S ncodes) sb in
      let lens := lens_of_hist sb top in
      fast_rev (combine (map snd (fast_rev codes)) lens)
  end.

Lemma generate_lengths_unfold codes :
  (2 <= length codes)%nat -> generate_lengths codes = gl20_body codes.
Proof.
  destruct codes as [|[c0 s0] [|x r]]; cbn [length]; intros H; try lia. reflexivity.
Qed.

Theorem generate_lengths_correct codes :
  (2 <= length codes)%nat ->
  NoDup (map snd codes) ->                        (* distinct symbols *)
  N.of_nat (length codes) <= 2 ^ 20 ->
  gl_correct 20 codes (generate_lengths codes).
Proof.
  intros Hn Hnd Hcap.
  assert (H32 : N.of_nat (length codes) < 4294967296).
  { change (2 ^ 20) with 1048576 in Hcap. lia. }
  rewrite generate_lengths_unfold by exact Hn. unfold gl20_body.
  rewrite huff_build_hb.
  destruct (huffman_phase_gen N.add codes Hn) as (root & df & Hr & Ldf & Hdf & P & Hnode).
  rewrite Hr. cbv zeta.
  destruct (tree_facts root Hnode) as (Hpos & Hkr & Hmax).
  set (depths := huff_depths root 0 []) in *.
  assert (Ldep : length depths = length codes).
  { rewrite (Permutation_length P), combine_length, map_length. lia. }
  set (maxd := fold_left (fun m sd => N.max m (snd sd)) depths 0) in *.
  change maxPrefixBits with 20.
  destruct (N.leb_spec maxd 20) as [Hle|Hgt].
  - apply (unlimited_result 20 codes root df); assumption.
  - set (top := N.max 27 maxd).
    assert (Hs0 : sinv (N.to_nat top) (N.of_nat (length depths)) (hist_of depths)).
    { apply hist_init.
      - intros s d Hin. split; [apply (Hpos s d Hin) | apply Hmax in Hin; lia].
      - apply Hkr. intros s d Hin. apply Hmax in Hin. lia.
      - rewrite Ldep. exact H32. }
    rewrite Ldep in Hs0.
    assert (ET : N.to_nat top = (20 + N.to_nat (top - 20))%nat) by lia.
    rewrite ET in Hs0.
    pose proof (rotate_all_ok' (N.to_nat (top - 20)) (S (length codes)) _ _ Hs0 H32 Hcap) as Hs.
    fold (hist_of depths).
    destruct (hist_result 20 _ _ top (Hs ltac:(lia))) as (R1 & R2 & R3 & R4); [lia|].
    apply limited_result.
    + apply Nat2N.inj. exact R1.
    + exact R2.
    + exact R3.
    + exact R4.
Qed.

(* non-vacuity: Fibonacci counts whose Huffman tree has depth 22 > 20 *)
Example gl20_ex_codes : list (N * N) :=
  [(1,0);(1,1);(2,2);(3,3);(5,4);(8,5);(13,6);(21,7);(34,8);(55,9);(89,10);(144,11);(233,12);(377,13);
   (610,14);(987,15);(1597,16);(2584,17);(4181,18);(6765,19);(10946,20);(17711,21);(28657,22)].

Example gl20_ex_run :
  map snd (generate_lengths gl20_ex_codes) =
  [20; 20; 20; 20; 19; 19; 17; 16; 15; 14; 13; 12; 11; 10; 9; 8; 7; 6; 5; 4; 3; 2; 1]%N.
Proof. vm_compute. reflexivity. Qed.

Example gl20_ex_correct : gl_correct 20 gl20_ex_codes (generate_lengths gl20_ex_codes).
Proof.
  apply generate_lengths_correct.
  - cbn; lia.
  - apply (NoDup_map_inv N.succ). vm_compute.
    repeat (constructor; [cbn [In]; intros H; repeat (destruct H as [H|H]; [discriminate H|]); exact H|]).
    constructor.
  - vm_compute. discriminate.
Qed.

Print Assumptions generate_lengths_correct.
Print Assumptions gl20_ex_correct.
