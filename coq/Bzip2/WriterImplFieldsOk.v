(* Every bit field the bzip2 Writer model (Bzip2/WriterImpl.v) hands to the bit writer is
   within the bit writer's supported use ([field_ok] of Prefix/WriterFields.v: the value fits
   its width and the width is at most 57 bits): the stream header, the block header, the
   whole block body (origin pointer, symbol map, tree / selector counts, selectors, code
   length deltas, every data symbol with its Huffman code of 1..20 bits) and the footer -
   for EVERY level, CRC and block content. *)
From Coq Require Import Lia ZifyN ZifyNat ZifyBool List NArith.
From V Require Import Base.Prelude Bzip2.Common Bzip2.SpecW Bzip2.SortLemmas Bzip2.MtfRle2
  Bzip2.LengthsOfCounts Prefix.ReaderImpl Prefix.WriterImpl Prefix.WriterFields Bzip2.WriterImpl.
Import ListNotations.
Local Open Scope N_scope.

(* ---- fields given by their bits -------------------------------------------------------- *)
Lemma fbits_ok l : (length l <= 57)%nat -> field_ok (fbits l).
Proof.
  intros Hl. unfold fbits. cbn [field_ok]. split; [apply bits_val_bound | lia].
Qed.

Lemma fsym_ok l : (length l <= 57)%nat -> field_ok (fsym l).
Proof.
  intros Hl. unfold fsym. cbn [field_ok]. split; [apply bits_val_bound | lia].
Qed.

Lemma wbits_length n v : forall acc, length (wbits n v acc) = (n + length acc)%nat.
Proof.
  induction n as [|n IH]; intros acc; cbn [wbits]; [reflexivity|].
  rewrite IH. cbn [length]. lia.
Qed.

Lemma msb_bits_length n v : length (msb_bits n v) = n.
Proof.
  unfold msb_bits. rewrite fast_rev_eq, rev_length, wbits_length. cbn [length]. lia.
Qed.

Lemma be_fields_ok v nb : nb <= 64 -> Forall field_ok (be_fields v nb).
Proof.
  intros Hnb. unfold be_fields. destruct (nb <=? 32) eqn:E.
  - apply N.leb_le in E. constructor; [|constructor].
    apply fbits_ok. rewrite msb_bits_length. lia.
  - apply N.leb_gt in E. constructor; [|constructor; [|constructor]].
    + apply fbits_ok. rewrite msb_bits_length. lia.
    + apply fbits_ok. rewrite msb_bits_length. lia.
Qed.

(* ---- header, footer, block header -------------------------------------------------------- *)
Theorem hdr_fields_ok level : Forall field_ok (hdr_fields level).
Proof.
  unfold hdr_fields. rewrite !Forall_app. repeat split; apply be_fields_ok; lia.
Qed.

Theorem footer_fields_ok e : Forall field_ok (footer_fields e).
Proof.
  unfold footer_fields. rewrite !Forall_app. repeat split; try (apply be_fields_ok; lia).
  constructor; [exact I | constructor].
Qed.

Theorem block_head_fields_ok crc : Forall field_ok (block_head_fields crc).
Proof.
  unfold block_head_fields. rewrite !Forall_app. repeat split; apply be_fields_ok; lia.
Qed.

(* ---- symbol map ---------------------------------------------------------------------------- *)
Lemma iota16_length : length (iota 16) = 16%nat.
Proof. rewrite iota_length. reflexivity. Qed.

Lemma symmap_fields_ok used : Forall field_ok (symmap_fields used).
Proof.
  unfold symmap_fields. constructor.
  - apply fbits_ok. rewrite map_length, iota16_length. lia.
  - apply Forall_flat_map. apply Forall_forall. intros r _.
    destruct (row_used used r); [|constructor].
    constructor; [|constructor]. apply fbits_ok. rewrite map_length, iota16_length. lia.
Qed.

(* ---- selectors ----------------------------------------------------------------------------- *)
Lemma mtf_index_bound v : forall l i,
  mtf_index N.eqb v l i = 0 \/ mtf_index N.eqb v l i < i + N.of_nat (length l).
Proof.
  induction l as [|x l IH]; intros i; cbn [mtf_index]; [left; reflexivity|].
  destruct (x =? v).
  - right. cbn [length]. lia.
  - destruct (IH (i + 1)) as [H|H]; [left; exact H | right; cbn [length]; lia].
Qed.

Lemma mtf_pick_length {A} (d : A) : forall l i, (i < length l)%nat ->
  length (snd (mtf_pick i l d)) = (length l - 1)%nat.
Proof.
  induction l as [|x l IH]; intros i Hi; cbn [length] in Hi; [lia|].
  destruct i as [|i]; cbn [mtf_pick snd length]; [lia|].
  specialize (IH i ltac:(lia)). destruct (mtf_pick i l d) as [y r'].
  cbn [snd] in *. cbn [length]. rewrite IH. lia.
Qed.

Lemma mtf_encode_sels_bound sels : Forall (fun j => j <= 5) (mtf_encode_sels sels).
Proof.
  unfold mtf_encode_sels. rewrite fast_rev_eq. apply Forall_rev.
  assert (H6 : length (iota 6) = 6%nat) by (rewrite iota_length; reflexivity).
  assert (Hnil : Forall (fun j : N => j <= 5) []) by constructor.
  revert H6 Hnil. generalize (iota 6) as d. generalize (@nil N) as out.
  induction sels as [|v sels IH]; intros out d Hd Hout; cbn [fold_left snd fst]; [exact Hout|].
  assert (Hidx : mtf_index N.eqb v d 0 <= 5).
  { destruct (mtf_index_bound v d 0) as [H|H]; lia. }
  pose proof (mtf_pick_length 0 d (N.to_nat (mtf_index N.eqb v d 0)) ltac:(lia)) as Hp.
  destruct (mtf_pick (N.to_nat (mtf_index N.eqb v d 0)) d 0) as [x rest].
  cbn [snd] in Hp. apply IH.
  - cbn [length]. lia.
  - constructor; [exact Hidx | exact Hout].
Qed.

Lemma sel_field_ok j : j <= 5 -> field_ok (sel_field j).
Proof.
  intros Hj. unfold sel_field. apply fbits_ok.
  rewrite fast_rev_eq, rev_length. unfold write_unary. cbn [length].
  rewrite repeat_acc_eq, app_length, repeat_length. cbn [length]. lia.
Qed.

(* ---- code length deltas ------------------------------------------------------------------- *)
Lemma fbits_3_2_ok : field_ok (FBits 3 2). Proof. cbn [field_ok]. change (2 ^ 2) with 4. lia. Qed.
Lemma fbits_1_2_ok : field_ok (FBits 1 2). Proof. cbn [field_ok]. change (2 ^ 2) with 4. lia. Qed.
Lemma fbits_0_1_ok : field_ok (FBits 0 1). Proof. cbn [field_ok]. change (2 ^ 1) with 2. lia. Qed.

Lemma Forall_repeat {A} (P : A -> Prop) x n : P x -> Forall P (repeat x n).
Proof. intros Hx. induction n as [|n IH]; cbn [repeat]; constructor; assumption. Qed.

Lemma lens_moves_ok : forall lens clen, Forall field_ok (lens_moves clen lens).
Proof.
  induction lens as [|l r IH]; intros clen; cbn [lens_moves]; [constructor|].
  apply Forall_app. split.
  - destruct (l <? clen); apply Forall_repeat; [exact fbits_3_2_ok | exact fbits_1_2_ok].
  - constructor; [exact fbits_0_1_ok | apply IH].
Qed.

Lemma lens_fields_ok lens : Forall field_ok (lens_fields lens).
Proof.
  unfold lens_fields. cbv zeta. apply Forall_app. split;
    [apply be_fields_ok; lia | apply lens_moves_ok].
Qed.

(* ---- canonical codes: every stored length is one of the given lengths --------------------- *)
Lemma nm_getd_empty {A} k (d : A) : nm_getd nm_empty k d = d.
Proof. unfold nm_getd. rewrite nm_get_empty. reflexivity. Qed.

Definition cc_step (st : nmap (N * N) * nmap N * N) (l : N) : nmap (N * N) * nmap N * N :=
  let '(m, nx, sym) := st in
  let c := nm_getd nx l 0 in
  (nm_set m sym (l, c), nm_set nx l (c + 1), sym + 1).

Lemma cc_fold_bound B : forall lens m nx sym,
  Forall (fun l => l <= B) lens ->
  (forall s, fst (nm_getd m s (0, 0)) <= B) ->
  forall s, fst (nm_getd (fst (fst (fold_left cc_step lens (m, nx, sym)))) s (0, 0)) <= B.
Proof.
  induction lens as [|l r IH]; intros m nx sym Hl Hm s; cbn [fold_left fst]; [apply Hm|].
  inversion Hl as [|l' r' Hl1 Hl2]; subst l' r'.
  unfold cc_step at 2. cbv zeta. apply IH; [exact Hl2|].
  intros s'. destruct (N.eq_dec sym s') as [<-|Hne].
  - rewrite nm_getd_set_eq. cbn [fst]. exact Hl1.
  - rewrite nm_getd_set_neq by exact Hne. apply Hm.
Qed.

Lemma canonical_codes_len_bound B lens : Forall (fun l => l <= B) lens ->
  forall s, fst (nm_getd (canonical_codes lens) s (0, 0)) <= B.
Proof.
  intros Hl s. unfold canonical_codes. cbv zeta.
  match goal with
  | |- context [fold_left ?F lens (nm_empty, ?nx, 0)] =>
    change F with cc_step; generalize nx
  end.
  intros nx. apply cc_fold_bound; [exact Hl|].
  intros s'. rewrite nm_getd_empty. cbn [fst]. lia.
Qed.

(* ---- code lengths of a tree ---------------------------------------------------------------- *)
Lemma tree_lens_bound counts numSyms tree : 2 <= numSyms <= 258 ->
  Forall (fun l => l <= 20) (tree_lens counts numSyms tree).
Proof.
  intros Hn. unfold tree_lens.
  set (cnts := map (fun s => nm_getd counts (count_key tree s) 0) (iota numSyms)).
  assert (Lc : length cnts = N.to_nat numSyms).
  { unfold cnts. rewrite map_length, iota_length. reflexivity. }
  destruct (lengths_of_counts_correct cnts) as (_ & Hr & _).
  - rewrite Lc. lia.
  - rewrite Lc. change (2 ^ 20) with 1048576. lia.
  - apply Forall_forall. intros l Hin. apply Hr in Hin. lia.
Qed.

Lemma code_field_ok codes s :
  (forall s', fst (nm_getd codes s' (0, 0)) <= 20) -> field_ok (code_field codes s).
Proof.
  intros Hc. unfold code_field. specialize (Hc s).
  destruct (nm_getd codes s (0, 0)) as [l c]. cbn [fst] in Hc.
  apply fsym_ok. rewrite msb_bits_length. lia.
Qed.

Lemma tree_codes_bound (lens : list (list N)) tree :
  Forall (Forall (fun l => l <= 20)) lens ->
  forall s, fst (nm_getd (nm_getd (nm_of_list (map canonical_codes lens)) tree nm_empty)
                         s (0, 0)) <= 20.
Proof.
  intros Hl s. rewrite nm_of_list_getd.
  destruct (nth_in_or_default (N.to_nat tree) (map canonical_codes lens) nm_empty) as [Hin|He].
  - apply in_map_iff in Hin. destruct Hin as (ls & <- & Hls).
    apply canonical_codes_len_bound. rewrite Forall_forall in Hl. apply Hl. exact Hls.
  - rewrite He, nm_getd_empty. cbn [fst]. lia.
Qed.

(* ---- encodePrefix -------------------------------------------------------------------------- *)
Lemma data_fields_ok (codes : nmap (nmap (N * N))) (numTrees : N) :
  (forall tree s, fst (nm_getd (nm_getd codes tree nm_empty) s (0, 0)) <= 20) ->
  forall syms i acc, Forall field_ok acc ->
  Forall field_ok (snd (fold_left
    (fun (st : N * list field) s =>
       let tree := (fst st / numBlockSyms) mod numTrees in
       (fst st + 1, code_field (nm_getd codes tree nm_empty) s :: snd st))
    syms (i, acc))).
Proof.
  intros Hc. induction syms as [|s r IH]; intros i acc Hacc; cbn [fold_left snd fst]; [exact Hacc|].
  cbv zeta. apply IH. constructor; [|exact Hacc].
  apply code_field_ok. intros s'. apply Hc.
Qed.

Theorem prefix_fields_ok syms0 nDict : nDict <= 256 ->
  Forall field_ok (prefix_fields syms0 nDict).
Proof.
  intros Hd. unfold prefix_fields. cbv zeta.
  set (numSyms := nDict + 2).
  set (syms := app_tr syms0 [numSyms - 1]).
  set (numTrees := num_trees (len_n syms)).
  set (counts := tree_counts syms numTrees).
  set (lens := map (tree_lens counts numSyms) (iota numTrees)).
  assert (Hlens : Forall (Forall (fun l => l <= 20)) lens).
  { unfold lens. apply Forall_map. apply Forall_forall. intros t _.
    apply tree_lens_bound. unfold numSyms. lia. }
  clearbody lens counts numTrees syms.
  rewrite !Forall_app. repeat split.
  - apply be_fields_ok. lia.
  - apply be_fields_ok. lia.
  - apply Forall_map. eapply Forall_impl; [|apply mtf_encode_sels_bound].
    intros j Hj. apply sel_field_ok. exact Hj.
  - apply Forall_flat_map. apply Forall_forall. intros l _. apply lens_fields_ok.
  - rewrite fast_rev_eq. apply Forall_rev. apply data_fields_ok; [|constructor].
    intros tree s. apply tree_codes_bound. exact Hlens.
Qed.

(* ---- encodeBlock ---------------------------------------------------------------------------- *)
Lemma dict_len_bound used : len_n (filter (is_used used) (iota 256)) <= 256.
Proof.
  rewrite len_n_length.
  pose proof (filter_length_le' (is_used used) (iota 256)) as H.
  rewrite iota_length in H. lia.
Qed.

Theorem block_body_fields_ok block : Forall field_ok (block_body_fields block).
Proof.
  unfold block_body_fields. destruct (bwt_encode block) as [bwt ptr]. cbv zeta.
  generalize (used_map block) as used. intros used.
  pose proof (dict_len_bound used) as Hd.
  set (dict := filter (is_used used) (iota 256)) in *.
  generalize (mtf_rle2_encode bwt dict 0 []) as syms0. intros syms0.
  clearbody dict.
  rewrite !Forall_app. repeat split.
  - apply be_fields_ok. lia.
  - apply symmap_fields_ok.
  - apply prefix_fields_ok. exact Hd.
Qed.

(* ---- non-vacuity: concrete fields, among them a 20-bit code and a rejected 58-bit one ---- *)
Example field_ok_20 : field_ok (fsym (msb_bits 20 1048575)).
Proof. apply fsym_ok. rewrite msb_bits_length. lia. Qed.

Example field_ok_not_58 : ~ field_ok (FBits 0 58).
Proof. cbn [field_ok]. lia. Qed.

Example hdr_fields_9 : hdr_fields 9 = [FBits 23106 16; FBits 22 8; FBits 156 8].
Proof. vm_compute. reflexivity. Qed.

(* a concrete block: 3 + 2 symbol-map fields, numTrees, numSels, selector, lengths, data *)
Example block_body_abracadabra :
  let fs := block_body_fields [97; 98; 114; 97; 99; 97; 100; 97; 98; 114; 97] in
  (20 <= length fs)%nat /\ Forall field_ok fs.
Proof. split; [vm_compute; lia | apply block_body_fields_ok]. Qed.

Print Assumptions fbits_ok.
Print Assumptions fsym_ok.
Print Assumptions msb_bits_length.
Print Assumptions be_fields_ok.
Print Assumptions hdr_fields_ok.
Print Assumptions footer_fields_ok.
Print Assumptions block_head_fields_ok.
Print Assumptions prefix_fields_ok.
Print Assumptions block_body_fields_ok.
