(* Concrete instances for Bzip2/WriterImplThms.v: non-vacuity of the theorems, the negative
   result about bytes delivered AFTER a failed sink call, and the mutant that shows theorem 6
   (Reset) is not vacuous. Everything here is computed by the kernel (vm_compute). *)
From V Require Import Base.Prelude Bzip2.Common Bzip2.SpecW Prefix.ReaderImpl Prefix.ReaderSpec
  Prefix.WriterImpl Prefix.WriterSpec Prefix.WriterFields Bzip2.WriterImpl Bzip2.WriterImplSpec
  Bzip2.WriterImplThms.

Local Open Scope N_scope.

(* pseudo-random bytes (linear congruential generator): incompressible enough for the block
   to exceed the 504 staged bytes at which PushBits hands the staging buffer to the sink *)
Fixpoint lcg (n : nat) (x : N) : list byte :=
  match n with
  | O => []
  | S n' => let x' := (1103515245 * x + 12345) mod 2147483648 in (x' / 65536) mod 256 :: lcg n' x'
  end.

Definition data600 : list byte := lcg 600 42.

Fixpoint prefix_ofb (a b : list byte) : bool :=
  match a, b with
  | [], _ => true
  | x :: a', y :: b' => (x =? y) && prefix_ofb a' b'
  | _, _ => false
  end.

Definition ops1 : list zop := [ZWrite (firstn 250 data600); ZWrite (skipn 250 data600); ZClose; ZClose; ZWrite [1]].

(* the sink never fails *)
Definition good1 : list byte := wsink_data (zsink (snd (zrun (znew 1 (new_sink [] SAccept)) ops1))).

(* the first sink call (made by PushBits inside encodeBlock, during Close) accepts 100 of its
   bytes and fails with error #7; every later call is accepted *)
Definition run_once := zrun (znew 1 (new_sink [SFail 100 7] SAccept)) ops1.

Definition rets (obs : list zobs) : list zret := map o_ret obs.
Definition sizes (s : wsink) : list nat := map (@length byte) (rev (k_chunks s)).

(* ---- the run: Write, Write, Close (the sink fails), Close, Write --------------------------- *)
(* Close returns the sink's error, OutputOffset counts the 100 + 404 bytes the sink accepted,
   the later Close / Write return the same error and make no sink call *)
Example run_once_observations :
  rets (fst run_once) = [ZRWrite 250 None; ZRWrite 350 None; ZRClose (Some (ESrc 7));
                         ZRClose (Some (ESrc 7)); ZRWrite 0 (Some (ESrc 7))] /\
  sizes (zsink (snd run_once)) = [100%nat; 404%nat] /\
  map o_out (fst run_once) = [0; 0; 504; 504; 504]%Z /\
  map o_in (fst run_once) = [250; 600; 600; 600; 600]%Z.
Proof. vm_compute. repeat split. Qed.

(* THE NEGATIVE RESULT. After the failed sink call (which accepted 100 bytes) the wr.Flush()
   that follows the recovered panic hands buf[:cntBuf] to the sink again, with cntBuf reduced
   by 100 but the staged bytes NOT moved: the sink accepts 404 bytes that are the first 404
   staged bytes once more. What the sink holds at the end is NOT a prefix of the fault-free
   output; what it held up to and including the failed call is (theorem prefix_at_failure). *)
Example bytes_after_the_failure_are_not_a_continuation :
  prefix_ofb (wsink_data (zsink (snd run_once))) good1 = false /\
  prefix_ofb (accepted_upto (zsink (snd run_once)) 1) good1 = true /\
  length (accepted_upto (zsink (snd run_once)) 1) = 100%nat /\
  length good1 = 1625%nat.
Proof. vm_compute. repeat split. Qed.

(* the hypotheses of prefix_at_failure / error_sets_latch hold for this run *)
Example run_once_latched : z_err (snd run_once) = Some (ESrc 7).
Proof. vm_compute. reflexivity. Qed.

(* a failure that accepts nothing, for ever: the sink holds a prefix of the good output *)
Definition run_perm := zrun (znew 1 (new_sink [SAccept] (SFail 0 9))) ops1.
Example run_perm_observations :
  rets (fst run_perm) = [ZRWrite 250 None; ZRWrite 350 None; ZRClose (Some (ESrc 9));
                         ZRClose (Some (ESrc 9)); ZRWrite 0 (Some (ESrc 9))] /\
  sizes (zsink (snd run_perm)) = [504%nat; 0%nat; 0%nat] /\
  prefix_ofb (wsink_data (zsink (snd run_perm))) good1 = true.
Proof. vm_compute. repeat split. Qed.

(* no failure: closed, the sink holds SpecW.bzip2_encode of the data (theorem
   closed_stream_is_bzip2_encode; here by computation) *)
Example run_good_closed :
  z_err (snd (zrun (znew 1 (new_sink [] SAccept)) ops1)) = Some EClosed /\
  good1 = bzip2_encode 1 data600 /\
  rets (fst (zrun (znew 1 (new_sink [] SAccept)) ops1)) =
    [ZRWrite 250 None; ZRWrite 350 None; ZRClose None; ZRClose None; ZRWrite 0 (Some EClosed)].
Proof. vm_compute. repeat split. Qed.

(* ---- theorem 6 is not vacuous: a prefix.Writer.Init that forgets cntBuf ---------------------- *)
Definition pw_init_bad (p : pwr) (s : wsink) (big : bool) : pwr :=
  mkPwr s big 0 0 (repeat 0 512) (w_cnt p) 0.
Definition zreset_bad (st : bzw) (s : wsink) : bzw :=
  mkBzw 0 0 (pw_init_bad (z_wr st) s true) None (z_level st) false 0 0 rle_init.

Definition ops2 : list zop := [ZWrite [104; 105]; ZClose].
(* the failed Writer of run_once (404 - 0 bytes were accepted by the last call, so cntBuf is 0
   there; take the permanent failure instead: cntBuf stays 504) is Reset onto a good sink *)
Example reset_after_failure_as_new :
  fst (zrun (zreset (snd run_perm) (new_sink [] SAccept)) ops2) =
  fst (zrun (znew 1 (new_sink [] SAccept)) ops2).
Proof. rewrite reset_behaves_as_new. reflexivity. Qed.

Example reset_with_stale_cntBuf_differs :
  w_cnt (z_wr (snd run_perm)) = 504 /\
  map o_out (fst (zrun (zreset_bad (snd run_perm) (new_sink [] SAccept)) ops2)) <>
  map o_out (fst (zrun (znew 1 (new_sink [] SAccept)) ops2)).
Proof. split; [vm_compute; reflexivity|]. vm_compute. discriminate. Qed.
