(* Abstract notions for bzip2's handleDegenerateCodes (model: Bzip2/Degenerate.v):

     [xwalk]          the exploration of ALL bit strings against the decoding
                      tables of the libbzip2 port ([hrow]s of Bzip2/SpecR.v):
                      the code words met, and an invalid marker at every
                      shortest prefix from which no code word can be reached
     [gstat]          the status GET_MTF_VAL reports on a finite bit string
     [complete_code]  what prefix.Decoder.Init requires of a code list
     [go_outcome]     decoding one symbol with a code list, as reader.go sees it
     [c_outcome]      decoding one symbol with the libbzip2 port

   Definitions only; the theorems are in Bzip2/DegenerateWalk.v,
   DegenerateTables.v, DegenerateRefine.v and DegenerateThms.v. *)
From Coq Require Import Sorted.
From V Require Import Base.Prelude Base.Prog Flate.Spec Bzip2.Common Bzip2.SpecR Prefix.Code
  Bzip2.Degenerate.

Local Open Scope N_scope.

(* the symbol GET_MTF_VAL returns for the code value z accepted by row r
   (None: one of the two impossible error exits of the C macro) *)
Definition row_sym (perm : nmap N) (r : hrow) (z : N) : option N :=
  if z <? r_first r then None else nm_get perm (z - r_first r + r_cum r).

(* an explored code word: its bits in reading order, its symbol
   (None: invalid marker) *)
Definition emit := (list bool * option N)%type.

(* exploreCode seen from the tables: [rows] = rows of the lengths not yet
   reached, z = value of the bits read so far, p = those bits.
   Result: does any code word start with p; the code words and markers below
   p, in the order exploreCode meets them. *)
Fixpoint xwalk (rows : list hrow) (perm : nmap N) (z : N) (p : list bool) : bool * list emit :=
  match rows with
  | [] => (false, [])
  | r :: rest =>
    let child (b : bool) : bool * list emit :=
      let z' := 2 * z + N.b2n b in
      if z' <? r_limit1 r then (true, [(p ++ [b], row_sym perm r z')])
      else xwalk rest perm z' (p ++ [b]) in
    let r0 := child false in
    let r1 := child true in
    (fst r0 || fst r1,
     snd r0 ++ snd r1 ++
       (if negb (fst r0) && fst r1 then [(p ++ [false], None)]
        else if negb (fst r1) && fst r0 then [(p ++ [true], None)] else []))
  end.

(* the status getSymbol reports for the bit string p (walk from [rows], z) *)
Inductive gstatus := GOkay (s : option N) | GNeedBits | GMaxBits.

Fixpoint gstat (rows : list hrow) (perm : nmap N) (z : N) (p : list bool) {struct p} : gstatus :=
  match p with
  | [] => GNeedBits
  | b :: p' =>
    match rows with
    | [] => GMaxBits
    | r :: rest =>
      let z' := 2 * z + N.b2n b in
      if z' <? r_limit1 r then GOkay (row_sym perm r z') else gstat rest perm z' p'
    end
  end.

(* ---- the dead values of SpecR.with_dead ---------------------------------------- *)
Definition dnext (rows : list hrow) : N :=
  match rows with [] => 0 | r :: _ => r_dead r end.

Fixpoint dead_ok (rows : list hrow) : Prop :=
  match rows with
  | [] => True
  | r :: rest => r_dead r = N.max (r_limit1 r) ((dnext rest + 1) / 2) /\ dead_ok rest
  end.

(* ---- a source state advanced by k bits ------------------------------------------ *)
Definition adv (st : ast) (k : nat) : ast :=
  mkAst (skipn k (a_in st)) (a_pos st + N.of_nat k) (a_out st) (a_len st).

(* ---- what prefix.Decoder.Init needs ---------------------------------------------
   (its debug-mode checks: sorted by symbol, checkLengths = Kraft sum one,
   checkPrefixes = no code is a prefix of another; and at least two codes,
   a single code of non-zero length makes Init panic "invalid codes").
   This is [valid_code] of Prefix/GenPrefixesThms.v without canonicity. *)
Record complete_code (out : list pcode) : Prop := {
  cc_two       : (2 <= length out)%nat;
  cc_sorted    : StronglySorted N.lt (map c_sym out);
  cc_len       : forall e, In e out -> 1 <= c_len e <= maxPrefixBits;
  cc_val_lt    : forall e, In e out -> c_val e < 2 ^ c_len e;
  cc_kraft     : complete (map fst out) = true;
  cc_prefix_free : forall e1 e2, In e1 out -> In e2 out -> e1 <> e2 -> c_len e2 <= c_len e1 ->
                   c_val e1 mod 2 ^ c_len e2 <> c_val e2;
  cc_complete  : forall v, exists e, In e out /\ v mod 2 ^ c_len e = c_val e;
  cc_unique    : forall v e1 e2, In e1 out -> In e2 out ->
                   v mod 2 ^ c_len e1 = c_val e1 -> v mod 2 ^ c_len e2 = c_val e2 -> e1 = e2
}.

(* ---- one symbol, both ways --------------------------------------------------------
   reader.go: the table decoder returns the first code that starts the input;
   a symbol >= numSyms is "invalid prefix symbol" (corrupted); running out of
   bits is an unexpected EOF. *)
Definition go_outcome (n : N) (codes : list pcode) (st : ast) : result N :=
  match decode_with_codes codes (a_in st) with
  | Some (s, k) =>
    if s <? n then Done s (adv st (N.to_nat k)) else Fail ECorrupted (adv st (N.to_nat k))
  | None => Fail EUEOF (adv st (length (a_in st)))
  end.

Definition c_outcome (lens : list N) (st : ast) : result N :=
  run (read_symbol (mk_table lens)) st.

(* the domain of the caller: numSyms in 3..258 (here 2..258), lengths 1..20 *)
Definition lens_ok (lens : list N) : Prop :=
  (2 <= length lens <= 258)%nat /\ Forall (fun l => 1 <= l <= maxPrefixBits) lens.
