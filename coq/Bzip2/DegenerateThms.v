(* bzip2/prefix.go handleDegenerateCodes (model Bzip2/Degenerate.v) against the
   libbzip2 port of Bzip2/SpecR.v, for EVERY vector of 2..258 code lengths in 1..20
   ([lens_ok]):

     handle_degenerate_final     the result is the exploration of the libbzip2 rows
     handle_degenerate_complete  (a) no panic, no fuel exhaustion; the result is a
                                 complete prefix-free code sorted by symbol
                                 ([complete_code]: what prefix.Decoder.Init needs)
     handle_degenerate_equiv     (b) decoding one symbol with the result = GET_MTF_VAL
                                 on the tables of BZ2_hbCreateDecodeTables, same symbol,
                                 same number of bits, same failure and same position of
                                 the failure
   (c) and the dispatch of ReadPrefixCodes are in DegenerateCanon.v; examples and
   the int32 bounds in DegenerateCheck.v. *)
From Coq Require Import Sorted FMapPositive.
From V Require Import Base.Prelude Base.Prog Base.ProgThms Flate.Spec Flate.Canon
  Prefix.GenPrefixesThms Bzip2.Common Bzip2.SpecR Bzip2.SortLemmas Bzip2.MtfRle2 Prefix.Code
  Bzip2.Degenerate Bzip2.DegenerateSpec Bzip2.DegenerateWalk Bzip2.DegenerateTables
  Bzip2.DegenerateRefine Bzip2.DegenerateAssemble.

Local Open Scope N_scope.

(* ---- more about the exploration ------------------------------------------------------------ *)
Lemma xwalk_prefix perm rows : forall z p bits o,
  In (bits, o) (snd (xwalk rows perm z p)) -> exists q, bits = p ++ q /\ q <> [].
Proof.
  induction rows as [|r rest IH]; intros z p bits o Hin; [contradiction|].
  apply xwalk_in in Hin. destruct Hin as [[b Hin]|[b (He & _)]].
  - unfold xchild in Hin. cbv zeta in Hin. destruct (2 * z + N.b2n b <? r_limit1 r).
    + destruct Hin as [Hin|[]]. inversion Hin; subst. exists [b]. split; [reflexivity | discriminate].
    + apply IH in Hin. destruct Hin as (q & -> & _). exists (b :: q).
      split; [rewrite <- app_assoc; reflexivity | discriminate].
  - inversion He; subst. exists [b]. split; [reflexivity | discriminate].
Qed.

Lemma xchild_prefix perm r rest z p b bits o :
  In (bits, o) (snd (xchild perm r rest z p b)) -> exists q, bits = p ++ b :: q.
Proof.
  unfold xchild. cbv zeta. destruct (2 * z + N.b2n b <? r_limit1 r).
  - intros [H|[]]. inversion H; subst. exists []. reflexivity.
  - intros H. apply xwalk_prefix in H. destruct H as (q & -> & _). exists q.
    rewrite <- app_assoc. reflexivity.
Qed.

Lemma xwalk_nodup perm rows : forall z p, NoDup (map fst (snd (xwalk rows perm z p))).
Proof.
  induction rows as [|r rest IH]; intros z p; [constructor|].
  rewrite xwalk_cons. cbv zeta. cbn [snd]. rewrite !map_app.
  set (c0 := xchild perm r rest z p false). set (c1 := xchild perm r rest z p true).
  assert (Hc : forall b, NoDup (map fst (snd (xchild perm r rest z p b)))).
  { intros b. unfold xchild. cbv zeta. destruct (2 * z + N.b2n b <? r_limit1 r).
    - cbn. constructor; [intros []|constructor].
    - apply IH. }
  assert (Hnil : forall b, fst (xchild perm r rest z p b) = false -> snd (xchild perm r rest z p b) = []).
  { intros b. unfold xchild. cbv zeta. destruct (2 * z + N.b2n b <? r_limit1 r); [discriminate|].
    apply xwalk_false_nil. }
  assert (Hdiff : forall x, In x (map fst (snd c0)) -> In x (map fst (snd c1)) -> False).
  { intros x H0 H1. apply in_map_iff in H0. destruct H0 as ([b0 o0] & <- & H0).
    apply in_map_iff in H1. destruct H1 as ([b1 o1] & E & H1). cbn [fst] in E. subst b1.
    apply xchild_prefix in H0. apply xchild_prefix in H1. destruct H0 as (q0 & ->), H1 as (q1 & H1).
    apply app_inv_head in H1. discriminate. }
  pose proof (Hnil false) as Hn0. pose proof (Hnil true) as Hn1. fold c0 in Hn0. fold c1 in Hn1.
  pose proof (Hc false) as Hc0. pose proof (Hc true) as Hc1. fold c0 in Hc0. fold c1 in Hc1.
  destruct (fst c0) eqn:E0, (fst c1) eqn:E1; cbn [negb andb map app].
  - rewrite app_nil_r. apply NoDup_app_intro; [exact Hc0 | exact Hc1 | exact Hdiff].
  - rewrite (Hn1 eq_refl). cbn [map app]. apply NoDup_app_intro; [exact Hc0 | |].
    + constructor; [intros []|constructor].
    + intros x H0 [<-|[]]. apply in_map_iff in H0. destruct H0 as ([b0 o0] & E & H0). cbn [fst] in E.
      subst b0. apply xchild_prefix in H0. destruct H0 as (q & H0). apply app_inv_head in H0. discriminate.
  - rewrite (Hn0 eq_refl). cbn [map app]. apply NoDup_app_intro; [exact Hc1 | |].
    + constructor; [intros []|constructor].
    + intros x H1 [<-|[]]. apply in_map_iff in H1. destruct H1 as ([b1 o1] & E & H1). cbn [fst] in E.
      subst b1. apply xchild_prefix in H1. destruct H1 as (q & H1). apply app_inv_head in H1. discriminate.
  - rewrite (Hn0 eq_refl), (Hn1 eq_refl). constructor.
Qed.

(* a valid explored word is accepted by the row of its length *)
Lemma xwalk_some perm rows : forall z p bits s, z = mval p ->
  In (bits, Some s) (snd (xwalk rows perm z p)) ->
  exists i r, nth_error rows i = Some r /\ length bits = (length p + S i)%nat /\
              mval bits < r_limit1 r /\ row_sym perm r (mval bits) = Some s.
Proof.
  induction rows as [|r rest IH]; intros z p bits s Hz Hin; [contradiction|].
  apply xwalk_in in Hin. destruct Hin as [[b Hin]|[b (He & _)]]; [|discriminate].
  unfold xchild in Hin. cbv zeta in Hin.
  destruct (2 * z + N.b2n b <? r_limit1 r) eqn:E.
  - destruct Hin as [Hin|[]].
    pose proof (f_equal fst Hin) as H1. pose proof (f_equal snd Hin) as H2.
    cbn [fst snd] in H1, H2. subst bits. exists 0%nat, r.
    rewrite mval_snoc, <- Hz. split; [reflexivity|]. split; [rewrite app_length; reflexivity|].
    split; [lia | exact H2].
  - apply IH in Hin; [|rewrite mval_snoc, Hz; reflexivity].
    destruct Hin as (i & r' & H1 & H2 & H3 & H4). exists (S i), r'. split; [exact H1|].
    split; [rewrite H2, app_length; cbn [length]; lia|]. split; assumption.
Qed.

(* a live row makes the walk live *)
Lemma dnext_pos rows : dead_ok rows -> (exists r, In r rows /\ 0 < r_limit1 r) -> 0 < dnext rows.
Proof.
  induction rows as [|r rest IH]; intros Hok (r0 & Hin & Hpos); [contradiction|].
  destruct Hok as [Hd Hok]. cbn [dnext]. rewrite Hd. destruct Hin as [->|Hin]; [lia|].
  assert (H : 0 < dnext rest) by (apply IH; [exact Hok | exists r0; auto]). lia.
Qed.

Lemma count_len_pos lens l : In l lens -> 0 < count_len lens l.
Proof.
  induction lens as [|x lens IH]; intros H; [contradiction|]. rewrite count_len_cons.
  destruct H as [->|H]; [rewrite N.eqb_refl; lia|]. specialize (IH H). lia.
Qed.

(* ---- generic: pairwise distinct symbols ------------------------------------------------------ *)
Lemma some_syms_nodup (es : list emit) :
  NoDup (map fst es) ->
  (forall b1 b2 s, In (b1, Some s) es -> In (b2, Some s) es -> b1 = b2) ->
  NoDup (some_syms es).
Proof.
  induction es as [|[bits o] es IH]; intros Hnd Hu; [constructor|].
  cbn [map fst] in Hnd. inversion Hnd as [|? ? Hnin Hnd']; subst.
  unfold some_syms. cbn [flat_map snd]. fold (some_syms es).
  assert (IH' : NoDup (some_syms es)).
  { apply IH; [exact Hnd'|]. intros b1 b2 s H1 H2. apply (Hu b1 b2 s); right; assumption. }
  destruct o as [s|]; [|exact IH']. cbn [app]. constructor; [|exact IH'].
  intros Hin. unfold some_syms in Hin. apply in_flat_map in Hin. destruct Hin as ([b' o'] & Hin & Hs).
  cbn [snd] in Hs. destruct o' as [s'|]; [|contradiction]. destruct Hs as [->|[]].
  assert (bits = b') by (apply (Hu bits b' s); [left; reflexivity | right; exact Hin]). subst b'.
  apply Hnin. apply in_map_iff. exists (bits, Some s). split; [reflexivity | exact Hin].
Qed.

(* ---- the domain ------------------------------------------------------------------------------------ *)
Lemma lens_ok_facts lens : lens_ok lens ->
  lens <> [] /\ (length lens <= 258)%nat /\ len20 lens /\ (forall l, In l lens -> 1 <= l).
Proof.
  intros [[H2 H258] Hf]. rewrite Forall_forall in Hf. unfold maxPrefixBits in Hf.
  split; [intros ->; cbn in H2; lia|]. split; [exact H258|]. split.
  - intros l Hl. apply Hf, Hl.
  - intros l Hl. apply Hf in Hl. lia.
Qed.

Section Main.
  Variable lens : list N.
  Hypothesis Hok : lens_ok lens.

  Let rows := t_rows (mk_table lens).
  Let perm := t_perm (mk_table lens).
  Let P := perm_list lens.
  Let E0 := snd (xwalk rows perm 0 []).
  Let n := N.of_nat (length lens).

  Let Hne : lens <> [] := proj1 (lens_ok_facts lens Hok).
  Let Hn : (length lens <= 258)%nat := proj1 (proj2 (lens_ok_facts lens Hok)).
  Let H20 : len20 lens := proj1 (proj2 (proj2 (lens_ok_facts lens Hok))).
  Let Hpos : forall l, In l lens -> 1 <= l := proj2 (proj2 (proj2 (lens_ok_facts lens Hok))).

  Lemma rows_dead_ok : dead_ok rows.
  Proof. apply mk_table_dead_ok. Qed.

  Lemma rows_length_le : (length rows <= 20)%nat.
  Proof.
    destruct (mk_table_rows_ok lens Hpos) as [Hl _]. fold rows in Hl. rewrite Hl.
    destruct (scan_minmax_ok lens Hne H20) as (mn & _ & _ & Hmx & _). lia.
  Qed.

  Lemma root_live : fst (xwalk rows perm 0 []) = true.
  Proof.
    destruct (fst (xwalk rows perm 0 [])) eqn:E; [reflexivity|]. exfalso.
    apply (xwalk_dead perm rows rows_dead_ok) in E.
    assert (Hp : 0 < dnext rows); [|lia].
    apply dnext_pos; [apply rows_dead_ok|].
    destruct (scan_minmax_ok lens Hne H20) as (l0 & _ & Hl0 & _ & Hin & _).
    destruct (mk_table_rows_ok lens Hpos) as [Hl Hr]. fold rows in Hl, Hr.
    destruct (nth_error rows (N.to_nat l0 - 1)) as [r|] eqn:Er; [|apply nth_error_None in Er; lia].
    exists r. split; [apply (nth_error_In _ _ Er)|].
    destruct (Hr _ _ Er) as (H1 & _). rewrite H1. cbn [L1n].
    replace (N.of_nat (S (N.to_nat l0 - 1))) with l0 by lia.
    pose proof (count_len_pos lens l0 Hin). lia.
  Qed.

  (* the position in perm_list of the symbol of a valid explored word *)
  Lemma emit_index bits s : In (bits, Some s) E0 ->
    exists i, length bits = S i /\
      2 * L1n lens i <= mval bits < L1n lens (S i) /\
      nth_error P (N.to_nat (mval bits - 2 * L1n lens i + Cn lens (S i))) = Some s.
  Proof.
    intros Hin. apply (xwalk_some perm rows 0 [] bits s eq_refl) in Hin.
    destruct Hin as (i & r & Hr & Hl & Hlt & Hs). exists i. split; [exact Hl|].
    destruct (mk_table_rows_ok lens Hpos) as [_ Hrows]. fold rows in Hrows.
    destruct (Hrows i r Hr) as (H1 & H2 & H3).
    unfold row_sym in Hs. rewrite H2, H3 in Hs.
    destruct (mval bits <? 2 * L1n lens i) eqn:E; [discriminate|].
    split; [lia|]. unfold perm, mk_table in Hs. cbn [t_perm] in Hs. rewrite nm_of_list_get in Hs. exact Hs.
  Qed.

  Lemma Cn_mono a b : (a <= b)%nat -> Cn lens a <= Cn lens b.
  Proof.
    intros H. pose proof (Cm_mono lens (N.of_nat a) (N.of_nat b) ltac:(lia)) as Hm.
    unfold Cm in Hm. rewrite !Nat2N.id in Hm. exact Hm.
  Qed.

  Lemma E0_ok : emits_ok E0.
  Proof.
    constructor.
    - intros bits s Hin. destruct (emit_index bits s Hin) as (i & _ & _ & Hp).
      apply nth_error_In in Hp. apply perm_list_In in Hp. lia.
    - apply xwalk_nodup.
    - apply some_syms_nodup; [apply xwalk_nodup|].
      intros b1 b2 s H1 H2.
      destruct (emit_index b1 s H1) as (i1 & L1' & R1 & P1).
      destruct (emit_index b2 s H2) as (i2 & L2' & R2 & P2).
      assert (Hidx : N.to_nat (mval b1 - 2 * L1n lens i1 + Cn lens (S i1)) =
                     N.to_nat (mval b2 - 2 * L1n lens i2 + Cn lens (S i2))).
      { apply (proj1 (NoDup_nth_error P) (perm_list_NoDup lens)).
        - apply nth_error_Some. congruence.
        - congruence. }
      assert (Hi : i1 = i2).
      { assert (HC : forall i, Cn lens (S (S i)) = Cn lens (S i) + count_len lens (N.of_nat (S i)))
          by reflexivity.
        assert (HL : forall i, L1n lens (S i) = 2 * L1n lens i + count_len lens (N.of_nat (S i)))
          by reflexivity.
        pose proof (HC i1) as HC1. pose proof (HC i2) as HC2.
        pose proof (HL i1) as HL1. pose proof (HL i2) as HL2.
        destruct (Nat.lt_trichotomy i1 i2) as [Hlt|[Heq|Hgt]]; [exfalso | exact Heq | exfalso].
        - pose proof (Cn_mono (S (S i1)) (S i2) ltac:(lia)) as Hm. lia.
        - pose proof (Cn_mono (S (S i2)) (S i1) ltac:(lia)) as Hm. lia. }
      subst i2. apply mval_inj; [lia | lia].
    - intros bits o Hin. apply xwalk_prefix in Hin. destruct Hin as (q & -> & Hq). exact Hq.
  Qed.

  (* ---- the model computes the exploration -------------------------------------------------------- *)
  Theorem handle_degenerate_final : handle_degenerate lens = DOk (final E0).
  Proof.
    unfold handle_degenerate.
    assert (Hg : existsb (fun l => 4294967295 <=? l) lens = false).
    { destruct (existsb (fun l => 4294967295 <=? l) lens) eqn:E; [|reflexivity].
      apply existsb_exists in E. destruct E as (l & Hl & E). specialize (H20 l Hl). lia. }
    rewrite Hg.
    destruct (create_tables_ok lens Hne Hn H20) as (T & HT & HTok). rewrite HT.
    pose proof (explore_spec lens T Hn Hpos HTok rows explore_fuel 0 [] (repeat (0, 0, 0) (N.to_nat maxNumSyms)))
      as Hx.
    cbn [length bits_val] in Hx. change (N.of_nat 0) with 0 in Hx. unfold rows, perm in Hx |- *.
    rewrite Hx.
    - reflexivity.
    - pose proof rows_length_le. unfold explore_fuel, rows in *. lia.
    - pose proof rows_length_le. unfold rows in *. lia.
    - intros q. reflexivity.
    - rewrite repeat_length. unfold maxNumSyms. lia.
  Qed.

  (* ---- one symbol: the result decodes like the libbzip2 tables ----------------------------------- *)
  Lemma decode_some cs bs s k : decode_with_codes cs bs = Some (s, k) ->
    exists c, In c cs /\ is_prefix_b (code_bits c) bs = true /\ s = c_sym c /\ k = c_len c.
  Proof.
    induction cs as [|c cs IH]; intros H; [discriminate|]. cbn [decode_with_codes] in H.
    destruct (is_prefix_b (code_bits c) bs) eqn:E.
    - inversion H; subst. exists c. repeat split; [left; reflexivity | exact E].
    - destruct (IH H) as (c' & H1 & H2). exists c'. split; [right; exact H1 | exact H2].
  Qed.

  Lemma decode_none cs bs : decode_with_codes cs bs = None ->
    forall c, In c cs -> is_prefix_b (code_bits c) bs = false.
  Proof.
    induction cs as [|c cs IH]; intros H c' Hc'; [contradiction|]. cbn [decode_with_codes] in H.
    destruct (is_prefix_b (code_bits c) bs) eqn:E; [discriminate|].
    destruct Hc' as [<-|Hc']; [exact E | apply IH; assumption].
  Qed.

  Lemma is_prefix_b_iff (a b : list bool) : is_prefix_b a b = true <-> exists t, b = a ++ t.
  Proof.
    revert b. induction a as [|x a IH]; intros b; cbn [is_prefix_b].
    - split; [intros _; exists b; reflexivity | reflexivity].
    - destruct b as [|y b].
      + split; [discriminate | intros [t Ht]; discriminate].
      + rewrite andb_true_iff, IH. split.
        * intros [Hxy [t ->]]. apply eqb_prop in Hxy. subst y. exists t. reflexivity.
        * intros [t Ht]. inversion Ht; subst. split; [apply eqb_reflx | exists t; reflexivity].
  Qed.

  Theorem final_equiv st : go_outcome n (final E0) st = c_outcome lens st.
  Proof.
    unfold go_outcome, c_outcome, read_symbol. fold rows perm.
    destruct (decode_with_codes (final E0) (a_in st)) as [[s k]|] eqn:Ed.
    - (* some entry starts the input: the walk is decided exactly there *)
      destruct (decode_some _ _ _ _ Ed) as (c & Hc & Hpre & -> & ->).
      destruct (final_sound E0 c E0_ok Hc) as ([bits o] & He & Hm).
      pose proof (matches_bits c _ Hm) as Hb. cbn [fst] in Hb. rewrite Hb in Hpre.
      apply is_prefix_b_iff in Hpre. destruct Hpre as [t Ht].
      destruct (xwalk_sound perm rows rows_dead_ok 0 [] bits o He) as (q & Hq & _ & Hrun).
      cbn [app] in Hq. subst q. rewrite (Hrun st t Ht).
      destruct Hm as (Hl & _ & Ho). cbn [fst snd] in Hl, Ho. rewrite Hl, Nat2N.id.
      destruct o as [s|]; cbn [decided].
      + rewrite Ho. destruct (emit_index bits s He) as (i & _ & _ & Hp).
        apply nth_error_In in Hp. apply perm_list_In in Hp. fold n in Hp.
        replace (s <? n) with true by lia. reflexivity.
      + replace (c_sym c <? n) with false; [reflexivity|]. unfold n. lia.
    - (* no entry starts the input: the walk runs out of bits *)
      destruct (xwalk_complete perm rows rows_dead_ok 0 [] root_live st)
        as [(k & o & Hk & Hin & Hrun)|[_ Hrun]]; [exfalso | symmetry; exact Hrun].
      cbn [app] in Hin.
      destruct (final_has E0 _ E0_ok Hin) as (c & Hc & Hm).
      pose proof (decode_none _ _ Ed c Hc) as Hf.
      rewrite (matches_bits c _ Hm) in Hf. cbn [fst] in Hf.
      assert (Ht : is_prefix_b (firstn k (a_in st)) (a_in st) = true).
      { apply is_prefix_b_iff. exists (skipn k (a_in st)). symmetry. apply firstn_skipn. }
      congruence.
  Qed.

  (* (b) *)
  Theorem handle_degenerate_equiv out :
    handle_degenerate lens = DOk out ->
    forall st, go_outcome n out st = c_outcome lens st.
  Proof.
    rewrite handle_degenerate_final. intros H st. inversion H; subst out. apply final_equiv.
  Qed.

  (* ---- (a): the result is a complete prefix code ---------------------------------------------------- *)
  Lemma final_emit c : In c (final E0) ->
    exists bits o, In (bits, o) E0 /\ matches c (bits, o) /\ code_bits c = bits /\
                   (1 <= length bits <= 20)%nat.
  Proof.
    intros Hc. destruct (final_sound E0 c E0_ok Hc) as ([bits o] & He & Hm).
    exists bits, o. split; [exact He|]. split; [exact Hm|]. split; [apply (matches_bits c _ Hm)|].
    pose proof (xwalk_len perm rows 0 [] bits o He) as Hl. cbn [length] in Hl.
    pose proof rows_length_le. lia.
  Qed.

  (* v starts, in reading order, with the code c  <->  the bits of c start val_bits 21 v *)
  Lemma code_match c bits o v : matches c (bits, o) -> (length bits <= 21)%nat ->
    (v mod 2 ^ c_len c = c_val c <-> prefix_of bits (val_bits 21 v)).
  Proof.
    intros (Hl & Hv & _) Hb. cbn [fst] in Hl, Hv. rewrite Hl, Hv.
    rewrite <- (bits_val_prefix bits (val_bits 21 v)) by (rewrite val_bits_length; exact Hb).
    rewrite bits_val_val_bits. rewrite mod_pow2_mod by lia. reflexivity.
  Qed.

  Lemma decided_pos o1 o2 st k1 k2 : decided o1 (adv st k1) = decided o2 (adv st k2) -> k1 = k2.
  Proof.
    intros H.
    assert (Hp : res_pos (decided o1 (adv st k1)) = res_pos (decided o2 (adv st k2)))
      by (rewrite H; reflexivity).
    destruct o1, o2; cbn [decided res_pos res_state adv a_pos] in Hp; lia.
  Qed.

  Lemma final_unique v e1 e2 : In e1 (final E0) -> In e2 (final E0) ->
    v mod 2 ^ c_len e1 = c_val e1 -> v mod 2 ^ c_len e2 = c_val e2 -> e1 = e2.
  Proof.
    intros H1 H2 V1 V2.
    destruct (final_emit e1 H1) as (b1 & o1 & I1 & M1 & _ & L1').
    destruct (final_emit e2 H2) as (b2 & o2 & I2 & M2 & _ & L2').
    apply (code_match e1 b1 o1 v M1 ltac:(lia)) in V1. apply (code_match e2 b2 o2 v M2 ltac:(lia)) in V2.
    destruct V1 as [t1 T1], V2 as [t2 T2].
    set (st := ast_init (val_bits 21 v)).
    destruct (xwalk_sound perm rows rows_dead_ok 0 [] b1 o1 I1) as (q1 & Q1 & _ & R1).
    destruct (xwalk_sound perm rows rows_dead_ok 0 [] b2 o2 I2) as (q2 & Q2 & _ & R2).
    cbn [app] in Q1, Q2. subst q1 q2.
    specialize (R1 st t1 T1). specialize (R2 st t2 T2). rewrite R1 in R2.
    apply decided_pos in R2.
    assert (Hb : b1 = b2).
    { rewrite T2 in T1. clear -T1 R2. revert b2 T1 R2. induction b1 as [|x b1 IH]; intros b2 T1 R2.
      - destruct b2; [reflexivity | discriminate].
      - destruct b2 as [|y b2]; [discriminate|]. cbn [app] in T1. inversion T1; subst.
        f_equal. apply (IH b2); [assumption | cbn [length] in R2; lia]. }
    subst b2. apply (final_inj E0 e1 e2 E0_ok H1 H2).
    - destruct M1 as (A1 & _), M2 as (A2 & _). cbn [fst] in A1, A2. congruence.
    - destruct M1 as (_ & A1 & _), M2 as (_ & A2 & _). cbn [fst] in A1, A2. congruence.
  Qed.

  Lemma max_len_le (l : list (N * N)) m : (forall e, In e l -> snd e <= m) -> max_len l <= m.
  Proof.
    induction l as [|[s x] l IH]; intros H; [cbn; lia|]. rewrite max_len_cons.
    pose proof (H (s, x) (or_introl eq_refl)) as H0. cbn [snd] in H0.
    assert (max_len l <= m) by (apply IH; intros e He; apply H; right; exact He). lia.
  Qed.

  Theorem final_complete : complete_code (final E0).
  Proof.
    assert (Hcomplete : forall v, exists e, In e (final E0) /\ v mod 2 ^ c_len e = c_val e).
    { intros v. set (st := ast_init (val_bits 21 v)).
      destruct (xwalk_complete perm rows rows_dead_ok 0 [] root_live st)
        as [(k & o & Hk & Hin & _)|[Hlen _]].
      - cbn [app] in Hin. destruct (final_has E0 _ E0_ok Hin) as (c & Hc & Hm). exists c.
        split; [exact Hc|]. apply (code_match c _ o v Hm).
        + rewrite firstn_length. unfold st, ast_init. cbn [a_in]. rewrite val_bits_length. lia.
        + exists (skipn k (a_in st)). unfold st at 1, ast_init. cbn [a_in]. symmetry. apply firstn_skipn.
      - exfalso. unfold st, ast_init in Hlen. cbn [a_in] in Hlen. rewrite val_bits_length in Hlen.
        pose proof rows_length_le. lia. }
    assert (Hlen : forall e, In e (final E0) -> 1 <= c_len e <= maxPrefixBits).
    { intros e He. destruct (final_emit e He) as (b & o & _ & (Hl & _) & _ & Hb). cbn [fst] in Hl.
      unfold maxPrefixBits. lia. }
    assert (Hval : forall e, In e (final E0) -> c_val e < 2 ^ c_len e).
    { intros e He. destruct (final_emit e He) as (b & o & _ & (Hl & Hv & _) & _). cbn [fst] in Hl, Hv.
      rewrite Hl, Hv. apply bits_val_bound. }
    constructor.
    - (* at least two codes: all zeros and all ones start with different codes *)
      destruct (Hcomplete 0) as (e1 & He1 & V1). destruct (Hcomplete (N.ones 21)) as (e2 & He2 & V2).
      assert (Hne12 : e1 <> e2).
      { intros ->. pose proof (Hlen e2 He2) as Hl. unfold maxPrefixBits in Hl.
        rewrite N.ones_mod_pow2 in V2 by lia. rewrite N.mod_0_l in V1 by (apply N.pow_nonzero; lia).
        rewrite <- V1 in V2. rewrite N.ones_equiv in V2.
        assert (2 <= 2 ^ c_len e2).
        { change 2 with (2 ^ 1) at 1. apply N.pow_le_mono_r; lia. }
        lia. }
      destruct (final E0) as [|x [|y l]]; cbn [length]; try lia.
      + contradiction.
      + exfalso. destruct He1 as [<-|[]], He2 as [<-|[]]. apply Hne12. reflexivity.
    - apply final_sorted, E0_ok.
    - exact Hlen.
    - exact Hval.
    - apply (complete_of_kraft 20).
      + apply max_len_le. intros e He. apply in_map_iff in He. destruct He as (c & <- & Hc).
        pose proof (Hlen c Hc) as Hl. unfold maxPrefixBits, c_len in Hl. lia.
      + rewrite (final_kraft 20 E0 E0_ok). unfold E0.
        rewrite (xwalk_kraft perm rows 0 [] 20) by (cbn [length]; pose proof rows_length_le; lia).
        rewrite root_live. cbn [length]. reflexivity.
    - intros e1 e2 H1 H2 Hne12 Hl Heq. apply Hne12.
      apply (final_unique (c_val e1) e1 e2 H1 H2); [|exact Heq].
      apply N.mod_small. apply Hval, H1.
    - exact Hcomplete.
    - intros v e1 e2 H1 H2. apply final_unique; assumption.
  Qed.

  Theorem handle_degenerate_complete :
    exists out, handle_degenerate lens = DOk out /\ complete_code out.
  Proof. exists (final E0). split; [apply handle_degenerate_final | apply final_complete]. Qed.

End Main.

(* (b) spelled out: the same symbol after the same number of bits, the same kind of
   failure after the same number of bits *)
Corollary handle_degenerate_symbol_iff lens out st s k :
  lens_ok lens -> handle_degenerate lens = DOk out ->
  (decode_with_codes out (a_in st) = Some (s, k) /\ s < N.of_nat (length lens) <->
   c_outcome lens st = Done s (adv st (N.to_nat k))).
Proof.
  intros Hok Hd. rewrite <- (handle_degenerate_equiv lens Hok out Hd st). unfold go_outcome. split.
  - intros [-> Hs]. apply N.ltb_lt in Hs. rewrite Hs. reflexivity.
  - destruct (decode_with_codes out (a_in st)) as [[s0 k0]|]; [|discriminate].
    destruct (s0 <? N.of_nat (length lens)) eqn:E; [|discriminate].
    intros H.
    assert (Hs : s0 = s) by (inversion H; reflexivity).
    assert (Hp : res_pos (Done s0 (adv st (N.to_nat k0))) = res_pos (Done s (adv st (N.to_nat k))))
      by (rewrite H; reflexivity).
    cbn [res_pos res_state adv a_pos] in Hp. subst s0.
    assert (k0 = k) by lia. subst k0. split; [reflexivity | apply N.ltb_lt, E].
Qed.

Corollary handle_degenerate_fail_iff lens out st e st' :
  lens_ok lens -> handle_degenerate lens = DOk out ->
  (c_outcome lens st = Fail e st' <->
   (exists s k, decode_with_codes out (a_in st) = Some (s, k) /\ N.of_nat (length lens) <= s /\
                e = ECorrupted /\ st' = adv st (N.to_nat k)) \/
   (decode_with_codes out (a_in st) = None /\ e = EUEOF /\ st' = adv st (length (a_in st)))).
Proof.
  intros Hok Hd. rewrite <- (handle_degenerate_equiv lens Hok out Hd st). unfold go_outcome.
  destruct (decode_with_codes out (a_in st)) as [[s0 k0]|].
  - destruct (s0 <? N.of_nat (length lens)) eqn:E.
    + split; [discriminate|]. intros [(s & k & H & Hs & _)|[H _]]; [|discriminate].
      inversion H; subst. lia.
    + split.
      * intros H. inversion H; subst. left. exists s0, k0. repeat split. lia.
      * intros [(s & k & H & _ & -> & ->)|[H _]]; [|discriminate]. inversion H; subst. reflexivity.
  - split.
    + intros H. inversion H; subst. right. repeat split.
    + intros [(s & k & H & _)|(_ & -> & ->)]; [discriminate | reflexivity].
Qed.
