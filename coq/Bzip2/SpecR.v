(* bzip2 decoder as a [prog].

   There is no written specification of the format; the reference is
   libbzip2 (1.0.6 / 1.0.8): decompress.c [BZ2_decompress], huffman.c
   [BZ2_hbCreateDecodeTables], bzlib.c [unRLE_obuf_to_output_FAST] and
   [BZ2_bzDecompress], restarted on every following stream as the bzip2 tool
   does.  This file is a port of what that code ACCEPTS and PRODUCES.

   Where libbzip2 and /repo/bzip2/reader.go reject the same inputs but notice
   the error at different moments (which only changes whether a TRUNCATED
   bad input is reported as "unexpected EOF" or as "corrupted"), the order
   of reads and checks follows reader.go; each such place is marked
   [order: Go].  The two deprecated features (bzip1 header "BZ0", the
   per-block "randomised" bit), which libbzip2 respectively rejects and
   still decodes, raise EDeprecated as reader.go does.

   Validated against libbz2 1.0.8 (acceptance and output) and against
   /repo/bzip2.Reader (acceptance, output, error class, input offset) by
   /verif/harness/cmd/bztest. *)
From Coq Require Import FMapPositive.
From V Require Import Base.Prelude Base.Prog Bzip2.Common.

(* n bits, first bit read = most significant *)
Definition rbits (n : nat) : prog N := bits_msbf n.

Definition corrupt {A : Type} : prog A := Throw ECorrupted.

(* laziness barrier for the extracted code: [Pos] takes its continuation as
   a function, so the rest of the program is only built when it runs.  The
   position itself is ignored. *)
Definition delay {A : Type} (p : unit -> prog A) : prog A := Pos (fun _ => p tt).

(* ---- symbol map: 16 bits select the used rows of 16 byte values, each
   used row is followed by 16 bits selecting its used values
   (decompress.c "Receive the mapping table"; reader.go decodeBlock) -------- *)
(* bits of a 16-bit field in the order they were read *)
Definition field_bits16 (v : N) : list bool :=
  map (fun i => N.testbit v (N.of_nat (15 - i))) (seq 0 16).

Fixpoint used_in_row (base : N) (bits : list bool) : list byte :=
  match bits with
  | [] => []
  | b :: r => if b then base :: used_in_row (base + 1) r else used_in_row (base + 1) r
  end.

Fixpoint read_map_rows (hi : list bool) (base : N) : prog (list byte) :=
  match hi with
  | [] => Ret []
  | h :: r =>
    here <- (if h then lo <- rbits 16 ;; Ret (used_in_row base (field_bits16 lo))
             else Ret []) ;;
    rest <- read_map_rows r (base + 16) ;;
    Ret (here ++ rest)
  end.

(* seqToUnseq: the byte values in use, ascending *)
Definition read_symbol_map : prog (list byte) :=
  hi <- rbits 16 ;; read_map_rows (field_bits16 hi) 0.

(* ---- selectors -----------------------------------------------------------
   Each selector is an MTF index coded in unary: j ones and a zero.
   libbzip2 fails as soon as j reaches nGroups; reader.go decodes the code
   0,10,110,1110,11110,111110,111111 first and then compares with the number
   of trees.  Both reject exactly the same bit strings.  [order: Go] *)
Fixpoint read_unary (max : nat) (acc : N) : prog N :=
  match max with
  | O => Ret acc
  | S m => Bit (fun b => if b then read_unary m (acc + 1) else Ret acc)
  end.

Definition read_sel (nGroups : N) : prog N :=
  j <- read_unary 6 0 ;;
  assert_p (j <? nGroups) ECorrupted ;;;
  Ret j.

Fixpoint read_sels (n : nat) (nGroups : N) (acc : list N) : prog (list N) :=
  match n with
  | O => Ret (fast_rev acc)
  | S n' => j <- read_sel nGroups ;; read_sels n' nGroups (j :: acc)
  end.

(* undo the MTF coding of the selectors, start list 0..nGroups-1 *)
Definition mtf_decode_sels (nGroups : N) (idxs : list N) : list N :=
  fast_rev (snd (fold_left
    (fun (st : list N * list N) j =>
       let (v, rest) := mtf_pick (N.to_nat j) (fst st) 0 in
       (v :: rest, v :: snd st))
    idxs (iota nGroups, []))).

(* ---- code lengths: 5-bit start value, then per symbol a sequence of
   "1 0" (increment) / "1 1" (decrement) closed by "0"; the current value
   must be in 1..20 every time a bit is about to be read
   (decompress.c "Now the coding tables"; prefix.go ReadPrefixCodes) -------- *)
Definition clen_body (clen : N) : prog (N + N) :=
  assert_p ((1 <=? clen) && (clen <=? maxPrefixBits)) ECorrupted ;;;
  Bit (fun more =>
    if negb more then Ret (inr clen)
    else Bit (fun down => Ret (inl (if down then clen - 1 else clen + 1)))).

Fixpoint read_lens (depth : nat) (n : nat) (clen : N) (acc : list N) : prog (list N) :=
  match n with
  | O => Ret (fast_rev acc)
  | S n' => c <- loop depth clen_body clen ;; read_lens depth n' c (c :: acc)
  end.

(* ---- decoding tables: BZ2_hbCreateDecodeTables for ANY length vector ------
   For a code length i, C keeps
       limit[i] = largest code value of length i   (vec - 1)
       base[i]  = first code value of length i - number of shorter codes
       perm     = symbols sorted by (length, symbol)
   and GET_MTF_VAL reads minLen bits, then one more bit as long as
   zvec > limit[zn], gives up when zn > 20, and returns
   perm[zvec - base[zn]].

   A row below describes one length i (from 1 up to maxLen):
       r_limit1 = limit[i] + 1  (so  zvec <= limit[i]  is  zvec < r_limit1;
                                  0 for i < minLen: no code that short)
       r_first  = (limit[i-1] + 1) * 2, the first code value of length i
       r_cum    = number of symbols with a shorter length
                  (base[i] = r_first - r_cum, possibly negative in C)
       r_dead   = the least zvec at this length from which NO continuation
                  can ever satisfy zvec <= limit (see below).
   Over- and under-subscribed length vectors are not rejected: decoding
   just proceeds with these numbers, as in C. *)
Record hrow := mkRow { r_limit1 : N; r_first : N; r_cum : N; r_dead : N }.
Record htable := mkTab { t_rows : list hrow; t_perm : nmap N }.

Definition count_len (lens : list N) (l : N) : N :=
  fold_left (fun n x => if x =? l then n + 1 else n) lens 0.

Definition max_of (lens : list N) : N := fold_left N.max lens 0.

(* (limit1, first, cum) for the lengths in [ds] (ascending, consecutive) *)
Fixpoint mk_rows (ds : list N) (lens : list N) (prev_limit1 cum : N) : list (N * N * N) :=
  match ds with
  | [] => []
  | d :: r =>
    let c := count_len lens d in
    let first := 2 * prev_limit1 in
    let l1 := first + c in
    (l1, first, cum) :: mk_rows r lens l1 (cum + c)
  end.

(* Dead values.  At length i a value zvec >= limit1[i] can still become a
   code only if for some k >= 1 (i + k <= maxLen) zvec * 2^k < limit1[i+k]
   (appending zeros is the best case).  So the least dead value is
       dead[maxLen] = limit1[maxLen]
       dead[i]      = max (limit1[i], ceil (dead[i+1] / 2)).
   In C such a value makes GET_MTF_VAL read on until zn > 20 and fail
   (limit[] is zero above maxLen and zvec >= 2 there); reader.go's
   handleDegenerateCodes puts an invalid symbol exactly at the shortest dead
   prefix, so it fails as soon as that prefix has been read.  Same accepted
   set; the moment of failure follows reader.go.  [order: Go]
   For a complete code dead[i] = 2^i: nothing is dead. *)
Fixpoint with_dead (rows : list (N * N * N)) : list hrow * N :=
  match rows with
  | [] => ([], 0)
  | (l1, first, cum) :: r =>
    let (rr, tnext) := with_dead r in
    let t := N.max l1 ((tnext + 1) / 2) in
    (mkRow l1 first cum t :: rr, t)
  end.

(* perm: symbols in (length, symbol) order *)
Definition perm_list (lens : list N) : list N :=
  let indexed := combine (iota (len_n lens)) lens in
  flat_map (fun l => map fst (filter (fun sl => snd sl =? l) indexed))
           (map (fun i => i + 1) (iota (max_of lens))).

Definition mk_table (lens : list N) : htable :=
  let ds := map (fun i => i + 1) (iota (max_of lens)) in
  mkTab (fst (with_dead (mk_rows ds lens 0 0))) (nm_of_list (perm_list lens)).

(* GET_MTF_VAL, one bit at a time.  [rows] = rows of the lengths not yet
   reached.  The two error exits of the C macro that cannot happen
   (zvec - base[zn] outside 0..257, and beyond perm) are kept as errors. *)
Fixpoint hwalk (rows : list hrow) (perm : nmap N) (zvec : N) : prog N :=
  match rows with
  | [] => corrupt                                   (* zn > maxLen *)
  | r :: rest =>
    Bit (fun b =>
      let z := 2 * zvec + N.b2n b in
      if z <? r_limit1 r then
        if z <? r_first r then corrupt
        else match nm_get perm (z - r_first r + r_cum r) with
             | Some s => Ret s
             | None => corrupt
             end
      else if r_dead r <=? z then corrupt
      else hwalk rest perm z)
  end.

Definition read_symbol (t : htable) : prog N := hwalk (t_rows t) (t_perm t) 0.

Fixpoint read_tables (depth : nat) (nGroups : nat) (alphaSize : nat) (acc : list htable)
  : prog (list htable) :=
  match nGroups with
  | O => Ret (fast_rev acc)
  | S g =>
    start <- rbits 5 ;;
    lens <- read_lens depth alphaSize start [] ;;
    read_tables depth g alphaSize (mk_table lens :: acc)
  end.

(* ---- the Huffman-coded symbols --------------------------------------------
   Groups of 50 symbols, one selector per group; running out of selectors is
   an error (GET_MTF_VAL "groupNo >= nSelectors"; this also covers
   nSelectors = 0, which C refuses right after reading the field:
   [order: Go]).  reader.go first reads ALL symbols of the block up to the
   end-of-block symbol, allowing at most level*100000 of them, and only then
   undoes RLE2/MTF; C interleaves the two.  A block within the size limit
   never has more symbols than bytes, so the accepted set is the same.
   [order: Go] *)
Definition empty_table : htable := mkTab [] nm_empty.

Fixpoint read_syms (fuel : nat) (tabs : list htable) (sels : list N) (gpos : N)
         (cur : htable) (eob maxn n : N) (acc : list N) : prog (list N) :=
  match fuel with
  | O => Throw EFuel
  | S f =>
    let step (cur : htable) (sels : list N) (gpos : N) : prog (list N) :=
      s <- read_symbol cur ;;
      if s =? eob then Ret (fast_rev acc)
      else if eob <? s then corrupt
      else if maxn <=? n then corrupt
      else read_syms f tabs sels (gpos - 1) cur eob maxn (n + 1) (s :: acc) in
    if gpos =? 0 then
      match sels with
      | [] => corrupt
      | sel :: sels' => step (nth (N.to_nat sel) tabs empty_table) sels' numBlockSyms
      end
    else step cur sels gpos
  end.

(* ---- RLE2 + MTF -------------------------------------------------------------
   Symbols 0/1 (RUNA/RUNB) spell a run length in bijective base 2: the k-th
   symbol of a run adds (sym+1) * 2^k copies of the byte currently at the
   front of the MTF list.  libbzip2 refuses a run symbol once N = 2^k has
   reached 2*1024*1024, and refuses any byte that would not fit in
   level*100000.  Symbol s >= 2 is MTF index s-1. *)
Definition flush_run (dict : list byte) (maxn es n : N) (acc : list byte)
  : option (N * list byte) :=
  if es =? 0 then Some (n, acc)
  else if maxn <? n + es then None
  else Some (n + es, repeat_acc (nat_of es) (hd 0 dict) acc).

Fixpoint mtf_rle2_decode (syms : list N) (dict : list byte) (maxn runN es n : N)
         (acc : list byte) : option (N * list byte) :=
  match syms with
  | [] => flush_run dict maxn es n acc
  | s :: r =>
    if s <? 2 then
      if 2097152 <=? runN then None
      else mtf_rle2_decode r dict maxn (2 * runN) (es + (s + 1) * runN) n acc
    else
      match flush_run dict maxn es n acc with
      | None => None
      | Some (n', acc') =>
        if maxn <=? n' then None
        else
          let (v, rest) := mtf_pick (N.to_nat (s - 1)) dict 0 in
          mtf_rle2_decode r (v :: rest) maxn 1 0 (n' + 1) (v :: acc')
      end
  end.

(* ---- inverse BWT ---------------------------------------------------------------
   C: cftab = cumulative byte counts; tt[cftab[b]++] |= i << 8 for the i-th
   byte b; tPos = tt[origPtr] >> 8; each output byte: e = tt[tPos], byte =
   e & 0xff, tPos = e >> 8.   (bwt.go Decode is the same walk.)
   Here: perm = indices of the block sorted by (byte, index); F = the block
   sorted.  The j-th output byte is F[p_j] with p_0 = origPtr and
   p_(j+1) = perm[p_j].  Buckets give (F[k], perm[k]) for k = n-1 .. 0. *)
Definition bwt_buckets (tt : list byte) : nmap (list N) :=
  fst (fold_left
    (fun (st : nmap (list N) * N) b =>
       (nm_set (fst st) b (snd st :: nm_getd (fst st) b []), snd st + 1))
    tt (nm_empty, 0)).

Definition bwt_links (tt : list byte) (n : N) : nmap (byte * N) :=
  let buckets := bwt_buckets tt in
  fst (fold_left
    (fun (st : nmap (byte * N) * N) b =>
       fold_left (fun (st2 : nmap (byte * N) * N) i =>
                    (nm_set (fst st2) (snd st2 - 1) (b, i), snd st2 - 1))
                 (nm_getd buckets b []) st)
    (fast_rev (iota 256)) (nm_empty, n)).

Fixpoint bwt_walk (fuel : nat) (links : nmap (byte * N)) (pos : N) (acc : list byte) : list byte :=
  match fuel with
  | O => fast_rev acc
  | S f =>
    match nm_get links pos with
    | Some (ch, next) => bwt_walk f links next (ch :: acc)
    | None => fast_rev acc
    end
  end.

Definition bwt_decode (tt : list byte) (n origPtr : N) : list byte :=
  bwt_walk (nat_of n) (bwt_links tt n) origPtr [].

(* ---- RLE1 expansion, CRC, output ------------------------------------------------
   Four equal bytes are followed by a count byte 0..255 of further copies;
   after the count the next byte starts a new run even if it is the same
   value.  A block that ends right after four equal bytes has no count:
   reader.go delivers the four bytes and fails with Corrupted ("missing
   terminating run-length repeater"); libbzip2's unRLE_obuf_to_output_FAST
   reads a count beyond the end of the block (the next link of the BWT
   walk), writes that many extra copies and then returns "corrupted"
   (c_nblock_used > s_save_nblockPP).  Both reject; the bytes written
   before the error follow reader.go.
   [run] = length of the current run of equal bytes (0 right after a count).
   Returns the CRC register after the block's bytes. *)
Fixpoint put_rep (n : nat) (b : byte) (crc : N) (k : N -> prog N) : prog N :=
  match n with
  | O => k crc
  | S n' => Put b (put_rep n' b (crc_step crc b) k)
  end.

Fixpoint rle1_emit (l : list byte) (run : N) (last : byte) (crc : N) : prog N :=
  match l with
  | [] => if run =? 4 then corrupt else Ret crc
  | b :: r =>
    delay (fun _ =>
      if run =? 4 then put_rep (N.to_nat b) last crc (fun crc' => rle1_emit r 0 last crc')
      else if (0 <? run) && (b =? last) then Put b (rle1_emit r (run + 1) last (crc_step crc b))
      else Put b (rle1_emit r 1 b (crc_step crc b)))
  end.

(* ---- one block, after its magic number ---------------------------------------------
   Returns the block CRC stored in the header. The block's bytes are Put,
   then the computed CRC is compared with the stored one: bytes of a block
   with a wrong CRC are delivered before the error (bzlib.c BZ2_bzDecompress
   checks after unRLE; reader.go checks before reading the next magic). *)
Definition decode_block (depth : nat) (level : N) : prog N :=
  stored <- rbits 32 ;;
  rand <- rbits 1 ;;
  assert_p (rand =? 0) EDeprecated ;;;        (* C still decodes these *)
  origPtr <- rbits 24 ;;                      (* C also fails here if > 10 + level*100000:
                                                 subsumed by origPtr < nblock below [order: Go] *)
  used <- read_symbol_map ;;
  let nInUse := len_n used in
  assert_p (0 <? nInUse) ECorrupted ;;;
  let alphaSize := nInUse + 2 in
  let eob := nInUse + 1 in
  nGroups <- rbits 3 ;;
  assert_p ((2 <=? nGroups) && (nGroups <=? 6)) ECorrupted ;;;
  nSelectors <- rbits 15 ;;
  selsMtf <- read_sels (nat_of nSelectors) nGroups [] ;;
  (* 1.0.8: selectors above BZ_MAX_SELECTORS are read and dropped; they can
     never be reached by a block of at most 900000 symbols *)
  let sels := mtf_decode_sels nGroups (firstn (N.to_nat maxSelectors) selsMtf) in
  tabs <- read_tables depth (N.to_nat nGroups) (N.to_nat alphaSize) [] ;;
  let maxn := level * blockSize in
  syms <- read_syms (S (S (nat_of maxn))) tabs sels 0 empty_table eob maxn 0 [] ;;
  match mtf_rle2_decode syms used maxn 1 0 0 [] with
  | None => corrupt
  | Some (nblock, tt_rev) =>
    assert_p (origPtr <? nblock) ECorrupted ;;;
    let block := bwt_decode (fast_rev tt_rev) nblock origPtr in
    crc <- rle1_emit block 0 0 crc_init ;;
    assert_p (crc_final crc =? stored) ECorrupted ;;;
    Ret stored
  end.

(* ---- blocks of a stream: state = combined CRC so far ----------------------------- *)
Definition blocks_body (depth : nat) (level : N) (combined : N) : prog (N + unit) :=
  magic <- rbits 48 ;;                         (* C compares byte by byte [order: Go] *)
  if magic =? blkMagic then
    blk <- decode_block depth level ;;
    Ret (inl (crc_combine combined blk))
  else if magic =? endMagic then
    c <- rbits 32 ;;
    assert_p (c =? combined) ECorrupted ;;;
    AlignP (fun _ => Ret (inr tt))
  else corrupt.

(* ---- streams: header "BZh1".."BZh9", blocks, footer; then either the input
   is exhausted (clean end) or another stream follows.  No stream at all is
   an unexpected EOF (raised by the first read). *)
Definition one_stream (depth : nat) : prog unit :=
  m <- rbits 16 ;;                             (* C compares byte by byte [order: Go] *)
  assert_p (m =? hdrMagic) ECorrupted ;;;
  ver <- rbits 8 ;;
  (if ver =? 104 (* 'h' *) then Ret tt
   else if ver =? 48 (* '0' *) then Throw EDeprecated   (* bzip1; C: bad magic *)
   else corrupt) ;;;
  lvl <- rbits 8 ;;
  assert_p ((49 <=? lvl) && (lvl <=? 57)) ECorrupted ;;;
  loop depth (blocks_body depth (lvl - 48)) 0.

Definition streams_body (depth : nat) (_ : unit) : prog (unit + unit) :=
  one_stream depth ;;;
  IsEof (fun eof => if eof then Ret (inr tt) else Ret (inl tt)).

Definition bzip2_prog (depth : nat) : prog unit := loop depth (streams_body depth) tt.

Record bz_result := mkBZ { bz_err : option err; bz_out : list byte; bz_used : N }.

(* every iteration of every [loop] consumes at least one bit or ends, so
   2^depth > 8n + 64 iterations are never exhausted *)
Definition depth_for_n (n : N) : nat := S (N.to_nat (N.log2 (8 * n + 64))).

Definition bzip2_decode (input : list byte) : bz_result :=
  let r := run (bzip2_prog (depth_for_n (len_n input))) (ast_init (bits_of_bytes_msb input)) in
  mkBZ (res_err r) (res_out r) ((res_pos r + 7) / 8).
