(* The abstract (sink-free, error-free) bzip2 Writer: what the stream of bits is after each
   call when nothing fails. Its state is the list of bits handed to the bit writer so far
   (in stream order), the RLE1 / CRC state, whether the header has been written, the
   combined CRC and whether the Writer is closed. It uses the same field lists as the
   implementation-level model (Bzip2/WriterImpl.v); [fields_app] is their effect on the
   bit list.

   Bzip2/WriterImplThms.v proves that the implementation-level model refines this machine
   as long as the sink does not fail (sink contents = the whole bytes of [a_bits]), that at
   a sink failure the sink holds a prefix of these bytes, and (Bzip2/WriterImplBits.v) that
   the bits of a closed stream are SpecW.bzip2_encode of the data written. *)
From V Require Import Base.Prelude Bzip2.Common Bzip2.SpecW Prefix.ReaderImpl Prefix.WriterImpl
  Prefix.WriterFields Bzip2.WriterImpl.

Record abz := mkAbz {
  a_bits : list bool;
  a_rle : rlest;
  a_hdr : bool;
  a_endCRC : N;
  a_in : Z;
  a_closed : bool
}.

Definition anew : abz := mkAbz [] rle_init false 0 0 false.

Definition hdr_if (level : N) (hdr : bool) : list field := if hdr then [] else hdr_fields level.

(* the fields of one flush() with a non-empty RLE1 buffer *)
Definition flush_fields (level : N) (hdr : bool) (rle : rlest) : list field :=
  hdr_if level hdr ++ block_head_fields (crc_final (r_crc rle)) ++
  block_body_fields (fast_rev (r_buf rle)).

Definition aflush (level : N) (a : abz) : abz :=
  match fast_rev (r_buf (a_rle a)) with
  | [] => a
  | _ =>
    mkAbz (fields_app (a_bits a) (flush_fields level (a_hdr a) (a_rle a))) rle_init true
          (crc_combine (a_endCRC a) (crc_final (r_crc (a_rle a)))) (a_in a) (a_closed a)
  end.

Definition a_with_rle (a : abz) (r : rlest) : abz :=
  mkAbz (a_bits a) r (a_hdr a) (a_endCRC a) (a_in a) (a_closed a).

Fixpoint awrite_loop (fuel : nat) (level : N) (a : abz) (data : list byte) : abz :=
  match fuel with
  | O => a
  | S f =>
    let '(rle', rest) := rle_write (level * blockSize) data (a_rle a) in
    match rest with
    | [] => a_with_rle a rle'
    | _ => awrite_loop f level (aflush level (a_with_rle a rle')) rest
    end
  end.

Definition awrite (level : N) (a : abz) (data : list byte) : abz :=
  let a' := awrite_loop (S (length data)) level a data in
  mkAbz (a_bits a') (a_rle a') (a_hdr a') (a_endCRC a') (a_in a' + Z.of_nat (length data)) (a_closed a').

(* the fields of Close after its flush() *)
Definition close_fields (level : N) (hdr : bool) (endCRC : N) : list field :=
  hdr_if level hdr ++ footer_fields endCRC.

Definition aclose (level : N) (a : abz) : abz :=
  let a1 := aflush level a in
  mkAbz (fields_app (a_bits a1) (close_fields level (a_hdr a1) (a_endCRC a1))) (a_rle a1) true
        (a_endCRC a1) (a_in a1) true.

Definition astep (level : N) (a : abz) (o : zop) : abz :=
  match o with
  | ZWrite data => if a_closed a then a else awrite level a data
  | ZClose => if a_closed a then a else aclose level a
  | ZReset _ _ => anew
  end.

Definition arun (level : N) (a : abz) (ops : list zop) : abz := fold_left (astep level) ops a.

(* the stream a complete use produces: Write(d1) ... Write(dn), Close *)
Definition astream (level : N) (ds : list (list byte)) : list bool :=
  a_bits (aclose level (fold_left (awrite level) ds anew)).
