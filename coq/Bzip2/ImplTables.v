(* Layer (b): prefixReader.ReadPrefixCodes (Bzip2/Impl.v [read_prefix_codes]: per tree the 5-bit
   start value, the delta-coded lengths, GeneratePrefixes or handleDegenerateCodes, Decoder.Init on
   the recycled Decoder object) refines the specification's [read_tables]: the i-th Decoder object
   ends up with lookup tables that are correct ([tables_ok]) for a code list that decodes like the
   libbzip2 tables [mk_table lens] of the i-th length vector ([tree_ok], through
   [build_codes_ok] of Bzip2/DegenerateCanon.v and [dec_table_correct] of Prefix/DecTableThms.v). *)
From V Require Import Base.Prelude Base.Prog Base.ProgThms Base.FuelThms Base.DepthThms
  Bzip2.Common Bzip2.SpecR Bzip2.BitIO Bzip2.Safe Prefix.Code Prefix.ReaderImpl Prefix.ReaderSpec
  Prefix.ReaderThms Prefix.DecTable Prefix.DecTableSpec Prefix.DecTableThms Prefix.DecReadThms
  Bzip2.Impl Bzip2.ImplBits Bzip2.ImplSim Bzip2.ImplSimP Bzip2.ImplSym Bzip2.ImplCodes Bzip2.ImplClens.
From V Require Bzip2.Degenerate Bzip2.DegenerateSpec Bzip2.DegenerateCanon.

Local Open Scope N_scope.
Local Transparent post.

(* everything of the Reader but the bit reader and the Decoder objects *)
Definition rest (st : bzst) :=
  (z_inOff st, z_outOff st, z_err st, z_level st, z_hdrftr st, z_blkCRC st, z_endCRC st,
   z_crc st, z_rle st).

(* the Decoder object [sl] decodes like the libbzip2 tables [t] (alphabet of alpha symbols) *)
Definition tree_ok (alpha : nat) (sl : dslot) (t : htable) : Prop :=
  exists lens out, t = mk_table lens /\ DegenerateSpec.lens_ok lens /\ length lens = alpha /\
    Degenerate.build_codes lens = Degenerate.BOk out /\ tables_ok out (ds_dec sl).

Lemma set_nth_length {A} (l : list A) : forall i x, length (set_nth i l x) = length l.
Proof.
  induction l as [|y l IH]; intros i x; [destruct i; reflexivity|].
  destruct i; cbn [set_nth length]; [reflexivity | rewrite IH; reflexivity].
Qed.

Lemma firstn_set_nth_ge {A} (l : list A) : forall i j x, (j <= i)%nat -> firstn j (set_nth i l x) = firstn j l.
Proof.
  induction l as [|y l IH]; intros i j x Hj; [destruct i; reflexivity|].
  destruct i; destruct j; cbn [set_nth firstn]; try reflexivity; [lia|].
  f_equal. apply IH. lia.
Qed.

Lemma firstn_S_set_nth {A} (l : list A) : forall i x, (i < length l)%nat ->
  firstn (S i) (set_nth i l x) = firstn i l ++ [x].
Proof.
  induction l as [|y l IH]; intros i x Hi; [cbn [length] in Hi; lia|].
  destruct i; cbn [set_nth firstn app]; [reflexivity|].
  f_equal. apply IH. cbn [length] in Hi. lia.
Qed.

Section Tables.
Variable data : list byte.
Hypothesis Hd : forall b, In b data -> b < 256.

Notation total := (8 * length data)%nat.
Notation simP := (simP data).
Notation Rep := (Rep data).
Notation sat := (sat data).

(* a spec-side postcondition can be added to the postcondition of a refinement *)
Lemma simP_post {A B} (P : bzst -> Prop) (m : M A) (q : prog B) (Q : A -> B -> bzst -> Prop)
      (Qs : B -> Prop) :
  post Qs q -> simP P m q Q -> simP P m q (fun a b st => Q a b st /\ Qs b).
Proof.
  intros Hpost Hm R st out len HP HR Hle. specialize (Hm R st out len HP HR Hle).
  destruct (run q (sat R out len)) as [b s1|e s1] eqn:Eq; [|exact Hm].
  destruct Hm as [(R1 & a & st1 & H1 & H2 & H3 & H4 & H5)|Hw]; [left|right; exact Hw].
  exists R1, a, st1. split; [exact H1|]. split; [exact H2|]. split; [exact H3|].
  split; [split; [exact H4 | exact (Hpost _ _ _ Eq)] | exact H5].
Qed.

(* steps of the Reader that do not touch the bit reader and have no counterpart in the
   specification *)
Lemma simP_pre {A A' B'} (P : bzst -> Prop) (m : M A) (P' : A -> bzst -> Prop)
      (f : A -> M A') (g : prog B') (Q : A' -> B' -> bzst -> Prop) :
  (forall st, P st -> exists a st', m st = (ROk a, st') /\ z_rd st' = z_rd st /\ P' a st') ->
  (forall a, simP (P' a) (f a) g Q) ->
  simP P (mbind m f) g Q.
Proof.
  intros Hm Hf R st out len HP HR Hle.
  destruct (Hm st HP) as (a & st' & Em & Hrd & HP').
  rewrite (mbind_ok m f st a st' Em).
  apply (Hf a R st' out len HP'); [|exact Hle]. unfold ImplBits.Rep. rewrite Hrd. exact HR.
Qed.

Lemma lens_ok_of_range alpha lens : (3 <= alpha <= 258)%nat ->
  Forall (fun l => 1 <= l <= 20) lens -> length lens = alpha -> DegenerateSpec.lens_ok lens.
Proof.
  intros Ha Hr Hl. split; [lia|]. eapply Forall_impl; [|exact Hr].
  cbn beta. intros l Hl'. unfold maxPrefixBits. exact Hl'.
Qed.

(* GeneratePrefixes / handleDegenerateCodes + Init on a Decoder object: never fails *)
Lemma build_tree_ok alpha lens s : DegenerateSpec.lens_ok lens -> length lens = alpha ->
  exists s', (forall st, build_tree lens s st = (ROk s', st)) /\ tree_ok alpha s' (mk_table lens).
Proof.
  intros Hok Hlen.
  destruct (DegenerateCanon.build_codes_ok lens Hok) as (out & Hb & Hcc & _).
  destruct (slot_init_ok s out Hcc) as (s' & Hs & Ht).
  exists s'. split.
  - intros st. unfold build_tree. rewrite Hb, Hs. reflexivity.
  - exists lens, out. split; [reflexivity|]. split; [exact Hok|]. split; [exact Hlen|].
    split; [exact Hb | exact Ht].
Qed.

Theorem tables_sim d depth alpha v0 : (total < 2 ^ d)%nat -> (total < 2 ^ depth)%nat ->
  (3 <= alpha <= 258)%nat ->
  forall k i acc, (i + k <= 6)%nat ->
  simP (fun st => rest st = v0 /\ length (z_trees st) = 6%nat /\ length acc = i /\
                  Forall2 (tree_ok alpha) (firstn i (z_trees st)) (rev acc))
       (read_prefix_codes d alpha k i) (read_tables depth k alpha acc)
       (fun _ tabs st' => rest st' = v0 /\ length (z_trees st') = 6%nat /\
                          length tabs = (i + k)%nat /\
                          Forall2 (tree_ok alpha) (firstn (i + k) (z_trees st')) tabs).
Proof.
  intros Hd2 Hdepth Ha. induction k as [|k IH]; intros i acc Hik.
  - cbn [read_prefix_codes read_tables]. apply (simP_ret data Hd).
    intros st HP. cbv beta in HP. destruct HP as (Hr & Hl & Hacc & HF). rewrite fast_rev_eq, Nat.add_0_r.
    split; [exact Hr|]. split; [exact Hl|]. split; [rewrite rev_length; exact Hacc | exact HF].
  - cbn [read_prefix_codes read_tables].
    set (P := fun st => rest st = v0 /\ length (z_trees st) = 6%nat /\ length acc = i /\
                        Forall2 (tree_ok alpha) (firstn i (z_trees st)) (rev acc)).
    assert (HPi : rd_indep P) by (intros st p HP; exact HP).
    apply (simP_bind_sim data Hd P _ _ eq (fun _ => True) _ _ _ HPi
             (sim_read_be64 data Hd 5 ltac:(lia)) (post_true _)).
    intros clen start -> _.
    apply (simP_bind_sim data Hd P _ _ eq
             (fun lens => Forall (fun l => 1 <= l <= 20) lens /\ length lens = alpha) _ _ _ HPi
             (clens_sim data Hd d depth alpha start [] Hd2 Hdepth)).
    { unfold post. intros s lens s' E.
      destruct (spec_read_lens_range depth alpha start [] s lens s' E (Forall_nil _)) as [H1 H2].
      split; [exact H1|]. rewrite H2. cbn [length]. lia. }
    intros lens_g lens -> (Hrange & Hlen).
    pose proof (lens_ok_of_range alpha lens Ha Hrange Hlen) as Hok.
    apply simP_get. intros st0.
    intros R st out len [HP ->] HR Hle. destruct HP as (Hr & Hl & Hacc & HF).
    destruct (nth_error (z_trees st0) i) as [s|] eqn:En.
    2:{ apply nth_error_None in En. lia. }
    destruct (build_tree_ok alpha lens s Hok Hlen) as (s' & Hbt & Htok).
    set (st1 := set_trees st0 (set_nth i (z_trees st0) s')).
    assert (Hgo : mbind (build_tree lens s) (fun s'0 =>
                    mbind (mupd (fun st => set_trees st (set_nth i (z_trees st) s'0)))
                          (fun _ => read_prefix_codes d alpha k (S i))) st0
                  = read_prefix_codes d alpha k (S i) st1).
    { unfold mbind at 1. rewrite Hbt. reflexivity. }
    rewrite Hgo.
    assert (Hi6 : (i < length (z_trees st0))%nat) by lia.
    replace (i + S k)%nat with (S i + k)%nat by lia.
    apply (IH (S i) (mk_table lens :: acc) ltac:(lia) R st1 out len); [|exact HR | exact Hle].
    split; [exact Hr|]. cbn [z_trees set_trees st1].
    split; [rewrite set_nth_length; exact Hl|]. split; [cbn [length]; lia|].
    rewrite firstn_S_set_nth by exact Hi6. cbn [rev]. apply Forall2_app; [exact HF|].
    constructor; [exact Htok | constructor].
Qed.

End Tables.
