(* Layer (g), part 2: one turn of Read's loop ([one_round]: rd.Offset = InputOffset, the closure
   under errors.Recover, Flush, errWrap), in terms of the outcome of the closure [round_body]. *)
From V Require Import Base.Prelude Base.Prog Base.ProgThms Base.FuelThms Base.DepthThms
  Bzip2.Common Bzip2.SpecR Bzip2.Safe Prefix.ReaderImpl Prefix.ReaderSpec Prefix.ReaderThms
  Prefix.DecTable Prefix.DecReadThms Prefix.PullFailThms Bzip2.Impl Bzip2.ImplBits Bzip2.ImplSim
  Bzip2.ImplHdr.

Local Open Scope N_scope.

Lemma prd_eta p :
  mkPrd (p_src p) (p_buffered p) (p_big p) (p_bufBits p) (p_numBits p) (p_peek p) (p_discard p)
        (p_fed p) (p_offset p) = p.
Proof. destruct p; reflexivity. Qed.

Lemma one_round_start st : z_inOff st = p_offset (z_rd st) ->
  set_rd st (mkPrd (p_src (z_rd st)) (p_buffered (z_rd st)) (p_big (z_rd st)) (p_bufBits (z_rd st))
                   (p_numBits (z_rd st)) (p_peek (z_rd st)) (p_discard (z_rd st)) (p_fed (z_rd st))
                   (z_inOff st)) = st.
Proof. intros H. rewrite H, prd_eta. apply set_rd_id. Qed.

Lemma round_body_unfold st :
  round_body st =
  mbind (if z_hdrftr st mod 2 =? 0 then mbind m_pull_first (fun _ => go_header)
         else if negb (z_blkCRC st =? z_crc st) then corrupted
              else mupd (fun st => set_endCRC st (N.lxor (rotl1 (z_endCRC st)) (z_blkCRC st))))
        (fun _ => mbind decode_block (fun buf => mupd (fun st => set_rle st (rle_init buf)))) st.
Proof. reflexivity. Qed.

Section Round.
Variable data : list byte.
Hypothesis Hd : forall b, In b data -> b < 256.

Notation total := (8 * length data)%nat.
Notation Rep := (Rep data).
Notation PI := (PI true data).

(* the closure threw an error of the package (not a run-time panic) *)
Lemma one_round_throw st e st1 : z_inOff st = p_offset (z_rd st) ->
  round_body st = (RThrow e, st1) -> e <> EPanic -> e <> EFuel ->
  z_err (one_round st) = Some (err_wrap e) /\ z_outOff (one_round st) = z_outOff st1 /\
  z_inOff (one_round st) = p_offset (snd (flush (z_rd st1))).
Proof.
  intros Hoff Hb Hp Hf. unfold one_round. cbv zeta. rewrite (one_round_start st Hoff), Hb.
  destruct e; try contradiction;
    cbn [z_rd set_err]; destruct (flush (z_rd st1)) as [short p']; cbn [snd];
    cbn [z_err set_inOff set_rd set_err z_outOff z_inOff]; repeat split; reflexivity.
Qed.

(* the closure finished normally *)
Lemma one_round_ok st st1 R1 : z_inOff st = p_offset (z_rd st) ->
  round_body st = (ROk tt, st1) -> Rep R1 st1 -> z_err st1 = None ->
  exists p', one_round st = set_inOff (set_rd st1 p') (p_offset p') /\ PI R1 p' /\
             p_offset p' = Z.of_nat (s_pos (p_src p')).
Proof.
  intros Hoff Hb HP He. unfold one_round. cbv zeta. rewrite (one_round_start st Hoff), Hb.
  destruct (flush_pi data R1 (z_rd st1) HP) as (p' & Ef & HP' & Ho & _).
  rewrite Ef. cbn [z_err set_inOff set_rd]. rewrite He. cbn [z_err set_inOff set_rd]. rewrite He.
  exists p'. split; [reflexivity|]. split; assumption.
Qed.

(* the end of the input where a stream may begin *)
Lemma one_round_eof st : z_inOff st = p_offset (z_rd st) -> Rep total st -> z_hdrftr st mod 2 = 0 ->
  z_err (one_round st) = Some (if 0 <? z_hdrftr st then EEOF else EUEOF) /\
  z_outOff (one_round st) = z_outOff st /\
  z_inOff (one_round st) = Z.of_nat (length data).
Proof.
  intros Hoff HP Heven.
  assert (Hb : exists p1, round_body st = (RThrow (if 0 <? z_hdrftr st then EEOF else EUEOF), set_rd st p1) /\
                          pull_bits (z_rd st) 1 = (true, p1)).
  { rewrite round_body_unfold. replace (z_hdrftr st mod 2 =? 0) with true by lia.
    unfold mbind at 1 2, m_pull_first.
    pose proof (pull_any data Hd _ (z_rd st) 1 HP ltac:(lia)) as H.
    destruct (pull_bits (z_rd st) 1) as [[|] p1] eqn:Ep.
    - exists p1. split; reflexivity.
    - destruct H as (H1 & H2 & _). destruct (PI_numBits true data Hd _ p1 H1) as (_ & Hin & _). lia. }
  destruct Hb as (p1 & Hb & Ep).
  destruct (one_round_throw st _ _ Hoff Hb) as (H1 & H2 & H3).
  { destruct (0 <? z_hdrftr st); discriminate. }
  { destruct (0 <? z_hdrftr st); discriminate. }
  split; [rewrite H1; destruct (0 <? z_hdrftr st); reflexivity|]. split; [exact H2|].
  rewrite H3. cbn [z_rd set_rd].
  destruct (pull_fail_flush true data Hd _ (z_rd st) 1 p1 HP ltac:(lia) Ep) as (p2 & Ef & _ & _ & Hlen).
  rewrite Ef. cbn [snd]. apply Hlen. reflexivity.
Qed.

End Round.
