(* bzip2/mtf_rle2.go moveToFront.Decode, implementation-level model (Impl.go_mtf_decode),
   against the libbzip2 port of the same loop (SpecR.mtf_rle2_decode).

   The two accumulate a run differently and refuse an overlong run at different moments:

     libbzip2 / SpecR : run weight runN doubles per RUNA/RUNB symbol, es += (s+1)*runN;
                        a run symbol is refused as soon as runN >= 2^21 (the 22nd symbol);
     Go               : lastRun |= uint32(sym) << lastCnt; lastCnt++ ; nothing is refused while
                        the run lasts; when it ends, cnt = int((1<<lastCnt)|lastRun) - 1 copies
                        are appended unless len(vals)+cnt > blkSize || lastCnt > 24.

   Correspondence of the loop states: Go's (lastCnt, lastRun) = (k, lr) with lr < 2^k is the
   spec's (runN, es) = (2^k, lr + 2^k - 1).  Once the spec has refused the 22nd run symbol,
   Go is in a state with lastCnt >= 22, from which EVERY continuation ends in Corrupted: run
   symbols keep lastCnt >= 22; the end of the run rejects because cnt >= 2^22 - 1 > blkSize
   while lastCnt <= 24, and because lastCnt > 24 after that (the uint32 shift giving 0 from
   32 on does not matter any more).  This needs blkSize <= 2^22 - 2; bzip2's is <= 900000.

   Main results: go_mtf_decode_eq, go_mtf_decode_no_panic, go_mtf_decode_length,
   mtf_rle2_decode_bytes / go_mtf_decode_bytes, and non-vacuity examples. *)
From V Require Import Base.Prelude Bzip2.Common Bzip2.SpecR Bzip2.MtfRle2 Prefix.DecTable Bzip2.Impl.

Local Open Scope N_scope.

Definition syms_in_range (dictLen : nat) (syms : list N) : Prop :=
  Forall (fun s => s <= N.of_nat dictLen) syms.
  (* run symbols 0,1 and MTF indices 1..dictLen-1 as s = idx+1 *)

(* ---- bit arithmetic ------------------------------------------------------------------ *)
Lemma lor_ge_l a b : a <= N.lor a b.
Proof.
  apply N.ldiff_le. apply N.bits_inj. intros i.
  rewrite N.ldiff_spec, N.lor_spec, N.bits_0.
  destruct (N.testbit a i); reflexivity.
Qed.

Lemma land_low_pow2 lr k : lr < 2 ^ k -> N.land lr (2 ^ k) = 0.
Proof.
  intros Hlr.
  assert (Hpos : 2 ^ k <> 0) by (apply N.pow_nonzero; discriminate).
  rewrite <- (N.mod_small lr (2 ^ k) Hlr), <- N.land_ones, <- N.land_assoc.
  rewrite (N.land_comm (N.ones k)), N.land_ones, N.mod_same by exact Hpos.
  apply N.land_0_r.
Qed.

Lemma lor_low_pow2 lr k : lr < 2 ^ k -> N.lor lr (2 ^ k) = lr + 2 ^ k.
Proof.
  intros Hlr. pose proof (land_low_pow2 lr k Hlr) as Hland.
  rewrite <- (N.lxor_lor _ _ Hland). symmetry. apply N.add_nocarry_lxor. exact Hland.
Qed.

Lemma pow2_lt_32 k : k < 32 -> 2 ^ k < 2 ^ 32.
Proof. intros Hk. apply N.pow_lt_mono_r; [reflexivity | exact Hk]. Qed.

Lemma shl32_1 k : k < 32 -> shl32 1 k = 2 ^ k.
Proof.
  intros Hk. unfold shl32, w32.
  destruct (32 <=? k) eqn:E; [apply N.leb_le in E; lia|].
  rewrite N.shiftl_mul_pow2, N.mul_1_l. apply N.mod_small. apply pow2_lt_32. exact Hk.
Qed.

Lemma shl32_0 k : shl32 0 k = 0.
Proof.
  unfold shl32, w32. destruct (32 <=? k); [reflexivity|].
  rewrite N.shiftl_0_l. reflexivity.
Qed.

(* the run accumulator after one more run symbol *)
Lemma run_step lr k s :
  k < 32 -> lr < 2 ^ k -> s < 2 ->
  N.lor lr (shl32 s k) = lr + s * 2 ^ k.
Proof.
  intros Hk Hlr Hs.
  assert (Hs' : s = 0 \/ s = 1) by lia.
  destruct Hs' as [Hs0|Hs1]; subst s.
  - rewrite shl32_0, N.lor_0_r. lia.
  - rewrite (shl32_1 k Hk), (lor_low_pow2 lr k Hlr). lia.
Qed.

(* ---- the end of a run ------------------------------------------------------------------ *)
Definition res_of_opt {A} (o : option A) : res A :=
  match o with Some a => ROk a | None => RThrow ECorrupted end.

Lemma go_mtf_flush_eq dict blk k lr n acc :
  dict <> [] -> k <= 24 -> lr < 2 ^ k ->
  go_mtf_flush dict blk k lr n acc = res_of_opt (flush_run dict blk (lr + 2 ^ k - 1) n acc).
Proof.
  intros Hd Hk Hlr. unfold go_mtf_flush, flush_run.
  assert (Hpos : 0 < 2 ^ k) by (apply N.neq_0_lt_0, N.pow_nonzero; discriminate).
  destruct (k =? 0) eqn:Ek.
  - apply N.eqb_eq in Ek. subst k. change (2 ^ 0) with 1 in *.
    assert (Hlr0 : lr = 0) by lia. subst lr. reflexivity.
  - apply N.eqb_neq in Ek.
    assert (Hk32 : k < 32) by lia.
    rewrite (shl32_1 k Hk32), N.lor_comm, (lor_low_pow2 lr k Hlr).
    assert (Hk1 : 2 <= 2 ^ k).
    { change 2 with (2 ^ 1) at 1. apply N.pow_le_mono_r; [discriminate | lia]. }
    set (es := lr + 2 ^ k - 1).
    assert (Hcnt : (Z.of_N (lr + 2 ^ k) - 1)%Z = Z.of_N es) by (unfold es; lia).
    rewrite Hcnt.
    assert (Hes : 1 <= es) by (unfold es; lia).
    destruct (es =? 0) eqn:Ees; [apply N.eqb_eq in Ees; lia|].
    assert (H24 : (24 <? k) = false) by (apply N.ltb_ge; exact Hk).
    rewrite H24, Bool.orb_false_r.
    destruct (blk <? n + es) eqn:Eb.
    + apply N.ltb_lt in Eb.
      assert (Hgt : (Z.of_N n + Z.of_N es >? Z.of_N blk)%Z = true).
      { rewrite Z.gtb_ltb. apply Z.ltb_lt. lia. }
      rewrite Hgt. reflexivity.
    + apply N.ltb_ge in Eb.
      assert (Hgt : (Z.of_N n + Z.of_N es >? Z.of_N blk)%Z = false).
      { rewrite Z.gtb_ltb. apply Z.ltb_ge. lia. }
      rewrite Hgt.
      assert (Hle : (Z.of_N es <=? 0)%Z = false) by (apply Z.leb_gt; lia).
      rewrite Hle.
      destruct dict as [|d0 dict']; [contradiction Hd; reflexivity|].
      rewrite N2Z.id. cbn [hd res_of_opt]. reflexivity.
Qed.

(* a run of 22 symbols or more is always refused when it ends *)
Lemma go_mtf_flush_doomed dict blk k lr n acc :
  blk <= 4194302 -> 22 <= k ->
  go_mtf_flush dict blk k lr n acc = RThrow ECorrupted.
Proof.
  intros Hblk Hk. unfold go_mtf_flush.
  destruct (k =? 0) eqn:Ek; [apply N.eqb_eq in Ek; lia|].
  destruct (24 <? k) eqn:E24; [rewrite Bool.orb_true_r; reflexivity|].
  apply N.ltb_ge in E24.
  assert (Hk32 : k < 32) by lia.
  rewrite (shl32_1 k Hk32).
  pose proof (lor_ge_l (2 ^ k) lr) as Hge.
  assert (Hp : 2 ^ 22 <= 2 ^ k) by (apply N.pow_le_mono_r; [discriminate | exact Hk]).
  change (2 ^ 22) with 4194304 in Hp.
  assert (Hgt : (Z.of_N n + (Z.of_N (N.lor (2 ^ k) lr) - 1) >? Z.of_N blk)%Z = true).
  { rewrite Z.gtb_ltb. apply Z.ltb_lt. lia. }
  rewrite Hgt. reflexivity.
Qed.

Lemma go_mtf_decode_doomed blk syms :
  blk <= 4194302 ->
  forall dict k lr n acc, 22 <= k ->
  go_mtf_decode syms dict blk k lr n acc = RThrow ECorrupted.
Proof.
  intros Hblk. induction syms as [|sym r IH]; intros dict k lr n acc Hk; cbn [go_mtf_decode].
  - rewrite (go_mtf_flush_doomed dict blk k lr n acc Hblk Hk). reflexivity.
  - destruct (sym <? 2) eqn:Es.
    + apply IH. lia.
    + rewrite (go_mtf_flush_doomed dict blk k lr n acc Hblk Hk). reflexivity.
Qed.

(* ---- dict[sym-1] and the move to the front ---------------------------------------------- *)
Lemma pick_front_mtf_pick (d : byte) l : forall i,
  (i < length l)%nat -> pick_front i l = Some (mtf_pick i l d).
Proof.
  induction l as [|x l IH]; intros i Hi; cbn [length] in Hi; [lia|].
  destruct i as [|i]; cbn [pick_front mtf_pick]; [reflexivity|].
  rewrite (IH i) by lia. destruct (mtf_pick i l d) as [y r']. reflexivity.
Qed.

Lemma mtf_pick_length (d : byte) l : forall i v rest,
  (i < length l)%nat -> mtf_pick i l d = (v, rest) -> length (v :: rest) = length l.
Proof.
  induction l as [|x l IH]; intros i v rest Hi Hp; cbn [length] in Hi; [lia|].
  destruct i as [|i]; cbn [mtf_pick] in Hp.
  - inversion Hp; subst. reflexivity.
  - destruct (mtf_pick i l d) as [y r'] eqn:E. inversion Hp; subst.
    assert (Hl : length (v :: r') = length l) by (apply (IH i v r'); [lia | exact E]).
    cbn [length] in *. lia.
Qed.

Lemma mtf_pick_Forall (P : byte -> Prop) (d : byte) l : forall i v rest,
  P d -> Forall P l -> mtf_pick i l d = (v, rest) -> Forall P (v :: rest).
Proof.
  induction l as [|x l IH]; intros i v rest Hd Hl Hp.
  - destruct i; cbn [mtf_pick] in Hp; inversion Hp; subst; (constructor; [exact Hd | constructor]).
  - inversion Hl as [|x' l' Hx Hl']; subst.
    destruct i as [|i]; cbn [mtf_pick] in Hp.
    + inversion Hp; subst. constructor; assumption.
    + destruct (mtf_pick i l d) as [y r'] eqn:E. inversion Hp; subst.
      pose proof (IH i v r' Hd Hl' E) as Hvr.
      inversion Hvr as [|v' r'' Hv Hr']; subst.
      constructor; [exact Hv | constructor; assumption].
Qed.

(* ---- the loop invariant ------------------------------------------------------------------- *)
Definition go_of_spec (o : option (N * list byte)) : res (list byte) :=
  match o with
  | Some (_, acc) => ROk (fast_rev acc)
  | None => RThrow ECorrupted
  end.

Lemma go_mtf_decode_inv blk syms :
  blk <= 4194302 ->
  forall dict k lr n acc,
  dict <> [] -> syms_in_range (length dict) syms -> k <= 21 -> lr < 2 ^ k ->
  go_mtf_decode syms dict blk k lr n acc =
  go_of_spec (mtf_rle2_decode syms dict blk (2 ^ k) (lr + 2 ^ k - 1) n acc).
Proof.
  intros Hblk. induction syms as [|sym r IH]; intros dict k lr n acc Hd Hr Hk Hlr;
    cbn [go_mtf_decode mtf_rle2_decode].
  - rewrite (go_mtf_flush_eq dict blk k lr n acc Hd) by (try exact Hlr; lia).
    destruct (flush_run dict blk (lr + 2 ^ k - 1) n acc) as [[n' acc']|];
      cbn [res_of_opt go_of_spec]; reflexivity.
  - inversion Hr as [|sym' r' Hsym Hr']; subst.
    destruct (sym <? 2) eqn:Es.
    + apply N.ltb_lt in Es.
      destruct (2097152 <=? 2 ^ k) eqn:Elim.
      * (* the spec refuses the 22nd run symbol; Go is doomed *)
        apply N.leb_le in Elim.
        assert (Hk21 : k = 21).
        { destruct (N.eq_dec k 21) as [He|Hne]; [exact He|].
          assert (Hk20 : k <= 20) by lia.
          assert (Hp : 2 ^ k <= 2 ^ 20) by (apply N.pow_le_mono_r; [discriminate | exact Hk20]).
          change (2 ^ 20) with 1048576 in Hp. lia. }
        cbn [go_of_spec]. apply (go_mtf_decode_doomed blk r Hblk). lia.
      * apply N.leb_gt in Elim.
        assert (Hk20 : k <= 20).
        { destruct (N.le_gt_cases k 20) as [Hle|Hgt]; [exact Hle|].
          assert (Hk21 : k = 21) by lia. subst k.
          change (2 ^ 21) with 2097152 in Elim. lia. }
        assert (Hk32 : k < 32) by lia.
        rewrite (run_step lr k sym Hk32 Hlr Es).
        assert (Hpow : 2 ^ (k + 1) = 2 * 2 ^ k).
        { rewrite N.add_1_r. apply N.pow_succ_r'. }
        assert (Hlr' : lr + sym * 2 ^ k < 2 ^ (k + 1)) by (rewrite Hpow; nia).
        rewrite (IH dict (k + 1) (lr + sym * 2 ^ k) n acc Hd Hr') by (try exact Hlr'; lia).
        rewrite Hpow.
        replace (lr + sym * 2 ^ k + 2 * 2 ^ k - 1) with (lr + 2 ^ k - 1 + (sym + 1) * 2 ^ k)
          by nia.
        reflexivity.
    + apply N.ltb_ge in Es.
      rewrite (go_mtf_flush_eq dict blk k lr n acc Hd) by (try exact Hlr; lia).
      destruct (flush_run dict blk (lr + 2 ^ k - 1) n acc) as [[n' acc']|];
        cbn [res_of_opt go_of_spec]; [|reflexivity].
      assert (Hi : (N.to_nat (sym - 1) < length dict)%nat) by lia.
      rewrite (pick_front_mtf_pick 0 dict _ Hi).
      destruct (mtf_pick (N.to_nat (sym - 1)) dict 0) as [v rest] eqn:Ep.
      destruct (blk <=? n') eqn:Eb; [reflexivity|].
      pose proof (mtf_pick_length 0 dict _ v rest Hi Ep) as Hlen.
      assert (Hd' : v :: rest <> []) by discriminate.
      assert (Hr'' : syms_in_range (length (v :: rest)) r) by (rewrite Hlen; exact Hr').
      assert (H0 : 0 < 2 ^ 0) by (change (2 ^ 0) with 1; lia).
      rewrite (IH (v :: rest) 0 0 (n' + 1) (v :: acc') Hd' Hr'') by (try exact H0; lia).
      reflexivity.
Qed.

(* ---- main theorem ------------------------------------------------------------------------- *)
Theorem go_mtf_decode_eq syms dict blk :
  dict <> [] -> blk <= 4194302 -> syms_in_range (length dict) syms ->
  go_mtf_decode syms dict blk 0 0 0 [] =
  match mtf_rle2_decode syms dict blk 1 0 0 [] with
  | Some (_, acc) => ROk (rev acc)
  | None => RThrow ECorrupted
  end.
Proof.
  intros Hd Hblk Hr.
  assert (H0 : 0 < 2 ^ 0) by (change (2 ^ 0) with 1; lia).
  rewrite (go_mtf_decode_inv blk syms Hblk dict 0 0 0 [] Hd Hr) by (try exact H0; lia).
  change (2 ^ 0) with 1. change (0 + 1 - 1) with 0.
  destruct (mtf_rle2_decode syms dict blk 1 0 0 []) as [[n' acc']|]; cbn [go_of_spec];
    [rewrite fast_rev_eq|]; reflexivity.
Qed.

Theorem go_mtf_decode_no_panic syms dict blk :
  dict <> [] -> blk <= 4194302 -> syms_in_range (length dict) syms ->
  go_mtf_decode syms dict blk 0 0 0 [] <> RThrow EPanic /\
  go_mtf_decode syms dict blk 0 0 0 [] <> RThrow EFuel.
Proof.
  intros Hd Hblk Hr. rewrite (go_mtf_decode_eq syms dict blk Hd Hblk Hr).
  destruct (mtf_rle2_decode syms dict blk 1 0 0 []) as [[n' acc']|]; split; discriminate.
Qed.

(* the only error is Corrupted *)
Corollary go_mtf_decode_throws syms dict blk e :
  dict <> [] -> blk <= 4194302 -> syms_in_range (length dict) syms ->
  go_mtf_decode syms dict blk 0 0 0 [] = RThrow e -> e = ECorrupted.
Proof.
  intros Hd Hblk Hr. rewrite (go_mtf_decode_eq syms dict blk Hd Hblk Hr).
  destruct (mtf_rle2_decode syms dict blk 1 0 0 []) as [[n' acc']|]; intros He;
    [discriminate | inversion He; reflexivity].
Qed.

(* ---- the spec's first component is the number of values, within the block size ---------- *)
Lemma flush_run_len dict maxn es n acc n' acc' :
  flush_run dict maxn es n acc = Some (n', acc') ->
  n = N.of_nat (length acc) -> n <= maxn ->
  n' = N.of_nat (length acc') /\ n' <= maxn.
Proof.
  unfold flush_run. intros Hf Hn Hle.
  destruct (es =? 0); [inversion Hf; subst; split; [reflexivity | exact Hle]|].
  destruct (maxn <? n + es) eqn:Eb; [discriminate|].
  apply N.ltb_ge in Eb. inversion Hf; subst.
  rewrite nat_of_to_nat, repeat_acc_eq, app_length, repeat_length. split; lia.
Qed.

Lemma mtf_rle2_decode_len maxn syms : forall dict runN es n acc n' acc',
  mtf_rle2_decode syms dict maxn runN es n acc = Some (n', acc') ->
  n = N.of_nat (length acc) -> n <= maxn ->
  n' = N.of_nat (length acc') /\ n' <= maxn.
Proof.
  induction syms as [|s r IH]; intros dict runN es n acc n' acc' Hdec Hn Hle;
    cbn [mtf_rle2_decode] in Hdec.
  - exact (flush_run_len dict maxn es n acc n' acc' Hdec Hn Hle).
  - destruct (s <? 2).
    + destruct (2097152 <=? runN); [discriminate|].
      exact (IH _ _ _ _ _ _ _ Hdec Hn Hle).
    + destruct (flush_run dict maxn es n acc) as [[n1 acc1]|] eqn:Ef; [|discriminate].
      destruct (flush_run_len dict maxn es n acc n1 acc1 Ef Hn Hle) as [Hn1 Hle1].
      destruct (maxn <=? n1) eqn:Eb; [discriminate|]. apply N.leb_gt in Eb.
      destruct (mtf_pick (N.to_nat (s - 1)) dict 0) as [v rest].
      apply (IH _ _ _ _ _ _ _ Hdec); [cbn [length]; lia | lia].
Qed.

Theorem go_mtf_decode_length syms dict blk vals :
  dict <> [] -> blk <= 4194302 -> syms_in_range (length dict) syms ->
  go_mtf_decode syms dict blk 0 0 0 [] = ROk vals ->
  N.of_nat (length vals) <= blk /\
  mtf_rle2_decode syms dict blk 1 0 0 [] = Some (N.of_nat (length vals), rev vals).
Proof.
  intros Hd Hblk Hr. rewrite (go_mtf_decode_eq syms dict blk Hd Hblk Hr).
  destruct (mtf_rle2_decode syms dict blk 1 0 0 []) as [[n' acc']|] eqn:Edec; [|discriminate].
  intros Hv. inversion Hv; subst vals.
  assert (H00 : 0 = N.of_nat (length (@nil byte))) by reflexivity.
  destruct (mtf_rle2_decode_len blk syms dict 1 0 0 [] n' acc' Edec H00 (N.le_0_l blk))
    as [Hn' Hle].
  rewrite rev_length, rev_involutive, <- Hn'. split; [exact Hle | reflexivity].
Qed.

(* ---- every value produced comes from the dictionary --------------------------------------- *)
Lemma flush_run_Forall (P : byte -> Prop) dict maxn es n acc n' acc' :
  P 0 -> Forall P dict -> Forall P acc ->
  flush_run dict maxn es n acc = Some (n', acc') -> Forall P acc'.
Proof.
  unfold flush_run. intros H0 Hd Ha Hf.
  destruct (es =? 0); [inversion Hf; subst; exact Ha|].
  destruct (maxn <? n + es); [discriminate|]. inversion Hf; subst.
  rewrite repeat_acc_eq. apply Forall_app. split; [|exact Ha].
  apply Forall_forall. intros x Hx. apply repeat_spec in Hx. subst x.
  destruct dict as [|d0 dict']; cbn [hd]; [exact H0|].
  inversion Hd; assumption.
Qed.

Lemma mtf_rle2_decode_Forall (P : byte -> Prop) maxn syms : forall dict runN es n acc n' acc',
  P 0 -> Forall P dict -> Forall P acc ->
  mtf_rle2_decode syms dict maxn runN es n acc = Some (n', acc') -> Forall P acc'.
Proof.
  induction syms as [|s r IH]; intros dict runN es n acc n' acc' H0 Hd Ha Hdec;
    cbn [mtf_rle2_decode] in Hdec.
  - exact (flush_run_Forall P dict maxn es n acc n' acc' H0 Hd Ha Hdec).
  - destruct (s <? 2).
    + destruct (2097152 <=? runN); [discriminate|].
      exact (IH _ _ _ _ _ _ _ H0 Hd Ha Hdec).
    + destruct (flush_run dict maxn es n acc) as [[n1 acc1]|] eqn:Ef; [|discriminate].
      pose proof (flush_run_Forall P dict maxn es n acc n1 acc1 H0 Hd Ha Ef) as Ha1.
      destruct (maxn <=? n1); [discriminate|].
      destruct (mtf_pick (N.to_nat (s - 1)) dict 0) as [v rest] eqn:Ep.
      pose proof (mtf_pick_Forall P 0 dict _ v rest H0 Hd Ep) as Hvr.
      apply (IH _ _ _ _ _ _ _ H0 Hvr) in Hdec; [exact Hdec|].
      inversion Hvr; subst. constructor; assumption.
Qed.

Theorem mtf_rle2_decode_bytes syms dict maxn n' acc' :
  Forall (fun b => b < 256) dict ->
  mtf_rle2_decode syms dict maxn 1 0 0 [] = Some (n', acc') ->
  Forall (fun b => b < 256) acc'.
Proof.
  intros Hd Hdec.
  apply (mtf_rle2_decode_Forall (fun b => b < 256) maxn syms dict 1 0 0 [] n' acc');
    [reflexivity | exact Hd | constructor | exact Hdec].
Qed.

Theorem go_mtf_decode_bytes syms dict blk vals :
  dict <> [] -> blk <= 4194302 -> syms_in_range (length dict) syms ->
  Forall (fun b => b < 256) dict ->
  go_mtf_decode syms dict blk 0 0 0 [] = ROk vals ->
  Forall (fun b => b < 256) vals.
Proof.
  intros Hd Hblk Hr Hb Hgo.
  destruct (go_mtf_decode_length syms dict blk vals Hd Hblk Hr Hgo) as [_ Hdec].
  rewrite <- (rev_involutive vals). apply Forall_rev.
  exact (mtf_rle2_decode_bytes syms dict blk _ _ Hb Hdec).
Qed.

(* ---- non-vacuity ------------------------------------------------------------------------- *)
(* RUNA RUNB in bijective base 2: (0+1)*1 + (1+1)*2 = 5 copies of 'a', then
   MTF index 1 ('b', moved to the front), then RUNA = one more 'b'. *)
Example go_mtf_decode_ex_run :
  go_mtf_decode [0; 1; 2; 0] [97; 98; 99] 100 0 0 0 [] = ROk [97; 97; 97; 97; 97; 98; 98] /\
  mtf_rle2_decode [0; 1; 2; 0] [97; 98; 99] 100 1 0 0 [] = Some (7, [98; 98; 97; 97; 97; 97; 97]) /\
  ([97; 98; 99] <> [] /\ 100 <= 4194302 /\ syms_in_range (length [97; 98; 99]) [0; 1; 2; 0]).
Proof.
  split; [vm_compute; reflexivity|]. split; [vm_compute; reflexivity|].
  split; [discriminate|]. split; [vm_compute; discriminate|].
  unfold syms_in_range. repeat constructor; vm_compute; discriminate.
Qed.

(* the same symbols do not fit a block of 6 *)
Example go_mtf_decode_ex_size :
  go_mtf_decode [0; 1; 2; 0] [97; 98; 99] 6 0 0 0 [] = RThrow ECorrupted /\
  mtf_rle2_decode [0; 1; 2; 0] [97; 98; 99] 6 1 0 0 [] = None.
Proof. split; vm_compute; reflexivity. Qed.

(* 23 RUNA symbols: libbzip2 refuses the 22nd, Go refuses when the run ends (at the end of
   the symbols, or at the next MTF symbol) *)
Example go_mtf_decode_ex_longrun :
  go_mtf_decode (repeat 0 23) [97; 98; 99] 900000 0 0 0 [] = RThrow ECorrupted /\
  go_mtf_decode (repeat 0 23 ++ [2]) [97; 98; 99] 900000 0 0 0 [] = RThrow ECorrupted /\
  mtf_rle2_decode (repeat 0 23) [97; 98; 99] 900000 1 0 0 [] = None /\
  syms_in_range (length [97; 98; 99]) (repeat 0 23).
Proof.
  split; [vm_compute; reflexivity|]. split; [vm_compute; reflexivity|].
  split; [vm_compute; reflexivity|].
  unfold syms_in_range. apply Forall_forall. intros x Hx. apply repeat_spec in Hx. subst x.
  vm_compute; discriminate.
Qed.

(* the bound on the block size is what makes the two agree: with a (hypothetical) block limit
   of 2^22 - 1, a run of 22 RUNA symbols (2^22 - 1 values) is accepted by the Go loop and
   refused by libbzip2's *)
Example go_mtf_decode_bound_tight :
  match go_mtf_decode (repeat 0 22) [97] 4194303 0 0 0 [] with
  | ROk vals => len_n vals =? 4194303
  | RThrow _ => false
  end = true /\
  mtf_rle2_decode (repeat 0 22) [97] 4194303 1 0 0 [] = None.
Proof. split; vm_compute; reflexivity. Qed.

Print Assumptions go_mtf_decode_eq.
Print Assumptions go_mtf_decode_no_panic.
Print Assumptions go_mtf_decode_length.
Print Assumptions mtf_rle2_decode_bytes.
Print Assumptions go_mtf_decode_bytes.
