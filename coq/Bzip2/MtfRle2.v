(* C04, stage 3: the move-to-front + zero-run-length encoding of
   bzip2/mtf_rle2.go (model: SpecW.mtf_rle2_encode) is inverted by the decoder's
   MTF/RLE2 loop (model: SpecR.mtf_rle2_decode) - for EVERY list of values and
   EVERY dictionary containing them: the decoder returns exactly the number of
   values and the values themselves (reversed, as decode_block expects), as
   long as the block fits [maxn] and no run counter can reach 2^21 (the limit
   libbzip2 and the Go reader enforce).  The dictionary does not even have to
   be duplicate free: both sides move the FIRST occurrence to the front.
   Also: every emitted symbol fits the alphabet (<= length of the dictionary),
   and the length bound is tight. *)
From Coq Require Import Permutation FMapPositive.
From V Require Import Base.Prelude Bzip2.Common Bzip2.SpecR Bzip2.SpecW.

(* ---- helpers ------------------------------------------------------------------- *)
Lemma nat_of_to_nat k : nat_of k = N.to_nat k.
Proof.
  unfold nat_of. induction k as [|k IH] using N.peano_ind; [reflexivity|].
  rewrite N.iter_succ, IH, N2Nat.inj_succ. reflexivity.
Qed.

Lemma repeat_acc_eq {A} n (x : A) acc : repeat_acc n x acc = repeat x n ++ acc.
Proof.
  revert acc; induction n as [|n IH]; intros acc; cbn [repeat_acc repeat app]; [reflexivity|].
  rewrite IH. change (x :: acc) with ([x] ++ acc). rewrite app_assoc, <- repeat_cons.
  reflexivity.
Qed.

(* ---- the run digits, in stream order ------------------------------------------- *)
(* bits of p, least significant first, without the leading one *)
Fixpoint digs (p : positive) : list N :=
  match p with
  | xH => []
  | xO q => 0 :: digs q
  | xI q => 1 :: digs q
  end.

Definition digits (k : N) : list N :=
  match k with
  | N0 => []
  | _ => match k + 1 with Npos p => digs p | N0 => [] end
  end.

Lemma run_syms_pos_eq p acc : run_syms_pos p acc = rev (digs p) ++ acc.
Proof.
  revert acc; induction p as [p IH|p IH|]; intros acc; cbn [run_syms_pos digs rev app].
  - rewrite IH, <- app_assoc. reflexivity.
  - rewrite IH, <- app_assoc. reflexivity.
  - reflexivity.
Qed.

Lemma run_syms_eq k acc : run_syms k acc = rev (digits k) ++ acc.
Proof.
  unfold run_syms, digits. destruct k as [|q]; [reflexivity|].
  destruct (N.pos q + 1) as [|p]; [reflexivity|]. apply run_syms_pos_eq.
Qed.

Lemma digs_le1 p : Forall (fun s => s <= 1) (digs p).
Proof. induction p; cbn [digs]; constructor; try assumption; lia. Qed.

Lemma digits_le1 k : Forall (fun s => s <= 1) (digits k).
Proof.
  unfold digits. destruct k as [|q]; [constructor|].
  destruct (N.pos q + 1) as [|p]; [constructor|]. apply digs_le1.
Qed.

(* ---- the encoder without its accumulator ---------------------------------------- *)
Fixpoint enc (vals : list byte) (dict : list byte) (k : N) : list N :=
  match vals with
  | [] => digits k
  | v :: r =>
    let idx := mtf_index N.eqb v dict 0 in
    if idx =? 0 then enc r dict (k + 1)
    else
      let (x, rest) := mtf_pick (N.to_nat idx) dict 0 in
      digits k ++ (idx + 1) :: enc r (x :: rest) 0
  end.

Lemma encode_eq vals : forall dict k acc,
  mtf_rle2_encode vals dict k acc = rev acc ++ enc vals dict k.
Proof.
  induction vals as [|v r IH]; intros dict k acc; cbn [mtf_rle2_encode enc].
  - rewrite fast_rev_eq, run_syms_eq, rev_app_distr, rev_involutive. reflexivity.
  - destruct (mtf_index N.eqb v dict 0 =? 0) eqn:E; [apply IH|].
    destruct (mtf_pick (N.to_nat (mtf_index N.eqb v dict 0)) dict 0) as [x rest].
    rewrite IH. cbn [rev]. rewrite run_syms_eq, rev_app_distr, rev_involutive.
    rewrite <- !app_assoc. reflexivity.
Qed.

(* ---- the decoder on a run ------------------------------------------------------- *)
Lemma dec_digs p : forall r dict maxn runN es n acc,
  runN * N.pos p < 4194304 ->
  exists runN',
    mtf_rle2_decode (digs p ++ r) dict maxn runN es n acc =
    mtf_rle2_decode r dict maxn runN' (es + (N.pos p - 1) * runN) n acc.
Proof.
  induction p as [p IH|p IH|]; intros r dict maxn runN es n acc H; cbn [digs app].
  - cbn [mtf_rle2_decode]. change (1 <? 2) with true. cbv iota.
    destruct (2097152 <=? runN) eqn:E; [nia|].
    destruct (IH r dict maxn (2 * runN) (es + (1 + 1) * runN) n acc) as [rn' Hr]; [nia|].
    exists rn'. rewrite Hr. f_equal. nia.
  - cbn [mtf_rle2_decode]. change (0 <? 2) with true. cbv iota.
    destruct (2097152 <=? runN) eqn:E; [nia|].
    destruct (IH r dict maxn (2 * runN) (es + (0 + 1) * runN) n acc) as [rn' Hr]; [nia|].
    exists rn'. rewrite Hr. f_equal. nia.
  - exists runN. f_equal. lia.
Qed.

Lemma dec_digits k r dict maxn n acc :
  k + 1 < 4194304 ->
  exists runN',
    mtf_rle2_decode (digits k ++ r) dict maxn 1 0 n acc =
    mtf_rle2_decode r dict maxn runN' k n acc.
Proof.
  intros H. unfold digits. destruct k as [|q]; [exists 1; reflexivity|].
  destruct (N.pos q + 1) as [|p] eqn:E; [lia|].
  destruct (dec_digs p r dict maxn 1 0 n acc) as [rn' Hr]; [lia|].
  exists rn'. rewrite Hr. f_equal. lia.
Qed.

(* ---- move-to-front: index and pick agree ----------------------------------------- *)
Lemma index_pick v d : forall l i,
  In v l ->
  exists j rest,
    mtf_index N.eqb v l i = i + N.of_nat j /\
    (j < length l)%nat /\
    mtf_pick j l d = (v, rest) /\
    Permutation (v :: rest) l /\
    (j = O -> hd d l = v).
Proof.
  induction l as [|x l IH]; intros i Hin; [destruct Hin|].
  cbn [mtf_index]. destruct (x =? v) eqn:E.
  - apply N.eqb_eq in E. subst x. exists O, l. cbn [mtf_pick length hd].
    repeat split; try reflexivity; lia.
  - destruct Hin as [Hx|Hin]; [apply N.eqb_neq in E; contradiction|].
    destruct (IH (i + 1) Hin) as (j & rest & Hi & Hj & Hp & Hperm & _).
    exists (S j), (x :: rest). cbn [mtf_pick length]. rewrite Hp.
    repeat split; try lia.
    eapply perm_trans; [apply perm_swap|]. apply perm_skip. exact Hperm.
Qed.

(* ---- the decoder inverts the encoder -------------------------------------------- *)
Definition len (l : list byte) : N := N.of_nat (length l).

Lemma dec_enc maxn vals : forall dict k n acc,
  (forall v, In v vals -> In v dict) ->
  n + k + len vals <= maxn ->
  k + len vals + 1 < 4194304 ->
  mtf_rle2_decode (enc vals dict k) dict maxn 1 0 n acc =
  Some (n + k + len vals, rev vals ++ repeat (hd 0 dict) (N.to_nat k) ++ acc).
Proof.
  unfold len. induction vals as [|v r IH]; intros dict k n acc Hin Hmax Hrun;
    cbn [enc length rev] in *.
  - destruct (dec_digits k [] dict maxn n acc) as [rn' Hr]; [lia|].
    rewrite app_nil_r in Hr. rewrite Hr. cbn [mtf_rle2_decode app]. unfold flush_run.
    destruct (k =? 0) eqn:Ek.
    + apply N.eqb_eq in Ek. subst k. cbn [N.to_nat repeat app]. f_equal. f_equal. lia.
    + destruct (maxn <? n + k) eqn:El; [lia|].
      rewrite nat_of_to_nat, repeat_acc_eq. f_equal. f_equal. lia.
  - destruct (index_pick v 0 dict 0 (Hin v (or_introl eq_refl)))
      as (j & rest & Hi & Hj & Hp & Hperm & Hhd).
    rewrite Hi. destruct (0 + N.of_nat j =? 0) eqn:Ej.
    + assert (j = O) by lia. specialize (Hhd H).
      rewrite IH; [| intros y Hy; apply Hin; right; exact Hy | lia | lia].
      f_equal. f_equal; [lia|].
      replace (N.to_nat (k + 1)) with (S (N.to_nat k)) by lia.
      cbn [repeat]. rewrite Hhd, <- app_assoc. reflexivity.
    + replace (N.to_nat (0 + N.of_nat j)) with j by lia. rewrite Hp.
      destruct (dec_digits k ((0 + N.of_nat j + 1) :: enc r (v :: rest) 0) dict maxn n acc)
        as [rn' Hr]; [lia|].
      rewrite Hr. cbn [mtf_rle2_decode].
      destruct (0 + N.of_nat j + 1 <? 2) eqn:E2; [lia|].
      replace (N.to_nat (0 + N.of_nat j + 1 - 1)) with j by lia. rewrite Hp.
      assert (Hfl : flush_run dict maxn k n acc =
                    Some (n + k, repeat (hd 0 dict) (N.to_nat k) ++ acc)).
      { unfold flush_run. destruct (k =? 0) eqn:Ek.
        - apply N.eqb_eq in Ek. subst k. cbn [N.to_nat repeat app]. f_equal. f_equal. lia.
        - destruct (maxn <? n + k) eqn:El; [lia|].
          rewrite nat_of_to_nat, repeat_acc_eq. reflexivity. }
      rewrite Hfl. destruct (maxn <=? n + k) eqn:El; [lia|].
      rewrite IH; [| | lia | lia].
      * f_equal. f_equal; [lia|]. cbn [N.to_nat repeat app]. rewrite <- app_assoc. reflexivity.
      * intros y Hy. eapply Permutation_in; [apply Permutation_sym; exact Hperm|].
        apply Hin. right. exact Hy.
Qed.

(* Main theorem.  [dict] is any list containing every value (in encode_block:
   filter (is_used used) (iota 256), duplicate free, 1..256 entries - none of
   which is needed here); [maxn] = level*100000 is the decoder's block limit.
   The condition on the length is what keeps every run counter below the 2^21
   the decoder refuses; it is tight (mtf_rle2_bound_tight below). *)
Theorem mtf_rle2_roundtrip vals dict maxn :
  (forall v, In v vals -> In v dict) ->
  N.of_nat (length vals) <= maxn ->
  N.of_nat (length vals) + 1 < 4194304 ->
  mtf_rle2_decode (mtf_rle2_encode vals dict 0 []) dict maxn 1 0 0 [] =
  Some (N.of_nat (length vals), rev vals).
Proof.
  intros Hin Hmax Hrun. rewrite encode_eq. cbn [rev app].
  rewrite dec_enc; unfold len; [| exact Hin | lia | lia].
  cbn [N.to_nat repeat app]. rewrite app_nil_r.
  replace (0 + 0 + N.of_nat (length vals)) with (N.of_nat (length vals)) by lia. reflexivity.
Qed.

(* with the real limits: maxn = level*100000 <= 900000 *)
Corollary mtf_rle2_roundtrip_block vals dict maxn :
  (forall v, In v vals -> In v dict) ->
  N.of_nat (length vals) <= maxn -> maxn <= 900000 ->
  mtf_rle2_decode (mtf_rle2_encode vals dict 0 []) dict maxn 1 0 0 [] =
  Some (N.of_nat (length vals), fast_rev (fast_rev (rev vals))) /\
  fast_rev (rev vals) = vals.
Proof.
  intros Hin Hmax Hlim. rewrite !fast_rev_eq, !rev_involutive. split; [|reflexivity].
  apply mtf_rle2_roundtrip; [exact Hin | exact Hmax | lia].
Qed.

(* ---- every symbol fits the alphabet --------------------------------------------- *)
Lemma enc_syms_le vals : forall dict k,
  (forall v, In v vals -> In v dict) ->
  (k <> 0 -> dict <> []) ->
  Forall (fun s => s <= len dict) (enc vals dict k).
Proof.
  unfold len. induction vals as [|v r IH]; intros dict k Hin Hk; cbn [enc].
  - assert (Hd := digits_le1 k). destruct (N.eq_dec k 0) as [->|Hk0]; [constructor|].
    specialize (Hk Hk0). destruct dict as [|d dict]; [contradiction|].
    eapply Forall_impl; [|exact Hd]. cbn [length]. intros s Hs. lia.
  - destruct (index_pick v 0 dict 0 (Hin v (or_introl eq_refl)))
      as (j & rest & Hi & Hj & Hp & Hperm & Hhd).
    rewrite Hi. destruct (0 + N.of_nat j =? 0) eqn:Ej.
    + apply IH; [intros y Hy; apply Hin; right; exact Hy|].
      intros _ ->. cbn [length] in Hj. lia.
    + replace (N.to_nat (0 + N.of_nat j)) with j by lia. rewrite Hp.
      apply Forall_app. split; [|constructor].
      * eapply Forall_impl; [|apply digits_le1]. intros s Hs. cbv beta in *. lia.
      * lia.
      * rewrite <- (Permutation_length Hperm).
        apply IH; [|intros F; exfalso; apply F; reflexivity].
        intros y Hy. eapply Permutation_in; [apply Permutation_sym; exact Hperm|].
        apply Hin. right. exact Hy.
Qed.

Theorem mtf_rle2_syms_le vals dict :
  (forall v, In v vals -> In v dict) ->
  Forall (fun s => s <= N.of_nat (length dict)) (mtf_rle2_encode vals dict 0 []).
Proof.
  intros Hin. rewrite encode_eq. cbn [rev app].
  apply enc_syms_le; [exact Hin | intros F; exfalso; apply F; reflexivity].
Qed.

(* ---- the length bound is tight --------------------------------------------------- *)
Lemma enc_repeat b m : forall k, enc (repeat b m) [b] k = digits (k + N.of_nat m).
Proof.
  induction m as [|m IH]; intros k; cbn [repeat enc].
  - f_equal. lia.
  - cbn [mtf_index]. rewrite N.eqb_refl. change (0 =? 0) with true. cbv iota.
    rewrite IH. f_equal. lia.
Qed.

(* a block of 2^22 - 1 equal bytes: the run is written with 22 symbols and the
   decoder refuses the last one, whatever [maxn] *)
Theorem mtf_rle2_bound_tight b maxn :
  let vals := repeat b (N.to_nat 4194303) in
  N.of_nat (length vals) + 1 = 4194304 /\
  mtf_rle2_decode (mtf_rle2_encode vals [b] 0 []) [b] maxn 1 0 0 [] = None.
Proof.
  cbv zeta. split.
  - rewrite repeat_length. lia.
  - rewrite encode_eq, enc_repeat. cbn [rev app].
    replace (0 + N.of_nat (N.to_nat 4194303)) with 4194303 by lia.
    vm_compute. reflexivity.
Qed.

(* ---- the dictionary of encode_block ---------------------------------------------- *)
Lemma iota_acc_eq n : forall k acc,
  (n <= N.to_nat k)%nat ->
  iota_acc n k acc = map N.of_nat (seq (N.to_nat k - n) n) ++ acc.
Proof.
  induction n as [|n IH]; intros k acc H; cbn [iota_acc]; [reflexivity|].
  rewrite IH by lia. rewrite seq_S, map_app, <- app_assoc. cbn [map app].
  replace (N.to_nat (k - 1) - n)%nat with (N.to_nat k - S n)%nat by lia.
  replace (N.of_nat (N.to_nat k - S n + n)) with (k - 1) by lia. reflexivity.
Qed.

Lemma iota_eq m : iota m = map N.of_nat (seq 0 (N.to_nat m)).
Proof.
  unfold iota. rewrite nat_of_to_nat, iota_acc_eq by lia.
  rewrite Nat.sub_diag, app_nil_r. reflexivity.
Qed.

Lemma iota_In m x : In x (iota m) <-> x < m.
Proof.
  rewrite iota_eq, in_map_iff. split.
  - intros (y & <- & Hy). apply in_seq in Hy. lia.
  - intros H. exists (N.to_nat x). split; [lia|]. apply in_seq. lia.
Qed.

Lemma iota_NoDup m : NoDup (iota m).
Proof.
  rewrite iota_eq. apply FinFun.Injective_map_NoDup; [|apply seq_NoDup].
  intros a b H. lia.
Qed.

Lemma iota_length m : length (iota m) = N.to_nat m.
Proof. rewrite iota_eq, map_length, seq_length. reflexivity. Qed.

Lemma is_used_set m k b : is_used (nm_set m k true) b = (b =? k) || is_used m b.
Proof.
  unfold is_used, nm_getd, nm_get, nm_set. destruct (b =? k) eqn:E.
  - apply N.eqb_eq in E. subst b. rewrite PositiveMap.gss. reflexivity.
  - apply N.eqb_neq in E. rewrite PositiveMap.gso; [reflexivity|].
    intros F. apply E. apply N.succ_inj. rewrite <- !N.succ_pos_spec, F. reflexivity.
Qed.

Lemma is_used_fold block : forall m b,
  is_used (fold_left (fun m b => nm_set m b true) block m) b = true <->
  In b block \/ is_used m b = true.
Proof.
  induction block as [|x block IH]; intros m b; cbn [fold_left In].
  - tauto.
  - rewrite IH, is_used_set, orb_true_iff, N.eqb_eq. intuition congruence.
Qed.

Lemma is_used_map block b : is_used (used_map block) b = true <-> In b block.
Proof.
  unfold used_map. rewrite is_used_fold.
  assert (E : is_used nm_empty b = false).
  { unfold is_used, nm_getd, nm_get, nm_empty. rewrite PositiveMap.gempty. reflexivity. }
  rewrite E. intuition discriminate.
Qed.

Lemma filter_length_le' {A} (f : A -> bool) l : (length (filter f l) <= length l)%nat.
Proof. induction l as [|x l IH]; cbn [filter length]; [lia|]. destruct (f x); cbn [length]; lia. Qed.

(* the dictionary built by encode_block: the distinct bytes of the block *)
Definition block_dict (block : list byte) : list byte :=
  filter (is_used (used_map block)) (iota 256).

Theorem block_dict_ok block :
  bytes_ok block ->
  let dict := block_dict block in
  NoDup dict /\
  (forall v, In v dict <-> In v block) /\
  (length dict <= 256)%nat /\
  (block <> [] -> (1 <= length dict)%nat).
Proof.
  intros Hok dict. assert (Hin : forall v, In v dict <-> In v block).
  { intros v. unfold dict, block_dict. rewrite filter_In, iota_In, is_used_map. split; [tauto|].
    intros H. split; [|exact H]. unfold bytes_ok in Hok. rewrite Forall_forall in Hok.
    apply Hok. exact H. }
  split; [apply NoDup_filter, iota_NoDup|]. split; [exact Hin|]. split.
  - unfold dict, block_dict. etransitivity; [apply filter_length_le'|]. rewrite iota_length. lia.
  - intros Hne. destruct block as [|b block]; [contradiction|].
    assert (H : In b dict) by (apply Hin; left; reflexivity).
    destruct dict; [destruct H|cbn [length]; lia].
Qed.

(* Stage 3 as used by encode_block / decode_block: [bwt] is the BWT of the
   block (any list made of the block's bytes), [maxn] = level*100000. *)
Theorem mtf_rle2_roundtrip_encode_block block bwt maxn :
  bytes_ok block ->
  (forall v, In v bwt -> In v block) ->
  N.of_nat (length bwt) <= maxn -> maxn <= 900000 ->
  let dict := block_dict block in
  mtf_rle2_decode (mtf_rle2_encode bwt dict 0 []) dict maxn 1 0 0 [] =
    Some (N.of_nat (length bwt), rev bwt) /\
  Forall (fun s => s <= N.of_nat (length dict)) (mtf_rle2_encode bwt dict 0 []) /\
  (length dict <= 256)%nat.
Proof.
  intros Hok Hsub Hmax Hlim dict.
  destruct (block_dict_ok block Hok) as (_ & Hin & Hlen & _). fold dict in Hin, Hlen.
  assert (Hd : forall v, In v bwt -> In v dict) by (intros v Hv; apply Hin, Hsub, Hv).
  split; [apply mtf_rle2_roundtrip; [exact Hd | exact Hmax | lia]|].
  split; [apply mtf_rle2_syms_le; exact Hd | exact Hlen].
Qed.

Print Assumptions mtf_rle2_roundtrip.
Print Assumptions mtf_rle2_roundtrip_block.
Print Assumptions mtf_rle2_syms_le.
Print Assumptions mtf_rle2_bound_tight.
Print Assumptions block_dict_ok.
Print Assumptions mtf_rle2_roundtrip_encode_block.
