(* C09 / C12 for bzip2: a valid stream (or concatenation of streams) cut short at any byte.

   - [bzip2_cut_is_ueof]   every proper non-empty prefix of [bzip2_encode level data] is
                           answered with exactly UnexpectedEOF, what was delivered is a
                           prefix of [data], and every byte of the cut was consumed;
   - [bzip2_decode_nil]    the empty input: UnexpectedEOF as well (no stream at all;
                           [bzip2_proper_prefix_is_ueof] covers 0 <= k < length);
   - [bzip2_cut_inside] / [bzip2_cut_multi_inside] / [bzip2_cut_multi_boundary] /
     [bzip2_cut_multi]     the same for a concatenation of encodings: a cut inside a member
                           is UnexpectedEOF after the data of the members before it and a
                           prefix of that member's data; a cut exactly between two members
                           is acceptance of the members before it;
   - [bzip2_trailing_garbage] / [bzip2_trailing_one_byte]
                           a complete stream followed by two bytes that are not "BZ" is
                           Corrupted after the stream's data has been delivered; followed by
                           a single byte it is UnexpectedEOF.

   Route: [one_stream] never asks "is the source exhausted" ([ef_one_stream]); the generic
   locality theorems of Base/ProgThms.v then turn [one_stream_correct] (the complete
   stream decodes and is consumed to its last bit) into the statement about cuts.  The loop
   budget [depth_for_n] of the SHORTER input is handled by budget monotonicity
   ([fl_bzip2_prog], via Base/DepthThms.v) and budget sufficiency (Bzip2/Safe.v): the run
   with the cut's own budget equals the run with any larger budget ([bzip2_run_depth]).
   [drains]: on a byte-aligned source a run that starves has consumed every bit, which gives
   the input offset ([bz_used] = length of the cut). *)
From Coq Require Import FMapPositive.
From V Require Import Base.Prelude Base.Prog Base.ProgThms Base.FuelThms Base.DepthThms
                      Bzip2.Common Bzip2.SpecR Bzip2.SpecW Bzip2.Safe Bzip2.BitIO
                      Bzip2.StreamRoundTrip.
Local Open Scope N_scope.

(* ---- one_stream never tests for the end of the source ------------------------------------ *)
Lemma ef_rbits n : eof_free (rbits n).
Proof. apply eof_free_bits_msbf_acc. Qed.

Lemma ef_corrupt {A} : eof_free (@corrupt A).
Proof. constructor. Qed.

Lemma ef_read_map_rows hi : forall base, eof_free (read_map_rows hi base).
Proof.
  induction hi as [|h r IH]; intros base; cbn [read_map_rows]; [constructor|].
  apply eof_free_bind.
  - destruct h; [|constructor]. apply eof_free_bind; [apply ef_rbits|]. intros; constructor.
  - intros here. apply eof_free_bind; [apply IH|]. intros; constructor.
Qed.

Lemma ef_read_symbol_map : eof_free read_symbol_map.
Proof. unfold read_symbol_map. apply eof_free_bind; [apply ef_rbits|]. intros; apply ef_read_map_rows. Qed.

Lemma ef_read_unary m : forall acc, eof_free (read_unary m acc).
Proof.
  induction m as [|m IH]; intros acc; cbn [read_unary]; constructor.
  intros [|]; [apply IH | constructor].
Qed.

Lemma ef_read_sel g : eof_free (read_sel g).
Proof.
  unfold read_sel. apply eof_free_bind; [apply ef_read_unary|]. intros j.
  apply eof_free_bind; [apply eof_free_assert|]. intros; constructor.
Qed.

Lemma ef_read_sels n g : forall acc, eof_free (read_sels n g acc).
Proof.
  induction n as [|n IH]; intros acc; cbn [read_sels]; [constructor|].
  apply eof_free_bind; [apply ef_read_sel|]. intros; apply IH.
Qed.

Lemma ef_clen_body c : eof_free (clen_body c).
Proof.
  unfold clen_body. apply eof_free_bind; [apply eof_free_assert|]. intros _.
  constructor. intros more. destruct (negb more); constructor. intros; constructor.
Qed.

Lemma ef_read_lens d n : forall c acc, eof_free (read_lens d n c acc).
Proof.
  induction n as [|n IH]; intros c acc; cbn [read_lens]; [constructor|].
  apply eof_free_bind; [apply eof_free_loop; intros; apply ef_clen_body|]. intros; apply IH.
Qed.

Lemma ef_hwalk rows perm : forall z, eof_free (hwalk rows perm z).
Proof.
  induction rows as [|r rest IH]; intros z; cbn [hwalk]; [apply ef_corrupt|].
  constructor. intros b. cbv zeta.
  destruct (_ <? r_limit1 r).
  - destruct (_ <? r_first r); [apply ef_corrupt|].
    destruct (nm_get _ _); [constructor | apply ef_corrupt].
  - destruct (r_dead r <=? _); [apply ef_corrupt | apply IH].
Qed.

Lemma ef_read_symbol t : eof_free (read_symbol t).
Proof. apply ef_hwalk. Qed.

Lemma ef_read_tables d g a : forall acc, eof_free (read_tables d g a acc).
Proof.
  induction g as [|g IH]; intros acc; cbn [read_tables]; [constructor|].
  apply eof_free_bind; [apply ef_rbits|]. intros start.
  apply eof_free_bind; [apply ef_read_lens|]. intros; apply IH.
Qed.

Lemma ef_read_syms fuel : forall tabs sels gpos cur eob maxn n acc,
  eof_free (read_syms fuel tabs sels gpos cur eob maxn n acc).
Proof.
  induction fuel as [|f IH]; intros tabs sels gpos cur eob maxn n acc; cbn [read_syms]; [constructor|].
  assert (Hstep : forall cur' sels' gpos',
             eof_free (s <- read_symbol cur' ;;
                       if s =? eob then Ret (fast_rev acc)
                       else if eob <? s then corrupt
                       else if maxn <=? n then corrupt
                       else read_syms f tabs sels' (gpos' - 1) cur' eob maxn (n + 1) (s :: acc))).
  { intros cur' sels' gpos'. apply eof_free_bind; [apply ef_read_symbol|]. intros s.
    destruct (s =? eob); [constructor|].
    destruct (eob <? s); [apply ef_corrupt|].
    destruct (maxn <=? n); [apply ef_corrupt | apply IH]. }
  destruct (gpos =? 0); [|apply Hstep].
  destruct sels as [|sel sels']; [apply ef_corrupt | apply Hstep].
Qed.

Lemma ef_put_rep k b : forall crc cont, (forall c, eof_free (cont c)) -> eof_free (put_rep k b crc cont).
Proof.
  induction k as [|k IH]; intros crc cont Hk; cbn [put_rep]; [apply Hk|].
  constructor. apply IH. exact Hk.
Qed.

Lemma ef_rle1_emit l : forall run last crc, eof_free (rle1_emit l run last crc).
Proof.
  induction l as [|b l IH]; intros run last crc; cbn [rle1_emit].
  - destruct (run =? 4); [apply ef_corrupt | constructor].
  - unfold delay. constructor. intros _.
    destruct (run =? 4); [apply ef_put_rep; intros; apply IH|].
    destruct ((0 <? run) && (b =? last)); constructor; apply IH.
Qed.

Lemma ef_decode_block d lvl : eof_free (decode_block d lvl).
Proof.
  unfold decode_block.
  apply eof_free_bind; [apply ef_rbits|]. intros stored.
  apply eof_free_bind; [apply ef_rbits|]. intros rand.
  apply eof_free_bind; [apply eof_free_assert|]. intros _.
  apply eof_free_bind; [apply ef_rbits|]. intros origPtr.
  apply eof_free_bind; [apply ef_read_symbol_map|]. intros used. cbv zeta.
  apply eof_free_bind; [apply eof_free_assert|]. intros _.
  apply eof_free_bind; [apply ef_rbits|]. intros nGroups.
  apply eof_free_bind; [apply eof_free_assert|]. intros _.
  apply eof_free_bind; [apply ef_rbits|]. intros nSelectors.
  apply eof_free_bind; [apply ef_read_sels|]. intros selsMtf.
  apply eof_free_bind; [apply ef_read_tables|]. intros tabs.
  apply eof_free_bind; [apply ef_read_syms|]. intros syms.
  destruct (mtf_rle2_decode _ _ _ _ _ _ _) as [[nblock tt_rev]|]; [|apply ef_corrupt].
  apply eof_free_bind; [apply eof_free_assert|]. intros _.
  apply eof_free_bind; [apply ef_rle1_emit|]. intros crc.
  apply eof_free_bind; [apply eof_free_assert|]. intros; constructor.
Qed.

Lemma ef_blocks_body d lvl c : eof_free (blocks_body d lvl c).
Proof.
  unfold blocks_body. apply eof_free_bind; [apply ef_rbits|]. intros magic.
  destruct (magic =? blkMagic).
  - apply eof_free_bind; [apply ef_decode_block|]. intros; constructor.
  - destruct (magic =? endMagic); [|apply ef_corrupt].
    apply eof_free_bind; [apply ef_rbits|]. intros c0.
    apply eof_free_bind; [apply eof_free_assert|]. intros _.
    constructor. intros; constructor.
Qed.

Theorem ef_one_stream d : eof_free (one_stream d).
Proof.
  unfold one_stream.
  apply eof_free_bind; [apply ef_rbits|]. intros m.
  apply eof_free_bind; [apply eof_free_assert|]. intros _.
  apply eof_free_bind; [apply ef_rbits|]. intros ver.
  apply eof_free_bind.
  { destruct (ver =? 104); [constructor|]. destruct (ver =? 48); [constructor | apply ef_corrupt]. }
  intros _.
  apply eof_free_bind; [apply ef_rbits|]. intros lvl.
  apply eof_free_bind; [apply eof_free_assert|]. intros _.
  apply eof_free_loop. intros; apply ef_blocks_body.
Qed.

(* ---- loop budgets: a larger depth reproduces every run that stayed within its budget ------- *)
Lemma fl_read_lens d d' n : (d <= d')%nat -> forall c acc, fuel_le (read_lens d n c acc) (read_lens d' n c acc).
Proof.
  intros Hd. induction n as [|n IH]; intros c acc; cbn [read_lens]; [apply fuel_le_refl|].
  apply fuel_le_bind; [apply fuel_le_loop; [intros; apply fuel_le_refl | exact Hd]|].
  intros; apply IH.
Qed.

Lemma fl_read_tables d d' g a : (d <= d')%nat -> forall acc, fuel_le (read_tables d g a acc) (read_tables d' g a acc).
Proof.
  intros Hd. induction g as [|g IH]; intros acc; cbn [read_tables]; [apply fuel_le_refl|].
  apply fuel_le_bind; [apply fuel_le_refl|]. intros start.
  apply fuel_le_bind; [apply fl_read_lens; exact Hd|]. intros; apply IH.
Qed.

Lemma fl_decode_block d d' lvl : (d <= d')%nat -> fuel_le (decode_block d lvl) (decode_block d' lvl).
Proof.
  intros Hd. unfold decode_block.
  apply fuel_le_bind; [apply fuel_le_refl|]. intros stored.
  apply fuel_le_bind; [apply fuel_le_refl|]. intros rand.
  apply fuel_le_bind; [apply fuel_le_refl|]. intros _.
  apply fuel_le_bind; [apply fuel_le_refl|]. intros origPtr.
  apply fuel_le_bind; [apply fuel_le_refl|]. intros used. cbv zeta.
  apply fuel_le_bind; [apply fuel_le_refl|]. intros _.
  apply fuel_le_bind; [apply fuel_le_refl|]. intros nGroups.
  apply fuel_le_bind; [apply fuel_le_refl|]. intros _.
  apply fuel_le_bind; [apply fuel_le_refl|]. intros nSelectors.
  apply fuel_le_bind; [apply fuel_le_refl|]. intros selsMtf.
  apply fuel_le_bind; [apply fl_read_tables; exact Hd|]. intros tabs.
  apply fuel_le_refl.
Qed.

Lemma fl_blocks_body d d' lvl c : (d <= d')%nat -> fuel_le (blocks_body d lvl c) (blocks_body d' lvl c).
Proof.
  intros Hd. unfold blocks_body. apply fuel_le_bind; [apply fuel_le_refl|]. intros magic.
  destruct (magic =? blkMagic); [|apply fuel_le_refl].
  apply fuel_le_bind; [apply fl_decode_block; exact Hd|]. intros; apply fuel_le_refl.
Qed.

Lemma fl_one_stream d d' : (d <= d')%nat -> fuel_le (one_stream d) (one_stream d').
Proof.
  intros Hd. unfold one_stream.
  apply fuel_le_bind; [apply fuel_le_refl|]. intros m.
  apply fuel_le_bind; [apply fuel_le_refl|]. intros _.
  apply fuel_le_bind; [apply fuel_le_refl|]. intros ver.
  apply fuel_le_bind; [apply fuel_le_refl|]. intros _.
  apply fuel_le_bind; [apply fuel_le_refl|]. intros lvl.
  apply fuel_le_bind; [apply fuel_le_refl|]. intros _.
  apply fuel_le_loop; [intros; apply fl_blocks_body; exact Hd | exact Hd].
Qed.

Theorem fl_bzip2_prog d d' : (d <= d')%nat -> fuel_le (bzip2_prog d) (bzip2_prog d').
Proof.
  intros Hd. unfold bzip2_prog. apply fuel_le_loop; [|exact Hd].
  intros []. unfold streams_body. apply fuel_le_bind; [apply fl_one_stream; exact Hd|].
  intros; apply fuel_le_refl.
Qed.

(* ---- a starved run has drained its source -------------------------------------------------------
   [drains p]: started on a source that ends on a byte boundary, a run of p that fails with
   UnexpectedEOF has consumed every bit (the failing request is a [Bit] on the empty source: an
   [AlignP] cannot starve on such a source, and p never throws UnexpectedEOF by itself). *)
Definition aligned (s : ast) : Prop := (a_pos s + N.of_nat (length (a_in s))) mod 8 = 0.

Lemma run_aligned {A} (p : prog A) s : aligned s -> aligned (res_state (run p s)).
Proof.
  unfold aligned. intros H. destruct (run_mono p s) as [o [c [_ [H2 H3]]]].
  rewrite H3. rewrite H2, app_length in H.
  replace (a_pos s + N.of_nat (length c) + N.of_nat (length (a_in (res_state (run p s)))))
    with (a_pos s + N.of_nat (length c + length (a_in (res_state (run p s))))) by lia.
  exact H.
Qed.

Definition drains {A} (p : prog A) : Prop :=
  forall s s', aligned s -> run p s = Fail EUEOF s' -> a_in s' = [].

Lemma drains_ret {A} (a : A) : drains (Ret a).
Proof. intros s s' _ H. cbn [run] in H. discriminate. Qed.

Lemma drains_throw {A} e : e <> EUEOF -> drains (@Throw A e).
Proof. intros He s s' _ H. cbn [run] in H. injection H as H _. contradiction. Qed.

Lemma drains_bit {A} (k : bool -> prog A) : (forall b, drains (k b)) -> drains (Bit k).
Proof.
  intros Hk s s' Hs H. cbn [run] in H. destruct (a_in s) as [|b r] eqn:E.
  - injection H as H. subst s'. exact E.
  - refine (Hk b _ s' _ H). unfold aligned in *. rewrite E in Hs. cbn [a_pos a_in length] in *. lia.
Qed.

Lemma drains_align {A} (k : N -> prog A) : (forall v, drains (k v)) -> drains (AlignP k).
Proof.
  intros Hk s s' Hs H. cbn [run] in H. destruct (Nat.leb _ _) eqn:E.
  - apply Nat.leb_le in E. refine (Hk _ _ s' _ H).
    unfold aligned in *. cbn [a_pos a_in]. rewrite skipn_length. 
    replace (a_pos s + N.of_nat (N.to_nat (pad_count (a_pos s))) +
             N.of_nat (length (a_in s) - N.to_nat (pad_count (a_pos s))))
      with (a_pos s + N.of_nat (length (a_in s))) by lia.
    exact Hs.
  - exfalso. apply Nat.leb_gt in E. unfold aligned, pad_count in *. lia.
Qed.

Lemma drains_pos {A} (k : N -> prog A) : (forall v, drains (k v)) -> drains (Pos k).
Proof. intros Hk s s' Hs H. cbn [run] in H. exact (Hk _ s s' Hs H). Qed.

Lemma drains_put {A} b (k : prog A) : drains k -> drains (Put b k).
Proof. intros Hk s s' Hs H. cbn [run] in H. refine (Hk _ s' _ H). exact Hs. Qed.

Lemma drains_bind {A B} (p : prog A) (f : A -> prog B) :
  drains p -> (forall a, drains (f a)) -> drains (bind p f).
Proof.
  intros Hp Hf s s' Hs H. rewrite run_bind in H.
  pose proof (run_aligned p s Hs) as Ha.
  destruct (run p s) as [a s1|e s1] eqn:E.
  - exact (Hf a s1 s' Ha H).
  - injection H as He Hs1. subst e s1. exact (Hp s s' Hs E).
Qed.

Lemma drains_iter2 {S R} d (body : S -> prog (S + R)) :
  (forall st, drains (body st)) -> forall st, drains (iter2 d body st).
Proof.
  intros Hb. induction d as [|d IH]; intros st; cbn [iter2]; [apply Hb|].
  apply drains_bind; [apply IH|]. intros [st1|x]; [apply IH | apply drains_ret].
Qed.

Lemma drains_loop {S R} d (body : S -> prog (S + R)) st :
  (forall st, drains (body st)) -> drains (loop d body st).
Proof.
  intros Hb. unfold loop. apply drains_bind; [apply drains_iter2; exact Hb|].
  intros [st1|x]; [apply drains_throw; discriminate | apply drains_ret].
Qed.

Lemma drains_assert c e : e <> EUEOF -> drains (assert_p c e).
Proof. intros He. unfold assert_p. destruct c; [apply drains_ret | apply drains_throw; exact He]. Qed.

Lemma drains_msbf_acc n : forall acc, drains (bits_msbf_acc n acc).
Proof.
  induction n as [|n IH]; intros acc; cbn [bits_msbf_acc]; [apply drains_ret|].
  apply drains_bit. intros b. apply IH.
Qed.

Ltac dr_c :=
  first [ apply drains_ret | apply drains_throw; discriminate | apply drains_bit
        | apply drains_pos | apply drains_put | apply drains_align ].

(* ---- one_stream drains ---------------------------------------------------------------------- *)
Lemma dr_rbits n : drains (rbits n).
Proof. apply drains_msbf_acc. Qed.

Lemma dr_corrupt {A} : drains (@corrupt A).
Proof. dr_c. Qed.

Lemma dr_read_map_rows hi : forall base, drains (read_map_rows hi base).
Proof.
  induction hi as [|h r IH]; intros base; cbn [read_map_rows]; [dr_c|].
  apply drains_bind.
  - destruct h; [|dr_c]. apply drains_bind; [apply dr_rbits|]. intros; dr_c.
  - intros here. apply drains_bind; [apply IH|]. intros; dr_c.
Qed.

Lemma dr_read_symbol_map : drains read_symbol_map.
Proof. unfold read_symbol_map. apply drains_bind; [apply dr_rbits|]. intros; apply dr_read_map_rows. Qed.

Lemma dr_read_unary m : forall acc, drains (read_unary m acc).
Proof.
  induction m as [|m IH]; intros acc; cbn [read_unary]; dr_c.
  intros [|]; [apply IH | dr_c].
Qed.

Lemma dr_read_sel g : drains (read_sel g).
Proof.
  unfold read_sel. apply drains_bind; [apply dr_read_unary|]. intros j.
  apply drains_bind; [apply drains_assert; discriminate|]. intros; dr_c.
Qed.

Lemma dr_read_sels n g : forall acc, drains (read_sels n g acc).
Proof.
  induction n as [|n IH]; intros acc; cbn [read_sels]; [dr_c|].
  apply drains_bind; [apply dr_read_sel|]. intros; apply IH.
Qed.

Lemma dr_clen_body c : drains (clen_body c).
Proof.
  unfold clen_body. apply drains_bind; [apply drains_assert; discriminate|]. intros _.
  dr_c. intros more. destruct (negb more); dr_c. intros; dr_c.
Qed.

Lemma dr_read_lens d n : forall c acc, drains (read_lens d n c acc).
Proof.
  induction n as [|n IH]; intros c acc; cbn [read_lens]; [dr_c|].
  apply drains_bind; [apply drains_loop; intros; apply dr_clen_body|]. intros; apply IH.
Qed.

Lemma dr_hwalk rows perm : forall z, drains (hwalk rows perm z).
Proof.
  induction rows as [|r rest IH]; intros z; cbn [hwalk]; [apply dr_corrupt|].
  dr_c. intros b. cbv zeta.
  destruct (_ <? r_limit1 r).
  - destruct (_ <? r_first r); [apply dr_corrupt|].
    destruct (nm_get _ _); [dr_c | apply dr_corrupt].
  - destruct (r_dead r <=? _); [apply dr_corrupt | apply IH].
Qed.

Lemma dr_read_symbol t : drains (read_symbol t).
Proof. apply dr_hwalk. Qed.

Lemma dr_read_tables d g a : forall acc, drains (read_tables d g a acc).
Proof.
  induction g as [|g IH]; intros acc; cbn [read_tables]; [dr_c|].
  apply drains_bind; [apply dr_rbits|]. intros start.
  apply drains_bind; [apply dr_read_lens|]. intros; apply IH.
Qed.

Lemma dr_read_syms fuel : forall tabs sels gpos cur eob maxn n acc,
  drains (read_syms fuel tabs sels gpos cur eob maxn n acc).
Proof.
  induction fuel as [|f IH]; intros tabs sels gpos cur eob maxn n acc; cbn [read_syms]; [dr_c|].
  assert (Hstep : forall cur' sels' gpos',
             drains (s <- read_symbol cur' ;;
                       if s =? eob then Ret (fast_rev acc)
                       else if eob <? s then corrupt
                       else if maxn <=? n then corrupt
                       else read_syms f tabs sels' (gpos' - 1) cur' eob maxn (n + 1) (s :: acc))).
  { intros cur' sels' gpos'. apply drains_bind; [apply dr_read_symbol|]. intros s.
    destruct (s =? eob); [dr_c|].
    destruct (eob <? s); [apply dr_corrupt|].
    destruct (maxn <=? n); [apply dr_corrupt | apply IH]. }
  destruct (gpos =? 0); [|apply Hstep].
  destruct sels as [|sel sels']; [apply dr_corrupt | apply Hstep].
Qed.

Lemma dr_put_rep k b : forall crc cont, (forall c, drains (cont c)) -> drains (put_rep k b crc cont).
Proof.
  induction k as [|k IH]; intros crc cont Hk; cbn [put_rep]; [apply Hk|].
  dr_c. apply IH. exact Hk.
Qed.

Lemma dr_rle1_emit l : forall run last crc, drains (rle1_emit l run last crc).
Proof.
  induction l as [|b l IH]; intros run last crc; cbn [rle1_emit].
  - destruct (run =? 4); [apply dr_corrupt | dr_c].
  - unfold delay. dr_c. intros _.
    destruct (run =? 4); [apply dr_put_rep; intros; apply IH|].
    destruct ((0 <? run) && (b =? last)); dr_c; apply IH.
Qed.

Lemma dr_decode_block d lvl : drains (decode_block d lvl).
Proof.
  unfold decode_block.
  apply drains_bind; [apply dr_rbits|]. intros stored.
  apply drains_bind; [apply dr_rbits|]. intros rand.
  apply drains_bind; [apply drains_assert; discriminate|]. intros _.
  apply drains_bind; [apply dr_rbits|]. intros origPtr.
  apply drains_bind; [apply dr_read_symbol_map|]. intros used. cbv zeta.
  apply drains_bind; [apply drains_assert; discriminate|]. intros _.
  apply drains_bind; [apply dr_rbits|]. intros nGroups.
  apply drains_bind; [apply drains_assert; discriminate|]. intros _.
  apply drains_bind; [apply dr_rbits|]. intros nSelectors.
  apply drains_bind; [apply dr_read_sels|]. intros selsMtf.
  apply drains_bind; [apply dr_read_tables|]. intros tabs.
  apply drains_bind; [apply dr_read_syms|]. intros syms.
  destruct (mtf_rle2_decode _ _ _ _ _ _ _) as [[nblock tt_rev]|]; [|apply dr_corrupt].
  apply drains_bind; [apply drains_assert; discriminate|]. intros _.
  apply drains_bind; [apply dr_rle1_emit|]. intros crc.
  apply drains_bind; [apply drains_assert; discriminate|]. intros; dr_c.
Qed.

Lemma dr_blocks_body d lvl c : drains (blocks_body d lvl c).
Proof.
  unfold blocks_body. apply drains_bind; [apply dr_rbits|]. intros magic.
  destruct (magic =? blkMagic).
  - apply drains_bind; [apply dr_decode_block|]. intros; dr_c.
  - destruct (magic =? endMagic); [|apply dr_corrupt].
    apply drains_bind; [apply dr_rbits|]. intros c0.
    apply drains_bind; [apply drains_assert; discriminate|]. intros _.
    dr_c. intros; dr_c.
Qed.

Theorem dr_one_stream d : drains (one_stream d).
Proof.
  unfold one_stream.
  apply drains_bind; [apply dr_rbits|]. intros m.
  apply drains_bind; [apply drains_assert; discriminate|]. intros _.
  apply drains_bind; [apply dr_rbits|]. intros ver.
  apply drains_bind.
  { destruct (ver =? 104); [dr_c|]. destruct (ver =? 48); [dr_c | apply dr_corrupt]. }
  intros _.
  apply drains_bind; [apply dr_rbits|]. intros lvl.
  apply drains_bind; [apply drains_assert; discriminate|]. intros _.
  apply drains_loop. intros; apply dr_blocks_body.
Qed.


(* ---- the budget that [bzip2_decode] picks is as good as any larger one --------------------- *)
Lemma depth_for_n_mono a b : a <= b -> (depth_for_n a <= depth_for_n b)%nat.
Proof.
  intros H. unfold depth_for_n. assert (N.log2 (8 * a + 64) <= N.log2 (8 * b + 64)); [|lia].
  apply N.log2_le_mono. lia.
Qed.

Lemma bits_len_lt_depth (input : list byte) D :
  (depth_for_n (len_n input) <= D)%nat -> (length (bits_of_bytes_msb input) < 2 ^ D)%nat.
Proof.
  intros HD. rewrite bits_of_bytes_msb_length.
  pose proof (depth_for_n_enough (len_n input)) as H. rewrite len_n_eq, Nat2N.id in H.
  assert (2 ^ depth_for_n (len_n input) <= 2 ^ D)%nat by (apply Nat.pow_le_mono_r; lia).
  rewrite len_n_eq in *. lia.
Qed.

Lemma bzip2_run_depth input D :
  (depth_for_n (len_n input) <= D)%nat ->
  run (bzip2_prog (depth_for_n (len_n input))) (ast_init (bits_of_bytes_msb input)) =
  run (bzip2_prog D) (ast_init (bits_of_bytes_msb input)).
Proof.
  intros HD. symmetry. apply (fl_bzip2_prog _ _ HD).
  apply (not_efuel_of_nofuel (2 ^ depth_for_n (len_n input))).
  - apply bzip2_prog_nofuel. lia.
  - unfold ilen, ast_init. cbn [a_in]. apply bits_len_lt_depth. lia.
Qed.

(* ---- one stream on a proper prefix of its bits ----------------------------------------------- *)
Lemma one_stream_cut D level data C R pos out len :
  (5 <= D)%nat -> 1 <= level <= 9 -> bytes_ok data -> pos mod 8 = 0 ->
  stream_bits level data ++ repeat false (stream_pad level data) = C ++ R -> R <> [] ->
  (length (C ++ R) < 2 ^ D)%nat -> N.of_nat (length C) mod 8 = 0 ->
  exists o s', run (one_stream D) (mkAst C pos out len) = Fail EUEOF s' /\
               a_out s' = o ++ out /\ prefix_of (rev o) data /\
               a_in s' = [] /\ a_pos s' = pos + N.of_nat (length C).
Proof.
  intros HD Hl Hd Hpos Hsplit HR Hlen HCal.
  pose proof (one_stream_correct D level data [] pos out len HD Hl Hd Hpos) as Hfull.
  rewrite app_nil_r, Hsplit in Hfull. specialize (Hfull Hlen).
  set (s := mkAst C pos out len).
  change (mkAst (C ++ R) pos out len) with (ext s R) in Hfull.
  pose proof (ef_one_stream D) as Hef.
  destruct (run (one_stream D) s) as [a s1|e s1] eqn:E.
  - exfalso.
    assert (Hne : res_err (run (one_stream D) s) <> Some EUEOF) by (rewrite E; discriminate).
    pose proof (run_extend _ s R Hef Hne) as Hx. rewrite E, Hfull in Hx.
    apply (f_equal (fun r : result unit => a_in (res_state r))) in Hx.
    cbn [ext_result ext res_state a_in] in Hx. rename Hx into Hin.
    symmetry in Hin. apply app_eq_nil in Hin. destruct Hin as [_ Hin]. contradiction.
  - destruct (err_eqb e EUEOF) eqn:Ee.
    + apply err_eqb_eq in Ee. subst e.
      destruct (run_mono (one_stream D) s) as [o [c [H1 _]]]. rewrite E in H1. cbn [res_state] in H1.
      assert (Hu : res_err (run (one_stream D) s) = Some EUEOF) by (rewrite E; reflexivity).
      destruct (run_extend_ueof _ s R Hef Hu) as [o2 Ho2]. rewrite Hfull, E in Ho2.
      cbn [res_state a_out] in Ho2. unfold s in H1. cbn [a_out] in H1.
      assert (Hdr : a_in s1 = []).
      { apply (dr_one_stream D s s1); [|exact E]. unfold aligned, s. cbn [a_pos a_in]. lia. }
      exists o, s1. split; [reflexivity|]. split; [exact H1|]. split; [|split; [exact Hdr|]].
      * rewrite H1, app_assoc in Ho2. apply app_inv_tail in Ho2.
        exists (rev o2). rewrite <- rev_app_distr, <- Ho2, rev_involutive. reflexivity.
      * destruct (run_mono (one_stream D) s) as [o' [c' [_ [H2' H3']]]]. rewrite E in H2', H3'.
        cbn [res_state] in H2', H3'. rewrite Hdr, app_nil_r in H2'. unfold s in H2', H3'.
        cbn [a_in a_pos] in H2', H3'. subst c'. exact H3'.
    + exfalso.
      assert (Hne : res_err (run (one_stream D) s) <> Some EUEOF).
      { rewrite E. cbn [res_err]. intros H; injection H as H. subst e.
        rewrite (proj2 (err_eqb_eq EUEOF EUEOF) eq_refl) in Ee. discriminate. }
      pose proof (run_extend _ s R Hef Hne) as Hx. rewrite E, Hfull in Hx. discriminate.
Qed.

(* ---- the stream loop walks over complete members that are followed by something ------------- *)
Lemma encode_all_nil_bits : bits_of_bytes_msb (encode_all []) = [].
Proof. reflexivity. Qed.

Lemma encode_all_cons ld inputs : encode_all (ld :: inputs) = bzip2_encode (fst ld) (snd ld) ++ encode_all inputs.
Proof. reflexivity. Qed.

Lemma encode_all_app a b : encode_all (a ++ b) = encode_all a ++ encode_all b.
Proof. unfold encode_all. rewrite map_app, concat_app. reflexivity. Qed.

Lemma streams_loops_pre D : (5 <= D)%nat ->
  forall pre T pos out len r,
    inputs_ok pre -> pos mod 8 = 0 -> T <> [] ->
    (length (bits_of_bytes_msb (encode_all pre) ++ T) < 2 ^ D)%nat ->
    loops (streams_body D) tt
          (mkAst T (pos + N.of_nat (length (bits_of_bytes_msb (encode_all pre))))
                 (rev (concat (map snd pre)) ++ out)
                 (len + N.of_nat (length (concat (map snd pre))))) r ->
    loops (streams_body D) tt (mkAst (bits_of_bytes_msb (encode_all pre) ++ T) pos out len) r.
Proof.
  intros HD. induction pre as [|[level data] pre IH]; intros T pos out len r Hok Hpos HT Hlen Hr.
  - rewrite encode_all_nil_bits in *. cbn [app map concat rev length] in *.
    rewrite !N.add_0_r in Hr. exact Hr.
  - pose proof (Forall_inv Hok) as Hld. pose proof (Forall_inv_tail Hok) as Hok'. cbn [fst snd] in Hld.
    destruct Hld as [Hlevel Hd].
    rewrite encode_all_cons in *. cbn [fst snd map concat] in *.
    rewrite bits_of_bytes_msb_app, bzip2_encode_bits, <- !app_assoc in *.
    assert (Hone := one_stream_correct D level data (bits_of_bytes_msb (encode_all pre) ++ T)
                      pos out len HD Hlevel Hd Hpos Hlen).
    destruct (bits_of_bytes_msb (encode_all pre) ++ T) as [|b0 r0] eqn:E0.
    { apply app_eq_nil in E0. destruct E0 as [_ E0]. contradiction. }
    eapply loops_step.
    + unfold streams_body. rewrite run_bind, Hone. cbn [run a_in]. reflexivity.
    + rewrite <- E0. apply IH.
      * exact Hok'.
      * unfold stream_pad. pose proof (pad_aligned (N.of_nat (length (stream_bits level data)))). lia.
      * exact HT.
      * rewrite E0. rewrite !app_length in Hlen. cbn [length] in *. lia.
      * match type of Hr with loops _ _ ?s0 _ =>
          match goal with |- loops _ _ ?s1 _ => replace s1 with s0; [exact Hr|] end end.
        f_equal.
        -- rewrite !app_length, repeat_length. lia.
        -- rewrite rev_app_distr, <- app_assoc. reflexivity.
        -- rewrite app_length. lia.
Qed.

(* ---- bytes and bits of a cut ------------------------------------------------------------------ *)
Lemma firstn_skipn_bits k (e : list byte) :
  bits_of_bytes_msb e = bits_of_bytes_msb (firstn k e) ++ bits_of_bytes_msb (skipn k e).
Proof. rewrite <- bits_of_bytes_msb_app, firstn_skipn. reflexivity. Qed.

Lemma bits_nonempty (l : list byte) : l <> [] -> bits_of_bytes_msb l <> [].
Proof.
  intros Hl E. apply (f_equal (@length bool)) in E. rewrite bits_of_bytes_msb_length in E.
  destruct l; [contradiction|]. cbn [length] in E. lia.
Qed.

(* the run of the decoder on a cut inside member [(level, data)], after the members [pre] *)
Lemma cut_run_core pre level data k :
  inputs_ok pre -> 1 <= level <= 9 -> bytes_ok data ->
  (0 < k < length (bzip2_encode level data))%nat ->
  let cut := encode_all pre ++ firstn k (bzip2_encode level data) in
  exists o s',
    run (bzip2_prog (depth_for_n (len_n cut))) (ast_init (bits_of_bytes_msb cut)) = Fail EUEOF s' /\
    a_out s' = o ++ rev (concat (map snd pre)) /\ prefix_of (rev o) data /\
    a_pos s' = N.of_nat (8 * length cut).
Proof.
  intros Hok Hlevel Hd Hk cut.
  set (e := bzip2_encode level data) in *.
  set (full := encode_all pre ++ e).
  set (D := depth_for_n (len_n full)).
  assert (Hcutlen : (length cut <= length full)%nat).
  { unfold cut, full. rewrite !app_length, firstn_length. lia. }
  assert (HdD : (depth_for_n (len_n cut) <= D)%nat).
  { apply depth_for_n_mono. rewrite !len_n_eq. lia. }
  assert (HD5 : (5 <= D)%nat) by apply depth_for_n_ge5.
  rewrite (bzip2_run_depth cut D HdD).
  set (C := bits_of_bytes_msb (firstn k e)). set (R := bits_of_bytes_msb (skipn k e)).
  assert (HCR : stream_bits level data ++ repeat false (stream_pad level data) = C ++ R).
  { rewrite <- bzip2_encode_bits. apply firstn_skipn_bits. }
  assert (HC : C <> []).
  { apply bits_nonempty. intros E. apply (f_equal (@length byte)) in E.
    rewrite firstn_length in E. cbn [length] in E. lia. }
  assert (HR : R <> []).
  { apply bits_nonempty. intros E. apply (f_equal (@length byte)) in E.
    rewrite skipn_length in E. cbn [length] in E. lia. }
  assert (Hfull : (length (bits_of_bytes_msb full) < 2 ^ D)%nat) by (apply bits_len_lt_depth; unfold D; lia).
  assert (Hfull' : (length (bits_of_bytes_msb (encode_all pre) ++ C ++ R) < 2 ^ D)%nat).
  { unfold C, R. rewrite <- firstn_skipn_bits, <- bits_of_bytes_msb_app. exact Hfull. }
  set (pos1 := 0 + N.of_nat (length (bits_of_bytes_msb (encode_all pre)))).
  assert (Hpos1 : pos1 mod 8 = 0).
  { unfold pos1. rewrite bits_of_bytes_msb_length. lia. }
  destruct (one_stream_cut D level data C R pos1 (rev (concat (map snd pre)) ++ [])
              (0 + N.of_nat (length (concat (map snd pre)))) HD5 Hlevel Hd Hpos1 HCR HR)
    as (o & s' & Hrun & Hout & Hpre & _ & Hpos').
  { rewrite !app_length in *. lia. }
  { unfold C. rewrite bits_of_bytes_msb_length. lia. }
  exists o, s'. split; [|split; [rewrite Hout, app_nil_r; reflexivity | split; [exact Hpre|]]].
  2:{ rewrite Hpos'. unfold pos1, C, cut. rewrite app_length, !bits_of_bytes_msb_length. lia. }
  unfold bzip2_prog, ast_init, cut. rewrite bits_of_bytes_msb_app. fold C.
  apply loops_loop.
  - apply (streams_loops_pre D HD5 pre C 0 [] 0 _ Hok); [reflexivity | exact HC | |].
    + rewrite !app_length in *. lia.
    + apply loops_fail. unfold streams_body. rewrite run_bind. fold pos1. rewrite Hrun. reflexivity.
  - apply (not_efuel_of_nofuel (2 ^ D)); [apply bzip2_prog_nofuel; lia|].
    unfold ilen. cbn [a_in]. rewrite !app_length in *. lia.
Qed.

(* ---- C09 / C12: cuts ---------------------------------------------------------------------------- *)
(* no stream at all: the first read starves *)
Theorem bzip2_decode_nil : bzip2_decode [] = mkBZ (Some EUEOF) [] 0.
Proof. vm_compute. reflexivity. Qed.

Lemma firstn_app_whole {A} (l r : list A) : firstn (length l) (l ++ r) = l.
Proof. rewrite firstn_app, firstn_all, Nat.sub_diag. cbn [firstn]. apply app_nil_r. Qed.

Lemma firstn_cut_shape {A} (a e t : list A) k :
  (k <= length e)%nat -> firstn (length a + k) (a ++ e ++ t) = a ++ firstn k e.
Proof.
  intros Hk. rewrite firstn_app_2, firstn_app. replace (k - length e)%nat with O by lia.
  cbn [firstn]. rewrite app_nil_r. reflexivity.
Qed.

(* the general form: complete members [pre], then a member cut strictly inside, whatever
   followed it in the uncut input *)
Theorem bzip2_cut_inside pre level data (tail : list byte) k :
  inputs_ok pre -> 1 <= level <= 9 -> bytes_ok data ->
  (0 < k < length (bzip2_encode level data))%nat ->
  let r := bzip2_decode (firstn (length (encode_all pre) + k)
                                (encode_all pre ++ bzip2_encode level data ++ tail)) in
  bz_err r = Some EUEOF /\
  (exists p, prefix_of p data /\ bz_out r = concat (map snd pre) ++ p) /\
  bz_used r = N.of_nat (length (encode_all pre) + k).
Proof.
  intros Hok Hlevel Hd Hk. rewrite firstn_cut_shape by lia.
  destruct (cut_run_core pre level data k Hok Hlevel Hd Hk) as (o & s' & Hrun & Hout & Hpre & Hpos).
  cbv zeta in Hrun, Hpos |- *. unfold bzip2_decode. rewrite Hrun.
  cbn [bz_err bz_out bz_used]. unfold res_err, res_out, res_pos, res_state.
  split; [reflexivity|]. split.
  - exists (rev o). split; [exact Hpre|].
    rewrite fast_rev_eq, Hout, rev_app_distr, rev_involutive. reflexivity.
  - rewrite Hpos, app_length, firstn_length. lia.
Qed.

(* 1. a single stream cut at any byte *)
Theorem bzip2_cut_is_ueof level data k :
  1 <= level <= 9 -> (forall b, In b data -> b < 256) ->
  (0 < k < length (bzip2_encode level data))%nat ->
  bz_err (bzip2_decode (firstn k (bzip2_encode level data))) = Some EUEOF /\
  prefix_of (bz_out (bzip2_decode (firstn k (bzip2_encode level data)))) data /\
  bz_used (bzip2_decode (firstn k (bzip2_encode level data))) = N.of_nat k.
Proof.
  intros Hlevel Hb Hk.
  assert (Hd : bytes_ok data) by (apply Forall_forall; exact Hb).
  pose proof (bzip2_cut_inside [] level data [] k (Forall_nil _) Hlevel Hd Hk) as H.
  cbv zeta in H. cbn [encode_all map concat length app Nat.add] in H. rewrite app_nil_r in H.
  destruct H as (H1 & (p & Hp & H2) & H3). split; [exact H1|]. split; [|exact H3].
  rewrite H2. exact Hp.
Qed.

(* 2. concatenated streams *)
Theorem bzip2_cut_multi_inside pre level data post k :
  inputs_ok pre -> 1 <= level <= 9 -> bytes_ok data ->
  (0 < k < length (bzip2_encode level data))%nat ->
  let r := bzip2_decode (firstn (length (encode_all pre) + k)
                                (encode_all (pre ++ (level, data) :: post))) in
  bz_err r = Some EUEOF /\
  (exists p, prefix_of p data /\ bz_out r = concat (map snd pre) ++ p) /\
  bz_used r = N.of_nat (length (encode_all pre) + k).
Proof.
  intros Hok Hlevel Hd Hk. rewrite encode_all_app, encode_all_cons. cbn [fst snd].
  apply bzip2_cut_inside; assumption.
Qed.

(* a cut exactly between two members (or at the very end) is acceptance *)
Theorem bzip2_cut_multi_boundary pre post :
  pre <> [] -> inputs_ok pre ->
  bzip2_decode (firstn (length (encode_all pre)) (encode_all (pre ++ post))) =
  mkBZ None (concat (map snd pre)) (N.of_nat (length (encode_all pre))).
Proof.
  intros Hne Hok. rewrite encode_all_app, firstn_app_whole. apply bzip2_roundtrip_multi; assumption.
Qed.

(* every cut position of a concatenation is of one of the two kinds *)
Lemma locate_cut inputs : forall k,
  (0 < k <= length (encode_all inputs))%nat ->
  exists pre ld post, inputs = pre ++ ld :: post /\
    (length (encode_all pre) < k <= length (encode_all pre) + length (bzip2_encode (fst ld) (snd ld)))%nat.
Proof.
  induction inputs as [|ld inputs IH]; intros k Hk.
  - cbn [encode_all map concat length] in Hk. lia.
  - rewrite encode_all_cons, app_length in Hk.
    destruct (Nat.leb k (length (bzip2_encode (fst ld) (snd ld)))) eqn:E.
    + apply Nat.leb_le in E. exists [], ld, inputs. split; [reflexivity|].
      cbn [encode_all map concat length]. lia.
    + apply Nat.leb_gt in E.
      destruct (IH (k - length (bzip2_encode (fst ld) (snd ld)))%nat ltac:(lia)) as (pre & ld' & post & E1 & E2).
      exists (ld :: pre), ld', post. split; [rewrite E1; reflexivity|].
      rewrite encode_all_cons, app_length. lia.
Qed.

Theorem bzip2_cut_multi inputs k :
  inputs_ok inputs -> (0 < k <= length (encode_all inputs))%nat ->
  let r := bzip2_decode (firstn k (encode_all inputs)) in
  exists pre level data post,
    inputs = pre ++ (level, data) :: post /\
    ( (* strictly inside member number [length pre + 1] *)
      ((length (encode_all pre) < k < length (encode_all (pre ++ [(level, data)])))%nat /\
       bz_err r = Some EUEOF /\
       (exists p, prefix_of p data /\ bz_out r = concat (map snd pre) ++ p) /\
       bz_used r = N.of_nat k)
      \/
      (* exactly at the end of that member *)
      (k = length (encode_all (pre ++ [(level, data)])) /\
       r = mkBZ None (concat (map snd pre) ++ data) (N.of_nat k)) ).
Proof.
  intros Hok Hk. cbv zeta.
  destruct (locate_cut inputs k Hk) as (pre & [level data] & post & E & Hr). cbn [fst snd] in Hr.
  exists pre, level, data, post. split; [exact E|].
  subst inputs. unfold inputs_ok in Hok. apply Forall_app in Hok. destruct Hok as [Hpre Hrest].
  pose proof (Forall_inv Hrest) as Hld. cbn [fst snd] in Hld. destruct Hld as [Hlevel Hd].
  assert (Elen : length (encode_all (pre ++ [(level, data)])) =
                 (length (encode_all pre) + length (bzip2_encode level data))%nat).
  { rewrite encode_all_app, app_length. cbn [encode_all map concat fst snd]. rewrite app_nil_r. reflexivity. }
  destruct (Nat.eqb k (length (encode_all pre) + length (bzip2_encode level data))) eqn:Ek.
  - right. apply Nat.eqb_eq in Ek. split; [lia|].
    assert (Hok2 : inputs_ok (pre ++ [(level, data)])).
    { apply Forall_app. split; [exact Hpre|]. constructor; [|constructor]. cbn [fst snd]. auto. }
    pose proof (bzip2_cut_multi_boundary (pre ++ [(level, data)]) post
                  ltac:(intros C; apply app_eq_nil in C; destruct C; discriminate) Hok2) as H.
    rewrite <- app_assoc in H. cbn [app] in H. rewrite Elen, <- Ek in H. rewrite H.
    rewrite map_app, concat_app. cbn [map concat snd]. rewrite app_nil_r. reflexivity.
  - left. apply Nat.eqb_neq in Ek. split; [lia|].
    replace k with (length (encode_all pre) + (k - length (encode_all pre)))%nat by lia.
    apply (bzip2_cut_multi_inside pre level data post); try assumption. lia.
Qed.

(* ---- 3. a complete stream followed by bytes that are not a stream ------------------------------ *)
Lemma bits_msb_mbits b : bits_msb b = mbits 8 b.
Proof. reflexivity. Qed.

Lemma mval_mbits n v : v < 2 ^ N.of_nat n -> mval (mbits n v) = v.
Proof.
  intros Hv. pose proof (reads_rbits n v Hv [] 0 [] 0) as H1.
  pose proof (reads_rbits_list (mbits n v) [] 0 [] 0) as H2.
  rewrite mbits_length in H2. rewrite H1 in H2.
  apply (f_equal (fun r : result N => match r with Done a _ => a | Fail _ _ => 0 end)) in H2.
  symmetry. exact H2.
Qed.

Lemma app_eq_len_inv {A} : forall (l1 m1 l2 m2 : list A),
  l1 ++ l2 = m1 ++ m2 -> length l1 = length m1 -> l1 = m1 /\ l2 = m2.
Proof.
  induction l1 as [|x l1 IH]; intros [|y m1] l2 m2 E Hl; cbn [length] in Hl; try discriminate.
  - split; [reflexivity | exact E].
  - cbn [app] in E. injection E as Ex E. injection Hl as Hl.
    destruct (IH m1 l2 m2 E Hl) as [E1 E2]. subst. split; reflexivity.
Qed.

Lemma byte_of_mbits b v : v < 256 -> mbits 8 b = mbits 8 v -> b mod 256 = v.
Proof.
  intros Hv E. rewrite <- (mbits_mod 8 b) in E. change (2 ^ N.of_nat 8) with 256 in E.
  apply (f_equal mval) in E. rewrite !mval_mbits in E.
  - exact E.
  - change (2 ^ N.of_nat 8) with 256. exact Hv.
  - change (2 ^ N.of_nat 8) with 256. apply N.mod_lt. discriminate.
Qed.

Lemma not_magic b0 b1 :
  ~ (b0 mod 256 = 66 /\ b1 mod 256 = 90) -> (mval (mbits 8 b0 ++ mbits 8 b1) =? hdrMagic) = false.
Proof.
  intros Hn. apply N.eqb_neq. intros Em. apply Hn.
  set (l := mbits 8 b0 ++ mbits 8 b1) in *.
  assert (Hl : length l = 16%nat) by reflexivity.
  pose proof (mbits_mval l) as X. rewrite Hl, Em in X.
  change (mbits 16 hdrMagic) with (mbits 8 66 ++ mbits 8 90) in X. unfold l in X.
  symmetry in X. apply app_eq_len_inv in X; [|rewrite !mbits_length; reflexivity].
  destruct X as [X0 X1]. split; apply byte_of_mbits; try assumption; reflexivity.
Qed.

Lemma bits_of_bytes_msb_cons b l : bits_of_bytes_msb (b :: l) = mbits 8 b ++ bits_of_bytes_msb l.
Proof. rewrite !bits_of_bytes_msb_eq. reflexivity. Qed.

Lemma encode_all_single level data : encode_all [(level, data)] = bzip2_encode level data.
Proof. cbn [encode_all map concat fst snd]. apply app_nil_r. Qed.

(* a field cannot be read from fewer bits than it has: the source is drained *)
Lemma run_msbf_short n : forall acc inp pos out len,
  (length inp < n)%nat ->
  run (bits_msbf_acc n acc) (mkAst inp pos out len) =
  Fail EUEOF (mkAst [] (pos + N.of_nat (length inp)) out len).
Proof.
  induction n as [|n IH]; intros acc inp pos out len Hn; [lia|].
  cbn [bits_msbf_acc run a_in a_pos a_out a_len]. destruct inp as [|b r].
  - cbn [length]. rewrite N.add_0_r. reflexivity.
  - cbn [length] in *. rewrite IH by lia. do 2 f_equal. lia.
Qed.

(* the run of the decoder on one complete stream followed by a non-empty tail [T]: the stream's
   data is delivered, then a second stream is started on the tail *)
Lemma after_stream_run level data (tail : list byte) r :
  1 <= level <= 9 -> bytes_ok data -> tail <> [] ->
  let input := bzip2_encode level data ++ tail in
  let D := depth_for_n (len_n input) in
  run (one_stream D)
      (mkAst (bits_of_bytes_msb tail) (N.of_nat (8 * length (bzip2_encode level data)))
             (rev data) (N.of_nat (length data))) = r ->
  res_err r <> None ->
  run (bzip2_prog D) (ast_init (bits_of_bytes_msb input)) =
  match r with Done _ s => Fail EFuel s | Fail e s => Fail e s end.
Proof.
  intros Hlevel Hd Htail input D Hr Hfail.
  assert (HD5 : (5 <= D)%nat) by apply depth_for_n_ge5.
  assert (Hlen : (length (bits_of_bytes_msb input) < 2 ^ D)%nat) by (apply bits_len_lt_depth; unfold D; lia).
  assert (Hok : inputs_ok [(level, data)]).
  { constructor; [|constructor]. cbn [fst snd]. auto. }
  destruct r as [a s1|e s1]; [exfalso; apply Hfail; reflexivity|].
  unfold bzip2_prog, ast_init, input in *. rewrite bits_of_bytes_msb_app in *.
  rewrite <- (encode_all_single level data) in *.
  apply loops_loop.
  - apply (streams_loops_pre D HD5 [(level, data)] (bits_of_bytes_msb tail) 0 [] 0 _ Hok);
      [reflexivity | apply bits_nonempty; exact Htail | exact Hlen |].
    apply loops_fail. unfold streams_body. rewrite run_bind.
    cbn [map concat snd]. rewrite !app_nil_r, bits_of_bytes_msb_length, !N.add_0_l, Hr. reflexivity.
  - apply (not_efuel_of_nofuel (2 ^ D)); [apply bzip2_prog_nofuel; lia|].
    unfold ilen. cbn [a_in]. exact Hlen.
Qed.

Theorem bzip2_trailing_garbage level data b0 b1 t :
  1 <= level <= 9 -> (forall b, In b data -> b < 256) ->
  ~ (b0 mod 256 = 66 /\ b1 mod 256 = 90) ->
  bzip2_decode (bzip2_encode level data ++ b0 :: b1 :: t) =
  mkBZ (Some ECorrupted) data (N.of_nat (length (bzip2_encode level data)) + 2).
Proof.
  intros Hlevel Hb Hn.
  assert (Hd : bytes_ok data) by (apply Forall_forall; exact Hb).
  unfold bzip2_decode.
  erewrite (after_stream_run level data (b0 :: b1 :: t) _ Hlevel Hd ltac:(discriminate)).
  2:{ unfold one_stream. rewrite !bits_of_bytes_msb_cons, app_assoc, run_bind.
      pose proof (reads_rbits_list (mbits 8 b0 ++ mbits 8 b1)) as Hr.
      change (length (mbits 8 b0 ++ mbits 8 b1)) with 16%nat in Hr. rewrite Hr.
      rewrite (not_magic b0 b1 Hn). cbn [assert_p bind run]. reflexivity. }
  2:{ discriminate. }
  unfold res_err, res_out, res_pos, res_state. cbn [a_out a_pos].
  rewrite fast_rev_eq, rev_involutive. f_equal.
  change (length (mbits 8 b0 ++ mbits 8 b1)) with 16%nat. lia.
Qed.

(* a single trailing byte is not enough to tell: UnexpectedEOF *)
Theorem bzip2_trailing_one_byte level data b :
  1 <= level <= 9 -> (forall b, In b data -> b < 256) ->
  bzip2_decode (bzip2_encode level data ++ [b]) =
  mkBZ (Some EUEOF) data (N.of_nat (length (bzip2_encode level data)) + 1).
Proof.
  intros Hlevel Hb.
  assert (Hd : bytes_ok data) by (apply Forall_forall; exact Hb).
  unfold bzip2_decode.
  erewrite (after_stream_run level data [b] _ Hlevel Hd ltac:(discriminate)).
  2:{ unfold one_stream, rbits, bits_msbf. rewrite run_bind, run_msbf_short; [reflexivity|].
      rewrite bits_of_bytes_msb_length. cbn [length]. lia. }
  2:{ discriminate. }
  unfold res_err, res_out, res_pos, res_state. cbn [a_out a_pos].
  rewrite fast_rev_eq, rev_involutive, bits_of_bytes_msb_length. cbn [length]. f_equal. lia.
Qed.

(* every proper prefix, the empty one included *)
Corollary bzip2_proper_prefix_is_ueof level data k :
  1 <= level <= 9 -> (forall b, In b data -> b < 256) ->
  (k < length (bzip2_encode level data))%nat ->
  bz_err (bzip2_decode (firstn k (bzip2_encode level data))) = Some EUEOF /\
  prefix_of (bz_out (bzip2_decode (firstn k (bzip2_encode level data)))) data /\
  bz_used (bzip2_decode (firstn k (bzip2_encode level data))) = N.of_nat k.
Proof.
  intros Hlevel Hb Hk. destruct k as [|k].
  - cbn [firstn]. rewrite bzip2_decode_nil. cbn [bz_err bz_out bz_used].
    split; [reflexivity|]. split; [exists data; reflexivity | reflexivity].
  - apply bzip2_cut_is_ueof; [exact Hlevel | exact Hb | lia].
Qed.

(* ---- non-vacuity ---------------------------------------------------------------------------------- *)
Example bzip2_cut_is_ueof_ex :
  let data := [65; 66] in
  (0 < 30 < length (bzip2_encode 1 data))%nat /\
  bz_err (bzip2_decode (firstn 30 (bzip2_encode 1 data))) = Some EUEOF /\
  bz_out (bzip2_decode (firstn 30 (bzip2_encode 1 data))) = data.
Proof.
  cbv zeta. assert (E : length (bzip2_encode 1 [65; 66]) = 37%nat) by (vm_compute; reflexivity).
  split; [rewrite E; lia|].
  split; [|vm_compute; reflexivity].
  apply (bzip2_cut_is_ueof 1 [65; 66] 30); [lia | | rewrite E; lia].
  intros b Hb. cbn [In] in Hb. lia.
Qed.

(* the theorem agrees with the computed behaviour at every cut position of a small stream *)
Example bzip2_cut_all_positions_computed :
  let e := bzip2_encode 1 [65; 66] in
  forallb (fun k => let r := bzip2_decode (firstn k e) in
                    match bz_err r with Some EUEOF => true | _ => false end &&
                    (bz_used r =? N.of_nat k) &&
                    list_eqb N.eqb (bz_out r) (firstn (length (bz_out r)) [65; 66]))
          (seq 0 (length e)) = true.
Proof. vm_compute. reflexivity. Qed.

Example bzip2_cut_multi_ex :
  let inputs := [(1, [65; 66]); (2, [67; 67; 67; 67; 67; 67; 68])] in
  inputs_ok inputs /\
  (* position 50 lies inside the second member, position 37 is the boundary *)
  length (encode_all [(1, [65; 66])]) = 37%nat /\ length (encode_all inputs) = 78%nat /\
  bzip2_decode (firstn 50 (encode_all inputs)) = mkBZ (Some EUEOF) [65; 66] 50 /\
  bzip2_decode (firstn 70 (encode_all inputs)) = mkBZ (Some EUEOF) [65; 66; 67; 67; 67; 67; 67; 67; 68] 70 /\
  bzip2_decode (firstn 37 (encode_all inputs)) = mkBZ None [65; 66] 37.
Proof.
  cbv zeta. split.
  - repeat apply Forall_cons; try apply Forall_nil; cbn [fst snd]; (split; [lia|]);
      apply Forall_forall; intros b Hb; cbn [In] in Hb; unfold byte_ok; lia.
  - vm_compute. repeat split; reflexivity.
Qed.

Example bzip2_cut_multi_boundary_ex :
  let pre := [(1, [65; 66])] in let post := [(2, [67])] in
  pre <> [] /\ inputs_ok pre /\
  bzip2_decode (firstn (length (encode_all pre)) (encode_all (pre ++ post))) = mkBZ None [65; 66] 37.
Proof.
  cbv zeta. split; [discriminate|]. split.
  - constructor; [|constructor]. cbn [fst snd]. split; [lia|].
    apply Forall_forall; intros b Hb; cbn [In] in Hb; unfold byte_ok; lia.
  - vm_compute. reflexivity.
Qed.

Example bzip2_trailing_garbage_ex :
  ~ (66 mod 256 = 66 /\ 0 mod 256 = 90) /\
  bzip2_decode (bzip2_encode 1 [65; 66] ++ [66; 0; 7]) = mkBZ (Some ECorrupted) [65; 66] 39 /\
  bzip2_decode (bzip2_encode 1 [65; 66] ++ [66]) = mkBZ (Some EUEOF) [65; 66] 38.
Proof.
  split; [intros [_ C]; discriminate|]. vm_compute. split; reflexivity.
Qed.

Print Assumptions ef_one_stream.
Print Assumptions dr_one_stream.
Print Assumptions fl_bzip2_prog.
Print Assumptions bzip2_decode_nil.
Print Assumptions bzip2_cut_inside.
Print Assumptions bzip2_cut_is_ueof.
Print Assumptions bzip2_proper_prefix_is_ueof.
Print Assumptions bzip2_cut_multi_inside.
Print Assumptions bzip2_cut_multi_boundary.
Print Assumptions bzip2_cut_multi.
Print Assumptions bzip2_trailing_garbage.
Print Assumptions bzip2_trailing_one_byte.
