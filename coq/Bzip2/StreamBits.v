(* bzip2 round trip, three independent facts about the encoder model:
   1. [pack_msb] (bits to bytes, zero padded) read back with
      [bits_of_bytes_msb] gives the bits followed by the padding;
   2. the CRC register and the combined CRC stay 32-bit values;
   3. stage 3 (MTF + RLE2) never produces more symbols than input values. *)
From V Require Import Base.Prelude Base.Prog Bzip2.Common Bzip2.SpecR Bzip2.SpecW
  Bzip2.SortLemmas Bzip2.MtfRle2.

Local Open Scope N_scope.

(* ---- GROUP 1: byte packing ------------------------------------------------------ *)
Theorem bits_msb_byte_of_bits b7 b6 b5 b4 b3 b2 b1 b0 :
  bits_msb (byte_of_bits b7 b6 b5 b4 b3 b2 b1 b0) = [b7;b6;b5;b4;b3;b2;b1;b0].
Proof.
  destruct b7, b6, b5, b4, b3, b2, b1, b0; reflexivity.
Qed.

Definition pad_nat (n : nat) : nat := ((8 - n mod 8) mod 8)%nat.

Lemma pad_nat_add8 n : pad_nat (8 + n) = pad_nat n.
Proof.
  unfold pad_nat. replace ((8 + n) mod 8)%nat with (n mod 8)%nat; [reflexivity|].
  replace (8 + n)%nat with (n + 1 * 8)%nat by lia.
  rewrite Nat.mod_add by lia. reflexivity.
Qed.

Lemma pad_count_nat n : N.to_nat (pad_count (N.of_nat n)) = pad_nat n.
Proof.
  unfold pad_count, pad_nat.
  rewrite N2Nat.inj_mod, N2Nat.inj_sub, N2Nat.inj_mod, Nat2N.id.
  reflexivity.
Qed.

Lemma pack_msb_gen : forall fuel bits acc,
  (length bits / 8 + 9 <= fuel)%nat ->
  bytes_to_bits_msb (pack_msb fuel bits acc) =
  bytes_to_bits_msb (rev acc) ++ bits ++ repeat false (pad_nat (length bits)).
Proof.
  induction fuel as [|f IH]; intros bits acc Hf; [lia|].
  destruct bits as [|b7 [|b6 [|b5 [|b4 [|b3 [|b2 [|b1 [|b0 r]]]]]]]].
  9: {
    cbn [pack_msb]. rewrite IH.
    - cbn [rev]. unfold bytes_to_bits_msb. rewrite flat_map_app. cbn [flat_map].
      rewrite bits_msb_byte_of_bits, app_nil_r, <- app_assoc.
      change (length (b7 :: b6 :: b5 :: b4 :: b3 :: b2 :: b1 :: b0 :: r))
        with (8 + length r)%nat.
      rewrite pad_nat_add8. reflexivity.
    - change (length (b7 :: b6 :: b5 :: b4 :: b3 :: b2 :: b1 :: b0 :: r))
        with (8 + length r)%nat in Hf.
      replace (8 + length r)%nat with (1 * 8 + length r)%nat in Hf by lia.
      rewrite Nat.div_add_l in Hf by lia. lia.
  }
  all: do 8 (destruct f as [|f]; [cbn in Hf; lia|]).
  all: cbn [pack_msb app]; rewrite fast_rev_eq; cbn [rev];
    unfold bytes_to_bits_msb; try rewrite flat_map_app; cbn [flat_map];
    try rewrite bits_msb_byte_of_bits; rewrite ?app_nil_r; reflexivity.
Qed.

Theorem pack_msb_bits bits :
  (8 <= length bits)%nat ->
  bits_of_bytes_msb (pack_msb (S (S (nat_of (len_n bits)))) bits []) =
  bits ++ repeat false (N.to_nat (pad_count (N.of_nat (length bits)))).
Proof.
  intros Hlen. rewrite bits_of_bytes_msb_eq, pack_msb_gen.
  - rewrite pad_count_nat. reflexivity.
  - rewrite nat_of_nat, len_n_length, Nat2N.id.
    assert (length bits / 8 <= length bits / 1)%nat
      by (apply Nat.div_le_compat_l; lia).
    rewrite Nat.div_1_r in H.
    assert (8 * (length bits / 8) <= length bits)%nat
      by (apply Nat.mul_div_le; lia).
    lia.
Qed.

Example pack_msb_bits_ex :
  let bits := [true;false;true;true;false;false;true;false;true;true;false] in
  pack_msb (S (S (nat_of (len_n bits)))) bits [] = [178; 192] /\
  bits_of_bytes_msb [178; 192] = bits ++ repeat false 5.
Proof. vm_compute. split; reflexivity. Qed.

(* ---- GROUP 2: the CRC is a 32-bit value ----------------------------------------- *)
Lemma lt_pow2_log2 a n : 0 < n -> (a < 2 ^ n <-> N.log2 a < n).
Proof.
  intros Hn. destruct (N.eq_dec a 0) as [->|Ha].
  - cbn [N.log2]. split; intros _; [exact Hn|]. apply N.neq_0_lt_0, N.pow_nonzero. lia.
  - apply N.log2_lt_pow2. lia.
Qed.

Lemma lxor_lt32 a b : a < 2 ^ 32 -> b < 2 ^ 32 -> N.lxor a b < 2 ^ 32.
Proof.
  intros Ha Hb. apply lt_pow2_log2 in Ha; [|lia]. apply lt_pow2_log2 in Hb; [|lia].
  apply lt_pow2_log2; [lia|].
  pose proof (N.log2_lxor a b). lia.
Qed.

Lemma lor_lt32 a b : a < 2 ^ 32 -> b < 2 ^ 32 -> N.lor a b < 2 ^ 32.
Proof.
  intros Ha Hb. apply lt_pow2_log2 in Ha; [|lia]. apply lt_pow2_log2 in Hb; [|lia].
  apply lt_pow2_log2; [lia|].
  rewrite N.log2_lor. lia.
Qed.

Lemma land_mask32_lt x : N.land x mask32 < 2 ^ 32.
Proof.
  change mask32 with (N.ones 32). rewrite N.land_ones. apply N.mod_lt.
  apply N.pow_nonzero. lia.
Qed.

Lemma mask32_lt : mask32 < 2 ^ 32.
Proof. reflexivity. Qed.

Definition crc_table_list : list N :=
  map (fun i => crc_shift 8 (N.shiftl (N.of_nat i) 24)) (seq 0 256).

Lemma crc_table_list_lt : Forall (fun x => x < 2 ^ 32) crc_table_list.
Proof.
  apply Forall_forall. intros x Hx.
  assert (Hall : forallb (fun x => x <? 4294967296) crc_table_list = true)
    by (vm_compute; reflexivity).
  rewrite forallb_forall in Hall. specialize (Hall x Hx).
  apply N.ltb_lt in Hall. exact Hall.
Qed.

Lemma crc_table_lt k : nm_getd crc_table k 0 < 2 ^ 32.
Proof.
  unfold crc_table. fold crc_table_list. rewrite nm_of_list_getd.
  destruct (nth_in_or_default (N.to_nat k) crc_table_list 0) as [Hin|Hd].
  - exact (proj1 (Forall_forall _ _) crc_table_list_lt _ Hin).
  - rewrite Hd. reflexivity.
Qed.

Theorem crc_step_lt c b : crc_step c b < 2 ^ 32.
Proof.
  unfold crc_step. apply lxor_lt32; [apply land_mask32_lt | apply crc_table_lt].
Qed.

Theorem crc_fold_lt l : fold_left crc_step l crc_init < 2 ^ 32.
Proof.
  destruct l as [|b r] using rev_ind.
  - exact mask32_lt.
  - rewrite fold_left_app. cbn [fold_left]. apply crc_step_lt.
Qed.

Theorem crc_final_lt c : c < 2 ^ 32 -> crc_final c < 2 ^ 32.
Proof.
  intros Hc. unfold crc_final. apply lxor_lt32; [exact Hc | exact mask32_lt].
Qed.

Theorem rotl1_lt c : c < 2 ^ 32 -> rotl1 c < 2 ^ 32.
Proof.
  intros Hc. unfold rotl1. apply lor_lt32; [apply land_mask32_lt|].
  rewrite N.shiftr_div_pow2.
  eapply N.le_lt_trans; [|exact Hc].
  apply N.div_le_upper_bound; [apply N.pow_nonzero; lia|].
  assert (1 <= 2 ^ 31) by (apply N.lt_pred_le; reflexivity).
  nia.
Qed.

Theorem crc_combine_lt a b : a < 2 ^ 32 -> b < 2 ^ 32 -> crc_combine a b < 2 ^ 32.
Proof.
  intros Ha Hb. unfold crc_combine. apply lxor_lt32; [apply rotl1_lt; exact Ha | exact Hb].
Qed.

Example crc_lt_ex :
  bz_crc [104; 101; 108; 108; 111] = 422667581 /\
  crc_combine (bz_crc [104; 101; 108; 108; 111]) (bz_crc [1; 2; 3]) < 2 ^ 32.
Proof.
  split; [vm_compute; reflexivity|].
  apply crc_combine_lt; unfold bz_crc; apply crc_final_lt, crc_fold_lt.
Qed.

(* ---- GROUP 3: stage 3 does not expand ------------------------------------------- *)
Lemma digs_length p : (length (digs p) + 1 <= Pos.to_nat p)%nat.
Proof.
  induction p as [q IH|q IH|]; cbn [digs length].
  - rewrite Pos2Nat.inj_xI. lia.
  - rewrite Pos2Nat.inj_xO. lia.
  - lia.
Qed.

Lemma digits_length k : (length (digits k) <= N.to_nat k)%nat.
Proof.
  unfold digits. destruct k as [|q]; [cbn; lia|].
  destruct (N.pos q + 1) as [|p] eqn:E; [cbn; lia|].
  pose proof (digs_length p) as Hp.
  assert (N.to_nat (N.pos q + 1) = Pos.to_nat p) by (rewrite E; reflexivity).
  lia.
Qed.

Lemma enc_length vals : forall dict k,
  (length (enc vals dict k) <= length vals + N.to_nat k)%nat.
Proof.
  induction vals as [|v r IH]; intros dict k; cbn [enc length].
  - apply digits_length.
  - destruct (mtf_index N.eqb v dict 0 =? 0).
    + specialize (IH dict (k + 1)). lia.
    + destruct (mtf_pick (N.to_nat (mtf_index N.eqb v dict 0)) dict 0) as [x rest].
      rewrite app_length. cbn [length].
      specialize (IH (x :: rest) 0). pose proof (digits_length k). lia.
Qed.

Theorem mtf_rle2_encode_length vals dict :
  (forall v, In v vals -> In v dict) ->
  (length (mtf_rle2_encode vals dict 0 []) <= length vals)%nat.
Proof.
  intros _. rewrite encode_eq. cbn [rev app].
  pose proof (enc_length vals dict 0). lia.
Qed.

Example mtf_rle2_encode_length_ex :
  let vals : list N := [2; 2; 2; 2; 1; 1; 3; 3; 3] in
  let out := mtf_rle2_encode vals [1; 2; 3] 0 [] in
  out = [2; 0; 0; 2; 0; 3; 1] /\ (length out <= length vals)%nat.
Proof. vm_compute. split; [reflexivity | repeat constructor]. Qed.

Print Assumptions bits_msb_byte_of_bits.
Print Assumptions pack_msb_bits.
Print Assumptions crc_step_lt.
Print Assumptions crc_fold_lt.
Print Assumptions crc_final_lt.
Print Assumptions rotl1_lt.
Print Assumptions crc_combine_lt.
Print Assumptions mtf_rle2_encode_length.
Print Assumptions pack_msb_bits_ex.
Print Assumptions crc_lt_ex.
Print Assumptions mtf_rle2_encode_length_ex.
