(* C04, stage 4e/4f: libbzip2's limit/base/perm decoding tables (SpecR.mk_table,
   read_symbol/hwalk) decode the canonical code the encoder assigns
   (SpecW.canonical_codes), and the symbol loop (SpecR.read_syms) reads back the
   symbols written with tree switching every 50 symbols.

   For a length vector [lens] (length of symbol s = nth s lens):
     cl d    number of symbols of length d
     lim1 d  = limit[d] + 1 : one past the last code value of length d
               lim1 0 = 0, lim1 (d+1) = 2 * lim1 d + cl (d+1)
     cum d   number of symbols of length <= d
   The code of symbol s of length l is  2 * lim1 (l-1) + rank s  where rank s is the
   number of earlier symbols with the same length: both [canonical_codes] (nextCodes)
   and the position of s in [perm] follow this order.  The code fits l bits when the
   Kraft sum of the lengths is at most one. *)
From Coq Require Import FMapPositive.
From V Require Import Base.Prelude Base.Prog Base.ProgThms Bzip2.Common Bzip2.SpecR Bzip2.SpecW
                      Bzip2.SortLemmas Bzip2.MtfRle2 Bzip2.BitIO.
Local Open Scope N_scope.

(* ---- counting ------------------------------------------------------------------------ *)
Lemma count_len_acc lens l : forall a,
  fold_left (fun n x => if x =? l then n + 1 else n) lens a = a + count_len lens l.
Proof.
  unfold count_len. induction lens as [|x r IH]; intros a; cbn [fold_left]; [lia|].
  rewrite IH, (IH (if x =? l then 0 + 1 else 0)). destruct (x =? l); lia.
Qed.

Lemma count_len_cons x lens l : count_len (x :: lens) l = (if x =? l then 1 else 0) + count_len lens l.
Proof.
  unfold count_len at 1. cbn [fold_left]. rewrite count_len_acc. destruct (x =? l); lia.
Qed.

Lemma count_len_app a b l : count_len (a ++ b) l = count_len a l + count_len b l.
Proof.
  induction a as [|x a IH]; cbn [app]; [reflexivity|]. rewrite !count_len_cons, IH. lia.
Qed.

Lemma count_len_firstn_lt lens l s :
  (s < length lens)%nat -> nth s lens 0 = l -> count_len (firstn s lens) l < count_len lens l.
Proof.
  revert s; induction lens as [|x r IH]; intros s Hs Hn; cbn [length] in Hs; [lia|].
  destruct s as [|s]; cbn [firstn nth] in *.
  - subst x. rewrite count_len_cons, N.eqb_refl. change (count_len [] l) with 0. lia.
  - rewrite !count_len_cons. specialize (IH s ltac:(lia) Hn). lia.
Qed.

Lemma max_of_ge lens x : In x lens -> x <= max_of lens.
Proof.
  unfold max_of. assert (G : forall a, a <= fold_left N.max lens a /\ (In x lens -> x <= fold_left N.max lens a)).
  { induction lens as [|y r IH]; intros a; cbn [fold_left In]; [split; [lia | tauto]|].
    destruct (IH (N.max a y)) as [H1 H2]. split; [lia|]. intros [->|H]; [lia | auto]. }
  apply G.
Qed.

Section Code.
  Variable lens : list N.

  Definition cl (d : nat) : N := count_len lens (N.of_nat d).
  Fixpoint lim1 (d : nat) : N := match d with O => 0 | S d' => 2 * lim1 d' + cl (S d') end.
  Fixpoint cum (d : nat) : N := match d with O => 0 | S d' => cum d' + cl (S d') end.

  Definition dkey (i : nat) : N := N.of_nat i + 1.
  Lemma dkey_eq i : dkey i = N.of_nat (S i).
  Proof. unfold dkey. lia. Qed.

  (* limit1 doubles at least *)
  Lemma lim1_grow j : forall a, 2 ^ N.of_nat j * lim1 a <= lim1 (a + j).
  Proof.
    induction j as [|j IH]; intros a.
    - rewrite Nat.add_0_r. change (2 ^ N.of_nat 0) with 1. lia.
    - replace (a + S j)%nat with (S (a + j)) by lia. cbn [lim1].
      rewrite Nat2N.inj_succ, N.pow_succ_r'. specialize (IH a). lia.
  Qed.

  (* ---- the decoder's rows -------------------------------------------------------------- *)
  Definition row3 (i : nat) : N * N * N := (lim1 (S i), 2 * lim1 i, cum i).

  Lemma mk_rows_seq k : forall d,
    mk_rows (map dkey (seq d k)) lens (lim1 d) (cum d) = map row3 (seq d k).
  Proof.
    induction k as [|k IH]; intros d; cbn [seq map mk_rows]; [reflexivity|].
    rewrite dkey_eq. fold (cl (S d)). unfold row3 at 1. cbn [lim1]. f_equal.
    specialize (IH (S d)). cbn [lim1 cum] in IH. exact IH.
  Qed.

  Definition wd (rows : list (N * N * N)) : list hrow := fst (with_dead rows).
  Definition deadv (rows : list (N * N * N)) : N := snd (with_dead rows).

  Lemma with_dead_cons l1 f c r :
    with_dead ((l1, f, c) :: r) =
    (mkRow l1 f c (N.max l1 ((deadv r + 1) / 2)) :: wd r, N.max l1 ((deadv r + 1) / 2)).
  Proof. unfold wd, deadv. cbn [with_dead]. destruct (with_dead r) as [rr t]. reflexivity. Qed.

  (* a value that is a prefix of a code of a later row is not dead *)
  Lemma dead_lt : forall k d n z w,
    (n < k)%nat -> w < 2 ^ N.of_nat n -> z * 2 ^ N.of_nat n + w < lim1 (S (d + n)) ->
    z < deadv (map row3 (seq d k)).
  Proof.
    induction k as [|k IH]; intros d n z w Hn Hw Hz; [lia|].
    cbn [seq map]. unfold row3 at 1. unfold deadv. rewrite with_dead_cons. cbn [snd].
    destruct n as [|n].
    - cbn in Hw. rewrite Nat.add_0_r in Hz. cbn [N.of_nat N.pow] in Hz. lia.
    - assert (H2 : 2 ^ N.of_nat n <> 0) by (apply N.pow_nonzero; lia).
      rewrite Nat2N.inj_succ, N.pow_succ_r' in Hw, Hz.
      specialize (IH (S d) n (2 * z + w / 2 ^ N.of_nat n) (w mod 2 ^ N.of_nat n)).
      assert (Hlt : 2 * z + w / 2 ^ N.of_nat n < deadv (map row3 (seq (S d) k))).
      { apply IH; [lia | apply N.mod_lt; exact H2|].
        replace (S d + n)%nat with (d + S n)%nat by lia.
        pose proof (N.div_mod w (2 ^ N.of_nat n) H2) as E.
        replace ((2 * z + w / 2 ^ N.of_nat n) * 2 ^ N.of_nat n + w mod 2 ^ N.of_nat n)
          with (z * (2 * 2 ^ N.of_nat n) + w); [exact Hz|].
        rewrite E at 1. lia. }
      set (t := deadv (map row3 (seq (S d) k))) in *.
      clearbody t. generalize dependent (w / 2 ^ N.of_nat n). intros q _ Hq.
      clear Hw Hz H2. assert (z < (t + 1) / 2) by lia. lia.
  Qed.

  (* GET_MTF_VAL finds the code: reading the n low bits of w, MSB first, from zvec = z at
     length d reaches length d+n with value zf inside [first, limit1) and returns the perm
     entry *)
  Lemma hwalk_code perm s : forall k d z n w,
    (1 <= n)%nat -> (n <= k)%nat ->
    let zf := z * 2 ^ N.of_nat n + w mod 2 ^ N.of_nat n in
    2 * lim1 (d + n - 1) <= zf -> zf < lim1 (d + n) ->
    nm_get perm (zf - 2 * lim1 (d + n - 1) + cum (d + n - 1)) = Some s ->
    reads (hwalk (wd (map row3 (seq d k))) perm z) (mbits n w) s.
  Proof.
    induction k as [|k IH]; intros d z n w Hn1 Hnk zf Hlo Hhi Hperm; [lia|].
    destruct n as [|n]; [lia|].
    pose proof (dead_lt (S k) d n (2 * z + N.b2n (N.testbit w (N.of_nat n))) (w mod 2 ^ N.of_nat n)) as Hdead.
    cbn [seq map] in *. unfold row3 at 1 in Hdead. unfold row3 at 1.
    unfold wd. unfold deadv in Hdead. rewrite with_dead_cons in *. cbn [fst snd] in *.
    cbn [hwalk mbits]. apply reads_bit. cbn [r_limit1 r_first r_cum r_dead].
    assert (H2 : 2 ^ N.of_nat n <> 0) by (apply N.pow_nonzero; lia).
    assert (Ezf : zf = (2 * z + N.b2n (N.testbit w (N.of_nat n))) * 2 ^ N.of_nat n + w mod 2 ^ N.of_nat n).
    { unfold zf. rewrite Nat2N.inj_succ, mod_pow2_succ, N.pow_succ_r'. lia. }
    set (z' := 2 * z + N.b2n (N.testbit w (N.of_nat n))) in *.
    destruct n as [|n].
    - (* the code ends at this row *)
      cbn [N.of_nat N.pow] in Ezf. rewrite N.mod_1_r in Ezf.
      replace (d + 1 - 1)%nat with d in * by lia. replace (d + 1)%nat with (S d) in * by lia.
      assert (Ez : zf = z') by lia. rewrite Ez in *.
      replace (z' <? lim1 (S d)) with true by (symmetry; apply N.ltb_lt; exact Hhi).
      replace (z' <? 2 * lim1 d) with false by (symmetry; apply N.ltb_ge; exact Hlo).
      rewrite Hperm. cbn [mbits]. apply reads_ret.
    - (* the code is longer: zvec > limit, not dead, next row *)
      assert (Hw : w mod 2 ^ N.of_nat (S n) < 2 ^ N.of_nat (S n)) by (apply N.mod_lt; exact H2).
      assert (Hge : lim1 (S d) <= z').
      { pose proof (lim1_grow n (S d)) as G.
        assert (Ed : (d + S (S n) - 1 = S d + n)%nat) by (clear; lia).
        rewrite Ed in Hlo. rewrite Ezf in Hlo.
        rewrite Nat2N.inj_succ, N.pow_succ_r' in Hlo, Hw.
        destruct (N.lt_ge_cases z' (lim1 (S d))) as [C|C]; [|exact C]. exfalso.
        assert (C2 : (z' + 1) * 2 ^ N.of_nat n <= lim1 (S d) * 2 ^ N.of_nat n)
          by (apply N.mul_le_mono_r; lia).
        clear - Hlo Hw G C2. lia. }
      replace (z' <? lim1 (S d)) with false by (symmetry; apply N.ltb_ge; exact Hge).
      assert (Hd : z' < N.max (lim1 (S d)) ((deadv (map row3 (seq (S d) k)) + 1) / 2)).
      { apply Hdead; [lia | exact Hw|]. rewrite <- Ezf. replace (S (d + S n)) with (d + S (S n))%nat by lia. exact Hhi. }
      match goal with |- context[?a <=? z'] => replace (a <=? z') with false by (symmetry; apply N.leb_gt; exact Hd) end.
      eapply reads_eq; [apply (IH (S d) z' (S n) w) | reflexivity | reflexivity]; try lia.
      + replace (S d + S n - 1)%nat with (d + S (S n) - 1)%nat by lia. rewrite <- Ezf. exact Hlo.
      + replace (S d + S n)%nat with (d + S (S n))%nat by lia. rewrite <- Ezf. exact Hhi.
      + replace (S d + S n - 1)%nat with (d + S (S n) - 1)%nat by lia. rewrite <- Ezf. exact Hperm.
  Qed.

  (* ---- perm: the symbols in (length, symbol) order --------------------------------------- *)
  Definition grp_gen (a : nat) (L : list N) (l : N) : list N :=
    map fst (filter (fun sl : N * N => snd sl =? l) (combine (map N.of_nat (seq a (length L))) L)).

  Lemma grp_length l : forall L a, N.of_nat (length (grp_gen a L l)) = count_len L l.
  Proof.
    induction L as [|x L IH]; intros a; [reflexivity|].
    unfold grp_gen. cbn [length seq map combine filter snd]. rewrite count_len_cons.
    destruct (x =? l); cbn [map length]; fold (grp_gen (S a) L l); rewrite <- (IH (S a)); lia.
  Qed.

  Lemma grp_nth l : forall L a s,
    (s < length L)%nat -> nth s L 0 = l ->
    nth_error (grp_gen a L l) (N.to_nat (count_len (firstn s L) l)) = Some (N.of_nat (a + s)).
  Proof.
    induction L as [|x L IH]; intros a s Hs Hn; cbn [length] in Hs; [lia|].
    unfold grp_gen. cbn [length seq map combine filter snd].
    destruct s as [|s]; cbn [nth firstn] in *.
    - subst x. rewrite N.eqb_refl. cbn [map fst]. rewrite Nat.add_0_r. reflexivity.
    - rewrite count_len_cons. specialize (IH (S a) s ltac:(lia) Hn).
      replace (a + S s)%nat with (S a + s)%nat by lia.
      destruct (x =? l); cbn [map fst]; fold (grp_gen (S a) L l).
      + replace (N.to_nat (1 + count_len (firstn s L) l)) with (S (N.to_nat (count_len (firstn s L) l))) by lia.
        cbn [nth_error]. exact IH.
      + rewrite N.add_0_l. exact IH.
  Qed.

  Definition grp (i : nat) : list N := grp_gen 0 lens (dkey i).

  Lemma perm_list_eq :
    perm_list lens = flat_map grp (seq 0 (N.to_nat (max_of lens))).
  Proof.
    unfold perm_list. rewrite !iota_eq, len_n_length, Nat2N.id, map_map.
    rewrite flat_map_concat_map, map_map, <- flat_map_concat_map. reflexivity.
  Qed.

  Lemma cum_length j : N.of_nat (length (flat_map grp (seq 0 j))) = cum j.
  Proof.
    induction j as [|j IH]; [reflexivity|].
    rewrite seq_S, flat_map_app, app_length, Nat2N.inj_add, IH. cbn [Nat.add flat_map cum].
    rewrite app_nil_r. unfold grp. rewrite grp_length, dkey_eq. reflexivity.
  Qed.

  Lemma perm_nth s l :
    (s < length lens)%nat -> nth s lens 0 = N.of_nat l -> (1 <= l)%nat ->
    nth_error (perm_list lens) (N.to_nat (count_len (firstn s lens) (N.of_nat l) + cum (l - 1))) =
    Some (N.of_nat s).
  Proof.
    intros Hs Hn Hl.
    assert (Hmax : (l <= N.to_nat (max_of lens))%nat).
    { assert (N.of_nat l <= max_of lens); [|lia]. rewrite <- Hn. apply max_of_ge. apply nth_In. exact Hs. }
    rewrite perm_list_eq.
    replace (N.to_nat (max_of lens)) with ((l - 1) + S (N.to_nat (max_of lens) - l))%nat by lia.
    rewrite seq_app, flat_map_app. cbn [seq flat_map Nat.add].
    rewrite <- cum_length.
    replace (N.to_nat (count_len (firstn s lens) (N.of_nat l) + N.of_nat (length (flat_map grp (seq 0 (l - 1))))))
      with (length (flat_map grp (seq 0 (l - 1))) + N.to_nat (count_len (firstn s lens) (N.of_nat l)))%nat by lia.
    rewrite nth_error_app2 by lia.
    replace (length (flat_map grp (seq 0 (l - 1))) + N.to_nat (count_len (firstn s lens) (N.of_nat l)) -
             length (flat_map grp (seq 0 (l - 1))))%nat
      with (N.to_nat (count_len (firstn s lens) (N.of_nat l))) by lia.
    assert (Hk : dkey (l - 1) = N.of_nat l) by (unfold dkey; lia).
    rewrite nth_error_app1.
    - unfold grp. rewrite Hk. rewrite (grp_nth (N.of_nat l) lens 0 s Hs Hn). reflexivity.
    - unfold grp. rewrite Hk.
      pose proof (grp_length (N.of_nat l) lens 0) as G.
      pose proof (count_len_firstn_lt lens (N.of_nat l) s Hs Hn). lia.
  Qed.

  (* ---- the encoder's codes ------------------------------------------------------------------ *)
  Definition next_step (st : N * nmap N) (l : N) : N * nmap N :=
    let code := 2 * fst st in (code + count_len lens l, nm_set (snd st) l code).

  Lemma next_fold k : forall d m,
    let r := fold_left next_step (map dkey (seq d k)) (lim1 d, m) in
    fst r = lim1 (d + k) /\
    forall j, nm_getd (snd r) (N.of_nat j) 0 =
              if (Nat.ltb d j && Nat.leb j (d + k))%bool then 2 * lim1 (j - 1) else nm_getd m (N.of_nat j) 0.
  Proof.
    induction k as [|k IH]; intros d m; cbn [seq map fold_left].
    - rewrite Nat.add_0_r. split; [reflexivity|]. intros j.
      destruct (Nat.ltb_spec d j), (Nat.leb_spec j d); cbn [andb]; try reflexivity. lia.
    - unfold next_step at 2. cbn [fst snd]. rewrite dkey_eq. fold (cl (S d)).
      change (2 * lim1 d + cl (S d)) with (lim1 (S d)).
      destruct (IH (S d) (nm_set m (N.of_nat (S d)) (2 * lim1 d))) as [H1 H2]. cbv zeta in H1, H2.
      split; [rewrite H1; f_equal; lia|]. intros j. rewrite H2.
      destruct (Nat.ltb_spec (S d) j), (Nat.leb_spec j (S d + k)), (Nat.ltb_spec d j), (Nat.leb_spec j (d + S k));
        cbn [andb]; try reflexivity; try lia.
      all: destruct (Nat.eq_dec j (S d)) as [->|Hne];
        [ try lia; rewrite nm_getd_set_eq; f_equal; f_equal; lia
        | try lia; rewrite nm_getd_set_neq by lia; reflexivity ].
  Qed.

  Definition code_step (st : nmap (N * N) * nmap N * N) (l : N) : nmap (N * N) * nmap N * N :=
    let '(m, nx, sym) := st in
    let c := nm_getd nx l 0 in
    (nm_set m sym (l, c), nm_set nx l (c + 1), sym + 1).

  Lemma code_fold (base : N -> N) : forall post pre m nx,
    (forall l, nm_getd nx l 0 = base l + count_len pre l) ->
    let r := fold_left code_step post (m, nx, N.of_nat (length pre)) in
    (forall s, (s < length post)%nat ->
       nm_get (fst (fst r)) (N.of_nat (length pre + s)) =
       Some (nth s post 0, base (nth s post 0) + count_len (pre ++ firstn s post) (nth s post 0))) /\
    (forall x, x < N.of_nat (length pre) -> nm_get (fst (fst r)) x = nm_get m x).
  Proof.
    induction post as [|l post IH]; intros pre m nx Hnx; cbn [fold_left].
    - split; [intros s Hs; cbn [length] in Hs; lia | intros; reflexivity].
    - unfold code_step at 2.
      assert (Hnx' : forall l', nm_getd (nm_set nx l (nm_getd nx l 0 + 1)) l' 0 = base l' + count_len (pre ++ [l]) l').
      { intros l'. rewrite count_len_app, count_len_cons. change (count_len [] l') with 0.
        destruct (N.eqb_spec l l') as [->|Hne].
        - rewrite nm_getd_set_eq, Hnx. lia.
        - rewrite nm_getd_set_neq by exact Hne. rewrite Hnx. lia. }
      specialize (IH (pre ++ [l]) (nm_set m (N.of_nat (length pre)) (l, nm_getd nx l 0))
                     (nm_set nx l (nm_getd nx l 0 + 1)) Hnx').
      rewrite app_length in IH. cbn [length] in IH.
      replace (N.of_nat (length pre + 1)) with (N.of_nat (length pre) + 1) in IH by lia.
      cbv zeta in IH. destruct IH as [I1 I2]. split.
      + intros s Hs. cbn [length] in Hs. destruct s as [|s]; cbn [nth firstn].
        * rewrite Nat.add_0_r, I2 by lia. rewrite nm_get_set_eq, app_nil_r, Hnx. reflexivity.
        * specialize (I1 s ltac:(lia)). replace (length pre + S s)%nat with (length pre + 1 + s)%nat by lia.
          rewrite I1. rewrite <- app_assoc. reflexivity.
      + intros x Hx. rewrite I2 by lia. apply nm_get_set_neq. lia.
  Qed.

  Lemma canonical_codes_unfold :
    canonical_codes lens =
    fst (fst (fold_left code_step lens
                (nm_empty, snd (fold_left next_step (map (fun i => i + 1) (iota (max_of lens))) (0, nm_empty)), 0))).
  Proof. reflexivity. Qed.

  (* the code of symbol s: its length and the value first(l) + rank *)
  Lemma canonical_codes_get s l :
    (s < length lens)%nat -> nth s lens 0 = N.of_nat l -> (1 <= l)%nat ->
    nm_getd (canonical_codes lens) (N.of_nat s) (0, 0) =
    (N.of_nat l, 2 * lim1 (l - 1) + count_len (firstn s lens) (N.of_nat l)).
  Proof.
    intros Hs Hn Hl.
    assert (Hmax : (l <= N.to_nat (max_of lens))%nat).
    { assert (N.of_nat l <= max_of lens); [|lia]. rewrite <- Hn. apply max_of_ge. apply nth_In. exact Hs. }
    rewrite canonical_codes_unfold.
    rewrite iota_eq, map_map. change (fun x : nat => N.of_nat x + 1) with dkey.
    destruct (next_fold (N.to_nat (max_of lens)) 0 nm_empty) as [_ Hnext]. cbv zeta in Hnext. cbn [lim1] in Hnext.
    set (next := snd (fold_left next_step (map dkey (seq 0 (N.to_nat (max_of lens)))) (0, nm_empty))) in *.
    destruct (code_fold (fun x => nm_getd next x 0) lens [] nm_empty next) as [H1 _].
    { intros x. change (count_len [] x) with 0. lia. }
    cbv zeta in H1. cbn [length app Nat.add] in H1. change (N.of_nat 0) with 0 in H1.
    unfold nm_getd at 1. rewrite (H1 s Hs), Hn. f_equal.
    rewrite Hnext. cbn [Nat.add].
    destruct (Nat.ltb_spec 0 l), (Nat.leb_spec l (N.to_nat (max_of lens))); cbn [andb]; try lia.
  Qed.
End Code.

(* ---- Kraft: the codes fit their lengths ----------------------------------------------- *)
(* Kraft sum in units of 2^-20, as in LengthsOfCounts.lengths_of_counts_correct
   (convertible with GenLengthsThms.lsumN (fun l => 2^(20-l))) *)
Definition ksum20 (lens : list N) : N := fold_right (fun x acc => 2 ^ (20 - x) + acc) 0 lens.

Definition ksum_le (lens : list N) (d : nat) : N :=
  fold_right (fun x acc => (if x <=? N.of_nat d then 2 ^ (20 - x) else 0) + acc) 0 lens.

Lemma ksum_le_20 lens d : ksum_le lens d <= ksum20 lens.
Proof.
  induction lens as [|x r IH]; cbn [ksum_le ksum20 fold_right]; [lia|].
  fold (ksum_le r d). fold (ksum20 r). destruct (x <=? N.of_nat d); lia.
Qed.

Lemma ksum_le_succ lens d :
  (forall l, In l lens -> 1 <= l) ->
  ksum_le lens (S d) = ksum_le lens d + count_len lens (N.of_nat (S d)) * 2 ^ (20 - N.of_nat (S d)).
Proof.
  intros Hpos. induction lens as [|x r IH]; [reflexivity|].
  cbn [ksum_le fold_right]. fold (ksum_le r (S d)). fold (ksum_le r d).
  rewrite count_len_cons, IH by (intros l Hl; apply Hpos; right; exact Hl).
  destruct (N.leb_spec x (N.of_nat (S d))), (N.leb_spec x (N.of_nat d)), (N.eqb_spec x (N.of_nat (S d))); try lia.
  subst x. lia.
Qed.

Lemma ksum_le_0 lens : (forall l, In l lens -> 1 <= l) -> ksum_le lens 0 = 0.
Proof.
  intros Hpos. induction lens as [|x r IH]; [reflexivity|].
  cbn [ksum_le fold_right]. fold (ksum_le r 0%nat).
  rewrite IH by (intros l Hl; apply Hpos; right; exact Hl).
  specialize (Hpos x (or_introl eq_refl)). destruct (N.leb_spec x (N.of_nat 0)); lia.
Qed.

Lemma lim1_ksum lens : (forall l, In l lens -> 1 <= l) ->
  forall d, (d <= 20)%nat -> lim1 lens d * 2 ^ (20 - N.of_nat d) = ksum_le lens d.
Proof.
  intros Hpos. induction d as [|d IH]; intros Hd.
  - rewrite ksum_le_0 by exact Hpos. reflexivity.
  - rewrite ksum_le_succ by exact Hpos. rewrite <- IH by lia. cbn [lim1]. unfold cl.
    replace (20 - N.of_nat d) with (N.succ (20 - N.of_nat (S d))) by lia.
    rewrite N.pow_succ_r'. lia.
Qed.

Lemma lim1_le_pow lens d :
  (forall l, In l lens -> 1 <= l) -> ksum20 lens <= 2 ^ 20 -> (d <= 20)%nat ->
  lim1 lens d <= 2 ^ N.of_nat d.
Proof.
  intros Hpos Hk Hd. pose proof (lim1_ksum lens Hpos d Hd) as E. pose proof (ksum_le_20 lens d) as L.
  assert (H2 : 2 ^ 20 = 2 ^ N.of_nat d * 2 ^ (20 - N.of_nat d)).
  { rewrite <- N.pow_add_r. f_equal. lia. }
  assert (Hp : 0 < 2 ^ (20 - N.of_nat d)).
  { assert (2 ^ (20 - N.of_nat d) <> 0) by (apply N.pow_nonzero; lia). lia. }
  destruct (N.le_gt_cases (lim1 lens d) (2 ^ N.of_nat d)) as [C|C]; [exact C|]. exfalso.
  assert ((2 ^ N.of_nat d + 1) * 2 ^ (20 - N.of_nat d) <= lim1 lens d * 2 ^ (20 - N.of_nat d))
    by (apply N.mul_le_mono_r; lia).
  lia.
Qed.

(* ---- S4e: the decoding tables invert the canonical code --------------------------------- *)
Definition code_bits (lens : list N) (s : N) : list bool :=
  let (l, c) := nm_getd (canonical_codes lens) s (0, 0) in mbits (N.to_nat l) c.

Lemma write_code_appends lens s : appends (write_code (canonical_codes lens) s) (code_bits lens s).
Proof.
  intros acc. unfold write_code, code_bits. destruct (nm_getd (canonical_codes lens) s (0, 0)) as [l c].
  apply wbits_eq.
Qed.

Definition lens_ok (lens : list N) : Prop :=
  (forall l, In l lens -> 1 <= l <= 20) /\ ksum20 lens <= 2 ^ 20.

Theorem read_symbol_correct lens s :
  lens_ok lens -> s < N.of_nat (length lens) ->
  reads (read_symbol (mk_table lens)) (code_bits lens s) s.
Proof.
  intros [Hr Hk] Hs.
  assert (Hpos : forall l, In l lens -> 1 <= l) by (intros l Hl; apply Hr; exact Hl).
  set (sn := N.to_nat s). assert (Hsn : (sn < length lens)%nat) by (unfold sn; lia).
  assert (Es : s = N.of_nat sn) by (unfold sn; lia).
  set (l := N.to_nat (nth sn lens 0)).
  assert (Hin : In (nth sn lens 0) lens) by (apply nth_In; exact Hsn).
  assert (Hl : nth sn lens 0 = N.of_nat l) by (unfold l; lia).
  assert (Hl1 : (1 <= l)%nat) by (specialize (Hr _ Hin); unfold l; lia).
  assert (Hl20 : (l <= 20)%nat) by (specialize (Hr _ Hin); unfold l; lia).
  unfold code_bits. rewrite Es at 1. rewrite (canonical_codes_get lens sn l Hsn Hl Hl1). rewrite Nat2N.id.
  set (rank := count_len (firstn sn lens) (N.of_nat l)).
  assert (Hrank : rank < cl lens l) by (apply count_len_firstn_lt; assumption).
  set (c := 2 * lim1 lens (l - 1) + rank).
  assert (Hlim : lim1 lens l = 2 * lim1 lens (l - 1) + cl lens l).
  { replace l with (S (l - 1)) at 1 by lia. cbn [lim1]. replace (S (l - 1)) with l by lia. reflexivity. }
  assert (Hc : c < 2 ^ N.of_nat l).
  { pose proof (lim1_le_pow lens l Hpos Hk Hl20). lia. }
  unfold read_symbol, mk_table. cbn [t_rows t_perm].
  assert (Hmax : (l <= N.to_nat (max_of lens))%nat).
  { assert (N.of_nat l <= max_of lens); [|lia]. rewrite <- Hl. apply max_of_ge. exact Hin. }
  rewrite iota_eq, map_map. change (fun x : nat => N.of_nat x + 1) with dkey.
  pose proof (mk_rows_seq lens (N.to_nat (max_of lens)) 0) as Hrows. cbn [lim1 cum] in Hrows.
  rewrite Hrows. fold (wd (map (row3 lens) (seq 0 (N.to_nat (max_of lens))))).
  apply (hwalk_code lens (nm_of_list (perm_list lens)) s (N.to_nat (max_of lens)) 0 0 l c Hl1 Hmax);
    cbn [Nat.add]; rewrite N.mul_0_l, N.add_0_l, N.mod_small by exact Hc.
  - unfold c. lia.
  - rewrite Hlim. unfold c. lia.
  - rewrite nm_of_list_get.
    replace (c - 2 * lim1 lens (l - 1) + cum lens (l - 1)) with (rank + cum lens (l - 1)) by (unfold c; lia).
    unfold rank. rewrite (perm_nth lens sn l Hsn Hl Hl1). rewrite Es. reflexivity.
Qed.

(* non-vacuity: the lengths of LengthsOfCounts.loc_ex *)
Example read_symbol_correct_ex :
  lens_ok [2; 4; 4; 1; 3] /\
  code_bits [2; 4; 4; 1; 3] 2 = [true; true; true; true] /\
  run (read_symbol (mk_table [2; 4; 4; 1; 3])) (mkAst (code_bits [2; 4; 4; 1; 3] 2 ++ [false]) 3 [] 0) =
  Done 2 (mkAst [false] 7 [] 0).
Proof.
  split; [split; [intros l Hl; cbn [In] in Hl; lia | vm_compute; discriminate]|].
  split; vm_compute; reflexivity.
Qed.

(* ---- S4f: the symbol loop ------------------------------------------------------------------- *)
Definition rs_step (f : nat) (tabs : list htable) (eob maxn n : N) (acc : list N)
           (cur : htable) (sels : list N) (gpos : N) : prog (list N) :=
  s <- read_symbol cur ;;
  if s =? eob then Ret (fast_rev acc)
  else if eob <? s then corrupt
  else if maxn <=? n then corrupt
  else read_syms f tabs sels (gpos - 1) cur eob maxn (n + 1) (s :: acc).

Lemma read_syms_unfold f tabs sels gpos cur eob maxn n acc :
  read_syms (S f) tabs sels gpos cur eob maxn n acc =
  if gpos =? 0 then
    match sels with
    | [] => corrupt
    | sel :: sels' => rs_step f tabs eob maxn n acc (nth (N.to_nat sel) tabs empty_table) sels' numBlockSyms
    end
  else rs_step f tabs eob maxn n acc cur sels gpos.
Proof. reflexivity. Qed.

Lemma skipn_nth_cons {A} (d : A) : forall (l : list A) k, (k < length l)%nat ->
  skipn k l = nth k l d :: skipn (S k) l.
Proof.
  induction l as [|x l IH]; intros k Hk; cbn [length] in Hk; [lia|].
  destruct k as [|k]; [reflexivity|]. cbn [skipn nth]. rewrite (IH k) by lia. reflexivity.
Qed.

(* the bits of a symbol sequence, symbol number i coded with the tree [treeof i] *)
Fixpoint sym_bits_gen (lenss : list (list N)) (treeof : N -> N) (i : N) (syms : list N) : list bool :=
  match syms with
  | [] => []
  | s :: r => code_bits (nth (N.to_nat (treeof i)) lenss []) s ++ sym_bits_gen lenss treeof (i + 1) r
  end.

Lemma sym_bits_gen_ext lenss t1 t2 : forall syms i,
  (forall j, i <= j < i + N.of_nat (length syms) -> t1 j = t2 j) ->
  sym_bits_gen lenss t1 i syms = sym_bits_gen lenss t2 i syms.
Proof.
  induction syms as [|s r IH]; intros i H; cbn [sym_bits_gen]; [reflexivity|].
  cbn [length] in H. rewrite (H i) by lia. f_equal. apply IH. intros j Hj. apply H. lia.
Qed.

Lemma sym_bits_gen_app lenss t : forall a b i,
  sym_bits_gen lenss t i (a ++ b) = sym_bits_gen lenss t i a ++ sym_bits_gen lenss t (i + N.of_nat (length a)) b.
Proof.
  induction a as [|s a IH]; intros b i; cbn [app sym_bits_gen length].
  - rewrite N.add_0_r. reflexivity.
  - rewrite IH, <- app_assoc. do 3 f_equal. lia.
Qed.

(* the encoder's loop over the symbols (encode_prefix, last fold) *)
Lemma write_syms_appends lenss numTrees : forall syms i,
  (forall j, i <= j < i + N.of_nat (length syms) -> (j / numBlockSyms) mod numTrees < N.of_nat (length lenss)) ->
  forall acc,
  snd (fold_left
         (fun (st : N * list bool) s =>
            let tree := (fst st / numBlockSyms) mod numTrees in
            (fst st + 1, write_code (nm_getd (nm_of_list (map canonical_codes lenss)) tree nm_empty) s (snd st)))
         syms (i, acc)) =
  rev (sym_bits_gen lenss (fun j => (j / numBlockSyms) mod numTrees) i syms) ++ acc.
Proof.
  induction syms as [|s r IH]; intros i Hi acc; cbn [fold_left sym_bits_gen]; [reflexivity|].
  cbn [fst snd length] in *. rewrite IH by (intros j Hj; apply Hi; lia).
  rewrite nm_of_list_getd.
  assert (Ht : (N.to_nat ((i / numBlockSyms) mod numTrees) < length lenss)%nat).
  { specialize (Hi i ltac:(lia)). lia. }
  rewrite (nth_indep _ nm_empty (canonical_codes []) ) by (rewrite map_length; exact Ht).
  rewrite (map_nth canonical_codes lenss []).
  rewrite write_code_appends, rev_app_distr, app_assoc. reflexivity.
Qed.

Section SymLoop.
  Variable lenss : list (list N).
  Variable all_sels : list N.
  Variable eob maxn : N.
  Hypothesis Hlens : forall lens, In lens lenss -> lens_ok lens /\ eob < N.of_nat (length lens).
  Hypothesis Hsels : forall x, In x all_sels -> (N.to_nat x < length lenss)%nat.

  Definition sel_tree (i : N) : N := nth (N.to_nat (i / 50)) all_sels 0.
  Definition tree_lens_of (i : N) : list N := nth (N.to_nat (sel_tree i)) lenss [].

  Definition rs_inv (i : N) (sels : list N) (gpos : N) (cur : htable) : Prop :=
    (i mod 50 = 0 /\ gpos = 0 /\ sels = skipn (N.to_nat (i / 50)) all_sels) \/
    (i mod 50 <> 0 /\ gpos = 50 - i mod 50 /\ sels = skipn (S (N.to_nat (i / 50))) all_sels /\
     cur = mk_table (tree_lens_of i)).

  Lemma rs_select f i sels gpos cur n acc :
    rs_inv i sels gpos cur -> (N.to_nat (i / 50) < length all_sels)%nat ->
    read_syms (S f) (map mk_table lenss) sels gpos cur eob maxn n acc =
    rs_step f (map mk_table lenss) eob maxn n acc (mk_table (tree_lens_of i))
            (skipn (S (N.to_nat (i / 50))) all_sels) (50 - i mod 50).
  Proof.
    intros Hinv Hk. rewrite read_syms_unfold.
    destruct Hinv as [(Hm & -> & ->)|(Hm & -> & -> & ->)].
    - rewrite N.eqb_refl. rewrite (skipn_nth_cons 0 all_sels _ Hk).
      assert (Hin : In (nth (N.to_nat (i / 50)) all_sels 0) all_sels) by (apply nth_In; exact Hk).
      specialize (Hsels _ Hin).
      rewrite (nth_indep _ empty_table (mk_table [])) by (rewrite map_length; exact Hsels).
      rewrite (map_nth mk_table lenss []). rewrite Hm. reflexivity.
    - replace (50 - i mod 50 =? 0) with false by (symmetry; apply N.eqb_neq; lia). reflexivity.
  Qed.

  Lemma tree_lens_ok i : (N.to_nat (i / 50) < length all_sels)%nat ->
    lens_ok (tree_lens_of i) /\ eob < N.of_nat (length (tree_lens_of i)).
  Proof.
    intros Hk. apply Hlens. unfold tree_lens_of. apply nth_In. apply Hsels. apply nth_In. exact Hk.
  Qed.

  Lemma rs_inv_next i :
    rs_inv (i + 1) (skipn (S (N.to_nat (i / 50))) all_sels) (50 - i mod 50 - 1) (mk_table (tree_lens_of i)).
  Proof.
    unfold rs_inv. destruct (N.eq_dec ((i + 1) mod 50) 0) as [E|E].
    - left. split; [exact E|]. split; [lia|]. f_equal. lia.
    - right. split; [exact E|]. split; [lia|].
      assert (Ed : (i + 1) / 50 = i / 50) by lia.
      split; [rewrite Ed; reflexivity|]. unfold tree_lens_of, sel_tree. rewrite Ed. reflexivity.
  Qed.

  Theorem read_syms_correct : forall body i fuel sels gpos cur acc,
    rs_inv i sels gpos cur ->
    (length body < fuel)%nat ->
    (forall s, In s body -> s < eob) ->
    i + N.of_nat (length body) <= maxn ->
    (N.to_nat ((i + N.of_nat (length body)) / 50) < length all_sels)%nat ->
    reads (read_syms fuel (map mk_table lenss) sels gpos cur eob maxn i acc)
          (sym_bits_gen lenss sel_tree i (body ++ [eob]))
          (rev acc ++ body).
  Proof.
    induction body as [|s body IH]; intros i fuel sels gpos cur acc Hinv Hfuel Hlt Hmax Hsel;
      (destruct fuel as [|f]; [lia|]); cbn [length] in *.
    - (* the end-of-block symbol *)
      rewrite N.add_0_r in Hsel. rewrite (rs_select f i sels gpos cur i acc Hinv Hsel).
      cbn [app sym_bits_gen]. unfold rs_step. fold (tree_lens_of i).
      destruct (tree_lens_ok i Hsel) as [Hok Hlen].
      eapply reads_bind; [apply (read_symbol_correct _ eob Hok Hlen)|].
      rewrite N.eqb_refl. cbn [sym_bits_gen]. rewrite fast_rev_eq, app_nil_r. apply reads_ret.
    - assert (Hsel' : (N.to_nat (i / 50) < length all_sels)%nat).
      { assert (i / 50 <= (i + N.of_nat (S (length body))) / 50) by (apply N.div_le_mono; lia). lia. }
      rewrite (rs_select f i sels gpos cur i acc Hinv Hsel').
      cbn [app sym_bits_gen]. unfold rs_step. fold (tree_lens_of i).
      destruct (tree_lens_ok i Hsel') as [Hok Hlen].
      assert (Hs : s < eob) by (apply Hlt; left; reflexivity).
      eapply reads_bind; [apply (read_symbol_correct _ s Hok); lia|].
      replace (s =? eob) with false by (symmetry; apply N.eqb_neq; lia).
      replace (eob <? s) with false by (symmetry; apply N.ltb_ge; lia).
      replace (maxn <=? i) with false by (symmetry; apply N.leb_gt; lia).
      eapply reads_eq; [apply (IH (i + 1) f) | reflexivity |].
      + apply rs_inv_next.
      + lia.
      + intros x Hx. apply Hlt. right. exact Hx.
      + lia.
      + replace (i + 1 + N.of_nat (length body)) with (i + N.of_nat (S (length body))) by lia. exact Hsel.
      + cbn [rev]. rewrite <- app_assoc. reflexivity.
  Qed.
End SymLoop.

Print Assumptions read_symbol_correct.
Print Assumptions read_syms_correct.
