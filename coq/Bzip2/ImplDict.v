(* Refinement of bzip2.Reader (Bzip2/Impl.v) to the libbzip2 port (Bzip2/SpecR.v):
   the symbol map of a block (reader.go decodeBlock, "Read the symbol map").

     bmapHi := uint16(ReadBits(16))
     for i := 0; i < 256; i, bmapHi = i+16, bmapHi>>1 {
       if bmapHi&1 > 0 {
         bmapLo := uint16(ReadBits(16))
         for j := 0; j < 16; j, bmapLo = j+1, bmapLo>>1 {
           if bmapLo&1 > 0 { dict = append(dict, uint8(i+j)) } } } }

   ReadBits delivers the first bit read in bit 0; the specification's [rbits 16] has it on
   top and [field_bits16] lists the bits in the order read.  Both are the same bit list:

     field_bits16_mval   field_bits16 (mval l) = l                       (length l = 16)
     row_values_bits     row_values base (bits_val l mod 65536) = used_in_row base l
     read_dict_sim       the loop over the rows, for any number of rows left
     dict_sim            the whole stage refines [read_symbol_map], with equal dictionaries
     read_symbol_map_sorted   the dictionary is strictly ascending: bytes, at most 256, NoDup *)
From V Require Import Base.Prelude Base.Prog Base.ProgThms Base.FuelThms Bzip2.Common Bzip2.SpecR Bzip2.BitIO
  Bzip2.MtfRle2
  Prefix.Code Prefix.ReaderImpl Prefix.ReaderSpec Prefix.ReaderThms Prefix.DecTable
  Prefix.DecReadThms Bzip2.Impl Bzip2.ImplBits Bzip2.ImplSim.
From Coq Require Import Sorting.Sorted.

Local Open Scope N_scope.

(* ---- the pure part: the same bit list on both sides ---------------------------------------- *)
Lemma field_bits16_mbits v : field_bits16 v = mbits 16 v.
Proof. reflexivity. Qed.

Lemma field_bits16_length v : length (field_bits16 v) = 16%nat.
Proof. rewrite field_bits16_mbits. apply mbits_length. Qed.

Lemma field_bits16_mval l : length l = 16%nat -> field_bits16 (mval l) = l.
Proof. intros Hl. rewrite field_bits16_mbits, <- Hl. apply mbits_mval. Qed.

Lemma filter_map_comm {A B} (f : B -> bool) (g : A -> B) (l : list A) :
  filter f (map g l) = map g (filter (fun x => f (g x)) l).
Proof.
  induction l as [|a l IH]; [reflexivity|]. cbn [map filter]. rewrite IH.
  destruct (f (g a)); reflexivity.
Qed.

(* the positions of the set bits, counted from the first *)
Lemma used_in_row_seq l : forall base,
  used_in_row base l =
  map (fun j => base + N.of_nat j) (filter (fun j => nth j l false) (seq 0 (length l))).
Proof.
  induction l as [|b l IH]; intros base; [reflexivity|].
  cbn [used_in_row length seq filter]. rewrite <- seq_shift, filter_map_comm.
  cbn [nth]. rewrite (IH (base + 1)).
  assert (E : map (fun j => base + 1 + N.of_nat j) (filter (fun j => nth j l false) (seq 0 (length l))) =
              map (fun j => base + N.of_nat j)
                  (map S (filter (fun j => nth j l false) (seq 0 (length l))))).
  { rewrite map_map. apply map_ext. intros j. lia. }
  rewrite E. destruct b; cbn [map]; [|reflexivity].
  f_equal. cbn [N.of_nat]. lia.
Qed.

Lemma row_values_bits base l : length l = 16%nat ->
  row_values base (bits_val l mod 65536) = used_in_row base l.
Proof.
  intros Hl. pose proof (bits_val_lt l) as Hb. rewrite Hl in Hb.
  change (2 ^ N.of_nat 16) with 65536 in Hb. rewrite N.mod_small by exact Hb.
  unfold row_values. rewrite used_in_row_seq, Hl, iota_eq.
  change (N.to_nat 16) with 16%nat. rewrite filter_map_comm, map_map.
  f_equal. apply filter_ext. intros j. rewrite testbit_bits_val, Nat2N.id. reflexivity.
Qed.

Lemma odd_bits_val x l : N.odd (bits_val (x :: l)) = x.
Proof.
  cbn [bits_val]. rewrite N.odd_add_mul_2. destruct x; reflexivity.
Qed.

Lemma shiftr_bits_val x l : N.shiftr (bits_val (x :: l)) 1 = bits_val l.
Proof.
  cbn [bits_val]. rewrite N.shiftr_div_pow2. change (2 ^ 1) with 2.
  destruct x; cbn [N.b2n]; lia.
Qed.

(* ---- the specification side: the dictionary is strictly ascending ---------------------------- *)
(* strictly ascending, all values in [lo, hi) *)
Definition asc (lo hi : N) (l : list N) : Prop :=
  StronglySorted N.lt l /\ Forall (fun b => lo <= b < hi) l.

Lemma asc_nil lo hi : asc lo hi [].
Proof. split; constructor. Qed.

Lemma asc_widen lo hi lo' hi' l : lo' <= lo -> hi <= hi' -> asc lo hi l -> asc lo' hi' l.
Proof.
  intros H1 H2 [Hs Hf]. split; [exact Hs|].
  eapply Forall_impl; [|exact Hf]. cbn beta. intros a Ha. lia.
Qed.

Lemma asc_cons lo hi x l : lo <= x -> asc (x + 1) hi l -> x < hi -> asc lo hi (x :: l).
Proof.
  intros H1 [Hs Hf] H2. split.
  - constructor; [exact Hs|]. eapply Forall_impl; [|exact Hf]. cbn beta. intros a Ha. lia.
  - constructor; [lia|]. eapply Forall_impl; [|exact Hf]. cbn beta. intros a Ha. lia.
Qed.

Lemma asc_app lo mid hi l1 : forall l2, lo <= mid -> mid <= hi ->
  asc lo mid l1 -> asc mid hi l2 -> asc lo hi (l1 ++ l2).
Proof.
  induction l1 as [|x l1 IH]; intros l2 Hlm Hmh H1 H2; cbn [app].
  - eapply asc_widen; [| |exact H2]; lia.
  - destruct H1 as [Hs1 Hf1]. inversion Hs1 as [|x' l' Hs1' Hlt]; subst x' l'.
    inversion Hf1 as [|x' l' Hx Hf1']; subst x' l'.
    assert (IH' : asc lo hi (l1 ++ l2)) by (apply IH; [exact Hlm | exact Hmh | split; assumption | exact H2]).
    destruct IH' as [Hs Hf]. destruct H2 as [Hs2 Hf2]. split.
    + constructor; [exact Hs|]. apply Forall_app. split; [exact Hlt|].
      eapply Forall_impl; [|exact Hf2]. cbn beta. intros a Ha. lia.
    + constructor; [lia | exact Hf].
Qed.

Lemma used_in_row_asc l : forall base, asc base (base + N.of_nat (length l)) (used_in_row base l).
Proof.
  induction l as [|b l IH]; intros base; cbn [used_in_row length]; [apply asc_nil|].
  specialize (IH (base + 1)).
  replace (base + N.of_nat (S (length l))) with (base + 1 + N.of_nat (length l)) by lia.
  destruct b.
  - apply asc_cons; [lia | exact IH | lia].
  - eapply asc_widen; [| |exact IH]; lia.
Qed.

Lemma Done_inj {A} (a b : A) (s t : ast) : Done a s = Done b t -> a = b.
Proof. intros H. injection H as H1 _. exact H1. Qed.

Lemma read_map_rows_asc hi : forall base s used s',
  run (read_map_rows hi base) s = Done used s' ->
  asc base (base + 16 * N.of_nat (length hi)) used.
Proof.
  induction hi as [|h r IH]; intros base s used s' Hrun.
  - cbn [read_map_rows run] in Hrun. apply Done_inj in Hrun. subst used. apply asc_nil.
  - cbn [read_map_rows] in Hrun. rewrite run_bind in Hrun.
    assert (Hhere : forall here s1,
      run (if h then bind (rbits 16) (fun lo => Ret (used_in_row base (field_bits16 lo))) else Ret []) s
        = Done here s1 -> asc base (base + 16) here).
    { intros here s1 E. destruct h.
      - rewrite run_bind in E. destruct (run (rbits 16) s) as [lo s2|e s2]; [|discriminate].
        cbn [run] in E. apply Done_inj in E. subst here.
        pose proof (used_in_row_asc (field_bits16 lo) base) as H.
        rewrite field_bits16_length in H. exact H.
      - cbn [run] in E. apply Done_inj in E. subst here. apply asc_nil. }
    destruct (run (if h then bind (rbits 16) (fun lo => Ret (used_in_row base (field_bits16 lo))) else Ret []) s)
      as [here s1|e s1] eqn:E1; [|discriminate].
    specialize (Hhere here s1 eq_refl).
    rewrite run_bind in Hrun.
    destruct (run (read_map_rows r (base + 16)) s1) as [rest s2|e s2] eqn:E2; [|discriminate].
    cbn [run] in Hrun. apply Done_inj in Hrun. subst used.
    specialize (IH (base + 16) s1 rest s2 E2).
    apply (asc_app base (base + 16)); [lia | cbn [length]; lia | exact Hhere|].
    eapply asc_widen; [| |exact IH]; cbn [length]; lia.
Qed.

Lemma asc_NoDup lo hi l : asc lo hi l -> NoDup l.
Proof.
  intros [Hs _]. induction Hs as [|x l Hs IH Hlt]; constructor; [|exact IH].
  intros Hin. rewrite Forall_forall in Hlt. specialize (Hlt x Hin). lia.
Qed.

Lemma read_symbol_map_asc s used s' :
  run read_symbol_map s = Done used s' -> asc 0 256 used.
Proof.
  unfold read_symbol_map. rewrite run_bind.
  destruct (run (rbits 16) s) as [hi s1|e s1]; [|discriminate].
  intros Hrun. pose proof (read_map_rows_asc _ _ _ _ _ Hrun) as H.
  rewrite field_bits16_length in H. exact H.
Qed.

Lemma read_symbol_map_sorted s used s' : run read_symbol_map s = Done used s' ->
  Forall (fun b => b < 256) used /\ (length used <= 256)%nat /\ NoDup used.
Proof.
  intros Hrun. pose proof (read_symbol_map_asc s used s' Hrun) as Ha.
  pose proof (asc_NoDup _ _ _ Ha) as Hnd. destruct Ha as [_ Hf].
  assert (Hlt : Forall (fun b => b < 256) used).
  { eapply Forall_impl; [|exact Hf]. cbn beta. intros a Ha. lia. }
  split; [exact Hlt|]. split; [|exact Hnd].
  assert (Hincl : incl used (iota 256)).
  { intros x Hx. apply iota_In. rewrite Forall_forall in Hlt. apply Hlt. exact Hx. }
  pose proof (NoDup_incl_length Hnd Hincl) as Hlen. rewrite iota_length in Hlen.
  change (N.to_nat 256) with 256%nat in Hlen. exact Hlen.
Qed.

(* the dictionary of the specification, strictly ascending *)
Lemma read_symbol_map_strict s used s' : run read_symbol_map s = Done used s' ->
  StronglySorted N.lt used.
Proof. intros Hrun. exact (proj1 (read_symbol_map_asc s used s' Hrun)). Qed.

(* ---- the refinement ----------------------------------------------------------------------- *)
Section Dict.
Variable data : list byte.
Hypothesis Hd : forall b, In b data -> b < 256.

Notation sim := (sim data).

(* the specification enters [sim] only through what it computes *)
Lemma sim_run_eq {A B} (m : M A) (q q' : prog B) (rel : A -> B -> Prop) :
  (forall s, run q' s = run q s) -> sim m q rel -> sim m q' rel.
Proof.
  intros Hq Hm R st out len HP HR. rewrite Hq. exact (Hm R st out len HP HR).
Qed.

(* a pure function applied to the result of the specification *)
Lemma sim_map {A B C} (m : M A) (q : prog B) (g : B -> C) (rel : A -> B -> Prop)
      (rel' : A -> C -> Prop) :
  sim m q rel -> (forall a b, rel a b -> rel' a (g b)) ->
  sim m (bind q (fun b => Ret (g b))) rel'.
Proof.
  intros Hm Hr R st out len HP HR. rewrite run_bind.
  specialize (Hm R st out len HP HR).
  destruct (run q (sat data R out len)) as [b s1|e s1]; [|exact Hm].
  cbn [run].
  destruct Hm as [(R1 & a & p1 & H1 & H2 & H3 & H4 & H5)|Hw]; [left|right; exact Hw].
  exists R1, a, p1. split; [exact H1|]. split; [exact H2|]. split; [exact H3|].
  split; [apply Hr; exact H4 | exact H5].
Qed.

Lemma run_bind_assoc {A B C} (p : prog A) (f : A -> prog B) (g : B -> prog C) s :
  run (bind (bind p f) g) s = run (bind p (fun a => bind (f a) g)) s.
Proof.
  rewrite !run_bind. destruct (run p s) as [a s1|e s1]; [|reflexivity].
  rewrite run_bind. reflexivity.
Qed.

(* the loop over the rows: k = length l rows left, the remaining bits of bmapHi are l *)
Lemma read_dict_sim l : forall base acc,
  sim (read_dict (length l) base (bits_val l) acc) (read_map_rows l base)
      (fun a b => a = acc ++ b).
Proof.
  induction l as [|x l IH]; intros base acc.
  - cbn [length read_dict read_map_rows]. apply (sim_ret data Hd). symmetry. apply app_nil_r.
  - cbn [length read_dict read_map_rows]. rewrite odd_bits_val, shiftr_bits_val.
    destruct x.
    + (* the row is present *)
      eapply sim_run_eq.
      { intros s. apply run_bind_assoc. }
      apply (sim_bind data Hd (m_read_bits 16) (rbits 16) (same_field 16)).
      { exact (sim_read_bits data Hd 16 ltac:(lia)). }
      intros a b (lo & Hlo & -> & ->).
      cbn [bind]. rewrite (row_values_bits base lo Hlo), (field_bits16_mval lo Hlo).
      apply (sim_map _ _ (fun rest => used_in_row base lo ++ rest)
                     (fun a b => a = (acc ++ used_in_row base lo) ++ b)).
      { apply IH. }
      intros a b ->. rewrite app_assoc. reflexivity.
    + (* the row is absent *)
      cbn [bind].
      apply (sim_map _ _ (fun rest => [] ++ rest) (fun a b => a = acc ++ b)).
      { apply IH. }
      intros a b ->. reflexivity.
Qed.

Theorem dict_sim :
  sim (mbind (m_read_bits 16) (fun hi => read_dict 16 0 (hi mod 65536) [])) read_symbol_map eq.
Proof.
  unfold read_symbol_map.
  apply (sim_bind data Hd (m_read_bits 16) (rbits 16) (same_field 16)).
  { exact (sim_read_bits data Hd 16 ltac:(lia)). }
  intros a b (l & Hl & -> & ->).
  rewrite (field_bits16_mval l Hl).
  pose proof (bits_val_lt l) as Hb. rewrite Hl in Hb.
  change (2 ^ N.of_nat 16) with 65536 in Hb. rewrite N.mod_small by exact Hb.
  rewrite <- Hl at 1.
  eapply sim_weaken; [apply read_dict_sim|].
  intros a b ->. reflexivity.
Qed.

End Dict.

(* ---- non-vacuity --------------------------------------------------------------------------- *)
(* rows: only row 6 (96..111) is present: bmapHi bits read = 0000001000000000 = 0x02 0x00;
   in row 6 the positions 1 and 2 are set: 0110000000000000 = 0x60 0x00 *)
Definition ex_dict_data : list byte := [2; 0; 96; 0].

Example dict_sim_example :
  (forall b, In b ex_dict_data -> b < 256) /\
  (* the Go step, from a fresh Reader on a ByteReader and on a bufio-style source *)
  fst (mbind (m_read_bits 16) (fun hi => read_dict 16 0 (hi mod 65536) [])
             (bz_new ex_dict_data false [] [])) = ROk [97; 98] /\
  fst (mbind (m_read_bits 16) (fun hi => read_dict 16 0 (hi mod 65536) [])
             (bz_new ex_dict_data true [] [])) = ROk [97; 98] /\
  (* the specification *)
  run read_symbol_map (sat ex_dict_data 0 [] 0) = Done [97; 98] (sat ex_dict_data 32 [] 0) /\
  (* the hypotheses of the refinement hold at this state *)
  Rep ex_dict_data 0 (bz_new ex_dict_data false [] []) /\
  (* the pure helpers *)
  row_values 96 (6 mod 65536) = [97; 98] /\
  used_in_row 96 (field_bits16 0x6000) = [97; 98].
Proof.
  split.
  { intros b Hb. cbn [ex_dict_data In] in Hb.
    destruct Hb as [<-|[<-|[<-|[<-|[]]]]]; reflexivity. }
  split; [vm_compute; reflexivity|]. split; [vm_compute; reflexivity|].
  split; [vm_compute; reflexivity|]. split.
  { unfold Rep, bz_new. cbn [z_rd]. apply Inv_PI. apply Inv_init. }
  split; vm_compute; reflexivity.
Qed.

(* a truncated map: the Go step throws io.ErrUnexpectedEOF where the specification fails *)
Example dict_sim_example_short :
  fst (mbind (m_read_bits 16) (fun hi => read_dict 16 0 (hi mod 65536) [])
             (bz_new [2; 0; 96] false [] [])) = RThrow EUEOF /\
  match run read_symbol_map (sat [2; 0; 96] 0 [] 0) with Fail EUEOF _ => True | _ => False end.
Proof. split; vm_compute; [reflexivity | exact I]. Qed.

Print Assumptions dict_sim.
Print Assumptions read_symbol_map_sorted.
Print Assumptions dict_sim_example.
