(* The bits of the abstract bzip2 Writer (Bzip2/WriterImplSpec.v: Write(d1) ... Write(dn),
   Close, sink-free) packed into bytes are SpecW.bzip2_encode of the concatenated data:

     astream_is_bzip2_encode : 1 <= level ->
       pack true (astream level ds) = bzip2_encode level (concat ds).

   SpecW cuts the WHOLE input into blocks with rle1_fill from a fresh state; the Writer is
   incremental and encodes a block when a further byte does not fit, or at Close. The two
   agree because rle_write continued over several calls is rle_write of the concatenation
   (rle_write_app_nil / rle_write_app_cons) and the byte that did not fit is the first byte
   of the next block in both.

   [blocks_rel L data bl]: fuel-free version of Rle1.rle1_blocks.
   [core_inv]: invariant of the abstract Writer inside the loop of Write. *)
From V Require Import Base.Prelude Bzip2.Common Bzip2.SpecW Bzip2.Rle1 Prefix.ReaderImpl Prefix.ReaderSpec
  Prefix.WriterImpl Prefix.WriterSpec Prefix.WriterFields Bzip2.WriterImpl Bzip2.WriterImplSpec
  Bzip2.WriterImplBitsLemmas.

Local Open Scope N_scope.

(* ---- the blocks of an input, without fuel ------------------------------------------------ *)
Inductive blocks_rel (L : N) : list byte -> list (list byte * N) -> Prop :=
| br_nil : blocks_rel L [] []
| br_cons data blk crc rest bl :
    data <> [] ->
    rle1_fill L data [] 0 0 0 crc_init = (blk, crc, rest) ->
    blocks_rel L rest bl ->
    blocks_rel L data ((blk, crc) :: bl).

Lemma blocks_rel_rle1_blocks L : 1 <= L -> forall fuel data bl,
  blocks_rel L data bl -> (length data < fuel)%nat -> rle1_blocks fuel L data = bl.
Proof.
  intros HL. induction fuel as [|f IH]; intros data bl Hr Hlen; [lia|].
  destruct Hr as [|data blk crc rest bl Hne Hf Hr]; [reflexivity|].
  cbn [rle1_blocks]. destruct data as [|b data]; [contradiction|].
  rewrite Hf. f_equal. apply IH; [exact Hr|].
  destruct (rle1_block_roundtrip L (b :: data) blk crc rest HL Hf) as [cons [G1 [G2 _]]].
  assert (Hc : cons <> []) by (apply G2; discriminate).
  apply (f_equal (@length byte)) in G1. rewrite app_length in G1.
  destruct cons as [|c cons]; [contradiction|]. cbn [length] in *. lia.
Qed.

(* ---- the bits of a list of blocks ------------------------------------------------------------ *)
Definition block_bits (bc : list byte * N) : list bool :=
  bits_of (block_head_fields (crc_final (snd bc)) ++ block_body_fields (fst bc)).

Definition blocks_bits (bl : list (list byte * N)) : list bool := concat (map block_bits bl).

Definition combined_crc (bl : list (list byte * N)) : N :=
  fold_left (fun c bc => crc_combine c (crc_final (snd bc))) bl 0.

Definition no_blocks (bl : list (list byte * N)) : bool := match bl with [] => true | _ => false end.

(* the stream bits after the blocks bl: the header comes with the first block *)
Definition sbits (level : N) (bl : list (list byte * N)) : list bool :=
  match bl with
  | [] => []
  | _ => bits_of (hdr_fields level) ++ blocks_bits bl
  end.

Lemma blocks_bits_app a b : blocks_bits (a ++ b) = blocks_bits a ++ blocks_bits b.
Proof. unfold blocks_bits. rewrite map_app, concat_app. reflexivity. Qed.

Lemma blocks_bits_one x : blocks_bits [x] = block_bits x.
Proof. unfold blocks_bits. cbn [map concat]. apply app_nil_r. Qed.

Lemma encode_block_block_bits blk crc acc :
  encode_block blk (crc_final crc) acc = rev (block_bits (blk, crc)) ++ acc.
Proof. apply encode_block_bits. Qed.

Lemma fold_blocks bl : forall c acc,
  fold_left (fun (st : N * list bool) (bc : list byte * N) =>
               (crc_combine (fst st) (crc_final (snd bc)),
                encode_block (fst bc) (crc_final (snd bc)) (snd st)))
            bl (c, acc) =
  (fold_left (fun c bc => crc_combine c (crc_final (snd bc))) bl c, rev (blocks_bits bl) ++ acc).
Proof.
  induction bl as [|[blk crc] bl IH]; intros c acc; cbn [fold_left]; [reflexivity|].
  cbn [fst snd]. rewrite IH, encode_block_block_bits. f_equal.
  change ((blk, crc) :: bl) with ([(blk, crc)] ++ bl).
  rewrite blocks_bits_app, blocks_bits_one, rev_app_distr, <- app_assoc. reflexivity.
Qed.

(* ---- SpecW.bzip2_encode in terms of the blocks ------------------------------------------------ *)
Definition stream_bits_of (level : N) (bl : list (list byte * N)) : list bool :=
  bits_of (hdr_fields level) ++ blocks_bits bl ++ bits_of (footer_head (combined_crc bl)).

Lemma hdr_bits_length level : length (bits_of (hdr_fields level)) = 32%nat.
Proof.
  rewrite bits_of_hdr_fields, rev_length, (wbits_acc 8 (48 + level)), (wbits_acc 8 104), !app_length,
    !wbits_length.
  reflexivity.
Qed.

Lemma bzip2_encode_blocks level D bl :
  1 <= level * blockSize ->
  blocks_rel (level * blockSize) D bl ->
  bzip2_encode level D =
  pack true (stream_bits_of level bl ++ repeat false (pads_at (length (stream_bits_of level bl)))).
Proof.
  intros HL Hr. unfold bzip2_encode. cbv zeta.
  rewrite encode_blocks_fold, nat_of_len_n.
  rewrite (blocks_rel_rle1_blocks _ HL _ _ _ Hr) by lia.
  rewrite fold_blocks. fold (combined_crc bl).
  assert (E : fast_rev (wbits 32 (combined_crc bl)
                (wbits 48 endMagic
                   (rev (blocks_bits bl) ++ wbits 8 (48 + level) (wbits 8 104 (wbits 16 hdrMagic [])))))
              = stream_bits_of level bl).
  { unfold stream_bits_of. rewrite fast_rev_eq, bits_of_hdr_fields, bits_of_footer_head.
    rewrite (wbits_acc 32 (combined_crc bl) (wbits 48 endMagic (_ ++ _))), (wbits_acc 48 endMagic (_ ++ _)).
    rewrite (wbits_acc 32 (combined_crc bl) (wbits 48 endMagic [])).
    rewrite !rev_app_distr, rev_involutive, <- !app_assoc. reflexivity. }
  rewrite E. apply pack_msb_encode.
  unfold stream_bits_of. rewrite app_length, hdr_bits_length. lia.
Qed.

(* ---- the invariant of the abstract Writer ----------------------------------------------------- *)
Section Inv.
  Variable level : N.
  Hypothesis Hlevel : 1 <= level.

  Let L := level * blockSize.

  Lemma L_pos : 1 <= L.
  Proof. unfold L, blockSize. lia. Qed.

  (* [Dfl]: the data of the blocks written so far (bl); [R]: the data held by the RLE1 stage;
     [pending]: the rest of the data of the current Write call *)
  Definition core_inv (a : abz) (Dfl R pending : list byte) (bl : list (list byte * N)) : Prop :=
    rle_write L R rle_init = (a_rle a, []) /\
    (forall F bl2, blocks_rel L (R ++ pending ++ F) bl2 ->
                   blocks_rel L (Dfl ++ R ++ pending ++ F) (bl ++ bl2)) /\
    a_hdr a = negb (no_blocks bl) /\
    a_endCRC a = combined_crc bl /\
    a_bits a = sbits level bl.

  Lemma buf_empty_init R s :
    rle_write L R rle_init = (s, []) -> r_buf s = [] -> R = [] /\ s = rle_init.
  Proof.
    intros H E. destruct R as [|b R].
    - cbn [rle_write] in H. inversion H. split; reflexivity.
    - exfalso. destruct (rle_write_init_nonempty L (b :: R) s [] L_pos) as [Hb _];
        [discriminate | exact H | contradiction].
  Qed.

  Lemma aflush_nonempty a :
    r_buf (a_rle a) <> [] ->
    aflush level a =
    mkAbz (fields_app (a_bits a) (flush_fields level (a_hdr a) (a_rle a))) rle_init true
          (crc_combine (a_endCRC a) (crc_final (r_crc (a_rle a)))) (a_in a) (a_closed a).
  Proof.
    intros Hne. unfold aflush. destruct (fast_rev (r_buf (a_rle a))) as [|x l] eqn:E; [|reflexivity].
    exfalso. rewrite fast_rev_eq in E. apply (f_equal (@rev byte)) in E.
    rewrite rev_involutive in E. cbn [rev] in E. contradiction.
  Qed.

  Lemma aflush_empty a : r_buf (a_rle a) = [] -> aflush level a = a.
  Proof. intros E. unfold aflush. rewrite E. reflexivity. Qed.

  Lemma nopads_flush_fields hdr rle : nopads (flush_fields level hdr rle).
  Proof.
    unfold flush_fields. apply nopads_app.
    - unfold hdr_if. destruct hdr; [constructor | apply nopads_hdr_fields].
    - apply nopads_app; [apply nopads_block_head_fields | apply nopads_block_body_fields].
  Qed.

  (* one flush with a non-empty buffer appends one block *)
  Lemma flush_bits bits hdr rle bl :
    hdr = negb (no_blocks bl) -> bits = sbits level bl ->
    fields_app bits (flush_fields level hdr rle) =
    sbits level (bl ++ [(fast_rev (r_buf rle), r_crc rle)]).
  Proof.
    intros Hh Hb. rewrite (fields_app_nopads _ (nopads_flush_fields hdr rle)).
    unfold flush_fields. rewrite bits_of_app. subst hdr bits.
    fold (block_bits (fast_rev (r_buf rle), r_crc rle)).
    destruct bl as [|p bl].
    - cbn [no_blocks negb hdr_if sbits app]. rewrite blocks_bits_one. reflexivity.
    - cbn [no_blocks negb hdr_if app]. unfold sbits.
      change (bits_of []) with (@nil bool). cbn [app].
      change (p :: bl ++ [(fast_rev (r_buf rle), r_crc rle)])
        with ((p :: bl) ++ [(fast_rev (r_buf rle), r_crc rle)]).
      rewrite blocks_bits_app, blocks_bits_one, <- app_assoc. reflexivity.
  Qed.

  Lemma combined_crc_snoc bl x : combined_crc (bl ++ [x]) = crc_combine (combined_crc bl) (crc_final (snd x)).
  Proof. unfold combined_crc. rewrite fold_left_app. reflexivity. Qed.

  Lemma no_blocks_snoc bl x : negb (no_blocks (bl ++ [x])) = true.
  Proof. destruct bl; reflexivity. Qed.

  Lemma awrite_loop_inv : forall fuel a pending Dfl R bl,
    core_inv a Dfl R pending bl ->
    ((length pending < fuel)%nat \/
     (a_rle a = rle_init /\ pending <> [] /\ (length pending <= fuel)%nat)) ->
    exists Dfl' R' bl',
      core_inv (awrite_loop fuel level a pending) Dfl' R' [] bl' /\
      Dfl' ++ R' = Dfl ++ R ++ pending.
  Proof.
    induction fuel as [|f IH]; intros a pending Dfl R bl Hinv Hfuel.
    - exfalso. destruct Hfuel as [Hf|[_ [Hne Hf]]]; [lia|].
      destruct pending; [contradiction | cbn [length] in Hf; lia].
    - destruct Hinv as [H1 [H2 [H3 [H4 H5]]]].
      cbn [awrite_loop]. fold L.
      destruct (rle_write L pending (a_rle a)) as [rle' rest] eqn:Hw.
      destruct rest as [|b r].
      + (* everything fits *)
        exists Dfl, (R ++ pending), bl. split; [|reflexivity].
        unfold core_inv. cbn [a_with_rle a_rle a_hdr a_endCRC a_bits].
        split; [|split; [|split; [|split]]]; try assumption.
        * rewrite (rle_write_app_nil L R pending rle_init (a_rle a) H1). exact Hw.
        * intros F bl2 Hr. cbn [app] in Hr |- *. rewrite <- app_assoc in Hr |- *.
          apply H2. exact Hr.
      + (* byte b does not fit: flush, go on with b :: r *)
        assert (Hpne : pending <> []).
        { intros E. subst pending. cbn [rle_write] in Hw. discriminate Hw. }
        assert (Hbuf : r_buf rle' <> []).
        { destruct (r_buf (a_rle a)) as [|x l] eqn:Eb.
          - destruct (buf_empty_init R (a_rle a) H1 Eb) as [_ Ei]. rewrite Ei in Hw.
            destruct (rle_write_init_nonempty L pending rle' (b :: r) L_pos Hpne Hw) as [Hb _]. exact Hb.
          - apply (rle_write_buf_nonempty L pending (a_rle a) rle' (b :: r) Hw). rewrite Eb. discriminate. }
        destruct (rle_write_consumed L pending (a_rle a) rle' (b :: r) Hw) as [cons Hcons].
        rewrite aflush_nonempty by (cbn [a_with_rle a_rle]; exact Hbuf).
        cbn [a_with_rle a_rle a_hdr a_endCRC a_bits a_in a_closed].
        set (x := (fast_rev (r_buf rle'), r_crc rle')).
        set (a2 := mkAbz _ _ _ _ _ _).
        assert (Hinv2 : core_inv a2 (Dfl ++ R ++ cons) [] (b :: r) (bl ++ [x])).
        { unfold core_inv, a2. cbn [a_rle a_hdr a_endCRC a_bits].
          split; [|split; [|split; [|split]]].
          - reflexivity.
          - intros F bl2 Hr. cbn [app] in Hr. rewrite <- (app_assoc bl [x] bl2). cbn [app].
            replace ((Dfl ++ R ++ cons) ++ b :: r ++ F) with (Dfl ++ R ++ pending ++ F)
              by (rewrite Hcons, <- !app_assoc; reflexivity).
            apply H2. unfold x. apply (br_cons L _ _ _ ((b :: r) ++ F)).
            + intros E. apply app_eq_nil in E. destruct E as [_ E].
              apply app_eq_nil in E. destruct E as [E _]. contradiction.
            + assert (Hw2 : rle_write L (R ++ pending ++ F) rle_init = (rle', (b :: r) ++ F)).
              { rewrite (rle_write_app_nil L R (pending ++ F) rle_init (a_rle a) H1).
                apply rle_write_app_cons. exact Hw. }
              apply rle_write_fill in Hw2. exact Hw2.
            + exact Hr.
          - rewrite no_blocks_snoc. reflexivity.
          - rewrite combined_crc_snoc, <- H4. reflexivity.
          - apply flush_bits; assumption. }
        assert (Hfuel2 : (length (b :: r) < f)%nat \/
                         (a_rle a2 = rle_init /\ b :: r <> [] /\ (length (b :: r) <= f)%nat)).
        { right. split; [reflexivity|]. split; [discriminate|].
          destruct Hfuel as [Hf|[Hi [_ Hf]]].
          - pose proof (rle_write_rest_length L pending (a_rle a) rle' (b :: r) Hw). lia.
          - rewrite Hi in Hw.
            destruct (rle_write_init_nonempty L pending rle' (b :: r) L_pos Hpne Hw) as [_ Hlt]. lia. }
        destruct (IH a2 (b :: r) _ _ _ Hinv2 Hfuel2) as [Dfl' [R' [bl' [Hi' He']]]].
        exists Dfl', R', bl'. split; [exact Hi'|].
        rewrite He', Hcons, <- !app_assoc. reflexivity.
  Qed.

  (* ---- between the calls ------------------------------------------------------------------------ *)
  Definition winv (a : abz) (D : list byte) : Prop :=
    exists Dfl R bl, core_inv a Dfl R [] bl /\ D = Dfl ++ R.

  Lemma winv_anew : winv anew [].
  Proof.
    exists [], [], []. split; [|reflexivity].
    unfold core_inv, anew. cbn [a_rle a_hdr a_endCRC a_bits].
    split; [reflexivity|]. split; [|split; [|split]]; try reflexivity.
    intros F bl2 Hr. exact Hr.
  Qed.

  Lemma winv_awrite a D d : winv a D -> winv (awrite level a d) (D ++ d).
  Proof.
    intros [Dfl [R [bl [Hinv HD]]]].
    assert (Hinv1 : core_inv a Dfl R d bl).
    { destruct Hinv as [H1 [H2 H345]]. split; [exact H1|]. split; [|exact H345].
      intros F bl2 Hr. apply (H2 (d ++ F) bl2). exact Hr. }
    destruct (awrite_loop_inv (S (length d)) a d Dfl R bl Hinv1) as [Dfl' [R' [bl' [Hi' He']]]];
      [left; lia|].
    exists Dfl', R', bl'. split.
    - unfold awrite. cbv zeta. unfold core_inv in Hi' |- *. cbn [a_rle a_hdr a_endCRC a_bits]. exact Hi'.
    - rewrite He', HD, <- app_assoc. reflexivity.
  Qed.

  Lemma winv_writes ds : forall a D, winv a D -> winv (fold_left (awrite level) ds a) (D ++ concat ds).
  Proof.
    induction ds as [|d ds IH]; intros a D Hinv; cbn [fold_left concat].
    - rewrite app_nil_r. exact Hinv.
    - rewrite app_assoc. apply IH. apply winv_awrite. exact Hinv.
  Qed.

  (* ---- Close: its flush completes the list of blocks ---------------------------------------------- *)
  Lemma aflush_final a D : winv a D ->
    exists bl, blocks_rel L D bl /\
      a_hdr (aflush level a) = negb (no_blocks bl) /\
      a_endCRC (aflush level a) = combined_crc bl /\
      a_bits (aflush level a) = sbits level bl.
  Proof.
    intros [Dfl [R [bl [[H1 [H2 [H3 [H4 H5]]]] HD]]]].
    destruct (r_buf (a_rle a)) as [|x0 l0] eqn:Eb.
    - destruct (buf_empty_init R (a_rle a) H1 Eb) as [ER _]. subst R.
      rewrite (aflush_empty a Eb). exists bl. split; [|split; [|split]]; try assumption.
      specialize (H2 [] [] (br_nil L)). cbn [app] in H2. rewrite !app_nil_r in H2.
      rewrite HD, app_nil_r. exact H2.
    - assert (Hbuf : r_buf (a_rle a) <> []) by (rewrite Eb; discriminate).
      rewrite (aflush_nonempty a Hbuf). cbn [a_hdr a_endCRC a_bits].
      exists (bl ++ [(fast_rev (r_buf (a_rle a)), r_crc (a_rle a))]).
      split; [|split; [|split]].
      + assert (HR : R <> []).
        { intros E. subst R. cbn [rle_write] in H1. inversion H1 as [E1]. rewrite <- E1 in Hbuf.
          apply Hbuf. reflexivity. }
        specialize (H2 [] [(fast_rev (r_buf (a_rle a)), r_crc (a_rle a))]).
        cbn [app] in H2. rewrite !app_nil_r in H2. rewrite HD. apply H2.
        apply (br_cons L R _ _ []); [exact HR | | apply br_nil].
        apply rle_write_fill in H1. exact H1.
      + rewrite no_blocks_snoc. reflexivity.
      + rewrite combined_crc_snoc, <- H4. reflexivity.
      + apply flush_bits; assumption.
  Qed.

  Lemma aclose_bits a D : winv a D ->
    exists bl, blocks_rel L D bl /\
      a_bits (aclose level a) =
      stream_bits_of level bl ++ repeat false (pads_at (length (stream_bits_of level bl))).
  Proof.
    intros Hinv. destruct (aflush_final a D Hinv) as [bl [Hr [H3 [H4 H5]]]].
    exists bl. split; [exact Hr|].
    unfold aclose. cbv zeta. cbn [a_bits]. rewrite H3, H4, H5.
    unfold close_fields. rewrite footer_fields_split, !fields_app_app.
    assert (E : fields_app (fields_app (sbits level bl) (hdr_if level (negb (no_blocks bl))))
                           (footer_head (combined_crc bl)) = stream_bits_of level bl).
    { rewrite (fields_app_nopads _ (nopads_footer_head _)). unfold stream_bits_of.
      destruct bl as [|p bl].
      - cbn [no_blocks negb hdr_if sbits]. rewrite (fields_app_nopads _ (nopads_hdr_fields level)).
        reflexivity.
      - cbn [no_blocks negb hdr_if]. rewrite fields_app_nil. unfold sbits.
        rewrite <- app_assoc. reflexivity. }
    rewrite E. reflexivity.
  Qed.
End Inv.

(* ======================================================================================= *)
(* THE THEOREM                                                                              *)
(* ======================================================================================= *)
Theorem astream_is_bzip2_encode : forall level ds, 1 <= level ->
  pack true (astream level ds) = bzip2_encode level (concat ds).
Proof.
  intros level ds Hlevel. unfold astream.
  pose proof (winv_writes level Hlevel ds anew [] (winv_anew level)) as Hinv. cbn [app] in Hinv.
  destruct (aclose_bits level Hlevel _ _ Hinv) as [bl [Hr Hb]].
  rewrite Hb. symmetry. apply bzip2_encode_blocks; [apply L_pos; exact Hlevel | exact Hr].
Qed.

(* the bits themselves: header, blocks, footer, pads - for the blocks of the whole input *)
Theorem astream_bits : forall level ds, 1 <= level ->
  exists bl, blocks_rel (level * blockSize) (concat ds) bl /\
    astream level ds =
    stream_bits_of level bl ++ repeat false (pads_at (length (stream_bits_of level bl))).
Proof.
  intros level ds Hlevel. unfold astream.
  pose proof (winv_writes level Hlevel ds anew [] (winv_anew level)) as Hinv. cbn [app] in Hinv.
  exact (aclose_bits level Hlevel _ _ Hinv).
Qed.

(* a concrete instance (a run split over two Write calls, an empty Write), computed on both sides *)
Example astream_is_bzip2_encode_instance :
  pack true (astream 1 [[5; 5]; [5; 5; 5; 7]; []; [8]]) = bzip2_encode 1 [5; 5; 5; 5; 5; 7; 8] /\
  length (bzip2_encode 1 [5; 5; 5; 5; 5; 7; 8]) = 40%nat.
Proof. split; vm_compute; reflexivity. Qed.

(* the hypothesis 1 <= level is needed: with a block size of 0 nothing fits, the Writer drops the
   data while SpecW emits empty blocks until its fuel runs out *)
Example astream_level0_differs : pack true (astream 0 [[1]]) <> bzip2_encode 0 [1].
Proof. vm_compute. discriminate. Qed.

Print Assumptions astream_is_bzip2_encode.
