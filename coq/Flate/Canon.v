(* The RFC 1951 (3.2.2) canonical code construction of Flate/Spec.v is a prefix
   code, and the trie [tree_of lens] decodes it: for every length assignment
   whose Kraft sum does not exceed one (in particular every complete one),
     - every code fits in its length                       (canonical_fits)
     - no code word is a prefix of another one             (canonical_prefix_free)
     - [sym_tree (tree_of lens)] reads exactly the code word of a symbol and
       returns that symbol                                 (tree_decodes_code)
     - when the assignment is complete, every long enough bit string starts
       with a code word                                    (tree_complete) *)
From Coq Require FinFun.
From V Require Import Base.Prelude Base.Prog Flate.Spec.

(* ---- closed forms --------------------------------------------------------- *)

(* Kraft sum, in units of 2^-l, of the lengths strictly below l / up to l *)
Definition fc (lens : list (N * N)) (l : N) : N :=
  fold_right (fun sl acc => (if snd sl <? l then 2 ^ (l - snd sl) else 0) + acc) 0 lens.
Definition pk (lens : list (N * N)) (l : N) : N :=
  fold_right (fun sl acc => (if snd sl <=? l then 2 ^ (l - snd sl) else 0) + acc) 0 lens.

Definition lens_pos (lens : list (N * N)) : Prop := forall s l, In (s, l) lens -> 1 <= l.

Lemma count_len_cons s0 l0 lens l :
  count_len ((s0, l0) :: lens) l = (if l0 =? l then 1 else 0) + count_len lens l.
Proof.
  unfold count_len. cbn [filter snd]. destruct (l0 =? l); cbn [length]; lia.
Qed.

Lemma count_len_nil l : count_len [] l = 0.
Proof. reflexivity. Qed.

Lemma count_len_app a b l : count_len (a ++ b) l = count_len a l + count_len b l.
Proof.
  unfold count_len. rewrite filter_app, app_length. lia.
Qed.

Lemma fc_cons s0 l0 lens l :
  fc ((s0, l0) :: lens) l = (if l0 <? l then 2 ^ (l - l0) else 0) + fc lens l.
Proof. reflexivity. Qed.

Lemma pk_cons s0 l0 lens l :
  pk ((s0, l0) :: lens) l = (if l0 <=? l then 2 ^ (l - l0) else 0) + pk lens l.
Proof. reflexivity. Qed.

Lemma kraft_cons m s0 l0 lens : kraft m ((s0, l0) :: lens) = 2 ^ (m - l0) + kraft m lens.
Proof. reflexivity. Qed.

Lemma max_len_cons s0 l0 lens : max_len ((s0, l0) :: lens) = N.max l0 (max_len lens).
Proof. reflexivity. Qed.

Lemma fc_count lens l : fc lens l + count_len lens l = pk lens l.
Proof.
  induction lens as [|[s0 l0] lens IH].
  - reflexivity.
  - rewrite fc_cons, pk_cons, count_len_cons.
    destruct (l0 <? l) eqn:E1; destruct (l0 <=? l) eqn:E2; destruct (l0 =? l) eqn:E3;
      try lia.
    assert (l0 = l) by lia. subst. rewrite N.sub_diag. change (2 ^ 0) with 1. lia.
Qed.

Lemma fc_succ lens l : fc lens (l + 1) = 2 * pk lens l.
Proof.
  induction lens as [|[s0 l0] lens IH].
  - reflexivity.
  - rewrite fc_cons, pk_cons, IH.
    destruct (l0 <? l + 1) eqn:E1; destruct (l0 <=? l) eqn:E2; try lia.
    replace (l + 1 - l0) with (N.succ (l - l0)) by lia.
    rewrite N.pow_succ_r'. lia.
Qed.

Lemma pk_zero lens : lens_pos lens -> pk lens 0 = 0.
Proof.
  induction lens as [|[s0 l0] lens IH]; intros H.
  - reflexivity.
  - rewrite pk_cons, IH.
    + assert (1 <= l0) by (apply (H s0); left; reflexivity).
      destruct (l0 <=? 0) eqn:E; lia.
    + intros s l Hin. apply (H s). right. exact Hin.
Qed.

Lemma pk_kraft_le lens m l : l <= m -> pk lens l * 2 ^ (m - l) <= kraft m lens.
Proof.
  intros Hl. induction lens as [|[s0 l0] lens IH].
  - cbn. lia.
  - rewrite pk_cons, kraft_cons.
    destruct (l0 <=? l) eqn:E.
    + rewrite N.mul_add_distr_r, <- N.pow_add_r.
      replace (l - l0 + (m - l)) with (m - l0) by lia. lia.
    + lia.
Qed.

Lemma pk_kraft_eq lens m : max_len lens <= m -> pk lens m = kraft m lens.
Proof.
  induction lens as [|[s0 l0] lens IH]; intros H.
  - reflexivity.
  - rewrite max_len_cons in H. rewrite pk_cons, kraft_cons, IH by lia.
    destruct (l0 <=? m) eqn:E; lia.
Qed.

Lemma max_len_ge lens s l : In (s, l) lens -> l <= max_len lens.
Proof.
  induction lens as [|[s0 l0] lens IH]; intros H.
  - contradiction.
  - rewrite max_len_cons. destruct H as [H|H].
    + inversion H; subst. lia.
    + specialize (IH H). lia.
Qed.

(* a code of length l2 > l1 lies, shifted, beyond all codes of length l1 *)
Lemma fc_ge_pk lens l1 l2 : l1 < l2 -> 2 ^ (l2 - l1) * pk lens l1 <= fc lens l2.
Proof.
  intros Hl. induction lens as [|[s0 l0] lens IH].
  - cbn. lia.
  - rewrite pk_cons, fc_cons.
    destruct (l0 <=? l1) eqn:E1; destruct (l0 <? l2) eqn:E2; try lia.
    rewrite N.mul_add_distr_l, <- N.pow_add_r.
    replace (l2 - l1 + (l1 - l0)) with (l2 - l0) by lia. lia.
Qed.

Lemma pk_le_pow lens l :
  kraft (max_len lens) lens <= 2 ^ max_len lens -> l <= max_len lens -> pk lens l <= 2 ^ l.
Proof.
  intros Hk Hl.
  pose proof (pk_kraft_le lens (max_len lens) l Hl) as H.
  assert (Hp : 2 ^ max_len lens = 2 ^ l * 2 ^ (max_len lens - l)).
  { rewrite <- N.pow_add_r. f_equal. lia. }
  assert (Hz : 0 < 2 ^ (max_len lens - l)).
  { apply N.neq_0_lt_0, N.pow_nonzero. lia. }
  apply (N.mul_le_mono_pos_r _ _ _ Hz). lia.
Qed.

(* ---- first_codes: next_code[l] = fc l -------------------------------------- *)

Lemma first_codes_keys lens ls code : map fst (first_codes lens ls code) = ls.
Proof.
  revert code; induction ls as [|l r IH]; intros code; cbn [first_codes map fst].
  - reflexivity.
  - f_equal. apply IH.
Qed.

Lemma first_codes_get lens n : forall a l,
  (S a <= N.to_nat l < S a + n)%nat ->
  assoc_get l (first_codes lens (map N.of_nat (seq (S a) n)) (pk lens (N.of_nat a))) = fc lens l.
Proof.
  induction n as [|n IH]; intros a l Hl.
  - lia.
  - cbn [seq map first_codes assoc_get].
    assert (E2 : 2 * pk lens (N.of_nat a) = fc lens (N.of_nat (S a))).
    { rewrite Nat2N.inj_succ, <- N.add_1_r. symmetry. apply fc_succ. }
    destruct (N.of_nat (S a) =? l) eqn:E.
    + apply N.eqb_eq in E. subst l. exact E2.
    + rewrite E2, fc_count. apply IH.
      apply N.eqb_neq in E. lia.
Qed.

Lemma canonical_get lens l :
  lens_pos lens -> 1 <= l <= max_len lens ->
  assoc_get l (first_codes lens (lens_range (max_len lens)) 0) = fc lens l.
Proof.
  intros Hp Hl. unfold lens_range.
  rewrite <- (pk_zero lens Hp). change 0 with (N.of_nat 0) at 1.
  apply first_codes_get. lia.
Qed.

Lemma lens_range_in m l : 1 <= l <= m -> In l (lens_range m).
Proof.
  intros H. unfold lens_range. apply in_map_iff. exists (N.to_nat l). split; [lia|].
  apply in_seq. lia.
Qed.

(* ---- assoc maps ------------------------------------------------------------ *)

Lemma assoc_incr_keys k m : map fst (assoc_incr k m) = map fst m.
Proof.
  induction m as [|[a v] r IH]; cbn [assoc_incr]; [reflexivity|].
  destruct (a =? k); cbn [map fst]; [reflexivity | f_equal; exact IH].
Qed.

Lemma assoc_get_incr k l m :
  In k (map fst m) ->
  assoc_get l (assoc_incr k m) = assoc_get l m + (if k =? l then 1 else 0).
Proof.
  induction m as [|[a v] r IH]; intros Hin.
  - contradiction.
  - cbn [assoc_incr]. destruct (a =? k) eqn:E1.
    + apply N.eqb_eq in E1. subst a. cbn [assoc_get].
      destruct (k =? l); lia.
    + cbn [assoc_get]. destruct (a =? l) eqn:E2.
      * apply N.eqb_eq in E2. subst a. rewrite N.eqb_sym, E1. lia.
      * apply IH. destruct Hin as [H|H]; [cbn [fst] in H; apply N.eqb_neq in E1; lia | exact H].
Qed.

(* ---- assign_codes: the i-th symbol of length l gets fc l + i ---------------- *)

Lemma assign_codes_spec lens : forall next,
  (forall s l, In (s, l) lens -> In l (map fst next)) ->
  forall s l c,
    In (s, l, c) (assign_codes lens next) <->
    exists pre post, lens = pre ++ (s, l) :: post /\ c = assoc_get l next + count_len pre l.
Proof.
  induction lens as [|[s0 l0] lens IH]; intros next Hk s l c.
  - cbn [assign_codes]. split; [contradiction|].
    intros (pre & post & H & _). destruct pre; discriminate.
  - cbn [assign_codes].
    assert (Hk0 : In l0 (map fst next)) by (apply (Hk s0); left; reflexivity).
    assert (Hk' : forall s l, In (s, l) lens -> In l (map fst (assoc_incr l0 next))).
    { intros s' l' H. rewrite assoc_incr_keys. apply (Hk s'). right. exact H. }
    split.
    + intros [H|H].
      * inversion H; subst. exists [], lens. split; [reflexivity|].
        rewrite count_len_nil. lia.
      * apply (IH _ Hk') in H. destruct H as (pre & post & H1 & H2).
        exists ((s0, l0) :: pre), post. split; [subst lens; reflexivity|].
        rewrite H2, assoc_get_incr by exact Hk0. rewrite count_len_cons. lia.
    + intros (pre & post & H1 & H2). destruct pre as [|x pre].
      * left. cbn [app] in H1. inversion H1; subst. rewrite count_len_nil. f_equal. lia.
      * right. cbn [app] in H1. inversion H1; subst x lens. apply (IH _ Hk').
        exists pre, post. split; [reflexivity|].
        rewrite H2, assoc_get_incr by exact Hk0. rewrite count_len_cons. lia.
Qed.

Lemma canonical_spec lens :
  lens_pos lens ->
  forall s l c,
    In (s, l, c) (canonical lens) <->
    exists pre post, lens = pre ++ (s, l) :: post /\ c = fc lens l + count_len pre l.
Proof.
  intros Hp s l c. unfold canonical.
  assert (Hr : forall s l, In (s, l) lens -> 1 <= l <= max_len lens).
  { intros s' l' H. split; [apply (Hp s'), H | apply (max_len_ge _ s'), H]. }
  rewrite assign_codes_spec.
  - split; intros (pre & post & H1 & H2); exists pre, post; (split; [exact H1|]).
    + rewrite H2, canonical_get; [reflexivity | exact Hp |].
      apply (Hr s). rewrite H1. apply in_or_app. right. left. reflexivity.
    + rewrite H2, canonical_get; [reflexivity | exact Hp |].
      apply (Hr s). rewrite H1. apply in_or_app. right. left. reflexivity.
  - intros s' l' H. rewrite first_codes_keys. apply lens_range_in. apply (Hr s'), H.
Qed.

(* ---- (1) every code fits in its length ------------------------------------- *)

Definition kraft_ok (lens : list (N * N)) : Prop :=
  kraft (max_len lens) lens <= 2 ^ max_len lens.

Lemma complete_kraft_ok lens : complete lens = true -> kraft_ok lens.
Proof. unfold complete, kraft_ok. intros H. apply N.eqb_eq in H. lia. Qed.

Lemma canonical_lt_pk lens s l c :
  lens_pos lens -> In (s, l, c) (canonical lens) -> fc lens l <= c < pk lens l.
Proof.
  intros Hp H. apply (canonical_spec lens Hp) in H. destruct H as (pre & post & H1 & H2).
  rewrite <- fc_count. rewrite H1 at 3. rewrite count_len_app, count_len_cons, N.eqb_refl. lia.
Qed.

Theorem canonical_fits lens s l c :
  lens_pos lens -> kraft_ok lens -> In (s, l, c) (canonical lens) -> c < 2 ^ l.
Proof.
  intros Hp Hk H.
  pose proof (canonical_lt_pk lens s l c Hp H) as Hc.
  assert (Hl : l <= max_len lens).
  { apply (max_len_ge _ s). apply (canonical_spec lens Hp) in H.
    destruct H as (pre & post & H1 & _). rewrite H1. apply in_or_app. right. left. reflexivity. }
  pose proof (pk_le_pow lens l Hk Hl). lia.
Qed.

(* ---- code words as numbers --------------------------------------------------- *)

Lemma bits_val_app x y :
  bits_val (x ++ y) = bits_val x + 2 ^ N.of_nat (length x) * bits_val y.
Proof.
  induction x as [|b x IH]; cbn [app bits_val length].
  - change (2 ^ N.of_nat 0) with 1. lia.
  - rewrite IH, Nat2N.inj_succ, N.pow_succ_r'. lia.
Qed.

Lemma msb_bits_len n v : length (msb_bits n v) = n.
Proof. unfold msb_bits. rewrite fast_rev_eq, rev_length. apply val_bits_length. Qed.

Lemma msb_bits_val n v : v < 2 ^ N.of_nat n -> bits_val (rev (msb_bits n v)) = v.
Proof.
  intros H. unfold msb_bits. rewrite fast_rev_eq, rev_involutive, bits_val_val_bits.
  apply N.mod_small. exact H.
Qed.

(* the value of a word extending [w] lies in the dyadic interval of [w] *)
Lemma app_val_interval w t :
  2 ^ N.of_nat (length t) * bits_val (rev w) <= bits_val (rev (w ++ t))
    < 2 ^ N.of_nat (length t) * (bits_val (rev w) + 1).
Proof.
  rewrite rev_app_distr, bits_val_app, rev_length.
  pose proof (bits_val_bound (rev t)) as Hb. rewrite rev_length in Hb. lia.
Qed.

Lemma msb_prefix_val n1 n2 c1 c2 :
  c1 < 2 ^ N.of_nat n1 -> c2 < 2 ^ N.of_nat n2 ->
  prefix_of (msb_bits n1 c1) (msb_bits n2 c2) ->
  (n1 <= n2)%nat /\
  2 ^ N.of_nat (n2 - n1) * c1 <= c2 < 2 ^ N.of_nat (n2 - n1) * (c1 + 1).
Proof.
  intros H1 H2 [t Ht].
  assert (Hlen : n2 = (n1 + length t)%nat).
  { apply (f_equal (@length bool)) in Ht. rewrite app_length, !msb_bits_len in Ht. exact Ht. }
  split; [lia|].
  pose proof (app_val_interval (msb_bits n1 c1) t) as Hi.
  rewrite <- Ht, !msb_bits_val in Hi by assumption.
  replace (n2 - n1)%nat with (length t) by lia. exact Hi.
Qed.

Lemma split_cmp {A} (p1 : list A) : forall p2 x1 x2 q1 q2,
  p1 ++ x1 :: q1 = p2 ++ x2 :: q2 ->
  (p1 = p2 /\ x1 = x2 /\ q1 = q2) \/
  (exists m, p2 = p1 ++ x1 :: m) \/ (exists m, p1 = p2 ++ x2 :: m).
Proof.
  induction p1 as [|a p1 IH]; intros p2 x1 x2 q1 q2 H.
  - destruct p2 as [|b p2]; cbn [app] in H.
    + inversion H; subst. left. auto.
    + inversion H; subst. right. left. exists p2. reflexivity.
  - destruct p2 as [|b p2]; cbn [app] in H.
    + inversion H; subst. right. right. exists p1. reflexivity.
    + inversion H; subst b. apply IH in H2. destruct H2 as [(-> & -> & ->)|[[m ->]|[m ->]]].
      * left. auto.
      * right. left. exists m. reflexivity.
      * right. right. exists m. reflexivity.
Qed.

(* ---- (2) prefix freeness ----------------------------------------------------- *)

Theorem canonical_prefix_free_gen lens s1 l1 c1 s2 l2 c2 :
  lens_pos lens -> kraft_ok lens ->
  In (s1, l1, c1) (canonical lens) -> In (s2, l2, c2) (canonical lens) ->
  (s1, l1, c1) <> (s2, l2, c2) ->
  ~ prefix_of (msb_bits (N.to_nat l1) c1) (msb_bits (N.to_nat l2) c2).
Proof.
  intros Hp Hk H1 H2 Hne Hpre.
  pose proof (canonical_fits _ _ _ _ Hp Hk H1) as Hf1.
  pose proof (canonical_fits _ _ _ _ Hp Hk H2) as Hf2.
  pose proof (canonical_lt_pk _ _ _ _ Hp H1) as Hc1.
  pose proof (canonical_lt_pk _ _ _ _ Hp H2) as Hc2.
  apply msb_prefix_val in Hpre; [| rewrite N2Nat.id; assumption | rewrite N2Nat.id; assumption].
  destruct Hpre as [Hle Hi].
  assert (Hd : N.of_nat (N.to_nat l2 - N.to_nat l1) = l2 - l1) by lia.
  rewrite Hd in Hi.
  destruct (N.eq_dec l1 l2) as [->|Hl].
  - rewrite N.sub_diag in Hi. change (2 ^ 0) with 1 in Hi.
    assert (c1 = c2) by lia. subst c2.
    apply (canonical_spec lens Hp) in H1. destruct H1 as (p1 & q1 & E1 & V1).
    apply (canonical_spec lens Hp) in H2. destruct H2 as (p2 & q2 & E2 & V2).
    rewrite E1 in E2 at 1.
    apply split_cmp in E2. destruct E2 as [(-> & Ex & ->)|[[m ->]|[m ->]]].
    + inversion Ex; subst. apply Hne. reflexivity.
    + rewrite count_len_app, count_len_cons, N.eqb_refl in V2. lia.
    + rewrite count_len_app, count_len_cons, N.eqb_refl in V1. lia.
  - assert (Hlt : l1 < l2) by lia.
    pose proof (fc_ge_pk lens l1 l2 Hlt) as Hg.
    assert (2 ^ (l2 - l1) * (c1 + 1) <= 2 ^ (l2 - l1) * pk lens l1).
    { apply N.mul_le_mono_l. lia. }
    lia.
Qed.

Lemma assign_codes_syms lens : forall next,
  map (fun e => fst (fst e)) (assign_codes lens next) = map fst lens.
Proof.
  induction lens as [|[s0 l0] r IH]; intros next; cbn [assign_codes map fst].
  - reflexivity.
  - f_equal. apply IH.
Qed.

Lemma canonical_syms lens : map (fun e => fst (fst e)) (canonical lens) = map fst lens.
Proof. apply assign_codes_syms. Qed.

Theorem canonical_prefix_free lens s1 l1 c1 s2 l2 c2 :
  lens_pos lens -> kraft_ok lens -> NoDup (map fst lens) ->
  In (s1, l1, c1) (canonical lens) -> In (s2, l2, c2) (canonical lens) ->
  (s1, l1, c1) <> (s2, l2, c2) ->
  s1 <> s2 /\ ~ prefix_of (msb_bits (N.to_nat l1) c1) (msb_bits (N.to_nat l2) c2).
Proof.
  intros Hp Hk Hnd H1 H2 Hne. split.
  - intros ->. apply Hne.
    rewrite <- canonical_syms in Hnd.
    clear - Hnd H1 H2. induction (canonical lens) as [|e r IH]; [contradiction|].
    cbn [map] in Hnd. inversion Hnd as [|x y Hni Hnd']; subst.
    destruct H1 as [H1|H1], H2 as [H2|H2].
    + congruence.
    + exfalso. apply Hni. subst e. cbn [fst].
      change s2 with ((fun e => fst (fst e)) (s2, l2, c2)). apply in_map. exact H2.
    + exfalso. apply Hni. subst e. cbn [fst].
      change s2 with ((fun e => fst (fst e)) (s2, l1, c1)). apply in_map. exact H1.
    + apply IH; assumption.
  - eapply canonical_prefix_free_gen; eassumption.
Qed.

(* ---- tries -------------------------------------------------------------------- *)

(* the subtree reached by walking [w] *)
Fixpoint tree_at (t : htree) (w : list bool) {struct w} : htree :=
  match w with
  | [] => t
  | b :: r =>
    match t with
    | HNode l rr => tree_at (if b then rr else l) r
    | _ => HEmpty
    end
  end.

(* pure meaning of [sym_tree]: the decoded symbol and the unread bits *)
Fixpoint tree_lookup (t : htree) (bits : list bool) : option (N * list bool) :=
  match t with
  | HEmpty => None
  | HLeaf s => Some (s, bits)
  | HNode l r =>
    match bits with
    | [] => None
    | b :: rest => tree_lookup (if b then r else l) rest
    end
  end.

Lemma tree_at_lookup w : forall t s rest,
  tree_at t w = HLeaf s -> tree_lookup t (w ++ rest) = Some (s, rest).
Proof.
  induction w as [|b w IH]; intros t s rest H; cbn [tree_at] in H.
  - subst t. reflexivity.
  - destruct t as [| |l rr]; try discriminate.
    cbn [app tree_lookup]. apply IH. exact H.
Qed.

(* [sym_tree] computes [tree_lookup] *)
Lemma tree_lookup_suffix t : forall bits s rest,
  tree_lookup t bits = Some (s, rest) -> exists w, bits = w ++ rest /\ tree_at t w = HLeaf s.
Proof.
  induction t as [|s0|l IHl r IHr]; intros bits s rest H; cbn [tree_lookup] in H.
  - discriminate.
  - inversion H; subst. exists []. split; reflexivity.
  - destruct bits as [|b bits]; [discriminate|].
    destruct b; [apply IHr in H | apply IHl in H]; destruct H as (w & -> & Hw).
    + exists (true :: w). split; [reflexivity | exact Hw].
    + exists (false :: w). split; [reflexivity | exact Hw].
Qed.

Lemma sym_tree_at w : forall t s rest pos out len,
  tree_at t w = HLeaf s ->
  run (sym_tree t) (mkAst (w ++ rest) pos out len) =
  Done (Some s) (mkAst rest (pos + N.of_nat (length w)) out len).
Proof.
  induction w as [|b w IH]; intros t s rest pos out len H; cbn [tree_at] in H.
  - subst t. cbn [sym_tree run app length]. f_equal. f_equal. lia.
  - destruct t as [| |l rr]; try discriminate.
    cbn [sym_tree run app a_in a_pos a_out a_len].
    rewrite (IH _ s) by exact H. f_equal. f_equal. cbn [length]. lia.
Qed.

Lemma tree_insert_at w : forall t s, tree_at (tree_insert t w s) w = HLeaf s.
Proof.
  induction w as [|b w IH]; intros t s; cbn [tree_insert].
  - reflexivity.
  - destruct t as [| |l rr]; destruct b; cbn [tree_at]; apply IH.
Qed.

Lemma prefix_of_nil {A} (w : list A) : prefix_of [] w.
Proof. exists w. reflexivity. Qed.

Lemma prefix_of_cons {A} (b : A) w w' : prefix_of w w' -> prefix_of (b :: w) (b :: w').
Proof. intros [t ->]. exists t. reflexivity. Qed.

(* inserting a word incomparable with [w'] keeps the leaf at [w'] *)
Lemma tree_insert_other w : forall t w' s s',
  tree_at t w' = HLeaf s' ->
  ~ prefix_of w w' -> ~ prefix_of w' w ->
  tree_at (tree_insert t w s) w' = HLeaf s'.
Proof.
  induction w as [|b w IH]; intros t w' s s' Hat H1 H2.
  - exfalso. apply H1. apply prefix_of_nil.
  - destruct w' as [|b' w']; [exfalso; apply H2; apply prefix_of_nil|].
    cbn [tree_at] in Hat. destruct t as [| |l rr]; try discriminate.
    cbn [tree_insert].
    destruct b, b'; cbn [tree_at] in *; try exact Hat;
      (apply IH; [exact Hat | intros Hx; apply H1; apply prefix_of_cons; exact Hx
                           | intros Hx; apply H2; apply prefix_of_cons; exact Hx]).
Qed.

Definition ins (t : htree) (slc : N * N * N) : htree :=
  let '(s, l, c) := slc in tree_insert t (msb_bits (N.to_nat l) c) s.
Definition word (e : N * N * N) : list bool := msb_bits (N.to_nat (snd (fst e))) (snd e).
Definition esym (e : N * N * N) : N := fst (fst e).

Lemma ins_word t e : ins t e = tree_insert t (word e) (esym e).
Proof. destruct e as [[s l] c]. reflexivity. Qed.

Lemma fold_ins_at cs :
  NoDup cs ->
  (forall e1 e2, In e1 cs -> In e2 cs -> e1 <> e2 -> ~ prefix_of (word e1) (word e2)) ->
  forall t e, In e cs -> tree_at (fold_left ins cs t) (word e) = HLeaf (esym e).
Proof.
  induction cs as [|x cs IH] using rev_ind; intros Hnd Hpf t e Hin.
  - contradiction.
  - rewrite fold_left_app. cbn [fold_left]. rewrite ins_word.
    apply NoDup_remove in Hnd. rewrite app_nil_r in Hnd. destruct Hnd as [Hnd Hni].
    apply in_app_or in Hin. destruct Hin as [Hin|[<-|[]]].
    + assert (Hne : e <> x) by (intros ->; contradiction).
      apply tree_insert_other.
      * apply IH; [exact Hnd | | exact Hin].
        intros e1 e2 Ha Hb. apply Hpf; apply in_or_app; left; assumption.
      * apply Hpf; [apply in_or_app; right; left; reflexivity | apply in_or_app; left; exact Hin
                   | intros E; apply Hne; symmetry; exact E].
      * apply Hpf; [apply in_or_app; left; exact Hin | apply in_or_app; right; left; reflexivity
                   | exact Hne].
    + apply tree_insert_at.
Qed.

Lemma tree_of_fold lens : tree_of lens = fold_left ins (canonical lens) HEmpty.
Proof. reflexivity. Qed.

Lemma canonical_nodup lens : NoDup (map fst lens) -> NoDup (canonical lens).
Proof.
  intros H. rewrite <- canonical_syms in H. eapply NoDup_map_inv. exact H.
Qed.

Theorem tree_at_code lens s l c :
  lens_pos lens -> kraft_ok lens -> NoDup (map fst lens) ->
  In (s, l, c) (canonical lens) ->
  tree_at (tree_of lens) (msb_bits (N.to_nat l) c) = HLeaf s.
Proof.
  intros Hp Hk Hnd Hin. rewrite tree_of_fold.
  apply (fold_ins_at (canonical lens)) with (e := (s, l, c)).
  - apply canonical_nodup. exact Hnd.
  - intros [[s1 l1] c1] [[s2 l2] c2] H1 H2 Hne.
    apply (canonical_prefix_free_gen lens s1 l1 c1 s2 l2 c2); assumption.
  - exact Hin.
Qed.

(* ---- (3) the trie decoder reads exactly the code word of a symbol ------------- *)

Theorem tree_decodes_code lens s l c rest pos out len :
  lens_pos lens -> kraft_ok lens -> NoDup (map fst lens) ->
  In (s, l, c) (canonical lens) ->
  run (sym_tree (tree_of lens)) (mkAst (msb_bits (N.to_nat l) c ++ rest) pos out len)
  = Done (Some s) (mkAst rest (pos + l) out len).
Proof.
  intros Hp Hk Hnd Hin.
  rewrite (sym_tree_at _ _ s) by (apply tree_at_code; assumption).
  rewrite msb_bits_len, N2Nat.id. reflexivity.
Qed.

Theorem tree_lookup_code lens s l c rest :
  lens_pos lens -> kraft_ok lens -> NoDup (map fst lens) ->
  In (s, l, c) (canonical lens) ->
  tree_lookup (tree_of lens) (msb_bits (N.to_nat l) c ++ rest) = Some (s, rest).
Proof.
  intros Hp Hk Hnd Hin. apply tree_at_lookup. apply tree_at_code; assumption.
Qed.

Theorem sym_tree_lookup t bits s rest pos out len :
  tree_lookup t bits = Some (s, rest) ->
  run (sym_tree t) (mkAst bits pos out len)
  = Done (Some s) (mkAst rest (pos + N.of_nat (length bits - length rest)) out len).
Proof.
  intros H. apply tree_lookup_suffix in H. destruct H as (w & -> & Hw).
  rewrite (sym_tree_at _ _ s) by exact Hw.
  rewrite app_length. do 3 f_equal. lia.
Qed.

(* a failed lookup is a dead end ([None]) or the end of the input *)
Lemma sym_tree_lookup_none t : forall bits pos out len,
  tree_lookup t bits = None ->
  (exists st, run (sym_tree t) (mkAst bits pos out len) = Done None st) \/
  (exists st, run (sym_tree t) (mkAst bits pos out len) = Fail EUEOF st).
Proof.
  induction t as [|s0|l IHl r IHr]; intros bits pos out len H; cbn [tree_lookup] in H.
  - left. eexists. reflexivity.
  - discriminate.
  - cbn [sym_tree run a_in a_pos a_out a_len]. destruct bits as [|b bits].
    + right. eexists. reflexivity.
    + destruct b; [apply IHr | apply IHl]; exact H.
Qed.

(* ---- (4) a complete code decodes every long enough bit string ------------------ *)

Lemma count_len_nth lens l : forall j,
  j < count_len lens l ->
  exists pre s post, lens = pre ++ (s, l) :: post /\ count_len pre l = j.
Proof.
  induction lens as [|[s0 l0] r IH] using rev_ind; intros j Hj.
  - rewrite count_len_nil in Hj. lia.
  - rewrite count_len_app, count_len_cons, count_len_nil in Hj.
    destruct (N.lt_ge_cases j (count_len r l)) as [Hlt|Hge].
    + destruct (IH j Hlt) as (pre & s & post & -> & Hc).
      exists pre, s, (post ++ [(s0, l0)]). split; [|exact Hc].
      rewrite <- app_assoc. reflexivity.
    + destruct (l0 =? l) eqn:E; [|lia]. apply N.eqb_eq in E. subst l0.
      exists r, s0, []. split; [reflexivity | lia].
Qed.

(* the dyadic intervals of the lengths 1..l tile [0, 2^(m-l) * pk l) *)
Lemma tiling lens m v : lens_pos lens -> forall l,
  l <= m -> v < 2 ^ (m - l) * pk lens l ->
  exists l', 1 <= l' <= l /\ 2 ^ (m - l') * fc lens l' <= v < 2 ^ (m - l') * pk lens l'.
Proof.
  intros Hp l. induction l as [|l IH] using N.peano_ind; intros Hl Hv.
  - rewrite (pk_zero lens Hp) in Hv. lia.
  - destruct (N.le_gt_cases (2 ^ (m - N.succ l) * fc lens (N.succ l)) v) as [Hge|Hlt].
    + exists (N.succ l). split; [lia|]. split; assumption.
    + rewrite <- N.add_1_r, fc_succ in Hlt.
      assert (E : 2 ^ (m - l) = 2 ^ (m - (l + 1)) * 2).
      { replace (m - l) with (N.succ (m - (l + 1))) by lia. rewrite N.pow_succ_r'. lia. }
      destruct IH as (l' & Hl' & Hi); [lia | rewrite E; lia |].
      exists l'. split; [lia | exact Hi].
Qed.

Lemma msb_bits_of_word a : msb_bits (length a) (bits_val (rev a)) = a.
Proof.
  unfold msb_bits. rewrite fast_rev_eq, <- (rev_length a), val_bits_bits_val.
  apply rev_involutive.
Qed.

Theorem tree_complete lens bits :
  lens_pos lens -> complete lens = true -> NoDup (map fst lens) ->
  (N.to_nat (max_len lens) <= length bits)%nat ->
  exists s rest, tree_lookup (tree_of lens) bits = Some (s, rest) /\ In s (map fst lens).
Proof.
  intros Hp Hc Hnd Hlen.
  pose proof (complete_kraft_ok lens Hc) as Hk.
  unfold complete in Hc. apply N.eqb_eq in Hc.
  set (m := max_len lens) in *.
  set (w := firstn (N.to_nat m) bits).
  assert (Hw : length w = N.to_nat m) by (unfold w; rewrite firstn_length; lia).
  assert (Hb : bits = w ++ skipn (N.to_nat m) bits) by (symmetry; apply firstn_skipn).
  pose proof (bits_val_bound (rev w)) as Hv. rewrite rev_length, Hw, N2Nat.id in Hv.
  destruct (tiling lens m (bits_val (rev w)) Hp m) as (l & Hl & Hi).
  { lia. }
  { rewrite N.sub_diag. change (2 ^ 0) with 1. rewrite (pk_kraft_eq lens m) by (unfold m; lia).
    lia. }
  set (a := firstn (N.to_nat l) w).
  set (t := skipn (N.to_nat l) w).
  assert (Ha : length a = N.to_nat l) by (unfold a; rewrite firstn_length; lia).
  assert (Hat : w = a ++ t) by (symmetry; apply firstn_skipn).
  assert (Ht : N.of_nat (length t) = m - l).
  { apply (f_equal (@length bool)) in Hat. rewrite app_length in Hat. lia. }
  pose proof (app_val_interval a t) as Hint. rewrite <- Hat, Ht in Hint.
  set (va := bits_val (rev a)) in *.
  assert (Hz : 0 < 2 ^ (m - l)) by (apply N.neq_0_lt_0, N.pow_nonzero; lia).
  assert (H1 : fc lens l < va + 1).
  { apply (N.mul_lt_mono_pos_l _ _ _ Hz). lia. }
  assert (H2 : va < pk lens l).
  { apply (N.mul_lt_mono_pos_l _ _ _ Hz). lia. }
  rewrite <- fc_count in H2.
  destruct (count_len_nth lens l (va - fc lens l)) as (pre & s & post & E & Hcnt); [lia|].
  assert (Hin : In (s, l, va) (canonical lens)).
  { apply (canonical_spec lens Hp). exists pre, post. split; [exact E | lia]. }
  exists s, (t ++ skipn (N.to_nat m) bits). split.
  - rewrite Hb at 1. rewrite Hat, <- app_assoc.
    rewrite <- (msb_bits_of_word a). fold va. rewrite Ha.
    apply tree_lookup_code; assumption.
  - rewrite E, map_app. apply in_or_app. right. left. reflexivity.
Qed.

(* the same, for the decoder program *)
Corollary sym_tree_complete lens bits pos out len :
  lens_pos lens -> complete lens = true -> NoDup (map fst lens) ->
  (N.to_nat (max_len lens) <= length bits)%nat ->
  exists s rest,
    run (sym_tree (tree_of lens)) (mkAst bits pos out len)
    = Done (Some s) (mkAst rest (pos + N.of_nat (length bits - length rest)) out len)
    /\ In s (map fst lens).
Proof.
  intros Hp Hc Hnd Hlen.
  destruct (tree_complete lens bits Hp Hc Hnd Hlen) as (s & rest & H & Hin).
  exists s, rest. split; [apply sym_tree_lookup; exact H | exact Hin].
Qed.

(* ---- the statements for complete assignments, and the fixed codes ------------- *)

Corollary complete_decodes_code lens s l c rest pos out len :
  lens_pos lens -> complete lens = true -> NoDup (map fst lens) ->
  In (s, l, c) (canonical lens) ->
  c < 2 ^ l /\
  run (sym_tree (tree_of lens)) (mkAst (msb_bits (N.to_nat l) c ++ rest) pos out len)
  = Done (Some s) (mkAst rest (pos + l) out len).
Proof.
  intros Hp Hc Hnd Hin. pose proof (complete_kraft_ok lens Hc) as Hk. split.
  - eapply canonical_fits; eassumption.
  - apply tree_decodes_code; assumption.
Qed.

(* the hypotheses hold for the fixed literal/length code of RFC 1951 3.2.6 *)
Lemma fixedLit_hyps :
  lens_pos fixedLitLens /\ complete fixedLitLens = true /\ NoDup (map fst fixedLitLens).
Proof.
  split; [|split].
  - intros s l H. unfold fixedLitLens in H. apply in_map_iff in H.
    destruct H as (i & E & _). inversion E; subst.
    destruct (N.of_nat i <? 144); [lia|].
    destruct (N.of_nat i <? 256); [lia|].
    destruct (N.of_nat i <? 280); lia.
  - vm_compute. reflexivity.
  - unfold fixedLitLens. rewrite map_map. cbn [fst].
    apply FinFun.Injective_map_NoDup; [intros x y; apply Nat2N.inj | apply seq_NoDup].
Qed.
