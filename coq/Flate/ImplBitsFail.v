(* The bit reader of the flate Reader at FAILURE states: after a failed PullBits (ReadBits,
   ReadSymbol ...) the reader state is still consistent with the abstract position R it had
   before the failed step (nothing was consumed), with the look-ahead discipline intact, so a
   following Flush is covered by [flush_sim] of Flate/ImplBits.v. The slack 64 only records
   numBits <= 64. *)
From V Require Import Base.Prelude Base.Prog Bzip2.Common Prefix.Code
  Prefix.ReaderImpl Prefix.ReaderSpec Prefix.ReaderThms
  Prefix.DecTable Prefix.DecTableSpec Prefix.DecTableThms Prefix.DecReadThms Prefix.DecReadBufThms.
From V Require Import Flate.Impl Flate.ImplRel Flate.ImplBits.
From Coq Require Import ZifyBool ZifyN ZifyNat.

Local Open Scope N_scope.

Local Ltac prj := cbn [p_src p_buffered p_big p_bufBits p_numBits p_peek p_discard p_fed p_offset
                       s_data s_pos s_buf s_fills s_reads fst snd].

(* the bit count the table walk asks for next is a 5-bit field *)
Lemma land_countMask x : N.land x countMask <= 31.
Proof.
  unfold countMask. change 31 with (2 ^ 5 - 1) at 1. rewrite land_mask.
  pose proof (N.mod_lt x (2 ^ 5) ltac:(apply pow2_nz)) as H. change (2 ^ 5) with 32 in *. lia.
Qed.

Lemma dec_lookup_len d b s nb : dec_lookup d b = Some (s, nb) -> nb <= 31.
Proof.
  unfold dec_lookup. destruct (arr_get (d_chunks d) _) as [chunk|]; [|discriminate].
  destruct (d_chunkBits d <? N.land chunk countMask).
  - destruct (_ <? d_nlinks d); [|discriminate].
    destruct (_ <? d_linkLen d); [|discriminate].
    destruct (arr_get (d_flat d) _) as [chunk2|]; [|discriminate].
    intros E; inversion E; subst. apply land_countMask.
  - intros E; inversion E; subst. apply land_countMask.
Qed.

Lemma loadp_not_err p1 q : loadp p1 <> PErr q.
Proof.
  unfold loadp. destruct (Nat.leb 8 (length (p_peek p1))); [discriminate|].
  destruct (load_bytes _ _ _ _) as [bits nbits]. destruct (56 <? nbits); discriminate.
Qed.

Section Fail.
Variable data : list byte.
Hypothesis Hd : forall b, In b data -> b < 256.

Notation PI := (PI false data).
Notation Inv := (Inv false data).
Notation LA := (LA false data).
Notation ZA := (ZA data).
Notation LI := (LI false data).
Notation Core := (Core false data).

Lemma BIs_64 k R p : BIs data k R p -> BIs data 64 R p.
Proof.
  intros HB. apply mk_BIs; [apply (BIs_PI _ _ _ _ HB) | apply (BIs_QD _ _ _ _ HB)|].
  intros _. destruct (PI_numBits false data Hd R p (BIs_PI _ _ _ _ HB)) as (H & _). lia.
Qed.

(* ---- ByteReader path: ReadByte fails with the bytes loaded so far ------------------------------ *)
Lemma pull_bytes_fail R nb : nb <= 57 -> forall fuel p p',
  p_buffered p = false -> Core R p (- Z.of_N (p_numBits p)) -> p_peek p = [] -> ZA p ->
  pull_bytes fuel p nb = (true, p') ->
  Core R p' (- Z.of_N (p_numBits p')) /\ p_buffered p' = false /\ p_peek p' = [] /\ ZA p'.
Proof.
  intros Hnb. induction fuel as [|fuel IH]; intros p p' Hb HC Hpk HZ E; cbn [pull_bytes] in E.
  - inversion E; subst p'. split; [exact HC|]. split; [exact Hb|]. split; [exact Hpk | exact HZ].
  - destruct (nb <=? p_numBits p) eqn:En; [discriminate|]. apply N.leb_gt in En.
    unfold src_readbyte in E.
    destruct (skipn (s_pos (p_src p)) (s_data (p_src p))) as [|c rest] eqn:Es.
    + inversion E; subst p'. split; [exact HC|]. split; [exact Hb|]. split; [exact Hpk | exact HZ].
    + apply IH in E; [exact E | reflexivity | | reflexivity |].
      * destruct HC as [C1 C2 C3 C4 C5 C6].
        assert (HE : ((R + N.to_nat (p_numBits p)) / 8 = s_pos (p_src p))%nat) by lia.
        rewrite C2 in Es.
        split; prj; try assumption; try reflexivity; try lia.
        rewrite C1. apply Win_load_byte with (rest := rest); try assumption; try lia.
        rewrite HE. exact Es.
      * destruct HZ as (Z1 & Z2 & Z3).
        assert (Hc : c < 256).
        { apply Hd. rewrite <- Z2. apply (In_skipn' c (s_pos (p_src p))). rewrite Es. left. reflexivity. }
        split; [reflexivity|]. split; [exact Z2|]. prj.
        set (oc := ord (p_big p) c).
        assert (Ho : oc < 256) by (apply ord_lt; exact Hc).
        assert (Hw : u64 (N.shiftl oc (p_numBits p)) = N.shiftl oc (p_numBits p)).
        { unfold u64. apply N.mod_small. rewrite N.shiftl_mul_pow2.
          apply N.lt_le_trans with (2 ^ 8 * 2 ^ p_numBits p).
          - apply N.mul_lt_mono_pos_r; [apply pow2_pos | exact Ho].
          - rewrite <- N.pow_add_r. apply pow2_le. lia. }
        rewrite Hw, N.lor_comm, lor_shl by exact Z3.
        rewrite (N.add_comm (p_numBits p) 8), N.pow_add_r.
        change (2 ^ 8) with 256. pose proof (pow2_pos (p_numBits p)). nia.
Qed.

(* ---- buffered path: the fill loop stops with an error ----------------------------------------------- *)
(* the only error exit of a round: Flush, then Peek returns nothing new and nb > numBits; the
   state is the post-Flush state (fed = numBits, peek = []) *)
Lemma refill_err R p nb : LI R p ->
  match refill p nb with
  | (p1, Some true) => LI R p1 /\ p_fed p1 = p_numBits p1
  | _ => True
  end.
Proof.
  intros (Hb & HC & Hd7). unfold refill. destruct (p_peek p) as [|x pk] eqn:Hp; [|exact I].
  set (p0 := mkPrd (p_src p) true (p_big p) (p_bufBits p) (p_numBits p) [] (p_discard p)
                   (p_numBits p) (p_offset p)).
  assert (HI0 : Inv R p0).
  { destruct HC as [C1 C2 C3 C4 C5 C6]. unfold ReaderThms.Inv, effd, p0. prj.
    split; [|split]; [|lia|discriminate].
    split; prj; try assumption; try reflexivity; lia. }
  destruct (flush_ok false data R p0 HI0) as (pf & Hf & HIf & Hbf & Hoff & Hpos & Hbb & Hnb & Hx).
  rewrite Hf. cbv beta iota zeta.
  destruct (Hx eq_refl) as (Hpkf & Hfed & Hd0). clear Hx.
  unfold p0 in Hbf, Hbb, Hnb. cbn [p_buffered p_bufBits p_numBits] in Hbf, Hbb, Hnb. prj.
  destruct HIf as (HCf & Hd7f & _). unfold effd in HCf, Hd7f. rewrite Hbf in HCf, Hd7f.
  destruct HCf as [C1 C2 C3 C4 C5 C6].
  unfold src_buffered.
  set (cnt := Nat.max _ _).
  match goal with |- context [src_peek ?s cnt] =>
    destruct (src_peek_spec s cnt) as (buf & fills & short & Hpe); rewrite Hpe; clear Hpe end.
  prj. rewrite C2, Hpos.
  set (k := N.to_nat (p_numBits pf / 8)).
  assert (HE : ((R + 7) / 8 + k = (R + N.to_nat (p_numBits pf)) / 8)%nat).
  { destruct C5 as [W1 W2 W3 _ _]. unfold k. lia. }
  assert (Hpeek : skipn k (firstn cnt (skipn ((R + 7) / 8) data)) =
                  firstn (cnt - k) (skipn ((R + N.to_nat (p_numBits pf)) / 8) data)).
  { rewrite skipn_firstn_comm, skipn_skipn', HE. reflexivity. }
  rewrite Hpeek.
  set (E := ((R + N.to_nat (p_numBits pf)) / 8)%nat) in *.
  assert (HLI : forall s2,
     s_data s2 = data -> s_pos s2 = ((R + 7) / 8)%nat ->
     LI R (mkPrd s2 true (p_big pf) (p_bufBits pf) (p_numBits pf)
                 (firstn (cnt - k) (skipn E data)) (p_discard pf) (p_fed pf) (p_offset pf))).
  { intros s2 H1 H2. split; [reflexivity|]. split; [|prj; lia].
    split; prj; try assumption; try lia.
    fold E. rewrite firstn_length_firstn. reflexivity. }
  destruct (firstn (cnt - k) (skipn E data)) as [|y pk'] eqn:Hpk'; [|exact I].
  destruct (nb <=? p_numBits pf) eqn:Enb; [exact I|].
  split; [apply HLI; reflexivity | prj; exact Hfed].
Qed.

Lemma pull_round_err R p nb p1 : LI R p -> pull_round p nb = PErr p1 ->
  LI R p1 /\ p_fed p1 = p_numBits p1 /\ p_bufBits p1 = p_bufBits p /\ p_numBits p1 = p_numBits p.
Proof.
  intros HLI E. rewrite pull_round_eq in E.
  pose proof (refill_err R p nb HLI) as Hr. pose proof (refill_bits p nb) as [Eb En].
  destruct (refill p nb) as [q [[|]|]]; cbn [fst] in Eb, En.
  - inversion E; subst q. destruct Hr as [H1 H2].
    split; [exact H1|]. split; [exact H2|]. split; [exact Eb | exact En].
  - discriminate.
  - exfalso. apply (loadp_not_err q p1). exact E.
Qed.

Lemma pull_loop_err R nb : nb <= 57 -> forall fuel p p1,
  LI R p -> LA R p -> 72 <= p_numBits p + 8 * N.of_nat fuel ->
  pull_loop fuel p nb = (true, p1) ->
  LI R p1 /\ p_fed p1 = p_numBits p1 /\ LA R p1.
Proof.
  intros Hnb. induction fuel as [|fuel IH]; intros p p1 HLI HLA Hfuel E.
  - destruct HLI as (_ & [_ _ _ _ [W _ _ _ _] _] & _). lia.
  - cbn [pull_loop] in E.
    pose proof (pull_round_ok false data Hd R p nb HLI Hnb) as Hr.
    pose proof (pull_round_la false data Hd R p nb HLI Hnb HLA) as Hl.
    destruct (pull_round p nb) as [q|q|q] eqn:Er.
    + destruct Hr as (H1 & H2 & H3). apply (IH q p1 H1 Hl); [lia | exact E].
    + discriminate.
    + inversion E; subst q. destruct (pull_round_err R p nb p1 HLI Er) as (A & B & C & D).
      split; [exact A|]. split; [exact B|].
      destruct HLA as (mm & Hu & Hm). exists mm. rewrite C, D. split; assumption.
Qed.

(* ---- PullBits fails ------------------------------------------------------------------------------------- *)
Lemma pull_fail_sim k R p nb p' : BIs data k R p -> nb <= 57 -> pull_bits p nb = (true, p') ->
  BIs data 64 R p' /\ p_buffered p' = p_buffered p.
Proof.
  intros HB Hnb E. destruct HB as ((HC & Hd7 & Hpk) & HLA & HZA).
  unfold pull_bits in E. destruct (p_buffered p) eqn:Hb.
  - set (p0 := mkPrd _ _ _ _ _ _ _ _ _) in E.
    assert (HLI : LI R p0).
    { unfold effd in HC, Hd7. rewrite Hb in HC, Hd7. destruct HC as [C1 C2 C3 C4 C5 C6].
      split; [reflexivity|]. split; [|exact (Hd7 eq_refl)]. split; assumption. }
    assert (HLA0 : LA R p0) by exact (HLA eq_refl).
    destruct (pull_loop 12 p0 nb) as [[|] p1] eqn:El; [|discriminate].
    inversion E; subst p'.
    destruct (pull_loop_err R nb Hnb 12 p0 p1 HLI HLA0 ltac:(lia) El) as ((Hb1 & HC1 & Hd1) & Hfed & HLA1).
    split; [|exact Hb1].
    assert (Heff : effd p1 = p_discard p1) by (unfold effd; rewrite Hb1, Hfed; lia).
    apply mk_BIs.
    + unfold DecReadThms.PI. rewrite Heff. split; [exact HC1|].
      split; [intros _; exact Hd1 | intros Hx; congruence].
    + split; [intros _; exact HLA1 | intros Hx; congruence].
    + intros Hx; congruence.
  - destruct (HZA eq_refl) as [HZ _].
    unfold effd in HC. rewrite Hb in HC.
    destruct (pull_bytes_fail R nb Hnb 9 p p' Hb HC (Hpk eq_refl) HZ E) as (C' & Hb' & Hpk' & HZ').
    split; [|exact Hb'].
    apply mk_BIs.
    + unfold DecReadThms.PI, effd. rewrite Hb'. split; [exact C'|].
      split; [discriminate | intros _; exact Hpk'].
    + split; [intros Hx; congruence | intros _; exact HZ'].
    + intros _. destruct C' as [_ _ _ _ [W _ _ _ _] _]. lia.
Qed.

Lemma read_bits_fail k R p nb p' : BIs data k R p -> nb <= 57 -> read_bits p nb = (None, p') ->
  BIs data 64 R p' /\ p_buffered p' = p_buffered p.
Proof.
  intros HB Hnb E. unfold read_bits in E.
  destruct (pull_bits p nb) as [[|] p1] eqn:Ep.
  - inversion E; subst p'. apply (pull_fail_sim k R p nb p1 HB Hnb Ep).
  - destruct (take_bits p1 nb); discriminate.
Qed.

Lemma bits_fast_fail k R p nb p' : BIs data k R p -> nb <= 57 -> bits_fast p nb = (None, p') ->
  BIs data 64 R p' /\ p_buffered p' = p_buffered p.
Proof.
  intros HB Hnb E. unfold bits_fast, try_read_bits in E.
  destruct (p_numBits p <? nb).
  - apply (read_bits_fail k R p nb p' HB Hnb E).
  - destruct (take_bits p nb); discriminate.
Qed.

(* ---- ReadSymbol / TryReadSymbol fail, arbitrary tables ------------------------------------------------ *)
Lemma rs_loop_fail d R : forall fuel p nb r p',
  PI R p -> QD data R p -> nb <= 57 ->
  read_symbol_loop fuel d p nb = (r, p') -> (forall s, r <> RSym s) ->
  BIs data 64 R p' /\ p_buffered p' = p_buffered p.
Proof.
  induction fuel as [|fuel IH]; intros p nb r p' HP HQ Hnb E Hr; cbn [read_symbol_loop] in E.
  - inversion E; subst. split; [|reflexivity]. apply (BIs_64 64). apply mk_BIs; [exact HP | exact HQ|].
    intros _. destruct (PI_numBits false data Hd R p' HP) as (H & _). lia.
  - assert (HB : BIs data 64 R p).
    { apply mk_BIs; [exact HP | exact HQ|].
      intros _. destruct (PI_numBits false data Hd R p HP) as (H & _). lia. }
    pose proof (pull_ok' data Hd R p nb HP Hnb) as Hpull.
    destruct (pull_bits p nb) as [[|] p1] eqn:Ep.
    + inversion E; subst. apply (pull_fail_sim 64 R p nb p' HB Hnb Ep).
    + destruct Hpull as (HP1 & Hn1 & Hb1 & _).
      pose proof (pull_qd data Hd R p nb p1 HP HQ Hnb Ep) as HQ1.
      assert (HB1 : BIs data 64 R p1).
      { apply mk_BIs; [exact HP1 | exact HQ1|].
        intros _. destruct (PI_numBits false data Hd R p1 HP1) as (H & _). lia. }
      destruct (dec_lookup d (p_bufBits p1)) as [[sym nb']|] eqn:El.
      * destruct (nb' <=? p_numBits p1).
        -- inversion E; subst. exfalso. apply (Hr sym). reflexivity.
        -- pose proof (dec_lookup_len d _ _ _ El) as Hle.
           destruct (IH p1 nb' r p' HP1 HQ1 ltac:(lia) E Hr) as [A B].
           split; [exact A | congruence].
      * inversion E; subst. split; [exact HB1 | exact Hb1].
Qed.

Lemma sym_slow_fail d k R p e p' : d_minBits d <= 57 -> BIs data k R p ->
  sym_slow d p = (RThrow e, p') -> BIs data 64 R p' /\ p_buffered p' = p_buffered p.
Proof.
  intros Hmin HB E. unfold sym_slow in E.
  destruct (dt_read_symbol d p) as [r q] eqn:Er. inversion E; subst q.
  unfold dt_read_symbol in Er. destruct (a_len (d_chunks d) =? 0).
  - inversion Er; subst. split; [apply (BIs_64 k); exact HB | reflexivity].
  - apply (rs_loop_fail d R 34%nat p (d_minBits d) r p'
             (BIs_PI _ _ _ _ HB) (BIs_QD _ _ _ _ HB) Hmin Er).
    intros s Hs. subst r. discriminate.
Qed.

Lemma sym_fast_fail d k R p e p' : d_minBits d <= 57 -> BIs data k R p ->
  sym_fast d p = (RThrow e, p') -> BIs data 64 R p' /\ p_buffered p' = p_buffered p.
Proof.
  intros Hmin HB E. unfold sym_fast, try_read_symbol in E.
  destruct ((p_numBits p <? d_minBits d) || (a_len (d_chunks d) =? 0)).
  - apply (sym_slow_fail d k R p e p' Hmin HB E).
  - destruct (arr_get (d_chunks d) _) as [chunk|].
    + destruct ((p_numBits p <? N.land chunk countMask) || (d_chunkBits d <? N.land chunk countMask)).
      * apply (sym_slow_fail d k R p e p' Hmin HB E).
      * discriminate.
    + inversion E; subst. split; [apply (BIs_64 k); exact HB | reflexivity].
Qed.

End Fail.

(* non-vacuity: ReadBits(3) on the empty stream fails on both source disciplines and leaves a
   consistent reader *)
Example read_bits_fail_ex bf :
  exists p', read_bits (init [] bf false [] []) 3 = (None, p') /\ BIs [] 64 0 p'.
Proof.
  assert (Hd0 : forall b : byte, In b [] -> b < 256) by (intros b []).
  pose proof (BIs_init [] Hd0 bf [] []) as HB.
  pose proof (read_bits_sim [] Hd0 0 0%nat _ 3 HB ltac:(lia)) as Hs.
  destruct (read_bits (init [] bf false [] []) 3) as [[v|] p'] eqn:E.
  - destruct Hs as (Hs & _). unfold nbits in Hs. cbn [length] in Hs. lia.
  - exists p'. split; [reflexivity|].
    apply (read_bits_fail [] Hd0 0 0%nat _ 3 p' HB ltac:(lia) E).
Qed.

Print Assumptions pull_fail_sim.
Print Assumptions read_bits_fail.
Print Assumptions bits_fast_fail.
Print Assumptions sym_slow_fail.
Print Assumptions sym_fast_fail.
Print Assumptions read_bits_fail_ex.
