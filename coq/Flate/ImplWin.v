(* The sliding window inside the flate Reader model: the operations of Window/Dict.v as the
   step functions of Flate/Impl.v use them, under the window relation [WInv] of
   Flate/ImplRel.v (built on the representation invariant of Window/DictThms.v). *)
From V Require Import Base.Prelude Window.Dict Window.DictSpec Window.DictThms.
From V Require Import Flate.Impl Flate.ImplRel.
From Coq Require Import ZifyBool ZifyN ZifyNat.

Local Open Scope Z_scope.

Lemma zlen_nonneg' {A} (l : list A) : 0 <= zlen l.
Proof. unfold zlen. lia. Qed.

Lemma winv_avail dc out fl : WInv dc out fl -> 0 <= avail_size dc <= maxHistSize.
Proof.
  intros (s & I & _ & _ & Hsz & _). unfold avail_size.
  pose proof (i_rd _ _ I). pose proof (i_wr _ _ I). pose proof (i_len _ _ I). lia.
Qed.

Lemma winv_fl dc out fl : WInv dc out fl -> 0 <= fl <= zlen out.
Proof. intros (s & I & <- & <- & _). apply (inv_flushed _ _ I). Qed.

Lemma winv_hist dc out fl : WInv dc out fl -> hist_size dc = Z.min maxHistSize (zlen out).
Proof.
  intros (s & I & Ho & _ & Hsz & _). rewrite (hist_size_spec _ _ I). unfold wsp_hist.
  rewrite (i_ssize _ _ I), Hsz, Ho. reflexivity.
Qed.

Lemma winv_write_byte dc out fl c : WInv dc out fl -> 0 < avail_size dc ->
  exists dc', write_byte dc c = Ok dc' /\ WInv dc' (out ++ [c]) fl /\
              avail_size dc' = avail_size dc - 1.
Proof.
  intros (s & I & Ho & Hf & Hsz & Hl) Ha.
  destruct (write_byte_ok dc s c I Ha) as (dc' & E & I' & E1 & E2 & E3).
  exists dc'. split; [exact E|]. split.
  - exists (set_out s (s_out s ++ [c])). split; [exact I'|]. unfold set_out. cbn [s_out s_flushed].
    rewrite Ho. split; [reflexivity|]. split; [exact Hf|]. split; lia.
  - unfold write_byte in E. destruct ((0 <=? d_wr dc) && (d_wr dc <? d_len dc)); [|discriminate].
    inversion E; subst dc'. unfold avail_size. cbn [d_len d_wr]. lia.
Qed.

Lemma winv_write_raw dc out fl bs : WInv dc out fl -> zlen bs <= avail_size dc ->
  exists dc', write_raw dc bs = Ok (zlen bs, dc') /\ WInv dc' (out ++ bs) fl /\
              avail_size dc' = avail_size dc - zlen bs.
Proof.
  intros (s & I & Ho & Hf & Hsz & Hl) Ha.
  destruct (write_raw_ok dc s bs I Ha) as (dc' & E & I' & E1 & E2 & E3).
  exists dc'. split; [exact E|]. split.
  - exists (set_out s (s_out s ++ bs)). split; [exact I'|]. unfold set_out. cbn [s_out s_flushed].
    rewrite Ho. split; [reflexivity|]. split; [exact Hf|]. split; lia.
  - unfold avail_size.
    unfold write_raw in E. destruct (slice_ok (d_len dc) (d_wr dc) (d_len dc)); [|discriminate].
    injection E as Hn Hd'. subst dc'. cbn [d_wr d_len].
    pose proof (i_rd _ _ I). pose proof (i_wr _ _ I). pose proof (i_len _ _ I).
    pose proof (zlen_nonneg' bs). unfold avail_size in Ha.
    destruct (i_size _ _ I) as [S1 S2].
    unfold wrap_int.
    assert (Hw : (d_wr dc + zlen bs + 2 ^ 63) mod 2 ^ 64 = d_wr dc + zlen bs + 2 ^ 63).
    { apply Z.mod_small. lia. }
    rewrite Hw. lia.
Qed.

Lemma winv_flush dc out fl : WInv dc out fl ->
  exists dc', read_flush dc = Ok (zskipn fl out, dc') /\ WInv dc' out (zlen out) /\
              0 < avail_size dc'.
Proof.
  intros (s & I & Ho & Hf & Hsz & Hl).
  destruct (read_flush_ok dc s I) as (dc' & E & I' & E1 & E2 & E3 & _).
  exists dc'. rewrite <- Ho, <- Hf. split; [exact E|]. split; [|apply E3; exact Hl].
  exists (set_flushed s). split; [exact I'|]. unfold set_flushed. cbn [s_out s_flushed].
  split; [reflexivity|]. split; [reflexivity|]. split; lia.
Qed.

(* cnt := TryWriteCopy(dist, len); if cnt == 0 { cnt = WriteCopy(dist, len) } *)
Definition copy_combo (dc : dd) (dist len : Z) : dres (Z * dd) :=
  match try_write_copy dc dist len with
  | Ok (cnt0, dc1) => if cnt0 =? 0 then write_copy dc1 dist len else Ok (cnt0, dc1)
  | Panic => Panic | Hang => Hang | Fuel => Fuel
  end.

Lemma winv_copy dc out fl dist len : WInv dc out fl ->
  0 < dist <= hist_size dc -> 0 <= len <= 65536 ->
  exists dc', copy_combo dc dist len = Ok (Z.min len (avail_size dc), dc') /\
    WInv dc' (lz_copy out dist (Z.to_nat (Z.min len (avail_size dc)))) fl /\
    avail_size dc' = avail_size dc - Z.min len (avail_size dc).
Proof.
  intros HW Hd Hlen. pose proof (winv_avail _ _ _ HW) as Hav.
  destruct HW as (s & I & Ho & Hf & Hsz & Hl).
  assert (Hpre : copy_pre dc dist len).
  { unfold copy_pre. rewrite Hsz. unfold maxHistSize. lia. }
  destruct (write_copy_ok dc s dist len I Hpre) as (dc' & Ew & I' & E1 & E2 & E3).
  assert (Hres : WInv dc' (lz_copy out dist (Z.to_nat (Z.min len (avail_size dc)))) fl /\
                 avail_size dc' = avail_size dc - Z.min len (avail_size dc)).
  { split.
    - exists (set_out s (lz_copy (s_out s) dist (Z.to_nat (Z.min len (avail_size dc))))).
      split; [exact I'|]. unfold set_out. cbn [s_out s_flushed]. rewrite Ho.
      split; [reflexivity|]. split; [exact Hf|]. split; lia.
    - unfold avail_size.
      unfold write_copy in Ew.
      (* the write position advances by the count returned *)
      destruct (if wrap_int (d_wr dc - dist) <? 0 then _ else _) as [[[a1 w1] r1]| | |] eqn:P1;
        try discriminate.
      destruct (copy_loop _ a1 r1 w1 _) as [[a2 w2]| | |] eqn:P2; try discriminate.
      injection Ew as Hc Hd'. subst dc'. cbn [d_wr d_len]. unfold avail_size in Hc. lia. }
  destruct Hres as [HW' Hav'].
  exists dc'. split; [|split; assumption].
  unfold copy_combo.
  destruct (try_write_copy_ok dc s dist len I Hpre) as [Et|(dc2 & Et & Ew2 & Hle)].
  - rewrite Et. cbv beta iota. rewrite Z.eqb_refl. exact Ew.
  - rewrite Et. rewrite Ew in Ew2. injection Ew2 as Hm Hdc. cbv beta iota.
    destruct (len =? 0) eqn:E0; [lia|]. rewrite Hm, Hdc. reflexivity.
Qed.
