(* The RFC 1951 model never reaches the outcome EPanic (a window copy with a
   distance of zero or beyond the bytes produced), and fails only with
   UnexpectedEOF, Corrupted, or an exhausted loop budget. *)
From V Require Import Base.Prelude Base.Prog Base.ProgThms Base.OkThms Flate.Spec.

Definition flate_errs (e : err) : Prop := e = EUEOF \/ e = ECorrupted \/ e = EFuel.

Local Ltac fe := unfold flate_errs; auto.
Local Ltac ok := repeat first [ solve [fe] | only_step flate_errs ].

Lemma ok_sym_tree t : only flate_errs (sym_tree t).
Proof.
  induction t as [| s | l IHl r IHr]; cbn [sym_tree]; [apply only_ret | apply only_ret |].
  apply only_bit; [fe|]. intros []; assumption.
Qed.

Lemma ok_sym_or_corrupt t : only flate_errs (sym_or_corrupt t).
Proof.
  unfold sym_or_corrupt. apply only_bind; [apply ok_sym_tree|].
  intros [s|]; [apply only_ret | apply only_throw; fe].
Qed.

Lemma ok_rbits n : only flate_errs (rbits n).
Proof. unfold rbits. apply only_bits_lsbf. fe. Qed.

Lemma ok_read_clens order : only flate_errs (read_clens order).
Proof.
  induction order as [|s r IH]; cbn [read_clens]; [apply only_ret|].
  apply only_bind; [apply ok_rbits|]. intros l.
  apply only_bind; [exact IH|]. intros; apply only_ret.
Qed.

Lemma ok_opt_tree o : only flate_errs (opt_tree o).
Proof. destruct o; [apply only_ret | apply only_throw; fe]. Qed.

Lemma ok_clen_body tree maxSyms s : only flate_errs (clen_body tree maxSyms s).
Proof.
  unfold clen_body. destruct (maxSyms <=? cl_sym s); [apply only_ret|].
  apply only_bind; [apply ok_sym_or_corrupt|]. intros clen.
  destruct (clen <? 16); [apply only_ret|].
  apply only_bind.
  - destruct (clen =? 16).
    + apply only_bind; [apply only_assert; fe|]. intros _.
      apply only_bind; [apply ok_rbits|]. intros; apply only_ret.
    + destruct (clen =? 17).
      * apply only_bind; [apply ok_rbits|]. intros; apply only_ret.
      * destruct (clen =? 18); [|apply only_throw; fe].
        apply only_bind; [apply ok_rbits|]. intros; apply only_ret.
  - intros [cl rep]. apply only_bind; [apply only_assert; fe|]. intros; apply only_ret.
Qed.

Lemma ok_read_prefix_codes : only flate_errs read_prefix_codes.
Proof.
  unfold read_prefix_codes.
  apply only_bind; [apply ok_rbits|]. intros a.
  apply only_bind; [apply ok_rbits|]. intros b.
  apply only_bind; [apply ok_rbits|]. intros c.
  apply only_bind; [apply only_assert; fe|]. intros _.
  apply only_bind; [apply ok_read_clens|]. intros cl.
  apply only_bind; [apply ok_opt_tree|]. intros ctree.
  apply only_bind; [apply only_loop; [fe | intros; apply ok_clen_body]|]. intros lens.
  apply only_bind; [apply ok_opt_tree|]. intros lt.
  apply only_bind; [apply ok_opt_tree|]. intros dt.
  apply only_ret.
Qed.

(* every distance code below 30 has a base of at least 1 *)
Lemma dist_base_positive :
  forallb (fun i => 1 <=? fst (nth_range distRanges (N.of_nat i))) (seq 0 30) = true.
Proof. vm_compute. reflexivity. Qed.

Lemma dist_base_pos distSym : distSym < 30 -> 1 <= fst (nth_range distRanges distSym).
Proof.
  intros H. pose proof dist_base_positive as T. rewrite forallb_forall in T.
  specialize (T (N.to_nat distSym)). rewrite N2Nat.id in T.
  apply N.leb_le. apply T. apply in_seq. lia.
Qed.

Lemma ok_block_body lt dt u : only flate_errs (block_body lt dt u).
Proof.
  unfold block_body.
  apply only_bind; [apply ok_sym_or_corrupt|]. intros litSym.
  destruct (litSym <? 256); [apply only_put; apply only_ret|].
  destruct (litSym =? 256); [apply only_ret|].
  destruct (litSym <? maxNumLitSyms); [|apply only_throw; fe].
  destruct (nth_range lenRanges (litSym - 257)) as [base nb].
  apply only_bind; [apply ok_rbits|]. intros extra.
  apply only_bind; [apply ok_sym_or_corrupt|]. intros distSym.
  apply only_assert_bind; [fe|]. intros Hd.
  apply N.ltb_lt in Hd. unfold maxNumDistSyms in Hd.
  pose proof (dist_base_pos distSym Hd) as Hb.
  destruct (nth_range distRanges distSym) as [dbase dnb]. cbn [fst] in Hb.
  apply only_bind; [apply ok_rbits|]. intros dextra.
  apply (only_hist_copy flate_errs (dbase + dextra) (base + extra)
           (fun h => N.min h maxHistSize) ECorrupted).
  - lia.
  - intros h. lia.
  - fe.
  - apply only_ret.
Qed.

Lemma ok_raw_bytes n : only flate_errs (raw_bytes n).
Proof.
  induction n as [|n IH]; cbn [raw_bytes]; [apply only_ret|].
  apply only_bind; [apply only_bits_lsbf; fe|]. intros b. apply only_put. exact IH.
Qed.

Lemma ok_one_block d : only flate_errs (one_block d).
Proof.
  unfold one_block.
  apply only_bind; [apply ok_rbits|]. intros last.
  apply only_bind; [apply ok_rbits|]. intros typ.
  apply only_bind; [|intros; apply only_ret].
  destruct (typ =? 0).
  - apply only_align; [fe|]. intros _.
    apply only_bind; [apply ok_rbits|]. intros n.
    apply only_bind; [apply ok_rbits|]. intros nn.
    apply only_bind; [apply only_assert; fe|]. intros _.
    destruct (n =? 0); [apply only_yield; apply only_ret | apply ok_raw_bytes].
  - destruct (typ =? 1).
    + apply only_loop; [fe | intros; apply ok_block_body].
    + destruct (typ =? 2); [|apply only_throw; fe].
      apply only_bind; [apply ok_read_prefix_codes|]. intros ts.
      apply only_loop; [fe | intros; apply ok_block_body].
Qed.

Lemma ok_stream_body d u : only flate_errs (stream_body d u).
Proof.
  unfold stream_body. apply only_bind; [apply ok_one_block|].
  intros []; [apply only_align; [fe | intros; apply only_ret] | apply only_ret].
Qed.

Theorem inflate_only_expected_errors d : only flate_errs (inflate_prog d).
Proof. unfold inflate_prog. apply only_loop; [fe | intros; apply ok_stream_body]. Qed.

(* for every input: never EPanic, never Internal/Invalid *)
Corollary inflate_never_panics d input :
  match res_err (run (inflate_prog d) (ast_init (bytes_to_bits input))) with
  | Some e => e = EUEOF \/ e = ECorrupted \/ e = EFuel
  | None => True
  end.
Proof.
  assert (Hw : wf_ast (ast_init (bytes_to_bits input))) by reflexivity.
  pose proof (only_elim flate_errs _ _ (inflate_only_expected_errors d) Hw) as H.
  destruct (run _ _); cbn [res_err]; auto.
Qed.
