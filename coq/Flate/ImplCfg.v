(* The decoder configuration of a Huffman block (which tables litTree / distTree point to and
   how they relate to the trees of the specification), and the frame of the header parser. *)
From V Require Import Base.Prelude Base.Prog Prefix.ReaderImpl Prefix.DecTable.
From V Require Flate.Spec.
From V Require Import Flate.Impl Flate.ImplRel Flate.ImplSym.

Local Open Scope N_scope.

(* [ks]: the look-ahead slack of the bit reader inside the block (0, or the length of the
   end-of-block code when MinBits was raised on a ByteReader source: dv = true) *)
Definition BlockCfg (data : list byte) (st : flst) (tl td : Flate.Spec.htree) (ks : N) : Prop :=
  exists lt dt ml md dv lenfl lenfd,
    lit_tree st = ROk lt /\ dist_tree st = ROk dt /\
    SymOK data lt tl ml dv lenfl /\ SymOK data dt td md false lenfd /\ TreeLen data tl lenfl /\
    ((ks = 0 /\ dv = false) \/ (ks = ml /\ lenfl 256 = ml)) /\
    (dv = true -> p_buffered (f_rd st) = false).

(* ReadPrefixCodes touches the bit reader and the three Decoder objects only *)
Definition hdr_frame (st st' : flst) : Prop :=
  f_inOff st' = f_inOff st /\ f_outOff st' = f_outOff st /\ f_toRead st' = f_toRead st /\
  f_dist st' = f_dist st /\ f_blkLen st' = f_blkLen st /\ f_cpyLen st' = f_cpyLen st /\
  f_last st' = f_last st /\ f_err st' = f_err st /\ f_step st' = f_step st /\
  f_stepState st' = f_stepState st /\ f_dict st' = f_dict st /\ f_trees st' = f_trees st.

Lemma hdr_frame_refl st : hdr_frame st st.
Proof. repeat split. Qed.

Lemma hdr_frame_trans a b c : hdr_frame a b -> hdr_frame b c -> hdr_frame a c.
Proof.
  intros (A1&A2&A3&A4&A5&A6&A7&A8&A9&A10&A11&A12) (B1&B2&B3&B4&B5&B6&B7&B8&B9&B10&B11&B12).
  repeat split; congruence.
Qed.

Lemma set_min_bits_id d : set_min_bits d (d_minBits d) = d.
Proof. destruct d; reflexivity. Qed.
