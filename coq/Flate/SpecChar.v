(* Characterisation of the requests of the specification machine (Base/Prog.v [run]) on the
   states [sigma data R out] of Flate/ImplRel.v: what each primitive of the RFC 1951 decoder
   of Flate/Spec.v (bit fields, alignment, literals, copies, stored bytes, prefix symbols)
   does at bit position R of the data with output [out] (oldest byte first). These are the
   lemmas the refinement proof  Flate/Impl.v -> Flate/Spec.v  steps the specification with. *)
From V Require Import Base.Prelude Base.Prog Base.ProgThms Bzip2.Common Prefix.Code
  Prefix.ReaderImpl Prefix.ReaderSpec Prefix.ReaderThms
  Prefix.DecTable Prefix.DecTableSpec Prefix.DecTableThms Prefix.DecReadThms Prefix.DecCanonThms
  Window.Dict Window.DictSpec Window.DictThms.
From V Require Flate.Spec.
From V Require Import Flate.Canon Flate.ImplRel.
From Coq Require Import ZifyBool ZifyN ZifyNat.

Local Open Scope N_scope.
Local Ltac Zify.zify_post_hook ::= Z.div_mod_to_equations.

(* ---- lists ------------------------------------------------------------------------------------ *)
Lemma skipn_nth_cons {A} (d0 : A) : forall (i : nat) (l : list A),
  (i < length l)%nat -> skipn i l = nth i l d0 :: skipn (S i) l.
Proof.
  induction i as [|i IH]; intros l Hi.
  - destruct l as [|x l]; [cbn [length] in Hi; lia | reflexivity].
  - destruct l as [|x l]; [cbn [length] in Hi; lia|].
    cbn [length] in Hi. change (skipn (S i) (x :: l)) with (skipn i l).
    change (nth (S i) (x :: l) d0) with (nth i l d0).
    change (skipn (S (S i)) (x :: l)) with (skipn (S i) l). apply IH. lia.
Qed.

Lemma firstn_S_snoc {A} (d0 : A) : forall (n : nat) (l : list A),
  (n < length l)%nat -> firstn (S n) l = firstn n l ++ [nth n l d0].
Proof.
  induction n as [|n IH]; intros l Hn.
  - destruct l as [|x l]; [cbn [length] in Hn; lia | reflexivity].
  - destruct l as [|x l]; [cbn [length] in Hn; lia|].
    cbn [length] in Hn. change (firstn (S (S n)) (x :: l)) with (x :: firstn (S n) l).
    rewrite IH by lia. reflexivity.
Qed.

Lemma firstn_firstn_app {A} : forall (n : nat) (a z : list A),
  firstn n (firstn n a ++ z) = firstn n (a ++ z).
Proof.
  induction n as [|n IH]; intros a z; [reflexivity|].
  destruct a as [|x a]; [reflexivity|].
  cbn [firstn app]. f_equal. apply IH.
Qed.

(* ---- the byte-by-byte copy and the chunked copy of Base/Prog.v ----------------------------------- *)
Lemma copy_hist_plus a : forall b d out,
  copy_hist (a + b) d out = copy_hist b d (copy_hist a d out).
Proof.
  induction a as [|a IH]; intros b d out; cbn [Nat.add copy_hist]; [reflexivity | apply IH].
Qed.

Lemma copy_hist_short n : forall d out, (n <= d)%nat -> (d <= length out)%nat ->
  copy_hist n d out = firstn n (skipn (d - n) out) ++ out.
Proof.
  induction n as [|n IH]; intros d out Hn Hd; [reflexivity|].
  cbn [copy_hist]. rewrite IH by (cbn [length]; lia).
  replace (d - n)%nat with (S (d - S n)) by lia.
  change (skipn (S (d - S n)) (nth (d - 1) out 0 :: out)) with (skipn (d - S n) out).
  rewrite (firstn_S_snoc 0 n) by (rewrite skipn_length; lia).
  rewrite nth_skipn', <- app_assoc. replace (d - S n + n)%nat with (d - 1)%nat by lia.
  reflexivity.
Qed.

Lemma copy_chunks_hist f : forall n d out,
  (0 < d)%nat -> (d <= length out)%nat -> (n < f)%nat ->
  copy_chunks f n d out = copy_hist n d out.
Proof.
  induction f as [|f IH]; intros n d out Hd Hl Hn; [lia|].
  cbn [copy_chunks]. destruct (Nat.leb n d) eqn:E.
  - apply Nat.leb_le in E. symmetry. apply copy_hist_short; assumption.
  - apply Nat.leb_gt in E.
    rewrite IH; [| exact Hd | rewrite app_length; lia | lia].
    replace n with (d + (n - d))%nat at 2 by lia.
    rewrite copy_hist_plus. rewrite (copy_hist_short d d out) by lia.
    rewrite Nat.sub_diag. reflexivity.
Qed.

Lemma copy_hist_rev n : forall d out, (0 < d)%nat -> (d <= length out)%nat ->
  copy_hist n d (rev out) = rev (lz_copy out (Z.of_nat d) n).
Proof.
  induction n as [|n IH]; intros d out Hd Hl; [reflexivity|].
  cbn [copy_hist lz_copy].
  assert (Hb : nth (d - 1) (rev out) 0 = lz_byte out (Z.of_nat d)).
  { rewrite rev_nth by lia. unfold lz_byte, znth, zlen. f_equal. lia. }
  rewrite Hb.
  change (lz_byte out (Z.of_nat d) :: rev out) with (rev [lz_byte out (Z.of_nat d)] ++ rev out).
  rewrite <- rev_app_distr. apply IH; [exact Hd | rewrite app_length; lia].
Qed.

Lemma copy_chunks_rev n d out : (0 < d)%nat -> (d <= length out)%nat ->
  copy_chunks (S n) n d (rev out) = rev (lz_copy out (Z.of_nat d) n).
Proof.
  intros Hd Hl. rewrite copy_chunks_hist by (try rewrite rev_length; lia).
  apply copy_hist_rev; assumption.
Qed.

Lemma lz_copy_length out dist n : length (lz_copy out dist n) = (length out + n)%nat.
Proof. pose proof (lz_copy_len n out dist) as H. unfold zlen in H. lia. Qed.

(* ---- bit fields on an arbitrary machine state ---------------------------------------------------- *)
Lemma run_bits_lsbf n : forall bits pos out len, (n <= length bits)%nat ->
  run (bits_lsbf n) (mkAst bits pos out len)
  = Done (bits_val (firstn n bits)) (mkAst (skipn n bits) (pos + N.of_nat n) out len).
Proof.
  induction n as [|n IH]; intros bits pos out len Hn.
  - cbn [bits_lsbf run firstn skipn bits_val]. rewrite N.add_0_r. reflexivity.
  - destruct bits as [|b bits]; [cbn [length] in Hn; lia|]. cbn [length] in Hn.
    cbn [bits_lsbf run a_in a_pos a_out Prog.a_len]. rewrite run_bind, IH by lia.
    cbn [run firstn skipn bits_val]. f_equal. f_equal. lia.
Qed.

Lemma run_bits_lsbf_eof n : forall bits pos out len, (length bits < n)%nat ->
  run (bits_lsbf n) (mkAst bits pos out len)
  = Fail EUEOF (mkAst [] (pos + N.of_nat (length bits)) out len).
Proof.
  induction n as [|n IH]; intros bits pos out len Hn; [lia|].
  cbn [bits_lsbf run a_in a_pos a_out Prog.a_len]. destruct bits as [|b bits].
  - cbn [length]. rewrite N.add_0_r. reflexivity.
  - cbn [length] in Hn. rewrite run_bind, IH by lia. f_equal. f_equal. cbn [length]. lia.
Qed.

Lemma val_bits8 b : val_bits 8 b = bits_lsb b.
Proof.
  apply nth_ext with (d := false) (d' := false); [reflexivity|].
  intros i Hi. rewrite val_bits_length in Hi. rewrite nth_val_bits by exact Hi.
  do 8 (destruct i as [|i]; [reflexivity|]). lia.
Qed.

Lemma sbits_stream_gen l : sbits l = stream_bits false l.
Proof.
  unfold sbits, bytes_to_bits, stream_bits.
  induction l as [|b l IH]; [reflexivity|].
  cbn [flat_map ord]. rewrite IH, val_bits8. reflexivity.
Qed.

(* ---- tries and bit values ------------------------------------------------------------------------ *)
Lemma tree_at_app a : forall t b, tree_at t (a ++ b) = tree_at (tree_at t a) b.
Proof.
  induction a as [|x a IH]; intros t b; [reflexivity|].
  cbn [app tree_at]. destruct t as [| |l r].
  - destruct b; reflexivity.
  - destruct b; reflexivity.
  - apply IH.
Qed.

(* the walk runs out of bits at an inner node *)
Lemma sym_tree_node bits : forall t pos out len l r,
  tree_at t bits = Flate.Spec.HNode l r ->
  run (Flate.Spec.sym_tree t) (mkAst bits pos out len)
  = Fail EUEOF (mkAst [] (pos + N.of_nat (length bits)) out len).
Proof.
  induction bits as [|b bits IH]; intros t pos out len l r H; cbn [tree_at] in H.
  - subst t. cbn [Flate.Spec.sym_tree run a_in length]. rewrite N.add_0_r. reflexivity.
  - destruct t as [| |tl tr]; try discriminate.
    cbn [Flate.Spec.sym_tree run a_in a_pos a_out Prog.a_len].
    rewrite (IH _ _ _ _ l r H). cbn [length]. f_equal. f_equal. lia.
Qed.

Lemma firstn_repeat_all {A} (x : A) k : firstn k (repeat x k) = repeat x k.
Proof. induction k as [|k IH]; [reflexivity|]. cbn [repeat firstn]. rewrite IH. reflexivity. Qed.

Lemma val_bits_bits_val_pad n : forall l m, (n <= m)%nat ->
  val_bits n (bits_val l) = firstn n (l ++ repeat false m).
Proof.
  induction n as [|n IH]; intros l m Hm; [reflexivity|].
  destruct l as [|b l].
  - cbn [bits_val app]. rewrite val_bits_zero.
    replace m with (S n + (m - S n))%nat by lia. rewrite repeat_app, firstn_app.
    rewrite repeat_length, Nat.sub_diag. cbn [firstn]. rewrite app_nil_r.
    symmetry. exact (firstn_repeat_all false (S n)).
  - cbn [val_bits bits_val app firstn].
    assert (Ho : N.odd (N.b2n b + 2 * bits_val l) = b).
    { rewrite N.odd_add_mul_2. destruct b; reflexivity. }
    assert (H : N.div2 (N.b2n b + 2 * bits_val l) = bits_val l).
    { rewrite N.div2_div. destruct b; cbn [N.b2n]; lia. }
    rewrite Ho, H. f_equal. apply IH. lia.
Qed.

Lemma nodup_fst_fun (l : list (N * N)) s a b :
  NoDup (map fst l) -> In (s, a) l -> In (s, b) l -> a = b.
Proof.
  induction l as [|[s0 x] l IH]; intros Hnd Ha Hb; [contradiction|].
  cbn [map fst] in Hnd. inversion Hnd as [|y ys Hni Hnd']; subst.
  destruct Ha as [Ha|Ha], Hb as [Hb|Hb].
  - congruence.
  - exfalso. inversion Ha; subst. apply Hni. change s with (fst (s, b)). apply in_map. exact Hb.
  - exfalso. inversion Hb; subst. apply Hni. change s with (fst (s, a)). apply in_map. exact Ha.
  - apply IH; assumption.
Qed.

Section Char.
Variable data : list byte.
Hypothesis Hd : forall b, In b data -> b < 256.
(* every lemma of this section takes [data Hd] (uniform signatures after the section closes) *)
Local Set Default Proof Using "Hd".

Lemma sbits_stream : sbits data = stream_bits false data.
Proof. apply sbits_stream_gen. Qed.

Lemma sbits_length : length (sbits data) = nbits data.
Proof. rewrite sbits_stream, stream_bits_length. reflexivity. Qed.

Lemma sbits_skipn_length R : length (skipn R (sbits data)) = (nbits data - R)%nat.
Proof. rewrite skipn_length, sbits_length. reflexivity. Qed.

Lemma run_rbits R out nb : (R + N.to_nat nb <= nbits data)%nat ->
  run (Flate.Spec.rbits nb) (sigma data R out) = Done (sval data R nb) (sigma data (R + N.to_nat nb) out).
Proof.
  intros H. unfold Flate.Spec.rbits, sigma.
  rewrite run_bits_lsbf by (rewrite sbits_skipn_length; lia).
  unfold sval, bits_at. rewrite <- sbits_stream, skipn_skipn'. f_equal. f_equal. lia.
Qed.

Lemma run_rbits_eof R out nb : (R <= nbits data)%nat -> (nbits data < R + N.to_nat nb)%nat ->
  fails EUEOF out (run (Flate.Spec.rbits nb) (sigma data R out)).
Proof.
  intros HR H. unfold Flate.Spec.rbits, sigma.
  rewrite run_bits_lsbf_eof by (rewrite sbits_skipn_length; lia).
  eexists. split; reflexivity.
Qed.

Lemma run_align {A} R out (k : N -> prog A) : (R <= nbits data)%nat ->
  let n := ((8 - R mod 8) mod 8)%nat in
  run (AlignP k) (sigma data R out) = run (k (sval data R (N.of_nat n))) (sigma data (R + n) out).
Proof.
  intros HR n. unfold sigma. cbn [run a_in a_pos a_out Prog.a_len].
  assert (En : N.to_nat (pad_count (N.of_nat R)) = n).
  { unfold pad_count, n. lia. }
  rewrite En.
  assert (Hle : (n <= length (skipn R (sbits data)))%nat).
  { rewrite sbits_skipn_length. unfold n, nbits in *. lia. }
  apply Nat.leb_le in Hle. rewrite Hle.
  unfold sval, bits_at. rewrite Nat2N.id, <- sbits_stream, skipn_skipn'.
  f_equal. f_equal. lia.
Qed.

Lemma run_put {A} R out b (k : prog A) :
  run (Put b k) (sigma data R out) = run k (sigma data R (out ++ [b])).
Proof.
  unfold sigma. cbn [run a_in a_pos a_out Prog.a_len]. rewrite rev_app_distr, app_length.
  cbn [rev app length]. f_equal. f_equal. lia.
Qed.

Lemma run_hist {A} R out (k : N -> prog A) :
  run (Hist k) (sigma data R out) = run (k (N.of_nat (length out))) (sigma data R out).
Proof. reflexivity. Qed.

Lemma run_yield {A} R out (k : prog A) : run (Yield k) (sigma data R out) = run k (sigma data R out).
Proof. reflexivity. Qed.

Lemma run_copy {A} R out d l (k : prog A) : 0 < d -> d <= N.of_nat (length out) ->
  run (Copy d l k) (sigma data R out) = run k (sigma data R (lz_copy out (Z.of_N d) (N.to_nat l))).
Proof.
  intros H0 Hl. unfold sigma. cbn [run a_in a_pos a_out Prog.a_len].
  assert (Ec : (0 <? d) && (d <=? N.of_nat (length out)) = true).
  { apply andb_true_iff. split; [apply N.ltb_lt; exact H0 | apply N.leb_le; exact Hl]. }
  rewrite Ec. rewrite copy_chunks_rev by lia. rewrite N_nat_Z, lz_copy_length.
  f_equal. f_equal. lia.
Qed.

(* a whole byte at a byte boundary *)
Lemma sval_byte R : (R mod 8 = 0)%nat -> (R / 8 < length data)%nat ->
  bits_val (firstn 8 (skipn R (sbits data))) = nth (R / 8) data 0.
Proof.
  intros Ha Hlt. rewrite sbits_stream.
  change (bits_val (firstn 8 (skipn R (stream_bits false data))))
    with (bits_at (stream_bits false data) R 8).
  assert (Hb : nth (R / 8) data 0 < 256) by (apply Hd, nth_In; exact Hlt).
  apply N.bits_inj. intros i. rewrite testbit_bits_at.
  change (N.of_nat 8) with 8.
  destruct (i <? 8) eqn:E.
  - apply N.ltb_lt in E.
    change (nth (R + N.to_nat i) (stream_bits false data) false) with (sbit false data (R + N.to_nat i)).
    rewrite sbit_spec. cbn [ord].
    replace ((R + N.to_nat i) / 8)%nat with (R / 8)%nat by lia.
    replace (N.of_nat ((R + N.to_nat i) mod 8)) with i by lia. reflexivity.
  - apply N.ltb_ge in E. destruct (N.testbit (nth (R / 8) data 0) i) eqn:Et; [|reflexivity].
    pose proof (testbit_lt_256 _ _ Hb Et). lia.
Qed.

Lemma run_raw_bytes R out n : (R mod 8 = 0)%nat -> (R / 8 + n <= length data)%nat ->
  run (Flate.Spec.raw_bytes n) (sigma data R out)
  = Done tt (sigma data (R + 8 * n) (out ++ firstn n (skipn (R / 8) data))).
Proof.
  revert R out. induction n as [|n IH]; intros R out Ha Hn.
  - cbn [Flate.Spec.raw_bytes run firstn]. rewrite app_nil_r. do 2 f_equal. lia.
  - cbn [Flate.Spec.raw_bytes]. rewrite run_bind. unfold sigma at 1.
    rewrite run_bits_lsbf by (rewrite sbits_skipn_length; unfold nbits; lia).
    rewrite sval_byte by (try exact Ha; lia).
    rewrite skipn_skipn'. change (N.of_nat R + N.of_nat 8) with (N.of_nat R + 8).
    replace (N.of_nat R + 8) with (N.of_nat (R + 8)) by lia.
    change (mkAst (skipn (R + 8) (sbits data)) (N.of_nat (R + 8)) (rev out) (N.of_nat (length out)))
      with (sigma data (R + 8) out).
    rewrite run_put, IH by lia.
    replace ((R + 8) / 8)%nat with (S (R / 8)) by lia.
    rewrite (skipn_nth_cons 0 (R / 8)) by lia. cbn [firstn].
    rewrite <- app_assoc. cbn [app]. do 2 f_equal. lia.
Qed.

Lemma run_raw_bytes_eof R out n : (R mod 8 = 0)%nat -> (R <= nbits data)%nat ->
  (length data < R / 8 + n)%nat ->
  fails EUEOF (out ++ skipn (R / 8) data) (run (Flate.Spec.raw_bytes n) (sigma data R out)).
Proof.
  revert R out. induction n as [|n IH]; intros R out Ha HR Hn.
  - unfold nbits in HR. lia.
  - cbn [Flate.Spec.raw_bytes]. rewrite run_bind. unfold sigma at 1.
    destruct (Nat.eq_dec (R / 8) (length data)) as [E|E].
    + rewrite run_bits_lsbf_eof by (rewrite sbits_skipn_length; unfold nbits; lia).
      eexists. split; [reflexivity|]. cbn [a_out].
      rewrite E, skipn_all, app_nil_r. reflexivity.
    + unfold nbits in HR.
      rewrite run_bits_lsbf by (rewrite sbits_skipn_length; unfold nbits; lia).
      rewrite sval_byte by (try exact Ha; lia).
      rewrite skipn_skipn'. change (N.of_nat R + N.of_nat 8) with (N.of_nat R + 8).
      replace (N.of_nat R + 8) with (N.of_nat (R + 8)) by lia.
      change (mkAst (skipn (R + 8) (sbits data)) (N.of_nat (R + 8)) (rev out) (N.of_nat (length out)))
        with (sigma data (R + 8) out).
      rewrite run_put.
      rewrite (skipn_nth_cons 0 (R / 8)) by lia.
      replace (out ++ nth (R / 8) data 0 :: skipn (S (R / 8)) data)
        with ((out ++ [nth (R / 8) data 0]) ++ skipn ((R + 8) / 8) data).
      * apply IH; unfold nbits; lia.
      * rewrite <- app_assoc. cbn [app]. do 3 f_equal. lia.
Qed.

(* the next bits at position R, zero-padded, as the window sees them *)
Lemma window_bits R n m : n <= 64 -> (N.to_nat n <= m)%nat ->
  val_bits (N.to_nat n) (window false data R)
  = firstn (N.to_nat n) (skipn R (sbits data) ++ repeat false m).
Proof.
  intros Hn Hm.
  rewrite <- val_bits_mod, N2Nat.id, (window_low false data Hd R n Hn).
  unfold bits_at. rewrite <- sbits_stream.
  rewrite (val_bits_bits_val_pad _ _ m Hm). apply firstn_firstn_app.
Qed.

Section Sym.
Variable lens : list (N * N).
Hypothesis H2 : (2 <= length lens)%nat.
Hypothesis Hnd : NoDup (map fst lens).
Hypothesis Hp : lens_pos lens.
Hypothesis Hc : Flate.Spec.complete lens = true.
Hypothesis HM : Flate.Spec.max_len lens <= 31.
Let t := Flate.Spec.tree_of lens.
Let codes := canon_codes lens.
(* every lemma of this section takes [data Hd lens H2 Hnd Hp Hc HM] *)
Local Set Default Proof Using "Hd H2 Hnd Hp Hc HM".

Lemma sym_tree_match R out c : (R <= nbits data)%nat -> In c codes -> matches c (window false data R) ->
  (R + N.to_nat (c_len c) <= nbits data)%nat ->
  run (Flate.Spec.sym_or_corrupt t) (sigma data R out)
  = Done (c_sym c) (sigma data (R + N.to_nat (c_len c)) out).
Proof.
  intros HR Hin Hm Hfit.
  destruct (canon_in lens c Hin) as ([[s l] v] & He & ->).
  apply matches_word in Hm. cbn [fst snd] in Hm.
  unfold c_len, c_sym, rcode in *. cbn [fst snd] in *.
  pose proof (canon_entry_len lens Hp s l v He) as Hl.
  rewrite (window_bits R l (N.to_nat l)) in Hm by lia.
  rewrite firstn_app, sbits_skipn_length in Hm.
  replace (N.to_nat l - (nbits data - R))%nat with 0%nat in Hm by lia.
  cbn [firstn] in Hm. rewrite app_nil_r in Hm.
  assert (Es : skipn R (sbits data) = word (s, l, v) ++ skipn (R + N.to_nat l) (sbits data)).
  { rewrite <- Hm, <- skipn_skipn'. symmetry. apply firstn_skipn. }
  unfold Flate.Spec.sym_or_corrupt. rewrite run_bind. unfold sigma at 1. rewrite Es.
  unfold word, t. cbn [fst snd].
  rewrite (tree_decodes_code lens s l v) by (try apply complete_kraft_ok; assumption).
  cbn [run]. unfold sigma. do 2 f_equal. lia.
Qed.

Lemma sym_tree_eof R out : (R <= nbits data)%nat ->
  (forall c, In c codes -> matches c (window false data R) -> (nbits data < R + N.to_nat (c_len c))%nat) ->
  fails EUEOF out (run (Flate.Spec.sym_or_corrupt t) (sigma data R out)).
Proof.
  intros HR Hall.
  set (bits := skipn R (sbits data)).
  set (M := N.to_nat (Flate.Spec.max_len lens)).
  destruct (canonical_covers lens (bits ++ repeat false M) Hp Hc) as (s & l & v & rest & He & Eb).
  { rewrite app_length, repeat_length. fold M. lia. }
  pose proof (canon_entry_len lens Hp s l v He) as Hl.
  assert (Hw : firstn (N.to_nat l) (bits ++ repeat false M) = word (s, l, v)).
  { rewrite Eb. unfold word. cbn [fst snd]. rewrite firstn_app, msb_bits_len, Nat.sub_diag.
    cbn [firstn]. rewrite app_nil_r.
    rewrite <- (msb_bits_len (N.to_nat l) v) at 1. apply firstn_all. }
  assert (Hm : matches (rcode (s, l, v)) (window false data R)).
  { apply matches_word. cbn [fst snd]. rewrite (window_bits R l M) by (unfold M; lia). exact Hw. }
  assert (Hin : In (rcode (s, l, v)) codes) by (apply in_map; exact He).
  pose proof (Hall _ Hin Hm) as Hlong. unfold c_len, rcode in Hlong. cbn [fst snd] in Hlong.
  assert (Hbl : length bits = (nbits data - R)%nat) by apply sbits_skipn_length.
  rewrite firstn_app in Hw.
  rewrite (firstn_all2 bits) in Hw by lia.
  set (u := firstn (N.to_nat l - length bits) (repeat false M)) in Hw.
  assert (Hu : length u = (N.to_nat l - length bits)%nat).
  { unfold u. rewrite firstn_length, repeat_length. unfold M. lia. }
  pose proof (tree_at_code lens s l v Hp (complete_kraft_ok lens Hc) Hnd He) as Hat.
  change (Flate.Spec.msb_bits (N.to_nat l) v) with (word (s, l, v)) in Hat.
  rewrite <- Hw, tree_at_app in Hat.
  destruct u as [|x u]; [cbn [length] in Hu; lia|].
  destruct (tree_at (Flate.Spec.tree_of lens) bits) as [| |tl tr] eqn:En; cbn [tree_at] in Hat;
    try discriminate.
  unfold Flate.Spec.sym_or_corrupt. rewrite run_bind. unfold sigma. fold bits. unfold t.
  rewrite (sym_tree_node bits _ _ _ _ tl tr En).
  eexists. split; reflexivity.
Qed.

Lemma codes_complete R : exists c, In c codes /\ matches c (window false data R).
Proof. apply (canon_complete lens Hp Hc). Qed.

Lemma codes_in_lens c : In c codes -> In (c_sym c, c_len c) lens.
Proof.
  intros Hin. destruct (canon_in lens c Hin) as ([[s l] v] & He & ->).
  unfold c_sym, c_len, rcode. cbn [fst snd].
  apply (canonical_spec lens Hp) in He. destruct He as (pre & post & E & _).
  rewrite E. apply in_or_app. right. left. reflexivity.
Qed.

Lemma codes_len_fun c1 c2 : In c1 codes -> In c2 codes -> c_sym c1 = c_sym c2 -> c_len c1 = c_len c2.
Proof.
  intros H1 H2' Es. apply codes_in_lens in H1. apply codes_in_lens in H2'. rewrite Es in H1.
  exact (nodup_fst_fun lens _ _ _ Hnd H1 H2').
Qed.

Lemma lens_in_codes s l : In (s, l) lens -> exists c, In c codes /\ c_sym c = s /\ c_len c = l.
Proof.
  intros Hin. destruct (in_split _ _ Hin) as (pre & post & E).
  exists (rcode (s, l, fc lens l + Flate.Spec.count_len pre l)). split; [|split; reflexivity].
  apply in_map. apply (canonical_spec lens Hp). exists pre, post. split; [exact E | reflexivity].
Qed.

End Sym.

End Char.

(* non-vacuity: the hypotheses of Section Sym hold for the fixed literal/length code, and the
   end-of-block code (7 zero bits) is decoded at position 0 of the one-byte stream [0] *)
Example sym_hyps_fixed :
  (2 <= length Flate.Spec.fixedLitLens)%nat /\ NoDup (map fst Flate.Spec.fixedLitLens) /\
  lens_pos Flate.Spec.fixedLitLens /\ Flate.Spec.complete Flate.Spec.fixedLitLens = true /\
  Flate.Spec.max_len Flate.Spec.fixedLitLens <= 31 /\
  run (Flate.Spec.sym_or_corrupt (Flate.Spec.tree_of Flate.Spec.fixedLitLens)) (sigma [0] 0 [])
  = Done 256 (sigma [0] 7 []).
Proof.
  destruct fixedLit_hyps as (Hp & Hc & Hnd).
  assert (H2 : (2 <= length Flate.Spec.fixedLitLens)%nat) by (vm_compute; lia).
  assert (HM : Flate.Spec.max_len Flate.Spec.fixedLitLens <= 31) by (vm_compute; discriminate).
  assert (Hd : forall b, In b [0] -> b < 256) by (intros b [<-|[]]; lia).
  repeat (split; [assumption|]).
  apply (sym_tree_match [0] Hd _ H2 Hnd Hp Hc HM 0 [] (256, 7, 0)).
  - unfold nbits. cbn [length]. lia.
  - vm_compute. tauto.
  - vm_compute. reflexivity.
  - vm_compute. lia.
Qed.

Print Assumptions run_copy.
Print Assumptions run_raw_bytes.
Print Assumptions run_raw_bytes_eof.
Print Assumptions sym_tree_match.
Print Assumptions sym_tree_eof.
