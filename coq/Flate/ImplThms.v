(* REFINEMENT: the implementation-level model of flate.Reader (Flate/Impl.v) against the RFC 1951
   specification (Flate/Spec.v inflate), for every input, both source kinds, every source script,
   every recycled state (fresh / Reset after anything) and every schedule of Read sizes. *)
From V Require Import Base.Prelude Base.Prog Base.ProgThms Base.DepthThms Base.FuelThms Bzip2.Common Prefix.Code
  Prefix.ReaderImpl Prefix.ReaderSpec Prefix.ReaderThms
  Prefix.DecTable Prefix.DecTableSpec Prefix.DecTableThms Prefix.DecReadThms Prefix.DecReadBufThms
  Window.Dict Window.DictSpec Window.DictThms.
From V Require Flate.Spec Flate.Fuel Flate.Depth.
From V Require Import Flate.Impl Flate.ImplRel Flate.ImplBits Flate.ImplBitsFail Flate.SpecChar Flate.ImplWin
  Flate.ImplCore Flate.SigmaThms Flate.ImplSym Flate.ImplCfg Flate.ImplFail Flate.ImplBlock Flate.ImplHdrPure
  Flate.ImplHeader Flate.ImplSteps.
From Coq Require Import ZifyBool ZifyN ZifyNat.

Local Open Scope N_scope.

(* ---- iterating rounds ------------------------------------------------------------------------ *)
Lemma rounds_inv (P : nat -> flst -> Prop) :
  (forall n st, P n st -> ready st = false ->
     exists n', P n' (one_round st) /\ (ready (one_round st) = true \/ (n' < n)%nat)) ->
  forall d n st, P n st ->
    exists n', P n' (rounds d st) /\ (ready (rounds d st) = true \/ (n' + 2 ^ d <= n)%nat).
Proof.
  intros Hstep. induction d as [|d IH]; intros n st HP; cbn [rounds].
  - destruct (ready st) eqn:Er.
    + exists n. split; [exact HP | left; exact Er].
    + destruct (Hstep n st HP Er) as (n' & HP' & [Hr|Hlt]).
      * exists n'. split; [exact HP' | left; exact Hr].
      * exists n'. split; [exact HP' | right; cbn; lia].
  - destruct (ready st) eqn:Er.
    + exists n. split; [exact HP | left; exact Er].
    + destruct (IH n st HP) as (n1 & HP1 & H1).
      destruct (ready (rounds d st)) eqn:Er1.
      * exists n1. split; [exact HP1 | left; exact Er1].
      * destruct H1 as [H1|H1]; [discriminate|].
        destruct (IH n1 (rounds d st) HP1) as (n2 & HP2 & H2).
        exists n2. split; [exact HP2|]. destruct H2 as [H2|H2]; [left; exact H2|].
        right. cbn [Nat.pow]. lia.
Qed.

Section Top.
Variable data : list byte.
Hypothesis Hd : forall b, In b data -> b < 256.
Variable bf : bool.

Let D := Flate.Spec.depth_for (length data).
Let r0 := run (Flate.Spec.inflate_prog D) (ast_init (bytes_to_bits data)).

Lemma HD : (nbits data < 2 ^ D)%nat.
Proof. unfold nbits, D. apply Flate.Fuel.depth_for_enough. Qed.

Lemma HBF : BitsFailOK data.
Proof.
  intros k R p nb p' HB Hnb [E|E].
  - exists 64. apply (read_bits_fail data Hd k R p nb p' HB Hnb E).
  - exists 64. apply (bits_fast_fail data Hd k R p nb p' HB Hnb E).
Qed.

Lemma HSF : forall d, d_minBits d <= 57 -> SymFailOK data d.
Proof.
  intros d Hm k R p e p' HB [E|E].
  - exists 64. apply (sym_slow_fail data Hd d k R p e p' Hm HB E).
  - exists 64. apply (sym_fast_fail data Hd d k R p e p' Hm HB E).
Qed.

Lemma HPC : prefix_codes_ok data.
Proof. intros st R out. apply (read_prefix_codes_sim data Hd). Qed.

Notation Fut := (Fut data D).

(* ---- the invariant of the Reader between Read calls -------------------------------------------- *)
(* dl: everything delivered so far; R: the bit position of the residual computation *)
Definition G (st : flst) (dl : list byte) (R : nat) : Prop :=
  exists out fl,
    WInv2 (f_dict st) out fl /\ zfirstn fl out = dl ++ f_toRead st /\
    f_outOff st = zlen dl /\ f_inOff st = p_offset (f_rd st) /\
    (f_err st = None -> p_buffered (f_rd st) = bf) /\
    Fut bf st R out r0 /\ (R <= nbits data)%nat /\
    (f_err st <> None -> fl = zlen out) /\
    (f_err st = Some EEOF ->
       f_inOff st = Z.of_nat ((R + 7) / 8) /\ s_pos (p_src (f_rd st)) = ((R + 7) / 8)%nat).

Lemma fut_bis st R out r : Fut bf st R out r -> (f_err st = None \/ f_err st = Some EEOF) ->
  exists k, BIs data k R (f_rd st) /\ (f_err st = Some EEOF -> k = 0).
Proof.
  intros HF He.
  destruct HF as [E HB Hal Hr|e E He' Hf|E Hbf Hf|E Es Ess HB HL|n E Es Ess HB Hal Hbl Hn Hc
                 |tl td ks rb E Es Ess HC HM HB HL Hc|tl td ks rb E Es Ess HC HM HB Hcl Hdi HL Hc].
  - exists 0. split; [exact HB | reflexivity].
  - exfalso. destruct He as [He|He]; rewrite E in He; [discriminate|]. inversion He; subst.
    destruct He' as [H|H]; discriminate.
  - exfalso. destruct He as [He|He]; rewrite E in He; discriminate.
  - exists 0. split; [exact HB | reflexivity].
  - exists 0. split; [exact HB | reflexivity].
  - exists ks. split; [exact HB|]. intros H. rewrite E in H. discriminate.
  - exists ks. split; [exact HB|]. intros H. rewrite E in H. discriminate.
Qed.

(* the fields the end of a round may change *)
Definition upd (st : flst) (p : prd) (off : Z) (dc : dd) (tr : list byte) : flst :=
  set_toRead (set_dict (set_inOff (set_rd st p) off) dc) tr.

Lemma lit_tree_upd st p off dc tr : lit_tree (upd st p off dc tr) = lit_tree st.
Proof. reflexivity. Qed.
Lemma dist_tree_upd st p off dc tr : dist_tree (upd st p off dc tr) = dist_tree st.
Proof. reflexivity. Qed.

Lemma fut_upd st R out r p off dc tr :
  Fut bf st R out r -> (forall k, BIs data k R (f_rd st) -> BIs data k R p) ->
  p_buffered p = p_buffered (f_rd st) ->
  Fut bf (upd st p off dc tr) R out r.
Proof.
  intros HF Hp Hb.
  destruct HF as [E HB Hal Hr|e E He' Hf|E Hbf Hf|E Es Ess HB HL|n E Es Ess HB Hal Hbl Hn Hc
                 |tl td ks rb E Es Ess HC HM HB HL Hc|tl td ks rb E Es Ess HC HM HB Hcl Hdi HL Hc].
  - apply FutDone; [exact E | apply Hp; exact HB | exact Hal | exact Hr].
  - apply (FutFail _ _ _ _ _ _ _ e); assumption.
  - apply FutDev; assumption.
  - apply FutHeader; [exact E | exact Es | exact Ess | apply Hp; exact HB | exact HL].
  - apply (FutRaw _ _ _ _ _ _ _ n);
      [exact E | exact Es | exact Ess | apply Hp; exact HB | exact Hal | exact Hbl | exact Hn | exact Hc].
  - apply (FutBlock _ _ _ _ _ _ _ tl td ks rb);
      [exact E | exact Es | exact Ess | | | apply Hp; exact HB | exact HL | exact Hc].
    + apply (cfg_frame data st); try reflexivity; assumption.
    + apply (minok_frame st); try reflexivity. exact HM.
  - apply (FutCopy _ _ _ _ _ _ _ tl td ks rb);
      [exact E | exact Es | exact Ess | | | apply Hp; exact HB | exact Hcl | exact Hdi | exact HL | exact Hc].
    + apply (cfg_frame data st); try reflexivity; assumption.
    + apply (minok_frame st); try reflexivity. exact HM.
Qed.

Lemma set_rd_id st : set_rd st (f_rd st) = st.
Proof. destruct st; reflexivity. Qed.

Lemma zfirstn_all' {A} (l : list A) : zfirstn (zlen l) l = l.
Proof. unfold zfirstn, zlen. rewrite Nat2Z.id. apply firstn_all. Qed.

Lemma zfirstn_app_l {A} n (a b : list A) : (0 <= n <= zlen a)%Z -> zfirstn n (a ++ b) = zfirstn n a.
Proof.
  intros H. unfold zfirstn, zlen in *. rewrite firstn_app.
  replace (Z.to_nat n - length a)%nat with O by lia. cbn [firstn]. apply app_nil_r.
Qed.

Lemma zfirstn_zskipn' {A} n (l : list A) : zfirstn n l ++ zskipn n l = l.
Proof. apply firstn_skipn. Qed.

(* the step of the current state, by the kind of residual computation *)
Lemma step_sim st R out fl :
  p_buffered (f_rd st) = bf -> WInv2 (f_dict st) out fl -> f_err st = None ->
  Fut bf st R out r0 -> step_out data D bf st R out fl r0 (run_step st).
Proof.
  intros Hb HW He HF. unfold run_step, mbind, mget.
  destruct HF as [E _ _ _|e E _ _|E _ _|E Es Ess HB HL|n E Es Ess HB Hal Hbl Hn Hc
                 |tl td ks rb E Es Ess HC HM HB HL Hc|tl td ks rb E Es Ess HC HM HB Hcl Hdi HL Hc];
    try (rewrite He in E; discriminate); rewrite Es.
  - apply (header_step data Hd D HD HBF HSF HPC bf st R out fl r0); assumption.
  - apply (raw_step data Hd D HD bf st R out fl r0 n); assumption.
  - apply (block_step data Hd D HD HBF HSF bf st R out fl r0 tl td ks rb); try assumption.
    rewrite Ess. exact HL.
  - apply (block_step data Hd D HD HBF HSF bf st R out fl r0 tl td ks rb); try assumption.
    rewrite Ess. split; [exact Hcl|]. split; [exact Hdi | exact HL].
Qed.

Lemma G_err st dl R : G st dl R -> f_err st <> Some EPanic /\ f_err st <> Some EFuel.
Proof.
  intros (out & fl & _ & _ & _ & _ & _ & HF & _).
  destruct HF as [E _ _ _|e E He _|E _ _|E _ _ _ _|n E _ _ _ _ _ _ _
                 |tl td ks rb E _ _ _ _ _ _ _|tl td ks rb E _ _ _ _ _ _ _ _ _];
    rewrite E; try (split; discriminate).
  destruct He as [-> | ->]; split; discriminate.
Qed.

Lemma upd_same st p off : upd st p off (f_dict st) (f_toRead st) = set_inOff (set_rd st p) off.
Proof. destruct st; reflexivity. Qed.

Lemma set_err_same st : set_err st (f_err st) = st.
Proof. destruct st; reflexivity. Qed.

Lemma prefix_zfirstn {A} (a b : list A) n : prefix_of a b -> (0 <= n <= zlen a)%Z ->
  zfirstn n b = zfirstn n a.
Proof. intros [t ->] H. apply zfirstn_app_l. exact H. Qed.

(* ---- one round of the Read loop --------------------------------------------------------------------- *)
Lemma round_G st dl R : G st dl R -> ready st = false ->
  exists R', G (one_round st) dl R' /\ (ready (one_round st) = true \/ (R < R')%nat).
Proof.
  intros (out & fl & HW & Hdl & Hoo & Hio & Hbfr & HF & HR & Hfl & Heof) Hready.
  assert (Htr : f_toRead st = [] /\ f_err st = None).
  { unfold ready in Hready. destruct (f_toRead st); [|discriminate].
    destruct (f_err st); [discriminate|]. split; reflexivity. }
  destruct Htr as [Htr Herr]. rewrite Htr, app_nil_r in Hdl.
  pose proof (w2_fl _ _ _ HW) as Hflr.
  unfold one_round.
  rewrite Hio, prd_eta, set_rd_id.
  pose proof (step_sim st R out fl (Hbfr Herr) HW Herr HF) as Hs.
  destruct (run_step st) as [rr st1].
  inversion Hs as [st' R' out' fl' HIo HW' Htr' Hprog Herr' HF' Hpre Eq
                  |st' e out' He I1 I2 HW' Htr' HBk0 Hfail Hpre Eq]; subst rr st1; clear Hs.
  - (* the step returned *)
    destruct HIo as (I1 & I2 & I3).
    destruct (fut_bis st' R' out' r0 HF' Herr') as (k & HBk & Hk0).
    destruct (flush_sim data k R' (f_rd st') HBk) as (p' & Efl & HBp & Hbp & Hoff & Hex).
    rewrite Efl.
    set (st3 := set_inOff (set_rd st' p') (p_offset p')).
    assert (Herr3 : f_err st3 = f_err st') by reflexivity.
    assert (Ewrap : option_map err_wrap (f_err st3) = f_err st3).
    { rewrite Herr3. destruct Herr' as [-> | ->]; reflexivity. }
    rewrite Ewrap, set_err_same.
    assert (HpK : forall k0, BIs data k0 R' (f_rd st') -> BIs data k0 R' p').
    { intros k0 Hk0'. destruct (flush_sim data k0 R' (f_rd st') Hk0') as (p'' & Efl' & HBp' & _).
      rewrite Efl in Efl'. inversion Efl'; subst p''. exact HBp'. }
    pose proof (BIs_range data Hd k R' _ HBk) as HRr'.
    assert (HR' : (R' <= nbits data)%nat) by lia.
    assert (Hdl' : zfirstn fl out' = dl).
    { rewrite (prefix_zfirstn out out' fl Hpre Hflr). exact Hdl. }
    assert (Hcommon : forall dc tr fl2, WInv2 dc out' fl2 -> zfirstn fl2 out' = dl ++ tr ->
              (f_err st' <> None -> fl2 = zlen out') ->
              G (upd st' p' (p_offset p') dc tr) dl R').
    { intros dc tr fl2 HWd Hd2 Hfl2. exists out', fl2.
      split; [exact HWd|]. split; [exact Hd2|].
      split; [unfold upd; fl_simpl; rewrite I2; exact Hoo|].
      split; [reflexivity|].
      split; [intros _; unfold upd; fl_simpl; rewrite Hbp, I3; apply Hbfr; exact Herr|].
      split; [apply fut_upd; assumption|]. split; [exact HR'|].
      split; [exact Hfl2|].
      intros Ee. unfold upd in Ee. fl_simpl.
      assert (Ee' : f_err st' = Some EEOF) by exact Ee.
      rewrite (Hk0 Ee') in Hex. destruct (Hex (or_introl eq_refl)) as [X1 X2].
      unfold upd. fl_simpl. split; assumption. }
    assert (Hready3 : forall dc tr, ready (upd st' p' (p_offset p') dc tr) = true \/ (R < R')%nat ->
                      ready (upd st' p' (p_offset p') dc tr) = true \/ (R < R')%nat) by (intros; assumption).
    destruct (f_err st3) as [e3|] eqn:Ee3.
    + (* finished *)
      destruct (f_toRead st3) as [|b tr3] eqn:Et3.
      * assert (Et' : f_toRead st' = []) by exact Et3.
        destruct (w2_flush _ _ _ HW') as (dc2 & Efd & HWf & _).
        assert (Edict : f_dict st3 = f_dict st') by reflexivity. rewrite Edict, Efd.
        exists R'. split.
        -- change (set_toRead (set_dict st3 dc2) (zskipn fl' out'))
             with (upd st' p' (p_offset p') dc2 (zskipn fl' out')).
           apply (Hcommon dc2 (zskipn fl' out') (zlen out')); [exact HWf| |reflexivity].
           rewrite zfirstn_all'.
           pose proof (zfirstn_zskipn' fl out') as Hsplit. rewrite Hdl' in Hsplit.
           destruct Htr' as [[_ E2]|[E1 E2]].
           ++ subst fl'. symmetry. exact Hsplit.
           ++ subst fl'. rewrite Et' in E1. rewrite <- E1, app_nil_r in Hsplit.
              assert (Hz : zskipn (zlen out') out' = []).
              { unfold zskipn, zlen. rewrite Nat2Z.id. apply skipn_all. }
              rewrite Hz, app_nil_r. symmetry. exact Hsplit.
        -- left. unfold ready. cbn [f_toRead f_err set_toRead set_dict].
           destruct (zskipn fl' out'); [|reflexivity]. rewrite Ee3. reflexivity.
      * exists R'. split.
        -- unfold st3. rewrite <- (upd_same st' p' (p_offset p')).
           assert (Et' : f_toRead st' = b :: tr3) by exact Et3.
           destruct Htr' as [[Hx _]|[Hx Hy]]; [rewrite Htr in Hx; rewrite Hx in Et'; discriminate|].
           apply (Hcommon (f_dict st') (f_toRead st') fl'); [exact HW'| |intros _; exact Hy].
           rewrite Hx, Hy, zfirstn_all', <- Hdl'. symmetry. apply zfirstn_zskipn'.
        -- left. unfold ready. rewrite Et3. reflexivity.
    + (* no error: the state after the round *)
      assert (Ee' : f_err st' = None) by exact Ee3.
      exists R'. split.
      * unfold st3. rewrite <- (upd_same st' p' (p_offset p')).
        destruct Htr' as [[Hx Hy]|[Hx Hy]].
        -- apply (Hcommon (f_dict st') (f_toRead st') fl'); [exact HW'| |intros C; contradiction].
           rewrite Hx, Htr, app_nil_r, Hy. exact Hdl'.
        -- apply (Hcommon (f_dict st') (f_toRead st') fl'); [exact HW'| |intros C; contradiction].
           rewrite Hx, Hy, zfirstn_all', <- Hdl'. symmetry. apply zfirstn_zskipn'.
      * destruct Hprog as [Hp|[Hp|Hp]].
        -- right. exact Hp.
        -- left. unfold ready. change (f_toRead st3) with (f_toRead st').
           destruct (f_toRead st'); [contradiction|reflexivity].
        -- contradiction.
  - (* the step panicked with an error value *)
    destruct HBk0 as (k & Rk & HBk).
    assert (Hcr : crashed e = false) by (destruct He as [->|[->| ->]]; reflexivity).
    rewrite Hcr.
    set (st2 := set_err st' (Some e)).
    assert (Hrd2 : f_rd st2 = f_rd st') by reflexivity. rewrite Hrd2.
    destruct (flush_sim data k Rk (f_rd st') HBk) as (p' & Efl & HBp & Hbp & Hoff & Hex).
    rewrite Efl.
    set (st3 := set_inOff (set_rd st2 p') (p_offset p')).
    assert (Herr3 : f_err st3 = Some e) by reflexivity.
    rewrite Herr3. cbn [option_map].
    set (st5 := set_err st3 (Some (err_wrap e))).
    assert (Et5 : f_toRead st5 = []) by (unfold st5, st3, st2; fl_simpl; rewrite Htr'; exact Htr).
    assert (Ee5 : f_err st5 = Some (err_wrap e)) by reflexivity.
    rewrite Ee5, Et5.
    assert (Ed5 : f_dict st5 = f_dict st') by reflexivity. rewrite Ed5.
    destruct (w2_flush _ _ _ HW') as (dc2 & Efd & HWf & _). rewrite Efd.
    exists R. split.
    + exists out', (zlen out').
      split; [exact HWf|]. split.
      { cbn [f_toRead set_toRead]. rewrite zfirstn_all'.
        rewrite <- Hdl, <- (prefix_zfirstn out out' fl Hpre Hflr). symmetry. apply zfirstn_zskipn'. }
      split; [unfold st5, st3, st2; fl_simpl; rewrite I2; exact Hoo|].
      split; [reflexivity|].
      split; [intros C; unfold st5 in C; fl_simpl; discriminate|].
      split.
      { destruct Hfail as [Hf|(Hb' & -> & Hf)].
        - apply (FutFail _ _ _ _ _ _ _ (err_wrap e)); [reflexivity| |exact Hf].
          destruct He as [->|[->| ->]]; cbn [err_wrap]; [left|right|right]; reflexivity.
        - apply FutDev; [reflexivity | exact Hb' | exact Hf]. }
      split; [exact HR|]. split; [reflexivity|].
      intros C. unfold st5 in C. fl_simpl. exfalso.
      destruct He as [->|[->| ->]]; cbn [err_wrap] in C; discriminate.
    + left. unfold ready. cbn [f_toRead f_err set_toRead set_dict].
      destruct (zskipn fl out'); reflexivity.
Qed.

(* ---- rounds until ready ---------------------------------------------------------------------------- *)
Lemma G_data st dl R : G st dl R -> f_err st = None -> s_data (p_src (f_rd st)) = data.
Proof.
  intros (out & fl & _ & _ & _ & _ & _ & HF & _) He.
  destruct (fut_bis st R out r0 HF (or_introl He)) as (k & HB & _).
  apply (BIs_offset data k R _ HB).
Qed.

Lemma rounds_G st dl R : G st dl R -> ready st = false ->
  exists R', G (rounds (round_depth st) st) dl R' /\ ready (rounds (round_depth st) st) = true.
Proof.
  intros HG Hr.
  assert (He : f_err st = None).
  { unfold ready in Hr. destruct (f_toRead st); [|discriminate]. destruct (f_err st); [discriminate|reflexivity]. }
  pose proof (G_data st dl R HG He) as Hdata.
  set (P := fun (n : nat) (s : flst) => exists R1, G s dl R1 /\ n = (nbits data - R1)%nat).
  assert (Hstep : forall n s, P n s -> ready s = false ->
            exists n', P n' (one_round s) /\ (ready (one_round s) = true \/ (n' < n)%nat)).
  { intros n s (R1 & HG1 & ->) Hr1.
    destruct (round_G s dl R1 HG1 Hr1) as (R2 & HG2 & Hpr).
    exists (nbits data - R2)%nat. split; [exists R2; split; [exact HG2 | reflexivity]|].
    destruct Hpr as [Hp|Hp]; [left; exact Hp|].
    right. destruct HG2 as (o2 & f2 & _ & _ & _ & _ & _ & _ & HR2 & _). lia. }
  destruct (rounds_inv P Hstep (round_depth st) (nbits data - R)%nat st)
    as (n' & (R' & HG' & _) & Hfin).
  { exists R. split; [exact HG | reflexivity]. }
  exists R'. split; [exact HG'|].
  destruct Hfin as [Hf|Hf]; [exact Hf|]. exfalso.
  assert (Hpow : (nbits data < 2 ^ round_depth st)%nat).
  { unfold round_depth. rewrite Hdata.
    pose proof (Flate.Fuel.depth_for_enough (length data)) as Hde. unfold Flate.Spec.depth_for in Hde.
    unfold nbits.
    set (q := N.to_nat (N.log2 (8 * N.of_nat (length data) + 64))) in *.
    cbn [Nat.pow] in *. set (z := (2 ^ q)%nat) in *. lia. }
  lia.
Qed.

(* ---- one Read call ------------------------------------------------------------------------------------ *)
Lemma fut_deliver st R out r v tr : Fut bf st R out r ->
  Fut bf (set_outOff (set_toRead st tr) v) R out r.
Proof.
  intros HF.
  destruct HF as [E HB Hal Hr|e E He' Hf|E Hbf Hf|E Es Ess HB HL|n E Es Ess HB Hal Hbl Hn Hc
                 |tl td ks rb E Es Ess HC HM HB HL Hc|tl td ks rb E Es Ess HC HM HB Hcl Hdi HL Hc].
  - apply FutDone; assumption.
  - apply (FutFail _ _ _ _ _ _ _ e); assumption.
  - apply FutDev; assumption.
  - apply FutHeader; assumption.
  - apply (FutRaw _ _ _ _ _ _ _ n); assumption.
  - apply (FutBlock _ _ _ _ _ _ _ tl td ks rb);
      [exact E | exact Es | exact Ess | | | exact HB | exact HL | exact Hc].
    + apply (cfg_frame data st); try reflexivity; assumption.
    + apply (minok_frame st); try reflexivity. exact HM.
  - apply (FutCopy _ _ _ _ _ _ _ tl td ks rb);
      [exact E | exact Es | exact Ess | | | exact HB | exact Hcl | exact Hdi | exact HL | exact Hc].
    + apply (cfg_frame data st); try reflexivity; assumption.
    + apply (minok_frame st); try reflexivity. exact HM.
Qed.

Definition read_post (dl : list byte) (n : nat) (x : (list byte * option err) * flst) : Prop :=
  let '((bs, e), st') := x in
  exists R', G st' (dl ++ bs) R' /\
    (e = None \/ (e = f_err st' /\ f_toRead st' = [])) /\
    e <> Some EPanic /\ e <> Some EFuel /\
    (n <> O -> bs <> [] \/ e <> None) /\ (length bs <= n)%nat.

Lemma read_G st dl R n : G st dl R -> read_post dl n (fl_read st n).
Proof.
  intros HG. unfold fl_read.
  assert (H1 : exists R1 st1, st1 = (if ready st then st else rounds (round_depth st) st) /\
                              G st1 dl R1 /\ ready st1 = true).
  { destruct (ready st) eqn:Er.
    - exists R, st. split; [reflexivity|]. split; [exact HG | exact Er].
    - destruct (rounds_G st dl R HG Er) as (R' & HG' & Hr'). exists R', (rounds (round_depth st) st).
      split; [reflexivity|]. split; assumption. }
  destruct H1 as (R1 & st1 & <- & HG1 & Hr1).
  pose proof (G_err st1 dl R1 HG1) as [Hnp Hnf].
  pose proof HG1 as HG1c.
  destruct HG1 as (out & fl & HW & Hdl & Hoo & Hio & Hbfr & HF & HR & Hfl & Heof).
  destruct (f_toRead st1) as [|b tr] eqn:Etr.
  - (* nothing pending: the latched error *)
    destruct (f_err st1) as [e|] eqn:Ee.
    + unfold read_post. exists R1. rewrite app_nil_r.
      split; [exact HG1c|].
      split; [right; split; [symmetry; exact Ee | exact Etr]|].
      split; [exact Hnp|]. split; [exact Hnf|]. split; [intros _; right; discriminate | cbn; lia].
    + unfold ready in Hr1. rewrite Etr, Ee in Hr1. discriminate.
  - (* deliver *)
    set (bs := firstn n (b :: tr)). set (rest := skipn n (b :: tr)).
    set (st2 := set_outOff (set_toRead st1 rest) (f_outOff st1 + zlen bs)%Z).
    assert (HG2 : G st2 (dl ++ bs) R1).
    { exists out, fl. unfold st2. fl_simpl.
      split; [exact HW|]. split.
      { rewrite Hdl, <- app_assoc. f_equal. unfold bs, rest. symmetry. apply firstn_skipn. }
      split; [rewrite Hoo; unfold zlen; rewrite app_length; lia|].
      split; [exact Hio|]. split; [exact Hbfr|].
      split; [apply fut_deliver; exact HF|]. split; [exact HR|]. split; [exact Hfl | exact Heof]. }
    assert (Hlen : (length bs <= n)%nat) by (unfold bs; apply firstn_le_length).
    assert (Hne : n <> O -> bs <> []).
    { intros Hn. unfold bs. destruct n; [contradiction|]. cbn [firstn]. discriminate. }
    destruct rest as [|c rest'] eqn:Erest.
    + unfold read_post. exists R1. split; [exact HG2|].
      split; [right; split; reflexivity|].
      unfold st2. fl_simpl. split; [exact Hnp|]. split; [exact Hnf|].
      split; [intros Hn; left; apply Hne; exact Hn | exact Hlen].
    + unfold read_post. exists R1. split; [exact HG2|].
      split; [left; reflexivity|]. split; [discriminate|]. split; [discriminate|].
      split; [intros Hn; left; apply Hne; exact Hn | exact Hlen].
Qed.

(* ---- a schedule of Read calls -------------------------------------------------------------------- *)
Definition concat_bytes (obs : list flobs) : list byte := flat_map fo_bytes obs.
Definition run_err (obs : list flobs) : option err :=
  match rev obs with o :: _ => fo_err o | [] => None end.

Lemma run_err_cons o obs : obs <> [] -> run_err (o :: obs) = run_err obs.
Proof.
  intros H. unfold run_err. cbn [rev]. destruct (rev obs) as [|x l] eqn:E.
  - exfalso. apply H. apply (f_equal (@rev flobs)) in E. rewrite rev_involutive in E. exact E.
  - reflexivity.
Qed.

Lemma run_G : forall sched st dl R, G st dl R ->
  let '(obs, fin) := fl_run st sched in
  exists R', G fin (dl ++ concat_bytes obs) R' /\
    Forall (fun o => fo_err o <> Some EPanic /\ fo_err o <> Some EFuel) obs /\
    (forall e, run_err obs = Some e -> f_err fin = Some e /\ f_toRead fin = []) /\
    (forall o, In o obs -> fo_err o <> None -> run_err obs = fo_err o) /\
    (run_err obs <> None \/ length obs = length sched).
Proof.
  induction sched as [|n sched IH]; intros st dl R HG; cbn [fl_run].
  - exists R. rewrite app_nil_r. split; [exact HG|]. split; [constructor|].
    split; [intros e H; discriminate|]. split; [intros o []|right; reflexivity].
  - pose proof (read_G st dl R n HG) as Hr.
    destruct (fl_read st n) as [[bs e] st'] eqn:Er. cbn [snd].
    destruct Hr as (R' & HG' & He & Hnp & Hnf & _).
    destruct e as [e|].
    + (* an error: the run ends *)
      exists R'. unfold concat_bytes, obs_of. cbn [flat_map fo_bytes fst]. rewrite app_nil_r.
      split; [exact HG'|]. split; [constructor; [split; assumption | constructor]|].
      split.
      { intros e0 H0. unfold run_err in H0. cbn in H0. inversion H0; subst e0.
        destruct He as [He|[He1 He2]]; [discriminate|]. split; [symmetry; exact He1 | exact He2]. }
      split; [intros o [<-|[]] _; reflexivity | left; unfold run_err; cbn; discriminate].
    + specialize (IH st' (dl ++ bs) R' HG').
      destruct (fl_run st' sched) as [l fin].
      destruct IH as (R2 & HG2 & Hall & Hlast & Hone & Hlen).
      exists R2. unfold concat_bytes in *. cbn [flat_map obs_of fo_bytes fst].
      rewrite app_assoc. split; [exact HG2|].
      split; [constructor; [cbn; split; discriminate | exact Hall]|].
      destruct l as [|o l'].
      * split; [intros e0 H0; unfold run_err in H0; cbn in H0; discriminate|].
        split; [intros o [<-|[]] H0; cbn in H0; contradiction|].
        destruct Hlen as [Hl|Hl]; [left; exact Hl | right; cbn in *; lia].
      * rewrite run_err_cons by discriminate.
        split; [exact Hlast|].
        split; [intros o0 [<-|Hin] H0; [cbn in H0; contradiction | apply Hone; assumption]|].
        destruct Hlen as [Hl|Hl]; [left; exact Hl | right; cbn in *; lia].
Qed.

(* ---- the output so far is a prefix of the specification's output ------------------------------------ *)
Lemma res_out_sigma {A} (a : A) R out : res_out (Done a (sigma data R out)) = out.
Proof. unfold res_out, sigma. cbn [res_state a_out]. rewrite fast_rev_eq. apply rev_involutive. Qed.

Lemma res_out_fail {A} e s' : @res_out A (Fail e s') = rev (a_out s').
Proof. unfold res_out. cbn [res_state]. apply fast_rev_eq. Qed.

Lemma loops_prefix {St Rt} (body : St -> prog (St + Rt)) st0 R out r : (R <= nbits data)%nat ->
  loops body st0 (sigma data R out) r -> prefix_of out (res_out r).
Proof.
  intros HR HL. pose proof (loops_sigma_mono data body st0 _ _ HL R out eq_refl HR) as H.
  destruct r as [x s'|e s'].
  - destruct H as (R' & out' & -> & _ & _ & Hp). rewrite res_out_sigma. exact Hp.
  - rewrite res_out_fail. exact H.
Qed.

Lemma after_block_prefix last R out r : (R <= nbits data)%nat ->
  after_block data D last R out r -> prefix_of out (res_out r).
Proof.
  intros HR H. unfold after_block in H. destruct last.
  - subst r. rewrite res_out_sigma. apply prefix_of_refl.
  - apply (loops_prefix _ _ _ _ _ HR H).
Qed.

Lemma blk_cont_prefix last rb r out : blk_cont data D last rb r ->
  (match rb with
   | Done _ s' => forall R' out', s' = sigma data R' out' -> prefix_of out out'
   | Fail _ s' => prefix_of out (rev (a_out s'))
   end) ->
  prefix_of out (res_out r).
Proof.
  intros Hc Hp. destruct rb as [u s'|e s']; cbn [blk_cont] in Hc.
  - destruct Hc as (R' & out' & -> & HR' & Haft).
    eapply prefix_of_trans; [apply (Hp R' out' eq_refl)|].
    apply (after_block_prefix _ _ _ _ HR' Haft).
  - subst r. rewrite res_out_fail. exact Hp.
Qed.

Lemma run_prefix {A} (p : prog A) R out : (R <= nbits data)%nat ->
  match run p (sigma data R out) with
  | Done _ s' => forall R' out', s' = sigma data R' out' -> prefix_of out out'
  | Fail _ s' => prefix_of out (rev (a_out s'))
  end.
Proof.
  intros HR. destruct (run p (sigma data R out)) as [a s'|e s'] eqn:E.
  - intros R' out' ->. destruct (run_sigma_done data p R out a _ HR E) as (R1 & out1 & E1 & _ & _ & Hp).
    destruct (sigma_inj data D HD _ _ _ _ E1) as [_ ->]. exact Hp.
  - destruct (run_sigma_fail data p R out e s' HR E) as (e' & s'' & E' & Hp).
    rewrite E in E'. inversion E'; subst. exact Hp.
Qed.

Lemma loops_prefix' {St Rt} (body : St -> prog (St + Rt)) st0 R out rb : (R <= nbits data)%nat ->
  loops body st0 (sigma data R out) rb ->
  match rb with
  | Done _ s' => forall R' out', s' = sigma data R' out' -> prefix_of out out'
  | Fail _ s' => prefix_of out (rev (a_out s'))
  end.
Proof.
  intros HR HL. pose proof (loops_sigma_mono data body st0 _ _ HL R out eq_refl HR) as H.
  destruct rb as [x s'|e s'].
  - intros R' out' ->. destruct H as (R1 & out1 & E1 & _ & _ & Hp).
    destruct (sigma_inj data D HD _ _ _ _ E1) as [_ ->]. exact Hp.
  - exact H.
Qed.

Lemma fut_prefix st R out r : (R <= nbits data)%nat -> Fut bf st R out r -> prefix_of out (res_out r).
Proof.
  intros HR HF.
  destruct HF as [E HB Hal Hr|e E He' Hf|E Hbf Hf|E Es Ess HB HL|n E Es Ess HB Hal Hbl Hn Hc
                 |tl td ks rb E Es Ess HC HM HB HL Hc|tl td ks rb E Es Ess HC HM HB Hcl Hdi HL Hc].
  - subst r. rewrite res_out_sigma. apply prefix_of_refl.
  - destruct Hf as (s' & -> & Ho). rewrite res_out_fail, Ho, rev_involutive. apply prefix_of_refl.
  - destruct Hf as (e' & s' & -> & Hp). rewrite res_out_fail. exact Hp.
  - apply (loops_prefix _ _ _ _ _ HR HL).
  - apply (blk_cont_prefix _ _ _ _ Hc). apply (run_prefix _ R out HR).
  - apply (blk_cont_prefix _ _ _ _ Hc). apply (loops_prefix' _ _ R out rb HR HL).
  - apply (blk_cont_prefix _ _ _ _ Hc).
    pose proof (loops_prefix' _ _ R _ rb HR HL) as H.
    destruct rb as [u s'|e s'].
    + intros R' out' Es'. eapply prefix_of_trans; [apply lz_copy_prefix | apply (H R' out' Es')].
    + eapply prefix_of_trans; [apply lz_copy_prefix | exact H].
Qed.

(* ---- initial states: NewReader, or Reset of any earlier Reader with a non-empty window buffer ---------- *)
Definition start_state (fills reads : list nat) (st0 : flst) : Prop :=
  fl_new data bf fills reads = Ok st0 \/
  exists prior, d_arr (f_dict prior) <> [] /\ fl_reset prior data bf fills reads = Ok st0.

Lemma dd_init_w2 recycled dc : recycled <> Some [] -> dd_init maxHistSize recycled = Ok dc ->
  WInv2 dc [] 0%Z.
Proof.
  intros Hne E.
  assert (Hsz : size_ok maxHistSize) by (unfold size_ok, maxHistSize; lia).
  destruct (init_ok maxHistSize recycled Hsz) as (dc' & E' & I & Hs & _ & Hl).
  rewrite E in E'. inversion E'; subst dc'. specialize (Hl Hne).
  assert (Hwr : d_wr dc = 0%Z).
  { unfold dd_init in E. destruct (maxHistSize <? zlen _)%Z; [destruct (slice_ok _ _ _)|];
      inversion E; reflexivity. }
  split.
  - exists (wsp_init maxHistSize). split; [exact I|]. split; [reflexivity|]. split; [reflexivity|].
    split; [exact Hs | exact Hl].
  - intros _. unfold avail_size. rewrite Hwr. lia.
Qed.

Lemma G_start fills reads st0 : start_state fills reads st0 -> G st0 [] 0.
Proof.
  intros Hst.
  assert (Hshape : exists dc cl p1 p2 recycled, recycled <> Some [] /\
            dd_init maxHistSize recycled = Ok dc /\
            st0 = mkFl 0%Z 0%Z (init data bf false fills reads) cl [] 0%Z 0%Z 0%Z false None
                       StHeader false dc TNil p1 p2).
  { destruct Hst as [E|(prior & Hne & E)].
    - unfold fl_new in E. destruct (dd_init maxHistSize None) as [dc| | |] eqn:Ed; try discriminate.
      inversion E. exists dc, fresh_slot, fresh_slot, fresh_slot, None.
      split; [discriminate|]. split; [exact Ed | reflexivity].
    - unfold fl_reset in E.
      destruct (dd_init maxHistSize (Some (d_arr (f_dict prior)))) as [dc| | |] eqn:Ed; try discriminate.
      inversion E. exists dc, (f_clen prior), (f_pd1 prior), (f_pd2 prior), (Some (d_arr (f_dict prior))).
      split; [intros C; inversion C; contradiction|]. split; [exact Ed | reflexivity]. }
  destruct Hshape as (dc & cl & p1 & p2 & recycled & Hne & Ed & ->).
  exists [], 0%Z. cbn [f_dict f_toRead f_outOff f_inOff f_rd f_err].
  split; [apply (dd_init_w2 recycled dc Hne Ed)|].
  split; [reflexivity|]. split; [reflexivity|]. split; [reflexivity|]. split; [intros _; reflexivity|].
  split.
  - apply FutHeader; try reflexivity.
    + apply (BIs_init data Hd).
    + assert (Es : ast_init (bytes_to_bits data) = sigma data 0 []) by reflexivity.
      unfold r0. rewrite Es. unfold Flate.Spec.inflate_prog. apply loop_loops.
      fold (Flate.Spec.inflate_prog D). apply Flate.Depth.inflate_prog_not_efuel.
      rewrite (ilen_sigma data). pose proof HD. lia.
  - split; [lia|]. split; [intros C; contradiction|]. intros C; discriminate.
Qed.

(* ---- THE REFINEMENT THEOREM --------------------------------------------------------------------------- *)
Theorem flate_impl_refines fills reads st0 sched obs fin :
  start_state fills reads st0 -> fl_run st0 sched = (obs, fin) ->
  let res := Flate.Spec.inflate data in
  let out := concat_bytes obs in
  prefix_of out (Flate.Spec.ir_out res) /\
  Forall (fun o => fo_err o <> Some EPanic /\ fo_err o <> Some EFuel) obs /\
  f_outOff fin = zlen out /\
  (forall o, In o obs -> fo_err o <> None -> run_err obs = fo_err o) /\
  (run_err obs <> None \/ length obs = length sched) /\
  (forall e, run_err obs = Some e ->
     (Flate.Spec.ir_err res = None ->
        e = EEOF /\ out = Flate.Spec.ir_out res /\ f_inOff fin = Z.of_N (Flate.Spec.ir_used res) /\
        s_pos (p_src (f_rd fin)) = N.to_nat (Flate.Spec.ir_used res)) /\
     (forall x, Flate.Spec.ir_err res = Some x -> (e = x /\ out = Flate.Spec.ir_out res) \/ (bf = false /\ e = EUEOF)) /\
     (e = EEOF -> Flate.Spec.ir_err res = None)).
Proof.
  intros Hst Erun res out.
  pose proof (run_G sched st0 [] 0%nat (G_start fills reads st0 Hst)) as H.
  rewrite Erun in H. destruct H as (R' & HG & Hall & Hlast & Hone & Hlen).
  cbn [app] in HG. fold out in HG.
  assert (Eres : res = Flate.Spec.mkIR (res_err r0) (res_out r0) ((res_pos r0 + 7) / 8)) by reflexivity.
  destruct HG as (out' & fl & HW & Hdl & Hoo & Hio & Hbfr & HF & HR & Hfl & Heof).
  pose proof (fut_prefix fin R' out' r0 HR HF) as Hpre.
  pose proof (w2_fl _ _ _ HW) as Hflr.
  assert (Hout : prefix_of out out').
  { exists (f_toRead fin ++ zskipn fl out'). rewrite app_assoc, <- Hdl. symmetry. apply zfirstn_zskipn'. }
  split; [rewrite Eres; cbn [Flate.Spec.ir_out]; eapply prefix_of_trans; eassumption|].
  split; [exact Hall|]. split; [exact Hoo|]. split; [exact Hone|]. split; [exact Hlen|].
  intros e He. destruct (Hlast e He) as [Hef Htr].
  assert (Eout : out = out').
  { rewrite Htr, app_nil_r in Hdl. rewrite <- Hdl, Hfl by (rewrite Hef; discriminate). apply zfirstn_all'. }
  rewrite Eres. cbn [Flate.Spec.ir_err Flate.Spec.ir_out Flate.Spec.ir_used].
  destruct HF as [E HB Hal Hr|e1 E He' Hf|E Hbf Hf|E Es Ess HB HL|n E Es Ess HB Hal Hbl Hn Hc
                 |tl td ks rb E Es Ess HC HM HB HL Hc|tl td ks rb E Es Ess HC HM HB Hcl Hdi HL Hc];
    rewrite E in Hef; try discriminate; inversion Hef; subst e.
  - (* clean end *)
    rewrite Hr. unfold res_err, res_pos. cbn [res_state]. rewrite res_out_sigma.
    destruct (Heof E) as [X1 X2].
    split.
    + intros _. split; [reflexivity|]. split; [exact Eout|].
      unfold sigma. cbn [a_pos]. split.
      * rewrite X1. clear. lia.
      * rewrite X2. clear. lia.
    + split; [intros x Hx; discriminate | intros _; reflexivity].
  - (* the specification's error *)
    destruct Hf as (s' & Er & Ho). rewrite Er. unfold res_err. rewrite res_out_fail, Ho, rev_involutive.
    split; [intros C; discriminate|]. split.
    + intros x Hx. inversion Hx; subst x. left. split; [reflexivity | exact Eout].
    + intros C. subst e1. destruct He' as [C|C]; discriminate.
  - (* the MinBits deviation (ByteReader only) *)
    destruct Hf as (e' & s' & Er & Hp). rewrite Er. unfold res_err.
    split; [intros C; discriminate|]. split.
    + intros x Hx. right. split; [exact Hbf | reflexivity].
    + intros C; discriminate.
Qed.

(* every Read call with a non-empty buffer delivers at least one byte or returns the error *)
Theorem fl_read_progress fills reads st0 sched obs fin n :
  start_state fills reads st0 -> fl_run st0 sched = (obs, fin) -> n <> O ->
  let '((bs, e), _) := fl_read fin n in bs <> [] \/ e <> None.
Proof.
  intros Hst Erun Hn.
  pose proof (run_G sched st0 [] 0%nat (G_start fills reads st0 Hst)) as H.
  rewrite Erun in H. destruct H as (R' & HG & _).
  pose proof (read_G fin _ R' n HG) as Hr. unfold read_post in Hr.
  destruct (fl_read fin n) as [[bs e] st']. destruct Hr as (_ & _ & _ & _ & _ & Hp & _).
  apply Hp. exact Hn.
Qed.

End Top.


(* ---- the statements, for all inputs ------------------------------------------------------------------ *)
Definition bytes_lt256 (data : list byte) : Prop := forall b, In b data -> b < 256.

(* BufferedReader sources: exactly RFC 1951, also on every invalid input *)
Theorem flate_impl_refines_buffered data fills reads st0 sched obs fin :
  bytes_lt256 data -> start_state data true fills reads st0 -> fl_run st0 sched = (obs, fin) ->
  let res := Flate.Spec.inflate data in
  let out := concat_bytes obs in
  prefix_of out (Flate.Spec.ir_out res) /\
  Forall (fun o => fo_err o <> Some EPanic /\ fo_err o <> Some EFuel) obs /\
  f_outOff fin = zlen out /\
  (forall e, run_err obs = Some e ->
     out = Flate.Spec.ir_out res /\
     (e = EEOF <-> Flate.Spec.ir_err res = None) /\
     (forall x, Flate.Spec.ir_err res = Some x -> e = x) /\
     (Flate.Spec.ir_err res = None ->
        f_inOff fin = Z.of_N (Flate.Spec.ir_used res) /\
        s_pos (p_src (f_rd fin)) = N.to_nat (Flate.Spec.ir_used res))).
Proof.
  intros Hd Hst Erun res out.
  destruct (flate_impl_refines data Hd true fills reads st0 sched obs fin Hst Erun)
    as (H1 & H2 & H3 & _ & _ & H4).
  split; [exact H1|]. split; [exact H2|]. split; [exact H3|].
  intros e He. destruct (H4 e He) as (A & B & C).
  fold res in A, B, C. fold out in A, B.
  destruct (Flate.Spec.ir_err res) as [x|] eqn:Ex.
  - destruct (B x eq_refl) as [[-> Eo]|[Cb _]]; [|discriminate].
    split; [exact Eo|]. split; [split; [intros E1; apply C in E1; discriminate | intros E1; discriminate]|].
    split; [intros y Hy; inversion Hy; reflexivity | intros E1; discriminate].
  - destruct (A eq_refl) as (-> & Eo & Ein & Epos).
    split; [exact Eo|]. split; [split; reflexivity|]. split; [intros y Hy; discriminate|].
    intros _. split; assumption.
Qed.

(* ByteReader sources: exact on every input the specification accepts (output, io.EOF,
   InputOffset, and the source advanced by exactly the bytes used: no over-consumption); on an
   input the specification rejects the Reader fails as well, with the same error and output,
   or - the MinBits optimisation - with io.ErrUnexpectedEOF after a prefix of that output *)
Theorem flate_impl_refines_bytereader data fills reads st0 sched obs fin :
  bytes_lt256 data -> start_state data false fills reads st0 -> fl_run st0 sched = (obs, fin) ->
  let res := Flate.Spec.inflate data in
  let out := concat_bytes obs in
  prefix_of out (Flate.Spec.ir_out res) /\
  Forall (fun o => fo_err o <> Some EPanic /\ fo_err o <> Some EFuel) obs /\
  f_outOff fin = zlen out /\
  (forall e, run_err obs = Some e ->
     (e = EEOF <-> Flate.Spec.ir_err res = None) /\
     (Flate.Spec.ir_err res = None ->
        out = Flate.Spec.ir_out res /\ f_inOff fin = Z.of_N (Flate.Spec.ir_used res) /\
        s_pos (p_src (f_rd fin)) = N.to_nat (Flate.Spec.ir_used res)) /\
     (forall x, Flate.Spec.ir_err res = Some x ->
        (e = x /\ out = Flate.Spec.ir_out res) \/ e = EUEOF)).
Proof.
  intros Hd Hst Erun res out.
  destruct (flate_impl_refines data Hd false fills reads st0 sched obs fin Hst Erun)
    as (H1 & H2 & H3 & _ & _ & H4).
  split; [exact H1|]. split; [exact H2|]. split; [exact H3|].
  intros e He. destruct (H4 e He) as (A & B & C).
  fold res in A, B, C. fold out in A, B.
  split.
  - split; [exact C|]. intros E1. destruct (A E1) as (-> & _). reflexivity.
  - split.
    + intros E1. destruct (A E1) as (_ & Eo & Ein & Epos). split; [exact Eo|]. split; assumption.
    + intros x Hx. destruct (B x Hx) as [Hl|[_ Hr]]; [left; exact Hl | right; exact Hr].
Qed.

(* THE FULL STATEMENT as first asked for (ByteReader sources included without exception): it
   does NOT hold for the Go code - see NOTES.md (MinBits witness) - and is kept as a Prop only. *)
Definition flate_impl_refines_rfc1951_statement : Prop :=
  forall data bf fills reads st0 sched obs fin,
    bytes_lt256 data -> start_state data bf fills reads st0 -> fl_run st0 sched = (obs, fin) ->
    forall e, run_err obs = Some e ->
      concat_bytes obs = Flate.Spec.ir_out (Flate.Spec.inflate data) /\
      (e = EEOF <-> Flate.Spec.ir_err (Flate.Spec.inflate data) = None) /\
      (forall x, Flate.Spec.ir_err (Flate.Spec.inflate data) = Some x -> e = x).

(* it holds for every BufferedReader source ... *)
Theorem flate_impl_refines_rfc1951_buffered :
  forall data fills reads st0 sched obs fin,
    bytes_lt256 data -> start_state data true fills reads st0 -> fl_run st0 sched = (obs, fin) ->
    forall e, run_err obs = Some e ->
      concat_bytes obs = Flate.Spec.ir_out (Flate.Spec.inflate data) /\
      (e = EEOF <-> Flate.Spec.ir_err (Flate.Spec.inflate data) = None) /\
      (forall x, Flate.Spec.ir_err (Flate.Spec.inflate data) = Some x -> e = x).
Proof.
  intros data fills reads st0 sched obs fin Hd Hst Erun e He.
  destruct (flate_impl_refines_buffered data fills reads st0 sched obs fin Hd Hst Erun) as (_ & _ & _ & H).
  destruct (H e He) as (A & B & C & _). split; [exact A|]. split; [exact B | exact C].
Qed.

(* ... and for every source on every input the specification accepts *)
Theorem flate_impl_refines_rfc1951_valid :
  forall data bf fills reads st0 sched obs fin,
    bytes_lt256 data -> start_state data bf fills reads st0 -> fl_run st0 sched = (obs, fin) ->
    Flate.Spec.ir_err (Flate.Spec.inflate data) = None ->
    forall e, run_err obs = Some e ->
      e = EEOF /\ concat_bytes obs = Flate.Spec.ir_out (Flate.Spec.inflate data) /\
      f_inOff fin = Z.of_N (Flate.Spec.ir_used (Flate.Spec.inflate data)) /\
      s_pos (p_src (f_rd fin)) = N.to_nat (Flate.Spec.ir_used (Flate.Spec.inflate data)) /\
      f_outOff fin = zlen (concat_bytes obs).
Proof.
  intros data bf fills reads st0 sched obs fin Hd Hst Erun Hok e He.
  destruct (flate_impl_refines data Hd bf fills reads st0 sched obs fin Hst Erun)
    as (_ & _ & H3 & _ & _ & H4).
  destruct (H4 e He) as (A & _). destruct (A Hok) as (E1 & E2 & E3 & E4).
  split; [exact E1|]. split; [exact E2|]. split; [exact E3|]. split; [exact E4 | exact H3].
Qed.

Print Assumptions flate_impl_refines.
Print Assumptions flate_impl_refines_buffered.
Print Assumptions flate_impl_refines_bytereader.
Print Assumptions flate_impl_refines_rfc1951_valid.
Print Assumptions fl_read_progress.
