(* Budget monotonicity for the RFC 1951 model: a run of [one_block d] / [inflate_prog d]
   that does not end in the budget failure is reproduced by every larger depth; with
   Flate/Fuel.v: all depths large enough for the remaining input give the same result. *)
From V Require Import Base.Prelude Base.Prog Base.ProgThms Base.FuelThms Base.DepthThms
  Flate.Spec Flate.Fuel.

Lemma one_block_fuel_le d d' : (d <= d')%nat -> fuel_le (one_block d) (one_block d').
Proof.
  intros Hd. unfold one_block.
  apply fuel_le_bind; [apply fuel_le_refl|]. intros last.
  apply fuel_le_bind; [apply fuel_le_refl|]. intros typ.
  apply fuel_le_bind; [|intros; apply fuel_le_refl].
  destruct (typ =? 0); [apply fuel_le_refl|].
  destruct (typ =? 1).
  { apply fuel_le_loop; [intros; apply fuel_le_refl | exact Hd]. }
  destruct (typ =? 2); [|apply fuel_le_refl].
  apply fuel_le_bind; [apply fuel_le_refl|]. intros ts.
  apply fuel_le_loop; [intros; apply fuel_le_refl | exact Hd].
Qed.

Lemma stream_body_fuel_le d d' u : (d <= d')%nat -> fuel_le (stream_body d u) (stream_body d' u).
Proof.
  intros Hd. unfold stream_body.
  apply fuel_le_bind; [apply one_block_fuel_le; exact Hd|]. intros; apply fuel_le_refl.
Qed.

Lemma inflate_prog_fuel_le d d' : (d <= d')%nat -> fuel_le (inflate_prog d) (inflate_prog d').
Proof.
  intros Hd. unfold inflate_prog.
  apply fuel_le_loop; [intros; apply stream_body_fuel_le; exact Hd | exact Hd].
Qed.

(* in the form "same result" *)
Theorem one_block_depth_mono d d' s r :
  (d <= d')%nat -> run (one_block d) s = r -> ~ is_efuel r -> run (one_block d') s = r.
Proof. intros Hd Hr Hne. subst r. apply (one_block_fuel_le d d' Hd s Hne). Qed.

Theorem inflate_prog_depth_mono d d' s r :
  (d <= d')%nat -> run (inflate_prog d) s = r -> ~ is_efuel r -> run (inflate_prog d') s = r.
Proof. intros Hd Hr Hne. subst r. apply (inflate_prog_fuel_le d d' Hd s Hne). Qed.

(* enough budget: no budget failure *)
Lemma nofuel_not_efuel n {A} (p : prog A) s :
  nofuel n p -> (ilen s < n)%nat -> ~ is_efuel (run p s).
Proof.
  intros Hp Hs C. pose proof (nofuel_elim n p s Hp Hs) as H.
  destruct (run p s) as [a s'|e s']; [exact C|].
  destruct e; try exact C. apply H. reflexivity.
Qed.

Lemma one_block_not_efuel d s : (ilen s < 2 ^ d)%nat -> ~ is_efuel (run (one_block d) s).
Proof.
  intros Hs. apply (nofuel_not_efuel (S (ilen s))); [|lia].
  apply nf_one_block. lia.
Qed.

Lemma inflate_prog_not_efuel d s : (ilen s < 2 ^ d)%nat -> ~ is_efuel (run (inflate_prog d) s).
Proof.
  intros Hs. apply (nofuel_not_efuel (S (ilen s))); [|lia].
  apply inflate_prog_nofuel. lia.
Qed.

(* any two depths large enough for the remaining input agree *)
Theorem one_block_depth_indep d1 d2 s :
  (ilen s < 2 ^ d1)%nat -> (ilen s < 2 ^ d2)%nat ->
  run (one_block d1) s = run (one_block d2) s.
Proof.
  intros H1 H2. destruct (Nat.le_ge_cases d1 d2) as [H|H].
  - symmetry. apply (one_block_fuel_le d1 d2 H). apply one_block_not_efuel. exact H1.
  - apply (one_block_fuel_le d2 d1 H). apply one_block_not_efuel. exact H2.
Qed.

Theorem inflate_prog_depth_indep d1 d2 s :
  (ilen s < 2 ^ d1)%nat -> (ilen s < 2 ^ d2)%nat ->
  run (inflate_prog d1) s = run (inflate_prog d2) s.
Proof.
  intros H1 H2. destruct (Nat.le_ge_cases d1 d2) as [H|H].
  - symmetry. apply (inflate_prog_fuel_le d1 d2 H). apply inflate_prog_not_efuel. exact H1.
  - apply (inflate_prog_fuel_le d2 d1 H). apply inflate_prog_not_efuel. exact H2.
Qed.

(* [depth_for] *)
Lemma depth_for_mono n m : (n <= m)%nat -> (depth_for n <= depth_for m)%nat.
Proof.
  intros H. unfold depth_for.
  assert (L : N.log2 (8 * N.of_nat n + 64) <= N.log2 (8 * N.of_nat m + 64))
    by (apply N.log2_le_mono; lia).
  lia.
Qed.

Lemma depth_for_enough_init input d :
  (depth_for (length input) <= d)%nat -> (ilen (ast_init (bytes_to_bits input)) < 2 ^ d)%nat.
Proof.
  intros Hd. unfold ilen. cbn [ast_init a_in]. rewrite bytes_to_bits_length.
  pose proof (depth_for_enough (length input)) as H.
  assert (2 ^ depth_for (length input) <= 2 ^ d)%nat by (apply Nat.pow_le_mono_r; lia).
  lia.
Qed.

(* [inflate] does not depend on its choice of depth *)
Theorem inflate_any_depth input d :
  (depth_for (length input) <= d)%nat ->
  run (inflate_prog d) (ast_init (bytes_to_bits input)) =
  run (inflate_prog (depth_for (length input))) (ast_init (bytes_to_bits input)).
Proof.
  intros Hd. apply inflate_prog_depth_indep; apply depth_for_enough_init; [exact Hd | lia].
Qed.

(* non-vacuity: the example stream of Flate/Thms.v decoded with the minimal sufficient
   budget and with a larger one *)
Example inflate_any_depth_ex :
  (depth_for (length [75;76;132;1;0]) <= 40)%nat /\
  res_out (run (inflate_prog 40) (ast_init (bytes_to_bits [75;76;132;1;0]))) =
    [97;97;97;97;97;97;97;97;97;97].
Proof.
  split; [vm_compute; lia|].
  rewrite inflate_any_depth by (vm_compute; lia). vm_compute. reflexivity.
Qed.

Print Assumptions one_block_depth_mono.
Print Assumptions inflate_prog_depth_mono.
Print Assumptions one_block_depth_indep.
Print Assumptions inflate_prog_depth_indep.
Print Assumptions inflate_any_depth.
