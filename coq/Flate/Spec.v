(* RFC 1951 decoder as a [prog]; mirrors flate/reader.go + flate/prefix.go
   step by step (order of reads and checks), with prefix codes given their
   canonical meaning (a binary trie) instead of lookup tables. *)
From V Require Import Base.Prelude Base.Prog.

(* ---- canonical prefix codes ------------------------------------------ *)
Inductive htree := HEmpty | HLeaf (s : N) | HNode (l r : htree).

Fixpoint tree_insert (t : htree) (bits : list bool) (s : N) : htree :=
  match bits with
  | [] => HLeaf s
  | b :: r =>
    match t with
    | HNode l rr => if b then HNode l (tree_insert rr r s) else HNode (tree_insert l r s) rr
    | _ => if b then HNode HEmpty (tree_insert HEmpty r s) else HNode (tree_insert HEmpty r s) HEmpty
    end
  end.

Fixpoint sym_tree (t : htree) : prog (option N) :=
  match t with
  | HEmpty => Ret None
  | HLeaf s => Ret (Some s)
  | HNode l r => Bit (fun b => sym_tree (if b then r else l))
  end.

(* n low bits of v, most significant first: the reading order of a
   canonical Huffman code in an LSB-first bit stream *)
Definition msb_bits (n : nat) (v : N) : list bool := fast_rev (val_bits n v).

(* lens: (symbol, length) sorted by symbol, all lengths non-zero.
   Kraft sum in units of 2^-maxlen. *)
Definition kraft (maxlen : N) (lens : list (N * N)) : N :=
  fold_right (fun sl acc => 2 ^ (maxlen - snd sl) + acc) 0 lens.

Definition count_len (lens : list (N * N)) (l : N) : N :=
  N.of_nat (length (filter (fun sl => snd sl =? l) lens)).

(* first canonical code of each length 1..maxlen: next_code l *)
Fixpoint first_codes (lens : list (N * N)) (ls : list N) (code : N) : list (N * N) :=
  match ls with
  | [] => []
  | l :: r =>
    let code' := 2 * code in
    (l, code') :: first_codes lens r (code' + count_len lens l)
  end.

Fixpoint assoc_get (k : N) (m : list (N * N)) : N :=
  match m with
  | [] => 0
  | (a, v) :: r => if a =? k then v else assoc_get k r
  end.
Fixpoint assoc_incr (k : N) (m : list (N * N)) : list (N * N) :=
  match m with
  | [] => []
  | (a, v) :: r => if a =? k then (a, v + 1) :: r else (a, v) :: assoc_incr k r
  end.

(* assign consecutive codes per length, in symbol order *)
Fixpoint assign_codes (lens : list (N * N)) (next : list (N * N)) : list (N * N * N) :=
  match lens with
  | [] => []
  | (s, l) :: r => (s, l, assoc_get l next) :: assign_codes r (assoc_incr l next)
  end.

Definition lens_range (maxlen : N) : list N := map N.of_nat (seq 1 (N.to_nat maxlen)).

Definition max_len (lens : list (N * N)) : N := fold_right (fun sl acc => N.max (snd sl) acc) 0 lens.

Definition canonical (lens : list (N * N)) : list (N * N * N) :=
  let ml := max_len lens in
  assign_codes lens (first_codes lens (lens_range ml) 0).

Definition tree_of (lens : list (N * N)) : htree :=
  fold_left (fun t slc => let '(s, l, c) := slc in tree_insert t (msb_bits (N.to_nat l) c) s)
            (canonical lens) HEmpty.

(* GeneratePrefixes acceptance for >= 2 codes with non-zero lengths:
   complete tree (Kraft sum exactly one) *)
Definition complete (lens : list (N * N)) : bool :=
  let ml := max_len lens in kraft ml lens =? 2 ^ ml.

(* flate's handleDegenerateCodes + GeneratePrefixes + Decoder.Init *)
Definition build_tree (lens : list (N * N)) (fake : N) : option htree :=
  match lens with
  | [] => Some HEmpty
  | [sl] => let l2 := [sl; (fake, 1)] in if complete l2 then Some (tree_of l2) else None
  | _ => if complete lens then Some (tree_of lens) else None
  end.

(* ---- range codes (prefix.MakeRangeCodes) ------------------------------ *)
Fixpoint mk_ranges (base : N) (bits : list N) : list (N * N) :=
  match bits with
  | [] => []
  | nb :: r => (base, nb) :: mk_ranges (base + 2 ^ nb) r
  end.

Definition lenRanges : list (N * N) :=
  mk_ranges 3 [0;0;0;0;0;0;0;0;1;1;1;1;2;2;2;2;3;3;3;3;4;4;4;4;5;5;5;5] ++ [(258, 0)].
Definition distRanges : list (N * N) :=
  mk_ranges 1 [0;0;0;0;1;1;2;2;3;3;4;4;5;5;6;6;7;7;8;8;9;9;10;10;11;11;12;12;13;13].
Definition clenLens : list N := [16;17;18;0;8;7;9;6;10;5;11;4;12;3;13;2;14;1;15].

Definition maxNumLitSyms : N := 286.
Definition maxNumDistSyms : N := 30.
Definition maxNumCLenSyms : N := 19.
Definition maxHistSize : N := 32768.

Definition fixedLitLens : list (N * N) :=
  map (fun i => let s := N.of_nat i in
                (s, if s <? 144 then 8 else if s <? 256 then 9 else if s <? 280 then 7 else 8))
      (seq 0 288).
Definition fixedDistLens : list (N * N) := map (fun i => (N.of_nat i, 5)) (seq 0 32).

Definition fixedLitTree : htree := tree_of fixedLitLens.
Definition fixedDistTree : htree := tree_of fixedDistLens.

(* ---- reading the dynamic code definitions ------------------------------ *)
Definition rbits (n : N) : prog N := bits_lsbf (N.to_nat n).

Definition sym_or_corrupt (t : htree) : prog N :=
  o <- sym_tree t ;;
  match o with Some s => Ret s | None => Throw ECorrupted end.

Fixpoint read_clens (order : list N) : prog (list (N * N)) :=
  match order with
  | [] => Ret []
  | s :: r => l <- rbits 3 ;; rest <- read_clens r ;;
              Ret (if 0 <? l then (s, l) :: rest else rest)
  end.

(* insertion into a list sorted by symbol *)
Fixpoint insert_sorted (x : N * N) (l : list (N * N)) : list (N * N) :=
  match l with
  | [] => [x]
  | y :: r => if fst x <? fst y then x :: y :: r else y :: insert_sorted x r
  end.
Definition sort_by_sym (l : list (N * N)) : list (N * N) := fold_right insert_sorted [] l.

(* loop state of the code-length reader: next symbol, last length, lengths
   read so far (reversed, only non-zero ones, as (sym, len)) *)
Record clst := mkClst { cl_sym : N; cl_last : N; cl_acc : list (N * N) }.

Fixpoint rep_codes (n : nat) (sym clen : N) (acc : list (N * N)) : list (N * N) :=
  match n with
  | O => acc
  | S n' => rep_codes n' (sym + 1) clen ((sym, clen) :: acc)
  end.

Definition clen_body (tree : htree) (maxSyms : N) (s : clst) : prog (clst + list (N * N)) :=
  if maxSyms <=? cl_sym s then Ret (inr (fast_rev (cl_acc s))) else
  clen <- sym_or_corrupt tree ;;
  if clen <? 16 then
    Ret (inl (mkClst (cl_sym s + 1) clen
                     (if 0 <? clen then (cl_sym s, clen) :: cl_acc s else cl_acc s)))
  else
    r <- (if clen =? 16 then
            assert_p (negb (cl_sym s =? 0)) ECorrupted ;;;
            x <- rbits 2 ;; Ret (cl_last s, 3 + x)
          else if clen =? 17 then x <- rbits 3 ;; Ret (0, 3 + x)
          else if clen =? 18 then x <- rbits 7 ;; Ret (0, 11 + x)
          else Throw ECorrupted) ;;
    let '(cl, rep) := r in
    let acc := if 0 <? cl then rep_codes (N.to_nat rep) (cl_sym s) cl (cl_acc s) else cl_acc s in
    let sym' := cl_sym s + rep in
    assert_p (sym' <=? maxSyms) ECorrupted ;;;
    Ret (inl (mkClst sym' cl acc)).

Definition opt_tree (o : option htree) : prog htree :=
  match o with Some t => Ret t | None => Throw ECorrupted end.

Definition read_prefix_codes : prog (htree * htree) :=
  numLit <- rbits 5 ;; numDist <- rbits 5 ;; numCLen <- rbits 4 ;;
  let numLit := numLit + 257 in
  let numDist := numDist + 1 in
  let numCLen := numCLen + 4 in
  assert_p ((numLit <=? maxNumLitSyms) && (numDist <=? maxNumDistSyms)) ECorrupted ;;;
  cl <- read_clens (firstn (N.to_nat numCLen) clenLens) ;;
  ctree <- opt_tree (build_tree (sort_by_sym cl) maxNumCLenSyms) ;;
  lens <- loop 10 (clen_body ctree (numLit + numDist)) (mkClst 0 0 []) ;;
  let lits := filter (fun sl => fst sl <? numLit) lens in
  let dists := map (fun sl => (fst sl - numLit, snd sl))
                   (filter (fun sl => negb (fst sl <? numLit)) lens) in
  lt <- opt_tree (build_tree lits maxNumLitSyms) ;;
  dt <- opt_tree (build_tree dists maxNumDistSyms) ;;
  Ret (lt, dt).

(* ---- block data -------------------------------------------------------- *)
Definition nth_range (rs : list (N * N)) (i : N) : N * N := nth (N.to_nat i) rs (0, 0).

Definition block_body (lt dt : htree) (_ : unit) : prog (unit + unit) :=
  litSym <- sym_or_corrupt lt ;;
  if litSym <? 256 then Put litSym (Ret (inl tt))
  else if litSym =? 256 then Ret (inr tt)
  else if litSym <? maxNumLitSyms then
    let '(base, nb) := nth_range lenRanges (litSym - 257) in
    extra <- rbits nb ;;
    let cpyLen := base + extra in
    distSym <- sym_or_corrupt dt ;;
    assert_p (distSym <? maxNumDistSyms) ECorrupted ;;;
    let '(dbase, dnb) := nth_range distRanges distSym in
    dextra <- rbits dnb ;;
    let dist := dbase + dextra in
    Hist (fun h =>
      assert_p (dist <=? N.min h maxHistSize) ECorrupted ;;;
      Copy dist cpyLen (Ret (inl tt)))
  else Throw ECorrupted.

Fixpoint raw_bytes (n : nat) : prog unit :=
  match n with
  | O => Ret tt
  | S n' => b <- bits_lsbf 8 ;; Put b (raw_bytes n')
  end.

(* one DEFLATE block; returns whether it was the last *)
Definition one_block (depth : nat) : prog bool :=
  last <- rbits 1 ;;
  typ <- rbits 2 ;;
  (if typ =? 0 then
     AlignP (fun _ =>
       n <- rbits 16 ;; nn <- rbits 16 ;;
       assert_p (N.lxor n nn =? 65535) ECorrupted ;;;
       if n =? 0 then Yield (Ret tt) else raw_bytes (N.to_nat n))
   else if typ =? 1 then loop depth (block_body fixedLitTree fixedDistTree) tt
   else if typ =? 2 then
     ts <- read_prefix_codes ;;
     loop depth (block_body (fst ts) (snd ts)) tt
   else Throw ECorrupted) ;;;
  Ret (last =? 1).

Definition stream_body (depth : nat) (_ : unit) : prog (unit + unit) :=
  last <- one_block depth ;;
  if last then AlignP (fun _ => Ret (inr tt)) else Ret (inl tt).

(* the whole stream; depth 40 = 2^40 blocks / symbols per block *)
Definition inflate_prog (depth : nat) : prog unit := loop depth (stream_body depth) tt.

Record inflate_result := mkIR { ir_err : option err; ir_out : list byte; ir_used : N }.

(* loop depth sufficient for an input of n bytes: every iteration of every
   loop either consumes a bit or ends, so 2^depth > 8n+64 iterations suffice *)
Definition depth_for (n : nat) : nat := S (N.to_nat (N.log2 (8 * N.of_nat n + 64))).

Definition inflate (input : list byte) : inflate_result :=
  let r := run (inflate_prog (depth_for (length input))) (ast_init (bytes_to_bits input)) in
  mkIR (res_err r) (res_out r) ((res_pos r + 7) / 8).
