(* The dynamic block header: ReadPrefixCodes of the implementation model (Flate/Impl.v
   read_prefix_codes: HLIT/HDIST/HCLEN, the code-length-code array, the code-length loop with
   the literal/distance split on the fly, the three Decoder.Init calls on recycled storage, the
   MinBits adjustment) refines Flate/Spec.v read_prefix_codes: the same bits are consumed, the
   decoder tables installed in pd1 / pd2 decode exactly the trees the specification builds
   (BlockCfg), and every failure of the model is the failure of the specification. *)
From Coq Require Import Sorted.
From V Require Import Base.Prelude Base.Prog Base.ProgThms Base.DepthThms Base.FuelThms Bzip2.Common Prefix.Code
  Prefix.GenPrefixesThms
  Prefix.ReaderImpl Prefix.ReaderSpec Prefix.ReaderThms
  Prefix.DecTable Prefix.DecTableSpec Prefix.DecTableThms Prefix.DecReadThms Prefix.DecReadBufThms
  Prefix.DecCanonThms Flate.Canon.
From V Require Flate.Spec.
From V Require Import Flate.Impl Flate.ImplRel Flate.ImplBits Flate.SpecChar
  Flate.SigmaThms Flate.ImplSym Flate.ImplCfg Flate.ImplHdrPure Flate.CanonLink Flate.Fuel Flate.ImplBlock
  Flate.ImplBitsFail.
From Coq Require Import ZifyBool ZifyN ZifyNat.

Local Open Scope N_scope.
Local Open Scope fl_scope.

(* ---- small pure facts ------------------------------------------------------------------------- *)
Lemma insert_sorted_in x y l : In x (Flate.Spec.insert_sorted y l) -> x = y \/ In x l.
Proof.
  induction l as [|z r IH]; cbn [Flate.Spec.insert_sorted In].
  - intros [E|[]]. left. symmetry. exact E.
  - destruct (fst y <? fst z); cbn [In].
    + intros [E|H]; [left; symmetry; exact E | right; exact H].
    + intros [E|H]; [right; left; exact E|]. destruct (IH H) as [E|H']; [left; exact E | right; right; exact H'].
Qed.

Lemma sort_by_sym_in x l : In x (Flate.Spec.sort_by_sym l) -> In x l.
Proof.
  unfold Flate.Spec.sort_by_sym. induction l as [|y r IH]; cbn [fold_right In]; [tauto|].
  intros H. destruct (insert_sorted_in _ _ _ H) as [E|H']; [left; symmetry; exact E | right; apply IH; exact H'].
Qed.

Lemma spec_cl_vals order vals s v : In (s, v) (spec_cl order vals) -> In v vals /\ 1 <= v.
Proof.
  unfold spec_cl. intros H. apply filter_In in H. destruct H as [H1 H2]. cbn [snd] in H2.
  split; [eapply in_combine_r; exact H1 | lia].
Qed.

Lemma rep_codes_in n : forall sym clen acc x l,
  In (x, l) (Flate.Spec.rep_codes n sym clen acc) -> l = clen \/ In (x, l) acc.
Proof.
  induction n as [|n IH]; intros sym clen acc x l H; cbn [Flate.Spec.rep_codes] in H.
  - right. exact H.
  - destruct (IH _ _ _ _ _ H) as [E|[E|H']]; [left; exact E | inversion E; left; reflexivity | right; exact H'].
Qed.

Lemma hd_bounds lens fake :
  (forall s l, In (s, l) lens -> 1 <= l <= 15 /\ s < fake) ->
  forall s l, In (s, l) (handle_degenerate lens fake) -> 1 <= l <= 15.
Proof.
  intros Hb s l Hin. destruct lens as [|x [|y r]]; cbn [handle_degenerate] in Hin.
  - destruct Hin.
  - destruct Hin as [E|[E|[]]].
    + subst x. apply (Hb s l). left. reflexivity.
    + inversion E; subst. lia.
  - apply (Hb s l). exact Hin.
Qed.

Lemma set_rd_set_rd st p q : set_rd (set_rd st p) q = set_rd st q.
Proof. reflexivity. Qed.

Section Hdr.
Variable data : list byte.
Hypothesis Hd : forall b, In b data -> b < 256.

(* ---- (1) ReadBits ------------------------------------------------------------------------------ *)
Lemma m_read_bits_sim st R out nb : BIs data 0 R (f_rd st) -> nb <= 57 ->
  let r := run (Flate.Spec.rbits nb) (sigma data R out) in
  match m_read_bits nb st with
  | (ROk v, st') => exists p', st' = set_rd st p' /\
      (R + N.to_nat nb <= nbits data)%nat /\ v = sval data R nb /\
      r = Done v (sigma data (R + N.to_nat nb) out) /\
      BIs data 0 (R + N.to_nat nb) p' /\ p_buffered p' = p_buffered (f_rd st)
  | (RThrow e, st') => exists p', st' = set_rd st p' /\ e = EUEOF /\ fails EUEOF out r /\
      BIs data 64 R p'
  end.
Proof.
  intros HB Hnb. cbv zeta. rewrite m_read_bits_eq.
  pose proof (read_bits_sim data Hd 0 R (f_rd st) nb HB Hnb) as H.
  pose proof (BIs_range data Hd 0 R _ HB) as HR.
  destruct (read_bits (f_rd st) nb) as [[v|] p'] eqn:E; cbn [fst snd].
  - destruct H as (Hfit & Hv & HB' & Hbf). exists p'. split; [reflexivity|].
    split; [exact Hfit|]. split; [exact Hv|]. split.
    + rewrite Hv. apply (run_rbits data Hd). exact Hfit.
    + split; [|exact Hbf]. replace (0 - nb) with 0 in HB' by lia. exact HB'.
  - exists p'. split; [reflexivity|]. split; [reflexivity|]. split.
    + apply (run_rbits_eof data Hd); [lia | exact H].
    + exact (proj1 (read_bits_fail data Hd 0 R (f_rd st) nb p' HB Hnb E)).
Qed.

(* ---- (2) the code-length-code array -------------------------------------------------------------- *)
Lemma read_clens_sim order : forall arr st R out, BIs data 0 R (f_rd st) ->
  let r := run (Flate.Spec.read_clens order) (sigma data R out) in
  match read_clens_arr order arr st with
  | (ROk arr', st') => exists vals p' R',
      st' = set_rd st p' /\ length vals = length order /\ set_vals order vals arr = Some arr' /\
      (forall v, In v vals -> v < 8) /\
      r = Done (spec_cl order vals) (sigma data R' out) /\ (R <= R')%nat /\
      BIs data 0 R' p' /\ p_buffered p' = p_buffered (f_rd st)
  | (RThrow e, st') => exists p', st' = set_rd st p' /\
      ((e = EUEOF /\ fails EUEOF out r /\ exists R', BIs data 64 R' p') \/
       (e = EPanic /\ exists vals, length vals = length order /\ set_vals order vals arr = None))
  end.
Proof.
  induction order as [|s rest IH]; intros arr st R out HB; cbv zeta.
  - cbn [read_clens_arr Flate.Spec.read_clens run]. unfold ret.
    exists [], (f_rd st), R. split; [destruct st; reflexivity|]. split; [reflexivity|].
    split; [reflexivity|]. split; [intros v []|]. split; [reflexivity|]. split; [lia|].
    split; [exact HB | reflexivity].
  - cbn [read_clens_arr Flate.Spec.read_clens]. rewrite run_bind.
    unfold mbind at 1.
    pose proof (m_read_bits_sim st R out 3 HB ltac:(lia)) as H1. cbv zeta in H1.
    destruct (m_read_bits 3 st) as [[v|e] st1].
    2:{ destruct H1 as (p' & -> & -> & Hf & HB'). exists p'. split; [reflexivity|]. left.
        split; [reflexivity|]. split; [|exists R; exact HB'].
        eapply fails_same; [exact Hf|]. intros s' E. rewrite E. reflexivity. }
    destruct H1 as (p1 & -> & Hfit & Hv & Hrun & HB1 & Hbf1). rewrite Hrun.
    assert (Hv8 : v < 8) by (rewrite Hv; apply (sval_lt data R 3)).
    rewrite run_bind.
    destruct (0 <? v) eqn:Ev.
    + destruct (list_set arr (N.to_nat s) v) as [arr1|] eqn:Els.
      * specialize (IH arr1 (set_rd st p1) (R + N.to_nat 3)%nat out HB1). cbv zeta in IH.
        destruct (read_clens_arr rest arr1 (set_rd st p1)) as [[arr'|e] st2].
        -- destruct IH as (vals & p' & R' & -> & Hlen & Hsv & Hv' & Hr & HR' & HB' & Hbf').
           exists (v :: vals), p', R'. split; [reflexivity|]. split; [cbn [length]; lia|].
           split; [cbn [set_vals]; rewrite Ev, Els; exact Hsv|].
           split; [intros x [<-|Hx]; [exact Hv8 | apply Hv'; exact Hx]|].
           split; [rewrite Hr; cbn [run]; rewrite spec_cl_cons, Ev; reflexivity|].
           split; [lia|]. split; [exact HB'|]. rewrite Hbf'. exact Hbf1.
        -- destruct IH as (p' & -> & [(-> & Hf & HB')|(-> & vals & Hlen & Hsv)]).
           ++ exists p'. split; [reflexivity|]. left. split; [reflexivity|]. split; [|exact HB'].
              eapply fails_same; [exact Hf|]. intros s' E. rewrite E. reflexivity.
           ++ exists p'. split; [reflexivity|]. right. split; [reflexivity|].
              exists (v :: vals). split; [cbn [length]; lia|]. cbn [set_vals]. rewrite Ev, Els. exact Hsv.
      * unfold throw. exists p1. split; [reflexivity|]. right. split; [reflexivity|].
        exists (v :: repeat 0 (length rest)). split; [cbn [length]; rewrite repeat_length; reflexivity|].
        cbn [set_vals]. rewrite Ev, Els. reflexivity.
    + specialize (IH arr (set_rd st p1) (R + N.to_nat 3)%nat out HB1). cbv zeta in IH.
      destruct (read_clens_arr rest arr (set_rd st p1)) as [[arr'|e] st2].
      * destruct IH as (vals & p' & R' & -> & Hlen & Hsv & Hv' & Hr & HR' & HB' & Hbf').
        exists (v :: vals), p', R'. split; [reflexivity|]. split; [cbn [length]; lia|].
        split; [cbn [set_vals]; rewrite Ev; exact Hsv|].
        split; [intros x [<-|Hx]; [exact Hv8 | apply Hv'; exact Hx]|].
        split; [rewrite Hr; cbn [run]; rewrite spec_cl_cons, Ev; reflexivity|].
        split; [lia|]. split; [exact HB'|]. rewrite Hbf'. exact Hbf1.
      * destruct IH as (p' & -> & [(-> & Hf & HB')|(-> & vals & Hlen & Hsv)]).
        -- exists p'. split; [reflexivity|]. left. split; [reflexivity|]. split; [|exact HB'].
           eapply fails_same; [exact Hf|]. intros s' E. rewrite E. reflexivity.
        -- exists p'. split; [reflexivity|]. right. split; [reflexivity|].
           exists (v :: vals). split; [cbn [length]; lia|]. cbn [set_vals]. rewrite Ev. exact Hsv.
Qed.

(* ---- (3) tables = trees, on a recycled Decoder object ---------------------------------------------- *)
Lemma tables_sim lens fake (sl : dslot) :
  strictly_increasing lens None = true ->
  (forall s l, In (s, l) lens -> 1 <= l <= 15 /\ s < fake) -> fake < 2 ^ 27 ->
  let el := handle_degenerate lens fake in
  match Flate.Spec.build_tree lens fake with
  | None => gen_prefixes el = GPInvalid
  | Some t => exists codes sl',
      gen_prefixes el = GPOk codes /\ slot_init sl codes = IOk sl' /\
      d_minBits (ds_dec sl') <= 57 /\
      SymOK data (ds_dec sl') t (d_minBits (ds_dec sl')) false (len_of el) /\
      TreeLen data t (len_of el) /\
      (forall l, eob_len (fast_rev codes) = Some l ->
         len_of el 256 = l /\ l <= 15 /\ SymOK data (set_min_bits (ds_dec sl') l) t l true (len_of el))
  end.
Proof.
  intros Hs Hb Hf el.
  pose proof (header_tables lens fake (ds_cmem sl) (ds_lmem sl) Hs Hb Hf) as H.
  destruct (Flate.Spec.build_tree lens fake) as [t|]; [|exact H].
  destruct H as (codes & d & Eg & Ed & Hc).
  exists codes, (mkSlot d (overlay (d_chunks d) (ds_cmem sl)) (overlay (d_flat d) (ds_lmem sl))).
  split; [exact Eg|]. split; [unfold slot_init; rewrite Ed; reflexivity|]. cbn [ds_dec].
  destruct Hc as [(E0 & -> & -> & ->)|Hc].
  - cbn [d_minBits empty_dec]. split; [lia|]. split; [apply (symok_empty data)|].
    split; [apply (treelen_empty data)|]. intros l Hl. cbn in Hl. discriminate.
  - cbv zeta in Hc. fold el in Hc.
    destruct Hc as (H2 & Hnd & Hp & Hcomp & HM & H27 & -> & -> & HV & HZ & HT).
    pose proof (to_min _ _ HT) as Emin.
    split; [rewrite Emin; pose proof (min_bits_le27 (canon_codes el)); lia|]. split.
    + pose proof (symok_code data Hd el H2 Hnd Hp Hcomp HM H27 HV HZ d HT (min_bits (canon_codes el))
                    ltac:(lia)) as HS.
      assert (Hmm : min_bits (canon_codes el) <= max_bits (canon_codes el)).
      { destruct el as [|[s0 l0] r] eqn:Eel; [cbn [length] in H2; lia|].
        destruct (canon_len_bounds ((s0, l0) :: r) s0 l0 H2 (or_introl eq_refl)). lia. }
      specialize (HS Hmm false (fun _ => eq_refl)).
      rewrite <- Emin in HS. rewrite set_min_bits_id in HS. exact HS.
    + split.
      * assert (Hmm : min_bits (canon_codes el) <= max_bits (canon_codes el)).
        { destruct el as [|[s0 l0] r] eqn:Eel; [cbn [length] in H2; lia|].
          destruct (canon_len_bounds ((s0, l0) :: r) s0 l0 H2 (or_introl eq_refl)). lia. }
        apply (treelen_code data Hd el H2 Hnd Hp Hcomp HM H27 HV (min_bits (canon_codes el))
                 ltac:(lia) Hmm false (fun _ => eq_refl)).
      * intros l Hl. apply (eob_len_spec el l Hnd Hp) in Hl.
        split; [apply len_of_in; assumption|].
        split; [apply (hd_bounds lens fake Hb 256 l Hl)|].
        destruct (canon_len_bounds el 256 l H2 Hl) as [Hl1 Hl2].
        apply (symok_code data Hd el H2 Hnd Hp Hcomp HM H27 HV HZ d HT l Hl1 Hl2 true).
        intros C. discriminate.
Qed.


(* ---- (4) the code-length loop ------------------------------------------------------------------------ *)
(* the repeat codes 16 / 17 / 18 *)
Definition rep_part (s : cls) (clen : N) : M (N * N) :=
  if clen =? 16 then
    if c_sym' s =? 0 then corrupted
    else x <- m_read_bits 2 ;; ret (c_last s, 3 + x)
  else if clen =? 17 then x <- m_read_bits 3 ;; ret (0, 3 + x)
  else if clen =? 18 then x <- m_read_bits 7 ;; ret (0, 11 + x)
  else corrupted.

Definition spec_rep (cs : Flate.Spec.clst) (clen : N) : prog (N * N) :=
  if clen =? 16 then
    bind (assert_p (negb (Flate.Spec.cl_sym cs =? 0)) ECorrupted) (fun _ =>
    bind (Flate.Spec.rbits 2) (fun x => Ret (Flate.Spec.cl_last cs, 3 + x)))
  else if clen =? 17 then bind (Flate.Spec.rbits 3) (fun x => Ret (0, 3 + x))
  else if clen =? 18 then bind (Flate.Spec.rbits 7) (fun x => Ret (0, 11 + x))
  else Throw ECorrupted.

Lemma clen_body_unfold tree maxSyms cs :
  Flate.Spec.clen_body tree maxSyms cs =
  if maxSyms <=? Flate.Spec.cl_sym cs then Ret (inr (fast_rev (Flate.Spec.cl_acc cs))) else
  bind (Flate.Spec.sym_or_corrupt tree) (fun clen =>
  if clen <? 16 then
    Ret (inl (Flate.Spec.mkClst (Flate.Spec.cl_sym cs + 1) clen
                (if 0 <? clen then (Flate.Spec.cl_sym cs, clen) :: Flate.Spec.cl_acc cs
                 else Flate.Spec.cl_acc cs)))
  else
    bind (spec_rep cs clen) (fun r =>
    let '(cl, rep) := r in
    let acc := if 0 <? cl then Flate.Spec.rep_codes (N.to_nat rep) (Flate.Spec.cl_sym cs) cl (Flate.Spec.cl_acc cs)
               else Flate.Spec.cl_acc cs in
    let sym' := Flate.Spec.cl_sym cs + rep in
    bind (assert_p (sym' <=? maxSyms) ECorrupted) (fun _ =>
    Ret (inl (Flate.Spec.mkClst sym' cl acc))))).
Proof. reflexivity. Qed.

Lemma clen_loop_eq f numLit maxSyms s st :
  clen_loop (S f) numLit maxSyms s st =
  if negb (c_sym' s <? maxSyms) then (ROk s, st) else
  match m_read_symbol (ds_dec (f_clen st)) st with
  | (RThrow e, st1) => (RThrow e, st1)
  | (ROk clen, st1) =>
    if clen <? 16 then
      let s1 := if 0 <? clen then append_code numLit s (c_sym' s) clen else s in
      clen_loop f numLit maxSyms (mkCls (c_sym' s + 1) clen (c_lits s1) (c_dists s1)) st1
    else
      match rep_part s clen st1 with
      | (RThrow e, st2) => (RThrow e, st2)
      | (ROk (cl, repCnt), st2) =>
        let s1 := if 0 <? cl then rep_append (N.to_nat repCnt) numLit s (c_sym' s) cl else s in
        let sym' := c_sym' s + repCnt in
        if maxSyms <? sym' then (RThrow ECorrupted, st2)
        else clen_loop f numLit maxSyms (mkCls sym' cl (c_lits s1) (c_dists s1)) st2
      end
  end.
Proof.
  cbn [clen_loop]. destruct (negb (c_sym' s <? maxSyms)); [reflexivity|].
  unfold mbind at 1. unfold mget at 1. unfold mbind at 1.
  destruct (m_read_symbol (ds_dec (f_clen st)) st) as [[clen|e] st1]; [|reflexivity].
  destruct (clen <? 16); [reflexivity|].
  unfold mbind at 1. fold (rep_part s clen).
  destruct (rep_part s clen st1) as [[[cl repCnt]|e] st2]; [|reflexivity].
  cbv zeta. destruct (maxSyms <? c_sym' s + repCnt); reflexivity.
Qed.

Lemma rep_part_sim s cs clen st R out :
  BIs data 0 R (f_rd st) -> c_sym' s = Flate.Spec.cl_sym cs -> c_last s = Flate.Spec.cl_last cs ->
  let r := run (spec_rep cs clen) (sigma data R out) in
  match rep_part s clen st with
  | (ROk (cl, rep), st') => exists p' R', st' = set_rd st p' /\
      r = Done (cl, rep) (sigma data R' out) /\ (R <= R')%nat /\ BIs data 0 R' p' /\
      p_buffered p' = p_buffered (f_rd st) /\ 3 <= rep /\ (cl = Flate.Spec.cl_last cs \/ cl = 0)
  | (RThrow e, st') => exists p', st' = set_rd st p' /\ (e = EUEOF \/ e = ECorrupted) /\
      fails e out r /\ exists k R', BIs data k R' p'
  end.
Proof.
  intros HB Hsym Hlast. cbv zeta. unfold rep_part, spec_rep.
  assert (Hst : st = set_rd st (f_rd st)) by (destruct st; reflexivity).
  assert (Hcor : forall (A : Type) (q : prog A), q = Throw ECorrupted ->
            exists p', st = set_rd st p' /\ (ECorrupted = EUEOF \/ ECorrupted = ECorrupted) /\
              fails ECorrupted out (run q (sigma data R out)) /\ exists k R', BIs data k R' p').
  { intros A q ->. exists (f_rd st). split; [exact Hst|]. split; [right; reflexivity|].
    split; [eexists; split; reflexivity|]. exists 0, R. exact HB. }
  assert (Hbits : forall nb (f : N -> N * N) cl0, nb <= 57 -> (forall x, f x = (cl0, snd (f x)) /\ 3 <= snd (f x)) ->
            (cl0 = Flate.Spec.cl_last cs \/ cl0 = 0) ->
            match (x <- m_read_bits nb ;; ret (f x)) st with
            | (ROk (cl, rep), st') => exists p' R', st' = set_rd st p' /\
                run (bind (Flate.Spec.rbits nb) (fun x => Ret (f x))) (sigma data R out)
                  = Done (cl, rep) (sigma data R' out) /\ (R <= R')%nat /\ BIs data 0 R' p' /\
                p_buffered p' = p_buffered (f_rd st) /\ 3 <= rep /\ (cl = Flate.Spec.cl_last cs \/ cl = 0)
            | (RThrow e, st') => exists p', st' = set_rd st p' /\ (e = EUEOF \/ e = ECorrupted) /\
                fails e out (run (bind (Flate.Spec.rbits nb) (fun x => Ret (f x))) (sigma data R out)) /\
                exists k R', BIs data k R' p'
            end).
  { intros nb f cl0 Hnb Hf Hcl. unfold mbind. rewrite run_bind.
    pose proof (m_read_bits_sim st R out nb HB Hnb) as H1. cbv zeta in H1.
    destruct (m_read_bits nb st) as [[v|e] st1].
    - destruct H1 as (p1 & -> & Hfit & Hv & Hrun & HB1 & Hbf1). rewrite Hrun. unfold ret. cbn [run].
      destruct (Hf v) as [Ef H3]. destruct (f v) as [cl rep] eqn:Efv. cbn [snd] in *.
      exists p1, (R + N.to_nat nb)%nat. split; [reflexivity|]. split; [reflexivity|].
      split; [lia|]. split; [exact HB1|]. split; [exact Hbf1|]. split; [exact H3|].
      inversion Ef; subst. exact Hcl.
    - destruct H1 as (p1 & -> & -> & Hf1 & HB1). exists p1. split; [reflexivity|].
      split; [left; reflexivity|]. split.
      + eapply fails_same; [exact Hf1|]. intros s' E. rewrite E. reflexivity.
      + exists 64, R. exact HB1. }
  destruct (clen =? 16).
  - rewrite <- Hsym. destruct (c_sym' s =? 0).
    + cbn [negb assert_p bind]. unfold corrupted, throw. apply Hcor. reflexivity.
    + cbn [negb assert_p bind]. rewrite Hlast.
      apply (Hbits 2 (fun x => (Flate.Spec.cl_last cs, 3 + x)) (Flate.Spec.cl_last cs)); [lia| |left; reflexivity].
      intros x. cbn [snd]. split; [reflexivity | lia].
  - destruct (clen =? 17).
    + apply (Hbits 3 (fun x => (0, 3 + x)) 0); [lia| |right; reflexivity].
      intros x. cbn [snd]. split; [reflexivity | lia].
    + destruct (clen =? 18).
      * apply (Hbits 7 (fun x => (0, 11 + x)) 0); [lia| |right; reflexivity].
        intros x. cbn [snd]. split; [reflexivity | lia].
      * unfold corrupted, throw. apply Hcor. reflexivity.
Qed.

Section Loop.
Variables (numLit maxSyms : N) (dc : dec) (ctree : Flate.Spec.htree) (lenfc : N -> N).
Hypothesis HSc : SymOK data dc ctree (d_minBits dc) false lenfc.
Hypothesis Hmin : d_minBits dc <= 57.

Notation cbody := (Flate.Spec.clen_body ctree maxSyms).

Definition cl_inv (s : cls) (cs : Flate.Spec.clst) : Prop :=
  c_sym' s = Flate.Spec.cl_sym cs /\ c_last s = Flate.Spec.cl_last cs /\
  split_ok numLit s (Flate.Spec.cl_acc cs) /\
  desc_below (Flate.Spec.cl_sym cs) (Flate.Spec.cl_acc cs) /\
  (forall x l, In (x, l) (Flate.Spec.cl_acc cs) -> 1 <= l <= 15) /\
  Flate.Spec.cl_sym cs <= maxSyms /\ Flate.Spec.cl_last cs <= 15.

Lemma split_ok_fields s1 acc a b : split_ok numLit s1 acc ->
  split_ok numLit (mkCls a b (c_lits s1) (c_dists s1)) acc.
Proof. intros H. exact H. Qed.

Theorem clen_loop_sim : forall fuel s cs st R out rb,
  ds_dec (f_clen st) = dc -> BIs data 0 R (f_rd st) -> cl_inv s cs ->
  (N.to_nat (maxSyms - c_sym' s) < fuel)%nat ->
  loops cbody cs (sigma data R out) rb ->
  match clen_loop fuel numLit maxSyms s st with
  | (ROk s', st') => exists p' R' acc,
      st' = set_rd st p' /\ rb = Done (fast_rev acc) (sigma data R' out) /\ (R <= R')%nat /\
      BIs data 0 R' p' /\ p_buffered p' = p_buffered (f_rd st) /\
      split_ok numLit s' acc /\ desc_below maxSyms acc /\
      (forall x l, In (x, l) acc -> 1 <= l <= 15)
  | (RThrow e, st') => exists p', st' = set_rd st p' /\
      (e = EUEOF \/ e = ECorrupted \/ e = EInvalid) /\ fails (err_wrap e) out rb /\
      exists k R', BIs data k R' p'
  end.
Proof.
  induction fuel as [|f IH]; intros s cs st R out rb Hdc HB Hinv Hfuel Hsp; [lia|].
  destruct Hinv as (Hsym & Hlast & Hsplit & Hdesc & Hlens & Hle & Hl15).
  rewrite clen_loop_eq.
  pose proof (f_equal (fun q => run q (sigma data R out)) (clen_body_unfold ctree maxSyms cs)) as Hbody.
  cbv beta in Hbody.
  destruct (c_sym' s <? maxSyms) eqn:Elt; cbn [negb].
  2:{ (* the loop ends *)
    replace (maxSyms <=? Flate.Spec.cl_sym cs) with true in Hbody by lia.
    assert (Hrun : run (cbody cs) (sigma data R out) = Done (inr (fast_rev (Flate.Spec.cl_acc cs))) (sigma data R out))
      by (rewrite Hbody; reflexivity).
    exists (f_rd st), R, (Flate.Spec.cl_acc cs). split; [destruct st; reflexivity|].
    split; [apply (loops_inv_done _ _ _ _ _ _ Hsp Hrun)|]. split; [lia|]. split; [exact HB|].
    split; [reflexivity|]. split; [exact Hsplit|].
    split; [|exact Hlens]. replace maxSyms with (Flate.Spec.cl_sym cs) by lia. exact Hdesc. }
  replace (maxSyms <=? Flate.Spec.cl_sym cs) with false in Hbody by lia.
  cbv iota in Hbody.
  rewrite Hdc, m_read_symbol_eq.
  pose proof (proj1 HSc 0 R (f_rd st) out HB) as Hs. cbv zeta in Hs.
  destruct (sym_slow dc (f_rd st)) as [[clen|e] p1] eqn:Eslow; cbn [fst snd].
  2:{ (* the code-length symbol fails *)
    pose proof (sym_slow_fail data Hd dc 0 R (f_rd st) e p1 Hmin HB Eslow) as [HBf _].
    exists p1. split; [reflexivity|].
    destruct Hs as [[-> Hf]|[[-> Hf]|[Hx _]]]; [| |discriminate].
    - split; [left; reflexivity|]. split; [|exists 64, R; exact HBf].
      destruct Hf as (s' & Ef & Ho). exists s'. split; [|exact Ho].
      apply (loops_inv_fail _ _ _ _ _ _ Hsp). rewrite Hbody, run_bind, Ef. reflexivity.
    - split; [right; right; reflexivity|]. split; [|exists 64, R; exact HBf].
      destruct Hf as (s' & Ef & Ho). exists s'. split; [|exact Ho].
      apply (loops_inv_fail _ _ _ _ _ _ Hsp). rewrite Hbody, run_bind, Ef. reflexivity. }
  destruct Hs as (Hl1 & Hfit & Hml & Hrun & HB1' & Hbf1).
  specialize (Hml eq_refl).
  set (R1 := (R + N.to_nat (lenfc clen))%nat) in *.
  assert (HB1 : BIs data 0 R1 p1) by (eapply (BIs_weaken data Hd); [|exact HB1']; lia).
  rewrite run_bind, Hrun in Hbody.
  destruct (clen <? 16) eqn:E16.
  { (* a literal code length *)
    cbn [run] in Hbody. cbv zeta.
    pose proof (IH (mkCls (c_sym' s + 1) clen
                      (c_lits (if 0 <? clen then append_code numLit s (c_sym' s) clen else s))
                      (c_dists (if 0 <? clen then append_code numLit s (c_sym' s) clen else s)))
                   (Flate.Spec.mkClst (Flate.Spec.cl_sym cs + 1) clen
                      (if 0 <? clen then (Flate.Spec.cl_sym cs, clen) :: Flate.Spec.cl_acc cs
                       else Flate.Spec.cl_acc cs))
                   (set_rd st p1) R1 out rb Hdc HB1) as IH1.
    match type of IH1 with ?A -> ?B -> ?C -> _ =>
      assert (Hi : A); [|assert (Hf2 : B); [|assert (Hl2 : C)]] end.
    - unfold cl_inv. cbn [c_sym' c_last Flate.Spec.cl_sym Flate.Spec.cl_last Flate.Spec.cl_acc].
      split; [lia|]. split; [reflexivity|].
      destruct (0 <? clen) eqn:E0.
      + split; [apply split_ok_fields; rewrite Hsym;
                exact (proj1 (append_code_split numLit s _ (Flate.Spec.cl_sym cs) clen Hsplit))|].
        split; [cbn [desc_below]; split; [lia | exact Hdesc]|].
        split; [|lia]. intros x l [E|Hin]; [inversion E; subst; lia | apply (Hlens x l Hin)].
      + split; [apply split_ok_fields; exact Hsplit|].
        split; [eapply desc_below_weaken; [|exact Hdesc]; lia|].
        split; [exact Hlens | lia].
    - cbn [c_sym']. lia.
    - apply (loops_inv_step _ _ _ _ _ _ Hsp Hbody).
    - specialize (IH1 Hi Hf2 Hl2).
      destruct (clen_loop f numLit maxSyms _ (set_rd st p1)) as [[s'|e] st2].
      + destruct IH1 as (p' & R' & acc & -> & Hrb & HR' & HB' & Hbf' & Hrest).
        exists p', R', acc. split; [reflexivity|]. split; [exact Hrb|]. split; [unfold R1 in HR'; lia|].
        split; [exact HB'|]. split; [rewrite Hbf'; exact Hbf1 | exact Hrest].
      + destruct IH1 as (p' & -> & Hrest). exists p'. split; [reflexivity | exact Hrest]. }
  (* a repeat code *)
  pose proof (rep_part_sim s cs clen (set_rd st p1) R1 out HB1 Hsym Hlast) as Hr. cbv zeta in Hr.
  destruct (rep_part s clen (set_rd st p1)) as [[[cl rep]|e] st2].
  2:{ destruct Hr as (p' & -> & He & Hf & HBf). exists p'. split; [reflexivity|].
      split; [destruct He as [->| ->]; [left | right; left]; reflexivity|]. split; [|exact HBf].
      destruct Hf as (s' & Ef & Ho). exists s'.
      split; [|exact Ho]. apply (loops_inv_fail _ _ _ _ _ _ Hsp). rewrite Hbody, run_bind, Ef.
      destruct He as [->| ->]; reflexivity. }
  destruct Hr as (p2 & R2 & -> & Hrun2 & HR2 & HB2 & Hbf2 & Hrep3 & Hcl).
  change (set_rd (set_rd st p1) p2) with (set_rd st p2).
  rewrite run_bind, Hrun2 in Hbody. cbv zeta in Hbody. cbv zeta.
  rewrite Hsym. rewrite Hsym in Elt.
  destruct (maxSyms <? Flate.Spec.cl_sym cs + rep) eqn:Eover.
  { (* the repetition runs over the end *)
    replace (Flate.Spec.cl_sym cs + rep <=? maxSyms) with false in Hbody by lia.
    cbn [assert_p bind run] in Hbody.
    exists p2. split; [reflexivity|]. split; [right; left; reflexivity|].
    split; [|exists 0, R2; exact HB2].
    eexists. split; [apply (loops_inv_fail _ _ _ _ _ _ Hsp Hbody)|]. reflexivity. }
  replace (Flate.Spec.cl_sym cs + rep <=? maxSyms) with true in Hbody by lia.
  cbn [assert_p bind run] in Hbody.
  assert (Hcl15 : cl <= 15) by (destruct Hcl as [->| ->]; lia).
  pose proof (IH (mkCls (Flate.Spec.cl_sym cs + rep) cl
                    (c_lits (if 0 <? cl then rep_append (N.to_nat rep) numLit s (Flate.Spec.cl_sym cs) cl else s))
                    (c_dists (if 0 <? cl then rep_append (N.to_nat rep) numLit s (Flate.Spec.cl_sym cs) cl else s)))
                 (Flate.Spec.mkClst (Flate.Spec.cl_sym cs + rep) cl
                    (if 0 <? cl then Flate.Spec.rep_codes (N.to_nat rep) (Flate.Spec.cl_sym cs) cl (Flate.Spec.cl_acc cs)
                     else Flate.Spec.cl_acc cs))
                 (set_rd st p2) R2 out rb Hdc HB2) as IH1.
  match type of IH1 with ?A -> ?B -> ?C -> _ =>
    assert (Hi : A); [|assert (Hf2 : B); [|assert (Hl2 : C)]] end.
  - unfold cl_inv. cbn [c_sym' c_last Flate.Spec.cl_sym Flate.Spec.cl_last Flate.Spec.cl_acc].
    split; [reflexivity|]. split; [reflexivity|].
    destruct (0 <? cl) eqn:E0.
    + split; [apply split_ok_fields;
              exact (proj1 (rep_append_split (N.to_nat rep) numLit s _ (Flate.Spec.cl_sym cs) cl Hsplit))|].
      split.
      { replace (Flate.Spec.cl_sym cs + rep) with (Flate.Spec.cl_sym cs + N.of_nat (N.to_nat rep)) by lia.
        apply rep_codes_desc. exact Hdesc. }
      split; [|lia]. intros x l Hin. destruct (rep_codes_in _ _ _ _ _ _ Hin) as [->|Hin']; [lia | apply (Hlens x l Hin')].
    + split; [apply split_ok_fields; exact Hsplit|].
      split; [eapply desc_below_weaken; [|exact Hdesc]; lia|].
      split; [exact Hlens | lia].
  - cbn [c_sym']. lia.
  - apply (loops_inv_step _ _ _ _ _ _ Hsp Hbody).
  - specialize (IH1 Hi Hf2 Hl2).
    destruct (clen_loop f numLit maxSyms _ (set_rd st p2)) as [[s'|e] st3].
    + destruct IH1 as (p' & R' & acc & -> & Hrb & HR' & HB' & Hbf' & Hrest).
      exists p', R', acc. split; [reflexivity|]. split; [exact Hrb|]. split; [unfold R1 in HR2; lia|].
      split; [exact HB'|]. split; [|exact Hrest].
      etransitivity; [exact Hbf'|]. etransitivity; [exact Hbf2 | exact Hbf1].
    + destruct IH1 as (p' & -> & Hrest). exists p'. split; [reflexivity | exact Hrest].
Qed.

End Loop.


(* ---- (5) ReadPrefixCodes --------------------------------------------------------------------------- *)
Lemma m_gen_ok codes out st : gen_prefixes codes = GPOk out -> m_gen_prefixes codes st = (ROk out, st).
Proof. intros E. unfold m_gen_prefixes. rewrite E. reflexivity. Qed.

Lemma m_gen_bad codes st : gen_prefixes codes = GPInvalid -> m_gen_prefixes codes st = (RThrow EInvalid, st).
Proof. intros E. unfold m_gen_prefixes. rewrite E. reflexivity. Qed.

Lemma m_slot_init_ok get set codes st s' :
  slot_init (get st) codes = IOk s' -> m_slot_init get set codes st = (ROk tt, set st s').
Proof. intros E. unfold m_slot_init. rewrite E. reflexivity. Qed.

Lemma no_efuel_clen ctree maxSyms s : maxSyms <= 316 ->
  ~ is_efuel (run (loop 10 (Flate.Spec.clen_body ctree maxSyms) (Flate.Spec.mkClst 0 0 [])) s).
Proof.
  intros Hm C.
  pose proof (nofuel_elim (S (ilen s)) _ s (nf_clen_loop _ ctree maxSyms Hm) (le_n _)) as H.
  destruct (run (loop 10 (Flate.Spec.clen_body ctree maxSyms) (Flate.Spec.mkClst 0 0 [])) s) as [a s'|e s'];
    [exact C|].
  destruct e; try exact C. apply H. reflexivity.
Qed.

Local Ltac fail_tail :=
  eapply fails_same; [eassumption|];
  let s' := fresh "s'" in let E := fresh "E" in intros s' E; rewrite E; reflexivity.

Theorem read_prefix_codes_sim st R out :
  BIs data 0 R (f_rd st) -> f_trees st = TDyn ->
  let r := run Flate.Spec.read_prefix_codes (sigma data R out) in
  match Flate.Impl.read_prefix_codes st with
  | (ROk _, st') =>
      exists R' tl td ks,
        r = Done (tl, td) (sigma data R' out) /\ (R <= R')%nat /\
        BIs data 0 R' (f_rd st') /\ BlockCfg data st' tl td ks /\ hdr_frame st st' /\
        p_buffered (f_rd st') = p_buffered (f_rd st) /\
        d_minBits (ds_dec (f_pd1 st')) <= 57 /\ d_minBits (ds_dec (f_pd2 st')) <= 57
  | (RThrow e, st') =>
      (e = EUEOF \/ e = ECorrupted \/ e = EInvalid) /\ fails (err_wrap e) out r /\ hdr_frame st st' /\
      (exists k R', BIs data k R' (f_rd st'))
  end.
Proof.
  intros HB Htr. cbv zeta.
  unfold Flate.Impl.read_prefix_codes, Flate.Spec.read_prefix_codes.
  unfold maxNumLitSyms, maxNumDistSyms, maxNumCLenSyms,
    Flate.Spec.maxNumLitSyms, Flate.Spec.maxNumDistSyms, Flate.Spec.maxNumCLenSyms.
  (* HLIT *)
  rewrite run_bind. unfold mbind at 1.
  pose proof (m_read_bits_sim st R out 5 HB ltac:(lia)) as H1. cbv zeta in H1.
  destruct (m_read_bits 5 st) as [[hlit|e] st1].
  2:{ destruct H1 as (p' & -> & -> & Hf & HB'). split; [left; reflexivity|].
      split; [cbn [err_wrap]; fail_tail|]. split; [repeat split|]. exists 64, R. exact HB'. }
  destruct H1 as (p1 & -> & Hfit1 & Hv1 & Hrun1 & HB1 & Hbf1). rewrite Hrun1.
  (* HDIST *)
  rewrite run_bind. unfold mbind at 1.
  pose proof (m_read_bits_sim (set_rd st p1) _ out 5 HB1 ltac:(lia)) as H2. cbv zeta in H2.
  destruct (m_read_bits 5 (set_rd st p1)) as [[hdist|e] st2].
  2:{ destruct H2 as (p' & -> & -> & Hf & HB'). split; [left; reflexivity|].
      split; [cbn [err_wrap]; fail_tail|]. split; [repeat split|]. exists 64, (R + N.to_nat 5)%nat. exact HB'. }
  destruct H2 as (p2 & -> & Hfit2 & Hv2 & Hrun2 & HB2 & Hbf2). rewrite Hrun2.
  change (set_rd (set_rd st p1) p2) with (set_rd st p2) in *.
  (* HCLEN *)
  rewrite run_bind. unfold mbind at 1.
  pose proof (m_read_bits_sim (set_rd st p2) _ out 4 HB2 ltac:(lia)) as H3. cbv zeta in H3.
  destruct (m_read_bits 4 (set_rd st p2)) as [[hclen|e] st3].
  2:{ destruct H3 as (p' & -> & -> & Hf & HB'). split; [left; reflexivity|].
      split; [cbn [err_wrap]; fail_tail|]. split; [repeat split|].
      exists 64, (R + N.to_nat 5 + N.to_nat 5)%nat. exact HB'. }
  destruct H3 as (p3 & -> & Hfit3 & Hv3 & Hrun3 & HB3 & Hbf3). rewrite Hrun3.
  change (set_rd (set_rd st p2) p3) with (set_rd st p3) in *.
  set (R3 := (R + N.to_nat 5 + N.to_nat 5 + N.to_nat 4)%nat) in *.
  assert (Hhl : hlit < 32) by (rewrite Hv1; apply (sval_lt data _ 5)).
  assert (Hhd : hdist < 32) by (rewrite Hv2; apply (sval_lt data _ 5)).
  assert (Hhc : hclen < 16) by (rewrite Hv3; apply (sval_lt data _ 4)).
  clear Hv1 Hv2 Hv3 Hrun1 Hrun2 Hrun3.
  cbv zeta.
  cbn [f_rd set_rd] in Hbf1, Hbf2, Hbf3.
  assert (Hbf03 : p_buffered p3 = p_buffered (f_rd st)) by congruence.
  clear Hbf1 Hbf2 Hbf3 HB1 HB2.
  (* the range check *)
  rewrite run_bind.
  destruct ((286 <? hlit + 257) || (30 <? hdist + 1)) eqn:Erange.
  { replace ((hlit + 257 <=? 286) && (hdist + 1 <=? 30)) with false by lia.
    cbn [assert_p run]. unfold corrupted, throw.
    split; [right; left; reflexivity|]. split; [cbn [err_wrap]; eexists; split; reflexivity|].
    split; [repeat split|]. exists 0, R3. exact HB3. }
  replace ((hlit + 257 <=? 286) && (hdist + 1 <=? 30)) with true by lia.
  cbn [assert_p run].
  change (length clenLens) with 19%nat.
  replace (N.of_nat 19 <? hclen + 4) with false by lia.
  set (numLit := hlit + 257) in *. set (numDist := hdist + 1) in *.
  set (n := N.to_nat (hclen + 4)) in *.
  assert (Hn : (n <= 19)%nat) by (unfold n; lia).
  (* the code-length code lengths *)
  rewrite run_bind. unfold mbind at 1.
  pose proof (read_clens_sim (firstn n clenLens) (repeat 0 19%nat) (set_rd st p3) R3 out HB3) as H4.
  cbv zeta in H4. change Flate.Spec.clenLens with clenLens.
  assert (Hfl : length (firstn n clenLens) = n).
  { rewrite firstn_length. change (length clenLens) with 19%nat. lia. }
  destruct (read_clens_arr (firstn n clenLens) (repeat 0 19%nat) (set_rd st p3)) as [[arr|e] st4].
  2:{ destruct H4 as (p' & -> & [(-> & Hf & R' & HB')|(-> & vals & Hlen & Hsv)]).
      - split; [left; reflexivity|]. split; [cbn [err_wrap]; fail_tail|]. split; [repeat split|].
        exists 64, R'. exact HB'.
      - exfalso. destruct (clens_compact n vals Hn ltac:(congruence)) as (arr0 & E0 & _).
        rewrite E0 in Hsv. discriminate. }
  destruct H4 as (vals & p4 & R4 & -> & Hlen & Hsv & Hv8 & Hrun4 & HR4 & HB4 & Hbf4). rewrite Hrun4.
  change (set_rd (set_rd st p3) p4) with (set_rd st p4) in *.
  cbn [f_rd set_rd] in Hbf4.
  destruct (clens_compact n vals Hn ltac:(congruence)) as (arr0 & E0 & Hcomp).
  assert (arr0 = arr) by congruence. subst arr0. clear E0.
  rewrite <- Hcomp.
  (* the code-length tree *)
  assert (Hcb : forall s l, In (s, l) (compact_from 0 arr) -> 1 <= l <= 15 /\ s < 19).
  { intros s l Hin. rewrite Hcomp in Hin. apply sort_by_sym_in in Hin.
    pose proof (spec_cl_syms _ _ _ Hin) as Hs. cbn [fst] in Hs. apply In_firstn, clenLens_lt in Hs.
    destruct (spec_cl_vals _ _ _ _ Hin) as [Hvl Hl1]. specialize (Hv8 l Hvl). lia. }
  pose proof (tables_sim (compact_from 0 arr) 19 (f_clen (set_rd st p4))
                (proj1 (compact_from_sorted 0 arr)) Hcb ltac:(reflexivity)) as Ht.
  cbv zeta in Ht. revert Ht. rewrite run_bind.
  destruct (Flate.Spec.build_tree (compact_from 0 arr) 19) as [ctree|]; intros Ht.
  2:{ unfold mbind at 1. rewrite (m_gen_bad _ _ Ht).
      split; [right; right; reflexivity|].
      split; [cbn [err_wrap Flate.Spec.opt_tree run]; eexists; split; reflexivity|].
      split; [repeat split|]. exists 0, R4. exact HB4. }
  destruct Ht as (cc & slc & Hgpc & Hsic & Hminc & HSc & HTc & _).
  cbn [Flate.Spec.opt_tree run].
  unfold mbind at 1. rewrite (m_gen_ok _ _ _ Hgpc). cbv beta iota.
  unfold mbind at 1. rewrite (m_slot_init_ok f_clen set_clen cc (set_rd st p4) slc Hsic). cbv beta iota.
  (* the code-length loop *)
  set (maxSyms := numLit + numDist) in *.
  assert (Hms : maxSyms <= 316) by (unfold maxSyms, numLit, numDist; lia).
  rewrite run_bind. unfold mbind at 1.
  set (st5 := set_clen (set_rd st p4) slc).
  set (rb := run (loop 10 (Flate.Spec.clen_body ctree maxSyms) (Flate.Spec.mkClst 0 0 [])) (sigma data R4 out)).
  pose proof (loop_loops 10 _ _ _ (no_efuel_clen ctree maxSyms (sigma data R4 out) Hms)) as Hsp. fold rb in Hsp.
  assert (Hinv0 : cl_inv numLit maxSyms (mkCls 0 0 [] []) (Flate.Spec.mkClst 0 0 [])).
  { unfold cl_inv. cbn [c_sym' c_last Flate.Spec.cl_sym Flate.Spec.cl_last Flate.Spec.cl_acc desc_below].
    split; [reflexivity|]. split; [reflexivity|]. split; [split; reflexivity|]. split; [exact I|].
    split; [intros x l []|]. lia. }
  pose proof (clen_loop_sim numLit maxSyms (ds_dec slc) ctree _ HSc Hminc 400%nat (mkCls 0 0 [] [])
                (Flate.Spec.mkClst 0 0 []) st5 R4 out rb eq_refl HB4 Hinv0
                ltac:(cbn [c_sym']; lia) Hsp) as H5.
  destruct (clen_loop 400 numLit maxSyms (mkCls 0 0 [] []) st5) as [[s5|e] st6].
  2:{ destruct H5 as (p' & -> & He & Hf & HBf). split; [exact He|]. split; [fail_tail|].
      split; [repeat split | exact HBf]. }
  destruct H5 as (p5 & R5 & acc & -> & Hrb & HR5 & HB5 & Hbf5 & [Hl Hdd] & Hdesc & Hlens).
  rewrite Hrb. cbn [f_rd set_rd set_clen st5] in Hbf5. unfold st5. clear Hsp Hrb rb.
  rewrite Hl, Hdd, lits_of_rev, dists_of_rev.
  destruct (desc_below_lists maxSyms numLit acc Hdesc ltac:(unfold maxSyms; lia) Hlens)
    as (Hs1 & Hs2 & Hb1 & Hb2).
  replace (maxSyms - numLit) with numDist in Hb2 by (unfold maxSyms; lia).
  (* the literal/length tables *)
  set (st6 := set_rd (set_clen (set_rd st p4) slc) p5).
  pose proof (tables_sim (lits_of numLit (fast_rev acc)) 286 (f_pd1 st6) Hs1
                ltac:(intros s l Hin; specialize (Hb1 s l Hin); unfold numLit in *; lia)
                ltac:(reflexivity)) as Ht.
  cbv zeta in Ht. unfold lits_of, dists_of in *. revert Ht. rewrite run_bind.
  destruct (Flate.Spec.build_tree (filter (fun sl => fst sl <? numLit) (fast_rev acc)) 286) as [tl|];
    intros Ht.
  2:{ unfold mbind at 1. rewrite (m_gen_bad _ _ Ht).
      split; [right; right; reflexivity|].
      split; [cbn [err_wrap Flate.Spec.opt_tree run]; eexists; split; reflexivity|].
      split; [repeat split|]. exists 0, R5. exact HB5. }
  destruct Ht as (lc & sl1 & Hgpl & Hsil & Hminl & HSl & HTl & Heob).
  cbn [Flate.Spec.opt_tree run].
  unfold mbind at 1. rewrite (m_gen_ok _ _ _ Hgpl). cbv beta iota.
  unfold mbind at 1. rewrite (m_slot_init_ok f_pd1 set_pd1 lc st6 sl1 Hsil). cbv beta iota.
  (* the distance tables *)
  set (st7 := set_pd1 st6 sl1).
  pose proof (tables_sim (map (fun sl => (fst sl - numLit, snd sl))
                            (filter (fun sl => negb (fst sl <? numLit)) (fast_rev acc))) 30 (f_pd2 st7) Hs2
                ltac:(intros s l Hin; specialize (Hb2 s l Hin); unfold numDist in *; lia)
                ltac:(reflexivity)) as Ht.
  cbv zeta in Ht. revert Ht. rewrite run_bind.
  destruct (Flate.Spec.build_tree (map (fun sl => (fst sl - numLit, snd sl))
              (filter (fun sl => negb (fst sl <? numLit)) (fast_rev acc))) 30) as [td|]; intros Ht.
  2:{ unfold mbind at 1. rewrite (m_gen_bad _ _ Ht).
      split; [right; right; reflexivity|].
      split; [cbn [err_wrap Flate.Spec.opt_tree run]; eexists; split; reflexivity|].
      split; [repeat split|]. exists 0, R5. exact HB5. }
  destruct Ht as (dcs & sl2 & Hgpd & Hsid & Hmind & HSd & HTd & _).
  cbn [Flate.Spec.opt_tree run].
  unfold mbind at 1. rewrite (m_gen_ok _ _ _ Hgpd). cbv beta iota.
  unfold mbind at 1. rewrite (m_slot_init_ok f_pd2 set_pd2 dcs st7 sl2 Hsid). cbv beta iota.
  (* the MinBits adjustment *)
  set (st8 := set_pd2 st7 sl2).
  unfold mbind at 1. unfold mget at 1.
  assert (Hrd8 : f_rd st8 = p5) by reflexivity. rewrite Hrd8.
  assert (Hbf05 : p_buffered p5 = p_buffered (f_rd st)) by congruence.
  assert (HR05 : (R <= R5)%nat) by (unfold R3 in *; lia).
  assert (Hfr8 : hdr_frame st st8) by (repeat split).
  assert (Hlt8 : lit_tree st8 = ROk (ds_dec sl1)).
  { unfold lit_tree. change (f_trees st8) with (f_trees st). rewrite Htr. reflexivity. }
  assert (Hdt8 : dist_tree st8 = ROk (ds_dec sl2)).
  { unfold dist_tree. change (f_trees st8) with (f_trees st). rewrite Htr. reflexivity. }
  set (ell := handle_degenerate (filter (fun sl => fst sl <? numLit) (fast_rev acc)) 286) in *.
  set (eld := handle_degenerate (map (fun sl => (fst sl - numLit, snd sl))
                (filter (fun sl => negb (fst sl <? numLit)) (fast_rev acc))) 30) in *.
  assert (Hplain : exists R' tl0 td0 ks,
            Done (tl, td) (sigma data R5 out) = Done (tl0, td0) (sigma data R' out) /\ (R <= R')%nat /\
            BIs data 0 R' (f_rd st8) /\ BlockCfg data st8 tl0 td0 ks /\ hdr_frame st st8 /\
            p_buffered (f_rd st8) = p_buffered (f_rd st) /\
            d_minBits (ds_dec (f_pd1 st8)) <= 57 /\ d_minBits (ds_dec (f_pd2 st8)) <= 57).
  { exists R5, tl, td, 0. split; [reflexivity|]. split; [exact HR05|]. split; [exact HB5|].
    split.
    - exists (ds_dec sl1), (ds_dec sl2), (d_minBits (ds_dec sl1)), (d_minBits (ds_dec sl2)), false,
        (len_of ell), (len_of eld).
      split; [exact Hlt8|]. split; [exact Hdt8|]. split; [exact HSl|]. split; [exact HSd|].
      split; [exact HTl|]. split; [left; split; reflexivity|]. intros C. discriminate.
    - split; [exact Hfr8|]. split; [exact Hbf05|]. split; [exact Hminl | exact Hmind]. }
  destruct (p_buffered p5) eqn:Ebuf; cbn [negb].
  { unfold ret. cbn [run]. exact Hplain. }
  destruct (eob_len _) as [l|] eqn:Eeob.
  2:{ unfold ret. cbn [run]. exact Hplain. }
  destruct (Heob l eq_refl) as (Hl256 & Hl15 & HSl').
  unfold mupd. cbn [run].
  set (st9 := set_pd1 st8 (mkSlot (set_min_bits (ds_dec (f_pd1 st8)) l) (ds_cmem (f_pd1 st8)) (ds_lmem (f_pd1 st8)))).
  exists R5, tl, td, l. split; [reflexivity|]. split; [exact HR05|]. split; [exact HB5|].
  split.
  - exists (set_min_bits (ds_dec sl1) l), (ds_dec sl2), l, (d_minBits (ds_dec sl2)), true,
      (len_of ell), (len_of eld).
    split; [unfold lit_tree; change (f_trees st9) with (f_trees st); rewrite Htr; reflexivity|].
    split; [unfold dist_tree; change (f_trees st9) with (f_trees st); rewrite Htr; reflexivity|].
    split; [exact HSl'|]. split; [exact HSd|]. split; [exact HTl|].
    split; [right; split; [reflexivity | exact Hl256]|]. intros _. exact Ebuf.
  - split; [repeat split|]. split; [change (f_rd st9) with p5; congruence|].
    split; [change (d_minBits (ds_dec (f_pd1 st9))) with l; lia | exact Hmind].
Qed.

End Hdr.

(* ---- non-vacuity -------------------------------------------------------------------------------------- *)
(* a dynamic header (HLIT = 0, HDIST = 0, HCLEN = 14; code-length code {0: 2, 1: 2, 18: 1}; literal 0 and
   end-of-block with one bit each, written with two zero runs 18(138) 18(117); no distance code) on a
   fresh Reader, over a BufferedReader (bf = true) and over a ByteReader (bf = false, where MinBits is
   set to the end-of-block length): the hypotheses of read_prefix_codes_sim hold, the model succeeds
   and the specification builds the two trees having consumed 90 bits *)
Definition ex_hdr : list byte := [0; 56; 16; 1; 0; 0; 0; 0; 180; 63; 245; 1].
Definition ex_st (bf : bool) (dict : Window.Dict.dd) : flst :=
  mkFl 0%Z 0%Z (init ex_hdr bf false [] []) fresh_slot [] 0%Z 0%Z 0%Z false None StHeader false dict TDyn
       fresh_slot fresh_slot.

Example read_prefix_codes_sim_ex bf dict :
  (forall b, In b ex_hdr -> b < 256) /\
  BIs ex_hdr 0 0 (f_rd (ex_st bf dict)) /\ f_trees (ex_st bf dict) = TDyn /\
  (exists st', Flate.Impl.read_prefix_codes (ex_st bf dict) = (ROk tt, st') /\
               d_minBits (ds_dec (f_pd1 st')) = 1) /\
  run Flate.Spec.read_prefix_codes (sigma ex_hdr 0 []) =
    Done (Flate.Spec.HNode (Flate.Spec.HLeaf 0) (Flate.Spec.HLeaf 256), Flate.Spec.HEmpty) (sigma ex_hdr 90 []).
Proof.
  assert (Hb : forall b, In b ex_hdr -> b < 256).
  { intros b H. unfold ex_hdr in H. cbn [In] in H.
    repeat (destruct H as [<-|H]; [lia|]). destruct H. }
  split; [exact Hb|]. split; [apply (BIs_init ex_hdr Hb)|]. split; [reflexivity|]. split.
  - exists (snd (Flate.Impl.read_prefix_codes (ex_st bf dict))).
    assert (H1 : fst (Flate.Impl.read_prefix_codes (ex_st bf dict)) = ROk tt)
      by (destruct bf; vm_compute; reflexivity).
    assert (H2 : d_minBits (ds_dec (f_pd1 (snd (Flate.Impl.read_prefix_codes (ex_st bf dict))))) = 1)
      by (destruct bf; vm_compute; reflexivity).
    split; [|exact H2].
    destruct (Flate.Impl.read_prefix_codes (ex_st bf dict)) as [r s]. cbn [fst snd] in *. subst r. reflexivity.
  - vm_compute. reflexivity.
Qed.

Print Assumptions read_prefix_codes_sim.
Print Assumptions read_prefix_codes_sim_ex.
