(* The trees the DEFLATE decoder model builds decode exactly the canonical code of
   RFC 1951 3.2.2: for every code-length assignment the block header can carry and the
   decoder accepts ([build_tree] = Some), every symbol's canonical code word, followed
   by anything, is decoded to that symbol, reading exactly the code word; and every
   long enough bit string decodes to some symbol (the code is complete). Also: the
   length lists the header parser produces have pairwise different symbols. *)
From V Require Import Base.Prelude Base.Prog Base.ProgThms Base.OkThms Base.FuelThms
  Flate.Spec Flate.Safe Flate.Fuel Flate.Canon.

Lemma build_tree_canonical lens fake t :
  (2 <= length lens)%nat -> NoDup (map fst lens) ->
  build_tree lens fake = Some t ->
  t = tree_of lens /\ lens_pos lens /\ complete lens = true.
Proof.
  intros Hlen Hnd Hb. unfold build_tree in Hb.
  destruct lens as [|sl [|sl2 lens]]; cbn [length] in Hlen; try lia.
  destruct (complete (sl :: sl2 :: lens)) eqn:Ec; [|discriminate].
  inversion Hb; subst t. split; [reflexivity|]. split; [|reflexivity].
  intros s l Hin. pose proof (complete_nozero (sl :: sl2 :: lens) ltac:(cbn [length]; lia) Ec s l Hin). lia.
Qed.

(* every canonical code word is decoded to its symbol, consuming exactly the word *)
Theorem decoder_tree_decodes_canonical_code lens fake t s l c rest pos out len :
  (2 <= length lens)%nat -> NoDup (map fst lens) ->
  build_tree lens fake = Some t ->
  In (s, l, c) (canonical lens) ->
  c < 2 ^ l /\
  run (sym_tree t) (mkAst (msb_bits (N.to_nat l) c ++ rest) pos out len)
  = Done (Some s) (mkAst rest (pos + l) out len).
Proof.
  intros Hlen Hnd Hb Hin.
  destruct (build_tree_canonical lens fake t Hlen Hnd Hb) as [-> [Hp Hc]].
  apply complete_decodes_code; assumption.
Qed.

(* no bit string is rejected by an accepted tree: the code is complete *)
Theorem decoder_tree_is_complete lens fake t bits pos out len :
  (2 <= length lens)%nat -> NoDup (map fst lens) ->
  build_tree lens fake = Some t ->
  (N.to_nat (max_len lens) <= length bits)%nat ->
  exists s rest,
    run (sym_tree t) (mkAst bits pos out len)
    = Done (Some s) (mkAst rest (pos + N.of_nat (length bits - length rest)) out len) /\
    In s (map fst lens).
Proof.
  intros Hlen Hnd Hb Hbits.
  destruct (build_tree_canonical lens fake t Hlen Hnd Hb) as [-> [Hp Hc]].
  apply sym_tree_complete; assumption.
Qed.

(* ---- the header parser produces lists with pairwise different symbols ------------------- *)
(* symbols of the accumulator are strictly decreasing and below the next symbol *)
Fixpoint desc_below (bound : N) (l : list (N * N)) : Prop :=
  match l with
  | [] => True
  | (s, _) :: r => s < bound /\ desc_below s r
  end.

Lemma desc_below_weaken b b' l : b <= b' -> desc_below b l -> desc_below b' l.
Proof. destruct l as [|[s x] r]; cbn; [auto|]. intros H [H1 H2]. split; [lia | exact H2]. Qed.

Lemma rep_codes_desc n : forall sym clen acc,
  desc_below sym acc -> desc_below (sym + N.of_nat n) (rep_codes n sym clen acc).
Proof.
  induction n as [|n IH]; intros sym clen acc H; cbn [rep_codes].
  - rewrite N.add_0_r. exact H.
  - replace (sym + N.of_nat (S n)) with (sym + 1 + N.of_nat n) by lia.
    apply IH. cbn. split; [lia | exact H].
Qed.

Lemma desc_below_rev_nodup : forall l b, desc_below b l -> NoDup (map fst l) /\ Forall (fun sl => fst sl < b) l.
Proof.
  induction l as [|[s x] r IH]; intros b H; cbn in *.
  - split; constructor.
  - destruct H as [H1 H2]. destruct (IH s H2) as [N1 F1]. split.
    + constructor; [|exact N1]. intros Hin. apply in_map_iff in Hin. destruct Hin as [[s' x'] [E Hin]].
      cbn in E. subst s'. rewrite Forall_forall in F1. specialize (F1 _ Hin). cbn in F1. lia.
    + constructor; [exact H1|]. eapply Forall_impl; [|exact F1]. intros [s' x']; cbn; lia.
Qed.

Lemma clen_body_keeps_desc tree maxSyms st :
  desc_below (cl_sym st) (cl_acc st) ->
  post (fun r => match r with
                 | inl st' => desc_below (cl_sym st') (cl_acc st')
                 | inr l => NoDup (map fst l)
                 end)
       (clen_body tree maxSyms st).
Proof.
  intros Hd. unfold clen_body. destruct (maxSyms <=? cl_sym st).
  - apply post_ret. rewrite fast_rev_eq, map_rev. apply NoDup_rev.
    exact (proj1 (desc_below_rev_nodup _ _ Hd)).
  - apply post_bind_any. intros clen.
    destruct (clen <? 16).
    + apply post_ret. cbn [cl_sym cl_acc]. destruct (0 <? clen).
      * cbn. split; [lia | exact Hd].
      * eapply desc_below_weaken; [|exact Hd]. lia.
    + apply post_bind_any. intros [cl rep]. apply post_bind_any. intros _.
      apply post_ret. cbn [cl_sym cl_acc]. destruct (0 <? cl).
      * replace (cl_sym st + rep) with (cl_sym st + N.of_nat (N.to_nat rep)) by lia.
        apply rep_codes_desc. exact Hd.
      * eapply desc_below_weaken; [|exact Hd]. lia.
Qed.

Lemma NoDup_filter {A} (f : A -> bool) (g : A -> N) l : NoDup (map g l) -> NoDup (map g (filter f l)).
Proof.
  induction l as [|x l IH]; cbn [filter map]; intros H; [constructor|].
  inversion H as [|? ? Hn Hr]; subst. destruct (f x); cbn [map].
  - constructor; [|apply IH; exact Hr]. intros Hin. apply Hn.
    apply in_map_iff in Hin. destruct Hin as [y [E Hy]]. apply filter_In in Hy.
    apply in_map_iff. exists y. split; [exact E | exact (proj1 Hy)].
  - apply IH. exact Hr.
Qed.

(* the literal/length and distance length lists of a dynamic block header *)
Theorem header_lists_nodup tree maxSyms numLit :
  post (fun lens =>
          NoDup (map fst (filter (fun sl => fst sl <? numLit) lens)) /\
          NoDup (map fst (map (fun sl => (fst sl - numLit, snd sl))
                              (filter (fun sl => negb (fst sl <? numLit)) lens))))
       (loop 10 (clen_body tree maxSyms) (mkClst 0 0 [])).
Proof.
  eapply post_weaken.
  - apply (post_loop (fun st => desc_below (cl_sym st) (cl_acc st)) (fun l => NoDup (map fst l))).
    + intros st Hst. apply clen_body_keeps_desc. exact Hst.
    + cbn. exact I.
  - intros lens Hnd. split.
    + apply NoDup_filter. exact Hnd.
    + rewrite map_map. cbn [fst].
      assert (H : NoDup (map fst (filter (fun sl => negb (fst sl <? numLit)) lens))) by (apply NoDup_filter; exact Hnd).
      assert (Hge : Forall (fun sl => numLit <= fst sl) (filter (fun sl : N * N => negb (fst sl <? numLit)) lens)).
      { apply Forall_forall. intros x Hx. apply filter_In in Hx. destruct Hx as [_ Hx].
        apply negb_true_iff, N.ltb_ge in Hx. exact Hx. }
      revert H Hge. generalize (filter (fun sl : N * N => negb (fst sl <? numLit)) lens) as l.
      induction l as [|x l IH]; cbn [map]; intros H Hge; [constructor|].
      inversion H as [|? ? Hn Hr]; subst. inversion Hge as [|? ? Hx Hl]; subst.
      constructor; [|apply IH; assumption].
      intros Hin. apply Hn. apply in_map_iff in Hin. destruct Hin as [y [E Hy]].
      apply in_map_iff. exists y. split; [|exact Hy].
      rewrite Forall_forall in Hl. specialize (Hl y Hy). lia.
Qed.
