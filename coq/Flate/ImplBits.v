(* The bit-level operations of the flate Reader (ReadBits / TryReadBits, ReadPads, Flush, raw
   Read, ReadSymbol / TryReadSymbol with a raised MinBits) against the invariant [BIs] of
   Flate/ImplRel.v: each operation returns the stream bits at the abstract position R, advances
   R by exactly what it consumed and re-establishes [BIs] with the look-ahead slack that is
   left. Builds on Prefix/ReaderThms.v, Prefix/DecReadThms.v, Prefix/DecReadBufThms.v. *)
From V Require Import Base.Prelude Base.Prog Bzip2.Common Prefix.Code
  Prefix.ReaderImpl Prefix.ReaderSpec Prefix.ReaderThms
  Prefix.DecTable Prefix.DecTableSpec Prefix.DecTableThms Prefix.DecReadThms Prefix.DecReadBufThms.
From V Require Import Flate.Impl Flate.ImplRel.
From Coq Require Import ZifyBool ZifyN ZifyNat.

Local Open Scope N_scope.

Local Ltac prj := cbn [p_src p_buffered p_big p_bufBits p_numBits p_peek p_discard p_fed p_offset
                       s_data s_pos s_buf s_fills s_reads fst snd].

Lemma prd_eta p :
  mkPrd (p_src p) (p_buffered p) (p_big p) (p_bufBits p) (p_numBits p) (p_peek p) (p_discard p)
        (p_fed p) (p_offset p) = p.
Proof. destruct p; reflexivity. Qed.

Lemma shiftr_lt_pow2 v n s : v < 2 ^ n -> s <= n -> N.shiftr v s < 2 ^ (n - s).
Proof.
  intros Hv Hs. rewrite N.shiftr_div_pow2. apply N.div_lt_upper_bound; [apply pow2_nz|].
  rewrite <- N.pow_add_r. replace (s + (n - s)) with n by lia. exact Hv.
Qed.

Lemma flush_bits p :
  p_bufBits (snd (flush p)) = p_bufBits p /\ p_numBits (snd (flush p)) = p_numBits p.
Proof.
  unfold flush. destruct (p_buffered p); cbn [negb]; [|split; reflexivity].
  destruct (src_discard _ _) as [[got short] s']. prj. split; reflexivity.
Qed.

(* draining whole bytes: the buffer is shifted down by 8 j bits *)
Lemma drain_shape k : forall p acc, p_numBits p mod 8 = 0 ->
  exists j : nat, 8 * N.of_nat j <= p_numBits p /\
    length (fst (drain k p acc)) = (length acc + j)%nat /\
    p_bufBits (snd (drain k p acc)) = N.shiftr (p_bufBits p) (8 * N.of_nat j) /\
    p_numBits (snd (drain k p acc)) = p_numBits p - 8 * N.of_nat j.
Proof.
  induction k as [|k IH]; intros p acc Hm.
  - exists 0%nat. cbn [drain fst snd]. rewrite fast_rev_eq, rev_length.
    split; [lia|]. split; [lia|]. split; [rewrite N.shiftr_0_r; reflexivity | lia].
  - rewrite drain_S. destruct (p_numBits p =? 0) eqn:E0.
    + exists 0%nat. cbn [fst snd]. rewrite fast_rev_eq, rev_length.
      split; [lia|]. split; [lia|]. split; [rewrite N.shiftr_0_r; reflexivity | lia].
    + assert (H8 : 8 <= p_numBits p) by lia.
      assert (Eb : p_bufBits (snd (take_bits p 8)) = N.shiftr (p_bufBits p) 8) by reflexivity.
      assert (En : p_numBits (snd (take_bits p 8)) = p_numBits p - 8) by reflexivity.
      destruct (IH (snd (take_bits p 8)) (ord (p_big p) (fst (take_bits p 8)) :: acc))
        as (j & J1 & J2 & J3 & J4).
      { rewrite En. lia. }
      rewrite Eb in J3. rewrite En in J1, J4.
      exists (S j). split; [lia|]. split; [rewrite J2; cbn [length]; lia|].
      split.
      * rewrite J3, N.shiftr_shiftr. f_equal. lia.
      * rewrite J4. lia.
Qed.

(* what a raw Read leaves in the bit buffer *)
Lemma read_raw_buf p kk : p_numBits p mod 8 = 0 ->
  let '((bs, e), p') := read_raw p kk in
  (exists j : nat, j = length bs /\ 8 * N.of_nat j <= p_numBits p /\
     p_bufBits p' = N.shiftr (p_bufBits p) (8 * N.of_nat j) /\
     p_numBits p' = p_numBits p - 8 * N.of_nat j) \/
  (p_bufBits p' = 0 /\ p_numBits p' = 0).
Proof.
  intros Hm. unfold read_raw. destruct (0 <? p_numBits p) eqn:Epos.
  - replace (p_numBits p mod 8 =? 0) with true by lia. cbn [negb].
    destruct (drain_shape kk p [] Hm) as (j & J1 & J2 & J3 & J4).
    destruct (drain kk p []) as [bs p']. cbn [fst snd length] in *.
    left. exists j. split; [lia|]. split; [exact J1|]. split; [exact J3 | exact J4].
  - set (p0 := mkPrd _ _ _ _ _ _ _ _ _).
    destruct (flush_bits p0) as [F1 F2].
    destruct (flush p0) as [short p1]. cbn [snd] in F1, F2. unfold p0 in F1, F2. prj.
    cbn [p_bufBits p_numBits] in F1, F2.
    destruct short.
    + right. split; [exact F1 | lia].
    + destruct (src_read (p_src p1) kk) as [[bs eof] s']. right. prj. split; [exact F1 | lia].
Qed.

Lemma pull_bytes_enough f p nb : nb <= p_numBits p -> pull_bytes (S f) p nb = (false, p).
Proof.
  intros H. cbn [pull_bytes]. replace (nb <=? p_numBits p) with true by lia. reflexivity.
Qed.

(* ReadSymbol never looks at MinBits after the first request *)
Lemma rs_loop_min d0 m fuel : forall p nb,
  read_symbol_loop fuel (set_min_bits d0 m) p nb = read_symbol_loop fuel d0 p nb.
Proof.
  induction fuel as [|fuel IH]; intros p nb; cbn [read_symbol_loop]; [reflexivity|].
  destruct (pull_bits p nb) as [[|] p1]; [reflexivity|].
  change (dec_lookup (set_min_bits d0 m) (p_bufBits p1)) with (dec_lookup d0 (p_bufBits p1)).
  destruct (dec_lookup d0 (p_bufBits p1)) as [[s nb']|]; [|reflexivity].
  destruct (nb' <=? p_numBits p1); [reflexivity | apply IH].
Qed.

Lemma sym_empty f p : (f = sym_slow \/ f = sym_fast) -> f empty_dec p = (RThrow EInvalid, p).
Proof.
  intros [-> | ->].
  - reflexivity.
  - unfold sym_fast, try_read_symbol.
    change (a_len (d_chunks empty_dec) =? 0) with true. rewrite orb_true_r. reflexivity.
Qed.

Section Bits.
Variable data : list byte.
Hypothesis Hd : forall b, In b data -> b < 256.

Notation PI := (PI false data).
Notation Inv := (Inv false data).
Notation LA := (LA false data).
Notation ZA := (ZA data).

Lemma BIs_weaken k k' R p : k <= k' -> BIs data k R p -> BIs data k' R p.
Proof.
  intros Hk (H1 & H2 & H3). split; [exact H1|]. split; [exact H2|].
  intros Hb. destruct (H3 Hb) as [Hz Hn]. split; [exact Hz | lia].
Qed.

Lemma BIs_PI k R p : BIs data k R p -> PI R p.
Proof. intros (H1 & _). exact H1. Qed.

Lemma BIs_Inv R p : BIs data 0 R p -> Inv R p.
Proof.
  intros (H1 & _ & H3). apply PI_Inv; [exact H1|]. intros Hb. destruct (H3 Hb) as [_ Hn]. lia.
Qed.

Lemma BIs_init bf fills reads : BIs data 0 0 (init data bf false fills reads).
Proof.
  split; [apply Inv_PI, Inv_init|]. split.
  - intros _. apply init_la. exact Hd.
  - intros Hb. unfold init in Hb. cbn [p_buffered] in Hb. subst bf.
    split; [apply init_za|]. unfold init. prj. lia.
Qed.

Lemma BIs_range k R p : BIs data k R p -> (R + N.to_nat (p_numBits p) <= nbits data)%nat.
Proof.
  intros (H1 & _). destruct (PI_numBits false data Hd R p H1) as (_ & H & _). unfold nbits. exact H.
Qed.

Lemma BIs_offset k R p : BIs data k R p ->
  p_offset p = Z.of_nat (s_pos (p_src p)) /\ s_data (p_src p) = data /\ p_big p = false.
Proof.
  intros ([[C1 C2 C3 _ _ _] _] & _). split; [exact C3|]. split; [exact C2 | exact C1].
Qed.

(* ---- PullBits from a state with slack ---------------------------------------------------------- *)
Lemma pull_ok' R p nb : PI R p -> nb <= 57 ->
  match pull_bits p nb with
  | (false, p') => PI R p' /\ nb <= p_numBits p' /\ p_buffered p' = p_buffered p /\
                   (p_buffered p = false -> (p_numBits p' < nb + 8 \/ p' = p))
  | (true, _) => (8 * length data < R + N.to_nat nb)%nat
  end.
Proof.
  intros HP Hnb. destruct (p_buffered p) eqn:Hb.
  - pose proof (pull_ok false data Hd R p nb HP Hnb ltac:(intros Hx; congruence)) as H.
    destruct (pull_bits p nb) as [[|] p']; [exact H|].
    destruct H as (H1 & H2 & H3 & _). split; [exact H1|]. split; [exact H2|].
    split; [congruence | discriminate].
  - destruct (nb <=? p_numBits p) eqn:E.
    + unfold pull_bits. rewrite Hb. rewrite (pull_bytes_enough 8 p nb) by lia.
      split; [exact HP|]. split; [lia|]. split; [exact Hb|]. intros _. right. reflexivity.
    + pose proof (pull_ok false data Hd R p nb HP Hnb ltac:(intros _; lia)) as H.
      destruct (pull_bits p nb) as [[|] p']; [exact H|].
      destruct H as (H1 & H2 & H3 & H4). split; [exact H1|]. split; [exact H2|].
      split; [congruence|]. intros _. left. apply H4. exact Hb.
Qed.

(* the discipline invariant: look-ahead bits are stream bits (buffered) or zero (ByteReader) *)
Definition QD (R : nat) (p : prd) : Prop :=
  (p_buffered p = true -> LA R p) /\ (p_buffered p = false -> ZA p).

Lemma BIs_QD k R p : BIs data k R p -> QD R p.
Proof.
  intros (_ & H2 & H3). split; [exact H2|]. intros Hb. apply (H3 Hb).
Qed.

Lemma pull_qd R p nb p' : PI R p -> QD R p -> nb <= 57 -> pull_bits p nb = (false, p') -> QD R p'.
Proof.
  intros HP [Q1 Q2] Hnb E.
  pose proof (pull_ok' R p nb HP Hnb) as H. rewrite E in H. destruct H as (_ & _ & Hb & _).
  split; intros Hb'; rewrite Hb in Hb'.
  - apply (pull_bits_la false data Hd R p nb p' HP Hb' Hnb (Q1 Hb') E).
  - apply (pull_bits_za data Hd p nb p' Hnb (Q2 Hb') E).
Qed.

(* consuming nb <= numBits bits *)
Lemma take_sim R p nb : PI R p -> QD R p -> nb <= p_numBits p ->
  (R + N.to_nat nb <= nbits data)%nat /\
  fst (take_bits p nb) = sval data R nb /\
  PI (R + N.to_nat nb) (snd (take_bits p nb)) /\
  QD (R + N.to_nat nb) (snd (take_bits p nb)) /\
  p_buffered (snd (take_bits p nb)) = p_buffered p /\
  p_numBits (snd (take_bits p nb)) = p_numBits p - nb.
Proof.
  intros HP [Q1 Q2] Hnb.
  destruct (take_ok false data Hd R p nb HP Hnb) as (T1 & T2 & T3).
  destruct (PI_numBits false data Hd R p HP) as (_ & Hin & _).
  split; [unfold nbits; lia|]. split.
  { destruct HP as [[_ _ _ _ [_ _ _ W4 _] _] _]. unfold take_bits, sval. cbn [fst].
    apply (exact_bits_at false data R _ (p_numBits p) nb W4 Hnb). }
  split; [exact T1|]. split; [|split; [exact T2 | exact T3]].
  split; intros Hb; rewrite T2 in Hb.
  - destruct (Q1 Hb) as (m & Hu & Hm). exists (m - nb). unfold take_bits. prj.
    split; [apply upto_shiftr; [exact Hd | exact Hu] | lia].
  - apply take_bits_za; [exact Hd | apply Q2; exact Hb | exact Hnb].
Qed.

Lemma mk_BIs k R p : PI R p -> QD R p -> (p_buffered p = false -> p_numBits p < k + 8) ->
  BIs data k R p.
Proof.
  intros HP [Q1 Q2] Hn. split; [exact HP|]. split; [exact Q1|].
  intros Hb. split; [apply Q2; exact Hb | apply Hn; exact Hb].
Qed.

Lemma BIs_slack k R p : BIs data k R p -> p_buffered p = false -> p_numBits p < k + 8.
Proof. intros (_ & _ & H3) Hb. apply (H3 Hb). Qed.

(* ---- ReadBits / TryReadBits ---------------------------------------------------------------------- *)
Lemma read_bits_sim k R p nb : BIs data k R p -> nb <= 57 ->
  match read_bits p nb with
  | (Some v, p') => (R + N.to_nat nb <= nbits data)%nat /\ v = sval data R nb /\
                    BIs data (k - nb) (R + N.to_nat nb) p' /\ p_buffered p' = p_buffered p
  | (None, p') => (nbits data < R + N.to_nat nb)%nat
  end.
Proof.
  intros HB Hnb. pose proof (BIs_PI _ _ _ HB) as HP. pose proof (BIs_QD _ _ _ HB) as HQ.
  pose proof (BIs_slack _ _ _ HB) as Hs.
  unfold read_bits. pose proof (pull_ok' R p nb HP Hnb) as Hpull.
  destruct (pull_bits p nb) as [[|] p1] eqn:Ep; [unfold nbits; exact Hpull|].
  destruct Hpull as (HP1 & Hn1 & Hb1 & Hs1).
  pose proof (pull_qd R p nb p1 HP HQ Hnb Ep) as HQ1.
  destruct (take_sim R p1 nb HP1 HQ1 Hn1) as (T0 & T1 & T2 & T3 & T4 & T5).
  destruct (take_bits p1 nb) as [v p2]. cbn [fst snd] in *.
  split; [exact T0|]. split; [exact T1|]. split; [|congruence].
  apply mk_BIs; [exact T2 | exact T3|].
  intros Hb. rewrite T4, Hb1 in Hb. rewrite T5.
  destruct (Hs1 Hb) as [Hlt | ->]; [lia|]. specialize (Hs Hb). lia.
Qed.

Lemma bits_fast_sim k R p nb : BIs data k R p -> nb <= 57 ->
  match bits_fast p nb with
  | (Some v, p') => (R + N.to_nat nb <= nbits data)%nat /\ v = sval data R nb /\
                    BIs data (k - nb) (R + N.to_nat nb) p' /\ p_buffered p' = p_buffered p
  | (None, p') => (nbits data < R + N.to_nat nb)%nat
  end.
Proof.
  intros HB Hnb. unfold bits_fast, try_read_bits.
  destruct (p_numBits p <? nb) eqn:E.
  - apply read_bits_sim; assumption.
  - pose proof (BIs_PI _ _ _ HB) as HP. pose proof (BIs_QD _ _ _ HB) as HQ.
    pose proof (BIs_slack _ _ _ HB) as Hs.
    destruct (take_sim R p nb HP HQ ltac:(lia)) as (T0 & T1 & T2 & T3 & T4 & T5).
    destruct (take_bits p nb) as [v p2]. cbn [fst snd] in *.
    split; [exact T0|]. split; [exact T1|]. split; [|exact T4].
    apply mk_BIs; [exact T2 | exact T3|].
    intros Hb. rewrite T4 in Hb. rewrite T5. specialize (Hs Hb). lia.
Qed.

(* ---- ReadPads ---------------------------------------------------------------------------------------- *)
Lemma read_pads_sim k R p : BIs data k R p ->
  let n := ((8 - R mod 8) mod 8)%nat in
  (R + n <= nbits data)%nat /\ fst (read_pads p) = sval data R (N.of_nat n) /\
  BIs data (k - N.of_nat n) (R + n) (snd (read_pads p)) /\
  p_buffered (snd (read_pads p)) = p_buffered p.
Proof.
  intros HB n. pose proof (BIs_PI _ _ _ HB) as HP. pose proof (BIs_QD _ _ _ HB) as HQ.
  pose proof (BIs_slack _ _ _ HB) as Hs.
  assert (He : p_numBits p mod 8 = N.of_nat n).
  { destruct HP as [[_ _ _ _ [_ W2 _ _ _] _] _]. unfold n. lia. }
  unfold read_pads. rewrite He.
  destruct (take_sim R p (N.of_nat n) HP HQ ltac:(lia)) as (T0 & T1 & T2 & T3 & T4 & T5).
  rewrite Nat2N.id in T0, T2, T3.
  split; [exact T0|]. split; [exact T1|]. split; [|exact T4].
  apply mk_BIs; [exact T2 | exact T3|].
  intros Hb. rewrite T4 in Hb. rewrite T5. specialize (Hs Hb). lia.
Qed.

(* ---- Flush ---------------------------------------------------------------------------------------------- *)
Lemma flush_sim k R p : BIs data k R p ->
  exists p', flush p = (false, p') /\ BIs data k R p' /\ p_buffered p' = p_buffered p /\
    p_offset p' = Z.of_nat (s_pos (p_src p')) /\
    (k = 0 \/ p_buffered p = true ->
       p_offset p' = Z.of_nat ((R + 7) / 8) /\ s_pos (p_src p') = ((R + 7) / 8)%nat).
Proof.
  intros HB. destruct (p_buffered p) eqn:Hb.
  - assert (HI : Inv R p).
    { apply PI_Inv; [apply (BIs_PI _ _ _ HB) | intros Hx; congruence]. }
    destruct (flush_ok false data R p HI) as (p' & Hf & HI' & Hb' & Hoff & Hpos & Hbb & Hnn & _).
    exists p'. split; [exact Hf|]. rewrite Hb in Hb'. split.
    + apply mk_BIs; [apply Inv_PI; exact HI' | | intros Hx; congruence].
      split; [|intros Hx; congruence]. intros _.
      destruct HB as (_ & H2 & _). destruct (H2 Hb) as (m & Hu & Hm).
      exists m. rewrite Hbb, Hnn. split; assumption.
    + split; [exact Hb'|]. split; [rewrite Hoff, Hpos; reflexivity|].
      intros _. split; assumption.
  - exists p. unfold flush. rewrite Hb. cbn [negb]. split; [reflexivity|].
    split; [exact HB|]. split; [reflexivity|].
    destruct (BIs_offset _ _ _ HB) as (Ho & _). split; [exact Ho|].
    intros [-> | Hx]; [|discriminate].
    destruct (flush_ok false data R p (BIs_Inv _ _ HB)) as (p' & Hf & _ & _ & Hoff & Hpos & _).
    unfold flush in Hf. rewrite Hb in Hf. cbn [negb] in Hf. inversion Hf; subst p'.
    split; assumption.
Qed.

(* ---- raw Read --------------------------------------------------------------------------------------------- *)
Lemma read_raw_sim R p kk : BIs data 0 R p -> (R mod 8 = 0)%nat ->
  let '((bs, e), p') := read_raw p kk in
  (length bs <= kk)%nat /\ bs = firstn (length bs) (skipn (R / 8) data) /\
  (e = 0 \/ e = 1) /\ (e = 1 -> bs = [] /\ (length data <= R / 8)%nat) /\
  (e = 0 -> bs = [] -> kk = O) /\ (kk <> O -> (length data <= R / 8)%nat -> e = 1) /\
  BIs data 0 (R + 8 * length bs) p' /\ p_buffered p' = p_buffered p.
Proof.
  intros HB HR. pose proof (BIs_Inv _ _ HB) as HI. pose proof (BIs_QD _ _ _ HB) as [Q1 Q2].
  assert (Hm8 : p_numBits p mod 8 = 0).
  { destruct HI as [[_ _ _ _ [_ W2 _ _ _] _] _]. lia. }
  pose proof (read_raw_ok false data Hd R p kk HI) as Hok.
  pose proof (read_raw_buf p kk Hm8) as Hbuf.
  destruct (read_raw p kk) as [[bs e] p'].
  destruct Hok as (Hb' & [(Hx & _)|(_ & H2 & H3 & H4 & H5 & H6 & H7 & HI')]); [lia|].
  split; [exact H2|]. split; [exact H3|]. split; [exact H6|]. split; [exact H4|].
  split; [exact H5|]. split; [exact H7|]. split; [|exact Hb'].
  assert (Hdata : s_data (p_src p') = data).
  { destruct HI' as [[_ C2 _ _ _ _] _]. exact C2. }
  apply mk_BIs; [apply Inv_PI; exact HI' | |].
  - split; intros Hbp; rewrite Hb' in Hbp.
    + destruct Hbuf as [(j & -> & J1 & J3 & J4)|(J3 & J4)].
      * destruct (Q1 Hbp) as (m & Hu & Hm). exists (m - 8 * N.of_nat (length bs)).
        rewrite J3, J4. split; [|lia].
        replace (R + 8 * length bs)%nat with (R + N.to_nat (8 * N.of_nat (length bs)))%nat by lia.
        apply upto_shiftr; [exact Hd | exact Hu].
      * exists 0. rewrite J3, J4. split; [apply upto_0; exact Hd | lia].
    + destruct (Q2 Hbp) as (_ & _ & Z3).
      split; [congruence|]. split; [exact Hdata|].
      destruct Hbuf as [(j & -> & J1 & J3 & J4)|(J3 & J4)]; rewrite J3, J4.
      * apply shiftr_lt_pow2; assumption.
      * cbn. lia.
  - intros Hbp. destruct HI' as (_ & H7' & _). unfold effd in H7'. rewrite Hbp in H7'. lia.
Qed.

(* ---- ReadSymbol / TryReadSymbol with MinBits = m ------------------------------------------------- *)
Section Sym.
Variable L : N.
Variable codes : list pcode.
Hypothesis HL : L <= 31.
Hypothesis HV : dec_valid L codes.
Hypothesis HZ : zero_min codes.
Variable d0 : dec.
Hypothesis HT : tables_ok codes d0.
Variable m : N.                         (* the MinBits actually installed *)
Hypothesis Hm1 : min_bits codes <= m.
Hypothesis Hm2 : m <= max_bits codes.
Let d := set_min_bits d0 m.

Notation window := (window false data).

Lemma m_le_31 : m <= 31.
Proof. pose proof (v_M L codes HL HV). lia. Qed.

Lemma clen_le_31 c : In c codes -> c_len c <= 31.
Proof. intros Hc. pose proof (v_len L codes HV c Hc). lia. Qed.

(* with zero-minimal codes the table walk never asks for more bits than the next code word has *)
Lemma req_bound R q c c' : PI R q -> QD R q ->
  In c codes -> matches c (window R) ->
  In c' codes -> matches c' (p_bufBits q) -> p_numBits q < c_len c' -> c_len c' <= c_len c.
Proof.
  intros HPq [Q1 Q2] Hc Hm Hc' Hm' Hlt. destruct (p_buffered q) eqn:Hb.
  - destruct (Q1 eq_refl) as (mm & Hu & Hnm).
    pose proof (upto_window false data Hd R _ mm Hu) as Ew.
    destruct (N.le_gt_cases (c_len c) mm) as [Hge|Hk].
    + assert (Hmq : matches c (p_bufBits q)).
      { apply (matches_low c (window R) (p_bufBits q) mm Hge); [|exact Hm].
        rewrite Ew. symmetry. apply N.mod_mod, pow2_nz. }
      pose proof (dv_unique _ _ HV _ c' c Hc' Hc Hm' Hmq) as ->. lia.
    + apply (HZ c mm c' Hc Hc' Hk).
      unfold matches in Hm. rewrite <- Hm. rewrite mod_mod_pow by lia. rewrite <- Ew. exact Hm'.
  - destruct (Q2 eq_refl) as (Z1 & Z2 & Z3).
    destruct (PI_numBits false data Hd R q HPq) as (_ & _ & Ew).
    rewrite (N.mod_small _ _ Z3) in Ew.
    destruct (N.le_gt_cases (c_len c) (p_numBits q)) as [Hge|Hk].
    + assert (Hmq : matches c (p_bufBits q)).
      { apply (matches_low c (window R) (p_bufBits q) (p_numBits q) Hge); [|exact Hm].
        rewrite <- Ew. symmetry. apply N.mod_small. exact Z3. }
      pose proof (dv_unique _ _ HV _ c' c Hc' Hc Hm' Hmq) as ->. lia.
    + apply (HZ c (p_numBits q) c' Hc Hc' Hk).
      unfold matches in Hm. rewrite <- Hm. rewrite mod_mod_pow by lia. rewrite <- Ew. exact Hm'.
Qed.

(* the loop from a state with slack S: every request is m or at most the length of the code word *)
Lemma rs_loop_slack R c : In c codes -> matches c (window R) ->
  (R + N.to_nat (N.max m (c_len c)) <= 8 * length data)%nat ->
  forall fuel p nb S, PI R p -> QD R p -> nb <= N.max m (c_len c) ->
    N.max m (c_len c) < nb + N.of_nat fuel ->
    (p_buffered p = false -> p_numBits p < S + 8) ->
    exists p', read_symbol_loop fuel d0 p nb = (RSym (c_sym c mod 2 ^ 27), p') /\
      PI (R + N.to_nat (c_len c)) p' /\ QD (R + N.to_nat (c_len c)) p' /\
      p_buffered p' = p_buffered p /\
      (p_buffered p = false -> p_numBits p' + c_len c < N.max (N.max S nb) (c_len c) + 8).
Proof.
  intros Hc Hm HB. pose proof m_le_31 as Hm31. pose proof (clen_le_31 c Hc) as Hc31.
  induction fuel as [|fuel IH]; intros p nb S HP HQ Hnb Hfuel Hs; [lia|].
  cbn [read_symbol_loop].
  pose proof (pull_ok' R p nb HP ltac:(lia)) as Hpull.
  destruct (pull_bits p nb) as [[|] p1] eqn:Ep; [lia|].
  destruct Hpull as (HP1 & Hn1 & Hb1 & Hs1).
  pose proof (pull_qd R p nb p1 HP HQ ltac:(lia) Ep) as HQ1.
  destruct (lookup_state false data Hd L codes HL HV d0 HT R p1 HP1) as (c' & Hc' & Hm' & El & Hreal).
  rewrite El. destruct (c_len c' <=? p_numBits p1) eqn:Ele.
  - apply N.leb_le in Ele.
    pose proof (dv_unique _ _ HV (window R) c' c Hc' Hc (Hreal Ele) Hm) as ->.
    destruct (take_sim R p1 (c_len c) HP1 HQ1 Ele) as (_ & _ & T2 & T3 & T4 & T5).
    exists (snd (take_bits p1 (c_len c))). split; [reflexivity|]. split; [exact T2|].
    split; [exact T3|]. split; [congruence|].
    intros Hb. rewrite T5. destruct (Hs1 Hb) as [Hlt | ->]; [lia|]. specialize (Hs Hb). lia.
  - apply N.leb_gt in Ele.
    pose proof (req_bound R p1 c c' HP1 HQ1 Hc Hm Hc' Hm' Ele) as HleC.
    destruct (IH p1 (c_len c') (N.max S nb) HP1 HQ1 ltac:(lia) ltac:(lia))
      as (p' & E & P' & Q' & Hb' & Hsl).
    { intros Hb. rewrite Hb1 in Hb. destruct (Hs1 Hb) as [Hlt | ->]; [lia|]. specialize (Hs Hb). lia. }
    exists p'. split; [exact E|]. split; [exact P'|]. split; [exact Q'|]. split; [congruence|].
    intros Hb. rewrite <- Hb1 in Hb. specialize (Hsl Hb). lia.
Qed.

(* the first request cannot be served *)
Lemma rs_loop_short R fuel p nb : PI R p -> nb <= 57 -> (8 * length data < R + N.to_nat nb)%nat ->
  exists p', read_symbol_loop (S fuel) d0 p nb = (RUEOF, p').
Proof.
  intros HP Hnb Hshort. cbn [read_symbol_loop].
  pose proof (pull_ok' R p nb HP Hnb) as Hpull.
  destruct (pull_bits p nb) as [[|] p1]; [exists p1; reflexivity|].
  destruct Hpull as (HP1 & Hn1 & _). exfalso.
  destruct (PI_numBits false data Hd R p1 HP1) as (_ & Hin & _). lia.
Qed.

(* the stream ends inside every candidate code word *)
Lemma rs_loop_eof' R :
  (forall c, In c codes -> matches c (window R) -> (8 * length data < R + N.to_nat (c_len c))%nat) ->
  forall fuel p nb, PI R p -> nb <= 31 -> 31 < nb + N.of_nat fuel ->
    exists p', read_symbol_loop fuel d0 p nb = (RUEOF, p').
Proof.
  intros Hend. induction fuel as [|fuel IH]; intros p nb HP Hnb Hfuel; [lia|].
  cbn [read_symbol_loop].
  pose proof (pull_ok' R p nb HP ltac:(lia)) as Hpull.
  destruct (pull_bits p nb) as [[|] p1] eqn:Ep; [exists p1; reflexivity|].
  destruct Hpull as (HP1 & Hn1 & Hb1 & Hlt1).
  destruct (lookup_state false data Hd L codes HL HV d0 HT R p1 HP1) as (c' & Hc' & Hm' & El & Hreal).
  rewrite El. destruct (c_len c' <=? p_numBits p1) eqn:Ele.
  - apply N.leb_le in Ele. exfalso.
    pose proof (Hend c' Hc' (Hreal Ele)) as Hshort.
    destruct (PI_numBits false data Hd R p1 HP1) as (_ & Hin & _). lia.
  - apply N.leb_gt in Ele. apply IH; [exact HP1 | apply clen_le_31; exact Hc' | lia].
Qed.

Lemma sym_slow_eq p :
  sym_slow d p = (of_rsres (fst (read_symbol_loop 34 d0 p m)), snd (read_symbol_loop 34 d0 p m)).
Proof.
  unfold sym_slow, dt_read_symbol, d.
  change (a_len (d_chunks (set_min_bits d0 m))) with (a_len (d_chunks d0)).
  change (d_minBits (set_min_bits d0 m)) with m.
  rewrite (chunks_nonempty codes d0 HT), rs_loop_min.
  destruct (read_symbol_loop 34 d0 p m) as [r p']. reflexivity.
Qed.

Lemma sym_slow_ok k R p c : BIs data k R p -> In c codes -> matches c (window R) ->
  (R + N.to_nat (N.max m (c_len c)) <= nbits data)%nat ->
  exists p', sym_slow d p = (ROk (c_sym c mod 2 ^ 27), p') /\
    BIs data (N.max k m - c_len c) (R + N.to_nat (c_len c)) p' /\ p_buffered p' = p_buffered p.
Proof.
  intros HB Hc Hm Hlen. unfold nbits in Hlen.
  pose proof m_le_31 as Hm31. pose proof (clen_le_31 c Hc) as Hc31.
  destruct (rs_loop_slack R c Hc Hm Hlen 34%nat p m k (BIs_PI _ _ _ HB) (BIs_QD _ _ _ HB)
              ltac:(lia) ltac:(lia) (BIs_slack _ _ _ HB)) as (p' & E & P' & Q' & Hb' & Hsl).
  exists p'. rewrite sym_slow_eq, E. cbn [fst snd of_rsres]. split; [reflexivity|].
  split; [|exact Hb'].
  apply mk_BIs; [exact P' | exact Q'|].
  intros Hb. rewrite Hb' in Hb. specialize (Hsl Hb). lia.
Qed.

Lemma sym_slow_short k R p : BIs data k R p -> (nbits data < R + N.to_nat m)%nat ->
  exists p', sym_slow d p = (RThrow EUEOF, p').
Proof.
  intros HB Hshort. unfold nbits in Hshort. pose proof m_le_31 as Hm31.
  destruct (rs_loop_short R 33%nat p m (BIs_PI _ _ _ HB) ltac:(lia) Hshort) as (p' & E).
  exists p'. rewrite sym_slow_eq, E. reflexivity.
Qed.

Lemma sym_slow_eof k R p : BIs data k R p ->
  (forall c, In c codes -> matches c (window R) -> (nbits data < R + N.to_nat (c_len c))%nat) ->
  exists p', sym_slow d p = (RThrow EUEOF, p').
Proof.
  intros HB Hend. unfold nbits in Hend. pose proof m_le_31 as Hm31.
  destruct (rs_loop_eof' R Hend 34%nat p m (BIs_PI _ _ _ HB) Hm31 ltac:(lia)) as (p' & E).
  exists p'. rewrite sym_slow_eq, E. reflexivity.
Qed.

(* TryReadSymbol declines, or decodes the code word the stream continues with from the
   buffered bits alone *)
Lemma try_sym_cases R p : PI R p ->
  try_read_symbol d p = (Some None, p) \/
  exists c', In c' codes /\ matches c' (window R) /\ c_len c' <= p_numBits p /\ m <= p_numBits p /\
    try_read_symbol d p = (Some (Some (c_sym c' mod 2 ^ 27)), snd (take_bits p (c_len c'))).
Proof.
  intros HP. unfold try_read_symbol, d.
  change (a_len (d_chunks (set_min_bits d0 m))) with (a_len (d_chunks d0)).
  change (d_minBits (set_min_bits d0 m)) with m.
  change (d_chunks (set_min_bits d0 m)) with (d_chunks d0).
  change (d_chunkMask (set_min_bits d0 m)) with (d_chunkMask d0).
  change (d_chunkBits (set_min_bits d0 m)) with (d_chunkBits d0).
  rewrite (chunks_nonempty codes d0 HT), orb_false_r.
  destruct (p_numBits p <? m) eqn:Em; [left; reflexivity|]. apply N.ltb_ge in Em.
  pose proof (v_cb L codes HL HV) as Hcb.
  destruct (lookup_state false data Hd L codes HL HV d0 HT R p HP) as (c' & Hc' & Hm' & _ & Hreal).
  pose proof (clen_le_31 c' Hc') as H31.
  rewrite (to_mask _ _ HT), land_mask, w32_mod by lia. rewrite (to_cb _ _ HT).
  destruct (N.le_gt_cases (c_len c') (chunk_bits codes)) as [Hs|Hl].
  - rewrite (to_short _ _ HT _ c' Hc' Hm' Hs). unfold chunk_of.
    rewrite mk_chunk_len, mk_chunk_sym by lia.
    destruct (p_numBits p <? c_len c') eqn:E1; [left; reflexivity|]. apply N.ltb_ge in E1.
    replace (chunk_bits codes <? c_len c') with false by (symmetry; apply N.ltb_ge; exact Hs).
    cbn [orb]. right. exists c'. split; [exact Hc'|]. split; [apply Hreal; exact E1|].
    split; [exact E1|]. split; [exact Em | reflexivity].
  - destruct (to_long _ _ HT _ c' Hc' Hm' Hl) as (_ & _ & Hg & _). rewrite Hg.
    rewrite link_chunk_len by lia.
    replace (chunk_bits codes <? chunk_bits codes + 1) with true by (symmetry; apply N.ltb_lt; lia).
    rewrite orb_true_r. left. reflexivity.
Qed.

Lemma sym_fast_ok k R p c : BIs data k R p -> In c codes -> matches c (window R) ->
  (R + N.to_nat (N.max m (c_len c)) <= nbits data)%nat ->
  exists p', sym_fast d p = (ROk (c_sym c mod 2 ^ 27), p') /\
    BIs data (N.max k m - c_len c) (R + N.to_nat (c_len c)) p' /\ p_buffered p' = p_buffered p.
Proof.
  intros HB Hc Hm Hlen. pose proof (BIs_PI _ _ _ HB) as HP. unfold sym_fast.
  destruct (try_sym_cases R p HP) as [E | (c' & Hc' & Hw & Hle & Hmle & E)]; rewrite E; cbv beta iota.
  - apply sym_slow_ok; assumption.
  - pose proof (dv_unique _ _ HV (window R) c' c Hc' Hc Hw Hm) as ->.
    destruct (take_sim R p (c_len c) HP (BIs_QD _ _ _ HB) Hle) as (_ & _ & T2 & T3 & T4 & T5).
    exists (snd (take_bits p (c_len c))). split; [reflexivity|]. split; [|exact T4].
    apply mk_BIs; [exact T2 | exact T3|].
    intros Hb. rewrite T4 in Hb. rewrite T5. pose proof (BIs_slack _ _ _ HB Hb). lia.
Qed.

Lemma sym_fast_short k R p : BIs data k R p -> (nbits data < R + N.to_nat m)%nat ->
  exists p', sym_fast d p = (RThrow EUEOF, p').
Proof.
  intros HB Hshort. pose proof (BIs_PI _ _ _ HB) as HP. unfold sym_fast.
  destruct (try_sym_cases R p HP) as [E | (c' & Hc' & Hw & Hle & Hmle & E)]; rewrite E; cbv beta iota.
  - apply (sym_slow_short k R p HB Hshort).
  - exfalso. pose proof (BIs_range _ _ _ HB). lia.
Qed.

Lemma sym_fast_eof k R p : BIs data k R p ->
  (forall c, In c codes -> matches c (window R) -> (nbits data < R + N.to_nat (c_len c))%nat) ->
  exists p', sym_fast d p = (RThrow EUEOF, p').
Proof.
  intros HB Hend. pose proof (BIs_PI _ _ _ HB) as HP. unfold sym_fast.
  destruct (try_sym_cases R p HP) as [E | (c' & Hc' & Hw & Hle & Hmle & E)]; rewrite E; cbv beta iota.
  - apply (sym_slow_eof k R p HB Hend).
  - exfalso. pose proof (BIs_range _ _ _ HB). pose proof (Hend c' Hc' Hw). lia.
Qed.

End Sym.

End Bits.

(* ---- non-vacuity: the example code of Prefix/DecReadThms.v with MinBits raised to 3 ------------- *)
Example sym_fast_ok_ex bf :
  exists d0 p', dec_init (fun i => i * 7 + 3) (fun _ => 5) ex_codes = IOk d0 /\
    sym_fast (set_min_bits d0 3) (init ex_data bf false [] []) = (ROk 1, p') /\
    BIs ex_data 1 2 p'.
Proof.
  destruct (dec_init_tables 27 ex_codes ltac:(lia) ex_valid (fun i => i * 7 + 3) (fun _ => 5))
    as (d0 & E & HT).
  destruct (sym_fast_ok ex_data ex_bytes 27 ex_codes ltac:(lia) ex_valid ex_zero_min d0 HT 3
              ltac:(vm_compute; discriminate) ltac:(vm_compute; discriminate) 0 0%nat (init ex_data bf false [] []) (1, 2, 1))
    as (p' & E1 & E2 & _).
  - apply BIs_init. exact ex_bytes.
  - right; left; reflexivity.
  - vm_compute. reflexivity.
  - vm_compute. lia.
  - exists d0, p'. split; [exact E|]. split; [exact E1 | exact E2].
Qed.

Print Assumptions BIs_weaken.
Print Assumptions BIs_Inv.
Print Assumptions BIs_PI.
Print Assumptions BIs_init.
Print Assumptions BIs_range.
Print Assumptions BIs_offset.
Print Assumptions prd_eta.
Print Assumptions read_bits_sim.
Print Assumptions bits_fast_sim.
Print Assumptions read_pads_sim.
Print Assumptions flush_sim.
Print Assumptions read_raw_sim.
Print Assumptions sym_slow_ok.
Print Assumptions sym_slow_short.
Print Assumptions sym_slow_eof.
Print Assumptions sym_fast_ok.
Print Assumptions sym_fast_short.
Print Assumptions sym_fast_eof.
Print Assumptions sym_empty.
Print Assumptions sym_fast_ok_ex.
