(* Shared definitions for the refinement proof  Flate/Impl.v  ->  Flate/Spec.v :
   the abstract machine state of the specification at a bit position, the invariant of the
   bit reader inside the flate Reader (with the look-ahead slack of the MinBits optimisation),
   the window relation, and the per-symbol simulation predicate. No proofs beyond unfolding. *)
From V Require Import Base.Prelude Base.Prog Bzip2.Common Prefix.Code
  Prefix.ReaderImpl Prefix.ReaderSpec Prefix.ReaderThms
  Prefix.DecTable Prefix.DecTableSpec Prefix.DecTableThms Prefix.DecReadThms Prefix.DecReadBufThms
  Window.Dict Window.DictSpec Window.DictThms.
From V Require Flate.Spec.
From V Require Import Flate.Impl.

Local Open Scope N_scope.

(* ---- the specification's machine state at bit position R with output [out] ------------------- *)
Definition sbits (data : list byte) : list bool := bytes_to_bits data.
Definition nbits (data : list byte) : nat := (8 * length data)%nat.

(* [out]: everything produced so far, oldest byte first *)
Definition sigma (data : list byte) (R : nat) (out : list byte) : ast :=
  mkAst (skipn R (sbits data)) (N.of_nat R) (rev out) (N.of_nat (length out)).

(* the specification fails with error e having produced exactly [out] *)
Definition fails {A} (e : err) (out : list byte) (r : result A) : Prop :=
  exists s', r = Fail e s' /\ a_out s' = rev out.

(* the specification fails (with whatever error) having produced at least [out] *)
Definition fails_after {A} (out : list byte) (r : result A) : Prop :=
  exists e s', r = Fail e s' /\ prefix_of out (rev (a_out s')).

(* the value of the nb stream bits at position R *)
Definition sval (data : list byte) (R : nat) (nb : N) : N :=
  bits_at (stream_bits false data) R (N.to_nat nb).

(* ---- the bit reader inside the flate Reader ---------------------------------------------------- *)
(* [BIs data k R p]: consistent with abstract position R (PI: a ByteReader may hold whole
   look-ahead bytes), the bits above numBits are real stream bits or zero (LA) / zero (ZA),
   and a ByteReader holds fewer than k + 8 bits. k = 0 is the invariant [Inv] of
   Prefix/ReaderThms.v: no byte beyond the one holding bit R-1 has been read. *)
Definition BIs (data : list byte) (k : N) (R : nat) (p : prd) : Prop :=
  PI false data R p /\
  (p_buffered p = true -> LA false data R p) /\
  (p_buffered p = false -> ZA data p /\ p_numBits p < k + 8).

(* val, ok := TryReadBits(nb); if !ok { val = ReadBits(nb) } *)
Definition bits_fast (p : prd) (nb : N) : option N * prd :=
  match try_read_bits p nb with
  | (Some v, p') => (Some v, p')
  | (None, p') => read_bits p' nb
  end.

Definition of_rsres (r : rsres) : res N :=
  match r with
  | RSym s => ROk s
  | RUEOF => RThrow EUEOF
  | RInvalid => RThrow EInvalid
  | RPanic => RThrow EPanic
  | RFuel => RThrow EFuel
  end.

(* ReadSymbol(pd) *)
Definition sym_slow (d : dec) (p : prd) : res N * prd :=
  let '(r, p') := dt_read_symbol d p in (of_rsres r, p').

(* sym, ok := TryReadSymbol(pd); if !ok { sym = ReadSymbol(pd) } *)
Definition sym_fast (d : dec) (p : prd) : res N * prd :=
  let '(r, p') := try_read_symbol d p in
  match r with
  | None => (RThrow EPanic, p')
  | Some (Some s) => (ROk s, p')
  | Some None => sym_slow d p'
  end.

Lemma m_read_bits_eq nb st :
  m_read_bits nb st =
  (match fst (read_bits (f_rd st) nb) with Some v => ROk v | None => RThrow EUEOF end,
   set_rd st (snd (read_bits (f_rd st) nb))).
Proof. unfold m_read_bits. destruct (read_bits (f_rd st) nb) as [[v|] p']; reflexivity. Qed.

Lemma m_bits_fast_eq nb st :
  m_bits_fast nb st =
  (match fst (bits_fast (f_rd st) nb) with Some v => ROk v | None => RThrow EUEOF end,
   set_rd st (snd (bits_fast (f_rd st) nb))).
Proof.
  unfold m_bits_fast, mbind, m_try_read_bits, bits_fast.
  destruct (try_read_bits (f_rd st) nb) as [[v|] p'] eqn:E; cbn [fst snd].
  - reflexivity.
  - unfold try_read_bits in E. destruct (p_numBits (f_rd st) <? nb).
    + inversion E; subst p'. rewrite m_read_bits_eq.
      destruct st; reflexivity.
    + destruct (take_bits (f_rd st) nb); discriminate.
Qed.

Lemma m_read_pads_eq st :
  m_read_pads st = (ROk (fst (read_pads (f_rd st))), set_rd st (snd (read_pads (f_rd st)))).
Proof. unfold m_read_pads. destruct (read_pads (f_rd st)); reflexivity. Qed.

Lemma m_read_symbol_eq d st :
  m_read_symbol d st = (fst (sym_slow d (f_rd st)), set_rd st (snd (sym_slow d (f_rd st)))).
Proof.
  unfold m_read_symbol, sym_slow. destruct (dt_read_symbol d (f_rd st)) as [r p'].
  destruct r; reflexivity.
Qed.

Lemma m_symbol_fast_eq d st :
  m_symbol_fast d st = (fst (sym_fast d (f_rd st)), set_rd st (snd (sym_fast d (f_rd st)))).
Proof.
  unfold m_symbol_fast, sym_fast. destruct (try_read_symbol d (f_rd st)) as [[[s|]|] p']; cbn [fst snd];
    try reflexivity.
  rewrite m_read_symbol_eq. destruct st; reflexivity.
Qed.

(* ---- per-symbol simulation --------------------------------------------------------------------- *)
(* The decoder tables [d] (MinBits = m) and the tree [t] of the specification decode the same
   symbols: from any reader state consistent with position R, ReadSymbol (with or without the
   TryReadSymbol fast path) returns the symbol the tree walk returns, consumes the same l
   bits (l = lenf sym), and fails exactly when the tree walk fails - except that with
   dv = true (ByteReader, MinBits raised to the length of the end-of-block code) it reports
   io.ErrUnexpectedEOF as soon as fewer than m bits remain. *)
Definition sym_sim_for (f : dec -> prd -> res N * prd)
    (data : list byte) (d : dec) (t : Flate.Spec.htree) (m : N) (dv : bool) (lenf : N -> N) : Prop :=
  forall k R p out, BIs data k R p ->
    let r := run (Flate.Spec.sym_or_corrupt t) (sigma data R out) in
    match f d p with
    | (ROk s, p') =>
        let l := lenf s in
        1 <= l /\ (R + N.to_nat (N.max m l) <= nbits data)%nat /\
        r = Done s (sigma data (R + N.to_nat l) out) /\
        BIs data (N.max k m - l) (R + N.to_nat l) p' /\ p_buffered p' = p_buffered p
    | (RThrow e, p') =>
        (e = EUEOF /\ fails EUEOF out r) \/ (e = EInvalid /\ fails ECorrupted out r) \/
        (dv = true /\ e = EUEOF /\ p_buffered p = false /\ (nbits data < R + N.to_nat m)%nat)
    end.

Definition SymSim (data : list byte) (d : dec) (t : Flate.Spec.htree) (m : N) (dv : bool) (lenf : N -> N) : Prop :=
  sym_sim_for sym_slow data d t m dv lenf /\ sym_sim_for sym_fast data d t m dv lenf.

(* ---- the window ---------------------------------------------------------------------------------- *)
(* the dictDecoder state represents the output [out] of which [fl] bytes have been handed out
   by ReadFlush; window size 32768; the buffer is not empty *)
Definition WInv (dc : dd) (out : list byte) (fl : Z) : Prop :=
  exists s, Window.DictThms.Inv dc s /\ s_out s = out /\ s_flushed s = fl /\
            d_size dc = maxHistSize /\ (1 <= d_len dc)%Z.
